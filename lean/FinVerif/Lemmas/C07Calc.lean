/-
  C07 — analytic helper lemmas (no property theorems here): the compound discount factor
  `disc f t y = (1/(1+y/f))^t` is positive, (strictly) decreasing and (strictly) convex in the yield on
  `y > −f`; finite non-negative combinations; products of positive decreasing convex functions.
-/
import FinVerif.Lemmas.C07Real
import Mathlib.Analysis.Convex.SpecificFunctions.Basic
import Mathlib.Analysis.Convex.Function

namespace FinVerif.Lemmas.C07
open Set FinVerif FinVerif.Model.C07 FinVerif.Spec.C07

/-- compound discount factor over `t` periods of length `1/f` at annual yield `y` -/
noncomputable def disc (f t : ℝ) (y : ℝ) : ℝ := (1 / (1 + y / f)) ^ t

theorem one_add_div_pos {f y : ℝ} (hf : 0 < f) (hy : y ∈ Ioi (-f)) : 0 < 1 + y / f := by
  have hy' : -f < y := hy
  have : -1 < y / f := by rw [lt_div_iff₀ hf]; linarith
  linarith

theorem disc_pos {f : ℝ} (hf : 0 < f) (t : ℝ) {y : ℝ} (hy : y ∈ Ioi (-f)) : 0 < disc f t y := by
  have := one_add_div_pos hf hy
  unfold disc
  exact Real.rpow_pos_of_pos (by positivity) t

/-- `disc f t y = exp (−t · log (1 + y/f))` on the admissible domain -/
theorem disc_eq_exp {f : ℝ} (hf : 0 < f) (t : ℝ) {y : ℝ} (hy : y ∈ Ioi (-f)) :
    disc f t y = Real.exp (-t * Real.log (1 + y / f)) := by
  have h := one_add_div_pos hf hy
  unfold disc
  rw [Real.rpow_def_of_pos (by positivity), one_div, Real.log_inv]
  ring_nf

theorem disc_antitoneOn {f t : ℝ} (hf : 0 < f) (ht : 0 ≤ t) : AntitoneOn (disc f t) (Ioi (-f)) := by
  intro x hx y hy hxy
  have hy' := one_add_div_pos hf hy
  have hx' := one_add_div_pos hf hx
  unfold disc
  apply Real.rpow_le_rpow (by positivity) _ ht
  apply one_div_le_one_div_of_le hx'
  have : x / f ≤ y / f := div_le_div_of_nonneg_right hxy hf.le
  linarith

theorem disc_strictAntiOn {f t : ℝ} (hf : 0 < f) (ht : 0 < t) : StrictAntiOn (disc f t) (Ioi (-f)) := by
  intro x hx y hy hxy
  have hy' := one_add_div_pos hf hy
  have hx' := one_add_div_pos hf hx
  unfold disc
  apply Real.rpow_lt_rpow (by positivity) _ ht
  apply one_div_lt_one_div_of_lt hx'
  have : x / f < y / f := div_lt_div_of_pos_right hxy hf
  linarith

theorem disc_strictConvexOn {f t : ℝ} (hf : 0 < f) (ht : 0 < t) : StrictConvexOn ℝ (Ioi (-f)) (disc f t) := by
  refine ⟨convex_Ioi _, ?_⟩
  intro x hx y hy hxy a b ha hb hab
  have hz : a • x + b • y ∈ Ioi (-f) := (convex_Ioi (-f)) hx hy ha.le hb.le hab
  have hux := one_add_div_pos hf hx
  have huy := one_add_div_pos hf hy
  rw [disc_eq_exp hf t hx, disc_eq_exp hf t hy, disc_eq_exp hf t hz]
  have hu : 1 + (a • x + b • y) / f = a • (1 + x / f) + b • (1 + y / f) := by
    simp only [smul_eq_mul]
    have : a + b = 1 := hab
    field_simp
    linear_combination (-f : ℝ) * this
  have hne : 1 + x / f ≠ 1 + y / f := by
    intro h
    apply hxy
    have : x / f = y / f := by linarith
    field_simp at this
    exact this
  have hlog := strictConcaveOn_log_Ioi.2 (show 1 + x / f ∈ Ioi (0 : ℝ) from hux) (show 1 + y / f ∈ Ioi (0 : ℝ) from huy)
    hne ha hb hab
  rw [hu]
  have hlt : -t * Real.log (a • (1 + x / f) + b • (1 + y / f))
      < a • (-t * Real.log (1 + x / f)) + b • (-t * Real.log (1 + y / f)) := by
    simp only [smul_eq_mul] at hlog ⊢
    nlinarith
  calc Real.exp (-t * Real.log (a • (1 + x / f) + b • (1 + y / f)))
      < Real.exp (a • (-t * Real.log (1 + x / f)) + b • (-t * Real.log (1 + y / f))) := Real.exp_lt_exp.mpr hlt
    _ ≤ a • Real.exp (-t * Real.log (1 + x / f)) + b • Real.exp (-t * Real.log (1 + y / f)) :=
        convexOn_exp.2 (mem_univ _) (mem_univ _) ha.le hb.le hab

theorem disc_convexOn {f t : ℝ} (hf : 0 < f) (ht : 0 ≤ t) : ConvexOn ℝ (Ioi (-f)) (disc f t) := by
  rcases ht.eq_or_lt with h | h
  · subst h
    have : disc f 0 = fun _ => (1 : ℝ) := by funext y; simp [disc]
    rw [this]
    exact convexOn_const 1 (convex_Ioi _)
  · exact (disc_strictConvexOn hf h).convexOn

/-- a finite non-negative combination of discount factors with non-negative times -/
noncomputable def discSum (f : ℝ) (m : ℕ) (A T : ℕ → ℝ) (y : ℝ) : ℝ := ∑ k ∈ Finset.range m, A k * disc f (T k) y

theorem discSum_convexOn {f : ℝ} (hf : 0 < f) (m : ℕ) (A T : ℕ → ℝ) (hA : ∀ k, 0 ≤ A k) (hT : ∀ k, 0 ≤ T k) :
    ConvexOn ℝ (Ioi (-f)) (discSum f m A T) := by
  induction m with
  | zero =>
    have : discSum f 0 A T = fun _ => (0 : ℝ) := by funext y; simp [discSum]
    rw [this]; exact convexOn_const 0 (convex_Ioi _)
  | succ m ih =>
    have : discSum f (m + 1) A T = discSum f m A T + fun y => A m • disc f (T m) y := by
      funext y; simp [discSum, Finset.sum_range_succ]
    rw [this]
    exact ih.add ((disc_convexOn hf (hT m)).smul (hA m))

theorem discSum_antitoneOn {f : ℝ} (hf : 0 < f) (m : ℕ) (A T : ℕ → ℝ) (hA : ∀ k, 0 ≤ A k) (hT : ∀ k, 0 ≤ T k) :
    AntitoneOn (discSum f m A T) (Ioi (-f)) := by
  intro x hx y hy hxy
  unfold discSum
  apply Finset.sum_le_sum
  intro k _
  exact mul_le_mul_of_nonneg_left (disc_antitoneOn hf (hT k) hx hy hxy) (hA k)

theorem discSum_nonneg {f : ℝ} (hf : 0 < f) (m : ℕ) (A T : ℕ → ℝ) (hA : ∀ k, 0 ≤ A k) {y : ℝ} (hy : y ∈ Ioi (-f)) :
    0 ≤ discSum f m A T y := by
  unfold discSum
  apply Finset.sum_nonneg
  intro k _
  exact mul_nonneg (hA k) (disc_pos hf _ hy).le

/-- coupons + principal: `discSum + B·disc f τ` with `B > 0`, `τ > 0` is strictly convex and strictly decreasing -/
theorem discSum_add_strict {f : ℝ} (hf : 0 < f) (m : ℕ) (A T : ℕ → ℝ) (hA : ∀ k, 0 ≤ A k) (hT : ∀ k, 0 ≤ T k)
    {B τ : ℝ} (hB : 0 < B) (hτ : 0 < τ) :
    StrictConvexOn ℝ (Ioi (-f)) (fun y => discSum f m A T y + B * disc f τ y) ∧
    StrictAntiOn (fun y => discSum f m A T y + B * disc f τ y) (Ioi (-f)) ∧
    ∀ y ∈ Ioi (-f), 0 < discSum f m A T y + B * disc f τ y := by
  refine ⟨?_, ?_, ?_⟩
  · have h2 : StrictConvexOn ℝ (Ioi (-f)) (fun y => B * disc f τ y) := by
      refine ⟨convex_Ioi _, ?_⟩
      intro x hx y hy hxy a b ha hb hab
      have := (disc_strictConvexOn hf hτ).2 hx hy hxy ha hb hab
      simp only [smul_eq_mul] at this ⊢
      nlinarith
    exact (discSum_convexOn hf m A T hA hT).add_strictConvexOn h2
  · intro x hx y hy hxy
    have h1 := discSum_antitoneOn hf m A T hA hT hx hy hxy.le
    have h2 := disc_strictAntiOn hf hτ hx hy hxy
    have := mul_lt_mul_of_pos_left h2 hB
    simp only
    linarith
  · intro y hy
    have := discSum_nonneg hf m A T hA hy
    have := mul_pos hB (disc_pos hf τ hy)
    linarith

/-- product of a positive decreasing convex function and a non-negative decreasing strictly convex one -/
theorem strictConvexOn_mul_of_antitone {s : Set ℝ} {g h : ℝ → ℝ}
    (hg : ConvexOn ℝ s g) (hh : StrictConvexOn ℝ s h) (hg0 : ∀ x ∈ s, 0 < g x) (hh0 : ∀ x ∈ s, 0 ≤ h x)
    (hga : AntitoneOn g s) (hha : AntitoneOn h s) : StrictConvexOn ℝ s (fun x => g x * h x) := by
  refine ⟨hg.1, ?_⟩
  intro x hx y hy hxy a b ha hb hab
  have hz : a • x + b • y ∈ s := hg.1 hx hy ha.le hb.le hab
  have h1 := hh.2 hx hy hxy ha hb hab
  have h2 := hg.2 hx hy ha.le hb.le hab
  have hgz := hg0 _ hz
  simp only [smul_eq_mul] at h1 h2 hz ⊢
  have hcheb : 0 ≤ (g x - g y) * (h x - h y) := by
    rcases le_total x y with hle | hle
    · exact mul_nonneg (sub_nonneg.mpr (hga hx hy hle)) (sub_nonneg.mpr (hha hx hy hle))
    · exact mul_nonneg_of_nonpos_of_nonpos (sub_nonpos.mpr (hga hy hx hle)) (sub_nonpos.mpr (hha hy hx hle))
  have hcomb : 0 ≤ a * h x + b * h y := by
    have := hh0 x hx; have := hh0 y hy; positivity
  have hb' : b = 1 - a := by linarith
  calc g (a * x + b * y) * h (a * x + b * y)
      < g (a * x + b * y) * (a * h x + b * h y) := mul_lt_mul_of_pos_left h1 hgz
    _ ≤ (a * g x + b * g y) * (a * h x + b * h y) := mul_le_mul_of_nonneg_right h2 hcomb
    _ ≤ a * (g x * h x) + b * (g y * h y) := by
        subst hb'
        have hab' : 0 ≤ a * (1 - a) := mul_nonneg ha.le hb.le
        nlinarith [mul_nonneg hab' hcheb]

theorem strictAntiOn_mul {s : Set ℝ} {g h : ℝ → ℝ} (hg0 : ∀ x ∈ s, 0 < g x) (hh0 : ∀ x ∈ s, 0 ≤ h x)
    (hga : AntitoneOn g s) (hha : StrictAntiOn h s) : StrictAntiOn (fun x => g x * h x) s := by
  intro x hx y hy hxy
  calc g y * h y < g y * h x := mul_lt_mul_of_pos_left (hha hx hy hxy) (hg0 y hy)
    _ ≤ g x * h x := mul_le_mul_of_nonneg_right (hga hx hy hxy.le) (hh0 x hx)

/-- money-market (simple-interest) discount factor `1/(1+β·y)`, `β ≥ 0` -/
noncomputable def sdisc (β : ℝ) (y : ℝ) : ℝ := 1 / (1 + β * y)

theorem sdisc_eq_disc {β : ℝ} (hβ : 0 < β) (y : ℝ) : sdisc β y = disc (1 / β) 1 y := by
  unfold sdisc disc
  rw [Real.rpow_one]
  congr 2
  field_simp

/-- on `y > −1` with `0 ≤ β ≤ 1`: positive, decreasing, convex; strictly when `β > 0` -/
theorem sdisc_props {β : ℝ} (h0 : 0 ≤ β) (h1 : β ≤ 1) :
    (∀ y ∈ Ioi (-1 : ℝ), 0 < sdisc β y) ∧ AntitoneOn (sdisc β) (Ioi (-1)) ∧ ConvexOn ℝ (Ioi (-1)) (sdisc β) ∧
    (0 < β → StrictAntiOn (sdisc β) (Ioi (-1)) ∧ StrictConvexOn ℝ (Ioi (-1)) (sdisc β)) := by
  rcases h0.eq_or_lt with h | hβ
  · subst h
    have : sdisc 0 = fun _ => (1 : ℝ) := by funext y; simp [sdisc]
    rw [this]
    refine ⟨fun _ _ => one_pos, fun _ _ _ _ _ => le_refl _, convexOn_const 1 (convex_Ioi _), fun h => absurd h (lt_irrefl 0)⟩
  · have hf : (0 : ℝ) < 1 / β := by positivity
    have hsub : Ioi (-1 : ℝ) ⊆ Ioi (-(1 / β)) := by
      intro y hy
      have hy' : -1 < y := hy
      have : 1 ≤ 1 / β := by rw [le_div_iff₀ hβ]; linarith
      show -(1 / β) < y
      linarith
    have hfun : sdisc β = disc (1 / β) 1 := funext (sdisc_eq_disc hβ)
    rw [hfun]
    have hsa := (disc_strictAntiOn hf one_pos).mono hsub
    have hsc := (disc_strictConvexOn hf one_pos).subset hsub (convex_Ioi _)
    exact ⟨fun y hy => disc_pos hf 1 (hsub hy), hsa.antitoneOn, hsc.convexOn, fun _ => ⟨hsa, hsc⟩⟩

/-! ### helpers used by `Props/C07d…g` -/

/-- `v ** n` with a Python int `n ≥ 0` (translated as `Real.rpow v (n : ℝ)`) is the monoid power. -/
theorem rpow_int_nat (v : ℝ) (m : ℕ) : Real.rpow v (((m : Int) : Int) : ℝ) = v ^ m := by
  show v ^ (((m : Int)) : ℝ) = v ^ m
  rw [Real.rpow_intCast, zpow_natCast]

/-- `v ** (n - 1)` for a Python int `n = m + 1`. -/
theorem rpow_int_pred (v : ℝ) (m : ℕ) :
    Real.rpow v (((((m : Int) + 1) - (1 : Int)) : Int) : ℝ) = v ^ m := by
  have : ((m : Int) + 1) - (1 : Int) = (m : Int) := by omega
  rw [this]; exact rpow_int_nat v m

/-- coupon amounts of the compound sum: `cf·pay` for the next coupon, `cf` afterwards -/
noncomputable def cpnAmt (cf pay : ℝ) (k : ℕ) : ℝ := cf * (if k = 0 then pay else 1)

theorem cpnAmt_nonneg {cf pay : ℝ} (hcf : 0 ≤ cf) (hpay : 0 ≤ pay) (k : ℕ) : 0 ≤ cpnAmt cf pay k := by
  unfold cpnAmt; split <;> positivity

/-- scaling a strictly convex / strictly decreasing function by a positive constant -/
theorem const_mul_strict {s : Set ℝ} {g : ℝ → ℝ} {K : ℝ} (hK : 0 < K)
    (h1 : StrictAntiOn g s) (h2 : StrictConvexOn ℝ s g) :
    StrictAntiOn (fun y => K * g y) s ∧ StrictConvexOn ℝ s (fun y => K * g y) := by
  refine ⟨fun x hx y hy hxy => mul_lt_mul_of_pos_left (h1 hx hy hxy) hK, h2.1, ?_⟩
  intro x hx y hy hxy a b ha hb hab
  have := h2.2 hx hy hxy ha hb hab
  simp only [smul_eq_mul] at this ⊢
  nlinarith

/-- the `r`-th derivative amounts: `A·T(T+1)…(T+r−1)` -/
noncomputable def dAmt (A T : ℕ → ℝ) : ℕ → ℕ → ℝ
  | 0, k => A k
  | r + 1, k => dAmt A T r k * (T k + r)

/-- … and times `T + r` -/
noncomputable def dTime (T : ℕ → ℝ) (r : ℕ) (k : ℕ) : ℝ := T k + r

theorem dAmt_nonneg {A T : ℕ → ℝ} (hA : ∀ k, 0 ≤ A k) (hT : ∀ k, 0 ≤ T k) (r k : ℕ) : 0 ≤ dAmt A T r k := by
  induction r with
  | zero => exact hA k
  | succ r ih =>
    simp only [dAmt]
    have := hT k
    positivity

theorem dTime_nonneg {T : ℕ → ℝ} (hT : ∀ k, 0 ≤ T k) (r k : ℕ) : 0 ≤ dTime T r k := by
  unfold dTime; have := hT k; positivity

theorem dTime_zero (T : ℕ → ℝ) (k : ℕ) : dTime T 0 k = T k := by simp [dTime]

theorem curveFlows_scale (settle : Int) (exDiv : Bool) (cf lam : ℝ) (l : List (Int × ℝ)) (seen : Bool) :
    curveFlows settle exDiv cf (l.map (fun x => (x.1, lam * x.2))) seen = lam * curveFlows settle exDiv cf l seen := by
  induction l generalizing seen with
  | nil => simp [curveFlows]
  | cons h t ih =>
    obtain ⟨d, dfd⟩ := h
    by_cases hd : d > settle
    · simp only [List.map_cons, curveFlows, if_pos hd, ih]
      split <;> ring
    · simp only [List.map_cons, curveFlows, if_neg hd, ih]

theorem lastDf_scale (lam : ℝ) (l : List (Int × ℝ)) (hne : l ≠ []) :
    lastDf (l.map (fun x => (x.1, lam * x.2))) = lam * lastDf l := by
  induction l with
  | nil => exact absurd rfl hne
  | cons h t ih =>
    obtain ⟨d, dfd⟩ := h
    cases t with
    | nil => simp [lastDf]
    | cons h2 t2 =>
      have := ih (by simp)
      simpa [lastDf] using this

theorem curveFlows_skip_past (settle : Int) (exDiv : Bool) (cf : ℝ) (past l : List (Int × ℝ)) (seen : Bool)
    (hpast : ∀ x ∈ past, x.1 ≤ settle) :
    curveFlows settle exDiv cf (past ++ l) seen = curveFlows settle exDiv cf l seen := by
  induction past with
  | nil => simp
  | cons h t ih =>
    obtain ⟨d, dfd⟩ := h
    have hd : ¬ d > settle := by have := hpast (d, dfd) (by simp); simpa using this
    simp only [List.cons_append, curveFlows, if_neg hd]
    exact ih (fun x hx => hpast x (by simp [hx]))

theorem lastDf_append (past l : List (Int × ℝ)) (hne : l ≠ []) : lastDf (past ++ l) = lastDf l := by
  induction past with
  | nil => simp
  | cons h t ih =>
    cases hpl : t ++ l with
    | nil => simp at hpl; exact absurd hpl.2 hne
    | cons h2 t2 =>
      rw [List.cons_append, hpl]
      simp only [lastDf]
      rw [← hpl]; exact ih

end FinVerif.Lemmas.C07
