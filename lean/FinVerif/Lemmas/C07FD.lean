/-
  C07 — finite differences versus derivatives (helper lemmas, general functions on ℝ):
  the symmetric difference quotient over `2h` differs from the derivative by at most `(h²/6)·sup|P‴|`, the
  second symmetric difference over `h²` from the second derivative by at most `(h²/12)·sup|P⁗|`.
  Elementary proof: three (four) comparisons of a function vanishing at 0 with a polynomial majorant through
  the sign of the derivative of their difference.
-/
import Mathlib.Analysis.Calculus.Deriv.MeanValue
import Mathlib.Analysis.Calculus.Deriv.Shift
import Mathlib.Analysis.Calculus.Deriv.Pow
import Mathlib.Analysis.Calculus.Deriv.Mul
import Mathlib.Analysis.Calculus.Deriv.Add
import Mathlib.Tactic.Ring
import Mathlib.Tactic.Linarith
import Mathlib.Tactic.FieldSimp
import Mathlib.Tactic.Positivity

namespace FinVerif.Lemmas.C07
open Set

/-- if `ψ(0) = 0` and `ψ' ≥ 0` on `[0,h]` then `ψ ≥ 0` on `[0,h]` -/
theorem nonneg_of_deriv_nonneg {ψ ψ' : ℝ → ℝ} {h : ℝ}
    (hψ : ∀ t ∈ Icc 0 h, HasDerivAt ψ (ψ' t) t) (h0 : ψ 0 = 0) (hle : ∀ t ∈ Icc 0 h, 0 ≤ ψ' t) :
    ∀ t ∈ Icc 0 h, 0 ≤ ψ t := by
  intro t ht
  have hmono : MonotoneOn ψ (Icc 0 h) := by
    apply monotoneOn_of_deriv_nonneg (convex_Icc 0 h)
    · intro x hx; exact (hψ x hx).continuousAt.continuousWithinAt
    · intro x hx
      rw [interior_Icc] at hx
      exact (hψ x (Ioo_subset_Icc_self hx)).differentiableAt.differentiableWithinAt
    · intro x hx
      rw [interior_Icc] at hx
      rw [(hψ x (Ioo_subset_Icc_self hx)).deriv]
      exact hle x (Ioo_subset_Icc_self hx)
  have h0mem : (0 : ℝ) ∈ Icc 0 h := ⟨le_rfl, le_trans ht.1 ht.2⟩
  have := hmono h0mem ht ht.1
  linarith

/-- comparison with a majorant: `φ(0) = B(0) = 0`, `|φ'| ≤ B'` on `[0,h]` ⇒ `|φ| ≤ B` on `[0,h]` -/
theorem abs_le_of_deriv_abs_le {φ φ' B B' : ℝ → ℝ} {h : ℝ}
    (hφ : ∀ t ∈ Icc 0 h, HasDerivAt φ (φ' t) t) (hB : ∀ t ∈ Icc 0 h, HasDerivAt B (B' t) t)
    (h0 : φ 0 = 0) (hB0 : B 0 = 0) (hle : ∀ t ∈ Icc 0 h, |φ' t| ≤ B' t) :
    ∀ t ∈ Icc 0 h, |φ t| ≤ B t := by
  intro t ht
  have hup := nonneg_of_deriv_nonneg (ψ := fun s => B s - φ s) (ψ' := fun s => B' s - φ' s)
    (fun s hs => (hB s hs).sub (hφ s hs)) (by simp [h0, hB0])
    (fun s hs => by have := (abs_le.mp (hle s hs)).2; linarith) t ht
  have hlo := nonneg_of_deriv_nonneg (ψ := fun s => B s + φ s) (ψ' := fun s => B' s + φ' s)
    (fun s hs => (hB s hs).add (hφ s hs)) (by simp [h0, hB0])
    (fun s hs => by have := (abs_le.mp (hle s hs)).1; linarith) t ht
  rw [abs_le]
  constructor <;> linarith

/-- derivative of the polynomial majorants `M·t`, `M·t²`, `M·t³/3`, `M·t⁴/12` -/
theorem hasDerivAt_majorant (M t : ℝ) :
    HasDerivAt (fun s : ℝ => 2 * M * s) (2 * M) t ∧
    HasDerivAt (fun s : ℝ => M * s ^ 2) (2 * M * t) t ∧
    HasDerivAt (fun s : ℝ => M * s ^ 3 / 3) (M * t ^ 2) t ∧
    HasDerivAt (fun s : ℝ => M * s ^ 4 / 12) (M * t ^ 3 / 3) t := by
  refine ⟨?_, ?_, ?_, ?_⟩
  · simpa using (hasDerivAt_id t).const_mul (2 * M)
  · exact ((hasDerivAt_pow 2 t).const_mul M).congr_deriv (by norm_num; ring)
  · exact (((hasDerivAt_pow 3 t).const_mul M).div_const 3).congr_deriv (by norm_num; ring)
  · exact (((hasDerivAt_pow 4 t).const_mul M).div_const 12).congr_deriv (by norm_num; ring)

/-- CENTRAL DIFFERENCE: if `P' = P1`, `P1' = P2`, `P2' = P3` on `[y−h, y+h]` and `|P3| ≤ M` there, then
`|(P(y+h) − P(y−h))/(2h) − P1(y)| ≤ M·h²/6`. -/
theorem central_difference_error {P P1 P2 P3 : ℝ → ℝ} {y h M : ℝ} (hh : 0 < h)
    (d0 : ∀ x ∈ Icc (y - h) (y + h), HasDerivAt P (P1 x) x)
    (d1 : ∀ x ∈ Icc (y - h) (y + h), HasDerivAt P1 (P2 x) x)
    (d2 : ∀ x ∈ Icc (y - h) (y + h), HasDerivAt P2 (P3 x) x)
    (hM : ∀ x ∈ Icc (y - h) (y + h), |P3 x| ≤ M) :
    |(P (y + h) - P (y - h)) / (2 * h) - P1 y| ≤ M * h ^ 2 / 6 := by
  have mp : ∀ t ∈ Icc (0 : ℝ) h, y + t ∈ Icc (y - h) (y + h) := fun t ht => ⟨by linarith [ht.1], by linarith [ht.2]⟩
  have mm : ∀ t ∈ Icc (0 : ℝ) h, y - t ∈ Icc (y - h) (y + h) := fun t ht => ⟨by linarith [ht.2], by linarith [ht.1]⟩
  -- the chain g, g1, g2, g3
  have dg2 : ∀ t ∈ Icc (0 : ℝ) h, HasDerivAt (fun s => P2 (y + s) - P2 (y - s)) (P3 (y + t) + P3 (y - t)) t := by
    intro t ht
    have a := (d2 (y + t) (mp t ht)).comp_const_add y t
    have b := (d2 (y - t) (mm t ht)).comp_const_sub y t
    exact (a.fun_sub b).congr_deriv (by ring)
  have dg1 : ∀ t ∈ Icc (0 : ℝ) h, HasDerivAt (fun s => P1 (y + s) + P1 (y - s) - 2 * P1 y) (P2 (y + t) - P2 (y - t)) t := by
    intro t ht
    have a := (d1 (y + t) (mp t ht)).comp_const_add y t
    have b := (d1 (y - t) (mm t ht)).comp_const_sub y t
    exact ((a.fun_add b).sub_const (2 * P1 y)).congr_deriv (by ring)
  have dg0 : ∀ t ∈ Icc (0 : ℝ) h, HasDerivAt (fun s => P (y + s) - P (y - s) - 2 * s * P1 y)
      (P1 (y + t) + P1 (y - t) - 2 * P1 y) t := by
    intro t ht
    have a := (d0 (y + t) (mp t ht)).comp_const_add y t
    have b := (d0 (y - t) (mm t ht)).comp_const_sub y t
    have c : HasDerivAt (fun s : ℝ => 2 * s * P1 y) (2 * P1 y) t := by
      have := ((hasDerivAt_id t).const_mul (2 : ℝ)).mul_const (P1 y)
      simpa using this
    exact ((a.fun_sub b).fun_sub c).congr_deriv (by ring)
  have b2 : ∀ t ∈ Icc (0 : ℝ) h, |P2 (y + t) - P2 (y - t)| ≤ 2 * M * t :=
    abs_le_of_deriv_abs_le dg2 (fun t _ => (hasDerivAt_majorant M t).1) (by simp) (by simp)
      (fun t ht => by
        have h1 := hM _ (mp t ht); have h2 := hM _ (mm t ht)
        calc |P3 (y + t) + P3 (y - t)| ≤ |P3 (y + t)| + |P3 (y - t)| := abs_add_le _ _
          _ ≤ 2 * M := by linarith)
  have b1 : ∀ t ∈ Icc (0 : ℝ) h, |P1 (y + t) + P1 (y - t) - 2 * P1 y| ≤ M * t ^ 2 :=
    abs_le_of_deriv_abs_le dg1 (fun t _ => (hasDerivAt_majorant M t).2.1) (by simp; ring) (by simp) b2
  have b0 : ∀ t ∈ Icc (0 : ℝ) h, |P (y + t) - P (y - t) - 2 * t * P1 y| ≤ M * t ^ 3 / 3 :=
    abs_le_of_deriv_abs_le dg0 (fun t _ => (hasDerivAt_majorant M t).2.2.1) (by simp) (by simp) b1
  have hfin := b0 h ⟨hh.le, le_rfl⟩
  have hrew : (P (y + h) - P (y - h)) / (2 * h) - P1 y = (P (y + h) - P (y - h) - 2 * h * P1 y) / (2 * h) := by
    field_simp
  rw [hrew, abs_div, abs_of_pos (by positivity : (0 : ℝ) < 2 * h), div_le_iff₀ (by positivity)]
  calc |P (y + h) - P (y - h) - 2 * h * P1 y| ≤ M * h ^ 3 / 3 := hfin
    _ = M * h ^ 2 / 6 * (2 * h) := by ring

/-- SECOND CENTRAL DIFFERENCE: with four derivatives and `|P4| ≤ M` on `[y−h, y+h]`,
`|(P(y+h) + P(y−h) − 2P(y))/h² − P2(y)| ≤ M·h²/12`. -/
theorem second_difference_error {P P1 P2 P3 P4 : ℝ → ℝ} {y h M : ℝ} (hh : 0 < h)
    (d0 : ∀ x ∈ Icc (y - h) (y + h), HasDerivAt P (P1 x) x)
    (d1 : ∀ x ∈ Icc (y - h) (y + h), HasDerivAt P1 (P2 x) x)
    (d2 : ∀ x ∈ Icc (y - h) (y + h), HasDerivAt P2 (P3 x) x)
    (d3 : ∀ x ∈ Icc (y - h) (y + h), HasDerivAt P3 (P4 x) x)
    (hM : ∀ x ∈ Icc (y - h) (y + h), |P4 x| ≤ M) :
    |(P (y + h) + P (y - h) - 2 * P y) / h ^ 2 - P2 y| ≤ M * h ^ 2 / 12 := by
  have mp : ∀ t ∈ Icc (0 : ℝ) h, y + t ∈ Icc (y - h) (y + h) := fun t ht => ⟨by linarith [ht.1], by linarith [ht.2]⟩
  have mm : ∀ t ∈ Icc (0 : ℝ) h, y - t ∈ Icc (y - h) (y + h) := fun t ht => ⟨by linarith [ht.2], by linarith [ht.1]⟩
  have dg3 : ∀ t ∈ Icc (0 : ℝ) h, HasDerivAt (fun s => P3 (y + s) - P3 (y - s)) (P4 (y + t) + P4 (y - t)) t := by
    intro t ht
    have a := (d3 (y + t) (mp t ht)).comp_const_add y t
    have b := (d3 (y - t) (mm t ht)).comp_const_sub y t
    exact (a.fun_sub b).congr_deriv (by ring)
  have dg2 : ∀ t ∈ Icc (0 : ℝ) h, HasDerivAt (fun s => P2 (y + s) + P2 (y - s) - 2 * P2 y) (P3 (y + t) - P3 (y - t)) t := by
    intro t ht
    have a := (d2 (y + t) (mp t ht)).comp_const_add y t
    have b := (d2 (y - t) (mm t ht)).comp_const_sub y t
    exact ((a.fun_add b).sub_const (2 * P2 y)).congr_deriv (by ring)
  have dg1 : ∀ t ∈ Icc (0 : ℝ) h, HasDerivAt (fun s => P1 (y + s) - P1 (y - s) - 2 * s * P2 y)
      (P2 (y + t) + P2 (y - t) - 2 * P2 y) t := by
    intro t ht
    have a := (d1 (y + t) (mp t ht)).comp_const_add y t
    have b := (d1 (y - t) (mm t ht)).comp_const_sub y t
    have c : HasDerivAt (fun s : ℝ => 2 * s * P2 y) (2 * P2 y) t := by
      have := ((hasDerivAt_id t).const_mul (2 : ℝ)).mul_const (P2 y)
      simpa using this
    exact ((a.fun_sub b).fun_sub c).congr_deriv (by ring)
  have dg0 : ∀ t ∈ Icc (0 : ℝ) h, HasDerivAt (fun s => P (y + s) + P (y - s) - 2 * P y - s ^ 2 * P2 y)
      (P1 (y + t) - P1 (y - t) - 2 * t * P2 y) t := by
    intro t ht
    have a := (d0 (y + t) (mp t ht)).comp_const_add y t
    have b := (d0 (y - t) (mm t ht)).comp_const_sub y t
    have c : HasDerivAt (fun s : ℝ => s ^ 2 * P2 y) (2 * t * P2 y) t := by
      have := (hasDerivAt_pow 2 t).mul_const (P2 y)
      exact this.congr_deriv (by norm_num)
    exact (((a.fun_add b).sub_const (2 * P y)).fun_sub c).congr_deriv (by ring)
  have b3 : ∀ t ∈ Icc (0 : ℝ) h, |P3 (y + t) - P3 (y - t)| ≤ 2 * M * t :=
    abs_le_of_deriv_abs_le dg3 (fun t _ => (hasDerivAt_majorant M t).1) (by simp) (by simp)
      (fun t ht => by
        have h1 := hM _ (mp t ht); have h2 := hM _ (mm t ht)
        calc |P4 (y + t) + P4 (y - t)| ≤ |P4 (y + t)| + |P4 (y - t)| := abs_add_le _ _
          _ ≤ 2 * M := by linarith)
  have b2 : ∀ t ∈ Icc (0 : ℝ) h, |P2 (y + t) + P2 (y - t) - 2 * P2 y| ≤ M * t ^ 2 :=
    abs_le_of_deriv_abs_le dg2 (fun t _ => (hasDerivAt_majorant M t).2.1) (by simp; ring) (by simp) b3
  have b1 : ∀ t ∈ Icc (0 : ℝ) h, |P1 (y + t) - P1 (y - t) - 2 * t * P2 y| ≤ M * t ^ 3 / 3 :=
    abs_le_of_deriv_abs_le dg1 (fun t _ => (hasDerivAt_majorant M t).2.2.1) (by simp) (by simp) b2
  have b0 : ∀ t ∈ Icc (0 : ℝ) h, |P (y + t) + P (y - t) - 2 * P y - t ^ 2 * P2 y| ≤ M * t ^ 4 / 12 :=
    abs_le_of_deriv_abs_le dg0 (fun t _ => (hasDerivAt_majorant M t).2.2.2) (by simp; ring) (by simp) b1
  have hfin := b0 h ⟨hh.le, le_rfl⟩
  have hrew : (P (y + h) + P (y - h) - 2 * P y) / h ^ 2 - P2 y
      = (P (y + h) + P (y - h) - 2 * P y - h ^ 2 * P2 y) / h ^ 2 := by
    field_simp
  rw [hrew, abs_div, abs_of_pos (by positivity : (0 : ℝ) < h ^ 2), div_le_iff₀ (by positivity)]
  calc |P (y + h) + P (y - h) - 2 * P y - h ^ 2 * P2 y| ≤ M * h ^ 4 / 12 := hfin
    _ = M * h ^ 2 / 12 * h ^ 2 := by ring

end FinVerif.Lemmas.C07
