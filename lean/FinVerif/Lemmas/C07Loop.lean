/-
  C07 — Python loop semantics used by `Props/C07h.lean` to state "the hand-written loop IS the loop the source
  spells": `for i in range(lo, hi): … break … else: …` and `for x in xs[lo:hi]`, and the list lemmas about the
  schedule scan `ncdGo`.
-/
import FinVerif.Lemmas.C07Real

namespace FinVerif.Lemmas.C07
open FinVerif FinVerif.Model.C07

/-- `for i in range(lo, hi): (if body i = some r: result r; break)`, `none` = the loop falls through to its `else`. -/
def forRangeBreak {β : Type} (lohi : Int × Int) (body : Int → Option β) : Option β :=
  (List.range (lohi.2 - lohi.1).toNat).findSome? (fun (k : Nat) => body (lohi.1 + (k : Int)))

/-- `for i in range(lo, hi)` without break: the state after the last iteration. -/
def forRange {σ : Type} (lohi : Int × Int) (body : σ → Int → σ) (s : σ) : σ :=
  (List.range (lohi.2 - lohi.1).toNat).foldl (fun s (k : Nat) => body s (lohi.1 + (k : Int))) s

/-- Python `xs[lo:hi]` for `lo ≥ 0`; a bound `0` in the second place stands for "absent" (the generated headers
encode `xs[1:]` as `(1, 0)`), a negative upper bound counts from the end. -/
def pySlice {α : Type} (xs : List α) (lohi : Int × Int) : List α :=
  if lohi.2 = 0 then xs.drop lohi.1.toNat
  else if lohi.2 < 0 then (xs.take (xs.length - (-lohi.2).toNat)).drop lohi.1.toNat
  else (xs.take lohi.2.toNat).drop lohi.1.toNat

theorem findSome_range_shift {β : Type} (n : Nat) (g : Nat → Option β) :
    (List.range (n + 1)).findSome? g = (g 0).or ((List.range n).findSome? (fun k => g (k + 1))) := by
  rw [List.range_succ_eq_map, List.findSome?_cons, List.findSome?_map]
  cases g 0 <;> simp [Function.comp_def]

/-- the scan `ncdGo` as a `range` loop with break over absolute indices -/
theorem ncdGo_eq_findSome (settle : Int) (G : Int → Int → Option Nat)
    (hG : ∀ (i : Nat) d, G i d = if d > settle then some i else none) (l : List Int) (i : Nat) :
    ncdGo settle i l = (List.range l.length).findSome? (fun (k : Nat) => G ((i : Int) + (k : Int)) (l.getD k 0)) := by
  induction l generalizing i with
  | nil => simp [ncdGo]
  | cons d t ih =>
    rw [List.length_cons, findSome_range_shift]
    unfold ncdGo
    have h0 : G ((i : Int) + ((0 : Nat) : Int)) ((d :: t).getD 0 0) = if d > settle then some i else none := by
      simpa using hG i d
    rw [h0]
    split
    · simp
    · simp only [Option.or]
      rw [ih (i + 1)]
      congr 1
      funext k
      have : ((i + 1 : Nat) : Int) + (k : Int) = (i : Int) + ((k + 1 : Nat) : Int) := by push_cast; ring
      rw [this]; simp

/-- the scan finds a date whenever one of the scanned dates is after settlement -/
theorem ncdGo_isSome_of_exists (settle : Int) (l : List Int) (i : Nat) (h : ∃ d ∈ l, d > settle) :
    ∃ j, ncdGo settle i l = some j := by
  induction l generalizing i with
  | nil => simp at h
  | cons d t ih =>
    unfold ncdGo
    split
    · exact ⟨i, rfl⟩
    · rename_i hd
      obtain ⟨x, hx, hxs⟩ := h
      rcases List.mem_cons.mp hx with rfl | hx'
      · exact absurd hxs hd
      · exact ih (i + 1) ⟨x, hx', hxs⟩

theorem ncdGo_none_iff (settle : Int) (l : List Int) (i : Nat) :
    ncdGo settle i l = none ↔ ∀ d ∈ l, d ≤ settle := by
  induction l generalizing i with
  | nil => simp [ncdGo]
  | cons d t ih =>
    unfold ncdGo
    split
    · rename_i hd
      simp only [reduceCtorEq, false_iff]
      intro h; have := h d (by simp); omega
    · rename_i hd
      rw [ih (i + 1)]
      constructor
      · intro h x hx
        rcases List.mem_cons.mp hx with rfl | hx'
        · omega
        · exact h x hx'
      · intro h x hx; exact h x (List.mem_cons_of_mem _ hx)

/-- `n = init; for dt in l: if dt > settle: n += 1` counts the dates after settlement -/
theorem foldl_count (settle : Int) (step : Int → Int → Int)
    (hstep : ∀ n d, step n d = if d > settle then n + 1 else n) (l : List Int) (a : Int) :
    l.foldl step a = a + ((l.filter (fun d => decide (d > settle))).length : Int) := by
  induction l generalizing a with
  | nil => simp
  | cons d t ih =>
    rw [List.foldl_cons, ih, hstep]
    by_cases hd : d > settle <;> simp [hd] <;> omega

end FinVerif.Lemmas.C07
