/-
  C07 — the real-number reading of the bond model and spec: `v ** n` is `v ^ n` (monoid power),
  `v ** alpha` is `Real.rpow`.  Helper lemmas only (property theorems are in `Props/C07*.lean`).
-/
import FinVerif.Model.C07Bond
import FinVerif.Spec.C07
import Mathlib.Analysis.SpecialFunctions.Pow.Real
import Mathlib.Algebra.Field.GeomSum
import Mathlib.Tactic.Ring
import Mathlib.Tactic.FieldSimp
import Mathlib.Tactic.Linarith
import Mathlib.Tactic.NormNum
import Mathlib.Tactic.Positivity

namespace FinVerif.Lemmas.C07
open FinVerif FinVerif.Model.C07 FinVerif.Spec.C07

noncomputable instance : BondPow ℝ := ⟨fun v n => v ^ n, fun v a => v ^ a⟩
noncomputable instance : SpecPow ℝ := ⟨fun v n => v ^ n, fun v a => v ^ a⟩

@[simp] theorem powN_real (v : ℝ) (n : ℕ) : BondPow.powN v n = v ^ n := rfl
@[simp] theorem powF_real (v a : ℝ) : BondPow.powF v a = v ^ a := rfl
@[simp] theorem ipow_real (v : ℝ) (n : ℕ) : SpecPow.ipow v n = v ^ n := rfl
@[simp] theorem fpow_real (v a : ℝ) : SpecPow.fpow v a = v ^ a := rfl

/-- the spec's `Σ_{k=0}^{n}` is `Finset.sum` over `range (n+1)` -/
theorem sumTo_eq_sum (t : ℕ → ℝ) (n : ℕ) : sumTo t n = ∑ k ∈ Finset.range (n + 1), t k := by
  induction n with
  | zero => simp [sumTo]
  | succ n ih => rw [sumTo, ih, Finset.sum_range_succ (n := n + 1)]

/-- Geometric series in the shape the code uses it: for `v ≠ 1`,
`v + v·v·(1 − v^(n−1))/(1 − v) = Σ_{k=1}^{n} v^k` (n ≥ 1). -/
theorem geom_tail (v : ℝ) (hv : v ≠ 1) (m : ℕ) :
    v + v * v * (1 - v ^ m) / (1 - v) = ∑ k ∈ Finset.range (m + 1), v ^ (k + 1) := by
  have h1 : (1 : ℝ) - v ≠ 0 := sub_ne_zero.mpr (Ne.symm hv)
  induction m with
  | zero => simp
  | succ m ih =>
    rw [Finset.sum_range_succ, ← ih]
    field_simp
    ring

theorem spec_sum_zero (D : ℕ → ℝ) (c f pay : ℝ) :
    sumTo (fun k => (c / f) * (if k = 0 then pay else 1) * D k) 0 = c / f * pay * D 0 := by
  simp [sumTo]


/-- sum of `cf·df` over the schedule entries after settlement -/
def flowSum (settle : Int) (cf : ℝ) : List (Int × ℝ) → ℝ
  | [] => 0
  | (d, df) :: rest => (if d > settle then cf * df else 0) + flowSum settle cf rest

/-- discount factor of the last schedule entry after settlement, `dflt` if there is none -/
def lastDfAfter (settle : Int) : List (Int × ℝ) → ℝ → ℝ
  | [], dflt => dflt
  | (d, df) :: rest, dflt => lastDfAfter settle rest (if d > settle then df else dflt)

/-- after the next coupon date `d0` (all remaining dates later than it) the loop of
`dirty_price_from_discount_curve` just adds `cf·df` for the dates after settlement -/
theorem curveLoop_after_next (settle d0 : Int) (cf pay : ℝ) (l : List (Int × ℝ)) (px df : ℝ)
    (hl : ∀ x ∈ l, d0 < x.1) :
    curveLoop settle cf pay (some d0) l (px, df) = (px + flowSum settle cf l, lastDfAfter settle l df) := by
  induction l generalizing px df with
  | nil => simp [curveLoop, flowSum, lastDfAfter]
  | cons h t ih =>
    obtain ⟨d, dfd⟩ := h
    have hne : ¬ (some d0 = some d) := by
      have := hl (d, dfd) (by simp); simp; omega
    have ht : ∀ x ∈ t, d0 < x.1 := fun x hx => hl x (by simp [hx])
    by_cases hd : d > settle
    · simp only [curveLoop, if_pos hd, if_neg hne, ih _ _ ht, flowSum, lastDfAfter]
      congr 1; ring
    · simp only [curveLoop, if_neg hd, ih _ _ ht, flowSum, lastDfAfter]
      congr 1; ring

theorem lastDfAfter_eq_lastDf (settle : Int) (l : List (Int × ℝ)) (dflt : ℝ)
    (hne : l ≠ []) (hlast : ∀ x ∈ l.getLast? , x.1 > settle) :
    lastDfAfter settle l dflt = lastDf l := by
  induction l generalizing dflt with
  | nil => exact absurd rfl hne
  | cons h t ih =>
    obtain ⟨d, dfd⟩ := h
    cases t with
    | nil =>
      have : d > settle := by simpa using hlast (d, dfd)
      simp [lastDfAfter, lastDf, this]
    | cons h2 t2 =>
      have hl : ∀ x ∈ (h2 :: t2).getLast?, x.1 > settle := by
        intro x hx; apply hlast x; simpa [List.getLast?_cons_cons] using hx
      simp only [lastDfAfter]
      rw [show lastDf ((d, dfd) :: h2 :: t2) = lastDf (h2 :: t2) by simp [lastDf]]
      exact ih _ (by simp) hl

theorem curveFlows_seen (settle : Int) (exDiv : Bool) (cf : ℝ) (l : List (Int × ℝ)) :
    curveFlows settle exDiv cf l true = flowSum settle cf l := by
  induction l with
  | nil => simp [curveFlows, flowSum]
  | cons h t ih =>
    obtain ⟨d, dfd⟩ := h
    by_cases hd : d > settle <;> simp [curveFlows, flowSum, hd, ih]

theorem curveFlows_noexdiv (settle : Int) (cf : ℝ) (l : List (Int × ℝ)) (seen : Bool) :
    curveFlows settle false cf l seen = flowSum settle cf l := by
  induction l generalizing seen with
  | nil => simp [curveFlows, flowSum]
  | cons h t ih =>
    obtain ⟨d, dfd⟩ := h
    by_cases hd : d > settle <;> simp [curveFlows, flowSum, hd, ih]


/-- the coupon loop of `dirty_price_from_discount_curve` (any schedule length, increasing dates): it adds
`cf·df` for the dates after settlement, except that the NEXT coupon is multiplied by `pay_first_cpn` -/
theorem curveLoop_eq_flows (settle : Int) (exDiv : Bool) (cf : ℝ) (l : List (Int × ℝ)) (px df : ℝ)
    (hs : (l.map (·.1)).Pairwise (· < ·)) :
    curveLoop settle cf (payFirst exDiv) ((l.map (·.1)).find? (fun d => decide (d > settle))) l (px, df)
      = (px + curveFlows settle exDiv cf l false, lastDfAfter settle l df) := by
  induction l generalizing px df with
  | nil => simp [curveLoop, curveFlows, lastDfAfter]
  | cons h t ih =>
    obtain ⟨d, dfd⟩ := h
    have hp : (∀ a' ∈ t.map (·.1), d < a') ∧ (t.map (·.1)).Pairwise (· < ·) := by
      have : (d :: t.map (·.1)).Pairwise (· < ·) := by simpa using hs
      exact List.pairwise_cons.mp this
    by_cases hd : d > settle
    · have hfind : (((d, dfd) :: t).map (·.1)).find? (fun d => decide (d > settle)) = some d := by
        simp [hd]
      have ht : ∀ x ∈ t, d < x.1 := by
        intro x hx; exact hp.1 x.1 (List.mem_map.mpr ⟨x, hx, rfl⟩)
      rw [hfind]
      simp only [curveLoop, if_pos hd, if_true, curveLoop_after_next settle d cf _ t _ _ ht, curveFlows,
        lastDfAfter, curveFlows_seen]
      cases exDiv <;> simp [payFirst] <;> ring
    · have hfind : (((d, dfd) :: t).map (·.1)).find? (fun d => decide (d > settle))
          = (t.map (·.1)).find? (fun d => decide (d > settle)) := by
        simp [hd]
      rw [hfind]
      simp only [curveLoop, if_neg hd, curveFlows, lastDfAfter]
      exact ih _ _ hp.2

theorem ncdGo_spec (settle : Int) (l : List Int) (i j : Nat) (h : ncdGo settle i l = some j) :
    i ≤ j ∧ j - i < l.length ∧ (∀ d ∈ l[j - i]?, d > settle) ∧ ∀ k, k < j - i → ∀ d ∈ l[k]?, d ≤ settle := by
  induction l generalizing i with
  | nil => simp [ncdGo] at h
  | cons d t ih =>
    unfold ncdGo at h
    split at h
    · rename_i hd
      have : i = j := by simpa using h
      subst this
      simp [hd]
    · rename_i hd
      obtain ⟨h1, h2, h3, h4⟩ := ih (i + 1) h
      have hji : j - i = (j - (i + 1)) + 1 := by omega
      refine ⟨by omega, by simp; omega, ?_, ?_⟩
      · rw [hji]; simpa using h3
      · intro k hk dd hdd
        cases k with
        | zero => simp at hdd; subst hdd; omega
        | succ k' =>
          simp at hdd
          exact h4 k' (by omega) dd (by simpa using hdd)


theorem v_pos (y f : ℝ) (hf : 0 < f) (hy : -f < y) : 0 < 1 / (1 + y / f) := by
  have : 0 < 1 + y / f := by
    have : -1 < y / f := by rw [lt_div_iff₀ hf]; linarith
    linarith
  positivity

theorem v_strictAnti (y y' f : ℝ) (hf : 0 < f) (hy : -f < y) (hlt : y < y') :
    1 / (1 + y' / f) < 1 / (1 + y / f) := by
  have h1 : 0 < 1 + y / f := by
    have : -1 < y / f := by rw [lt_div_iff₀ hf]; linarith
    linarith
  have h2 : y / f < y' / f := div_lt_div_of_pos_right hlt hf
  exact one_div_lt_one_div_of_lt h1 (by linarith)

/-- compound cash-flow sum as a function of the per-period discount factor `v` -/
noncomputable def pvOfV (n : ℕ) (cf a pay : ℝ) (v : ℝ) : ℝ :=
  ∑ k ∈ Finset.range (n + 1), cf * (if k = 0 then pay else 1) * (v ^ k * v ^ a) + v ^ n * v ^ a

theorem pvOfV_strictMono (n : ℕ) (cf a pay : ℝ) (hcf : 0 ≤ cf) (ha : 0 ≤ a) (hpay : 0 ≤ pay)
    (hpos : 0 < a ∨ 0 < n) (v w : ℝ) (hv : 0 < v) (hvw : v < w) :
    pvOfV n cf a pay v < pvOfV n cf a pay w := by
  have hw : 0 < w := lt_trans hv hvw
  have hk : ∀ k : ℕ, v ^ k * v ^ a ≤ w ^ k * w ^ a := by
    intro k
    apply mul_le_mul (pow_le_pow_left₀ hv.le hvw.le k) (Real.rpow_le_rpow hv.le hvw.le ha)
      (Real.rpow_nonneg hv.le a) (pow_nonneg hw.le k)
  have hprin : v ^ n * v ^ a < w ^ n * w ^ a := by
    rcases hpos with h | h
    · have h1 : v ^ a < w ^ a := Real.rpow_lt_rpow hv.le hvw h
      have h2 : v ^ n ≤ w ^ n := pow_le_pow_left₀ hv.le hvw.le n
      calc v ^ n * v ^ a ≤ w ^ n * v ^ a := mul_le_mul_of_nonneg_right h2 (Real.rpow_nonneg hv.le a)
        _ < w ^ n * w ^ a := mul_lt_mul_of_pos_left h1 (pow_pos hw n)
    · have h1 : v ^ n < w ^ n := pow_lt_pow_left₀ hvw hv.le (by omega)
      have h2 : v ^ a ≤ w ^ a := Real.rpow_le_rpow hv.le hvw.le ha
      calc v ^ n * v ^ a < w ^ n * v ^ a := mul_lt_mul_of_pos_right h1 (Real.rpow_pos_of_pos hv a)
        _ ≤ w ^ n * w ^ a := mul_le_mul_of_nonneg_left h2 (pow_nonneg hw.le n)
  unfold pvOfV
  apply add_lt_add_of_le_of_lt _ hprin
  apply Finset.sum_le_sum
  intro k _
  apply mul_le_mul_of_nonneg_left (hk k)
  split <;> positivity


theorem bumpDy_real : (bumpDy : ℝ) = 0.0001 := rfl


/-- for an increasing list the dates after settlement are exactly those from the index found by `ncdGo` on -/
theorem ncdGo_count (settle : Int) (l : List Int) (k j : Nat)
    (hs : l.Pairwise (· < ·)) (h : ncdGo settle k l = some j) :
    ((l.filter (fun d => decide (d > settle))).length : Int) = l.length - (j - k : Nat) := by
  induction l generalizing k with
  | nil => simp [ncdGo] at h
  | cons d t ih =>
    have hst := (List.pairwise_cons.mp hs)
    unfold ncdGo at h
    split at h
    · rename_i hd
      have hj : k = j := by simpa using h
      subst hj
      -- every later date is also after settlement
      have hall : ∀ x ∈ t, decide (x > settle) = true := by
        intro x hx; have := hst.1 x hx; simp; omega
      have : (d :: t).filter (fun d => decide (d > settle)) = d :: t := by
        rw [List.filter_eq_self]; intro x hx
        rcases List.mem_cons.mp hx with rfl | hx
        · simpa using hd
        · exact hall x hx
      rw [this]; simp
    · rename_i hd
      have hkj := ih (k + 1) hst.2 h
      have hle : k + 1 ≤ j := by
        have := (ncdGo_spec settle t (k+1) j h).1; exact this
      have hlen := (ncdGo_spec settle t (k+1) j h).2.1
      have : (d :: t).filter (fun d => decide (d > settle)) = t.filter (fun d => decide (d > settle)) := by
        simp [hd]
      rw [this, hkj]
      simp only [List.length_cons]
      push_cast
      omega


end FinVerif.Lemmas.C07
