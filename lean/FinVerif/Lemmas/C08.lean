/-
  Helper lemmas for C08 (rate options): pure real analysis, independent of the generated code.

  * `IsNormalCdf Φ φ c` — the hypotheses on the cdf/pdf pair (assumed in each theorem, never postulated): Φ' = φ, φ = c·exp(−x²/2), c > 0,
    Φ(x) + Φ(−x) = 1, Φ → 1 at +∞.  Consequences: Φ is monotone, 0 ≤ Φ ≤ 1, Φ → 0 at −∞, 0 ≤ φ ≤ c.
  * the **Black form**  C(a, b, w) = a·Φ(d₁) − b·Φ(d₁ − w),  d₁ = ln(a/b)/w + w/2  (a = discounted forward,
    b = discounted strike, w = total volatility) — the shape shared by Black-76, shifted Black, SABR / shifted SABR
    (given their Black volatility) and the Hull–White zero-coupon-bond option:
    parity, upper bounds, ∂C/∂w = b·φ(d₂) ≥ 0, ∂C/∂b = −Φ(d₂) ≤ 0, the limit w → 0⁺ is the intrinsic value
    max(a − b, 0), hence  max(a − b, 0) ≤ C ≤ max(a − b, 0) + b·c·w.
  * the **Bachelier form**  C(x, w) = x·Φ(x/w) + w·φ(x/w)  (x = F − K, w = σ√t): ∂C/∂w = φ(x/w) ≥ 0,
    ∂C/∂x = Φ(x/w) ∈ [0, 1], limit w → 0⁺ is max(x, 0), hence  max(x, 0) ≤ C ≤ max(x, 0) + c·w.
-/
import Mathlib.Analysis.Calculus.Deriv.MeanValue
import Mathlib.Topology.Algebra.Order.Field
import Mathlib.Topology.Order.OrderClosed
import FinVerif.Lemmas.C05

namespace FinVerif.C08
open FinVerif FinVerif.C05 Filter Topology

/-- The normal cdf/pdf pair: hypotheses of the theorems, never postulated. -/
structure IsNormalCdf (Φ φ : ℝ → ℝ) (c : ℝ) : Prop where
  gauss : IsGaussPair Φ φ c
  cpos : 0 < c
  symm : ∀ x, Φ x + Φ (-x) = 1
  top : Tendsto Φ atTop (𝓝 1)

variable {Φ φ : ℝ → ℝ} {c : ℝ}

theorem IsNormalCdf.pdf_nonneg (h : IsNormalCdf Φ φ c) (x : ℝ) : 0 ≤ φ x := by
  rw [h.gauss.pdf]; exact mul_nonneg h.cpos.le (Real.exp_pos _).le

theorem IsNormalCdf.pdf_le (h : IsNormalCdf Φ φ c) (x : ℝ) : φ x ≤ c := by
  rw [h.gauss.pdf]
  have : Real.exp (-(x * x) / 2) ≤ 1 := Real.exp_le_one_iff.mpr (by nlinarith [mul_self_nonneg x])
  nlinarith [h.cpos]

theorem IsNormalCdf.differentiable (h : IsNormalCdf Φ φ c) : Differentiable ℝ Φ :=
  fun x => (h.gauss.deriv x).differentiableAt

theorem IsNormalCdf.continuous (h : IsNormalCdf Φ φ c) : Continuous Φ := h.differentiable.continuous

theorem IsNormalCdf.mono (h : IsNormalCdf Φ φ c) : Monotone Φ :=
  monotone_of_deriv_nonneg h.differentiable (fun x => by rw [(h.gauss.deriv x).deriv]; exact h.pdf_nonneg x)

theorem IsNormalCdf.bot (h : IsNormalCdf Φ φ c) : Tendsto Φ atBot (𝓝 0) := by
  have e : Φ = fun x => 1 - Φ (-x) := funext (fun x => by linarith [h.symm x])
  rw [e]
  have := (h.top.comp tendsto_neg_atBot_atTop).const_sub 1
  simpa using this

theorem IsNormalCdf.le_one (h : IsNormalCdf Φ φ c) (x : ℝ) : Φ x ≤ 1 := h.mono.ge_of_tendsto h.top x

theorem IsNormalCdf.nonneg (h : IsNormalCdf Φ φ c) (x : ℝ) : 0 ≤ Φ x := h.mono.le_of_tendsto h.bot x

theorem IsNormalCdf.pdf_even (h : IsNormalCdf Φ φ c) (x : ℝ) : φ (-x) = φ x := h.gauss.even x

/-- φ' = −x·φ -/
theorem IsNormalCdf.pdf_hasDerivAt (h : IsNormalCdf Φ φ c) (x : ℝ) : HasDerivAt φ (-(x * φ x)) x := by
  have e : φ = fun y => c * Real.exp (-(y * y) / 2) := funext h.gauss.pdf
  have h1 : HasDerivAt (fun y : ℝ => -(y * y) / 2) (-(x + x) / 2) x := by
    have := ((hasDerivAt_id x).mul (hasDerivAt_id x)).neg.div_const 2
    simpa using this
  have h2 := (h1.exp).const_mul c
  rw [h.gauss.pdf x, e]
  refine h2.congr_deriv ?_
  ring

/-! ### the Black form -/

noncomputable def bfCall (Φ : ℝ → ℝ) (a b w : ℝ) : ℝ := a * Φ (D1 a b w) - b * Φ (D1 a b w - w)
noncomputable def bfPut (Φ : ℝ → ℝ) (a b w : ℝ) : ℝ := b * Φ (-(D1 a b w - w)) - a * Φ (-(D1 a b w))

theorem bf_parity (hs : ∀ x, Φ x + Φ (-x) = 1) (a b w : ℝ) : bfCall Φ a b w - bfPut Φ a b w = a - b := by
  unfold bfCall bfPut
  linear_combination a * hs (D1 a b w) - b * hs (D1 a b w - w)

/-- the put is the call with forward and strike exchanged -/
theorem bfPut_eq_swap {a b : ℝ} (ha : 0 < a) (hb : 0 < b) (w : ℝ) : bfPut Φ a b w = bfCall Φ b a w := by
  have hl : Real.log (b / a) = -Real.log (a / b) := by
    rw [Real.log_div hb.ne' ha.ne', Real.log_div ha.ne' hb.ne']; ring
  have e1 : D1 b a w = -(D1 a b w - w) := by unfold D1; rw [hl]; ring
  have e2 : D1 b a w - w = -(D1 a b w) := by rw [e1]; ring
  unfold bfCall bfPut
  rw [e2, e1]

theorem bfCall_le (h : IsNormalCdf Φ φ c) {a b : ℝ} (ha : 0 ≤ a) (hb : 0 ≤ b) (w : ℝ) : bfCall Φ a b w ≤ a := by
  unfold bfCall
  nlinarith [mul_le_mul_of_nonneg_left (h.le_one (D1 a b w)) ha, mul_nonneg hb (h.nonneg (D1 a b w - w))]

theorem bfPut_le (h : IsNormalCdf Φ φ c) {a b : ℝ} (ha : 0 ≤ a) (hb : 0 ≤ b) (w : ℝ) : bfPut Φ a b w ≤ b := by
  unfold bfPut
  nlinarith [mul_le_mul_of_nonneg_left (h.le_one (-(D1 a b w - w))) hb, mul_nonneg ha (h.nonneg (-(D1 a b w)))]

/-- vega of the Black form: ∂C/∂w = b·φ(d₂) -/
theorem bfCall_hasDerivAt_w (h : IsNormalCdf Φ φ c) {a b w : ℝ} (ha : 0 < a) (hb : 0 < b) (hw : w ≠ 0) :
    HasDerivAt (fun x => bfCall Φ a b x) (b * φ (D1 a b w - w)) w := by
  have := hasDerivAt_blackForm h.gauss (a := fun _ => a) (b := fun _ => b) (w := fun x => x)
    (hasDerivAt_const w a) (hasDerivAt_const w b) (hasDerivAt_id w) ha hb hw
  refine this.congr_deriv ?_
  ring

/-- dual delta of the Black form: ∂C/∂b = −Φ(d₂) -/
theorem bfCall_hasDerivAt_b (h : IsNormalCdf Φ φ c) {a b w : ℝ} (ha : 0 < a) (hb : 0 < b) (hw : w ≠ 0) :
    HasDerivAt (fun x => bfCall Φ a x w) (-Φ (D1 a b w - w)) b := by
  have := hasDerivAt_blackForm h.gauss (a := fun _ => a) (b := fun x => x) (w := fun _ => w)
    (hasDerivAt_const b a) (hasDerivAt_id b) (hasDerivAt_const b w) ha hb hw
  refine this.congr_deriv ?_
  ring

theorem bfCall_monotoneOn_w (h : IsNormalCdf Φ φ c) {a b : ℝ} (ha : 0 < a) (hb : 0 < b) :
    MonotoneOn (fun w => bfCall Φ a b w) (Set.Ioi 0) := by
  apply monotoneOn_of_deriv_nonneg (convex_Ioi 0)
  · intro x hx
    exact (bfCall_hasDerivAt_w h ha hb (ne_of_gt hx)).continuousAt.continuousWithinAt
  · intro x hx
    rw [interior_Ioi] at hx
    exact (bfCall_hasDerivAt_w h ha hb (ne_of_gt hx)).differentiableAt.differentiableWithinAt
  · intro x hx
    rw [interior_Ioi] at hx
    rw [(bfCall_hasDerivAt_w h ha hb (ne_of_gt hx)).deriv]
    exact mul_nonneg hb.le (h.pdf_nonneg _)

theorem bfCall_antitoneOn_b (h : IsNormalCdf Φ φ c) {a w : ℝ} (ha : 0 < a) (hw : w ≠ 0) :
    AntitoneOn (fun b => bfCall Φ a b w) (Set.Ioi 0) := by
  apply antitoneOn_of_deriv_nonpos (convex_Ioi 0)
  · intro x hx
    exact (bfCall_hasDerivAt_b h ha hx hw).continuousAt.continuousWithinAt
  · intro x hx
    rw [interior_Ioi] at hx
    exact (bfCall_hasDerivAt_b h ha hx hw).differentiableAt.differentiableWithinAt
  · intro x hx
    rw [interior_Ioi] at hx
    rw [(bfCall_hasDerivAt_b h ha hx hw).deriv]
    linarith [h.nonneg (D1 a x w - w)]

/-- the put rises with the strike (∂P/∂b = Φ(−d₂) = 1 − Φ(d₂) ≥ 0) -/
theorem bfPut_monotoneOn_b (h : IsNormalCdf Φ φ c) {a w : ℝ} (ha : 0 < a) (hw : w ≠ 0) :
    MonotoneOn (fun b => bfPut Φ a b w) (Set.Ioi 0) := by
  have e : ∀ b, bfPut Φ a b w = bfCall Φ a b w + b - a := fun b => by linarith [bf_parity h.symm a b w]
  have hd : ∀ x, 0 < x → HasDerivAt (fun b => bfCall Φ a b w + b - a) (-Φ (D1 a x w - w) + 1) x := fun x hx =>
    ((bfCall_hasDerivAt_b h ha hx hw).add (hasDerivAt_id x)).sub_const a
  have : MonotoneOn (fun b => bfCall Φ a b w + b - a) (Set.Ioi 0) := by
    apply monotoneOn_of_deriv_nonneg (convex_Ioi 0)
    · intro x hx; exact (hd x hx).continuousAt.continuousWithinAt
    · intro x hx; rw [interior_Ioi] at hx; exact (hd x hx).differentiableAt.differentiableWithinAt
    · intro x hx; rw [interior_Ioi] at hx; rw [(hd x hx).deriv]; linarith [h.le_one (D1 a x w - w)]
  intro x hx y hy hxy
  simp only [e]
  exact this hx hy hxy

/-! #### the limit of vanishing total volatility -/

theorem tendsto_half_nhdsGT (s : ℝ) : Tendsto (fun w : ℝ => s * w) (𝓝[>] 0) (𝓝 0) := by
  have : Tendsto (fun w : ℝ => s * w) (𝓝 0) (𝓝 (s * 0)) := (continuous_const.mul continuous_id).tendsto 0
  rw [mul_zero] at this
  exact this.mono_left nhdsWithin_le_nhds

theorem D1_tendsto_atTop {a b : ℝ} (hb : 0 < b) (hab : b < a) (s : ℝ) :
    Tendsto (fun w => D1 a b w + s * w) (𝓝[>] 0) atTop := by
  have hL : 0 < Real.log (a / b) := Real.log_pos ((one_lt_div hb).mpr hab)
  have h1 : Tendsto (fun w : ℝ => Real.log (a / b) * w⁻¹) (𝓝[>] 0) atTop :=
    tendsto_inv_nhdsGT_zero.const_mul_atTop hL
  have h2 := tendsto_half_nhdsGT (1 / 2 + s)
  have := h1.atTop_add h2
  refine this.congr (fun w => ?_)
  unfold D1; ring

/-- in the money: C → a − b as w → 0⁺ -/
theorem bfCall_tendsto_itm (h : IsNormalCdf Φ φ c) {a b : ℝ} (hb : 0 < b) (hab : b < a) :
    Tendsto (fun w => bfCall Φ a b w) (𝓝[>] 0) (𝓝 (a - b)) := by
  have h1 := h.top.comp (D1_tendsto_atTop hb hab 0)
  have h2 := h.top.comp (D1_tendsto_atTop hb hab (-1))
  have := (h1.const_mul a).sub (h2.const_mul b)
  simp only [mul_one] at this
  refine this.congr (fun w => ?_)
  simp only [Function.comp, bfCall]
  ring_nf

/-- at the money: C → 0 -/
theorem bfCall_tendsto_atm (h : IsNormalCdf Φ φ c) (a : ℝ) (ha : a ≠ 0) :
    Tendsto (fun w => bfCall Φ a a w) (𝓝[>] 0) (𝓝 0) := by
  have e : ∀ w, bfCall Φ a a w = a * Φ ((1 / 2) * w) - a * Φ ((-1 / 2) * w) := by
    intro w; unfold bfCall D1; rw [div_self ha, Real.log_one]; ring_nf
  have h1 := (h.continuous.tendsto 0).comp (tendsto_half_nhdsGT (1 / 2))
  have h2 := (h.continuous.tendsto 0).comp (tendsto_half_nhdsGT (-1 / 2))
  have := (h1.const_mul a).sub (h2.const_mul a)
  rw [sub_self] at this
  refine this.congr (fun w => ?_)
  rw [e]; rfl

/-- **zero volatility = intrinsic value** (limit form): C(a, b, w) → max(a − b, 0) as w → 0⁺ -/
theorem bfCall_tendsto_intrinsic (h : IsNormalCdf Φ φ c) {a b : ℝ} (ha : 0 < a) (hb : 0 < b) :
    Tendsto (fun w => bfCall Φ a b w) (𝓝[>] 0) (𝓝 (max (a - b) 0)) := by
  rcases lt_trichotomy a b with hlt | heq | hgt
  · rw [max_eq_right (by linarith)]
    have e : ∀ w, bfCall Φ a b w = (a - b) + bfCall Φ b a w := fun w => by
      rw [← bfPut_eq_swap ha hb]; linarith [bf_parity h.symm a b w]
    have := (bfCall_tendsto_itm h ha hlt).const_add (a - b)
    rw [show a - b + (b - a) = 0 by ring] at this
    exact this.congr (fun w => (e w).symm)
  · subst heq
    rw [sub_self, max_self]
    exact bfCall_tendsto_atm h a ha.ne'
  · rw [max_eq_left (by linarith)]
    exact bfCall_tendsto_itm h hb hgt

/-- **the option is worth at least its intrinsic value** (hence ≥ 0), for every positive total volatility -/
theorem bfCall_ge_intrinsic (h : IsNormalCdf Φ φ c) {a b w : ℝ} (ha : 0 < a) (hb : 0 < b) (hw : 0 < w) :
    max (a - b) 0 ≤ bfCall Φ a b w := by
  apply le_of_tendsto (bfCall_tendsto_intrinsic h ha hb)
  filter_upwards [Ioc_mem_nhdsGT hw] with x hx
  exact bfCall_monotoneOn_w h ha hb hx.1 hw hx.2

theorem bfPut_ge_intrinsic (h : IsNormalCdf Φ φ c) {a b w : ℝ} (ha : 0 < a) (hb : 0 < b) (hw : 0 < w) :
    max (b - a) 0 ≤ bfPut Φ a b w := by
  rw [bfPut_eq_swap ha hb]; exact bfCall_ge_intrinsic h hb ha hw

/-- **time value is at most b·c·w** (∂C/∂w = b·φ(d₂) ≤ b·c): how far a small volatility is from the intrinsic value -/
theorem bfCall_le_intrinsic_add (h : IsNormalCdf Φ φ c) {a b w : ℝ} (ha : 0 < a) (hb : 0 < b) (hw : 0 < w) :
    bfCall Φ a b w ≤ max (a - b) 0 + b * c * w := by
  have hd : ∀ x, 0 < x → HasDerivAt (fun x => bfCall Φ a b x - b * c * x) (b * φ (D1 a b x - x) - b * c) x := fun x hx => by
    have := (bfCall_hasDerivAt_w h ha hb (ne_of_gt hx)).sub ((hasDerivAt_id x).const_mul (b * c))
    exact this.congr_deriv (by simp)
  have hanti : AntitoneOn (fun x => bfCall Φ a b x - b * c * x) (Set.Ioi 0) := by
    apply antitoneOn_of_deriv_nonpos (convex_Ioi 0)
    · intro x hx; exact (hd x hx).continuousAt.continuousWithinAt
    · intro x hx; rw [interior_Ioi] at hx; exact (hd x hx).differentiableAt.differentiableWithinAt
    · intro x hx; rw [interior_Ioi] at hx; rw [(hd x hx).deriv]
      nlinarith [mul_le_mul_of_nonneg_left (h.pdf_le (D1 a b x - x)) hb.le]
  have hlim : Tendsto (fun x => bfCall Φ a b x - b * c * x) (𝓝[>] 0) (𝓝 (max (a - b) 0 - 0)) :=
    (bfCall_tendsto_intrinsic h ha hb).sub (tendsto_half_nhdsGT (b * c))
  rw [sub_zero] at hlim
  have : bfCall Φ a b w - b * c * w ≤ max (a - b) 0 := by
    apply ge_of_tendsto hlim
    filter_upwards [Ioc_mem_nhdsGT hw] with x hx
    exact hanti hx.1 hw hx.2
  linarith

theorem bfPut_le_intrinsic_add (h : IsNormalCdf Φ φ c) {a b w : ℝ} (ha : 0 < a) (hb : 0 < b) (hw : 0 < w) :
    bfPut Φ a b w ≤ max (b - a) 0 + b * c * w := by
  have h1 := bfCall_le_intrinsic_add h ha hb hw
  have h2 := bf_parity h.symm a b w
  have : max (b - a) 0 = max (a - b) 0 - (a - b) := by
    rcases le_total a b with hab | hab
    · rw [max_eq_left (by linarith), max_eq_right (by linarith)]; ring
    · rw [max_eq_right (by linarith), max_eq_left (by linarith)]; ring
  linarith

theorem bfPut_tendsto_intrinsic (h : IsNormalCdf Φ φ c) {a b : ℝ} (ha : 0 < a) (hb : 0 < b) :
    Tendsto (fun w => bfPut Φ a b w) (𝓝[>] 0) (𝓝 (max (b - a) 0)) := by
  have := bfCall_tendsto_intrinsic h hb ha
  exact this.congr (fun w => (bfPut_eq_swap ha hb w).symm)

theorem bfPut_monotoneOn_w (h : IsNormalCdf Φ φ c) {a b : ℝ} (ha : 0 < a) (hb : 0 < b) :
    MonotoneOn (fun w => bfPut Φ a b w) (Set.Ioi 0) := by
  intro x hx y hy hxy
  simp only [bfPut_eq_swap ha hb]
  exact bfCall_monotoneOn_w h hb ha hx hy hxy

/-- `D1` only sees the ratio: a common discount factor drops out -/
theorem D1_scale {df : ℝ} (hdf : df ≠ 0) (a b w : ℝ) : D1 (df * a) (df * b) w = D1 a b w := by
  unfold D1; rw [mul_div_mul_left _ _ hdf]

/-! ### the Bachelier form -/

noncomputable def bachCall (Φ φ : ℝ → ℝ) (x w : ℝ) : ℝ := x * Φ (x / w) + w * φ (x / w)

/-- normal vega: ∂C/∂w = φ(x/w) -/
theorem bachCall_hasDerivAt_w (h : IsNormalCdf Φ φ c) (x : ℝ) {w : ℝ} (hw : w ≠ 0) :
    HasDerivAt (fun v => bachCall Φ φ x v) (φ (x / w)) w := by
  have hd : HasDerivAt (fun v : ℝ => x / v) (-x / w ^ 2) w := by
    have e : (fun v : ℝ => x / v) = fun v => x * v⁻¹ := by funext v; rw [div_eq_mul_inv]
    rw [e]
    refine ((hasDerivAt_inv hw).const_mul x).congr_deriv ?_
    field_simp
  have h1 : HasDerivAt (fun v => x * Φ (x / v)) (x * (φ (x / w) * (-x / w ^ 2))) w :=
    ((h.gauss.deriv (x / w)).comp w hd).const_mul x
  have h2 : HasDerivAt (fun v => v * φ (x / v)) (1 * φ (x / w) + w * (-(x / w * φ (x / w)) * (-x / w ^ 2))) w :=
    (hasDerivAt_id w).mul ((h.pdf_hasDerivAt (x / w)).comp w hd)
  refine (h1.add h2).congr_deriv ?_
  field_simp
  ring

/-- ∂C/∂x = Φ(x/w) -/
theorem bachCall_hasDerivAt_x (h : IsNormalCdf Φ φ c) (x : ℝ) {w : ℝ} (hw : w ≠ 0) :
    HasDerivAt (fun y => bachCall Φ φ y w) (Φ (x / w)) x := by
  have hd : HasDerivAt (fun y : ℝ => y / w) (1 / w) x := by
    simpa using (hasDerivAt_id x).div_const w
  have h1 : HasDerivAt (fun y => y * Φ (y / w)) (1 * Φ (x / w) + x * (φ (x / w) * (1 / w))) x :=
    (hasDerivAt_id x).mul ((h.gauss.deriv (x / w)).comp x hd)
  have h2 : HasDerivAt (fun y => w * φ (y / w)) (w * (-(x / w * φ (x / w)) * (1 / w))) x :=
    ((h.pdf_hasDerivAt (x / w)).comp x hd).const_mul w
  refine (h1.add h2).congr_deriv ?_
  field_simp
  ring

theorem bachCall_monotoneOn_w (h : IsNormalCdf Φ φ c) (x : ℝ) :
    MonotoneOn (fun w => bachCall Φ φ x w) (Set.Ioi 0) := by
  apply monotoneOn_of_deriv_nonneg (convex_Ioi 0)
  · intro w hw; exact (bachCall_hasDerivAt_w h x (ne_of_gt hw)).continuousAt.continuousWithinAt
  · intro w hw; rw [interior_Ioi] at hw
    exact (bachCall_hasDerivAt_w h x (ne_of_gt hw)).differentiableAt.differentiableWithinAt
  · intro w hw; rw [interior_Ioi] at hw
    rw [(bachCall_hasDerivAt_w h x (ne_of_gt hw)).deriv]; exact h.pdf_nonneg _

theorem bachCall_monotone_x (h : IsNormalCdf Φ φ c) {w : ℝ} (hw : w ≠ 0) : Monotone (fun x => bachCall Φ φ x w) :=
  monotone_of_deriv_nonneg (fun x => (bachCall_hasDerivAt_x h x hw).differentiableAt)
    (fun x => by rw [(bachCall_hasDerivAt_x h x hw).deriv]; exact h.nonneg _)

/-- C(x) − x falls with x (∂/∂x = Φ − 1 ≤ 0): the call never moves by more than the forward does -/
theorem bachCall_sub_antitone_x (h : IsNormalCdf Φ φ c) {w : ℝ} (hw : w ≠ 0) :
    Antitone (fun x => bachCall Φ φ x w - x) := by
  have hd : ∀ x, HasDerivAt (fun x => bachCall Φ φ x w - x) (Φ (x / w) - 1) x :=
    fun x => (bachCall_hasDerivAt_x h x hw).sub (hasDerivAt_id x)
  exact antitone_of_deriv_nonpos (fun x => (hd x).differentiableAt)
    (fun x => by rw [(hd x).deriv]; linarith [h.le_one (x / w)])

theorem bach_tv_tendsto (h : IsNormalCdf Φ φ c) (x : ℝ) : Tendsto (fun w => w * φ (x / w)) (𝓝[>] 0) (𝓝 0) := by
  have h0 : Tendsto (fun _ : ℝ => (0 : ℝ)) (𝓝[>] 0) (𝓝 0) := tendsto_const_nhds
  have h1 := tendsto_half_nhdsGT c
  refine tendsto_of_tendsto_of_tendsto_of_le_of_le' h0 h1 ?_ ?_
  · filter_upwards [self_mem_nhdsWithin] with w hw
    exact mul_nonneg (le_of_lt hw) (h.pdf_nonneg _)
  · filter_upwards [self_mem_nhdsWithin] with w hw
    rw [mul_comm c w]
    exact mul_le_mul_of_nonneg_left (h.pdf_le _) (le_of_lt hw)

/-- **zero volatility = intrinsic value** (limit form) for the normal model -/
theorem bachCall_tendsto_intrinsic (h : IsNormalCdf Φ φ c) (x : ℝ) :
    Tendsto (fun w => bachCall Φ φ x w) (𝓝[>] 0) (𝓝 (max x 0)) := by
  have htv := bach_tv_tendsto h x
  rcases lt_trichotomy x 0 with hlt | heq | hgt
  · rw [max_eq_right hlt.le]
    have hd : Tendsto (fun w : ℝ => x * w⁻¹) (𝓝[>] 0) atBot := tendsto_inv_nhdsGT_zero.const_mul_atTop_of_neg hlt
    have := ((h.bot.comp hd).const_mul x).add htv
    simp only [mul_zero, add_zero] at this
    refine this.congr (fun w => ?_)
    simp only [Function.comp, bachCall, div_eq_mul_inv]
  · subst heq
    rw [max_self]
    have : Tendsto (fun w => (0 : ℝ) * Φ (0 / w) + w * φ (0 / w)) (𝓝[>] 0) (𝓝 0) := by simpa using htv
    exact this
  · rw [max_eq_left hgt.le]
    have hd : Tendsto (fun w : ℝ => x * w⁻¹) (𝓝[>] 0) atTop := tendsto_inv_nhdsGT_zero.const_mul_atTop hgt
    have := ((h.top.comp hd).const_mul x).add htv
    simp only [mul_one, add_zero] at this
    refine this.congr (fun w => ?_)
    simp only [Function.comp, bachCall, div_eq_mul_inv]

theorem bachCall_ge_intrinsic (h : IsNormalCdf Φ φ c) (x : ℝ) {w : ℝ} (hw : 0 < w) : max x 0 ≤ bachCall Φ φ x w := by
  apply le_of_tendsto (bachCall_tendsto_intrinsic h x)
  filter_upwards [Ioc_mem_nhdsGT hw] with v hv
  exact bachCall_monotoneOn_w h x hv.1 hw hv.2

/-- normal-model time value is at most c·w = σ√t/√(2π) -/
theorem bachCall_le_intrinsic_add (h : IsNormalCdf Φ φ c) (x : ℝ) {w : ℝ} (hw : 0 ≤ w) :
    bachCall Φ φ x w ≤ max x 0 + c * w := by
  unfold bachCall
  have h1 := h.nonneg (x / w)
  have h2 := h.le_one (x / w)
  have h3 : w * φ (x / w) ≤ c * w := by rw [mul_comm c w]; exact mul_le_mul_of_nonneg_left (h.pdf_le _) hw
  rcases le_total x 0 with hx | hx
  · rw [max_eq_right hx]; nlinarith
  · rw [max_eq_left hx]; nlinarith

end FinVerif.C08
