/-
  C09 — Python `for i in range(lo, hi)` as a fold over absolute indices, used by `Props/C09j.lean` to state
  "the hand-written loop IS the loop the source spells" (same definition as `Lemmas/C07Loop.forRange`, kept local so
  that C09 does not depend on the bond model).
-/
import Mathlib.Tactic.Ring
import Mathlib.Tactic.Linarith

namespace FinVerif.Lemmas.C09

/-- `for i in range(lo, hi)` without break: the state after the last iteration. -/
def forRange {σ : Type} (lohi : Int × Int) (body : σ → Int → σ) (s : σ) : σ :=
  (List.range (lohi.2 - lohi.1).toNat).foldl (fun s (k : Nat) => body s (lohi.1 + (k : Int))) s

theorem forRange_nat {σ : Type} (lo : Int) (n : Nat) (body : σ → Int → σ) (s : σ) :
    forRange (lo, lo + (n : Int)) body s = (List.range n).foldl (fun s (k : Nat) => body s (lo + (k : Int))) s := by
  unfold forRange
  have : (lo + (n : Int) - lo).toNat = n := by omega
  simp only [this]

/-- a loop whose body ignores the index is `n` iterations of the body -/
theorem foldl_range_const {σ : Type} (n : Nat) (f : σ → σ) (s : σ) :
    (List.range n).foldl (fun s (_ : Nat) => f s) s = f^[n] s := by
  induction n generalizing s with
  | zero => simp
  | succ k ih =>
    rw [List.range_succ, List.foldl_append, ih]
    simp [Function.iterate_succ_apply']

end FinVerif.Lemmas.C09
