/-
  Helper lemmas for C10 (limits of the Black form).  Pure real analysis, independent of the generated code.

  For  V_ε = ε·a·Φ(ε·d₁) − ε·b·Φ(ε·(d₁ − w)),  d₁ = ln(a/b)/w + w/2,  along any filter on which a → a₀ > 0, b → b₀ > 0 and
  the total volatility w → 0⁺:  V_ε → ε·(a₀ − b₀) when ε·(a₀ − b₀) > 0 (in the money forward) and V_ε → 0 when
  ε·(a₀ − b₀) < 0 — i.e. V_ε → max(ε·(a₀ − b₀), 0), the intrinsic value of the DISCOUNTED legs.
  Hypotheses on Φ: Φ → 1 at +∞ and Φ → 0 at −∞ (facts about a cdf; hypotheses, never axioms).
-/
import Mathlib.Analysis.SpecialFunctions.Log.Basic
import Mathlib.Analysis.SpecialFunctions.Sqrt
import Mathlib.Analysis.SpecialFunctions.Exp
import Mathlib.Topology.Algebra.Order.Field
import Mathlib.Order.Filter.AtTopBot.Field
import Mathlib.Tactic.Ring
import Mathlib.Tactic.Linarith
import Mathlib.Tactic.NormNum
import FinVerif.Spec.C05

namespace FinVerif.C10L
open FinVerif FinVerif.C05 Filter Topology

variable {ι : Type*} {l : Filter ι} {a b w : ι → ℝ} {a0 b0 : ℝ}

theorem tendsto_log_ratio (ha : Tendsto a l (𝓝 a0)) (hb : Tendsto b l (𝓝 b0)) (ha0 : 0 < a0) (hb0 : 0 < b0) :
    Tendsto (fun x => Real.log (a x / b x)) l (𝓝 (Real.log (a0 / b0))) :=
  (ha.div hb hb0.ne').log (div_pos ha0 hb0).ne'

/-- a₀ > b₀ > 0, w → 0⁺ : d₁ → +∞ and d₂ = d₁ − w → +∞ -/
theorem D1_tendsto_atTop (ha : Tendsto a l (𝓝 a0)) (hb : Tendsto b l (𝓝 b0)) (hw : Tendsto w l (𝓝[>] 0))
    (hb0 : 0 < b0) (hab : b0 < a0) :
    Tendsto (fun x => D1 (a x) (b x) (w x)) l atTop ∧ Tendsto (fun x => D1 (a x) (b x) (w x) - w x) l atTop := by
  have ha0 : 0 < a0 := lt_trans hb0 hab
  have hL : 0 < Real.log (a0 / b0) := Real.log_pos ((one_lt_div hb0).mpr hab)
  have hw0 : Tendsto w l (𝓝 0) := hw.mono_right nhdsWithin_le_nhds
  have hinv : Tendsto (fun x => (w x)⁻¹) l atTop := hw.inv_tendsto_nhdsGT_zero
  have h1 : Tendsto (fun x => Real.log (a x / b x) * (w x)⁻¹) l atTop :=
    (tendsto_log_ratio ha hb ha0 hb0).pos_mul_atTop hL hinv
  have h2 : Tendsto (fun x => Real.log (a x / b x) * (w x)⁻¹ + w x / 2) l atTop :=
    h1.atTop_add (hw0.div_const 2)
  have e : (fun x => D1 (a x) (b x) (w x)) = fun x => Real.log (a x / b x) * (w x)⁻¹ + w x / 2 := by
    funext x; simp only [D1, div_eq_mul_inv]
  refine ⟨e ▸ h2, ?_⟩
  have h3 : Tendsto (fun x => (Real.log (a x / b x) * (w x)⁻¹ + w x / 2) + (-(w x))) l atTop :=
    h2.atTop_add hw0.neg
  have e2 : (fun x => D1 (a x) (b x) (w x) - w x) = fun x => (Real.log (a x / b x) * (w x)⁻¹ + w x / 2) + (-(w x)) := by
    funext x; simp only [D1, div_eq_mul_inv, sub_eq_add_neg]
  exact e2 ▸ h3

/-- 0 < a₀ < b₀, w → 0⁺ : d₁ → −∞ and d₂ → −∞ -/
theorem D1_tendsto_atBot (ha : Tendsto a l (𝓝 a0)) (hb : Tendsto b l (𝓝 b0)) (hw : Tendsto w l (𝓝[>] 0))
    (ha0 : 0 < a0) (hab : a0 < b0) :
    Tendsto (fun x => D1 (a x) (b x) (w x)) l atBot ∧ Tendsto (fun x => D1 (a x) (b x) (w x) - w x) l atBot := by
  have hb0 : 0 < b0 := lt_trans ha0 hab
  have hL : Real.log (a0 / b0) < 0 := Real.log_neg (div_pos ha0 hb0) ((div_lt_one hb0).mpr hab)
  have hw0 : Tendsto w l (𝓝 0) := hw.mono_right nhdsWithin_le_nhds
  have hinv : Tendsto (fun x => (w x)⁻¹) l atTop := hw.inv_tendsto_nhdsGT_zero
  have h1 : Tendsto (fun x => Real.log (a x / b x) * (w x)⁻¹) l atBot :=
    (tendsto_log_ratio ha hb ha0 hb0).neg_mul_atTop hL hinv
  have h2 : Tendsto (fun x => Real.log (a x / b x) * (w x)⁻¹ + w x / 2) l atBot :=
    h1.atBot_add (hw0.div_const 2)
  have e : (fun x => D1 (a x) (b x) (w x)) = fun x => Real.log (a x / b x) * (w x)⁻¹ + w x / 2 := by
    funext x; simp only [D1, div_eq_mul_inv]
  refine ⟨e ▸ h2, ?_⟩
  have h3 : Tendsto (fun x => (Real.log (a x / b x) * (w x)⁻¹ + w x / 2) + (-(w x))) l atBot :=
    h2.atBot_add hw0.neg
  have e2 : (fun x => D1 (a x) (b x) (w x) - w x) = fun x => (Real.log (a x / b x) * (w x)⁻¹ + w x / 2) + (-(w x)) := by
    funext x; simp only [D1, div_eq_mul_inv, sub_eq_add_neg]
  exact e2 ▸ h3

/-- the Black form with the code's `phi = ε` -/
noncomputable def blackForm (Φ : ℝ → ℝ) (ε a b w : ℝ) : ℝ :=
  a * flipN ε Φ (D1 a b w) - b * flipN ε Φ (D1 a b w - w)

/-- **limit of the Black form as the total volatility → 0⁺**: the intrinsic value of the (limiting) discounted legs. -/
theorem blackForm_tendsto_intrinsic {Φ : ℝ → ℝ} (hΦtop : Tendsto Φ atTop (𝓝 1)) (hΦbot : Tendsto Φ atBot (𝓝 0))
    (ha : Tendsto a l (𝓝 a0)) (hb : Tendsto b l (𝓝 b0)) (hw : Tendsto w l (𝓝[>] 0))
    (ha0 : 0 < a0) (hb0 : 0 < b0) (hne : a0 ≠ b0) {ε : ℝ} (hε : ε = 1 ∨ ε = -1) :
    Tendsto (fun x => blackForm Φ ε (a x) (b x) (w x)) l (𝓝 (max (ε * (a0 - b0)) 0)) := by
  rcases lt_or_gt_of_ne hne with hlt | hgt
  · -- a₀ < b₀ : d → −∞
    obtain ⟨d1, d2⟩ := D1_tendsto_atBot ha hb hw ha0 hlt
    rcases hε with rfl | rfl
    · have hlim : max (1 * (a0 - b0)) 0 = a0 * (1 * 0) - b0 * (1 * 0) := by
        rw [max_eq_right (by linarith)]; ring
      rw [hlim]
      simp only [blackForm, flipN, one_mul]
      have t1 := hΦbot.comp d1
      have t2 := hΦbot.comp d2
      exact (ha.mul t1).sub (hb.mul t2)
    · have hlim : max (-1 * (a0 - b0)) 0 = a0 * (-1 * 1) - b0 * (-1 * 1) := by
        rw [max_eq_left (by linarith)]; ring
      rw [hlim]
      simp only [blackForm, flipN, neg_one_mul]
      have t1 := hΦtop.comp (tendsto_neg_atBot_atTop.comp d1)
      have t2 := hΦtop.comp (tendsto_neg_atBot_atTop.comp d2)
      exact (ha.mul t1.neg).sub (hb.mul t2.neg)
  · -- a₀ > b₀ : d → +∞
    obtain ⟨d1, d2⟩ := D1_tendsto_atTop ha hb hw hb0 hgt
    rcases hε with rfl | rfl
    · have hlim : max (1 * (a0 - b0)) 0 = a0 * (1 * 1) - b0 * (1 * 1) := by
        rw [max_eq_left (by linarith)]; ring
      rw [hlim]
      simp only [blackForm, flipN, one_mul]
      have t1 := hΦtop.comp d1
      have t2 := hΦtop.comp d2
      exact (ha.mul t1).sub (hb.mul t2)
    · have hlim : max (-1 * (a0 - b0)) 0 = a0 * (-1 * 0) - b0 * (-1 * 0) := by
        rw [max_eq_right (by linarith)]; ring
      rw [hlim]
      simp only [blackForm, flipN, neg_one_mul]
      have t1 := hΦbot.comp (tendsto_neg_atTop_atBot.comp d1)
      have t2 := hΦbot.comp (tendsto_neg_atTop_atBot.comp d2)
      exact (ha.mul t1.neg).sub (hb.mul t2.neg)

/-- `x ↦ c·√x → 0⁺` as `x → 0⁺`, for c > 0 -/
theorem tendsto_mul_sqrt_nhdsGT {c : ℝ} (hc : 0 < c) : Tendsto (fun x : ℝ => c * Real.sqrt x) (𝓝[>] 0) (𝓝[>] 0) := by
  apply tendsto_nhdsWithin_of_tendsto_nhds_of_eventually_within
  · have h : Tendsto (fun x : ℝ => c * Real.sqrt x) (𝓝 0) (𝓝 (c * Real.sqrt 0)) :=
      (Real.continuous_sqrt.tendsto 0).const_mul c
    rw [Real.sqrt_zero, mul_zero] at h
    exact h.mono_left nhdsWithin_le_nhds
  · filter_upwards [self_mem_nhdsWithin] with x hx
    exact mul_pos hc (Real.sqrt_pos.mpr hx)

/-- `x ↦ x·c → 0⁺` as `x → 0⁺`, for c > 0 -/
theorem tendsto_mul_const_nhdsGT {c : ℝ} (hc : 0 < c) : Tendsto (fun x : ℝ => x * c) (𝓝[>] 0) (𝓝[>] 0) := by
  apply tendsto_nhdsWithin_of_tendsto_nhds_of_eventually_within
  · have h : Tendsto (fun x : ℝ => x * c) (𝓝 0) (𝓝 (0 * c)) := (continuous_id.tendsto 0).mul_const c
    rw [zero_mul] at h
    exact h.mono_left nhdsWithin_le_nhds
  · filter_upwards [self_mem_nhdsWithin] with x hx
    exact mul_pos hx hc

end FinVerif.C10L
