/- Helper lemmas for C11 (real-analysis identities used where a barrier equals the strike). -/
import Mathlib.Analysis.SpecialFunctions.Log.Basic
import Mathlib.Analysis.SpecialFunctions.Sqrt
import Mathlib.Tactic.Ring
import Mathlib.Tactic.FieldSimp
import Mathlib.Tactic.Linarith

namespace FinVerif.Lemmas.C11

theorem log_sq_div (k s : ℝ) : Real.log (k * k / (s * k)) = Real.log (k / s) := by
  by_cases hk : k = 0
  · subst hk; simp
  · rw [mul_div_mul_right _ _ hk]

/-- `x1 = d1` when the barrier equals the strike -/
theorem x1_eq_d1 (L m v t : ℝ) (hv : v ≠ 0) (ht : 0 < t) :
    L / (v * √t) + (m + v * v / 2) / (v * v) * (v * √t) = (L + (m + v * v / 2) * t) / (v * √t) := by
  obtain ⟨w, hw, rfl⟩ : ∃ w, 0 < w ∧ t = w * w := ⟨√t, Real.sqrt_pos.mpr ht, (Real.mul_self_sqrt ht.le).symm⟩
  rw [Real.sqrt_mul_self hw.le]
  have := hw.ne'
  field_simp

/-- `x1 - σ√t = d2` when the barrier equals the strike -/
theorem x1_sub_eq_d2 (L m v t : ℝ) (hv : v ≠ 0) (ht : 0 < t) :
    L / (v * √t) + (m + v * v / 2) / (v * v) * (v * √t) - v * √t = (L + (m - v * v / 2) * t) / (v * √t) := by
  obtain ⟨w, hw, rfl⟩ : ∃ w, 0 < w ∧ t = w * w := ⟨√t, Real.sqrt_pos.mpr ht, (Real.mul_self_sqrt ht.le).symm⟩
  rw [Real.sqrt_mul_self hw.le]
  have := hw.ne'
  field_simp
  ring

/-- `-d1 + σ√t = -d2` -/
theorem neg_d1_add (L m v t : ℝ) (hv : v ≠ 0) (ht : 0 < t) :
    -((L + (m + v * v / 2) * t) / (v * √t)) + v * √t = -((L + (m - v * v / 2) * t) / (v * √t)) := by
  obtain ⟨w, hw, rfl⟩ : ∃ w, 0 < w ∧ t = w * w := ⟨√t, Real.sqrt_pos.mpr ht, (Real.mul_self_sqrt ht.le).symm⟩
  rw [Real.sqrt_mul_self hw.le]
  have := hw.ne'
  field_simp
  ring

end FinVerif.Lemmas.C11
