/-
  C12 — Python loop / flat-array semantics used by `Props/C12e.lean` to state "the hand-written lattice recursion IS the
  nest of `for` loops over flat arrays that the source spells": `for i in range(lo, hi)`, `for i in range(a, b, ±1)`,
  `arr[k] = v` (`Function.update`), `int(x)` for `x ≥ 0`, the triangular layer offsets, and two fold lemmas (a pass that
  writes a window of the array and reads only outside it; the running-product pass of the stock lattice).
-/
import Mathlib.Data.Real.Basic
import Mathlib.Algebra.Order.Floor.Ring
import Mathlib.Algebra.Order.Floor.Semiring
import Mathlib.Algebra.Order.Archimedean.Real.Basic
import Mathlib.Logic.Function.Basic
import Mathlib.Tactic.Ring
import Mathlib.Tactic.Linarith
import Mathlib.Tactic.NormNum
import Mathlib.Tactic.Push
import Mathlib.Algebra.Group.Nat.Even

namespace FinVerif.Lemmas.C12

/-- a flat `np.zeros(n)` array read/written at natural indices -/
abbrev Arr := ℕ → ℝ

/-- `for i in range(lo, hi)`: the state after the last iteration -/
def forRange {σ : Type} (lohi : Int × Int) (body : σ → Int → σ) (s : σ) : σ :=
  (List.range (lohi.2 - lohi.1).toNat).foldl (fun s (k : ℕ) => body s (lohi.1 + (k : Int))) s

/-- `for i in range(start, stop, step)` for `step = -1` (counting down) and `step = 1`; any other step leaves the state
unchanged (the theorems of C12e first prove that the generated step IS `-1`). -/
def forRange3 {σ : Type} (r : Int × Int × Int) (body : σ → Int → σ) (s : σ) : σ :=
  if r.2.2 = -1 then (List.range (r.1 - r.2.1).toNat).foldl (fun s (k : ℕ) => body s (r.1 - (k : Int))) s
  else if r.2.2 = 1 then forRange (r.1, r.2.1) body s
  else s

/-- `int(x)` for `x ≥ 0` -/
noncomputable def pyInt (x : ℝ) : ℕ := ⌊x⌋₊

/-- number of lattice nodes before layer `i` -/
def tri (i : ℕ) : ℕ := i * (i + 1) / 2

theorem tri_zero : tri 0 = 0 := rfl

theorem two_mul_tri (i : ℕ) : 2 * tri i = i * (i + 1) := by
  unfold tri
  exact Nat.mul_div_cancel' (Nat.even_mul_succ_self i).two_dvd

theorem tri_succ (i : ℕ) : tri (i + 1) = tri i + i + 1 := by
  have h1 := two_mul_tri i
  have h2 := two_mul_tri (i + 1)
  have : 2 * tri (i + 1) = 2 * (tri i + i + 1) := by
    rw [h2]
    have : 2 * (tri i + i + 1) = 2 * tri i + 2 * i + 2 := by ring
    rw [this, h1]; ring
  omega

theorem tri_real (i : ℕ) : (0.5 : ℝ) * (i : ℝ) * ((i : ℝ) + 1) = (tri i : ℝ) := by
  have h := two_mul_tri i
  have h' : (2 : ℝ) * (tri i : ℝ) = (i : ℝ) * ((i : ℝ) + 1) := by exact_mod_cast h
  linarith

theorem pyInt_natCast (k : ℕ) : pyInt (k : ℝ) = k := by unfold pyInt; exact Nat.floor_natCast k

theorem tri_mono {i k : ℕ} (h : i ≤ k) : tri i ≤ tri k := by
  induction h with
  | refl => exact le_refl _
  | step _ ih => rw [tri_succ]; omega

/-- the layers do not overlap: a flat index determines (layer, node) -/
theorem tri_layout_injective {i j i' j' : ℕ} (hj : j ≤ i) (hj' : j' ≤ i') (h : tri i + j = tri i' + j') :
    i = i' ∧ j = j' := by
  rcases Nat.lt_trichotomy i i' with hlt | heq | hgt
  · have := tri_mono (show i + 1 ≤ i' from hlt); rw [tri_succ] at this; omega
  · subst heq; exact ⟨rfl, by omega⟩
  · have := tri_mono (show i' + 1 ≤ i from hgt); rw [tri_succ] at this; omega

theorem forRange_zero {σ : Type} (hi : ℕ) (body : σ → Int → σ) (s : σ) :
    forRange ((0 : Int), (hi : Int)) body s = (List.range hi).foldl (fun s (k : ℕ) => body s (k : Int)) s := by
  simp [forRange]

theorem forRange_one {σ : Type} (n : ℕ) (body : σ → Int → σ) (s : σ) :
    forRange ((1 : Int), (n : Int) + 1) body s = (List.range n).foldl (fun s (k : ℕ) => body s ((k + 1 : ℕ) : Int)) s := by
  simp only [forRange]
  have : ((n : Int) + 1 - 1).toNat = n := by omega
  rw [this]
  congr 1
  funext s k
  congr 1
  push_cast; ring

theorem forRange3_down {σ : Type} (n : ℕ) (body : σ → Int → σ) (s : σ) :
    forRange3 ((n : Int) - 1, (-1 : Int), (-1 : Int)) body s
      = (List.range n).foldl (fun s (k : ℕ) => body s ((n : Int) - 1 - (k : Int))) s := by
  simp only [forRange3, if_true]
  have : ((n : Int) - 1 - -1).toNat = n := by omega
  rw [this]

/-- counting down over `n` layers = peel the top layer, then count down over `n - 1` layers -/
theorem foldl_down_succ {σ : Type} (n : ℕ) (pass : ℕ → σ → σ) (s : σ) :
    (List.range (n + 1)).foldl (fun s k => pass (n - k) s) s
      = (List.range n).foldl (fun s k => pass (n - 1 - k) s) (pass n s) := by
  rw [List.range_succ_eq_map, List.foldl_cons, List.foldl_map]
  simp only [Nat.sub_zero]
  congr 1
  funext s k
  congr 1
  omega

/-- a pass that writes `arr[b + j] = g arr j` for `j = 0 … m-1`, where `g` reads the array only outside the window
`[b, b + m)`: every written cell holds `g` of the ORIGINAL array, all other cells are unchanged. -/
theorem foldl_update_window (b m : ℕ) (g : Arr → ℕ → ℝ) (a0 : Arr)
    (hg : ∀ (a : Arr) j, (∀ k, ¬(b ≤ k ∧ k < b + m) → a k = a0 k) → g a j = g a0 j) :
    (List.range m).foldl (fun a j => Function.update a (b + j) (g a j)) a0
      = fun k => if b ≤ k ∧ k < b + m then g a0 (k - b) else a0 k := by
  induction m with
  | zero =>
    funext k
    simp
  | succ m ih =>
    have hg' : ∀ (a : Arr) j, (∀ k, ¬(b ≤ k ∧ k < b + m) → a k = a0 k) → g a j = g a0 j := by
      intro a j ha
      apply hg
      intro k hk
      apply ha
      omega
    rw [List.range_succ, List.foldl_append, ih hg']
    simp only [List.foldl_cons, List.foldl_nil]
    have hgm : g (fun k => if b ≤ k ∧ k < b + m then g a0 (k - b) else a0 k) m = g a0 m := by
      apply hg
      intro k hk
      have : ¬(b ≤ k ∧ k < b + m) := by omega
      simp [this]
    rw [hgm]
    funext k
    by_cases hk : k = b + m
    · subst hk
      have : b ≤ b + m ∧ b + m < b + (m + 1) := by omega
      simp [this]
    · rw [Function.update_of_ne hk]
      by_cases h1 : b ≤ k ∧ k < b + m
      · have h2 : b ≤ k ∧ k < b + (m + 1) := by omega
        simp [h1, h2]
      · have h2 : ¬(b ≤ k ∧ k < b + (m + 1)) := by omega
        simp [h1, h2]

/-- the inner pass of the stock lattice: `arr[b + j] = s; s = s * uu` for `j = 0 … m-1` -/
theorem foldl_lattice_inner (b m : ℕ) (uu : ℝ) (a0 : Arr) (s : ℝ) :
    (List.range m).foldl (fun (t : Arr × ℝ) j => (Function.update t.1 (b + j) t.2, t.2 * uu)) (a0, s)
      = (fun k => if b ≤ k ∧ k < b + m then s * uu ^ (k - b) else a0 k, s * uu ^ m) := by
  induction m with
  | zero =>
    simp only [List.range_zero, List.foldl_nil, pow_zero, mul_one]
    congr 1
    funext k
    simp
  | succ m ih =>
    rw [List.range_succ, List.foldl_append, ih]
    simp only [List.foldl_cons, List.foldl_nil]
    congr 1
    · funext k
      by_cases hk : k = b + m
      · subst hk
        have : b ≤ b + m ∧ b + m < b + (m + 1) := by omega
        simp [this]
      · rw [Function.update_of_ne hk]
        by_cases h1 : b ≤ k ∧ k < b + m
        · have h2 : b ≤ k ∧ k < b + (m + 1) := by omega
          simp [h1, h2]
        · have h2 : ¬(b ≤ k ∧ k < b + (m + 1)) := by omega
          simp [h1, h2]
    · rw [pow_succ]; ring

end FinVerif.Lemmas.C12
