/-
  C16 — Python loop semantics used by `Props/C16l.lean` to state "the hand-written loop IS the loop the source spells":
  `while guard: body` (with fuel, like the hand models), `for i in range(lo, hi)` as a map over a table, `xs[lo:hi]`,
  and the loops of `Schedule.generate` / `CDS._generate_adjusted_cds_payment_dts` ASSEMBLED from the pieces generated
  in `Gen/SchedLoop.lean` (guard, `_pre` = receiver and argument of `add_months`, `_post` = the whole body with the date
  calls replaced by their results, tails, index expressions).  The only hand-written part of the assembled loops is the
  order "evaluate add_months on what `_pre` returns, evaluate eom iff the generated flag holds, call `_post`".
-/
import FinVerif.Core.ScheduleUse
import FinVerif.Gen.SchedLoop

namespace FinVerif.Lemmas.C16
open FinVerif FinVerif.Sched FinVerif.Gen.SchedLoop

/-- `while guard(s): s = step(s)`; out of fuel = `.error .other` exactly like the hand models. -/
def whileFuel {σ : Type} (guard : σ → Bool) (step : σ → Except PyErr σ) : Nat → σ → Except PyErr σ
  | 0, _ => .error .other
  | fuel + 1, s =>
    if guard s then
      match step s with
      | .error e => .error e
      | .ok s' => whileFuel guard step fuel s'
    else .ok s

/-- loop-carried variables of the roll loops: `next_dt`, `flow_num`, `unadjusted_schedule_dts` -/
structure LoopState where
  next : PyDate
  flow : Int
  un : List PyDate

/-- `[f(i) for i in range(lo, hi)]` -/
def forRangeMap {β : Type} (lohi : Int × Int) (f : Int → β) : List β :=
  (List.range (lohi.2 - lohi.1).toNat).map (fun (k : Nat) => f (lohi.1 + (k : Int)))

/-- Python `xs[lo:hi]` for `lo ≥ 0`; a bound `0` in the second place stands for "absent", a negative upper bound
counts from the end (same convention as the C07 loop headers). -/
def pySlice {α : Type} (xs : List α) (lohi : Int × Int) : List α :=
  if lohi.2 = 0 then xs.drop lohi.1.toNat
  else if lohi.2 < 0 then (xs.take (xs.length - (-lohi.2).toNat)).drop lohi.1.toNat
  else (xs.take lohi.2.toNat).drop lohi.1.toNat

/-- `xs[i] = v` for a non-negative or negative (from the end) index -/
def pySet {α : Type} (xs : List α) (i : Int) (v : α) : List α :=
  if 0 ≤ i then xs.set i.toNat v else xs.set (xs.length - (-i).toNat) v

/-! ### `Schedule.generate`, BACKWARD -/

def schBackGuard (p : Params) (s : LoopState) : Bool :=
  sch_back_guard s.next p.termination p.effective p.endOfMonth p.adjustTermination

/-- one iteration of the BACKWARD `while`, assembled from the generated pieces -/
def schBackStep (o : Ops) (p : Params) (s : LoopState) : Except PyErr LoopState :=
  let a := sch_back_pre s.next s.flow p.numMonths p.termination p.effective p.endOfMonth p.adjustTermination
  match o.addMonths a.1 a.2 with
  | .error e => .error e
  | .ok am =>
    match (if sch_back_eom_flag p.termination p.effective p.endOfMonth p.adjustTermination then o.eom am else .ok am) with
    | .error e => .error e
    | .ok em =>
      let r := sch_back_post s.next s.flow p.numMonths am em p.termination p.effective p.endOfMonth p.adjustTermination
      .ok { next := r.1, flow := r.2.1, un := s.un ++ [r.2.2] }

def schBackInit (p : Params) : LoopState :=
  let i := sch_back_init p.termination p.effective p.endOfMonth p.adjustTermination
  { next := i.1, flow := i.2, un := [] }

/-- the BACKWARD loop and the two statements after it: (unadjusted table, final `flow_num`) -/
def schBackRun (o : Ops) (p : Params) (fuel : Nat) (s0 : LoopState) : Except PyErr (List PyDate × Int) :=
  match whileFuel (schBackGuard p) (schBackStep o p) fuel s0 with
  | .error e => .error e
  | .ok s =>
    let t := sch_back_tail s.next s.flow p.termination p.effective p.endOfMonth p.adjustTermination
    .ok (s.un ++ [t.1], t.2)

/-- the table reads of the BACKWARD adjustment pass: `un[flow_num − 1]`, then `un[flow_num − i − 1]` for the generated range -/
def schBackFirst (un : List PyDate) (flow : Int) (dflt : PyDate) : PyDate :=
  un.getD (sch_back_first_idx flow).toNat dflt

def schBackInterior (un : List PyDate) (flow : Int) (dflt : PyDate) : List PyDate :=
  forRangeMap (sch_back_adj_range flow) (fun i => un.getD (sch_back_adj_idx flow i).toNat dflt)

/-! ### `Schedule.generate`, FORWARD -/

def schFwdGuard (p : Params) (s : LoopState) : Bool :=
  sch_fwd_guard s.next p.termination p.effective p.endOfMonth p.adjustTermination

def schFwdStep (o : Ops) (p : Params) (s : LoopState) : Except PyErr LoopState :=
  let a := sch_fwd_pre s.next s.flow p.numMonths p.termination p.effective p.endOfMonth p.adjustTermination
  match o.addMonths a.1 a.2 with
  | .error e => .error e
  | .ok am =>
    let r := sch_fwd_post s.next s.flow p.numMonths am p.termination p.effective p.endOfMonth p.adjustTermination
    .ok { next := r.1, flow := r.2.1, un := s.un ++ [r.2.2] }

def schFwdInit (p : Params) : LoopState :=
  let i := sch_fwd_init p.termination p.effective p.endOfMonth p.adjustTermination
  { next := i.1, flow := i.2.1, un := [i.2.2] }

def schFwdInterior (un : List PyDate) (flow : Int) (dflt : PyDate) : List PyDate :=
  forRangeMap (sch_fwd_adj_range flow) (fun i => un.getD (sch_fwd_adj_idx flow i).toNat dflt)

/-! ### the duplicate-removal loop -/

/-- `for dt in …: <generated body>` on the list `deduped_dts` (never empty: `last` is its last element) -/
def dedupFold : List PyDate → PyDate → List PyDate → Except PyErr (List PyDate)
  | acc, _, [] => .ok acc
  | acc, last, dt :: rest =>
    match sch_dedup_step last dt with
    | .error e => .error e
    | .ok keep => if keep then dedupFold (acc ++ [dt]) dt rest else dedupFold acc last rest

/-! ### CDS -/

def cdsBackGuard (stepIn maturity : PyDate) (s : LoopState) : Bool :=
  cds_back_guard s.next (cds_start_dt maturity stepIn) maturity stepIn

def cdsBackStep (o : Ops) (stepIn maturity : PyDate) (nm : Int) (s : LoopState) : Except PyErr LoopState :=
  let a := cds_back_pre s.next s.flow nm (cds_start_dt maturity stepIn) maturity stepIn
  match o.addMonths a.1 a.2 with
  | .error e => .error e
  | .ok am =>
    let r := cds_back_post s.next s.flow nm (cds_start_dt maturity stepIn) am maturity stepIn
    .ok { next := r.1, flow := r.2.1, un := s.un ++ [r.2.2] }

def cdsBackInit (stepIn maturity : PyDate) : LoopState :=
  let i := cds_back_init (cds_start_dt maturity stepIn) maturity stepIn
  { next := i.1, flow := i.2.1, un := [i.2.2] }

def cdsFwdGuard (stepIn maturity : PyDate) (s : LoopState) : Bool :=
  cds_fwd_guard s.next (cds_start_dt maturity stepIn) maturity stepIn

def cdsFwdStep (o : Ops) (stepIn maturity : PyDate) (nm : Int) (s : LoopState) : Except PyErr LoopState :=
  let a := cds_fwd_pre s.next s.flow nm (cds_start_dt maturity stepIn) maturity stepIn
  match o.addMonths a.1 a.2 with
  | .error e => .error e
  | .ok am =>
    let r := cds_fwd_post s.next s.flow nm (cds_start_dt maturity stepIn) am maturity stepIn
    .ok { next := r.1, flow := r.2.1, un := s.un ++ [r.2.2] }

def cdsFwdInit (stepIn maturity : PyDate) : LoopState :=
  let i := cds_fwd_init (cds_start_dt maturity stepIn) maturity stepIn
  { next := i.1, flow := i.2, un := [] }

/-- the unadjusted CDS dates in the order the generated adjustment loops traverse them -/
def cdsUnadjustedGen (o : Ops) (stepIn maturity : PyDate) (nm : Int) (backward : Bool) (fuel : Nat) :
    Except PyErr (List PyDate) :=
  if backward then
    match whileFuel (cdsBackGuard stepIn maturity) (cdsBackStep o stepIn maturity nm) fuel (cdsBackInit stepIn maturity) with
    | .error e => .error e
    | .ok s => .ok (if cds_back_adjust_reversed then s.un.reverse else s.un)
  else
    match whileFuel (cdsFwdGuard stepIn maturity) (cdsFwdStep o stepIn maturity nm) fuel (cdsFwdInit stepIn maturity) with
    | .error e => .error e
    | .ok s =>
      let un := s.un ++ [cds_fwd_last maturity stepIn]
      .ok (if cds_fwd_adjust_reversed then un.reverse else un)

/-- invariant carried by every roll loop: the flow counter is the length of the unadjusted table plus a constant -/
theorem whileFuel_invariant {σ : Type} (guard : σ → Bool) (step : σ → Except PyErr σ) (I : σ → Prop)
    (hstep : ∀ s s', guard s = true → step s = .ok s' → I s → I s') :
    ∀ (fuel : Nat) (s s' : σ), whileFuel guard step fuel s = .ok s' → I s → I s' ∧ guard s' = false := by
  intro fuel
  induction fuel with
  | zero => intro s s' h; simp [whileFuel] at h
  | succ n ih =>
    intro s s' h hI
    unfold whileFuel at h
    by_cases hg : guard s = true
    · rw [if_pos hg] at h
      cases hs : step s with
      | error e => rw [hs] at h; simp at h
      | ok s1 =>
        rw [hs] at h
        exact ih s1 s' h (hstep s s1 hg hs hI)
    · rw [if_neg hg] at h
      have : s = s' := by simpa using h
      subst this
      exact ⟨hI, by simpa using hg⟩

end FinVerif.Lemmas.C16
