/- Helper lemmas for C17: the recursion as multiplication of generating polynomials. -/
import FinVerif.Model.C17
import Mathlib.Algebra.Polynomial.Derivative
import Mathlib.Algebra.Polynomial.Eval.Degree
import Mathlib.Algebra.Polynomial.Degree.Lemmas
import Mathlib.Algebra.BigOperators.Intervals
import Mathlib.Data.Real.Basic
import Mathlib.Tactic.Ring
import Mathlib.Tactic.Linarith

namespace FinVerif.Lemmas.C17
open FinVerif.Model.C17 Polynomial Finset

/-- generating polynomial of one credit: `(1-p) + p·X^sh` -/
noncomputable def factor (c : Credit ℝ) : ℝ[X] := C (1 - c.p) + C c.p * X ^ c.sh

/-- generating polynomial of the portfolio -/
noncomputable def genPoly (cs : List (Credit ℝ)) : ℝ[X] := (cs.map factor).prod

theorem stepAt_coeff (q : ℝ[X]) (c : Credit ℝ) :
    stepAt (fun i => q.coeff i) c.p c.sh = fun i => (q * factor c).coeff i := by
  funext i
  unfold stepAt factor
  rw [mul_add, coeff_add, coeff_mul_C, ← mul_assoc, coeff_mul_X_pow', coeff_mul_C]
  by_cases h : i < c.sh
  · simp [h, Nat.not_le.mpr h]
  · simp [h, Nat.le_of_not_lt h]; ring

theorem fullFn_coeff (cs : List (Credit ℝ)) (q : ℝ[X]) :
    fullFn cs (fun i => q.coeff i) = fun i => (q * genPoly cs).coeff i := by
  induction cs generalizing q with
  | nil => simp [fullFn, genPoly]
  | cons c cs ih =>
    simp only [fullFn]
    rw [stepAt_coeff, ih]
    simp [genPoly, mul_assoc]

theorem unitFn_coeff : (unitFn : ℕ → ℝ) = fun i => (1 : ℝ[X]).coeff i := by
  funext i
  simp [unitFn, coeff_one]

theorem fullFn_unit (cs : List (Credit ℝ)) :
    fullFn cs (unitFn : ℕ → ℝ) = fun i => (genPoly cs).coeff i := by
  rw [unitFn_coeff, fullFn_coeff]; simp

/-- `stepAt … i` reads `prev` only at indices `≤ i`. -/
theorem stepAt_congr_le {f g : ℕ → ℝ} (p : ℝ) (sh i : ℕ) (h : ∀ j, j ≤ i → f j = g j) :
    stepAt f p sh i = stepAt g p sh i := by
  unfold stepAt
  rw [h i le_rfl, h (i - sh) (Nat.sub_le _ _)]

theorem fullFn_congr_le (cs : List (Credit ℝ)) {f g : ℕ → ℝ} (i : ℕ) (h : ∀ j, j ≤ i → f j = g j) :
    fullFn cs f i = fullFn cs g i := by
  induction cs generalizing f g i with
  | nil => exact h i le_rfl
  | cons c cs ih =>
    simp only [fullFn]
    apply ih
    intro j hj
    exact stepAt_congr_le _ _ _ (fun k hk => h k (le_trans hk hj))

theorem getA_toArray (l : List ℝ) : getA l.toArray = getZ l := by
  funext i; simp [getA, getZ]

theorem getZ_range_map (n : ℕ) (g : ℕ → ℝ) (i : ℕ) :
    getZ ((List.range n).map g) i = if i < n then g i else 0 := by
  unfold getZ
  by_cases h : i < n
  · simp [h, List.getD_eq_getElem?_getD]
  · simp [h, List.getD_eq_getElem?_getD]

/-- The array recursion is the unbounded recursion cut at the array size. -/
theorem foldl_step_getZ (n : ℕ) (cs : List (Credit ℝ)) (g : ℕ → ℝ) (i : ℕ) :
    getZ (cs.foldl (step n) ((List.range n).map g)) i = if i < n then fullFn cs g i else 0 := by
  induction cs generalizing g with
  | nil => simp [fullFn, getZ_range_map]
  | cons c cs ih =>
    simp only [List.foldl_cons, step, fullFn, getA_toArray]
    rw [ih]
    split
    · rename_i hi
      apply fullFn_congr_le
      intro j hj
      apply stepAt_congr_le
      intro k hk
      rw [getZ_range_map, if_pos (lt_of_le_of_lt (le_trans hk hj) hi)]
    · rfl

theorem natDegree_factor_le (c : Credit ℝ) : (factor c).natDegree ≤ c.sh := by
  unfold factor
  refine (natDegree_add_le _ _).trans ?_
  simp only [natDegree_C, zero_le, sup_of_le_right]
  exact natDegree_C_mul_X_pow_le _ _

theorem natDegree_genPoly_le (cs : List (Credit ℝ)) :
    (genPoly cs).natDegree ≤ (cs.map (·.sh)).sum := by
  induction cs with
  | nil => simp [genPoly]
  | cons c cs ih =>
    simp only [genPoly, List.map_cons, List.prod_cons, List.sum_cons]
    exact (natDegree_mul_le).trans (add_le_add (natDegree_factor_le c) ih)

theorem eval_one_factor (c : Credit ℝ) : (factor c).eval 1 = 1 := by
  simp [factor]

theorem eval_one_genPoly (cs : List (Credit ℝ)) : (genPoly cs).eval 1 = 1 := by
  induction cs with
  | nil => simp [genPoly]
  | cons c cs ih =>
    simp only [genPoly, List.map_cons, List.prod_cons, eval_mul, eval_one_factor, one_mul]
    exact ih

theorem deriv_eval_one_factor (c : Credit ℝ) : (derivative (factor c)).eval 1 = c.p * c.sh := by
  simp [factor, derivative_mul, derivative_X_pow]

theorem deriv_eval_one_genPoly (cs : List (Credit ℝ)) :
    (derivative (genPoly cs)).eval 1 = (cs.map fun c => c.p * (c.sh : ℝ)).sum := by
  induction cs with
  | nil => simp [genPoly]
  | cons c cs ih =>
    have h : genPoly (c :: cs) = factor c * genPoly cs := by simp [genPoly]
    rw [h, derivative_mul, eval_add, eval_mul, eval_mul, ih, eval_one_genPoly, eval_one_factor,
      deriv_eval_one_factor]
    simp

end FinVerif.Lemmas.C17
