/-
  C17 — Python loop semantics used by `Props/C17g.lean` to state "the hand-written fold IS the loop the source spells":
  `for i in range(lo, hi)` as a fold over the indices, arrays as memory cells `Int → α` with `a[i] = v` as
  `Function.update` (the index-bound theorems of C17g show separately that every generated index stays inside the array),
  and the closed forms of the two loop shapes that occur: "store a value computed from OTHER arrays at every index"
  and "update every cell in place".
-/
import FinVerif.Lemmas.C17
import Mathlib.Logic.Function.Basic
import Mathlib.Tactic.Ring
import Mathlib.Tactic.Linarith

set_option linter.unusedSimpArgs false

namespace FinVerif.Lemmas.C17
open FinVerif.Model.C17

/-- `for i in range(lo, hi)`: the state after the last iteration. -/
def forRange {σ : Type} (lohi : Int × Int) (body : σ → Int → σ) (s : σ) : σ :=
  (List.range (lohi.2 - lohi.1).toNat).foldl (fun s (k : Nat) => body s (lohi.1 + (k : Int))) s

/-- an array as memory cells -/
abbrev Mem (α : Type) := Int → α

/-- `a[i] = v` -/
def store {α : Type} (a : Mem α) (i : Int) (v : α) : Mem α := Function.update a i v

/-- a list read as memory (`a[i]`, `i ≥ 0`) -/
def rd (l : List ℝ) : Mem ℝ := fun i => getZ l i.toNat

theorem rd_natCast (l : List ℝ) (k : ℕ) : rd l (k : Int) = getZ l k := by simp [rd]

theorem foldl_range_store {α : Type} (lo : Int) (g : α → Int → α) (a0 : Mem α) (m : ℕ) :
    (List.range m).foldl (fun a (k : ℕ) => store a (lo + (k : Int)) (g (a (lo + (k : Int))) (lo + (k : Int)))) a0
      = fun j => if lo ≤ j ∧ j < lo + (m : Int) then g (a0 j) j else a0 j := by
  induction m with
  | zero =>
    funext j
    have : ¬ (lo ≤ j ∧ j < lo + ((0 : ℕ) : Int)) := by push_cast; omega
    simp [this]
  | succ m ih =>
    rw [List.range_succ, List.foldl_append, ih]
    simp only [List.foldl_cons, List.foldl_nil]
    funext j
    unfold store
    by_cases hj : j = lo + (m : Int)
    · subst hj
      have h1 : ¬ (lo ≤ lo + (m : Int) ∧ lo + (m : Int) < lo + (m : Int)) := by omega
      have h2 : lo ≤ lo + (m : Int) ∧ lo + (m : Int) < lo + ((m + 1 : ℕ) : Int) := by push_cast; omega
      simp only [Function.update_self, if_neg h1, if_pos h2]
    · rw [Function.update_of_ne hj]
      have : (lo ≤ j ∧ j < lo + ((m + 1 : ℕ) : Int)) ↔ (lo ≤ j ∧ j < lo + (m : Int)) := by push_cast; omega
      simp only [this]

/-- `for i in range(lo, hi): a[i] = g(a[i], i)` — every cell of the range is updated once, from its own old value;
cells outside the range are untouched. -/
theorem forRange_inplace {α : Type} (lo hi : Int) (g : α → Int → α) (a0 : Mem α) :
    forRange (lo, hi) (fun a i => store a i (g (a i) i)) a0
      = fun j => if lo ≤ j ∧ j < hi then g (a0 j) j else a0 j := by
  unfold forRange
  simp only
  rw [foldl_range_store]
  funext j
  have : (lo ≤ j ∧ j < lo + (((hi - lo).toNat : ℕ) : Int)) ↔ (lo ≤ j ∧ j < hi) := by omega
  simp only [this]

/-- `for i in range(lo, hi): a[i] = f(i)` with `f` reading other arrays only. -/
theorem forRange_store {α : Type} (lo hi : Int) (f : Int → α) (a0 : Mem α) :
    forRange (lo, hi) (fun a i => store a i (f i)) a0 = fun j => if lo ≤ j ∧ j < hi then f j else a0 j :=
  forRange_inplace lo hi (fun _ i => f i) a0

/-- `for i in range(0, n)` with a loop-carried scalar: a left fold over `0, 1, …, n-1`. -/
theorem forRange_zero {σ : Type} (n : ℕ) (body : σ → Int → σ) (s : σ) :
    forRange (0, (n : Int)) body s = (List.range n).foldl (fun s (k : ℕ) => body s (k : Int)) s := by
  unfold forRange
  simp

/-- a `range(0, len(l))` loop that reads `l[i]` is the fold over the elements -/
theorem foldl_range_getD {σ β : Type} (F : σ → β → σ) (d : β) (l : List β) (s : σ) :
    (List.range l.length).foldl (fun s (k : ℕ) => F s (l.getD k d)) s = l.foldl F s := by
  induction l generalizing s with
  | nil => simp
  | cons x t ih =>
    rw [List.length_cons, List.range_succ_eq_map, List.foldl_cons, List.foldl_map]
    simpa using ih (F s x)

end FinVerif.Lemmas.C17
