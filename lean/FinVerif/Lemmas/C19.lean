/- Helper lemmas for C19: the real-number instantiation of the model's operations and list plumbing. -/
import FinVerif.Model.C19
import Mathlib.Analysis.SpecialFunctions.Log.Basic
import Mathlib.Analysis.SpecialFunctions.Sqrt
import Mathlib.Analysis.SpecialFunctions.Pow.Real
import Mathlib.Tactic.Ring
import Mathlib.Tactic.Linarith
import Mathlib.Tactic.FieldSimp
import Mathlib.Tactic.NormNum

namespace FinVerif.Lemmas.C19
open FinVerif.Model.C19

/-- the model's operations read over the reals -/
noncomputable def R : Ops ℝ :=
  ⟨Real.exp, Real.log, Real.sqrt, max, 2, 4, 1 / 2, 1 / 4, 1 / 100000000, 99999, abs, 1 / 1000000000000, min⟩

@[simp] theorem R_exp (x : ℝ) : R.exp x = Real.exp x := rfl
@[simp] theorem R_log (x : ℝ) : R.log x = Real.log x := rfl
@[simp] theorem R_sqrt (x : ℝ) : R.sqrt x = Real.sqrt x := rfl
@[simp] theorem R_max (x y : ℝ) : R.max x y = max x y := rfl
@[simp] theorem R_abs (x : ℝ) : R.abs x = |x| := rfl
@[simp] theorem R_min (x y : ℝ) : R.min x y = min x y := rfl
@[simp] theorem R_two : R.two = 2 := rfl
@[simp] theorem R_four : R.four = 4 := rfl
@[simp] theorem R_half : R.half = 1 / 2 := rfl
@[simp] theorem R_quarter : R.quarter = 1 / 4 := rfl

theorem sumL_eq_sum (l : List ℝ) : sumL l = l.sum := by
  unfold sumL; rw [List.sum_eq_foldl]

theorem foldl_add_eq (l : List ℝ) (a : ℝ) : l.foldl (· + ·) a = a + l.sum := by
  induction l generalizing a with
  | nil => simp
  | cons x xs ih => simp only [List.foldl_cons, List.sum_cons]; rw [ih]; ring

/-- an accumulator that adds two terms per element = the two sums -/
theorem foldl_two_terms {β : Type} (a b : β → ℝ) (l : List β) (acc : ℝ) :
    l.foldl (fun acc g => acc + a g + b g) acc = acc + (l.map a).sum + (l.map b).sum := by
  induction l generalizing acc with
  | nil => simp
  | cons x xs ih => simp only [List.foldl_cons, List.map_cons, List.sum_cons]; rw [ih]; ring

theorem runL_nil {σ β : Type} (f : σ → β → σ) (s : σ) : runL f s [] = s := rfl
theorem runL_cons {σ β : Type} (f : σ → β → σ) (s : σ) (x : β) (xs : List β) :
    runL f s (x :: xs) = runL f (f s x) xs := rfl

/-- the path ends in the state of the plain recursion -/
theorem scan_getLast {σ β : Type} (f : σ → β → σ) (s : σ) (xs : List β) :
    (scan f s xs).getLast? = some (runL f s xs) := by
  induction xs generalizing s with
  | nil => simp [scan, runL]
  | cons x xs ih =>
    have h := ih (f s x)
    cases hsc : scan f (f s x) xs with
    | nil => rw [hsc] at h; simp at h
    | cons y ys =>
      rw [hsc] at h
      simp only [scan, hsc, runL_cons]
      rw [List.getLast?_cons_cons]; exact h

theorem scan_length {σ β : Type} (f : σ → β → σ) (s : σ) (xs : List β) :
    (scan f s xs).length = xs.length + 1 := by
  induction xs generalizing s with
  | nil => simp [scan]
  | cons x xs ih => simp [scan, ih]

theorem sum_map_neg (l : List ℝ) : (l.map Neg.neg).sum = -l.sum := by
  induction l with
  | nil => simp
  | cons x xs ih => simp only [List.map_cons, List.sum_cons, ih]; ring

end FinVerif.Lemmas.C19
