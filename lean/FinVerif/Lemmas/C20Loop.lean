/-
  C20 — Python loop semantics used by `Props/C20p.lean` to state "the hand-written loop IS the loop the source spells":
  the index list of `range(start, stop, step)` (generated headers are such triples), `for` without exits as a fold,
  `for` with `return` / `break` / `raise` in the body as `loopExit`.
-/
import Mathlib.Data.Real.Basic
import Mathlib.Tactic.Ring
import Mathlib.Tactic.Linarith

namespace FinVerif.Lemmas.C20

/-- the indices visited by `for j in range(start, stop, step)` (`step = 0` raises in Python: no indices). -/
def pyRange (r : Int × Int × Int) : List Int :=
  if 0 < r.2.2 then (List.range ((r.2.1 - r.1 + r.2.2 - 1) / r.2.2).toNat).map (fun (k : Nat) => r.1 + (k : Int) * r.2.2)
  else if r.2.2 < 0 then (List.range ((r.1 - r.2.1 + (-r.2.2) - 1) / (-r.2.2)).toNat).map (fun (k : Nat) => r.1 + (k : Int) * r.2.2)
  else []

/-- `for j in range(...)` without exits: the state after the last iteration. -/
def forRange {σ : Type} (r : Int × Int × Int) (body : σ → Int → σ) (s : σ) : σ := (pyRange r).foldl body s

/-- a loop whose body may leave it (`return`, `break`, `raise`): `.error x` = left with `x`, `.ok s` = fell through. -/
def loopExit {σ ρ ι : Type} (body : σ → ι → Except ρ σ) : List ι → σ → Except ρ σ
  | [], s => .ok s
  | i :: is, s => match body s i with
    | .error x => .error x
    | .ok s' => loopExit body is s'

theorem pyRange_up (a b : Int) : pyRange (a, b, 1) = (List.range (b - a).toNat).map (fun (k : Nat) => a + (k : Int)) := by
  simp [pyRange]

theorem pyRange_down (a b : Int) : pyRange (a, b, -1) = (List.range (a - b).toNat).map (fun (k : Nat) => a - (k : Int)) := by
  have h : ¬ ((0 : Int) < -1) := by decide
  simp only [pyRange, h, if_false]
  simp only [show ((-1 : Int) < 0) from by decide, if_true]
  have e : (a - b + (- (-1 : Int)) - 1) / (- (-1 : Int)) = a - b := by simp
  rw [e]
  apply List.map_congr_left
  intro k _
  ring

theorem mem_pyRange_up (a b j : Int) : j ∈ pyRange (a, b, 1) ↔ a ≤ j ∧ j < b := by
  rw [pyRange_up]
  simp only [List.mem_map, List.mem_range]
  constructor
  · rintro ⟨k, hk, rfl⟩; omega
  · intro h; exact ⟨(j - a).toNat, by omega, by omega⟩

theorem mem_pyRange_down (a b j : Int) : j ∈ pyRange (a, b, -1) ↔ b < j ∧ j ≤ a := by
  rw [pyRange_down]
  simp only [List.mem_map, List.mem_range]
  constructor
  · rintro ⟨k, hk, rfl⟩; omega
  · intro h; exact ⟨(a - j).toNat, by omega, by omega⟩

theorem length_pyRange_up (a b : Int) : (pyRange (a, b, 1)).length = (b - a).toNat := by
  rw [pyRange_up]; simp

theorem loopExit_map {σ ρ ι κ : Type} (body : σ → ι → Except ρ σ) (g : κ → ι) (l : List κ) (s : σ) :
    loopExit body (l.map g) s = loopExit (fun s k => body s (g k)) l s := by
  induction l generalizing s with
  | nil => rfl
  | cons k t ih =>
    simp only [List.map_cons, loopExit]
    cases body s (g k) with
    | error x => rfl
    | ok s' => exact ih s'

/-- a body that does not read the loop index runs `length` times -/
theorem loopExit_const {σ ρ ι : Type} (body : σ → Except ρ σ) (l : List ι) (s : σ) :
    loopExit (fun s _ => body s) l s = loopExit (fun s (_ : Unit) => body s) (List.replicate l.length ()) s := by
  induction l generalizing s with
  | nil => rfl
  | cons k t ih =>
    simp only [List.length_cons, List.replicate_succ, loopExit]
    cases body s with
    | error x => rfl
    | ok s' => exact ih s'

end FinVerif.Lemmas.C20
