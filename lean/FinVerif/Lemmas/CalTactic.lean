/- Tactics shared by the calendar proofs (C14). -/
import FinVerif.Spec.Calendar
import Mathlib.Tactic.IntervalCases

namespace FinVerif
open FinVerif.Spec

set_option linter.unusedSimpArgs false in
/-- Close a Bool equation between two `&&`/`||` combinations of linear integer tests. -/
macro "cal_close" : tactic => `(tactic|
  (first
    | rfl
    | (rw [Bool.eq_iff_iff]
       simp only [Bool.or_eq_true, Bool.and_eq_true, decide_eq_true_eq, Bool.false_eq_true, or_false,
         false_or, Bool.not_eq_true', decide_eq_false_iff_not, ne_eq, MON, TUE, WED, THU, FRI, SAT, SUN]
       omega)))

end FinVerif
