/-
  C01 — hand-written executable model of the bootstrap skeleton
      IborSingleCurve._build_curve_using_1d_solver   (financepy/products/rates/ibor_single_curve.py)
      OISCurve._build_curve_using_1d_solver           (ois_curve.py — same text)
      IborDualCurve._build_curve_using_1d_solver      (dual_curve.py — same text, the objectives discount off `discount_curve`)
  *as coded*, written once over a numeric type `α` (the operations of `Model/C02.lean`), so that the driver runs it at `Float`
  and the theorems read it at `ℝ`.  Mathlib-free.

  Times: a knot sits at `(date − value_dt)/365` (`g_days_in_year`), whereas a curve READ `self.df(date)` converts the date
  with the curve's day count (ACT/ACT ISDA) — the two differ when the span touches a leap year (finding `leap-time-axis`),
  so every instrument carries both the knot time(s) and the query time(s) it is read at.

  The closed forms (`IborDeposit._maturity_df`, `IborFRA.maturity_df`) are parameters `mdf`, `fk`, instantiated with the
  GENERATED functions (`Gen/RatesF` in the driver, `Gen/RatesR` in the theorems).  The root finder is a parameter `solve`.
  The interpolation is C02's `uinterp`.
-/
import FinVerif.Model.C02

namespace FinVerif.Model.C01
open FinVerif FinVerif.Model.C02

section generic
variable {α : Type} [Add α] [Sub α] [Mul α] [Div α] [Neg α] [LT α] [LE α]
  [DecidableLT α] [DecidableLE α] [OfScientific α] [OfNat α 0] [OfNat α 1] [ExpLog α]

/-- The knot vector `(self._times, self._dfs)`. -/
abbrev Knots (α : Type) := List α × List α

/-- `self._times = [0.0]; self._dfs = [1.0]` -/
def init : Knots α := ([0], [1])

/-- A deposit as the loop reads it. -/
structure Depo (α : Type) where
  tS : α      -- curve time of `depo.start_dt` (what `self.df(depo.start_dt)` interpolates at)
  tM : α      -- knot time `(depo.maturity_dt - self.value_dt) / g_days_in_year`
  acc : α     -- `DayCount(dc_type).year_frac(start_dt, maturity_dt)[0]`
  rate : α    -- `deposit_rate`

/-- One pass of `for depo in self.used_deposits:` —
`df_settle_dt = self.df(depo.start_dt); df_mat = depo._maturity_df() * df_settle_dt; append (t_mat, df_mat)`. -/
def depoStep (mdf : α → α → α) (m : Int) (st : Knots α) (d : Depo α) : Except PyErr (Knots α) :=
  match uinterp m st.1 st.2 d.tS with
  | .ok dfS => .ok (st.1 ++ [d.tM], st.2 ++ [mdf d.acc d.rate * dfS])
  | .error e => .error e

/-- The deposit loop. -/
def depoLoop (mdf : α → α → α) (m : Int) : Knots α → List (Depo α) → Except PyErr (Knots α)
  | st, [] => .ok st
  | st, d :: ds =>
    match depoStep mdf m st d with
    | .ok st' => depoLoop mdf m st' ds
    | .error e => .error e

/-- A FRA as the loop reads it. -/
structure Fra (α : Type) where
  tSet : α    -- `(fra.start_dt - self.value_dt) / g_days_in_year`
  tMat : α    -- `(fra.maturity_dt - self.value_dt) / g_days_in_year` (the knot time)
  tSq : α     -- curve time of `fra.start_dt` (what `index_curve.df(self.start_dt)` interpolates at)
  acc : α
  rate : α

/-- `if t_set < oldt_mat and t_mat > oldt_mat:` — the closed-form branch. -/
def fraClosedForm (oldT : α) (f : Fra α) : Bool := decide (f.tSet < oldT) && decide (oldT < f.tMat)

/-- One pass of `for fra in self.used_fras:`; `oldT` is `oldt_mat` (set once, before the loop, to the last deposit's knot
time — the loop never updates it); `solve` stands for `optimize.newton(_g, x0=df_mat, …)` on the knot just appended. -/
def fraStep (fk : α → α → α → α) (solve : Knots α → Fra α → α) (m : Int) (oldT : α) (st : Knots α) (f : Fra α) :
    Except PyErr (Knots α) :=
  if fraClosedForm oldT f then
    match uinterp m st.1 st.2 f.tSq with
    | .ok d1 => .ok (st.1 ++ [f.tMat], st.2 ++ [fk d1 f.acc f.rate])
    | .error e => .error e
  else .ok (st.1 ++ [f.tMat], st.2 ++ [solve st f])

def fraLoop (fk : α → α → α → α) (solve : Knots α → Fra α → α) (m : Int) (oldT : α) :
    Knots α → List (Fra α) → Except PyErr (Knots α)
  | st, [] => .ok st
  | st, f :: fs =>
    match fraStep fk solve m oldT st f with
    | .ok st' => fraLoop fk solve m oldT st' fs
    | .error e => .error e

/-- `oldt_mat = t_mat` after the deposit loop: the last knot time placed so far (`0.0` when there is no deposit). -/
def lastTime (st : Knots α) : α := g st.1 (st.1.length - 1)

/-- One pass of `for swap in self.used_swaps:` — append `(t_mat, solve)`; `tMat` is the knot time of
`swap.fixed_leg.payment_dts[-1]`. -/
def swapStep (solve : Knots α → α → α) (st : Knots α) (tMat : α) : Knots α :=
  (st.1 ++ [tMat], st.2 ++ [solve st tMat])

/-- The swap loop: one knot per swap, in order. -/
def swapLoop (solve : Knots α → α → α) : Knots α → List α → Knots α
  | st, [] => st
  | st, t :: ts => swapLoop solve (swapStep solve st t) ts

/-- `_build_curve_using_1d_solver`: anchor knot, deposit loop, `oldt_mat = t_mat`, FRA loop, swap loop. -/
def bootstrap1d (mdf : α → α → α) (fk : α → α → α → α) (solveF : Knots α → Fra α → α) (solveS : Knots α → α → α)
    (m : Int) (deps : List (Depo α)) (fras : List (Fra α)) (swapTs : List α) : Except PyErr (Knots α) :=
  match depoLoop mdf m init deps with
  | .ok st1 =>
    match fraLoop fk solveF m (lastTime st1) st1 fras with
    | .ok st2 => .ok (swapLoop solveS st2 swapTs)
    | .error e => .error e
  | .error e => .error e

/-- The single-curve FRA objective `_g(df)/1`: `fra.value(value_dt, curve) / fra.notional` with the curve read at the query
times of the start date `tSq`, the maturity date `tMq` and the valuation date (time 0); `fv` is the generated `IborFRA.value`
with its arguments in the generated order `(acc, df_index1, df_index2, df_mat, df_value, fra_rate, notional, pay_fixed)`. -/
def fraObjective (fv : α → α → α → α → α → α → α → Bool → α) (m : Int) (st : Knots α)
    (tSq tMq acc rate notional : α) (pay : Bool) : Except PyErr α :=
  match uinterp m st.1 st.2 tSq, uinterp m st.1 st.2 tMq, uinterp m st.1 st.2 0 with
  | .ok d1, .ok d2, .ok dv => .ok (fv acc d1 d2 d2 dv rate notional pay / notional)
  | .error e, _, _ => .error e
  | _, .error e, _ => .error e
  | _, _, .error e => .error e

end generic

end FinVerif.Model.C01
