/-
  C01 / C02 — hand-written executable model of the LINEAR_ONFWD_RATES scheme of
      financepy/market/curves/interpolator.py   (`Interpolator.fit`, `Interpolator.interpolate`)
  *as coded*, written once over a numeric type `α` (the operations of `Model/C02.lean`): the driver runs it at `Float`
  (ops `ONF`, `ONFS` of `Driver/C01`, compared with the implementation knot by knot and on dense grids), the theorems of
  `Props/C01f.lean` read it at `ℝ`.  Mathlib-free.

  The scheme: `fit` turns the knots into piecewise-LINEAR overnight forward rates `(onf_times, onf_rates)` — flat at
  `-log(df₁)/t₁` on `[0, t₁]`, then `r_k = 2·(-log(df_k/df_{k-1}))/(t_k − t_{k-1}) − r_{k-1}` (the trapezoid over
  `[t_{k-1}, t_k]` integrates to the forward log-df) — and `interpolate` returns `exp(−∫₀ᵗ f)`, with `f` extended flat to
  the right of the last knot (`true_integral`).  `InterpolatedUnivariateSpline(k=1).integral` integrates the linear spline
  exactly, so it is the trapezoid sum written here.

  Object state kept as coded: `fit` with ONE knot returns before fitting (`_interp_fn` keeps whatever it was: `None`
  on a fresh object, the OLD spline otherwise); `interpolate` then uses the work-around branch.
-/
import FinVerif.Model.C02

namespace FinVerif.Model.C01
open FinVerif FinVerif.Model.C02

section generic
variable {α : Type} [Add α] [Sub α] [Mul α] [Div α] [Neg α] [LT α] [LE α]
  [DecidableLT α] [DecidableLE α] [OfScientific α] [OfNat α 0] [OfNat α 1] [OfNat α 2] [ExpLog α]

/-- The fitted spline `(onf_times, onf_rates)`: the rate at time 0 and the nodes `(t_k, r_k)`, `k ≥ 1`, in order. -/
abbrev OnfSpline (α : Type) := α × List (α × α)

/-- The `else` arm of the fit loop, for the knots after the first non-zero one: `prevDf` is `prev_df`,
`(pt, pr)` is `(onf_times[-1], onf_rates[-1])`.  A knot at time `0.0` is skipped (`continue`, `prev_df` untouched). -/
def onfRest (prevDf pt pr : α) : List α → List α → List (α × α)
  | t :: ts, d :: ds =>
    if feq t 0 then onfRest prevDf pt pr ts ds
    else
      let fwd_df := d / prevDf
      let onf_int := -(ExpLog.log fwd_df)
      let r := 2 * onf_int / (t - pt) - pr
      (t, r) :: onfRest d t r ts ds
  | _, _ => []

/-- `for t, df in zip(self.times, self._dfs)` of the LINEAR_ONFWD_RATES arm of `fit`; `none` ⇔ `len(onf_times) == 0`. -/
def onfFit : List α → List α → Option (OnfSpline α)
  | t :: ts, d :: ds =>
    if feq t 0 then onfFit ts ds
    else
      let onfr := -(ExpLog.log d) / t
      some (onfr, (t, onfr) :: onfRest d t onfr ts ds)
  | _, _ => none

/-- The spline `fit` stores: the fitted one, or `InterpolatedUnivariateSpline([0.0, 0.1], [0.0, 0.0])` when no knot
has a non-zero time. -/
def onfSplineOf (times dfs : List α) : OnfSpline α :=
  match onfFit times dfs with
  | some s => s
  | none => (0, [((0.1 : α), 0)])

/-- `true_integral(spline, t)` from the node `(pt, pr)` on: exact integral of the piecewise-linear rate up to `t`,
flat extrapolation `(t − last_t)·spline(last_t)` beyond the last node. -/
def onfInt (pt pr : α) : List (α × α) → α → α
  | [], t => (t - pt) * pr
  | (a, r) :: rest, t =>
    if t ≤ a then (t - pt) * (pr + (pr + (r - pr) * (t - pt) / (a - pt))) / 2
    else (a - pt) * (pr + r) / 2 + onfInt a r rest t

/-- The `Interpolator` object (LINEAR_ONFWD_RATES): `times`, `_dfs` (`hasDfs = false` ⇔ `_dfs is None`), `_interp_fn`. -/
structure OnfState (α : Type) where
  times : List α
  dfs : List α
  hasDfs : Bool
  fn : Option (OnfSpline α)

/-- `Interpolator(InterpTypes.LINEAR_ONFWD_RATES)`. -/
def onfNew : OnfState α := { times := [], dfs := [], hasDfs := false, fn := none }

/-- `Interpolator.fit(times, dfs)`: with exactly one knot it returns BEFORE the fitting stage. -/
def onfFitState (st : OnfState α) (times dfs : List α) : OnfState α :=
  if times.length = 1 then { st with times := times, dfs := dfs, hasDfs := true }
  else { times := times, dfs := dfs, hasDfs := true, fn := some (onfSplineOf times dfs) }

/-- `Interpolator.interpolate(t)` for a scalar `t`. -/
def onfInterp (st : OnfState α) (t : α) : Except PyErr α :=
  if !st.hasDfs then .error .finError
  else if t < 0 then .error .finError
  else if absG t < gSmall then .ok 1
  else match st.fn with
    | none =>
      if st.dfs.length = 0 ∨ feq (g st.times 0) 0 then .ok 1
      else
        let onf_rate := -(ExpLog.log (g st.dfs 0)) / g st.times 0
        .ok (ExpLog.exp (-onf_rate * t))
    | some s => .ok (ExpLog.exp (-(onfInt 0 s.1 s.2 t)))

/-- A fresh interpolator fitted once: what `DiscountCurve.df_t` reads after `self._interpolator.fit(times, dfs)`. -/
def onfwdDf (times dfs : List α) (t : α) : Except PyErr α := onfInterp (onfFitState onfNew times dfs) t

end generic

end FinVerif.Model.C01
