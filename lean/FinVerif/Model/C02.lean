/-
  C02 — hand-written executable model of the discount-curve code, written ONCE over a numeric type `α`
  (ring operations, order, decimal literals, `exp/log/pow`), so that the same text runs at `Float`
  (driver, compared with the implementation) and is reasoned about at `ℝ` (`Props/C02*.lean`).

  Modelled (time domain; dates become times in the harness with the rule each code path uses):
    * `interpolator.py:_uinterpolate` — search loop, FLAT_FWD_RATES / LINEAR_FWD_RATES / LINEAR_ZERO_RATES
      kernels with their `i == 1` / interior / right-extrapolation branches as coded, including the
      `small` guards, Numba's wrap-around read for a negative index (query left of the first knot)
      and Numba's Python error model (float division by zero raises);
    * `DiscountCurve._zero_to_df` / `_df_to_zero`, `DiscountCurve.__init__` (anchor knot),
      `fwd_rate`, `fwd`, `swap_rate` (annuity loop);
    * the construction rule of Zeros, Flat, PWF, PWL, PWFONF, NS, NSS, Poly, Composite;
    * `Interpolator.interpolate` for the SciPy-spline types with the fitted spline as a parameter `S`.
  Mathlib-free.
-/
import FinVerif.Core.Prelude

namespace FinVerif.Model.C02
open FinVerif

/-- The transcendental operations the curve code uses (`np.exp`, `np.log`, `np.power`). No laws. -/
class ExpLog (α : Type) where
  exp : α → α
  log : α → α
  pow : α → α → α

instance : ExpLog Float := ⟨Float.exp, Float.log, Float.pow⟩

section generic
variable {α : Type} [Add α] [Sub α] [Mul α] [Div α] [Neg α] [LT α] [LE α]
  [DecidableLT α] [DecidableLE α] [OfScientific α] [OfNat α 0] [OfNat α 1] [ExpLog α]

/-- IEEE `a == b` expressed with `≤` only (false for NaN, true for `-0.0 == 0.0`); over ℝ it is `a = b`. -/
def feq (a b : α) : Bool := decide (a ≤ b) && decide (b ≤ a)

/-- `np.maximum(a, b)` / Python `max(a, b)` for non-NaN arguments. -/
def fmaxG (a b : α) : α := if a < b then b else a

/-- `l[k]` for an index already known to be in range (default `0` is never observed: every read below is
guarded by the length checks of `uinterp`). -/
def g (l : List α) (k : Nat) : α := l.getD k 0

/-- `i = 0; while times[i] < t and i < num_points - 1: i = i + 1` — the value of `i` after the loop. -/
def search (t : α) : List α → Nat
  | [] => 0
  | [_] => 0
  | x :: y :: rest => if x < t then search t (y :: rest) + 1 else 0

/-- The index used by the kernels: the loop result, or `num_points` when `t` is right of it. -/
def locate (times : List α) (t : α) : Nat :=
  let i0 := search t times
  if g times i0 < t then times.length else i0

/-- Numba compiles with the Python error model: a float division by zero raises `ZeroDivisionError`. -/
def anyZero (l : List α) : Bool := l.any (fun x => feq x 0)

/-- FLAT_FWD_RATES kernel on the knot pair `(a, b)`: linear interpolation of `-log df`. -/
def kFlat (times dfs : List α) (a b : Nat) (t : α) : α :=
  let rt1 := -(ExpLog.log (g dfs a))
  let rt2 := -(ExpLog.log (g dfs b))
  let dt := g times b - g times a
  let rtvalue := ((g times b - t) * rt1 + (t - g times a) * rt2) / dt
  ExpLog.exp (-rtvalue)

/-- LINEAR_ZERO_RATES kernel: zero rates read at knots `ra`, `rb`, weights from knots `ta`, `tb`. -/
def kLinZero (times dfs : List α) (ra rb ta tb : Nat) (t : α) : α :=
  let r1 := -(ExpLog.log (g dfs ra)) / g times ra
  let r2 := -(ExpLog.log (g dfs rb)) / g times rb
  let dt := g times tb - g times ta
  let rvalue := ((g times tb - t) * r1 + (t - g times ta) * r2) / dt
  ExpLog.exp (-rvalue * t)

/-- LINEAR_FWD_RATES, first interval (`i == 1`) with the `small = 1e-10` guards as coded. -/
def kLinFwdFirst (times dfs : List α) (t : α) : α :=
  let small : α := 1e-10
  let y2 := -(ExpLog.log (g dfs 1 + small))
  let yvalue := t * y2 / (g times 1 + small)
  ExpLog.exp (-yvalue)

/-- LINEAR_FWD_RATES, interior: knots `c = i-2`, `a = i-1`, `b = i`. -/
def kLinFwdInt (times dfs : List α) (c a b : Nat) (t : α) : α :=
  let fwd1 := -(ExpLog.log (g dfs a / g dfs c)) / (g times a - g times c)
  let fwd2 := -(ExpLog.log (g dfs b / g dfs a)) / (g times b - g times a)
  let dt := g times b - g times a
  let fwd := ((g times b - t) * fwd1 + (t - g times a) * fwd2) / dt
  g dfs a * ExpLog.exp (-fwd * (t - g times a))

/-- LINEAR_FWD_RATES, right extrapolation from the last two knots `c = n-2`, `a = n-1`. -/
def kLinFwdRight (times dfs : List α) (c a : Nat) (t : α) : α :=
  let fwd := -(ExpLog.log (g dfs a / g dfs c)) / (g times a - g times c)
  g dfs a * ExpLog.exp (-fwd * (t - g times a))

def guardDiv (dens : List α) (v : α) : Except PyErr α :=
  if anyZero dens then .error .zeroDiv else .ok v

/-- The branch formula selected by index `i` (`0 ≤ i ≤ n`, `n ≥ 2`; `i = 0` is the wrap-around read
`dfs[-1]`, `times[-1]` of a query left of the first knot). Method codes are `InterpTypes.*.value`. -/
def kernel (method : Int) (times dfs : List α) (i : Nat) (t : α) : Except PyErr α :=
  let n := times.length
  if method = 4 then
    if i = 1 then
      guardDiv [g times 1, g times 1 - g times 0] (kLinZero times dfs 1 1 0 1 t)
    else if i = 0 then
      guardDiv [g times (n - 1), g times 0, g times 0 - g times (n - 1)]
        (kLinZero times dfs (n - 1) 0 (n - 1) 0 t)
    else if i < n then
      guardDiv [g times (i - 1), g times i, g times i - g times (i - 1)]
        (kLinZero times dfs (i - 1) i (i - 1) i t)
    else
      guardDiv [g times (n - 1), g times (n - 1) - g times (n - 2)]
        (kLinZero times dfs (n - 1) (n - 1) (n - 2) (n - 1) t)
  else if method = 1 then
    if i = 0 then
      guardDiv [g times 0 - g times (n - 1)] (kFlat times dfs (n - 1) 0 t)
    else if i < n then
      guardDiv [g times i - g times (i - 1)] (kFlat times dfs (i - 1) i t)
    else
      guardDiv [g times (n - 1) - g times (n - 2)] (kFlat times dfs (n - 2) (n - 1) t)
  else if method = 2 then
    if i = 1 then
      guardDiv [g times 1 + (1e-10 : α)] (kLinFwdFirst times dfs t)
    else if i = 0 then
      guardDiv [g dfs (n - 2), g times (n - 1) - g times (n - 2), g dfs (n - 1), g times 0 - g times (n - 1)]
        (kLinFwdInt times dfs (n - 2) (n - 1) 0 t)
    else if i < n then
      guardDiv [g dfs (i - 2), g times (i - 1) - g times (i - 2), g dfs (i - 1), g times i - g times (i - 1)]
        (kLinFwdInt times dfs (i - 2) (i - 1) i t)
    else
      guardDiv [g dfs (n - 2), g times (n - 1) - g times (n - 2)] (kLinFwdRight times dfs (n - 2) (n - 1) t)
  else .error .finError

/-- `_uinterpolate(t, times, dfs, method)`.  With a single knot every branch except `t == times[0]`
reads outside the arrays (undefined in the compiled code) or divides by zero. -/
def uinterp (method : Int) (times dfs : List α) (t : α) : Except PyErr α :=
  let n := times.length
  if n = 0 then .error .indexError
  else if feq t (g times 0) then .ok (g dfs 0)
  else
    let i := locate times t
    if n = 1 then
      (if i = 1 ∨ method = 2 then .error .indexError
       else if method = 1 ∨ method = 4 then .error .zeroDiv else .error .finError)
    else kernel method times dfs i t

/-! ### rate ↔ discount factor -/

/-- `annual_frequency(freq_type)` for the members that have a number (`SIMPLE` returns `None`,
`CONTINUOUS` returns `-1`, neither is used as a number by the callers modelled here). -/
def annualFreq (freq : Int) : Option α :=
  if freq = -1 then some 1 else if freq = 1 then some 1 else if freq = 2 then some 2.0
  else if freq = 3 then some 3.0 else if freq = 4 then some 4.0 else if freq = 12 then some 12.0 else none

def gSmall : α := 1e-12

/-- `DiscountCurve._zero_to_df` for one (rate, time) pair. -/
def zeroToDf (freq : Int) (r t0 : α) : Except PyErr α :=
  let t := fmaxG t0 gSmall
  if freq = 99 then .ok (ExpLog.exp (-r * t))
  else if freq = 0 then .ok (1 / (1 + r * t))
  else if freq = 1 ∨ freq = 2 ∨ freq = 4 ∨ freq = 12 then
    match (annualFreq freq : Option α) with
    | some f => .ok (1 / ExpLog.pow (1 + r / f) (f * t))
    | none => .error .finError
  else .error .finError

/-- `DiscountCurve._df_to_zero` for one (df, time) pair (`time` already computed with the requested day count). -/
def dfToZero (freq : Int) (df t0 : α) : Except PyErr α :=
  let t := fmaxG t0 gSmall
  if freq = 99 then .ok (-(ExpLog.log df) / t)
  else if freq = 0 then .ok ((1 / df - 1) / t)
  else match (annualFreq freq : Option α) with
    | some f => .ok ((ExpLog.pow df (-(1 : α) / (t * f)) - 1) * f)
    | none => .error .typeError

/-! ### curve classes (time domain) -/

/-- `DiscountCurve.__init__`: the anchor knot `(0, 1)` is prepended; when the first pillar date is the
valuation date its df overwrites the anchor's. `ts` are `(date - value_dt)/365`. -/
def dcKnots (firstOnVal : Bool) (ts vs : List α) : List α × List α :=
  if firstOnVal then ((0 : α) :: ts.drop 1, vs.headD 1 :: vs.drop 1)
  else ((0 : α) :: ts, (1 : α) :: vs)

def mapM2 (f : α → α → Except PyErr α) : List α → List α → Except PyErr (List α)
  | r :: rs, t :: ts => match f r t, mapM2 f rs ts with
    | .ok x, .ok xs => .ok (x :: xs)
    | .error e, _ => .error e
    | _, .error e => .error e
  | _, _ => .ok []

/-- `DiscountCurveZeros.__init__`: knots are the pillar times in the curve's day count and
`_zero_to_df` of the input rates — no anchor knot is added. -/
def zerosKnots (freq : Int) (ts rs : List α) : Except PyErr (List α × List α) :=
  match mapM2 (zeroToDf freq) rs ts with
  | .ok dfs => .ok (ts, dfs)
  | .error e => .error e

/-- PWF / PWL interval search: the first `i ≥ 1` with `times[i] > t`. Returns `some (i - 1)` or `none`. -/
def findLeft (t : α) : List α → Nat → Option Nat
  | [], _ => none
  | x :: rest, k => if t < x then some k else findLeft t rest (k + 1)

/-- `DiscountCurvePWF._zero_rate`. -/
def pwfRate (times rates : List α) (t0 : α) : α :=
  let t := fmaxG t0 gSmall
  match findLeft t (times.drop 1) 0 with
  | some l => g rates l
  | none => g rates (rates.length - 1)

/-- `DiscountCurvePWL._zero_rate` (reads `times[l+1]`, `rates[l+1]` before testing `found`: a single
pillar raises `IndexError`). -/
def pwlRate (times rates : List α) (t0 : α) : Except PyErr α :=
  let t := fmaxG t0 1e-6
  if times.length < 2 then .error .indexError else
  match findLeft t (times.drop 1) 0 with
  | some l =>
    let t0 := g times l; let r0 := g rates l; let t1 := g times (l + 1); let r1 := g rates (l + 1)
    .ok (((t1 - t) * r0 + (t - t0) * r1) / (t1 - t0))
  | none => .ok (g rates (rates.length - 1))

def pwfDf (freq : Int) (times rates : List α) (t : α) : Except PyErr α :=
  zeroToDf freq (pwfRate times rates t) t

def pwlDf (freq : Int) (times rates : List α) (t : α) : Except PyErr α :=
  match pwlRate times rates t with
  | .ok r => zeroToDf freq r t
  | .error e => .error e

/-- `-np.cumsum(np.diff(times, prepend=0) * rates)` with the leading `(0, 0)` knot. -/
def onfLogDfs : List α → List α → α → α → List α
  | t :: ts, r :: rs, prevT, acc =>
    let acc' := acc + (t - prevT) * r
    (-acc') :: onfLogDfs ts rs t acc'
  | _, _, _, _ => []

/-- `scipy.interpolate.interp1d(kind='linear', fill_value='extrapolate')`: `searchsorted` (left),
index clipped to `[1, len-1]`, `slope * (x - x_lo) + y_lo`. -/
def countLess (x : α) (xs : List α) : Nat := (xs.filter (fun a => decide (a < x))).length

def interp1d (xs ys : List α) (x : α) : α :=
  let k := countLess x xs
  let hi := if k < 1 then 1 else if xs.length - 1 < k then xs.length - 1 else k
  let lo := hi - 1
  let slope := (g ys hi - g ys lo) / (g xs hi - g xs lo)
  slope * (x - g xs lo) + g ys lo

/-- `DiscountCurvePWFONF.df_t`. -/
def onfDf (times rates : List α) (t0 : α) : α :=
  let t := fmaxG t0 gSmall
  let ldf := interp1d ((0 : α) :: times) ((0 : α) :: onfLogDfs times rates 0 0) t
  let z := -ldf / t
  ExpLog.exp (-z * t)

/-- `DiscountCurveNS._zero_rate`. -/
def nsRate (b0 b1 b2 tau t0 : α) : α :=
  let t := fmaxG t0 gSmall
  let theta := t / tau
  let e := ExpLog.exp (-theta)
  b0 + b1 * (1 - e) / theta + b2 * ((1 - e) / theta - e)

/-- `DiscountCurveNSS._zero_rate`. -/
def nssRate (b0 b1 b2 b3 tau1 tau2 t0 : α) : α :=
  let t := fmaxG t0 gSmall
  let th1 := t / tau1
  let th2 := t / tau2
  let e1 := ExpLog.exp (-th1)
  let e2 := ExpLog.exp (-th2)
  b0 + b1 * (1 - e1) / th1 + b2 * ((1 - e1) / th1 - e1) + b3 * ((1 - e2) / th2 - e2)

/-- `DiscountCurvePoly._zero_rate`: `sum(c[n] * np.power(t, n))`, accumulated left to right from 0. -/
def polyRateAux (t : α) : List α → α → α → α
  | [], _, acc => acc
  | c :: cs, n, acc => polyRateAux t cs (n + 1) (acc + c * ExpLog.pow t n)

def polyRate (coeffs : List α) (t0 : α) : α := polyRateAux (fmaxG t0 gSmall) coeffs 0 0

/-- `CompositeDiscountCurve.df_t`: `dfs = 1; for c in children: dfs *= c.df_t(t)`. -/
def compositeDf (children : List α) : α := children.foldl (· * ·) 1

/-- `Interpolator.interpolate` for the SciPy-spline types, the fitted spline being a parameter `S`
(assumed only to interpolate its knots). `logType`: PCHIP_LOG_DISCOUNT / NATCUBIC_LOG_DISCOUNT. -/
def splineDf (logType : Bool) (S : α → α) (t : α) : α :=
  if logType then ExpLog.exp (S t) else ExpLog.exp (-t * S t)

/-! ### views -/

/-- `DiscountCurve.fwd_rate`: simple forward rate over a period of year fraction `yf`. -/
def fwdRate (df1 df2 yf : α) : α := (df1 / df2 - 1) / yf

/-- `DiscountCurve.fwd`: one-day continuously compounded forward. -/
def fwdInst (df1 df2 : α) : α :=
  let dt : α := 1 / 365.0
  ExpLog.log (df1 / df2) / (1 * dt)

/-- the `pv01` loop of `DiscountCurve.swap_rate` over the flows `(alpha, df)`. -/
def pv01 (flows : List (α × α)) : α := flows.foldl (fun acc p => acc + p.1 * p.2) 0

def absG (x : α) : α := if x < 0 then -x else x

/-- `DiscountCurve.swap_rate` for one maturity: flows in schedule order, `dfStart = df(effective_dt)`. -/
def swapRate (dfStart : α) (flows : List (α × α)) : α :=
  let p := pv01 flows
  let dfLast := (flows.getLast?.map (·.2)).getD 1
  if absG p < gSmall then 0 else (dfStart - dfLast) / p

end generic

end FinVerif.Model.C02
