/-
  C02 (growth round) — further hand-written pieces of the discount-curve model, same conventions as
  `Model/C02.lean` (one text over a numeric type `α`, run at `Float` by `Driver/C02`, reasoned about at `ℝ`):

    * `zeroRateView` — the `zero_rate(dates, freq_type, dc_type)` override of DiscountCurveNS / NSS / Poly (and,
      through `self.df`, the inherited `DiscountCurve.zero_rate` of PWF / PWL / Flat): the intermediate discount factor
      is computed with the CURVE's own frequency (`self.freq_type`) at the curve's day-count time, then converted to
      the REQUESTED frequency at the requested day-count time;
    * `bumpCurve` — `DiscountCurve.bump`: the two `.copy()` calls, the in-place loop
      `values[i] = values[i] * np.exp(-bump_size * times[i])`, and the constructor call on `values[start:]`.
      NumPy arrays are mutable and shared by reference, so the model keeps them in a small store of cells:
      `.copy()` allocates a new cell, `values[i] = …` overwrites one entry of the cell `values` refers to.  What the
      object's own cells hold after the call is part of the result (`selfTimes`, `selfDfs`).
  Mathlib-free.
-/
import FinVerif.Model.C02

namespace FinVerif.Model.C02

section generic
variable {α : Type} [Add α] [Sub α] [Mul α] [Div α] [Neg α] [LT α] [LE α]
  [DecidableLT α] [DecidableLE α] [OfScientific α] [OfNat α 0] [OfNat α 1] [ExpLog α]

/-- `zero_rate(date, freq_type, dc_type)` of a rate-parameterised curve whose `_zero_rate` gave `rate` at the
curve's day-count time `tc`: `dfs = _zero_to_df(rate, tc, self.freq_type)`, then
`_df_to_zero(dfs, date, freq_type, dc_type)` at the requested day-count time `ta`. -/
def zeroRateView (curveFreq argFreq : Int) (rate tc ta : α) : Except PyErr α :=
  match zeroToDf curveFreq rate tc with
  | .ok d => dfToZero argFreq d ta
  | .error e => .error e

/-! ### `DiscountCurve.bump` with its arrays in a store -/

/-- a store of float arrays; a reference is an index into it. -/
abbrev Store (α : Type) := List (List α)

def cellGet (s : Store α) (r : Nat) : List α := s.getD r []

/-- `a[i] = v` on the array in cell `r`. -/
def cellWrite (s : Store α) (r i : Nat) (v : α) : Store α := s.set r ((cellGet s r).set i v)

/-- `a.copy()`: a NEW cell holding the same numbers; returns the new store and the new reference. -/
def cellCopy (s : Store α) (r : Nat) : Store α × Nat := (s ++ [cellGet s r], s.length)

/-- loop body: `t = times[i]; values[i] = values[i] * np.exp(-bump_size * t)`. -/
def bumpStep (b : α) (rt rv : Nat) (s : Store α) (i : Nat) : Store α :=
  let t := g (cellGet s rt) i
  cellWrite s rv i (g (cellGet s rv) i * ExpLog.exp (-b * t))

/-- `times = self._times.copy(); values = self._dfs.copy(); n = len(self._times); for i in range(0, n): …`
on an object whose `_times`, `_dfs` are the cells `rT`, `rD`.  Returns the store after the loop and the
references held by the locals `times`, `values`. -/
def bumpLoop (b : α) (s : Store α) (rT rD : Nat) : Store α × Nat × Nat :=
  let c1 := cellCopy s rT
  let c2 := cellCopy c1.1 rD
  let n := (cellGet c2.1 rT).length
  ((List.range n).foldl (bumpStep b c1.2 c2.2) c2.1, c1.2, c2.2)

structure BumpResult (α : Type) where
  /-- `self._times` after the call -/
  selfTimes : List α
  /-- `self._dfs` after the call -/
  selfDfs : List α
  /-- `_times` of the returned curve -/
  newTimes : List α
  /-- `_dfs` of the returned curve -/
  newDfs : List α

/-- `DiscountCurve.bump(bump_size)` on the curve built from pillar times `ts` (= `(date - value_dt)/365`), values `vs`;
`firstOnVal` = the first pillar date is the valuation date.  `start = len(values) - len(self._df_dates)` and the
constructor (`dcKnots`) rebuilds the knots from the same dates and `values[start:]`. -/
def bumpCurve (b : α) (firstOnVal : Bool) (ts vs : List α) : BumpResult α :=
  let k := dcKnots firstOnVal ts vs
  let s0 : Store α := [k.1, k.2]
  let r := bumpLoop b s0 0 1
  let values := cellGet r.1 r.2.2
  let start := values.length - ts.length
  let nk := dcKnots firstOnVal ts (values.drop start)
  ⟨cellGet r.1 0, cellGet r.1 1, nk.1, nk.2⟩

/-- the bumped discount factors as a pure function of the knots: `dfs[i] * exp(-b * times[i])`. -/
def bumpDfs (b : α) (times dfs : List α) : List α :=
  List.zipWith (fun d t => d * ExpLog.exp (-b * t)) dfs times

end generic

end FinVerif.Model.C02
