/-
  C03 — hand-written model of the short-rate trees of FinancePy
  (`financepy/models/hw_tree.py`, `bk_tree.py`, `bdt_tree.py`).

  Written once over a type `α` with `+ - * /` and a record `Ops α` of the transcendental
  operations, so that it runs at `Float` in the driver and is read at `ℝ` in the theorems.
  Mathlib-free.  Tree levels are functions of the node index (`Int` for the trinomial trees,
  `j = -j_max … j_max`; `Nat` for the binomial BDT tree); the driver tabulates each level
  into an array between two applications of the one-level functions below.

  The scatter loops `Q[m+1, target] += Q[m, j] * p * z` are written in the equivalent gather
  form (for every target, the sum over the source nodes in the same order, of the same
  products), which is what the correspondence check compares element by element.
-/
import FinVerif.Core.Prelude

namespace FinVerif.Model.C03

/-- The non-field operations the trees use. -/
structure Ops (α : Type) where
  ofInt : Int → α
  exp : α → α
  log : α → α
  sqrt : α → α
  pow : α → α → α
  ceilNat : α → Nat
  max : α → α → α
  min : α → α → α

section generic
variable {α : Type} [Add α] [Sub α] [Mul α] [Div α] [Neg α] (O : Ops α)

/-! ### summation and tabulation -/

/-- `lo, lo+1, …, hi` -/
def intRange (lo hi : Int) : List Int :=
  (List.range (hi + 1 - lo).toNat).map (fun (i : Nat) => lo + (i : Int))

/-- `s = 0.0; for j in range(lo, hi+1): s += f(j)` -/
def sumR (lo hi : Int) (f : Int → α) : α :=
  (intRange lo hi).foldl (fun acc j => acc + f j) (O.ofInt 0)

/-- `for k in range(0, n): s += f(k)` -/
def sumN (n : Nat) (f : Nat → α) : α :=
  (List.range n).foldl (fun acc k => acc + f k) (O.ofInt 0)

/-- `x if c else 0.0` -/
def ind (c : Prop) [Decidable c] (x : α) : α := if c then x else O.ofInt 0

/-! ### Hull–White / Black–Karasinski trinomial lattice -/

structure P3 (α : Type) where
  u : α
  m : α
  d : α

/-- `pu[jN], pm[jN], pd[jN]` of `build_tree_fast` (identical in `hw_tree.py` and `bk_tree.py`). -/
def probs (a dt : α) (J : Nat) (j : Int) : P3 α :=
  let x := a * O.ofInt j * dt
  let c := fun (n d : Int) => O.ofInt n / O.ofInt d
  if j = J then
    ⟨c 7 6 + c 1 2 * (x * x - O.ofInt 3 * x), c (-1) 3 - x * x + O.ofInt 2 * x, c 1 6 + c 1 2 * (x * x - x)⟩
  else if j = -(J : Int) then
    ⟨c 1 6 + c 1 2 * (x * x + x), c (-1) 3 - x * x - O.ofInt 2 * x, c 7 6 + c 1 2 * (x * x + O.ofInt 3 * x)⟩
  else
    ⟨c 1 6 + c 1 2 * (x * x - x), c 2 3 - x * x, c 1 6 + c 1 2 * (x * x + x)⟩

/-- node reached by the `pu` branch from node `j` (edge branching at `±J`) -/
def upT (J : Nat) (j : Int) : Int := if j = J then J else if j = -(J : Int) then -(J : Int) + 2 else j + 1
def midT (J : Nat) (j : Int) : Int := if j = J then J - 1 else if j = -(J : Int) then -(J : Int) + 1 else j
def dnT (J : Nat) (j : Int) : Int := if j = J then J - 2 else if j = -(J : Int) then -(J : Int) else j - 1

/-- One forward-induction step: state price of node `i` at the next level, from the nodes
`-nm … nm` of this level, with branch probabilities `p j` and one-period discount `z j`. -/
def fwdStep (J : Nat) (nm : Int) (p : Int → P3 α) (z : Int → α) (Q : Int → α) (i : Int) : α :=
  sumR O (-nm) nm (fun j =>
    ind O (i = upT J j) (Q j * (p j).u * z j) + ind O (i = midT J j) (Q j * (p j).m * z j)
      + ind O (i = dnT J j) (Q j * (p j).d * z j))

/-- `Q[0, N] = 1.0` -/
def q0 (j : Int) : α := if j = 0 then O.ofInt 1 else O.ofInt 0

/-- `nm = min(m, j_max)` -/
def nmOf (J m : Nat) : Int := ((min m J : Nat) : Int)

/-- HW: `sum_qz` of step `m`. -/
def hwSumQz (dt dR : α) (nm : Int) (Q : Int → α) : α :=
  sumR O (-nm) nm (fun j => Q j * O.exp (-(O.ofInt j * dR * dt)))

/-- HW: `alpha[m] = log(sum_qz / discount_factors[m+1]) / dt` (closed form). -/
def hwAlpha (dt dR : α) (nm : Int) (Q : Int → α) (P1 : α) : α :=
  O.log (hwSumQz O dt dR nm Q / P1) / dt

/-- HW: `r_t[m, jN] = alpha[m] + j*dR`, `z = exp(-r*dt)` -/
def hwRate (dR al : α) (j : Int) : α := al + O.ofInt j * dR
def hwZ (dt dR al : α) (j : Int) : α := O.exp (-(hwRate O dR al j * dt))

/-- HW: level `m+1` of `Q` from level `m`. -/
def hwNext (a dt dR : α) (J : Nat) (P : Nat → α) (m : Nat) (Qm : Int → α) : Int → α :=
  let nm := nmOf J m
  let al := hwAlpha O dt dR nm Qm (P (m + 1))
  fwdStep O J nm (probs O a dt J) (hwZ O dt dR al) Qm

def hwQ (a dt dR : α) (J : Nat) (P : Nat → α) : Nat → Int → α
  | 0 => q0 O
  | m + 1 => hwNext O a dt dR J P m (hwQ a dt dR J P m)

/-- `dt`, `dR`, `j_max` as `build_tree_fast` computes them. -/
def treeDt (tmat : α) (n : Nat) : α := tmat / O.ofInt ((n : Int) + 1)
def treeDR (sigma dt : α) : α := sigma * O.sqrt (O.ofInt 3 * dt)
/-- `0.1835` -/
def thr : α := O.ofInt 1835 / O.ofInt 10000
def treeJ (a dt : α) : Nat := O.ceilNat (thr O / (a * dt))

/-- BK: `x = alpha + j*dX`, `r = exp(x)`, `z = exp(-r*dt)` -/
def bkRate (dX al : α) (j : Int) : α := O.exp (al + O.ofInt j * dX)
def bkZ (dt dX al : α) (j : Int) : α := O.exp (-(bkRate O dX al j * dt))

/-- BK: objective `f(alpha)` of the root search at step `m`. -/
def bkF (dt dX : α) (nm : Int) (Q : Int → α) (P1 al : α) : α :=
  sumR O (-nm) nm (fun j => Q j * bkZ O dt dX al j) - P1

/-- BK: level `m+1`, the root-search result `al` being a parameter. -/
def bkNext (a dt dX : α) (J : Nat) (m : Nat) (al : α) (Qm : Int → α) : Int → α :=
  fwdStep O J (nmOf J m) (probs O a dt J) (bkZ O dt dX al) Qm

def bkQ (a dt dX : α) (J : Nat) (al : Nat → α) : Nat → Int → α
  | 0 => q0 O
  | m + 1 => bkNext O a dt dX J m (al m) (bkQ a dt dX J al m)

/-! ### backward induction on the trinomial lattice -/

/-- `(pu*vu + pm*vm + pd*vd) * df` at node `j` -/
def backStep (J : Nat) (p : Int → P3 α) (z : Int → α) (V : Int → α) (j : Int) : α :=
  ((p j).u * V (upT J j) + (p j).m * V (midT J j) + (p j).d * V (dnT J j)) * z j

/-- one level of `bond_values`: discounted expectation of the next level plus the flow of this level -/
def bondLevel (J : Nat) (p : Int → P3 α) (zm : Int → α) (flowm : α) (Vn : Int → α) (j : Int) : α :=
  backStep J p zm Vn j + flowm

/-- Option-free bond (`bond_values`): value at level `M - d`, from the terminal level `M`
(`term`), adding `flow m` at every earlier level.  `z m` is the discount of level `m`. -/
def bondBack (J : Nat) (p : Int → P3 α) (z : Nat → Int → α) (flow : Nat → α) (term : Int → α)
    (M : Nat) : Nat → Int → α
  | 0 => term
  | d + 1 => bondLevel J p (z (M - (d + 1))) (flow (M - (d + 1))) (bondBack J p z flow term M d)

/-- `min(max(vhold - accrued, vput), vcall) + accrued` -/
def cpClamp (acc put call v : α) : α := O.min (O.max (v - acc) put) call + acc

def cpLevel (J : Nat) (p : Int → P3 α) (zm : Int → α) (flowm accm putm callm : α) (Vn : Int → α) (j : Int) : α :=
  cpClamp O accm putm callm (backStep J p zm Vn j + flowm)

/-- Callable/puttable bond (`call_put_bond_values`). -/
def cpBack (J : Nat) (p : Int → P3 α) (z : Nat → Int → α) (flow acc put call : Nat → α) (term : Int → α)
    (M : Nat) : Nat → Int → α
  | 0 => fun j => cpClamp O (acc M) (put M) (call M) (term j)
  | d + 1 =>
    let m := M - (d + 1)
    cpLevel O J p (z m) (flow m) (acc m) (put m) (call m) (cpBack J p z flow acc put call term M d)

def optLevel (J : Nat) (p : Int → P3 α) (zm : Int → α) (paym : Int → α) (exm : Bool) (Vn : Int → α) (j : Int) : α :=
  let hold := backStep J p zm Vn j
  if exm then O.max (paym j) hold else hold

/-- Option on the bond: `payoff m j` is the exercise value at level `m`, node `j`
(`clean - K` for a call); `ex m` says whether exercise is allowed at level `m`.
Value at level `M - d`; at level `M` (expiry) the value is `max(payoff, 0)`. -/
def optBack (J : Nat) (p : Int → P3 α) (z : Nat → Int → α) (payoff : Nat → Int → α) (ex : Nat → Bool)
    (M : Nat) : Nat → Int → α
  | 0 => fun j => O.max (payoff M j) (O.ofInt 0)
  | d + 1 =>
    let m := M - (d + 1)
    optLevel O J p (z m) (payoff m) (ex m) (optBack J p z payoff ex M d)

/-! ### Black–Derman–Toy binomial tree -/

/-- short rates of level `m` from the median rate `x` found by the search (`f` fills `rt[m, ·]`):
repeated multiplication down from and up from `midm = int(m/2)`. -/
def bdtDown (x u : α) : Nat → α
  | 0 => x
  | k + 1 => bdtDown x u k * O.exp (-(O.ofInt 2 * u))
def bdtUp (x u : α) : Nat → α
  | 0 => x
  | k + 1 => bdtUp x u k * O.exp (O.ofInt 2 * u)
/-- `u = sigma*sqrt(dt)`; node `i` of level `m` -/
def bdtRate (x u : α) (m i : Nat) : α :=
  let mid := m / 2
  if i ≤ mid then bdtDown O x u (mid - i) else bdtUp O x u (i - mid)

/-- discounting used by the propagation and by every backward induction: `exp(-r*dt)` -/
def discCont (dt r : α) : α := O.exp (-(r * dt))
/-- discounting used by the drift search `f`: `1/(1+r)**dt` -/
def discAnnual (dt r : α) : α := O.ofInt 1 / O.pow (O.ofInt 1 + r) dt

/-- the search objective `f` with the discounting `disc` -/
def bdtF (disc : α → α) (m : Nat) (Q r : Nat → α) (dfEnd : α) : α :=
  sumN O (m + 1) (fun i => Q i * disc (r i)) - dfEnd

/-- level `m+1` of `Q` (three cases of the code: `n = 0`, `1 ≤ n ≤ m`, `n = m+1`) -/
def bdtNext (disc : α → α) (m : Nat) (Q r : Nat → α) (k : Nat) : α :=
  let h := O.ofInt 1 / O.ofInt 2
  if k = 0 then h * Q 0 * disc (r 0)
  else if k = m + 1 then h * Q m * disc (r m)
  else if k ≤ m then h * Q (k - 1) * disc (r (k - 1)) + h * Q k * disc (r k)
  else O.ofInt 0

def bdtQ0 (k : Nat) : α := if k = 0 then O.ofInt 1 else O.ofInt 0

/-- `Q` of the BDT tree; `r m` are the level-`m` short rates. -/
def bdtQ (disc : α → α) (r : Nat → Nat → α) : Nat → Nat → α
  | 0 => bdtQ0 O
  | m + 1 => bdtNext O disc m (bdtQ disc r m) (r m)

/-- binomial backward step `(pu*vu + pd*vd) * df`, `pu = pd = 0.5` -/
def bdtBackStep (d : Nat → α) (V : Nat → α) (k : Nat) : α :=
  (O.ofInt 1 / O.ofInt 2 * V (k + 1) + O.ofInt 1 / O.ofInt 2 * V k) * d k

/-! ### the roll-back as the routines store it

`bond_values`, `call_put_bond_values`, `call_option_values` are zero-initialised arrays; level `m` is
written only at the nodes `k = -nm … nm`, `nm = min(m, j_max)` (`for k in range(-nm, nm+1)`), every other
cell keeps its `0.0`.  The `…C` functions below are the levels exactly as stored; `Props/C03f` proves that
on the written nodes they coincide with `bondBack / cpBack / optBack` (which are defined on every node). -/

/-- a stored level: `f` on the nodes `-nm … nm`, the initial `0.0` elsewhere -/
def onNodes (nm : Int) (f : Int → α) (j : Int) : α := if -nm ≤ j ∧ j ≤ nm then f j else O.ofInt 0

def bondBackC (J : Nat) (p : Int → P3 α) (z : Nat → Int → α) (flow : Nat → α) (term : Int → α)
    (M : Nat) : Nat → Int → α
  | 0 => onNodes O (nmOf J M) term
  | d + 1 => onNodes O (nmOf J (M - (d + 1)))
      (bondLevel J p (z (M - (d + 1))) (flow (M - (d + 1))) (bondBackC J p z flow term M d))

def cpBackC (J : Nat) (p : Int → P3 α) (z : Nat → Int → α) (flow acc put call : Nat → α) (term : Int → α)
    (M : Nat) : Nat → Int → α
  | 0 => onNodes O (nmOf J M) (fun j => cpClamp O (acc M) (put M) (call M) (term j))
  | d + 1 =>
    let m := M - (d + 1)
    onNodes O (nmOf J m)
      (cpLevel O J p (z m) (flow m) (acc m) (put m) (call m) (cpBackC J p z flow acc put call term M d))

def optBackC (J : Nat) (p : Int → P3 α) (z : Nat → Int → α) (payoff : Nat → Int → α) (ex : Nat → Bool)
    (M : Nat) : Nat → Int → α
  | 0 => onNodes O (nmOf J M) (fun j => O.max (payoff M j) (O.ofInt 0))
  | d + 1 =>
    let m := M - (d + 1)
    onNodes O (nmOf J m) (optLevel O J p (z m) (payoff m) (ex m) (optBackC J p z payoff ex M d))

/-! ### backward induction on the BDT tree (`bdt_tree.py`: `vu = V[m+1, k+1]`, `vd = V[m+1, k]`) -/

/-- one level of `bond_values` on the binomial tree; `dm k` is the one-period discount of node `k` -/
def bdtBondLevel (dm : Nat → α) (flowm : α) (Vn : Nat → α) (k : Nat) : α := bdtBackStep O dm Vn k + flowm

/-- option-free bond on the BDT tree, value at level `M - s` (terminal level `M`) -/
def bdtBondBack (d : Nat → Nat → α) (flow : Nat → α) (term : Nat → α) (M : Nat) : Nat → Nat → α
  | 0 => term
  | s + 1 => bdtBondLevel O (d (M - (s + 1))) (flow (M - (s + 1))) (bdtBondBack d flow term M s)

def bdtCpLevel (dm : Nat → α) (flowm accm putm callm : α) (Vn : Nat → α) (k : Nat) : α :=
  cpClamp O accm putm callm (bdtBackStep O dm Vn k + flowm)

/-- callable/puttable bond on the BDT tree -/
def bdtCpBack (d : Nat → Nat → α) (flow acc put call : Nat → α) (term : Nat → α) (M : Nat) : Nat → Nat → α
  | 0 => fun k => cpClamp O (acc M) (put M) (call M) (term k)
  | s + 1 =>
    let m := M - (s + 1)
    bdtCpLevel O (d m) (flow m) (acc m) (put m) (call m) (bdtCpBack d flow acc put call term M s)

def bdtOptLevel (dm : Nat → α) (paym : Nat → α) (exm : Bool) (Vn : Nat → α) (k : Nat) : α :=
  let hold := bdtBackStep O dm Vn k
  if exm then O.max (paym k) hold else hold

/-- option on the bond on the BDT tree (same reading as `optBack`) -/
def bdtOptBack (d : Nat → Nat → α) (payoff : Nat → Nat → α) (ex : Nat → Bool) (M : Nat) : Nat → Nat → α
  | 0 => fun k => O.max (payoff M k) (O.ofInt 0)
  | s + 1 =>
    let m := M - (s + 1)
    bdtOptLevel O (d m) (payoff m) (ex m) (bdtOptBack d payoff ex M s)

end generic

/-! ### the `Float` instance used by the driver -/

def floatOps : Ops Float where
  ofInt := Float.ofInt
  exp := Float.exp
  log := Float.log
  sqrt := Float.sqrt
  pow := Float.pow
  ceilNat := fun x => (Float.ceil x).toUInt64.toNat
  max := fmax
  min := fmin

end FinVerif.Model.C03
