/-
  C04 — hand-written model of the loops of the volatility calibrators.  Mathlib-free; written once over a type `α`
  with the arithmetic instances it needs, so that it runs at `Float` (Driver/C04, compared with the implementation)
  and is reasoned about at `ℝ` (Props/C04a, C04b).  Conventions AS CODED:

  * `sumSq`       equity / swaption `_obj`:  `tot = 0.0; for i: diff = fitted - mkt; tot += diff**2`
                  (`diff**2` of a float64 is `diff*diff`);
  * `smileObj`    the same loop with `fitted = vol_function(params, strike)` and the market column;
  * `wsumSq`      weighted sum of squares (FXVolSurfacePlus weights 1, 1-alpha, alpha — the exact coded expression
                  is the GENERATED `objective_tail_plus`; this list form is the any-number-of-residuals statement);
  * `capletLoop`  `IborCapVolCurve.generate_caplet_vols`:
                     fwd_rate_vol = sigma[0]; gammas[0] = 0; cum = sigma[0]**2 * tau[0]; sum_tau = 0
                     for i in 1..n-1:  sum_tau += tau[i]
                                       v2 = (sigma[i]**2 * sum_tau - cum) / tau[i]
                                       if v2 < 0: raise FinError
                                       gammas[i] = sqrt(v2);  cum += v2 * tau[i]
                  note the index conventions: the accumulated variance starts with sigma[0]²·tau[0] while the
                  accumulated time starts at 0 and first receives tau[1].
  * `selectAlpha` the root selection of `SABR / SABRShifted.set_alpha_from_atm_black_vol` as of commit 220a8a5: only roots
                  with (numerically) zero imaginary part and positive real part, FinError if there is none, else the
                  smallest.  The registry (`registry/vol.py:cubic_coeffs`) refuses any other text of that selection.
-/
import FinVerif.Core.Prelude

namespace FinVerif.Model.C04
open FinVerif

section
variable {α : Type} [Zero α] [Add α] [Sub α] [Mul α] [Div α] [LT α] [DecidableRel (α := α) (· < ·)]

/-- `tot = 0.0; for d in rs: tot += d**2` -/
def sumSq (rs : List α) : α := rs.foldl (fun tot d => tot + d * d) 0

/-- `tot = 0.0; for (w, d): tot += w * d**2` -/
def wsumSq (wrs : List (α × α)) : α := wrs.foldl (fun tot wd => tot + wd.1 * (wd.2 * wd.2)) 0

/-- residuals of a smile fit: fitted vol at each quoted strike minus the market vol -/
def smileResiduals {π : Type} (volFn : π → α → α) (p : π) (ks mkt : List α) : List α :=
  List.zipWith (fun k m => volFn p k - m) ks mkt

/-- the objective of EquityVolSurface / SwaptionVolSurface at one expiry -/
def smileObj {π : Type} (volFn : π → α → α) (p : π) (ks mkt : List α) : α :=
  sumSq (smileResiduals volFn p ks mkt)

/-- the loop of `generate_caplet_vols` over the pairs `(tau[i], sigma[i])`, `i ≥ 1`; `acc` holds the gammas so far
(most recent first). -/
def capletLoop (sqrt : α → α) : List (α × α) → α → α → List α → Except PyErr (List α)
  | [], _, _, acc => .ok acc.reverse
  | (tau, sig) :: rest, cum, sumTau, acc =>
    let sumTau' := sumTau + tau
    let v2 := (sig * sig * sumTau' - cum) / tau
    if v2 < 0 then .error .finError
    else capletLoop sqrt rest (cum + v2 * tau) sumTau' (sqrt v2 :: acc)

/-- `generate_caplet_vols` given the year fractions `taus` and the cap vols `sigmas` (same length ≥ 1). -/
def capletVols (sqrt : α → α) (taus sigmas : List α) : Except PyErr (List α) :=
  match taus, sigmas with
  | t0 :: ts, s0 :: ss => capletLoop sqrt (ts.zip ss) (s0 * s0 * t0) 0 [0]
  | _, _ => .error .indexError

/-! ### root selection of `SABR.set_alpha_from_atm_black_vol` (after commit 220a8a5)

      real_roots = [coeff.real for coeff in roots
                    if coeff.real > 0 and abs(coeff.imag) <= 1e-10 * max(1.0, abs(coeff.real))]
      if len(real_roots) == 0: raise FinError("No positive real root for alpha.")
      alpha = np.min(real_roots)

A root is a pair `(re, im)`; the literals `1e-10` and `1.0` are the arguments `tol` and `one`. -/

def absA (x : α) : α := if x < 0 then 0 - x else x
def maxA (a b : α) : α := if a < b then b else a
def minA (a b : α) : α := if b < a then b else a

/-- the list-comprehension filter: `re > 0 and abs(im) <= tol * max(one, abs(re))` -/
def rootPasses (tol one : α) (z : α × α) : Bool :=
  decide (0 < z.1) && !decide (tol * maxA one (absA z.1) < absA z.2)

def realRoots (tol one : α) (roots : List (α × α)) : List α :=
  (roots.filter (rootPasses tol one)).map (·.1)

/-- `np.min` of a non-empty list -/
def minL : List α → α
  | [] => 0
  | [a] => a
  | a :: b :: l => minA a (minL (b :: l))

/-- the value stored in `self.alpha`, or the FinError -/
def selectAlpha (tol one : α) (roots : List (α × α)) : Except PyErr α :=
  match realRoots tol one roots with
  | [] => .error .finError
  | r :: rs => .ok (minL (r :: rs))

end
/-! ### piecewise-flat look-ups of `IborCapVolCurve`: `caplet_vol(t)` and `cap_vol(t)` as coded

      def caplet_vol(self, dt):                       def cap_vol(self, dt):
          if t <= self.times[1]:                          vol = self._cap_sigmas[0]
              return self._caplet_gammas[1]               for i in range(1, num_vols):
          vol = self._caplet_gammas[1]                        if self.times[i] >= t:
          for i in range(1, num_vols):                            vol = self._cap_sigmas[i]; return vol
              if self.times[i] >= t:                      return self._cap_sigmas[-1]
                  vol = self._caplet_gammas[i]; return vol
          return self._caplet_gammas[-1]

`times[i] >= t` is `t ≤ times[i]`.  The pillars scanned by the loop are the pairs `(times[i], value[i])`, `i ≥ 1`. -/
section
variable {α : Type} [LE α] [DecidableRel (α := α) (· ≤ ·)]

/-- `for i …: if times[i] >= t: return vals[i]` over the remaining pillars; falling off the end returns `last`
(`vals[-1]`) -/
def scanPillars (t : α) : List (α × α) → α → α
  | [], last => last
  | (ti, vi) :: rest, last => if t ≤ ti then vi else scanPillars t rest last

/-- `xs[-1]` of the non-empty list `a :: l` -/
def lastOf (a : α) : List α → α
  | [] => a
  | b :: l => lastOf b l

/-- `IborCapVolCurve.cap_vol(t)`; `times`, `sigmas` are the object's arrays (length ≥ 1, checked by the constructor) -/
def capVolAt (times sigmas : List α) (t : α) : Except PyErr α :=
  match times, sigmas with
  | _ :: ts, s0 :: ss => .ok (scanPillars t (ts.zip ss) (lastOf s0 ss))
  | _, _ => .error .indexError

/-- `IborCapVolCurve.caplet_vol(t)`; needs `times[1]` and `gammas[1]` (length ≥ 2, checked by the constructor) -/
def capletVolAt (times gammas : List α) (t : α) : Except PyErr α :=
  match times, gammas with
  | _ :: t1 :: ts, g0 :: g1 :: gs =>
    if t ≤ t1 then .ok g1 else .ok (scanPillars t ((t1 :: ts).zip (g1 :: gs)) (lastOf g0 (g1 :: gs)))
  | _, _ => .error .indexError

end

end FinVerif.Model.C04
