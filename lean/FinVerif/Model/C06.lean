/-
  C06 — hand-written executable model of the valuation loops of
    financepy/products/rates/swap_fixed_leg.py   SwapFixedLeg.generate_payments / value
    financepy/products/rates/swap_float_leg.py   SwapFloatLeg.generate_payment_dts / value
    financepy/products/rates/ibor_swap.py        IborSwap.value / pv01 / swap_rate
    financepy/products/rates/ois.py              OIS.value / pv01 / swap_rate
    financepy/products/rates/ibor_basis_swap.py  IborBasisSwap.value   (ois_basis_swap.py identical)
    financepy/products/rates/ibor_deposit.py     IborDeposit.value
    financepy/products/rates/ibor_fra.py         IborFRA.value
  *as coded*.  Written once over a type `α` carrying `+ - * / -x 0 1` (plus an explicit `abs` and the
  constant `g_small` where the code uses them) so that the driver runs it at `Float` and the theorems
  read it over any field.  Dates are serial day numbers.  A curve is a function `date → α`; schedule
  generation (C16), day-count fractions (C15) and the curve itself (C02) enter as inputs:
  the schedule dates, the function `yf a b`, the function `addBD d lag`, the function `df d`.
  Mathlib-free.  Tied to the implementation by the correspondence in harness/props/c06.py.
-/
import FinVerif.Core.Prelude
import FinVerif.Spec.C06

namespace FinVerif.Model.C06
open FinVerif
open FinVerif.Spec.C06 (Period)

variable {α : Type} [Add α] [Sub α] [Mul α] [Div α] [Neg α] [OfNat α 0] [OfNat α 1]

/-! ### generate_payments / generate_payment_dts -/

/-- `if self.payment_lag == 0: payment_dt = next_dt else: calendar.add_business_days(next_dt, lag)` -/
def payDate (addBD : Int → Int → Int) (lag : Int) (d : Int) : Int :=
  if lag = 0 then d else addBD d lag

/-- `prev_dt = schedule_dts[0]; for next_dt in schedule_dts[1:]: …; prev_dt = next_dt` -/
def genPeriods (yf : Int → Int → α) (addBD : Int → Int → Int) (lag : Int) : List Int → List (Period α)
  | [] => []
  | [_] => []
  | a :: b :: rest =>
    { start := a, stop := b, pay := payDate addBD lag b, yf := yf a b }
      :: genPeriods yf addBD lag (b :: rest)

/-- `payment = year_frac * self.notional * self.cpn` for every period (`self.payments`). -/
def fixedPayments (cpn notional : α) (ps : List (Period α)) : List α :=
  ps.map (fun p => p.yf * notional * cpn)

/-- The state of a `SwapFixedLeg` that `value` reads. -/
structure FixedLeg (α : Type) where
  periods : List (Period α)
  payments : List α          -- cached by generate_payments
  notional : α
  principal : α
  cpn : α
  isPay : Bool

/-- Constructor + `generate_payments` on an already generated schedule. -/
def mkFixedLeg (cpn notional principal : α) (isPay : Bool) (ps : List (Period α)) : FixedLeg α :=
  { periods := ps, payments := fixedPayments cpn notional ps, notional := notional,
    principal := principal, cpn := cpn, isPay := isPay }

/-! ### SwapFixedLeg.value -/

/-- One row of the cached tables (`rates`, `payments`, `payment_dfs`, `payment_pvs`, `cumulative_pvs`). -/
structure Row (α : Type) where
  rate : α
  amount : α
  df : α
  pv : α
  cum : α

structure LoopSt (α : Type) where
  pv : α            -- leg_pv
  dfPay : α         -- df_payment (survives the loop; used by the principal block)
  first : Bool      -- first_payment (float leg only)
  rows : List (Row α)

def LoopSt.init : LoopSt α := { pv := 0, dfPay := 0, first := false, rows := [] }

/-- Body of the `for i_pmnt in range(0, num_payments)` loop of `SwapFixedLeg.value`;
`x = (payment_dts[i], payments[i])`. -/
def fixedStep (df : Int → α) (vd : Int) (dfv : α) (st : LoopSt α) (x : Int × α) : LoopSt α :=
  if vd < x.1 then
    let dfp := df x.1 / dfv
    let ppv := x.2 * dfp
    let pv' := st.pv + ppv
    { st with pv := pv', dfPay := dfp, rows := st.rows ++ [⟨0, x.2, dfp, x.2 * dfp, pv'⟩] }
  else
    { st with rows := st.rows ++ [⟨0, x.2, 0, 0, 0⟩] }

/-- `payment_pvs[-1] += payment_pv; cumulative_pvs[-1] = leg_pv` -/
def patchLast (rows : List (Row α)) (extra cum : α) : List (Row α) :=
  match rows.reverse with
  | [] => []
  | r :: rs => (({ r with pv := r.pv + extra, cum := cum } : Row α) :: rs).reverse

/-- The block after the loop: `if payment_dt > value_dt:` (with the loop variable's last value)
`payment_pv = principal * df_payment * notional; leg_pv += payment_pv`. -/
def addPrincipal (vd : Int) (lastPay : Option Int) (principal notional : α) (st : LoopSt α) : LoopSt α :=
  match lastPay with
  | some d =>
    if vd < d then
      let ppv := principal * st.dfPay * notional
      { st with pv := st.pv + ppv, rows := patchLast st.rows ppv (st.pv + ppv) }
    else st
  | none => st

/-- `if self.leg_type == SwapTypes.PAY: leg_pv = leg_pv * (-1.0)` -/
def applySign (isPay : Bool) (pv : α) : α := if isPay then pv * (-1) else pv

def fixedPairs (leg : FixedLeg α) : List (Int × α) := (leg.periods.map (·.pay)).zip leg.payments

/-- Final loop state of `SwapFixedLeg.value` (before the PAY sign). -/
def fixedState (df : Int → α) (leg : FixedLeg α) (vd : Int) : LoopSt α :=
  let dfv := df vd
  let st := (fixedPairs leg).foldl (fixedStep df vd dfv) LoopSt.init
  addPrincipal vd ((leg.periods.map (·.pay)).getLast?) leg.principal leg.notional st

/-- `SwapFixedLeg.value(value_dt, discount_curve)`. -/
def fixedValue (df : Int → α) (leg : FixedLeg α) (vd : Int) : α :=
  applySign leg.isPay (fixedState df leg vd).pv

/-- `value` reads the loop variable `payment_dt` after the loop: with no payment at all Python raises
(UnboundLocalError).  The constructor refuses such legs ("Schedule has none or only one date"), so this
branch is unreachable through the public API; it is kept so that the totalised `fixedValue` never stands
for a raise silently. -/
def fixedValueE (df : Int → α) (leg : FixedLeg α) (vd : Int) : Except PyErr α :=
  if leg.periods.isEmpty then .error .other else .ok (fixedValue df leg vd)

/-! ### SwapFloatLeg.value -/

/-- The state of a `SwapFloatLeg` that `value` reads (`notional_array` filled). -/
structure FloatLeg (α : Type) where
  periods : List (Period α)
  notionals : List α         -- notional_array
  notional : α               -- self.notional (read by IborSwap.swap_rate)
  spread : α
  principal : α
  isPay : Bool

/-- Constructor: `self.principal = principal` (as of commit f4e65d4; before it the argument was dropped and
0.0 stored), `notional_array = [notional] * num_payments` (filled at the first `value`). -/
def mkFloatLeg (spread notional principal : α) (isPay : Bool) (ps : List (Period α)) : FloatLeg α :=
  { periods := ps, notionals := List.replicate ps.length notional, notional := notional,
    spread := spread, principal := principal, isPay := isPay }

/-- An index curve as the float leg uses it: discount factors and the year fraction in the curve's
own day-count basis (`DayCount(index_curve.dc_type).year_frac`). -/
structure IndexCurve (α : Type) where
  df : Int → α
  yf : Int → Int → α

/-- Body of the loop of `SwapFloatLeg.value`; `x = (period i, notional_array[i])`. -/
def floatStep (df : Int → α) (idx : IndexCurve α) (ff : Option α) (spread : α) (vd : Int) (dfv : α)
    (st : LoopSt α) (x : Period α × α) : LoopSt α :=
  if vd < x.1.pay then
    let indexAlpha := idx.yf x.1.start x.1.stop
    let useFixing := (!st.first) && ff.isSome   -- `first_payment is False and first_fixing_rate is not None`
    let fwd := if useFixing then ff.getD 0 else (idx.df x.1.start / idx.df x.1.stop - 1) / indexAlpha
    let first' := if useFixing then true else st.first
    let amount := (fwd + spread) * x.1.yf * x.2
    let dfp := df x.1.pay / dfv
    let ppv := amount * dfp
    let pv' := st.pv + ppv
    { pv := pv', dfPay := dfp, first := first', rows := st.rows ++ [⟨fwd, amount, dfp, ppv, pv'⟩] }
  else
    { st with rows := st.rows ++ [⟨0, 0, 0, 0, st.pv⟩] }

def floatPairs (leg : FloatLeg α) : List (Period α × α) := leg.periods.zip leg.notionals

/-- Final loop state of `SwapFloatLeg.value` (before the PAY sign).  The principal block multiplies by
`self.notional_array[-1]`. -/
def floatState (df : Int → α) (idx : IndexCurve α) (ff : Option α) (leg : FloatLeg α) (vd : Int) : LoopSt α :=
  let dfv := df vd
  let st := (floatPairs leg).foldl (floatStep df idx ff leg.spread vd dfv) LoopSt.init
  match leg.notionals.getLast? with
  | some nLast => addPrincipal vd ((leg.periods.map (·.pay)).getLast?) leg.principal nLast st
  | none => st

/-- `SwapFloatLeg.value(value_dt, discount_curve, index_curve, first_fixing_rate)`. -/
def floatValue (df : Int → α) (idx : IndexCurve α) (ff : Option α) (leg : FloatLeg α) (vd : Int) : α :=
  applySign leg.isPay (floatState df idx ff leg vd).pv

def floatValueE (df : Int → α) (idx : IndexCurve α) (ff : Option α) (leg : FloatLeg α) (vd : Int) :
    Except PyErr α :=
  if leg.periods.isEmpty then .error .other else .ok (floatValue df idx ff leg vd)

/-! ### IborSwap / OIS / basis swaps -/

/-- An `IborSwap` (or `OIS`): a fixed and a floating leg. -/
structure Swap (α : Type) where
  fixed : FixedLeg α
  float : FloatLeg α

/-- `IborSwap.__init__` on generated schedules: opposite leg types, payment lag as given, principal 0,
one notional. -/
def mkSwap (fixedIsPay : Bool) (cpn notional spread : α) (fixedPs floatPs : List (Period α)) : Swap α :=
  { fixed := mkFixedLeg cpn notional 0 fixedIsPay fixedPs,
    float := mkFloatLeg spread notional 0 (!fixedIsPay) floatPs }

/-- `IborSwap.value` / `OIS.value`: `fixed_leg.value + float_leg.value`. -/
def swapValue (df : Int → α) (idx : IndexCurve α) (ff : Option α) (s : Swap α) (vd : Int) : α :=
  fixedValue df s.fixed vd + floatValue df idx ff s.float vd

/-- `IborSwap.pv01` / `OIS.pv01`: `abs(pv / cpn / notional)` — divides by the coupon. -/
def pv01 (absf : α → α) (df : Int → α) (s : Swap α) (vd : Int) : α :=
  absf (fixedValue df s.fixed vd / s.fixed.cpn / s.fixed.notional)

variable [LT α] [DecidableLT α]

/-- `IborSwap.swap_rate`: raises `FinError` when `abs(pv01) < g_small`; otherwise
`(± float_leg_pv / float_leg.notional) / pv01` with the sign flipped for a PAY float leg. -/
def swapRate (absf : α → α) (gSmall : α) (df : Int → α) (idx : IndexCurve α) (ff : Option α)
    (s : Swap α) (vd : Int) : Except PyErr α :=
  let p := pv01 absf df s vd
  if absf p < gSmall then .error .finError
  else
    let fl := floatValue df idx ff s.float vd / s.float.notional
    let fl := if s.float.isPay then -fl else fl
    .ok (fl / p)

/-- `OIS.swap_rate` (as of commit 2a49ff7): the floating leg value with the PAY sign undone
(`if self.float_leg.leg_type == SwapTypes.PAY: float_leg_value = -float_leg_value`), then
`/ pv01 / fixed_leg.notional` — no `g_small` guard. -/
def oisSwapRate (absf : α → α) (df : Int → α) (idx : IndexCurve α) (ff : Option α)
    (s : Swap α) (vd : Int) : α :=
  let fl := floatValue df idx ff s.float vd
  let fl := if s.float.isPay then -fl else fl
  fl / pv01 absf df s vd / s.fixed.notional

/-- `IborSwap.set_fixed_rate`: new coupon, `generate_payments()` again. -/
def setFixedRate (s : Swap α) (cpn : α) : Swap α :=
  { s with fixed := mkFixedLeg cpn s.fixed.notional s.fixed.principal s.fixed.isPay s.fixed.periods }

/-- `IborBasisSwap.value` / `OISBasisSwap.value`: two floating legs, each on its own index curve. -/
def basisSwapValue (df : Int → α) (idx1 idx2 : IndexCurve α) (ff1 ff2 : Option α)
    (leg1 leg2 : FloatLeg α) (vd : Int) : α :=
  floatValue df idx1 ff1 leg1 vd + floatValue df idx2 ff2 leg2 vd

/-! ### IborDeposit / IborFRA -/

/-- `IborDeposit.value`: `FinError` if `value_dt > maturity_dt`; otherwise
`(1 + acc × rate) × notional × df(maturity) / df(start)` — note: `df(start)`, not `df(value_dt)`. -/
def depositValue (df : Int → α) (start maturity : Int) (yf rate notional : α) (vd : Int) : Except PyErr α :=
  if maturity < vd then .error .finError
  else
    let value := (1 + yf * rate) * notional
    .ok (value * df maturity / df start)

/-- `IborFRA.value(pv_only=True)`:
`acc × (fwd − K) × df(mat) × notional / df(value_dt)`, then `× −1` when `pay_fixed_rate`. -/
def fraValue (df dfI : Int → α) (start maturity : Int) (yf fraRate notional : α) (payFixed : Bool)
    (vd : Int) : α :=
  let fwd := (dfI start / dfI maturity - 1) / yf
  let v := yf * (fwd - fraRate) * df maturity
  let v := v * notional / df vd
  if payFixed then v * (-1) else v

end FinVerif.Model.C06
