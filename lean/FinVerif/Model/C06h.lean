/-
  C06 — hand model, third part (growth round 6): what the constructors of the two basis-swap classes hand to their two
  floating legs, and what `IborFuture.to_fra` hands to the FRA it builds.
    financepy/products/rates/ibor_basis_swap.py   IborBasisSwap.__init__ / value
    financepy/products/rates/ois_basis_swap.py    OISBasisSwap.__init__ / value   (payment lag on the OIS leg only)
    financepy/products/rates/ibor_future.py       IborFuture.to_fra
  *as coded*.  Generic over `α` like `Model/C06.lean`; Mathlib-free.  `Props/C06h` proves each definition equal to the function
  generated from the source (`Gen/BasisR`) and reduces the constructors to `mkBasisLegs` on generated periods, which is the model
  the harness exercises against the implementation (ops `GEN`, `BAS`, `FRA` of `Driver/C06`).
-/
import FinVerif.Model.C06x

namespace FinVerif.Model.C06
open FinVerif
open FinVerif.Spec.C06 (Period)

variable {α : Type} [Add α] [Sub α] [Mul α] [Div α] [Neg α] [OfNat α 0] [OfNat α 1]

/-- The arguments of one `SwapFloatLeg(...)` call that matter to the value: spread, notional, principal, payment lag. -/
structure LegArgs (α : Type) where
  spread : α
  notional : α
  principal : α
  lag : Int

/-- `IborBasisSwap.__init__`: `payment_lag = 0; principal = 0.0`; leg k gets spread k, both the one notional. -/
def iborBasisArgs (s1 s2 N : α) : LegArgs α × LegArgs α :=
  (⟨s1, N, 0, 0⟩, ⟨s2, N, 0, 0⟩)

/-- `OISBasisSwap.__init__`: the Ibor leg is built with the literal lag `0`, the OIS leg with `ois_payment_lag`. -/
def oisBasisArgs (sIbor sOis : α) (oisLag : Int) (N : α) : LegArgs α × LegArgs α :=
  (⟨sIbor, N, 0, 0⟩, ⟨sOis, N, 0, oisLag⟩)

/-- `leg2Type = SwapTypes.PAY; if leg_1_type == SwapTypes.PAY: leg2Type = SwapTypes.RECEIVE` (is-PAY encoding). -/
def basisLeg2IsPay (leg1IsPay : Bool) : Bool := if leg1IsPay then false else true

/-- `SwapFloatLeg(effective, termination, type, spread, freq, dc, notional, principal, lag, …)` on an already generated schedule. -/
def legOfArgs (yf : Int → Int → α) (addBD : Int → Int → Int) (a : LegArgs α) (isPay : Bool) (sched : List Int) : FloatLeg α :=
  mkFloatLeg a.spread a.notional a.principal isPay (genPeriods yf addBD a.lag sched)

/-- `IborBasisSwap(...)` on the two generated schedules (one per leg frequency; `yf1`, `yf2` the two day counts). -/
def mkIborBasis (yf1 yf2 : Int → Int → α) (addBD : Int → Int → Int) (leg1IsPay : Bool) (s1 s2 N : α)
    (sched1 sched2 : List Int) : FloatLeg α × FloatLeg α :=
  let a := iborBasisArgs s1 s2 N
  (legOfArgs yf1 addBD a.1 leg1IsPay sched1, legOfArgs yf2 addBD a.2 (basisLeg2IsPay leg1IsPay) sched2)

/-- `OISBasisSwap(...)` on the two generated schedules. -/
def mkOisBasis (yf1 yf2 : Int → Int → α) (addBD : Int → Int → Int) (iborIsPay : Bool) (sIbor sOis : α) (oisLag : Int) (N : α)
    (sched1 sched2 : List Int) : FloatLeg α × FloatLeg α :=
  let a := oisBasisArgs sIbor sOis oisLag N
  (legOfArgs yf1 addBD a.1 iborIsPay sched1, legOfArgs yf2 addBD a.2 (basisLeg2IsPay iborIsPay) sched2)

/-- `IborFuture.to_fra`: `IborFRA(delivery_dt, end_of_interest_period, fra_rate, dc_type, notional=contract_size,
pay_fixed_rate=False)` — the (rate, notional, pay-fixed flag) of the FRA. -/
def futureToFra (fraRate contractSize : α) : α × α × Bool := (fraRate, contractSize, false)

/-- The value of the FRA a future converts to, on a curve set: `to_fra(price, convexity).value(value_dt, discount, index)` with
`fraRate = fra_rate(price, convexity)`; the rate period is `[delivery, end_of_interest_period]`. -/
def futureFraValue (df dfI : Int → α) (delivery endPeriod : Int) (yf fraRate contractSize : α) (vd : Int) : α :=
  let a := futureToFra fraRate contractSize
  fraValue df dfI delivery endPeriod yf a.1 a.2.1 a.2.2 vd

end FinVerif.Model.C06
