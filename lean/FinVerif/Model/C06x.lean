/-
  C06 — hand-written executable model, second part:
    financepy/products/equity/equity_swap_leg.py   EquitySwapLeg.value   (the payment loop, the cached tables)
    financepy/products/equity/equity_swap.py       EquitySwap.value / _fill_rate_notional_array (as repaired: by accrual dates)
    financepy/products/rates/ibor_basis_swap.py    IborBasisSwap.__init__ (opposite leg types, one notional, principal 0)
    financepy/products/rates/ibor_swap.py          IborSwap.cash_settled_pv01 (flat annuity loop, start index rule),
                                                   IborSwap.valuation_details (pv01, market_rate)
  *as coded*, over a type `α` with `+ - * / -x 0 1` like `Model/C06.lean`.  Mathlib-free.
  The loop bodies are proved equal to the functions generated from the source (`Gen/SwapsR.lean`) in
  `Props/C06e.lean`; the folds, the notional fill and the start-index rule are tied to the implementation by the
  correspondence in harness/props/c06.py (driver ops EQL, EQS, FIL, CSH, GFX, GFL, GEQ).
-/
import FinVerif.Model.C06

namespace FinVerif.Model.C06
open FinVerif
open FinVerif.Spec.C06 (Period)

variable {α : Type} [Add α] [Sub α] [Mul α] [Div α] [Neg α] [OfNat α 0] [OfNat α 1]

/-! ### EquitySwapLeg.value -/

/-- One row of the equity leg's cached tables (`fwd_rates`, `div_fwd_rates`, `eq_fwd_rates`, `last_notionals`,
`payment_amounts`, `payment_dfs`, `payment_pvs`, `cumulative_pvs`). -/
structure EqRow (α : Type) where
  fwd : α
  divFwd : α
  eqFwd : α
  lastN : α
  amount : α
  df : α
  pv : α
  cum : α

/-- Loop-carried variables of `EquitySwapLeg.value`: `leg_pv`, `eq_term_rate`, `last_notional`, `next_notional`. -/
structure EqSt (α : Type) where
  pv : α
  term : α
  lastN : α
  nextN : α
  rows : List (EqRow α)

/-- `leg_pv, eq_term_rate = 0.0, 0.0; last_notional = self.notional; next_notional = last_notional` -/
def EqSt.init (notional : α) : EqSt α := { pv := 0, term := 0, lastN := notional, nextN := notional, rows := [] }

/-- Body of the loop of `EquitySwapLeg.value` (including the trailing `last_notional = next_notional`).
`idx` = index curve (with its own day count), `dvd` = dividend curve, `price` = `self.current_price`. -/
def eqStep (df : Int → α) (idx : IndexCurve α) (dvd : Int → α) (price qty notional : α) (vd : Int) (dfv : α)
    (st : EqSt α) (p : Period α) : EqSt α :=
  if vd < p.pay then
    let ia := idx.yf p.start p.stop
    let fwd := (idx.df p.start / idx.df p.stop - 1) / ia
    let divFwd := (dvd p.start / dvd p.stop - 1) / ia
    let eqFwd := ((idx.df p.start / idx.df p.stop) * (dvd p.start / dvd p.stop) - 1) / ia
    let term' := (1 + eqFwd * p.yf) * (1 + st.term) - 1
    let nextN := price * (1 + term') * qty
    let amount := nextN - st.lastN
    let dfp := df p.pay / dfv
    let ppv := amount * dfp
    let pv' := st.pv + ppv
    { pv := pv', term := term', lastN := nextN, nextN := nextN,
      rows := st.rows ++ [⟨fwd, divFwd, eqFwd, st.lastN, amount, dfp, ppv, pv'⟩] }
  else
    { st with lastN := st.nextN, rows := st.rows ++ [⟨0, 0, 0, notional, 0, 0, 0, st.pv⟩] }

/-- The state of an `EquitySwapLeg` that `value` reads: `notional = strike × quantity`. -/
structure EqLeg (α : Type) where
  periods : List (Period α)
  strike : α
  qty : α
  isPay : Bool

def EqLeg.notional (leg : EqLeg α) : α := leg.strike * leg.qty

/-- `self.current_price = current_price if current_price is not None else self.strike` -/
def EqLeg.price (leg : EqLeg α) (cur : Option α) : α := cur.getD leg.strike

/-- Final loop state of `EquitySwapLeg.value`. -/
def eqState (df : Int → α) (idx : IndexCurve α) (dvd : Int → α) (cur : Option α) (leg : EqLeg α) (vd : Int) : EqSt α :=
  leg.periods.foldl (eqStep df idx dvd (leg.price cur) leg.qty leg.notional vd (df vd)) (EqSt.init leg.notional)

/-- `EquitySwapLeg.value(value_dt, discount_curve, index_curve, dividend_curve, current_price)`. -/
def eqLegValue (df : Int → α) (idx : IndexCurve α) (dvd : Int → α) (cur : Option α) (leg : EqLeg α) (vd : Int) : α :=
  applySign leg.isPay (eqState df idx dvd cur leg vd).pv

/-- `self.equity_leg.last_notionals` after `value`. -/
def eqLastNotionals (st : EqSt α) : List α := st.rows.map (·.lastN)

/-! ### EquitySwap._fill_rate_notional_array / value -/

/-- `while i_eq + 1 < len(eq_end_dts) and start_dt >= eq_end_dts[i_eq]: i_eq += 1` — the pointer into the equity
periods, as the list of periods from the pointer on (`(end_accd_dt, last_notional)` each); it never moves past the
last period. -/
def advancePtr (start : Int) : List (Int × α) → List (Int × α)
  | [] => []
  | [e] => [e]
  | e :: e' :: rest => if e.1 ≤ start then advancePtr start (e' :: rest) else e :: e' :: rest

/-- `_fill_rate_notional_array` (as repaired): one entry per rate period, `for start_dt in rate_leg.start_accrued_dts:`
advance the pointer, `notional_array.append(last_notionals[i_eq])`.  The pointer is carried from one rate period to
the next.  (`[]` for an equity leg without periods stands for the IndexError; the constructor refuses such legs.) -/
def assignNotionals : List (Int × α) → List Int → List α
  | _, [] => []
  | es, s :: ss =>
    match advancePtr s es with
    | [] => []
    | e :: es' => e.2 :: assignNotionals (e :: es') ss

/-- The layout of the code BEFORE the repair: every reset notional repeated `multiple` times, front-aligned. -/
def fillNotionals (multiple : Nat) : List α → List α
  | [] => []
  | x :: xs => List.replicate multiple x ++ fillNotionals multiple xs

/-- The other wrong arrangement (the whole list repeated `multiple` times). -/
def tileNotionals (multiple : Nat) (ls : List α) : List α :=
  match multiple with
  | 0 => []
  | m + 1 => ls ++ tileNotionals m ls

/-- `_fill_rate_notional_array` with the frequency test (kept by the repair): `FinError` unless
`rate_freq % eq_freq == 0` (frequencies are the positive numbers of payments per year); then the assignment by dates. -/
def fillRateNotionals (eqFreq rateFreq : Nat) (eqEnds : List Int) (ls : List α) (rateStarts : List Int) :
    Except PyErr (List α) :=
  if rateFreq % eqFreq ≠ 0 then .error .finError else .ok (assignNotionals (eqEnds.zip ls) rateStarts)

/-- An `EquitySwap`: equity leg and floating rate leg (`rate_leg_type` opposite, notional = equity notional,
principal 0). -/
structure EqSwap (α : Type) where
  eq : EqLeg α
  rate : FloatLeg α
  eqFreq : Nat
  rateFreq : Nat

def mkEqSwap (eqIsPay : Bool) (strike qty spread : α) (eqFreq rateFreq : Nat) (eqPs ratePs : List (Period α)) : EqSwap α :=
  { eq := { periods := eqPs, strike := strike, qty := qty, isPay := eqIsPay },
    rate := mkFloatLeg spread (strike * qty) 0 (!eqIsPay) ratePs,
    eqFreq := eqFreq, rateFreq := rateFreq }

/-- `EquitySwap.value`: equity leg, then the rate leg's `notional_array` is filled from the equity leg's
`last_notionals` (by the accrual dates of the two legs), then the rate leg. -/
def eqSwapValue (df : Int → α) (idx : IndexCurve α) (dvd : Int → α) (cur : Option α) (ff : Option α)
    (s : EqSwap α) (vd : Int) : Except PyErr α :=
  let st := eqState df idx dvd cur s.eq vd
  match fillRateNotionals s.eqFreq s.rateFreq (s.eq.periods.map (·.stop)) (eqLastNotionals st) (s.rate.periods.map (·.start)) with
  | .error e => .error e
  | .ok arr => .ok (applySign s.eq.isPay st.pv + floatValue df idx ff { s.rate with notionals := arr } vd)

/-! ### basis swaps -/

/-- `IborBasisSwap.__init__` / `OISBasisSwap.__init__` on generated schedules: leg 2 has the opposite type, both
legs one notional, principal 0. -/
def mkBasisLegs (leg1IsPay : Bool) (s1 s2 notional : α) (ps1 ps2 : List (Period α)) : FloatLeg α × FloatLeg α :=
  (mkFloatLeg s1 notional 0 leg1IsPay ps1, mkFloatLeg s2 notional 0 (!leg1IsPay) ps2)

/-! ### IborSwap.cash_settled_pv01 -/

/-- Body of `for _ in self.fixed_leg.payment_dts[start_index:]`: `df = df / (1 + alpha × r); flat_pv01 += df × alpha`. -/
def cashStep (alpha r : α) (st : α × α) : α × α :=
  let df := st.1 / (1 + alpha * r)
  (df, st.2 + df * alpha)

/-- The flat annuity over `n` payments: `df = 1.0; flat_pv01 = 0.0;` then `n` iterations. -/
def cashAnnuity (alpha r : α) : Nat → α × α
  | 0 => (1, 0)
  | n + 1 => cashStep alpha r (cashAnnuity alpha r n)

/-- `start_index = 0; while payment_dts[start_index] < value_dt: start_index += 1` — reading past the end is an
IndexError (`none`). -/
def cashStartWhile (vd : Int) : List Int → Nat → Option Nat
  | [], _ => none
  | d :: ds, i => if d < vd then cashStartWhile vd ds (i + 1) else some i

/-- `IborSwap.cash_settled_pv01(value_dt, flat_swap_rate, freq_type)` with `m = annual_frequency(freq_type)`
(`alpha = 1/m`): the while loop, then `if value_dt <= effective_dt: start_index = 1`, then the annuity over
`payment_dts[start_index:]`. -/
def cashSettledPv01 (payDts : List Int) (eff vd : Int) (alpha r : α) : Except PyErr α :=
  match cashStartWhile vd payDts 0 with
  | none => .error .indexError
  | some i =>
    let start := if vd ≤ eff then 1 else i
    .ok (cashAnnuity alpha r ((payDts.drop start).length)).2

/-! ### IborSwap.valuation_details -/

/-- `pv01 = abs(fixed/cpn/notional)`, `market_rate = float / float_notional / pv01 / (∓1)` — no `g_small` guard. -/
def detailsRate (absf : α → α) (df : Int → α) (idx : IndexCurve α) (ff : Option α) (s : Swap α) (vd : Int) : α × α :=
  let p := absf (fixedValue df s.fixed vd / s.fixed.cpn / s.fixed.notional)
  let sgn : α := if s.float.isPay then -1 else 1
  (p, floatValue df idx ff s.float vd / s.float.notional / p / sgn)

end FinVerif.Model.C06
