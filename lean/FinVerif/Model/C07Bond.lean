/-
  C07 — hand-written model of `financepy/products/bonds/bond.py` (class `Bond`) and of the zero-coupon,
  annuity and FRN analogues, written ONCE over a numeric type `α`:
    * at `α = Float` it is executed by `Driver/C07.lean` and compared with the implementation,
    * at `α = ℝ` (instance in `Lemmas/C07Real.lean`) it is the subject of the theorems in `Props/C07*.lean`.
  Mathlib-free.  Every definition follows the Python statement by statement (operation order kept, so the
  Float run differs from CPython/NumPy only in the last bits of `pow`).

  Inputs that belong to other properties are parameters: the coupon schedule (`cpn_dts`, property C16) enters
  as the list of Excel serials, the ex-dividend date (`Calendar.add_business_days`, C14) as its serial, the
  day-count fraction `acc_factor` (C15) as a number.
-/
import FinVerif.Core.Prelude

namespace FinVerif.Model.C07
open FinVerif

/-- The two power operations the bond formulas use: `v ** n` with a Python `int` exponent and
`v ** alpha` with a float exponent. -/
class BondPow (α : Type) where
  powN : α → Nat → α
  powF : α → α → α

instance : BondPow Float := ⟨fun v n => Float.pow v n.toFloat, Float.pow⟩

export BondPow (powN powF)

section
variable {α : Type} [Add α] [Sub α] [Mul α] [Div α] [Neg α]
  [OfNat α 0] [OfNat α 1] [OfNat α 2] [OfNat α 100] [OfScientific α] [BondPow α]

/-! ### Position of the settlement date in the coupon schedule (integer logic) -/

/-- `Bond._calc_pcd_ncd`: the loop `for i_flow in range(1, num_flows): if cpn_dts[i] > settle: … break`.
`go i l` scans `l = cpn_dts[i:]`; the answer is the index of the next coupon date (the previous coupon
date is the entry before it).  `none` = the loop falls through and `pcd`/`ncd` keep their previous
values (object state; on a fresh object they are `None`). -/
def ncdGo (settle : Int) : Nat → List Int → Option Nat
  | _, [] => none
  | i, d :: rest => if d > settle then some i else ncdGo settle (i + 1) rest

def ncdIndex (dates : List Int) (settle : Int) : Option Nat := ncdGo settle 1 dates.tail

/-- `n = 0; for dt in cpn_dts: if dt > settle: n += 1; n = n - 1` -/
def flowsAfter (dates : List Int) (settle : Int) : Int :=
  ((dates.filter (fun d => decide (d > settle))).length : Int) - 1

/-! ### Accrued interest -/

structure Accr (α : Type) where
  alpha : α        -- `self.alpha`
  accrued : α      -- `self.accrued_int` (= the return value)

/-- `Bond.accrued_interest` after `_calc_pcd_ncd`: `accFactor = dc.year_frac(pcd, settle, ncd, freq)[0]`,
`exDiv = (settle_dt > self.ex_div_dt)`. -/
def accruedInterest (accFactor freq cpn face : α) (exDiv : Bool) : Accr α :=
  let alpha := 1 - accFactor * freq
  let a := if exDiv then accFactor - 1 / freq else accFactor
  { alpha := alpha, accrued := a * (cpn * face) }

/-! ### Dirty price from yield -/

/-- `ytm = ytm + 0.000000000012345  # SNEAKY LOW-COST TRICK TO AVOID y=0` -/
def ytmShift (ytm : α) : α := ytm + 1.2345e-11

/-- the `else` (n ≥ 1) block shared by all four conventions: `term1 + term2 + term3 + term4` -/
def terms (n : Nat) (c f v pay : α) : α :=
  let term1 := (c / f) * pay
  let term2 := (c / f) * v
  let term3 := (c / f) * v * v * (1 - powN v (n - 1)) / (1 - v)
  let term4 := powN v n
  term1 + term2 + term3 + term4

/-- `dp` of `Bond.dirty_price_from_ytm` (before `* self.par`) for the shifted yield `y`.
`conv`: 1 UK_DMO, 2 US_STREET, 3 US_TREASURY, 4 CFETS.  `alphaCf` is the CFETS last-period fraction
`1 - ACT_365L.year_frac(maturity-12M, settle, maturity, ANNUAL)` (only read when conv = 4, n = 0). -/
def dirtyCore (conv : Nat) (n : Nat) (c f y alpha pay alphaCf : α) : Except PyErr α :=
  let v := 1 / (1 + y / f)
  match conv with
  | 1 =>
    if n = 0 then .ok (powF v alpha * (1 + pay * c / f))
    else .ok (powF v alpha * terms n c f v pay)
  | 3 =>
    if n = 0 then .ok (powF v alpha * (1 + pay * c / f))
    else
      let vw := 1 / (1 + alpha * y / f)
      .ok (vw * terms n c f v pay)
  | 2 =>
    if n = 0 then
      let vw := 1 / (1 + alpha * y / f)
      .ok (vw * (1 + pay * c / f))
    else .ok (powF v alpha * terms n c f v pay)
  | 4 =>
    if n = 0 then
      let vw := 1 / (1 + alphaCf * y)
      .ok (vw * (1 + pay * c / f))
    else .ok (powF v alpha * terms n c f v pay)
  | _ => .error .finError

/-- `Bond.dirty_price_from_ytm`: `nInt` is `flowsAfter`; `n < 0` raises "No coupons left". -/
def dirtyPriceFromYtm (conv : Nat) (nInt : Int) (c f ytm alpha pay alphaCf : α) : Except PyErr α :=
  if conv = 0 ∨ conv > 4 then .error .finError
  else if nInt < 0 then .error .finError
  else match dirtyCore conv nInt.toNat c f (ytmShift ytm) alpha pay alphaCf with
    | .ok dp => .ok (dp * 100)
    | .error e => .error e

/-- `pay_first_cpn = 1.0; if settle_dt > self.ex_div_dt: pay_first_cpn = 0.0` -/
def payFirst (exDiv : Bool) : α := if exDiv then 0 else 1

/-- `Bond.clean_price_from_ytm` : `dp - self.accrued_interest(settle_dt, self.par)` -/
def cleanPriceFromYtm (conv : Nat) (nInt : Int) (c f ytm accFactor alphaCf : α) (exDiv : Bool) :
    Except PyErr α :=
  let a1 := accruedInterest accFactor f c (1 : α) exDiv      -- `self.accrued_interest(settle_dt, 1.0)`
  match dirtyPriceFromYtm conv nInt c f ytm a1.alpha (payFirst exDiv) alphaCf with
  | .ok dp => .ok (dp - (accruedInterest accFactor f c (100 : α) exDiv).accrued)
  | .error e => .error e

/-! ### Bump-and-reprice risk measures (`P` is `y ↦ dirty_price_from_ytm(settle, y, convention)`) -/

def bumpDy : α := 0.0001

/-- `dollar_duration`: `-(p2 - p0) / dy / 2.0` -/
def dollarDuration (P : α → α) (y : α) : α :=
  let p0 := P (y - bumpDy)
  let p2 := P (y + bumpDy)
  let neg := -(p2 - p0)
  neg / bumpDy / 2

/-- `modified_duration`: `dd / fp` -/
def modifiedDuration (P : α → α) (y : α) : α := dollarDuration P y / P y

/-- `macauley_duration`: `dd * (1.0 + ytm / self.freq) / fp` -/
def macauleyDuration (P : α → α) (y f : α) : α := dollarDuration P y * (1 + y / f) / P y

/-- `convexity_from_ytm`: `((p2 + p0) - 2.0 * p1) / dy / dy / p1 / self.par` -/
def convexity (P : α → α) (y : α) : α :=
  let p0 := P (y - bumpDy)
  let p1 := P y
  let p2 := P (y + bumpDy)
  ((p2 + p0) - 2 * p1) / bumpDy / bumpDy / p1 / 100

/-! ### Price from a discount curve (`dfs[i] = discount_curve.df(cpn_dts[i])`) -/

/-- `self.ncd` after `_calc_pcd_ncd(settle_dt)`: the first coupon date (index ≥ 1) strictly after settlement;
`none` = the search falls through (then no date is after settlement either). -/
def ncdDate (dates : List Int) (settle : Int) : Option Int :=
  dates.tail.find? (fun d => decide (d > settle))

/-- the loop `for dt in self.cpn_dts[1:]: if dt > settle_dt: df = …; pv = (cpn/freq) * df;
if dt == self.ncd: pv = pv * pay_first_cpn; px += pv`; state `(px, df)` -/
def curveLoop (settle : Int) (cf pay : α) (ncd : Option Int) : List (Int × α) → α × α → α × α
  | [], s => s
  | (d, dfd) :: rest, (px, df) =>
    if d > settle then
      let pv := cf * dfd
      let pv := if ncd = some d then pv * pay else pv
      curveLoop settle cf pay ncd rest (px + pv, dfd)
    else curveLoop settle cf pay ncd rest (px, df)

/-- `Bond.dirty_price_from_discount_curve` (after fix dd7e86d); `sched[i] = (cpn_dts[i], df(cpn_dts[i]))`,
`exDiv = settle_dt > self.ex_div_dt`.  With fewer than two coupon dates there is no `ncd` (the implementation raises; not reachable for a `Bond`). -/
def dirtyPriceFromCurve (sched : List (Int × α)) (settle : Int) (exDiv : Bool) (dfSettle c f : α) :
    Except PyErr α :=
  match sched with
  | _ :: d1 :: rest' =>
    let rest := d1 :: rest'
    let pay : α := payFirst exDiv
    let cf := c / f
    let ncd := ncdDate (sched.map (·.1)) settle
    let (px, df) := curveLoop settle cf pay ncd rest ((0 : α), (1 : α))
    .ok ((px + df) / dfSettle * 100)
  | _ => .error .other

/-! ### Zero-coupon bond (`bond_zero.py`) in its own quoting terms -/

/-- `BondZero.dirty_price_from_ytm` given `accFactor = year_frac(settle, maturity)` (time to maturity):
simple yield up to one year, annual compounding beyond. `le1 = (acc_factor <= 1)`. -/
def zeroDirty (ytm accFactor : α) (le1 : Bool) : α :=
  let y := ytmShift ytm
  if le1 then 100 / (1 + y * accFactor) else 100 / powF (1 + y) accFactor

/-- `BondZero.accrued_interest`: linear accretion of the issue discount;
`num = settle - issue`, `den = maturity - issue` (days, as numbers). -/
def zeroAccrued (num den issuePrice face : α) : α :=
  let f := num / den
  let g := (100 - issuePrice) / 100
  f * g * face

/-- `BondZero.dirty_price_from_discount_curve` (after fix 211a9f6): `px += df; px = px / df_settle;
return px * self.par`. -/
def zeroDirtyFromCurve (dfMat dfSettle : α) : α :=
  ((0 : α) + dfMat) / dfSettle * 100

/-! ### Annuity (`bond_annuity.py`) and FRN (`bond_frn.py`) -/

/-- `BondAnnuity.dirty_price_from_discount_curve`: `for i in 1..: pv = pv + flow[i] * df(dt[i])`,
flows `cpn * year_frac(prev, next, next, freq_type) * 1.0`; then `pv * par`.  `l = [(alpha_i, df_i)]`. -/
def annuityLoop (cpn : α) : List (α × α) → α → α
  | [], pv => pv
  | (a, df) :: rest, pv => annuityLoop cpn rest (pv + cpn * a * 1 * df)

def annuityDirty (cpn : α) (l : List (α × α)) : α := annuityLoop cpn l 0 * 100

/-- loop of `BondFRN.dirty_price_from_dm` over the coupons after the next one; state `(pv, df)`;
`alphas` are the period year fractions. -/
def frnLoop (futureIbor q dm : α) : List α → α × α → α × α
  | [], s => s
  | a :: rest, (pv, df) =>
    let df' := df / (1 + a * (futureIbor + dm))
    let c := futureIbor + q
    frnLoop futureIbor q dm rest (pv + c * a * df', df')

/-- `BondFRN.dirty_price_from_dm`: `alpha0 = year_frac(settle, ncd)`, `alpha1 = year_frac(pcd, ncd)`. -/
def frnDirty (alpha0 alpha1 nextCpn currentIbor futureIbor q dm : α) (alphas : List α) : α :=
  let df := 1 / (1 + alpha0 * (currentIbor + dm))
  let pv := nextCpn * alpha1 * df
  let (pv, df) := frnLoop futureIbor q dm alphas (pv, df)
  (pv + df) * 100

/-- `BondFRN.clean_price_from_dm`: `dirty - accrual_factor * next_cpn * par` -/
def frnClean (dirty accFactor nextCpn : α) : α := dirty - accFactor * nextCpn * 100

end
end FinVerif.Model.C07
