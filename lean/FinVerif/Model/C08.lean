/-
  C08 — hand-written model of the rate-option products of FinancePy *as coded*:
    financepy/products/rates/ibor_cap_floor.py   IborCapFloor.value / value_caplet_floor_let
    financepy/products/rates/ibor_swaption.py    IborSwaption.value (model dispatch, annuity scaling)
    financepy/models/sabr.py, sabr_shifted.py    SABR.value / SABRShifted.value (given the Black vol)
    financepy/models/hw_tree.py                  HWTree.option_on_zcb, european_bond_option_jamshidian
    financepy/products/bonds/bond_option.py      BondOption.value -> tree kernels (backward induction of Model/C03)
  Written once over a number type `α`; the per-option Black-family formulas are NOT re-typed here: they enter
  through the record `Kern α`, which the driver fills with the GENERATED Float kernels (`Gen/BSF`) and the
  theorems with the generated real kernels (`Gen/BSP`, `Gen/BSR`).  Mathlib-free.

  Glue that is the subject of other properties enters as inputs: schedule dates (C16), accrual fractions (C15),
  discount factors and forwards (C02), the SABR Black volatility (njit Hagan formula), the Jamshidian root.
-/
import FinVerif.Core.Prelude
import FinVerif.Model.C03

namespace FinVerif.Model.C08
open FinVerif FinVerif.Model.C03

/-- what the products need from the number type and from the generated kernels -/
structure Kern (α : Type) where
  lit : Nat → Int → α                    -- `lit m e` = m · 10^e (literals 1e-10, 0.0, 1.0, 2.0)
  isZero : α → Bool                      -- `k == 0.0`
  ltAbs : α → α → Bool                   -- `abs(x) < y`
  max : α → α → α
  exp : α → α
  log : α → α
  sqrt : α → α
  N : α → α                              -- utils.math.N (Hull polynomial), used by SABR / HW
  /-- generated `black_value fwd t k r v type` (FinError mapped to 0; never taken for fwd > 0) -/
  blackValue : α → α → α → α → α → Int → α
  /-- generated `BlackShifted.value f k t df type shift vol` -/
  shiftedValue : α → α → α → α → Int → α → α → α
  /-- generated `Bachelier.value f k t df type vol` -/
  bachelierValue : α → α → α → α → Int → α → α

/-- the models `value_caplet_floor_let` / `IborSwaption.value` dispatch on (isinstance chain, in this order) -/
inductive Mdl (α : Type) where
  | black (vol : α)
  | shifted (vol shift : α)
  | bachelier (vol : α)
  | sabr            -- the Black vol of each option is an input (`self.black_vol(f, k, t)`)
  | sabrShifted
  | hw (sigma a : α)

section generic
variable {α : Type} [Add α] [Sub α] [Mul α] [Div α] [Neg α] (K : Kern α)

/-- `SABR.value` / `SABRShifted.value` after `vol = self.black_vol(f, k, t)`:
`d1 = (log(f/k) + vol*vol*t/2)/(vol*sqrt_t)`, `d2 = d1 - vol*sqrt_t` — no clamps, unshifted `f`, `k` in both classes. -/
def sabrValue (vol f k t df : α) (ty : Int) : α :=
  let sq := K.sqrt t
  let d1 := (K.log (f / k) + vol * vol * t / K.lit 2 0) / (vol * sq)
  let d2 := d1 - vol * sq
  if ty = 1 then df * (f * K.N d1 - k * K.N d2) else df * (k * K.N (-d2) - f * K.N (-d1))

/-- `Black.value(f, k, t, df, type)`: `r = -np.log(df)/t; black_value(f, t, k, r, v, type)` -/
def blackModelValue (vol f k t df : α) (ty : Int) : α :=
  K.blackValue f t k (-(K.log df) / t) vol ty

/-- `HWTree.option_on_zcb(t_exp, t_mat, strike, face, …)` given the two curve reads `pt_exp`, `pt_mat`:
returns (call, put). -/
def hwZcb (sigma a texp tmat strike face ptExp ptMat : α) : α × α :=
  let small := K.lit 1 (-10)
  let a := if K.ltAbs a small then small else a
  let sigmap := (sigma / a) * (K.lit 1 0 - K.exp (-(a * (tmat - texp))))
  let sigmap := sigmap * K.sqrt ((K.lit 1 0 - K.exp (-(K.lit 2 0 * a * texp))) / K.lit 2 0 / a)
  let sigmap := if K.ltAbs sigmap small then small else sigmap
  let h := K.log ((face * ptMat) / (strike * ptExp)) / sigmap + sigmap / K.lit 2 0
  (face * ptMat * K.N h - strike * ptExp * K.N (h - sigmap),
   strike * ptExp * K.N (-h + sigmap) - face * ptMat * K.N (-h))

/-- one caplet period as `IborCapFloor.value` sees it -/
structure Period (α : Type) where
  alpha : α       -- day_counter.year_frac(start, end)[0]
  fwd : α         -- libor_curve.fwd_rate(start, end, dc_type)  (or last_fixing in the first period)
  df : α          -- libor_curve.df(end)
  texp : α        -- (caplet_start - self.start_dt)/365   (sic: from the cap's start date)
  tmat : α        -- (caplet_end - value_dt)/365          (HW only)
  sabrVol : α     -- model.black_vol(f, k, t_exp)         (SABR / shifted SABR only)
  ptExp : α       -- curve knots interpolated at texp     (HW only)
  ptMat : α       -- curve knots interpolated at tmat     (HW only)

/-- `IborCapFloor.value_caplet_floor_let` (`isCap` = `option_type == CAP`). -/
def capletValue (m : Mdl α) (isCap : Bool) (strike notional : α) (p : Period α) : α :=
  let k := if K.isZero strike then K.lit 1 (-10) else strike
  let ty : Int := if isCap then 1 else 2
  let v :=
    match m with
    | .black vol => blackModelValue K vol p.fwd k p.texp p.df ty
    | .shifted vol sh => K.shiftedValue p.fwd k p.texp p.df ty sh vol
    | .bachelier vol => K.bachelierValue p.fwd k p.texp p.df ty vol
    | .sabr => sabrValue K p.sabrVol p.fwd k p.texp p.df ty
    | .sabrShifted => sabrValue K p.sabrVol p.fwd k p.texp p.df ty
    | .hw sigma a =>
      let strikePrice := K.lit 1 0 / (K.lit 1 0 + p.alpha * strike)
      let notionalAdj := K.lit 1 0 + strike * p.alpha
      let v := hwZcb K sigma a p.texp p.tmat strikePrice (K.lit 1 0) p.ptExp p.ptMat
      (if isCap then v.2 else v.1) * notionalAdj / p.alpha
  v * (notional * p.alpha)

/-- the first caplet / floorlet: known payoff, `df * alpha * max(±(fwd - K), 0) * notional` -/
def firstValue (isCap : Bool) (strike notional : α) (p : Period α) : α :=
  (if isCap then p.df * p.alpha * K.max (p.fwd - strike) (K.lit 0 0)
   else p.df * p.alpha * K.max (strike - p.fwd) (K.lit 0 0)) * notional

/-- `cap_floor_let_values[1:]` -/
def capletTable (m : Mdl α) (isCap : Bool) (strike notional : α) : List (Period α) → List α
  | [] => []
  | p :: ps => firstValue K isCap strike notional p :: ps.map (capletValue K m isCap strike notional)

/-- `cap_floor_value = 0.0; cap_floor_value += …` -/
def sumFrom (z : α) (l : List α) : α := l.foldl (fun acc x => acc + x) z

/-- `IborCapFloor.value` -/
def capFloorValue (m : Mdl α) (isCap : Bool) (strike notional : α) (ps : List (Period α)) : α :=
  sumFrom (K.lit 0 0) (capletTable K m isCap strike notional ps)

/-- the forward of the first (known-payoff) period: `if self.last_fixing is None: fwd_rate = libor_curve.fwd_rate(start, end, dc)
else: fwd_rate = self.last_fixing` — the test is `is None`, not truthiness: a fixing of exactly 0.0 IS a fixing -/
def firstFwd (lastFixing : Option α) (curveFwd : α) : α :=
  match lastFixing with
  | none => curveFwd
  | some x => x

/-- the period list with the contract's `last_fixing` applied to the first period (every `Period.fwd` is the curve forward) -/
def withFixing (lastFixing : Option α) : List (Period α) → List (Period α)
  | [] => []
  | p :: ps => { p with fwd := firstFwd lastFixing p.fwd } :: ps

/-- `IborCapFloor.value` with the constructor argument `last_fixing` explicit -/
def capFloorValueFix (m : Mdl α) (isCap : Bool) (strike notional : α) (lastFixing : Option α) (ps : List (Period α)) : α :=
  capFloorValue K m isCap strike notional (withFixing lastFixing ps)

/-! ### swaptions -/

/-- one zero-coupon leg of the Jamshidian decomposition: coupon, its time, the strike `p_fast(t_exp, t_cpn, r*, …)`,
the curve read at `t_cpn` -/
structure JLeg (α : Type) where
  cpn : α
  tcpn : α
  strike : α
  ptCpn : α

/-- body of the coupon loop of `european_bond_option_jamshidian`: state = ((call_value, put_value), (call, put)) -/
def jamStep (sigma a texp face ptExp : α) (acc : (α × α) × (α × α)) (l : JLeg α) : (α × α) × (α × α) :=
  let v := hwZcb K sigma a texp l.tcpn l.strike (K.lit 1 0) ptExp l.ptCpn
  ((acc.1.1 + v.1 * l.cpn * face, acc.1.2 + v.2 * l.cpn * face), v)

/-- `HWTree.european_bond_option_jamshidian` after the root search: the loop over the coupons with
`t_cpn >= t_exp`, then `call_value += call * face` with the LAST leg's option.  Returns (call, put). -/
def jamshidian (sigma a texp face ptExp : α) (legs : List (JLeg α)) : α × α :=
  let r := legs.foldl (jamStep K sigma a texp face ptExp) ((K.lit 0 0, K.lit 0 0), (K.lit 0 0, K.lit 0 0))
  (r.1.1 + r.2.1 * face, r.1.2 + r.2.2 * face)

/-- how `IborSwaption.value` obtains the price per unit annuity -/
inductive SwModel (α : Type) where
  | blackLike (m : Mdl α) (sabrVol : α)      -- Black / shifted / SABR / shifted SABR on the forward swap rate, df = 1
  | bondOption (call put : α)                 -- HW Jamshidian ('call'/'put') or BK/BDT tree ('rec'/'pay'), strike 1, face 1

/-- `IborSwaption.value`: payer = call on the rate = put on the bond. -/
def swaptionValue (sm : SwModel α) (isPay : Bool) (s k texp pv01 dfSettle notional : α) : α :=
  let ty : Int := if isPay then 1 else 2
  let one := K.lit 1 0
  let px :=
    match sm with
    | .blackLike (.black vol) _ => blackModelValue K vol s k texp one ty
    | .blackLike (.shifted vol sh) _ => K.shiftedValue s k texp one ty sh vol
    | .blackLike (.bachelier vol) _ => K.bachelierValue s k texp one ty vol      -- not accepted by the product; kept total
    | .blackLike .sabr sv => sabrValue K sv s k texp one ty
    | .blackLike .sabrShifted sv => sabrValue K sv s k texp one ty
    | .blackLike (.hw _ _) _ => K.lit 0 0
    | .bondOption call put => (if isPay then put else call) / pv01
  px * pv01 * notional / dfSettle

/-! ### trees (operators of Model/C03) -/

/-- backward induction without exercise and without flows: `d` levels below level `E` -/
def euroBack (O : Ops α) (J : Nat) (p : Int → P3 α) (z : Nat → Int → α) (term : Int → α) (E : Nat) : Nat → Int → α :=
  bondBack J p z (fun _ => O.ofInt 0) term E

/-- Bermudan-style option whose exercise dates lie between the first exercise level and the swap maturity `M`
(`bermudan_swaption_tree_fast`): option values are zero at level `M`; stepping back, `max(exercise, hold)` at the
levels flagged by `ex`. -/
def bermBack (O : Ops α) (J : Nat) (p : Int → P3 α) (z : Nat → Int → α) (payoff : Nat → Int → α) (ex : Nat → Bool)
    (M : Nat) : Nat → Int → α
  | 0 => fun _ => O.ofInt 0
  | d + 1 =>
    let m := M - (d + 1)
    optLevel O J p (z m) (payoff m) (ex m) (bermBack O J p z payoff ex M d)

end generic
end FinVerif.Model.C08
