/-
  C09 — hand-written model of the CDS kernels in `financepy/products/credit/cds.py`
  (`_risky_pv01_numba`, `_prot_leg_pv_numba` with USE_FLAT_HAZARD_RATE_INTEGRAL = True, `CDS.value`,
  `par_spread`, `accrued_interest`), generic over the number type; curves enter as functions
  `Q Z : α → α` (survival, discount).  AS CODED: the first coupon uses `year_fracs[1]`; inside the
  coupon loop `z1` is never advanced (only `q1 = q2`).  Mathlib-free.
-/
import FinVerif.Core.Prelude

namespace FinVerif.Model.C09

structure Ops (α : Type) where
  log : α → α
  exp : α → α
  abs : α → α
  half : α        -- 0.5
  tiny : α        -- 1e-20
  small : α       -- 1e-8

section
variable {α : Type} [Zero α] [One α] [Add α] [Sub α] [Mul α] [Div α] [Neg α]

/-- accrued-on-default contribution of one coupon period (flat hazard / flat rate integral) -/
def accrualOnDefault (o : Ops α) (q1 z1 q2 z2 tau : α) : α :=
  let h12 := -(o.log (q2 / q1)) / tau
  let r12 := -(o.log (z2 / z1)) / tau
  let alpha := h12 + r12
  let expTerm := 1 - o.exp (-alpha * tau) - alpha * tau * o.exp (-alpha * tau)
  q1 * z1 * h12 * expTerm / o.abs (alpha * alpha + o.tiny)

/-- the coupon loop `for it in range(1, len(payment_times))`; `z1` is the first coupon's discount
factor throughout (as coded), `q1` advances -/
def couponLoop (o : Ops α) (Q Z : α → α) (z1 : α) : α → List (α × α) → α → α
  | _, [], acc => acc
  | q1, (t2, af) :: rest, acc =>
    let q2 := Q t2
    let z2 := Z t2
    let acc1 := acc + q2 * z2 * af
    let acc2 := acc1 + accrualOnDefault o q1 z1 q2 z2 af
    couponLoop o Q Z z1 q2 rest acc2

/-- `_risky_pv01_numba` → (full, clean).  `pay` = payment times, `yf` = year fractions (same indexing
as the arrays passed by `CDS.risky_pv01`), `yf1 = year_fracs[1]`. -/
def riskyPV01 (o : Ops α) (Q Z : α → α) (teff accPcd tncd yf1 : α) (tail : List (α × α)) : α × α :=
  let qeff := Q teff
  let q1 := Q tncd
  let z1 := Z tncd
  let f0 := q1 * z1 * yf1
  let f1 := f0 + z1 * (qeff - q1) * accPcd * 1
  let f2 := f1 + o.half * z1 * (qeff - q1) * (yf1 - accPcd) * 1
  let full := couponLoop o Q Z z1 q1 tail f2
  (full, full - accPcd)

/-- the integration loop of `_prot_leg_pv_numba` -/
def protLoop (o : Ops α) (Q Z : α → α) (dt : α) : Nat → α → α → α → α → α
  | 0, _, _, _, acc => acc
  | k + 1, t, q1, z1, acc =>
    let t' := t + dt
    let z2 := Z t'
    let q2 := Q t'
    let h12 := -(o.log (q2 / q1)) / dt
    let r12 := -(o.log (z2 / z1)) / dt
    let expTerm := o.exp (-(r12 + h12) * dt)
    let d := h12 * (1 - expTerm) * q1 * z1 / (o.abs (h12 + r12) + o.small)
    protLoop o Q Z dt k t' q2 z2 (acc + d)

/-- `_prot_leg_pv_numba` (number of steps `int((t_mat - teff)*steps_per_year + 0.5)` computed by the caller) -/
def protLegPV (o : Ops α) (Q Z : α → α) (teff tmat rec : α) (numSteps : Nat) (nf : α) : α :=
  let dt := (tmat - teff) / nf
  protLoop o Q Z dt numSteps teff (Q teff) (Z teff) 0 * (1 - rec)

/-- `CDS.value` → (dirty_pv, clean_pv); `prot` is the kernel's value (per unit notional) -/
def cdsValue (long : Bool) (cpn notional prot rpvFull rpvClean : α) : α × α :=
  let s : α := if long then 1 else -1
  let protN := prot * notional
  (1 * s * (protN - cpn * rpvFull * notional), 1 * s * (protN - cpn * rpvClean * notional))

/-- `CDS.par_spread` -/
def parSpread (notional prot rpvClean : α) : α := prot * notional / rpvClean / notional

/-- `CDS.accrued_interest` -/
def accruedInterest (long : Bool) (cpn notional accPcd : α) : α :=
  let a := accPcd * notional * cpn
  if long then a * (-1) else a

end
end FinVerif.Model.C09
