/-
  C09 — model of the credit-curve bootstrap `CDSCurve._build_curve` (financepy/products/credit/cds_curve.py)
  and of the object-level CDS observables built from the two kernels (`CDS.value`, `par_spread`,
  `clean_price`, `premium_leg_pv`, `prot_leg_pv`, `risky_pv01`), generic over the number type.

  * The survival / discount curves are the `_uinterpolate(…, FLAT_FWD_RATES)` model of C02
    (`Model/C02.lean: uinterp 1`, knots as lists), totalised by `curveFn` (the error value `bad` is never
    produced on a bootstrapped curve; theorems hold for every `bad`).
  * `_build_curve` is a left fold over the maturity-ordered contracts.  One pass appends the knot
    `(t_mat, values[i])` and calls `scipy.optimize.newton(f, x0 = values[i])`, where `f(q)` writes `q` into the
    last knot and returns the contract's clean PV.  The solver is a PARAMETER `solve f x0` = the number it
    leaves in the last knot (scipy's secant returns without re-evaluating `f`, so this is the last point at
    which `f` was evaluated, not the returned root).  Nothing is assumed about it here.
  Mathlib-free.
-/
import FinVerif.Model.C02
import FinVerif.Model.C09

namespace FinVerif.Model.C09
open FinVerif FinVerif.Model.C02

/-- the per-contract data the two kernels receive from `CDS.risky_pv01` / `CDS.prot_leg_pv` -/
structure Contract (α : Type) where
  teff : α                 -- (step_in_dt − value_dt)/365
  acc : α                  -- day_count.year_frac(previous coupon date, step_in_dt)
  tncd : α                 -- payment_times[0]
  yf1 : α                  -- year_fracs[1]  (as coded)
  tail : List (α × α)      -- (payment_times[j], year_fracs[j]) for j ≥ 1
  tmat : α                 -- (maturity_dt − value_dt)/365
  nSteps : Nat             -- int((t_mat − teff)·steps_per_year + 0.5)
  nf : α                   -- the same number as a float
  cpn : α                  -- running_cpn
  notional : α
  long : Bool

section curve
variable {α : Type} [Add α] [Sub α] [Mul α] [Div α] [Neg α] [LT α] [LE α]
  [DecidableLT α] [DecidableLE α] [OfScientific α] [OfNat α 0] [OfNat α 1] [ExpLog α]

/-- `_uinterpolate(t, times, values, FLAT_FWD_RATES)` as a total function of `t` -/
def curveFn (bad : α) (ts vs : List α) (t : α) : α :=
  match uinterp 1 ts vs t with
  | .ok v => v
  | .error _ => bad

end curve

section value
variable {α : Type} [Zero α] [One α] [Add α] [Sub α] [Mul α] [Div α] [Neg α]

/-- `CDS.risky_pv01` → (dirty_rpv01, clean_rpv01) -/
def rpv01Of (o : Ops α) (Q Z : α → α) (c : Contract α) : α × α :=
  riskyPV01 o Q Z c.teff c.acc c.tncd c.yf1 c.tail

/-- `CDS.prot_leg_pv` (includes the notional) -/
def protOf (o : Ops α) (Q Z : α → α) (rec : α) (c : Contract α) : α :=
  protLegPV o Q Z c.teff c.tmat rec c.nSteps c.nf * c.notional

/-- `CDS.value` → (dirty_pv, clean_pv).  `CDS.value` multiplies the kernel value by the notional inside
`prot_leg_pv`; `cdsValue` does it itself, so it receives the per-unit protection leg. -/
def valueOf (o : Ops α) (Q Z : α → α) (rec : α) (c : Contract α) : α × α :=
  let r := rpv01Of o Q Z c
  cdsValue c.long c.cpn c.notional (protLegPV o Q Z c.teff c.tmat rec c.nSteps c.nf) r.1 r.2

def cleanPV (o : Ops α) (Q Z : α → α) (rec : α) (c : Contract α) : α := (valueOf o Q Z rec c).2

/-- `CDS.par_spread` -/
def parSpreadOf (o : Ops α) (Q Z : α → α) (rec : α) (c : Contract α) : α :=
  parSpread c.notional (protLegPV o Q Z c.teff c.tmat rec c.nSteps c.nf) (rpv01Of o Q Z c).2

/-- `CDS.premium_leg_pv` = full_rpv01 · notional · running_cpn -/
def premiumLegPV (cpn notional rpvFull : α) : α := rpvFull * notional * cpn

/-- `CDS.clean_price` = (notional − clean_pv)/notional · 100 with the LONG-protection clean PV
(`clean_price` has no `long_prot` factor); `hundred` = 100.0 -/
def cleanPrice (hundred cpn notional prot rpvClean : α) : α :=
  (notional - 1 * (prot * notional - cpn * rpvClean * notional)) / notional * hundred

end value

section boot
variable {α κ : Type} [Inhabited α]

/-- one pass of `for i in range(0, num_times)` in `_build_curve`: `q = values[i]` (the last knot value),
append `(t_mat, q)`, run the solver on `f(q) = obj(curve with last value q, contract)`; the knot keeps
what the solver left there. -/
def bootStep (solve : (α → α) → α → α) (tmat : κ → α) (obj : List α → List α → κ → α)
    (s : List α × List α) (c : κ) : List α × List α :=
  let x0 := s.2.getLastD default
  let ts := s.1 ++ [tmat c]
  let x := solve (fun q => obj ts (s.2 ++ [q]) c) x0
  (ts, s.2 ++ [x])

/-- `_build_curve` from the state `s0` (`([0.0], [1.0])` in the code) -/
def bootFrom (solve : (α → α) → α → α) (tmat : κ → α) (obj : List α → List α → κ → α)
    (s0 : List α × List α) (cs : List κ) : List α × List α :=
  cs.foldl (bootStep solve tmat obj) s0

end boot

section cds
variable {α : Type} [Zero α] [One α] [Add α] [Sub α] [Mul α] [Div α] [Neg α] [LT α] [LE α]
  [DecidableLT α] [DecidableLE α] [OfScientific α] [OfNat α 0] [OfNat α 1] [ExpLog α]

/-- `cds_curve.f` — the objective of the solver: clean PV of the contract on the survival knots `(ts, vs)`,
Ibor knots `(lt, ld)`, at the curve's recovery rate -/
def cdsObj (o : Ops α) (bad : α) (lt ld : List α) (rec : α) (ts vs : List α) (c : Contract α) : α :=
  cleanPV o (curveFn bad ts vs) (curveFn bad lt ld) rec c

/-- `CDSCurve._build_curve` → (`_times`, `_values`); `t0 = 0.0`, `q0 = 1.0` are passed by the caller -/
def bootstrap [Inhabited α] (o : Ops α) (bad : α) (solve : (α → α) → α → α) (lt ld : List α) (rec : α)
    (t0 q0 : α) (cs : List (Contract α)) : List α × List α :=
  bootFrom solve Contract.tmat (cdsObj o bad lt ld rec) ([t0], [q0]) cs

end cds
end FinVerif.Model.C09
