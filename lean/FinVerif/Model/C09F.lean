/- C09 — Float instantiation: `_uinterpolate` (FLAT_FWD_RATES branch, as coded) and the kernels. -/
import FinVerif.Model.C09

namespace FinVerif.Model.C09F
open FinVerif.Model.C09

def opsF : Ops Float := ⟨Float.log, Float.exp, Float.abs, 0.5, 1e-20, 1e-8⟩

/-- `_uinterpolate(t, times, dfs, FLAT_FWD_RATES)` -/
def uinterp (times dfs : Array Float) (t : Float) : Float :=
  let n := times.size
  if t == times[0]! then dfs[0]! else
  let rec find (i : Nat) (fuel : Nat) : Nat :=
    match fuel with
    | 0 => i
    | fuel + 1 => if times[i]! < t && i < n - 1 then find (i + 1) fuel else i
  let i0 := find 0 n
  let i := if t > times[i0]! then n else i0
  let seg (a b : Nat) : Float :=
    let rt1 := -(Float.log dfs[a]!)
    let rt2 := -(Float.log dfs[b]!)
    let dt := times[b]! - times[a]!
    let rt := ((times[b]! - t) * rt1 + (t - times[a]!) * rt2) / dt
    Float.exp (-rt)
  if i < n then seg (i - 1) i else seg (i - 2) (i - 1)

def rpv01F (teff acc : Float) (pay yf lt ld st sv : Array Float) : Float × Float :=
  let Q := uinterp st sv
  let Z := uinterp lt ld
  let tail := (List.range (pay.size - 1)).map fun j => (pay[j + 1]!, yf[j + 1]!)
  riskyPV01 opsF Q Z teff acc pay[0]! yf[1]! tail

def protF (teff tmat rec : Float) (spy : Nat) (lt ld st sv : Array Float) : Float :=
  let ns := ((tmat - teff) * Float.ofNat spy + 0.5).toUInt64.toNat
  protLegPV opsF (uinterp st sv) (uinterp lt ld) teff tmat rec ns (Float.ofNat ns)

end FinVerif.Model.C09F
