/- C09 — Float instantiation: `_uinterpolate` (FLAT_FWD_RATES branch, as coded) and the kernels. -/
import FinVerif.Model.C09
import FinVerif.Model.C09Boot
import FinVerif.Model.C09Fast

namespace FinVerif.Model.C09F
open FinVerif.Model.C09

def opsF : Ops Float := ⟨Float.log, Float.exp, Float.abs, 0.5, 1e-20, 1e-8⟩

/-- `_uinterpolate(t, times, dfs, FLAT_FWD_RATES)` -/
def uinterp (times dfs : Array Float) (t : Float) : Float :=
  let n := times.size
  if t == times[0]! then dfs[0]! else
  let rec find (i : Nat) (fuel : Nat) : Nat :=
    match fuel with
    | 0 => i
    | fuel + 1 => if times[i]! < t && i < n - 1 then find (i + 1) fuel else i
  let i0 := find 0 n
  let i := if t > times[i0]! then n else i0
  let seg (a b : Nat) : Float :=
    let rt1 := -(Float.log dfs[a]!)
    let rt2 := -(Float.log dfs[b]!)
    let dt := times[b]! - times[a]!
    let rt := ((times[b]! - t) * rt1 + (t - times[a]!) * rt2) / dt
    Float.exp (-rt)
  if i < n then seg (i - 1) i else seg (i - 2) (i - 1)

def rpv01F (teff acc : Float) (pay yf lt ld st sv : Array Float) : Float × Float :=
  let Q := uinterp st sv
  let Z := uinterp lt ld
  let tail := (List.range (pay.size - 1)).map fun j => (pay[j + 1]!, yf[j + 1]!)
  riskyPV01 opsF Q Z teff acc pay[0]! yf[1]! tail

def protF (teff tmat rec : Float) (spy : Nat) (lt ld st sv : Array Float) : Float :=
  let ns := ((tmat - teff) * Float.ofNat spy + 0.5).toUInt64.toNat
  protLegPV opsF (uinterp st sv) (uinterp lt ld) teff tmat rec ns (Float.ofNat ns)

/-! ### object level: `CDS.value` / `risky_pv01` / `prot_leg_pv` / `par_spread` / `premium_leg_pv` / `clean_price` /
`accrued_interest`, and the bootstrap fold, on the list model of `_uinterpolate` shared with C02 -/

def nanF : Float := 0.0 / 0.0

/-- the contract record from the arrays `CDS.risky_pv01` passes to the kernel; `acc` is the day-count fraction
previous-coupon-date → step-in of the contract's OWN day count (supplied by the caller) -/
def mkContract (teff acc tmat cpn notional : Float) (long : Bool) (spy : Nat) (pay yf : Array Float) : Contract Float :=
  let ns := ((tmat - teff) * Float.ofNat spy + 0.5).toUInt64.toNat
  { teff := teff, acc := acc, tncd := pay[0]!, yf1 := yf[1]!,
    tail := (List.range (pay.size - 1)).map fun j => (pay[j + 1]!, yf[j + 1]!),
    tmat := tmat, nSteps := ns, nf := Float.ofNat ns, cpn := cpn, notional := notional, long := long }

/-- [dirty_rpv01, clean_rpv01, prot_leg_pv, dirty_pv, clean_pv, par_spread, premium_leg_pv, clean_price,
accrued_interest] -/
def valF (rec : Float) (c : Contract Float) (lt ld st sv : List Float) : List Float :=
  let Q := curveFn nanF st sv
  let Z := curveFn nanF lt ld
  let r := rpv01Of opsF Q Z c
  let v := valueOf opsF Q Z rec c
  let protU := protLegPV opsF Q Z c.teff c.tmat rec c.nSteps c.nf
  [r.1, r.2, protOf opsF Q Z rec c, v.1, v.2, parSpreadOf opsF Q Z rec c, premiumLegPV c.cpn c.notional r.1,
   cleanPrice 100.0 c.cpn c.notional protU r.2, accruedInterest c.long c.cpn c.notional c.acc]

/-- replay of `_build_curve` with the values the solver left in the knots supplied by the caller (`knots[i]` for
pass `i`): the fold body is the model's `bootStep`; reports per pass `x0`, the objective at the supplied value
and at two probe points, then the objective of every contract on the FINAL curve, then the final values. -/
def bootReplayF (rec : Float) (lt ld : List Float) (cs : List (Contract Float)) (knots probes : Array Float) : List Float :=
  let obj := cdsObj opsF nanF lt ld rec
  let step := fun (acc : (List Float × List Float) × List Float × Nat) (c : Contract Float) =>
    let (s, out, i) := acc
    let f := stepObjectiveF obj s c
    let x0 := s.2.getLastD default
    let s' := bootStep (fun _ _ => knots[i]!) Contract.tmat obj s c
    (s', out ++ [x0, f knots[i]!, f probes[2 * i]!, f probes[2 * i + 1]!], i + 1)
  let (sfin, out, _) := cs.foldl step (([0.0], [1.0]), [], 0)
  out ++ cs.map (fun c => obj sfin.1 sfin.2 c) ++ sfin.2
where
  stepObjectiveF (obj : List Float → List Float → Contract Float → Float) (s : List Float × List Float)
      (c : Contract Float) : Float → Float :=
    fun q => obj (s.1 ++ [c.tmat]) (s.2 ++ [q]) c

/-- `CDS.value_fast_approx` → [full_pv, clean_pv, credit01, ir01] -/
def fastF (teff tmat r spread rcurve rcon cpn notional acc : Float) (long : Bool) : List Float :=
  let v := valueFastApprox opsF teff tmat r spread rcurve rcon cpn notional acc long
  [v.1, v.2.1, v.2.2.1, v.2.2.2]

/-- `CDSCurve.survival_prob(list of times)` with the curve's `interp_method` (C02's `_uinterpolate` model, all methods it
has a branch for) -/
def survF (method : Int) (ts vs : List Float) (t : Array Float) : List Float :=
  (survivalProbs (fun x => match FinVerif.Model.C02.uinterp method ts vs x with | .ok v => v | .error _ => nanF) t).toList

end FinVerif.Model.C09F
