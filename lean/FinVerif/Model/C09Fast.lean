/-
  C09 — model of `CDS.value_fast_approx` (financepy/products/credit/cds.py): the curve-free valuation with a flat
  continuously-compounded rate `r` and a flat hazard `h = spread/(1 − recovery)`, returning
  `(full_pv, clean_pv, credit01, ir01)`, and of `CDSCurve.survival_prob` on a list of times (the loop that fills
  `qs[i]`).  Generic over the number type, statement order and association as coded.  AS CODED: the base value uses
  `curve_recovery` for the hazard, both bumped values use `contract_recovery_rate`; the base full PV adds
  `fwd_df * accrued`, the bumped full PVs add `fwd_df * long_protect * accrued` (the accrued is already signed).
  Mathlib-free.
-/
import FinVerif.Model.C09Boot

namespace FinVerif.Model.C09

section fast
variable {α : Type} [Zero α] [One α] [Add α] [Sub α] [Mul α] [Div α] [Neg α] [OfScientific α]

/-- the block repeated three times in `value_fast_approx`:
`w = r + h; z = exp(-w*t_eff) - exp(-w*t_mat); clean_rpv01 = (z/w)*365/360;
prot_pv = h*(1 - contract_recovery)*(z/w)*notional; fwd_df*long_protect*(prot_pv - cpn*clean_rpv01*notional)` -/
def fastCleanPV (o : Ops α) (h r rcon teff tmat cpn notional lp : α) : α :=
  let w := r + h
  let z := o.exp (-w * teff) - o.exp (-w * tmat)
  let cleanRpv01 := (z / w) * 365.0 / 360.0
  let protPv := h * (1 - rcon) * (z / w) * notional
  1 * lp * (protPv - cpn * cleanRpv01 * notional)

/-- `CDS.value_fast_approx` → (full_pv, clean_pv, credit01, ir01).  `acc` = the contract's day-count fraction from the
previous coupon date to the step-in date (the input of `accrued_interest`). -/
def valueFastApprox (o : Ops α) (teff tmat r spread rcurve rcon cpn notional acc : α) (long : Bool) : α × α × α × α :=
  let lp : α := if long then 1 else -1
  let accrued := accruedInterest long cpn notional acc
  let h := spread / (1 - rcurve)
  let cleanPv := fastCleanPV o h r rcon teff tmat cpn notional lp
  let fullPv := cleanPv + 1 * accrued
  let hb := (spread + 0.0001) / (1 - rcon)
  let cleanCb := fastCleanPV o hb r rcon teff tmat cpn notional lp
  let fullCb := cleanCb + 1 * lp * accrued
  let credit01 := fullCb - fullPv
  let h3 := spread / (1 - rcon)
  let r3 := r + 0.0001
  let cleanIb := fastCleanPV o h3 r3 rcon teff tmat cpn notional lp
  let fullIb := cleanIb + 1 * lp * accrued
  let ir01 := fullIb - fullPv
  (fullPv, cleanPv, credit01, ir01)

end fast

section surv

/-- `CDSCurve.survival_prob` on a list / array of times: `qs = zeros(n); for i in range(n): qs[i] = _uinterpolate(t[i], …)`,
as a loop that writes slot `i` of a pre-sized buffer (`interp` = the scalar `_uinterpolate(·, _times, _values, method)`). -/
def survLoop {α : Type} (interp : α → α) (t : Array α) : Nat → Nat → Array α → Array α
  | 0, _, qs => qs
  | fuel + 1, i, qs => if h : i < t.size then survLoop interp t fuel (i + 1) (qs.setIfInBounds i (interp t[i])) else qs

def survivalProbs {α : Type} [Zero α] (interp : α → α) (t : Array α) : Array α :=
  survLoop interp t t.size 0 (Array.replicate t.size 0)

end surv
end FinVerif.Model.C09
