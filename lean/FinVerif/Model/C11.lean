/-
  C11 — hand-written models of the two LOOPS among the closed-form exotics (everything else is generated):

  * `EquityCliquetOption.value`  (financepy/products/equity/equity_cliquet_option.py): the loop over the reset dates,
    one forward-start at-the-money Black–Scholes option per period, accumulated in `v_cliquet`;
  * `EquityVarianceSwap.fair_strike` (financepy/products/equity/equity_variance_swap.py): the two loops that build the
    replication weights `put_wts`, `call_wts` (Demeterfi–Derman–Kamal–Zou), the two loops that accumulate the option
    portfolio `pi_put`, `pi_call`, and the final combination.

  Written once over a number type `α` (instantiated at `Float` by `Driver/C11x.lean`, compared with the implementation on
  every run, and at `ℝ` by `Props/C11h.lean`).  Mathlib-free.  Curve reads, date arithmetic and the Black–Scholes kernel
  are parameters (`bs` is the GENERATED `bs_value` in both instantiations).
-/
import FinVerif.Core.Prelude

namespace FinVerif.Model.C11
open FinVerif

section
variable {α : Type} [Add α] [Sub α] [Mul α] [Div α] [Neg α]

/-! ### cliquet -/

/-- One future reset date as the loop reads it: `(t_exp, df, dq, dqMat)` =
`((dt − value_dt)/365, discount_curve.df(dt), dividend_curve.df_t(t_prev), dividend_curve.df_t(t_exp))`. -/
abbrev CliqPeriod (α : Type) := α × α × α × α

/-- the loop body of `EquityCliquetOption.value`, threading `t_prev` and `v_cliquet`.  `bs ty tau r q` stands for
`bs_value(1.0, tau, 1.0, r, q, v, ty)`. -/
def cliquetGo (ln : α → α) (bs : Int → α → α → α → α) (ty : Int) (s : α) :
    List (CliqPeriod α) → α → α → Except PyErr α
  | [], _, acc => .ok acc
  | (tExp, df, dq, dqMat) :: rest, tPrev, acc =>
      let r := (-(ln df)) / tExp
      let tau := tExp - tPrev
      let q := (-(ln (dqMat / dq))) / tau
      if ty = 1 then
        let vFwd := (s * dq) * bs 1 tau r q
        cliquetGo ln bs ty s rest tExp (acc + vFwd)
      else if ty = 2 then
        let vFwd := (s * dq) * bs 2 tau r q
        cliquetGo ln bs ty s rest tExp (acc + vFwd)
      else
        .error .finError

/-- `EquityCliquetOption.value` given the future reset dates (those with `dt > value_dt`, in order) -/
def cliquetValue (zero : α) (ln : α → α) (bs : Int → α → α → α → α) (ty : Int) (s : α) (periods : List (CliqPeriod α)) :
    Except PyErr α :=
  cliquetGo ln bs ty s periods zero zero

/-! ### variance swap: replication weights -/

/-- `f(x) = (2/T)·((x − S*)/S* − log(x/S*))` of `fair_strike` -/
def vsF (two : α) (ln : α → α) (tMat sstar x : α) : α :=
  (two / tMat) * ((x - sstar) / sstar - ln (x / sstar))

/-- the weight loops: `wts[n] = (f(k[n+1]) − f(k[n])) / Δ − sum_wts ; sum_wts += wts[n]` with `Δ = k[n+1] − k[n]` for
calls and `k[n] − k[n+1]` for puts.  `ks` = the strikes actually visited (`num_options + 1` of them). -/
def vsWtsGo (fv : α → α) (isCall : Bool) : List α → α → List α
  | k :: kp :: rest, sumW =>
      let w := (fv kp - fv k) / (if isCall then kp - k else k - kp) - sumW
      w :: vsWtsGo fv isCall (kp :: rest) (sumW + w)
  | _, _ => []

def vsWts (zero : α) (fv : α → α) (isCall : Bool) (ks : List α) : List α := vsWtsGo fv isCall ks zero

/-- `pi += v · wts[n]` over the options (the option values `v` are computed by `EquityVanillaOption.value`) -/
def vsPiGo (acc : α) : List α → List α → α
  | v :: vs, w :: ws => vsPiGo (acc + v * w) vs ws
  | _, _ => acc

def vsPi (zero : α) (vs ws : List α) : α := vsPiGo zero vs ws

/-- the scalar part of `fair_strike`:
`2·(r·T − (S0·g/S* − 1) − log(S*/S0))/T + g·(pi_call + pi_put)` -/
def vsFairStrike (one two : α) (ln : α → α) (r tMat s0 g sstar piCall piPut : α) : α :=
  (two * (r * tMat - (s0 * g / sstar - one) - ln (sstar / s0)) / tMat) + g * (piCall + piPut)

end

end FinVerif.Model.C11
