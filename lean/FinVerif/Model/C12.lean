/-
  C12 — hand model of `financepy/models/equity_crr_tree.py:crr_tree_val` (node layout by layers,
  probabilities, discounting, backward induction, early-exercise max) and of the projection step of
  `finite_difference.py` / `finite_difference_PSOR.py`.  One definition over a type `α` with the standard
  operation classes: executed at `Float` by the driver, subject of the theorems at `ℝ`.  Mathlib-free.
-/
import FinVerif.Core.Prelude

namespace FinVerif.Model.C12
open FinVerif

section generic
variable {α : Type} [Add α] [Sub α] [Mul α] [Div α] [LT α] [DecidableLT α] [OfNat α 0] [OfNat α 1]

/-- `np.maximum(a, b)` on scalars. -/
def maxG (a b : α) : α := if a < b then b else a

/-- Stock prices of one layer with `k+1` nodes: `s_low, s_low·(u·u), s_low·(u·u)², …` by repeated
multiplication (as the code does: `s = s * (u * u)`). -/
def layer (uu : α) : Nat → α → List α
  | 0, s => [s]
  | k + 1, s => s :: layer uu k (s * uu)

/-- `s_low` of layer `i`: `stock_price · d · d · … ` (`s_low *= d`, `i` times). -/
def sLow (d : α) : Nat → α → α
  | 0, s => s
  | i + 1, s => sLow d i (s * d)

/-- Payoff / exercise value. `isCall` covers EUROPEAN_CALL and AMERICAN_CALL. -/
def payoff (isCall : Bool) (k s : α) : α := if isCall then maxG (s - k) 0 else maxG (k - s) 0

/-- One backward step over a layer: from the values at layer `i+1` to the values at layer `i`.
`ex j` is the exercise value at node `j` of layer `i`; `amer` switches the early-exercise max.
Order of operations as in the code: `p*v_up`, `+= (1-p)*v_dn`, `df * …`. -/
def stepFrom (amer : Bool) (p df : α) (ex : Nat → α) : Nat → List α → List α
  | j, vdn :: vup :: rest =>
    let hold := df * (p * vup + (1 - p) * vdn)
    (if amer then maxG (ex j) hold else hold) :: stepFrom amer p df ex (j + 1) (vup :: rest)
  | _, _ => []

/-- Backward induction from layer `k` (values `vals`) down to layer 0; `ex i j` = exercise value at
layer `i`, node `j`. -/
def rollDown (amer : Bool) (p df : α) (ex : Nat → Nat → α) : Nat → List α → List α
  | 0, vals => vals
  | k + 1, vals => rollDown amer p df ex k (stepFrom amer p df (ex k) 0 vals)

/-- Exercise values on the CRR lattice (the layer's stock prices are computed once per layer). -/
def crrEx (isCall : Bool) (strike s0 u d : α) : Nat → Nat → α := fun i =>
  let prices := (layer (u * u) i (sLow d i s0)).toArray
  fun j => payoff isCall strike (prices.getD j 0)

/-- All option values at the root layer of an `n`-step CRR tree (`[price]`).  `u, d, p, df` are the
per-step up/down factors, risk-neutral probability and discount factor computed by the caller. -/
def crrValues (amer isCall : Bool) (s0 strike u d p df : α) (n : Nat) : List α :=
  let terminal := (layer (u * u) n (sLow d n s0)).map (payoff isCall strike)
  rollDown amer p df (crrEx isCall strike s0 u d) n terminal

/-- The projection applied after every time step of the FD / PSOR American solvers:
`idx = res < payoff; res[idx] = payoff[idx]`. -/
def project : List α → List α → List α
  | r :: rs, g :: gs => (if r < g then g else r) :: project rs gs
  | rs, _ => rs

end generic

/-- The step-count rule of `crr_tree_val`: `num_steps = num_steps_per_year`, made odd when `isEven = 0` and even when
`isEven = 1` (proved equal to the GENERATED rule `Gen.CrrLoopR.crr_steps` in `Props/C12e.lean`). -/
def crrSteps (numSteps : Nat) (isEven : Int) : Nat :=
  if numSteps % 2 == 0 && isEven == 0 then numSteps + 1
  else if numSteps % 2 == 1 && isEven == 1 then numSteps + 1 else numSteps

/-- `crr_tree_val(...)[0]` at `Float`: step count rule (`num_steps = num_steps_per_year`, parity forced by
`isEven`), `dt`, `u = exp(σ√dt)`, `d = 1/u`, `p = (e^{(r−q)dt} − d)/(u − d)`, `df = e^{−r dt}`. -/
def crrTreeVal (s r q vol : Float) (numSteps : Nat) (t : Float) (optType : Int) (k : Float) (isEven : Int) : Float :=
  let n := crrSteps numSteps isEven
  let dt := t / n.toFloat
  let u := Float.exp (vol * Float.sqrt dt)
  let d := 1.0 / u
  let a := Float.exp ((r - q) * dt)
  let p := (a - d) / (u - d)
  let df := Float.exp (-r * dt)
  -- OptionTypes: EUROPEAN_CALL = 1, EUROPEAN_PUT = 2, AMERICAN_CALL = 3, AMERICAN_PUT = 4
  let amer := optType == 3 || optType == 4
  let isCall := optType == 1 || optType == 3
  (crrValues amer isCall s k u d p df n).headD 0.0

/-- `crr_tree_val_avg(...)['value']`. -/
def crrTreeValAvg (s r q vol : Float) (numSteps : Nat) (t : Float) (optType : Int) (k : Float) : Float :=
  (crrTreeVal s r q vol numSteps t optType k 1 + crrTreeVal s r q vol numSteps t optType k 0) / 2.0

end FinVerif.Model.C12
