/-
  C12 — hand model of the theta-scheme finite-difference pricer `financepy/models/finite_difference.py`
  (`dx`, `dxx` with `wind = 0`, `calculate_fd_matrix`, `fd_roll_backwards`, `option_payoff` without smoothing,
  `black_scholes_fd`) and of the SOR sweep of `finite_difference_PSOR.py` (`PSOR`, `PSOR_roll_backwards`,
  `black_scholes_fd_PSOR`).  The explicit part is `band_matrix_multiplication(Ae, 1, 1, ·)`, the implicit part
  `solve_tridiagonal_matrix(Ai, ·)` (the latter is the model `Model/C20.thomas`).
  Written once over a type `α` with the standard operation classes: executed at `Float` by the driver, subject of the
  theorems at `ℝ` (Props/C12c.lean).  Statement order and association of every expression follow the source.  Mathlib-free.
-/
import FinVerif.Core.Prelude
import FinVerif.Model.C12
import FinVerif.Model.C20

namespace FinVerif.Model.C12FD
open FinVerif FinVerif.Model.C12 FinVerif.Model.C20

/-- one row of a tridiagonal band matrix `[a, b, c]` (sub-diagonal, diagonal, super-diagonal) -/
structure Tri (α : Type) where
  a : α
  b : α
  c : α

/-- one grid node with the coefficient vectors of `calculate_fd_matrix(x, r, mu, var, …)` at that node -/
structure Node (α : Type) where
  x : α
  r : α
  mu : α
  var : α

section generic
variable {α : Type} [Add α] [Sub α] [Mul α] [Div α] [Neg α] [LT α] [LE α] [BEq α]
  [DecidableLT α] [DecidableLE α] [OfNat α 0] [OfNat α 1] [OfNat α 2]

/-- interior row of `dx(x, wind=0)`: `(−dxu/dxl, dxu/dxl − dxl/dxu, dxl/dxu) / (dxl + dxu)` -/
def dxRow (xm x xp : α) : Tri α :=
  let dxl := x - xm
  let dxu := xp - x
  ⟨(-dxu / dxl) / (dxl + dxu), (dxu / dxl - dxl / dxu) / (dxl + dxu), (dxl / dxu) / (dxl + dxu)⟩

/-- first row of `dx` (`wind ≥ 0`): `(0, −1, 1) / (x[1] − x[0])` -/
def dxFirst (x0 x1 : α) : Tri α := ⟨0 / (x1 - x0), (-1) / (x1 - x0), 1 / (x1 - x0)⟩

/-- last row of `dx` (`wind ≤ 0`): `(−1, 1, 0) / (x[-1] − x[-2])` -/
def dxLast (xm x : α) : Tri α := ⟨(-1) / (x - xm), 1 / (x - xm), 0 / (x - xm)⟩

/-- interior row of `dxx`: `[2/dxl, −(2/dxl + 2/dxu), 2/dxu] / (dxu + dxl)` -/
def dxxRow (xm x xp : α) : Tri α :=
  let dxl := x - xm
  let dxu := xp - x
  ⟨(2 / dxl) / (dxu + dxl), (-(2 / dxl + 2 / dxu)) / (dxu + dxl), (2 / dxu) / (dxu + dxl)⟩

/-- first and last rows of `dxx` -/
def zeroTri : Tri α := ⟨0, 0, 0⟩

/-- one row of `A = dt·theta·(mu·Dx + 0.5·var·Dxx); A[:, 1] += 1 − dt·theta·r` (`dtTheta = dt * theta`) -/
def fdRow (dtTheta : α) (nd : Node α) (d1 d2 : Tri α) : Tri α :=
  let half : α := 1 / 2
  ⟨dtTheta * (nd.mu * d1.a + half * nd.var * d2.a),
   dtTheta * (nd.mu * d1.b + half * nd.var * d2.b) + (1 - dtTheta * nd.r),
   dtTheta * (nd.mu * d1.c + half * nd.var * d2.c)⟩

/-- rows of `calculate_fd_matrix` (wind = 0): first argument = previous node (`none` at the first row). -/
def fdRows (dtTheta : α) : Option (Node α) → List (Node α) → List (Tri α)
  | none, n0 :: n1 :: rest => fdRow dtTheta n0 (dxFirst n0.x n1.x) zeroTri :: fdRows dtTheta (some n0) (n1 :: rest)
  | some nm, n :: np :: rest =>
    fdRow dtTheta n (dxRow nm.x n.x np.x) (dxxRow nm.x n.x np.x) :: fdRows dtTheta (some n) (np :: rest)
  | some nm, [n] => [fdRow dtTheta n (dxLast nm.x n.x) zeroTri]
  | _, _ => []

/-- `calculate_fd_matrix(x, r, mu, var, dt, theta, wind=0)` (grids with at least two nodes) -/
def calcFdMatrix (nodes : List (Node α)) (dt theta : α) : List (Tri α) := fdRows (dt * theta) none nodes

/-- entry `i` of `band_matrix_multiplication(A, 1, 1, v)` for an `n × 3` band matrix: `x = 0; x += a·v[i−1]` (if
`i > 0`); `x += b·v[i]`; `x += c·v[i+1]` (if `i + 1 < n`). -/
def rowApply (t : Tri α) (n i : Nat) (vm v vp : α) : α :=
  let s : α := 0
  let s := if 0 < i then s + t.a * vm else s
  let s := s + t.b * v
  if i + 1 < n then s + t.c * vp else s

/-- `band_matrix_multiplication(A, 1, 1, v)` -/
def triApply (rows : Array (Tri α)) (v : Array α) : List α :=
  (List.range rows.size).map (fun i =>
    rowApply (rows.getD i zeroTri) rows.size i (v.getD (i - 1) 0) (v.getD i 0) (v.getD (i + 1) 0))

/-- `solve_tridiagonal_matrix(A, z)` through the C20 model of the Thomas algorithm -/
def triSolve (rows : List (Tri α)) (z : List α) : Option (List α) :=
  thomas (List.zipWith (fun t r => (⟨t.a, t.b, t.c, r⟩ : Row α)) rows z)

/-- `fd_roll_backwards(res, theta, Ai, Ae)` for one vector: explicit multiplication if `theta != 1`, implicit
solve if `theta != 0` (the two tests are passed as booleans). `none` = ValueError of the tridiagonal solver. -/
def thetaStep (explicitOn implicitOn : Bool) (ae ai : List (Tri α)) (res : List α) : Option (List α) :=
  let z := if explicitOn then triApply ae.toArray res.toArray else res
  if implicitOn then triSolve ai z else some z

/-- the time loop of `black_scholes_fd`: `res = fd_roll_backwards(res, …)`, then for American options
`res[res < payoff] = payoff` (`project`). -/
def fdLoop (amer : Bool) (step : List α → Option (List α)) (payoff : List α) : Nat → List α → Option (List α)
  | 0, res => some res
  | h + 1, res =>
    match step res with
    | none => none
    | some r => fdLoop amer step payoff h (if amer then project r payoff else r)

/-- `option_payoff(s, strike, smooth=False, dig=False, option_type)`: `res = s − strike; res[res < 0] = 0` (first and
last entries `max(0, s − strike)`), and for puts `res − (s − strike)`. -/
def fdPayoff (isCall : Bool) (strike : α) (s : List α) : List α :=
  s.map (fun x =>
    let c := maxG (x - strike) 0
    if isCall then c else c - (x - strike))

/-- one SOR sweep of `PSOR`: `new[j] = (z[j] − a[j]·new[j−1] − c[j]·old[j+1]) / b[j]`, then
`new[j] = omega·new[j] + (1 − omega)·old[j]`, for `j = 1 … n−2`; entries `0` and `n−1` are not touched.
Arguments: the already updated left neighbour, then the rows / right-hand sides / old values from `j` on. -/
def sorSweepAux (omega : α) (newPrev : α) : List (Tri α) → List α → List α → List α
  | t :: ts, z :: zs, old :: oldNext :: olds =>
    let v := (z - t.a * newPrev - t.c * oldNext) / t.b
    let v := omega * v + (1 - omega) * old
    v :: sorSweepAux omega v ts zs (oldNext :: olds)
  | _, _, olds => olds

def sorSweep (omega : α) (rows : List (Tri α)) (z old : List α) : List α :=
  match rows, z, old with
  | _ :: ts, _ :: zs, o0 :: olds => o0 :: sorSweepAux omega o0 ts zs olds
  | _, _, olds => olds

/-- `np.sum((new − old) ** 2)` accumulated left to right -/
def sumSqDiff (a b : List α) : α :=
  (List.zipWith (fun x y => (x - y) * (x - y)) a b).foldl (· + ·) 0

/-- `PSOR(Ai, omega, initial_value, z_ip1, max_iter=0, acc)`: sweeps `while delta >= acc` (`delta` starts at 1);
fuel bounds the number of sweeps of the executable model. Returns the vector and the number of sweeps. -/
def sorLoop (omega acc : α) (rows : List (Tri α)) (z : List α) : Nat → α → List α → Nat → List α × Nat
  | 0, _, res, k => (res, k)
  | fuel + 1, delta, res, k =>
    if acc ≤ delta then
      let res' := sorSweep omega rows z res
      sorLoop omega acc rows z fuel (sumSqDiff res' res) res' (k + 1)
    else (res, k)

end generic

/-! ### Float wrappers: the grid and coefficient vectors of `black_scholes_fd` / `black_scholes_fd_PSOR` -/

/-- `s = spot·exp(xl + d_x·arange(num_samples + 1))` with `std = vol·t**0.5`, `xu = num_std·std`, `xl = −xu`,
`d_x = (xu − xl)/max(1, num_samples)`; `r_ = r`, `mu_ = (r − q)·s`, `var_ = (s·vol)**2`. -/
def bsGrid (spot vol t r q : Float) (numStd : Float) (numSamples : Nat) : List (Node Float) :=
  let std := vol * Float.pow t 0.5
  let xu := numStd * std
  let xl := -xu
  let dX := (xu - xl) / (max 1 numSamples).toFloat
  let mu := r - q
  (List.range (numSamples + 1)).map (fun i =>
    let s := spot * Float.exp (xl + dX * i.toFloat)
    (⟨s, 0.0 + r, mu * s, (s * vol) * (s * vol)⟩ : Node Float))

/-- `black_scholes_fd(spot, vol, t, strike, r, q, option_type, num_time_steps, num_samples, num_std, theta)` with
`wind = 0`, `digital = smooth = update = False`; option types as in `OptionTypes` (1 … 4).
`numTimeSteps = 0` stands for `None` (`num_steps = (num_samples + 1) // 2`). -/
def blackScholesFd (spot vol t strike r q : Float) (optType : Int) (numTimeSteps numSamples : Nat)
    (numStd theta : Float) : Option Float :=
  let nodes := bsGrid spot vol t r q numStd numSamples
  let ns1 := numSamples + 1
  let amer := optType == 3 || optType == 4
  let isCall := optType == 1 || optType == 3
  let payoff := fdPayoff isCall strike (nodes.map (·.x))
  let numSteps := if numTimeSteps == 0 then ns1 / 2 else numTimeSteps
  let dt := t / (max 1 numSteps).toFloat
  let ae := calcFdMatrix nodes dt (1.0 - theta)
  let ai := calcFdMatrix nodes (-dt) theta
  match fdLoop amer (thetaStep (theta != 1.0) (theta != 0.0) ae ai) payoff numSteps payoff with
  | none => none
  | some res => some (res.toArray.getD (ns1 / 2) 0.0)

/-- the time loop of `black_scholes_fd_PSOR`: explicit multiplication, SOR sweeps to `acc`, `omega` adaptation
(`omega += sign(nloops − previous)·d_omega`, clipped to `[1 + d_omega, 2 − d_omega]`), projection for American options. -/
def psorLoop (amer : Bool) (ae ai : List (Tri Float)) (payoff : List Float) (acc dOmega : Float) (fuel : Nat) :
    Nat → List Float → Float → Nat → List Float
  | 0, res, _, _ => res
  | h + 1, res, omega, prevLoops =>
    let z := triApply ae.toArray res.toArray
    let (res', nloops) := sorLoop omega acc ai z fuel 1.0 res 0
    let sgn : Float := if nloops > prevLoops then 1.0 else if nloops < prevLoops then -1.0 else 0.0
    let omega' := omega + sgn * dOmega
    let omega' := fmin (fmax omega' (1.0 + dOmega)) (2.0 - dOmega)
    let res'' := if amer then project res' payoff else res'
    psorLoop amer ae ai payoff acc dOmega fuel h res'' omega' nloops

/-- `black_scholes_fd_PSOR(…)` with the defaults `acc = 1e-13`, `d_omega = 5e-5`, `max_iter = 0`, `wind = 0`. -/
def blackScholesFdPSOR (spot vol t strike r q : Float) (optType : Int) (numTimeSteps numSamples : Nat)
    (numStd theta : Float) (fuel : Nat) : Float :=
  let nodes := bsGrid spot vol t r q numStd numSamples
  let ns1 := numSamples + 1
  let amer := optType == 3 || optType == 4
  let isCall := optType == 1 || optType == 3
  let payoff := fdPayoff isCall strike (nodes.map (·.x))
  let numSteps := if numTimeSteps == 0 then ns1 / 4 else numTimeSteps
  let dt := t / (max 1 numSteps).toFloat
  let ae := calcFdMatrix nodes dt (1.0 - theta)
  let ai := calcFdMatrix nodes (-dt) theta
  let res := psorLoop amer ae ai payoff 1e-13 5e-5 fuel numSteps payoff 1.8 0
  res.toArray.getD (ns1 / 2) 0.0

end FinVerif.Model.C12FD
