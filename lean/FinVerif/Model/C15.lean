/-
  Hand-written part of the C15 model (Mathlib-free, executable): the sum of the ACT/ACT ICMA fractions of the
  consecutive coupon periods of a schedule, each computed by the GENERATED `year_frac` with its own period end as
  the third date.  Compared with the implementation by the `ICMASUM` op of `Driver/C15.lean` (harness/props/c15.py);
  theorem `icma_k_regular_periods` in `Props/C15f.lean`.
-/
import FinVerif.Gen.DayCount

namespace FinVerif.Model.C15
open FinVerif FinVerif.Gen.DayCount

/-- fraction component of a result (0 for an error) -/
def fracOk (r : Except PyErr (Rat × Rat × Rat)) : Rat := match r with | .ok t => t.1 | .error _ => 0

def icmaSum (f : Int) (term : Bool) : List PyDate → Rat
  | a :: b :: rest => fracOk (year_frac a b (some b) f term 6) + icmaSum f term (b :: rest)
  | _ => 0

end FinVerif.Model.C15
