/-
  C17 — hand-written model of the portfolio loss-distribution builders
  (`financepy/models/loss_dbn_builder.py`, `gauss_copula_onefactor.py`).

  Written once over a type `α` with the arithmetic instances it needs, so that it runs at
  `Float` (driver, compared with the implementation) and is reasoned about at `ℝ` (Props/C17*).
  Mathlib-free.  Conventions AS CODED:

  * the array size is `1 + Σ int(l_i)` while the shift of credit `i` is `int(l_i + 1e-10)`;
    the two truncations are taken by whoever builds a `Credit` (driver: `Float` truncation;
    theorems: two naturals `sz`, `sh`), the model keeps them apart;
  * the two inner loops `range(0, loss)` / `range(loss, num_loss_units)` are `stepAt`;
  * with no credit the function returns the untouched all-zero `next_dbn`;
  * sums accumulate left to right from `0.0` (`sumL`), as the loops do.
-/
import FinVerif.Core.Prelude

namespace FinVerif.Model.C17

/-- One credit as the recursion sees it: conditional default probability, contribution to the
array size (`int(l)`) and shift (`int(l + 1e-10)`). -/
structure Credit (α : Type) where
  p : α
  sz : Nat
  sh : Nat

section core
variable {α : Type} [Zero α] [One α] [Add α] [Sub α] [Mul α]

/-- `l[i]` with `0` outside the list (the theorems only ever read inside). -/
def getZ (l : List α) (i : Nat) : α := l.getD i 0

/-- the same read through an array (constant time when executed; `getA l.toArray = getZ l`). -/
def getA (a : Array α) (i : Nat) : α := a.getD i 0

/-- left-to-right accumulation from zero, like `acc = 0.0; for x in l: acc += x`. -/
def sumL (l : List α) : α := l.foldl (· + ·) 0

/-- `num_loss_units = 1 + Σ int(loss_units[i])`. -/
def arraySize (cs : List (Credit α)) : Nat := 1 + (cs.map (·.sz)).sum

/-- Entry `i` of `next_dbn` after the two inner loops, reading `prev_dbn`. -/
def stepAt (prev : Nat → α) (p : α) (sh : Nat) (i : Nat) : α :=
  if i < sh then prev i * (1 - p) else prev (i - sh) * p + prev i * (1 - p)

/-- One credit: shift-and-mix over an array of `n` entries. -/
def step (n : Nat) (prev : List α) (c : Credit α) : List α :=
  let a := prev.toArray
  (List.range n).map (stepAt (getA a) c.p c.sh)

/-- `prev_dbn = zeros(n); prev_dbn[0] = 1.0`. -/
def unitFn : Nat → α := fun i => if i = 0 then 1 else 0
def unit (n : Nat) : List α := (List.range n).map unitFn
def zeros (n : Nat) : List α := List.replicate n 0

/-- `indep_loss_dbn_recursion_gcd(len(cs), [c.p], [l])` -/
def indepRecursion (cs : List (Credit α)) : List α :=
  match cs with
  | [] => zeros (arraySize cs)
  | _ => cs.foldl (step (arraySize cs)) (unit (arraySize cs))

/-- The same fold on functions `ℕ → α`, without the array bound (used by the theorems). -/
def fullFn : List (Credit α) → (Nat → α) → Nat → α
  | [], f => f
  | c :: cs, f => fullFn cs (stepAt f c.p c.sh)

/-- All `2^n` default states of the credits: (probability of the state, loss units of the state). -/
def enumStates : List (Credit α) → List (α × Nat)
  | [] => [(1, 0)]
  | c :: cs => (enumStates cs).map (fun s => (s.1 * (1 - c.p), s.2))
               ++ (enumStates cs).map (fun s => (s.1 * c.p, s.2 + c.sh))

/-- Probability that the total loss is exactly `i` units, by exhaustive enumeration. -/
def enumLaw (cs : List (Credit α)) (i : Nat) : α :=
  ((enumStates cs).map (fun s => if i = s.2 then s.1 else 0)).sum

/-- Mixture over quadrature nodes `(weight, conditional distribution)`:
`uncond[i] = 0; for node: uncond[i] += d[i]*wt; uncond[i] *= c`. -/
def mixture (n : Nat) (nodes : List (α × List α)) (c : α) : List α :=
  let nds := nodes.map fun nd => (nd.1, nd.2.toArray)
  (List.range n).map fun i => (nds.foldl (fun acc nd => acc + getA nd.2 i * nd.1) 0) * c

/-- credits from probabilities and the two truncations of the loss units -/
def mkCredits (ps : List α) (units : List (Nat × Nat)) : List (Credit α) :=
  List.zipWith (fun p u => ⟨p, u.1, u.2⟩) ps units

/-- `indep_dbn[i] *= alpha; indep_dbn[iBelow] += epsBelow; indep_dbn[iAbove] += epsAbove`. -/
def adjust (base : List α) (alpha : α) (iBelow iAbove : Nat) (epsBelow epsAbove : α) : List α :=
  let a := base.map (· * alpha)
  let b := a.modify iBelow (· + epsBelow)
  b.modify iAbove (· + epsAbove)

end core

section gc
variable {α : Type} [Zero α] [One α] [Add α] [Sub α] [Mul α] [Div α] [Neg α] [OfNat α 2]

/-- `cond_default_probs[i] = N((thresholds[i] - beta*z)/sqrt(1 - beta*beta))` -/
def condProbs (Nf sqrtf : α → α) (thr betas : List α) (z : α) : List α :=
  List.zipWith (fun t b => Nf ((t - b * z) / sqrtf (1 - b * b))) thr betas

/-- `z = MIN_Z; …; z += dz` -/
def zNodes (z dz : α) : Nat → List α
  | 0 => []
  | k + 1 => z :: zNodes (z + dz) dz k

/-- the quadrature nodes of `loss_dbn_recursion_gcd`: weight `exp(-(z*z)/2)` and the conditionally
independent recursion at the conditional probabilities -/
def gcNodes (Nf sqrtf expf : α → α) (thr betas : List α) (units : List (Nat × Nat)) (z0 dz : α)
    (steps : Nat) : List (α × List α) :=
  (zNodes z0 dz steps).map fun z =>
    (expf (-(z * z) / 2), indepRecursion (mkCredits (condProbs Nf sqrtf thr betas z) units))

/-- `loss_dbn_recursion_gcd` given the thresholds `norminvcdf(p_i)`, `dz` and `c = INV_ROOT_2_PI*dz`. -/
def lossDbnGC (Nf sqrtf expf : α → α) (thr betas : List α) (units : List (Nat × Nat)) (z0 dz c : α)
    (steps : Nat) : List α :=
  mixture (1 + (units.map (·.1)).sum) (gcNodes Nf sqrtf expf thr betas units z0 dz steps) c

end gc

section tranche
variable {α : Type} [Zero α] [One α] [Add α] [Sub α] [Mul α] [Div α] [Min α] [NatCast α]

/-- `tranche_el = Σ_{i<m} (min(i*gcd,k2) - min(i*gcd,k1)) * loss_dbn[i]` accumulated left to right -/
def trancheEL (k1 k2 gcd : α) (dbn : List α) (m : Nat) : α :=
  let a := dbn.toArray
  sumL ((List.range m).map fun (i : Nat) => (min ((i : α) * gcd) k2 - min ((i : α) * gcd) k1) * getA a i)

/-- `q = 1 - tranche_el/(k2-k1)` -/
def trancheSurv (k1 k2 gcd : α) (dbn : List α) (m : Nat) : α :=
  1 - trancheEL k1 k2 gcd dbn m / (k2 - k1)

/-- portfolio expected loss in the same units: `Σ_{i<m} (i*gcd) * loss_dbn[i]` -/
def portfolioEL (gcd : α) (dbn : List α) (m : Nat) : α :=
  let a := dbn.toArray
  sumL ((List.range m).map fun (i : Nat) => ((i : α) * gcd) * getA a i)

/-- Σ over consecutive attachment points of the tranche expected losses (width-weighted EL). -/
def partitionEL (gcd : α) (dbn : List α) (m : Nat) : List α → α
  | k1 :: k2 :: ks => trancheEL k1 k2 gcd dbn m + partitionEL gcd dbn m (k2 :: ks)
  | _ => 0

end tranche

section trancheFn
variable {α : Type} [Zero α] [One α] [Add α] [Sub α] [Mul α] [Div α] [Min α]

/-- the tranche loss function as coded in the loops of `tranche_surv_prob_recursion` /
`tranche_surv_prob_adj_binomial`: `tranche_loss = min(loss, k2) - min(loss, k1)` -/
def trancheLoss (loss k1 k2 : α) : α := min loss k2 - min loss k1

/-- Σ over consecutive attachment points of the tranche loss function at one loss level -/
def partitionLoss (loss : α) : List α → α
  | k1 :: k2 :: ks => trancheLoss loss k1 k2 + partitionLoss loss (k2 :: ks)
  | _ => 0

/-- `CDSBasket.value_1f_gaussian_homo`: `basket_surv_curve[i_time] = 1.0;
for i_to_default in range(n_to_default, num_credits + 1): basket_surv_curve[i_time] -= loss_dbn[i_to_default]` -/
def basketSurv (dbn : List α) (nToDefault numCredits : Nat) : α :=
  let a := dbn.toArray
  ((List.range (numCredits + 1 - nToDefault)).map (· + nToDefault)).foldl (fun acc i => acc - getA a i) 1

/-- the last two lines of `tr_surv_prob_lhp`, `elk = exp_min_lk(·, p, recovery, 1.0, beta)`:
`value = 1.0 - (elk2 - elk1) / (k2 - k1)` -/
def trSurvLhpCore (elk : α → α) (k1 k2 : α) : α := 1 - (elk k2 - elk k1) / (k2 - k1)

/-- width-weighted tranche expected losses `Σ (k_{j+1} - k_j)·(1 - q_j)` over consecutive attachment points, for any tranche
survival function `q` -/
def partitionOfSurv (q : α → α → α) : List α → α
  | k1 :: k2 :: ks => (k2 - k1) * (1 - q k1 k2) + partitionOfSurv q (k2 :: ks)
  | _ => 0

end trancheFn

end FinVerif.Model.C17
