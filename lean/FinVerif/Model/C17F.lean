/-
  C17 — the `Float` instantiation of the model and the scalar glue that only exists at `Float`
  (truncations `int(·)`, `round`, the quadrature constants, the adjusted-binomial scalars).
  Mathlib-free; used by `Driver/C17`.
-/
import FinVerif.Model.C17
import FinVerif.Gen.BSF
import FinVerif.Gen.KernF
import FinVerif.Gen.CreditF

namespace FinVerif.Model.C17F
open FinVerif.Model.C17

instance : NatCast Float := ⟨Float.ofNat⟩

/-- Python `int(x)` for a non-negative double. -/
def truncNat (x : Float) : Nat := x.toUInt64.toNat

/-- `(int(l), int(l + 1e-10))` — array-size contribution and shift, as coded. -/
def unitsOf (l : Float) : Nat × Nat := (truncNat l, truncNat (l + 1e-10))

def creditsOf (ps ls : List Float) : List (Credit Float) := mkCredits ps (ls.map unitsOf)

def MIN_Z : Float := -6.0
def INV_ROOT_2_PI : Float := 0.3989422804014327

/-- `loss_dbn_recursion_gcd` (thresholds `norminvcdf(p_i)` supplied by the caller). -/
def lossDbnGCF (thr betas ls : List Float) (steps : Nat) : List Float :=
  let z := MIN_Z
  let dz := 2.0 * Float.abs z / Float.ofNat steps
  lossDbnGC FinVerif.Gen.BSF.N Float.sqrt Float.exp thr betas (ls.map unitsOf) z dz (INV_ROOT_2_PI * dz) steps

/-- Python 3 / Numba `round(x)`: nearest integer, ties to even (non-negative x). -/
def roundHalfEven (x : Float) : Nat :=
  let f := Float.floor x
  let d := x - f
  let n := truncNat f
  if d < 0.5 then n else if d > 0.5 then n + 1 else if n % 2 == 0 then n else n + 1

/-- the plain binomial(n, p) both ways, as coded (`p < 0.5` upward, else downward recursion) -/
def binomBase (n : Nat) (p : Float) : List Float :=
  let nf := Float.ofNat n
  if p < 0.5 then
    let ratio := p / (1.0 - p)
    let d0 := Float.pow (1.0 - p) nf
    let rec up (i : Nat) (fuel : Nat) (prev : Float) (acc : List Float) : List Float :=
      match fuel with
      | 0 => acc.reverse
      | fuel + 1 =>
        let x := prev * ratio * (nf - Float.ofNat i + 1.0) / Float.ofNat i
        up (i + 1) fuel x (x :: acc)
    up 1 n d0 [d0]
  else
    let ratio := (1.0 - p) / p
    let dn := Float.pow p nf
    let rec down (i : Nat) (prev : Float) (acc : List Float) : List Float :=
      match i with
      | 0 => acc
      | i + 1 =>
        let x := prev * ratio * (Float.ofNat i + 1.0) / (nf - Float.ofNat i)
        down i x (x :: acc)
    down n dn [dn]

/-- `indep_loss_dbn_hetero_adj_binomial`; returns `(denom, distribution)` -/
def adjBinomialF (cps lrs : List Float) : Float × List Float :=
  let n := cps.length
  let nf := Float.ofNat n
  let p := sumL (List.zipWith (fun l c => l * c) lrs cps) / nf
  let base := binomBase n p
  let vApprox := sumL (lrs.map fun l => l * l * p * (1.0 - p))
  let vExact := sumL (List.zipWith (fun l c => l * l * c * (1.0 - c)) lrs cps)
  let meanLoss := p * nf
  let above0 := roundHalfEven (meanLoss + 1.0)
  let below := roundHalfEven meanLoss
  let above := if above0 > n then n else above0
  let da := Float.ofNat above - meanLoss
  let db := Float.ofNat below - meanLoss
  let term := da * da + (db * db - da * da) * da
  let numer := vExact - term
  let denom0 := vApprox - term
  let denom := if Float.abs denom0 < 1e-30 then 1e-30 else denom0
  let alpha := numer / denom
  let epsBelow := (1.0 - alpha) * da
  let epsAbove := (1.0 - alpha) - epsBelow
  (denom0, adjust base alpha below above epsBelow epsAbove)

/-- `loss_dbn_hetero_adj_binomial`: mixture of adjusted binomials over the same nodes -/
def lossDbnABF (thr betas lrs : List Float) (steps : Nat) : List Float :=
  let z0 := MIN_Z
  let dz := 2.0 * Float.abs z0 / Float.ofNat steps
  let nodes := (zNodes z0 dz steps).map fun z =>
    (Float.exp (-(z * z) / 2.0), (adjBinomialF (condProbs FinVerif.Gen.BSF.N Float.sqrt thr betas z) lrs).2)
  mixture (thr.length + 1) nodes (INV_ROOT_2_PI * dz)

/-- `tranche_surv_prob_recursion` after the loss units / gcd have been formed
(`m = int(num_loss_units)`, `steps` already doubled by the caller when mean beta > 0.8). -/
def trancheSurvRecursionF (k1 k2 gcd : Float) (m : Nat) (thr betas ls : List Float) (steps : Nat) : Float :=
  trancheSurv k1 k2 gcd (lossDbnGCF thr betas ls steps) m

/-- `tranche_surv_prob_adj_binomial` after `avg_loss` and the loss ratios have been formed -/
def trancheSurvABF (k1 k2 avgLoss : Float) (thr betas lrs : List Float) (steps : Nat) : Float :=
  trancheSurv k1 k2 avgLoss (lossDbnABF thr betas lrs steps) (thr.length + 1)

/-- `norminvcdf` of the generated kernels as a plain function (NaN where the code raises) -/
def ninvF (p : Float) : Float :=
  match FinVerif.Gen.KernF.norminvcdf p with
  | .ok v => v
  | .error _ => 0.0 / 0.0

/-- `exp_min_lk` (GENERATED text, `Gen/CreditF`) with the value of the bivariate normal `M` supplied by the caller -/
def expMinLkF (k p r n beta mval : Float) : Float :=
  FinVerif.Gen.CreditF.exp_min_lk ninvF (fun _ _ _ => mval) k p r n beta

/-- `tr_surv_prob_lhp`: the guards and the two accumulation loops as coded, then the generated `exp_min_lk` twice
(`m1`, `m2`: the values of `M` at the arguments formed for `k1`, `k2`) inside `trSurvLhpCore` -/
def trSurvProbLhpF (k1 k2 : Float) (qs Rs : List Float) (beta m1 m2 : Float) : Float :=
  if k1 == 0.0 && k2 == 0.0 then 0.0 else
  let pds := qs.map fun q => 1.0 - q
  let p0 := sumL pds
  let el0 := sumL (List.zipWith (fun pd R => pd * (1.0 - R)) pds Rs)
  if p0 == 0.0 then 1.0 else
  let nf := Float.ofNat qs.length
  let p := p0 / nf
  let el := el0 / nf
  let recovery := 1.0 - el / p
  trSurvLhpCore (fun k => expMinLkF k p recovery 1.0 beta (if k == k1 then m1 else m2)) k1 k2

end FinVerif.Model.C17F
