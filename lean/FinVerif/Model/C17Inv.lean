/-
  C17 — model of the inversion step of the default-time samplers
  (`financepy/models/student_t_copula.py: StudentTCopula.default_times`,
  `financepy/models/gauss_copula.py: default_times_gc`, `financepy/utils/helpers.py: uniform_to_default_time`).

  AS CODED
  * Student-t copula: `g = y / sqrt(chi2/dof)`, `u1 = F(g)`, `u2 = 1 - u1`, `tau_k = uniform_to_default_time(u_k, times, values)`
    (`defaultTime`, `defaultTimeAnti`; `F` is whatever distribution function the code applies — it is a PARAMETER here);
  * Gaussian copula: `u1 = 1 - N(g)`, `u2 = 1 - u1` (`defaultTimeAnti`, `defaultTime` with `F = N`);
  * `uniform_to_default_time(u, t, v)`: `u == 0 -> 99999`, `u == 1 -> 0`, otherwise the first pillar interval
    `v[i] < u <= v[i-1]` (index 0 if there is none, which the else branch then reads as `t[-1], v[-1]` against `t[0], v[0]`
    through negative-index wrap-around: flat extrapolation of the average hazard) and the log-linear interpolation
    `interpTime`.  The branch `index == num_points + 1` of the source cannot be reached (index < num_points) and is not modelled.

  Written over a type `α` so that it runs at `Float` (driver) and is reasoned about at `ℝ` (Props/C17c).  Mathlib-free.
-/
import FinVerif.Core.Prelude

namespace FinVerif.Model.C17Inv

section core
variable {α : Type} [Add α] [Sub α] [Mul α] [Div α]

/-- `tau = (t1*log(q2/u) + t2*log(u/q1)) / log(q2/q1)` — the interpolation line of `uniform_to_default_time`
(`lg` is the logarithm: `Float.log` when run, `Real.log` in the theorems). -/
def interpTime (lg : α → α) (t1 q1 t2 q2 u : α) : α :=
  (t1 * lg (q2 / u) + t2 * lg (u / q1)) / lg (q2 / q1)

/-- inversion step with the uniform `u1 = F(g)` (Student-t copula first half; Gaussian copula antithetic half). -/
def defaultTime (Qinv F : α → α) (g : α) : α := Qinv (F g)

/-- inversion step with the uniform `1 - F(g)` (Student-t copula antithetic half; Gaussian copula first half). -/
def defaultTimeAnti [One α] (Qinv F : α → α) (g : α) : α := Qinv (1 - F g)

end core

/-! ### `Float` instantiation of `uniform_to_default_time` (driver op `UDT`) -/

/-- `for i in range(1, n): if u <= v[i-1] and u > v[i]: index = i; break` (0 if no interval matches). -/
def findIndex (u : Float) (v : Array Float) : Nat :=
  (((List.range v.size).drop 1).find? fun i => u <= v[i - 1]! && u > v[i]!).getD 0

/-- `uniform_to_default_time(u, t, v)`; `index = 0` reads `t[-1], v[-1]` (Numba wrap-around) as the left point. -/
def uniformToDefaultTimeF (u : Float) (t v : Array Float) : Float :=
  if u == 0.0 then 99999.0
  else if u == 1.0 then 0.0
  else
    let n := v.size
    let idx := findIndex u v
    let i1 := if idx == 0 then n - 1 else idx - 1
    interpTime Float.log t[i1]! v[i1]! t[idx]! v[idx]! u

end FinVerif.Model.C17Inv
