/-
C18 — abstract object-store semantics and the shape of the generated effect summaries.

Part 1 (semantics).  A store maps locations to values; for a pool of objects a location is a pair
(object id, attribute name).  A *call* (a method applied to its arguments) is a function of the values of the
locations it MAY READ BEFORE WRITING THEM — it cannot see anything else — and produces a result together with,
for each location it may write, either a new value or "left as it was".

Part 2 (data).  `MethodEff` / `ClassEff` are what `tools/effects/extract.py` emits for every method of the
anchored classes (lean/FinVerif/Gen/Effects.lean, regenerated from /repo on every run), and the decidable
discipline check that is evaluated on that data.

Part 3 (state machines).  Small hand models of the named mechanisms, as the code is NOW (after the repairs
247d001, 53a2a33, b2f138f, 5c33524, 4de3863): Calendar cache, tree models, curve build flag, BlackScholes dispatch,
Bond previous/next coupon dates, cap/floor day counter, the deposits list, key-rate shifting.

Mathlib-free.
-/
import FinVerif.Gen.Calendar

namespace FinVerif.C18

/-! ## Part 1 — store semantics -/

section Store
variable {Loc Val Res : Type} [DecidableEq Loc] [Inhabited Val]

/-- A call: `body` receives the store *masked* to `reads` (every other location shows the default value), so
its result and the values it writes are by construction functions of the read set and of the arguments
(which are part of the closure).  `body v` returns the result and, per location, `some new` or `none`. -/
structure Call (Loc Val Res : Type) where
  reads : List Loc
  writes : List Loc
  body : (Loc → Val) → Res × (Loc → Option Val)

/-- what a call can see of a store -/
def mask (rs : List Loc) (s : Loc → Val) : Loc → Val := fun l => if l ∈ rs then s l else default

/-- run one call: result and new store (only locations in `writes` can change) -/
def exec (c : Call Loc Val Res) (s : Loc → Val) : Res × (Loc → Val) :=
  let out := c.body (mask c.reads s)
  (out.1, fun l => if l ∈ c.writes then (match out.2 l with | some v => v | none => s l) else s l)

/-- the store after a history of calls -/
def runHist (hist : List (Call Loc Val Res)) (s : Loc → Val) : Loc → Val :=
  hist.foldl (fun st c => (exec c st).2) s

/-- the result of call `c` made after the history `hist`, starting from the store `init` -/
def resultAfter (hist : List (Call Loc Val Res)) (c : Call Loc Val Res) (init : Loc → Val) : Res :=
  (exec c (runHist hist init)).1

/-- the results of all the calls of a history, in order -/
def allResults : List (Call Loc Val Res) → (Loc → Val) → List Res
  | [], _ => []
  | c :: rest, s => (exec c s).1 :: allResults rest (exec c s).2

/-- `l` is immutable w.r.t. a universe of calls: nobody may write it -/
def Immutable (U : List (Call Loc Val Res)) (l : Loc) : Prop := ∀ c ∈ U, l ∉ c.writes

/-- the read/write discipline: everything a call may read before writing it is immutable -/
def Disciplined (U : List (Call Loc Val Res)) (c : Call Loc Val Res) : Prop := ∀ l ∈ c.reads, Immutable U l

end Store

/-! ## Part 2 — generated effect summaries -/

/-- effect summary of one method (see tools/effects/extract.py for the exact meaning of each field) -/
structure MethodEff where
  name : String
  isPublic : Bool
  /-- attributes of `self` possibly read before being written in the same call -/
  rbw : List String
  /-- attributes of `self` possibly written -/
  writes : List String
  /-- attributes of `self` written on every normally returning path -/
  must : List String
  /-- writes through parameters, `param:how` -/
  pwrites : List String
  /-- methods called on parameters / attribute-held objects, `param:method` -/
  pcalls : List String
  /-- module globals possibly assigned (module-qualified) -/
  gwrites : List String
  /-- assigned-somewhere module globals possibly read -/
  greads : List String
  /-- builds text from values (may depend on the print format) -/
  text : Bool
  deriving Repr, DecidableEq

structure ClassEff where
  name : String
  /-- anchored by the property (false: auxiliary class, reported but not judged) -/
  anchored : Bool
  /-- attributes written by `__init__` (transitively) -/
  ctor : List String
  methods : List MethodEff
  deriving Repr

/-- attributes some public non-constructor method may write -/
def ClassEff.mutableAttrs (c : ClassEff) : List String :=
  (c.methods.filter (·.isPublic)).flatMap (·.writes)

def ClassEff.method? (c : ClassEff) (n : String) : Option MethodEff := c.methods.find? (·.name == n)

/-- globals of the date table: what they hold never changes a result (C13 `results_independent_of_table_state`) -/
def dateTableGlobals : List String := ["date.g_dt_counter_list", "date.g_start_year", "date.g_end_year"]

/-- the discipline on a summary: the method reads no attribute that any public method may write, writes
through no parameter, and touches no module global other than the date table -/
def disciplinedB (c : ClassEff) (m : MethodEff) : Bool :=
  m.rbw.all (fun a => !(c.mutableAttrs.contains a)) && m.pwrites.isEmpty &&
    (m.gwrites ++ m.greads).all (fun g => dateTableGlobals.contains g)

/-- (class, attribute) pairs that break the discipline: a mutable attribute that some public method may read
before writing it -/
def statefulAttrs (cs : List ClassEff) : List (String × String) :=
  (cs.filter (·.anchored)).flatMap fun c =>
    (c.mutableAttrs.eraseDups.filter fun a => (c.methods.filter (·.isPublic)).any (fun m => m.rbw.contains a)).map
      fun a => (c.name, a)

/-- public methods of a class that may read attribute `a` before writing it -/
def readersOf (cs : List ClassEff) (cls a : String) : List String :=
  (cs.filter (·.name == cls)).flatMap fun c => ((c.methods.filter (·.isPublic)).filter (·.rbw.contains a)).map (·.name)

/-- public methods of a class that may write attribute `a` -/
def writersOf (cs : List ClassEff) (cls a : String) : List String :=
  (cs.filter (·.name == cls)).flatMap fun c => ((c.methods.filter (·.isPublic)).filter (·.writes.contains a)).map (·.name)

/-- (class, method, what) for every write through a parameter -/
def paramWrites (cs : List ClassEff) : List (String × String × String) :=
  (cs.filter (·.anchored)).flatMap fun c => c.methods.flatMap fun m => m.pwrites.map fun p => (c.name, m.name, p)

/-- (class, method, global) for every use of a module global outside the date table (ALL methods: constructors
and private helpers included) -/
def otherGlobals (cs : List ClassEff) : List (String × String × String) :=
  cs.flatMap fun c => c.methods.flatMap fun m =>
    (((m.gwrites.map ("write " ++ ·)) ++ (m.greads.map ("read " ++ ·))).filter
      (fun g => !(dateTableGlobals.any (fun t => g.endsWith t)))).map fun g => (c.name, m.name, g)

/-! ## Part 3 — state machines of the named mechanisms (the code as it is now) -/

/-- `IborSingleCurve.build_curve` is a no-op once the curve is built -/
structure CurveState where
  built : Bool
  tables : Nat
  deriving DecidableEq, Repr

def buildCurve (fit : Nat) (s : CurveState) : CurveState := if s.built then s else ⟨true, fit⟩

/-- the Calendar object caches the weekday and the day in the year; −1 stands for Python's `None` -/
structure CalState where
  wd : Int
  diy : Int

def CalState.fresh : CalState := ⟨-1, -1⟩

/-- `Calendar.is_holiday(dt)` for the US calendar: store, then dispatch (rule GENERATED from calendar.py) -/
def isHolidayUS (s : CalState) (m d y wd diy : Int) : Bool × CalState :=
  let s' : CalState := ⟨wd, diy⟩
  (Gen.Calendar.holiday_united_states m d y s'.wd s'.diy, s')

/-- `Calendar.holiday_united_states(dt)` called directly: reads whatever the last `is_holiday` left -/
def holidayUSDirect (s : CalState) (m d y : Int) : Bool := Gen.Calendar.holiday_united_states m d y s.wd s.diy

/-- a tree model as `BondEmbeddedOption.value` uses it -/
structure TreeModel where
  numSteps : Nat
  tree : Option (Nat × Nat)

def TreeModel.build (m : TreeModel) (arg : Nat) : TreeModel := { m with tree := some (m.numSteps, arg) }
def TreeModel.query (f : Nat × Nat → Nat → Nat) (m : TreeModel) (x : Nat) : Option Nat := m.tree.map (fun t => f t x)

/-- build; query; `num_time_steps += 1`; build; query; `num_time_steps -= 1` -/
def embeddedValue (f : Nat × Nat → Nat → Nat) (m : TreeModel) (arg x : Nat) : (Option Nat × Option Nat) × TreeModel :=
  let m1 := m.build arg
  let v1 := m1.query f x
  let m2 := { m1 with numSteps := m1.numSteps + 1 }
  let m3 := m2.build arg
  let v2 := m3.query f x
  ((v1, v2), { m3 with numSteps := m3.numSteps - 1 })

inductive BsType | DEFAULT | ANALYTICAL | CRR_TREE | BARONE_ADESI | LSMC | BJERKSUND | FD | PSOR
  deriving DecidableEq, Repr
inductive Fam | european | american
  deriving DecidableEq, Repr
inductive Engine | analytical | crr | baw | lsmc | bjerksund | fd | psor | notAvailable
  deriving DecidableEq, Repr

/-- `BlackScholes.value` (after 247d001): DEFAULT is resolved in a LOCAL variable; returns the engine that prices
the option and `self.bs_type` afterwards (unchanged) -/
def bsValue (t : BsType) : Fam → Engine × BsType
  | .european =>
    let l := if t = .DEFAULT then .ANALYTICAL else t
    (match l with
      | .ANALYTICAL => .analytical | .CRR_TREE => .crr | .FD => .fd | .PSOR => .psor | .LSMC => .lsmc
      | _ => .notAvailable, t)
  | .american =>
    let l := if t = .DEFAULT then .CRR_TREE else t
    (match l with
      | .BARONE_ADESI => .baw | .CRR_TREE => .crr | .LSMC => .lsmc | .BJERKSUND => .bjerksund | .FD => .fd | .PSOR => .psor
      | _ => .notAvailable, t)

def bsAfter (t : BsType) (hist : List Fam) : BsType := hist.foldl (fun t f => (bsValue t f).2) t

/-- `Bond._calc_pcd_ncd` (after 53a2a33): the first coupon date after `settle` and its predecessor are assigned;
when no coupon date follows, `pcd`/`ncd` are cleared and FinError is raised (`none`).  `st` is what the previous
call left; `prev` the date before the list element under inspection. -/
def calcPcdNcd : Int → List Int → Int → Option (Int × Int) → Option (Int × Int)
  | _, [], _, _ => none
  | prev, c :: rest, settle, st => if c > settle then some (prev, c) else calcPcdNcd c rest settle st

/-- `IborCapFloor` (after 5c33524): the constructor creates the day counter from `dc_type`; `value()` re-creates the
same; `value_caplet_floor_let` reads it -/
def capCtor (dcType : Nat) : Option Nat := some dcType
def capValue (_dc : Option Nat) (dcType : Nat) : Option Nat := some dcType
def capletDirect (dc : Option Nat) : Option Nat := dc

/-- `IborSingleCurve._validate_inputs` (after 4de3863) on the deposit start dates: returns (the caller's list
afterwards, the list the curve uses) -/
def validateDeposits (valueDt swapStart : Int) (depoStarts : List Int) : List Int × List Int :=
  match depoStarts with
  | [] => ([], [])
  | d :: rest => (d :: rest, if swapStart > valueDt ∧ d > valueDt then valueDt :: d :: rest else d :: rest)

/-- `Bond.key_rate_durations` (after b2f138f): the shifting runs on a copy; returns (the caller's rates afterwards,
the working copy at the end) -/
def krdRatesAfter (shift : Int) (rates : List Int) : List Int × List Int :=
  (rates, rates.map (fun r => r + shift - 2 * shift))

end FinVerif.C18
