/-
C18 — abstract object-store semantics and the shape of the generated effect summaries.

Part 1 (semantics).  A store maps locations to values; for a pool of objects a location is a pair
(object id, attribute name).  A *call* (a method applied to its arguments) is a function of the values of the
locations it MAY READ BEFORE WRITING THEM — it cannot see anything else — and produces a result together with,
for each location it may write, either a new value or "left as it was".

Part 2 (data).  `MethodEff` / `ClassEff` are what `tools/effects/extract.py` emits for every method of the
anchored classes (lean/FinVerif/Gen/Effects.lean, regenerated from /repo on every run), and the decidable
discipline check that is evaluated on that data.

Mathlib-free.
-/

namespace FinVerif.C18

/-! ## Part 1 — store semantics -/

section Store
variable {Loc Val Res : Type} [DecidableEq Loc] [Inhabited Val]

/-- A call: `body` receives the store *masked* to `reads` (every other location shows the default value), so
its result and the values it writes are by construction functions of the read set and of the arguments
(which are part of the closure).  `body v` returns the result and, per location, `some new` or `none`. -/
structure Call (Loc Val Res : Type) where
  reads : List Loc
  writes : List Loc
  body : (Loc → Val) → Res × (Loc → Option Val)

/-- what a call can see of a store -/
def mask (rs : List Loc) (s : Loc → Val) : Loc → Val := fun l => if l ∈ rs then s l else default

/-- run one call: result and new store (only locations in `writes` can change) -/
def exec (c : Call Loc Val Res) (s : Loc → Val) : Res × (Loc → Val) :=
  let out := c.body (mask c.reads s)
  (out.1, fun l => if l ∈ c.writes then (match out.2 l with | some v => v | none => s l) else s l)

/-- the store after a history of calls -/
def runHist (hist : List (Call Loc Val Res)) (s : Loc → Val) : Loc → Val :=
  hist.foldl (fun st c => (exec c st).2) s

/-- the result of call `c` made after the history `hist`, starting from the store `init` -/
def resultAfter (hist : List (Call Loc Val Res)) (c : Call Loc Val Res) (init : Loc → Val) : Res :=
  (exec c (runHist hist init)).1

/-- the results of all the calls of a history, in order -/
def allResults : List (Call Loc Val Res) → (Loc → Val) → List Res
  | [], _ => []
  | c :: rest, s => (exec c s).1 :: allResults rest (exec c s).2

/-- `l` is immutable w.r.t. a universe of calls: nobody may write it -/
def Immutable (U : List (Call Loc Val Res)) (l : Loc) : Prop := ∀ c ∈ U, l ∉ c.writes

/-- the read/write discipline: everything a call may read before writing it is immutable -/
def Disciplined (U : List (Call Loc Val Res)) (c : Call Loc Val Res) : Prop := ∀ l ∈ c.reads, Immutable U l

end Store

/-! ## Part 2 — generated effect summaries -/

/-- effect summary of one method (see tools/effects/extract.py for the exact meaning of each field) -/
structure MethodEff where
  name : String
  isPublic : Bool
  /-- attributes of `self` possibly read before being written in the same call -/
  rbw : List String
  /-- attributes of `self` possibly written -/
  writes : List String
  /-- attributes of `self` written on every normally returning path -/
  must : List String
  /-- writes through parameters, `param:how` -/
  pwrites : List String
  /-- methods called on parameters / attribute-held objects, `param:method` -/
  pcalls : List String
  /-- module globals possibly assigned (module-qualified) -/
  gwrites : List String
  /-- assigned-somewhere module globals possibly read -/
  greads : List String
  /-- builds text from values (may depend on the print format) -/
  text : Bool
  deriving Repr, DecidableEq

structure ClassEff where
  name : String
  /-- anchored by the property (false: auxiliary class, reported but not judged) -/
  anchored : Bool
  /-- attributes written by `__init__` (transitively) -/
  ctor : List String
  methods : List MethodEff
  deriving Repr

/-- attributes some public non-constructor method may write -/
def ClassEff.mutableAttrs (c : ClassEff) : List String :=
  (c.methods.filter (·.isPublic)).flatMap (·.writes)

def ClassEff.method? (c : ClassEff) (n : String) : Option MethodEff := c.methods.find? (·.name == n)

/-- globals of the date table: what they hold never changes a result (C13 `results_independent_of_table_state`) -/
def dateTableGlobals : List String := ["date.g_dt_counter_list", "date.g_start_year", "date.g_end_year"]

/-- the discipline on a summary: the method reads no attribute that any public method may write, writes
through no parameter, and touches no module global other than the date table -/
def disciplinedB (c : ClassEff) (m : MethodEff) : Bool :=
  m.rbw.all (fun a => !(c.mutableAttrs.contains a)) && m.pwrites.isEmpty &&
    (m.gwrites ++ m.greads).all (fun g => dateTableGlobals.contains g)

/-- (class, attribute) pairs that break the discipline: a mutable attribute that some public method may read
before writing it -/
def statefulAttrs (cs : List ClassEff) : List (String × String) :=
  (cs.filter (·.anchored)).flatMap fun c =>
    (c.mutableAttrs.eraseDups.filter fun a => (c.methods.filter (·.isPublic)).any (fun m => m.rbw.contains a)).map
      fun a => (c.name, a)

/-- public methods of a class that may read attribute `a` before writing it -/
def readersOf (cs : List ClassEff) (cls a : String) : List String :=
  (cs.filter (·.name == cls)).flatMap fun c => ((c.methods.filter (·.isPublic)).filter (·.rbw.contains a)).map (·.name)

/-- public methods of a class that may write attribute `a` -/
def writersOf (cs : List ClassEff) (cls a : String) : List String :=
  (cs.filter (·.name == cls)).flatMap fun c => ((c.methods.filter (·.isPublic)).filter (·.writes.contains a)).map (·.name)

/-- (class, method, what) for every write through a parameter -/
def paramWrites (cs : List ClassEff) : List (String × String × String) :=
  (cs.filter (·.anchored)).flatMap fun c => c.methods.flatMap fun m => m.pwrites.map fun p => (c.name, m.name, p)

/-- (class, method, global) for every use of a module global outside the date table (ALL methods: constructors
and private helpers included) -/
def otherGlobals (cs : List ClassEff) : List (String × String × String) :=
  cs.flatMap fun c => c.methods.flatMap fun m =>
    (((m.gwrites.map ("write " ++ ·)) ++ (m.greads.map ("read " ++ ·))).filter
      (fun g => !(dateTableGlobals.any (fun t => g.endsWith t)))).map fun g => (c.name, m.name, g)

end FinVerif.C18
