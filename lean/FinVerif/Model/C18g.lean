/-
C18 (growth round 7b) — the INTER-CLASS call graph: shapes of the generated data and the fuel-bounded closure.

`tools/effects/extract.py` (`call_graph`) resolves every recorded call `arg.method(…)` made on a PARAMETER of a method, or on an
object held in an attribute of `self`, to the class(es) of `arg` — (a) type annotation, (b) default value, (c) `isinstance` tests,
(d) a small naming convention table — and emits one `CallEdge` per (call site, candidate class, sub-class in the table); call sites whose
class it cannot tell are emitted separately (`unresolvedCalls`).  Nodes are numbered so that the closure runs on `Nat`.

Mathlib-free.
-/
namespace FinVerif.C18

/-- own effect summary of one end point (class, method) of a call edge, copied from the method's summary -/
structure CallNode where
  cls : String
  meth : String
  /-- attributes of the receiver possibly written -/
  writes : List String
  /-- those of `writes` that some public non-constructor method of the class may read before writing -/
  readBack : List String
  pwrites : List String
  gwrites : List String
  deriving Repr, DecidableEq

/-- "method `cls.meth` calls `targetCls.targetMeth` on its argument / attribute `arg`"; `src`, `dst`: positions in the node table -/
structure CallEdge where
  cls : String
  meth : String
  arg : String
  targetCls : String
  targetMeth : String
  src : Nat
  dst : Nat
  /-- position of `(src, dst)` in the generated list of distinct id pairs -/
  pair : Nat
  deriving Repr, DecidableEq

def CallNode.key (n : CallNode) : String × String := (n.cls, n.meth)

/-- successors of node `i` -/
def succs (es : List (Nat × Nat)) (i : Nat) : List Nat := (es.filter (fun e => e.1 == i)).map (·.2)

/-- one round: everything already there plus every successor (first occurrences kept, so the result has no repetition) -/
def stepIds (es : List (Nat × Nat)) (cur : List Nat) : List Nat := (cur ++ cur.flatMap (succs es)).eraseDups

/-- fuel-bounded closure: `fuel` rounds from `cur` -/
def reachIds (es : List (Nat × Nat)) : Nat → List Nat → List Nat
  | 0, cur => cur
  | n + 1, cur => reachIds es n (stepIds es cur)

theorem reachIds_succ (es : List (Nat × Nat)) (n : Nat) (cur : List Nat) :
    reachIds es (n + 1) cur = stepIds es (reachIds es n cur) := by
  induction n generalizing cur with
  | zero => rfl
  | succ k ih =>
    show reachIds es (k + 1) (stepIds es cur) = stepIds es (reachIds es k (stepIds es cur))
    exact ih (stepIds es cur)

/-- once a round adds nothing, no amount of further fuel adds anything: the fuel is not a loophole -/
theorem reachIds_stable (es : List (Nat × Nat)) (n : Nat) (cur : List Nat)
    (h : stepIds es (reachIds es n cur) = reachIds es n cur) (k : Nat) :
    reachIds es (n + k) cur = reachIds es n cur := by
  induction k with
  | zero => rfl
  | succ j ih =>
    show reachIds es (n + j + 1) cur = reachIds es n cur
    rw [reachIds_succ, ih, h]

/-- every node of a round is still there after the next one -/
theorem subset_stepIds (es : List (Nat × Nat)) (cur : List Nat) (i : Nat) (h : i ∈ cur) : i ∈ stepIds es cur := by
  unfold stepIds
  exact List.mem_eraseDups.mpr (List.mem_append_left _ h)

/-- a successor of a node of a round is there after the next one -/
theorem succ_mem_stepIds (es : List (Nat × Nat)) (cur : List Nat) (i j : Nat) (hi : i ∈ cur) (hj : (i, j) ∈ es) :
    j ∈ stepIds es cur := by
  unfold stepIds
  refine List.mem_eraseDups.mpr (List.mem_append_right _ ?_)
  refine List.mem_flatMap.mpr ⟨i, hi, ?_⟩
  unfold succs
  exact List.mem_map.mpr ⟨(i, j), List.mem_filter.mpr ⟨hj, by simp⟩, rfl⟩

/-- more start nodes, more reached nodes (one round) -/
theorem stepIds_mono (es : List (Nat × Nat)) {a b : List Nat} (h : ∀ i ∈ a, i ∈ b) : ∀ i ∈ stepIds es a, i ∈ stepIds es b := by
  intro i hi
  unfold stepIds at hi ⊢
  rw [List.mem_eraseDups] at hi ⊢
  rcases List.mem_append.mp hi with h1 | h1
  · exact List.mem_append_left _ (h i h1)
  · obtain ⟨x, hx, hxi⟩ := List.mem_flatMap.mp h1
    exact List.mem_append_right _ (List.mem_flatMap.mpr ⟨x, h x hx, hxi⟩)

/-- the closure from a part of the start nodes is part of the closure from all of them -/
theorem reachIds_mono (es : List (Nat × Nat)) (n : Nat) {a b : List Nat} (h : ∀ i ∈ a, i ∈ b) :
    ∀ i ∈ reachIds es n a, i ∈ reachIds es n b := by
  induction n generalizing a b with
  | zero => exact h
  | succ k ih => exact ih (stepIds_mono es h)

end FinVerif.C18
