/-
  C18 (growth round 7) — run-time vocabulary of the GENERATED dispatch models of the curve entry points
  (`Gen/VecShape.lean`, produced by tools/py2lean/registry/vecshape.py from helpers.times_from_dates,
  interpolator.interpolate / _vinterpolate / Interpolator.interpolate and the `df` / `df_t` methods of the curve classes).

  A Python argument that is "a Date or a list of Dates", "a float or an ndarray" is a `Val`.  What the code does with the
  NUMBERS (day-count fractions, exp/log arithmetic, the compiled `_uinterpolate` kernel, a SciPy spline call) is opaque:
  every maximal expression without control flow on the argument's TYPE is an application of `Kern.ew key` where `key` is
  the normalised source text of that expression (opaque parameters substituted by the caller's argument text, the
  scalar-or-array variables replaced by `_1`, `_2`).  Two paths through the code therefore compute the same per-element
  quantity in the model exactly when they evaluate the same source expression; what the model adds is the control flow:
  the isinstance dispatch, the wrapping `np.array([t])`, the unwrapping `[0]`, the loops, the early returns and raises.
  Mathlib-free.
-/
import FinVerif.Core.Prelude
import FinVerif.Model.C18x

namespace FinVerif.C18v
open FinVerif FinVerif.C18

/-- a scalar or a list / ndarray of them -/
inductive Val (α : Type) where
  | s (x : α)
  | v (xs : List α)
  deriving Repr, DecidableEq

/-- the opaque element-level operations, keyed by normalised source text -/
structure Kern (α δ : Type) where
  /-- numeric expression of the numeric element variables `_1, _2, …` -/
  ew : String → List α → α
  /-- numeric expression of one date element -/
  dw : String → δ → α
  /-- predicate on one numeric element (`t < 0.0`, `np.abs(t) < g_small`) -/
  tst : String → α → Bool
  /-- condition on the object's configuration only (interpolation type, frequency, `dc_counter is None`, …) -/
  cfg : String → Bool

variable {α β δ : Type}

def Val.map (f : α → β) : Val α → Val β
  | .s x => .s (f x)
  | .v xs => .v (xs.map f)

/-- NumPy broadcasting of a binary element-wise operation -/
def Val.map2 (f : α → α → β) : Val α → Val α → Val β
  | .s a, .s b => .s (f a b)
  | .s a, .v bs => .v (bs.map (f a))
  | .v as, .s b => .v (as.map (fun a => f a b))
  | .v as, .v bs => .v (List.zipWith f as bs)

/-- `x[0]` -/
def Val.first : Val α → Except PyErr (Val α)
  | .s _ => .error .typeError
  | .v [] => .error .indexError
  | .v (x :: _) => .ok (.s x)

/-- the scalar reading of an entry point: what it returns for one element -/
def unS : Except PyErr (Val α) → Except PyErr α
  | .error e => .error e
  | .ok (.s y) => .ok y
  | .ok (.v _) => .error .typeError

def scalarOf (f : Val δ → Except PyErr (Val α)) (x : δ) : Except PyErr α := unS (f (.s x))

/-- the list reading of a scalar function: first failure fails the call -/
def vecOf (g : δ → Except PyErr α) (xs : List δ) : Except PyErr (Val α) :=
  match mapE g xs with
  | .error e => .error e
  | .ok ys => .ok (.v ys)

end FinVerif.C18v
