/-
C18 (growth round) — models for

  Part 4  the decidable checks on the EXTENDED classes (classes outside the property's anchors that the extractor now
          also summarises: `Gen.Effects.extendedClasses`) and on the package-wide module-state scan
          (`Gen.Effects.moduleState`);
  Part 5  the bump-and-restore of the CALLER's curves in `EquityOption.theta` / `FXOption.theta`
          (financepy/products/equity/equity_option.py, financepy/products/fx/fx_option.py), inherited by the barrier,
          digital, one-touch, chooser and compound options;
  Part 6  the list branch of `Date.add_months` / `add_years` / `add_tenor` as the loop it is: a `for` loop with
          loop-carried locals that appends one date per element.

Mathlib-free (executable: Driver/C18.lean runs Parts 5 and 6 against the implementation).
-/
import FinVerif.Model.C18
import FinVerif.Model.DateArith

set_option linter.unusedVariables false

namespace FinVerif.C18
open FinVerif FinVerif.Model

/-! ## Part 4 — checks without the `anchored` filter -/

/-- (class, attribute): some public method may write the attribute and some public method may read it before
writing it — over ALL classes of the list -/
def statefulAttrsAll (cs : List ClassEff) : List (String × String) :=
  cs.flatMap fun c =>
    (c.mutableAttrs.eraseDups.filter fun a => (c.methods.filter (·.isPublic)).any (fun m => m.rbw.contains a)).map
      fun a => (c.name, a)

/-- (class, method, what) for every write through a parameter — over ALL classes of the list -/
def paramWritesAll (cs : List ClassEff) : List (String × String × String) :=
  cs.flatMap fun c => c.methods.flatMap fun m => m.pwrites.map fun p => (c.name, m.name, p)

/-- (class, method, attribute): a public method may read (before writing it in the same call) an attribute that the
constructor does not set -/
def nonCtorReads (cs : List ClassEff) : List (String × String × String) :=
  cs.flatMap fun c => (c.methods.filter (·.isPublic)).flatMap fun m =>
    (m.rbw.filter (fun a => !(c.ctor.contains a))).map fun a => (c.name, m.name, a)

/-! ## Part 5 — `theta` of the exotic options: bump the caller's curves, revalue, restore -/

/-- `value(value_dt, …, curve1, curve2, model)` of every class that inherits this `theta`: it raises unless both
curves are anchored on the value date and the value date is not after the expiry date; otherwise a price `f value_dt`.
(`c1`, `c2`: the `value_dt` attribute of the two curves the caller passed.) -/
def exoticValue (f : Int → Int) (expiry vd c1 c2 : Int) : Option Int :=
  if c1 = vd ∧ c2 = vd ∧ vd ≤ expiry then some (f vd) else none

/-- `theta` AS CODED: `v = value(vd)`; `curve.value_dt = vd + 1` (both); `v_b = value(vd + 1)`;
`curve.value_dt = vd` (both — the ARGUMENT, not what the curve held).  An exception propagates from where it is raised:
after the bump there is no `finally`.  Returns (result, value_dt of curve 1 afterwards, of curve 2 afterwards). -/
def exoticTheta (f : Int → Int) (expiry vd c1 c2 : Int) : Option (Int × Int) × Int × Int :=
  match exoticValue f expiry vd c1 c2 with
  | none => (none, c1, c2)
  | some v =>
    match exoticValue f expiry (vd + 1) (vd + 1) (vd + 1) with
    | none => (none, vd + 1, vd + 1)
    | some vb => (some (v, vb), vd, vd)

/-- the proposed repair (fixes/C18-theta-restore-curves.diff): remember what the curves held, restore in `finally` -/
def exoticThetaFixed (f : Int → Int) (expiry vd c1 c2 : Int) : Option (Int × Int) × Int × Int :=
  match exoticValue f expiry vd c1 c2 with
  | none => (none, c1, c2)
  | some v =>
    match exoticValue f expiry (vd + 1) (vd + 1) (vd + 1) with
    | none => (none, c1, c2)
    | some vb => (some (v, vb), c1, c2)

/-! ## Part 6 — list-valued date arithmetic as loops -/

section Loop
variable {σ α β ε : Type}

/-- `out = []; for a in xs: …; out.append(b)` with loop-carried locals `σ` (Python locals survive from one iteration
to the next); an exception leaves the loop -/
def loopE (body : σ → α → Except ε (σ × β)) : List α → σ → List β → Except ε (List β)
  | [], _, acc => .ok acc
  | a :: as, s, acc =>
    match body s a with
    | .error e => .error e
    | .ok (s', b) => loopE body as s' (acc ++ [b])

/-- element by element with the scalar function: the first failure is the failure of the whole -/
def mapE (f : α → Except ε β) : List α → Except ε (List β)
  | [] => .ok []
  | a :: as =>
    match f a with
    | .error e => .error e
    | .ok b => match mapE f as with
      | .error e => .error e
      | .ok bs => .ok (b :: bs)

/-- what one iteration yields, forgetting the locals it leaves behind -/
def yield (body : σ → α → Except ε (σ × β)) (s : σ) (a : α) : Except ε β :=
  match body s a with
  | .error e => .error e
  | .ok (_, b) => .ok b

end Loop

/-- the `Date(d, m, y)` a scalar-or-list method returns for a scalar argument: `date_list[0]` -/
def first? (r : Except PyErr (List PyDate)) : Except PyErr PyDate :=
  match r with
  | .error e => .error e
  | .ok (x :: _) => .ok x
  | .ok [] => .error .indexError

/-- one iteration of the loop of `Date.add_months`: the locals `d, m, y` are (re)assigned from `self` before they are
used — whatever the previous iteration left in them (`loc`) is dead.  Month arithmetic as in `Model.addMonths`
(closed form of the two `while` loops). -/
def addMonthsBody (self : PyDate) (loc : Int × Int × Int) (k : Int) : Except PyErr ((Int × Int × Int) × PyDate) :=
  let d := self.d
  let t := self.m + k - 1
  let y := self.y + t / 12
  let m := t % 12 + 1
  let md := monthDays y m
  let d := if d > md then md else d
  match mkDate? d m y with
  | .error e => .error e
  | .ok r => .ok ((d, m, y), r)

/-- `self.add_months(mm)` for a list `mm` -/
def addMonthsVec (self : PyDate) (ks : List Int) : Except PyErr (List PyDate) :=
  loopE (addMonthsBody self) ks (self.d, self.m, self.y) []

/-- `self.add_months(k)` for a scalar `k` AS CODED: `mm_vector = [k]`, the same loop, `date_list[0]` -/
def addMonthsScalar (self : PyDate) (k : Int) : Except PyErr PyDate := first? (addMonthsVec self [k])

/-- the seeded defect of round 3 (`d = self.d` hoisted out of the loop): the clipped day of the previous element is
carried into the next one -/
def addMonthsBodyHoisted (self : PyDate) (loc : Int × Int × Int) (k : Int) : Except PyErr ((Int × Int × Int) × PyDate) :=
  let d := loc.1
  let t := self.m + k - 1
  let y := self.y + t / 12
  let m := t % 12 + 1
  let md := monthDays y m
  let d := if d > md then md else d
  match mkDate? d m y with
  | .error e => .error e
  | .ok r => .ok ((d, m, y), r)

def addMonthsVecHoisted (self : PyDate) (ks : List Int) : Except PyErr (List PyDate) :=
  loopE (addMonthsBodyHoisted self) ks (self.d, self.m, self.y) []

/-- `self.add_years(yy)` for a whole number of years: `mmi = int(yy * 12.0)`, `ddi = int((yy * 12.0 - mmi) * …) = 0`,
`self.add_months(mmi).add_days(ddi)` -/
def addYearsInt (self : PyDate) (yy : Int) : Except PyErr PyDate :=
  match addMonthsScalar self (12 * yy) with
  | .error e => .error e
  | .ok r => addDays r 0

/-- one iteration of the loop of `Date.add_years`; the local `new_dt` of the previous iteration is dead -/
def addYearsBody (self : PyDate) (loc : PyDate) (yy : Int) : Except PyErr (PyDate × PyDate) :=
  match addYearsInt self yy with
  | .error e => .error e
  | .ok r => .ok (r, r)

def addYearsVec (self : PyDate) (ys : List Int) : Except PyErr (List PyDate) :=
  loopE (addYearsBody self) ys self []

/-- one iteration of the loop of `Date.add_tenor` on a parsed tenor `(n, unit)`: `new_dt = Date(self.d, self.m, self.y)`
is a FRESH copy per element (`Model.addTenor` starts from it) -/
def addTenorBody (self : PyDate) (loc : PyDate) (t : Int × Int) : Except PyErr (PyDate × PyDate) :=
  match addTenor self t.1 t.2 with
  | .error e => .error e
  | .ok r => .ok (r, r)

/-- `self.add_tenor(tenors)` for a list -/
def addTenorVec (self : PyDate) (ts : List (Int × Int)) : Except PyErr (List PyDate) :=
  loopE (addTenorBody self) ts self []

end FinVerif.C18
