/-
  C19 — hand-written model of the Monte-Carlo path generators and estimators, as PURE functions of
  (parameters, draws).  The seed of the implementation enters only through the list of draws (the
  harness regenerates the very draws the compiled routine consumes and feeds them here).

  Modelled, AS CODED (file : function):
  * models/gbm_process_simulator.py : get_paths_times, get_assets_paths_times, get_assets_paths
  * models/process_simulator.py     : get_gbm_paths (NORMAL, ANTITHETIC), get_vasicek_paths (NORMAL,
        ANTITHETIC), get_cir_paths (EULER, LOGNORMAL, MILSTEIN, KAHLJACKEL), get_heston_paths (EULER, EULERLOG, QUADEXP)
  * models/black_scholes_mc.py      : the five `_value_mc_*` kernels (three arithmetic shapes)
  * models/vasicek_mc.py            : rate_path_mc, zero_price_mc
  * models/cir_montecarlo.py        : rate_path_mc, zero_price_mc (EULER, LOGNORMAL, MILSTEIN, KAHLJACKEL)
  * models/heston.py                : get_paths (EULER, EULERLOG, QUADEXP given norminvcdf(u)) and the value_mc aggregation
  * models/lmm_mc.py                : lmm_simulate_fwds_1f and lmm_simulate_fwds_mf (predictor-corrector step, as coded); lmm_cap_flr_pricer
        (after commit cf96daa: df initialised, arrays of size num_fwds)
  * products/equity/equity_asian_option.py : _value_mc_fast_numba (after commit 760047e: dt computed AFTER the
        averaging-period adjustment of t0 and n)
  * utils/helpers.py                : uniform_to_default_time (with Python's negative-index wrap)

  Written once over a number type `α`; the transcendental functions and the decimal constants come in
  through `Ops α`, so the same definitions run at `Float` (Driver/C19) and are reasoned about at `ℝ`
  (Props/C19*).  Mathlib-free.
-/
import FinVerif.Core.Prelude

namespace FinVerif.Model.C19

structure Ops (α : Type) where
  exp : α → α
  log : α → α
  sqrt : α → α
  max : α → α → α
  two : α        -- 2.0
  four : α       -- 4.0
  half : α       -- 0.5
  quarter : α    -- 0.25
  tiny8 : α      -- 1e-8
  far : α        -- 99999.0
  abs : α → α
  tiny12 : α     -- 1e-12
  min : α → α → α

section
variable {α : Type} [Zero α] [One α] [Add α] [Sub α] [Mul α] [Div α] [Neg α] [NatCast α]

/-- left-to-right accumulation from zero, like `acc = 0.0; for x in l: acc += x`. -/
def sumL (l : List α) : α := l.foldl (· + ·) 0

/-- `np.mean` of a non-empty vector (real-number reading: sum / length). -/
def meanL (l : List α) : α := sumL l / (l.length : α)

/-- all states visited by `s = f s x` over the inputs, initial state first (a path). -/
def scan {σ β : Type} (f : σ → β → σ) : σ → List β → List σ
  | s, [] => [s]
  | s, x :: xs => s :: scan f (f s x) xs

/-- the last state of the same recursion. -/
def runL {σ β : Type} (f : σ → β → σ) (s : σ) (xs : List β) : σ := xs.foldl f s

/-! ## Geometric Brownian motion — exact step -/

/-- `m = exp((mu - sigma*sigma/2.0) * dt)` -/
def gbmM (o : Ops α) (mu sigma dt : α) : α := o.exp ((mu - sigma * sigma / o.two) * dt)

/-- `vsqrt_dt = sigma * sqrt(dt)` -/
def gbmVs (o : Ops α) (sigma dt : α) : α := sigma * o.sqrt dt

/-- `s_all[ip, it] = s_all[ip, it-1] * m * w`, `w = exp(g * vsqrt_dt)` -/
def gbmUp (o : Ops α) (m vs s g : α) : α := s * m * o.exp (g * vs)

/-- the antithetic partner `s_all[ip+1, it] = s_all[ip+1, it-1] * m / w` -/
def gbmDn (o : Ops α) (m vs s g : α) : α := s * m / o.exp (g * vs)

/-- one path of `get_paths_times` / `get_gbm_paths` from its own draws (initial price first). -/
def gbmPathUp (o : Ops α) (mu sigma dt s0 : α) (gs : List α) : List α :=
  scan (gbmUp o (gbmM o mu sigma dt) (gbmVs o sigma dt)) s0 gs

def gbmPathDn (o : Ops α) (mu sigma dt s0 : α) (gs : List α) : List α :=
  scan (gbmDn o (gbmM o mu sigma dt) (gbmVs o sigma dt)) s0 gs

/-! ## Cholesky-correlated multi-asset draws -/

/-- `g_corr[ia] = 0.0; for ib: g_corr[ia] += g[ib] * c[ia][ib]` — row `ia` of `c` against the draw vector. -/
def correlate (c : List (List α)) (g : List α) : List α :=
  c.map fun row => sumL (List.zipWith (fun gi ci => gi * ci) g row)

/-- one step of all assets of one path pair: (`s*v*w`, `s*v/w`) per asset, from the correlated draws. -/
def assetsStep (o : Ops α) (ms vss : List α) (c : List (List α)) (s : List α × List α) (g : List α) :
    List α × List α :=
  let z := correlate c g
  let up := List.zipWith (fun (p : α × α) (q : α × α) => gbmUp o p.1 p.2 q.1 q.2) (ms.zip vss) (s.1.zip z)
  let dn := List.zipWith (fun (p : α × α) (q : α × α) => gbmDn o p.1 p.2 q.1 q.2) (ms.zip vss) (s.2.zip z)
  (up, dn)

/-- `get_assets_paths_times` for one path pair: per time the (up, down) asset vectors. `gs` are the draw
vectors actually consumed (time indices 1..n; the routine also draws an unused vector for index 0). -/
def assetsPaths (o : Ops α) (mus sigmas : List α) (dt : α) (c : List (List α)) (s0 : List α)
    (gs : List (List α)) : List (List α × List α) :=
  let ms := List.zipWith (fun mu sg => gbmM o mu sg dt) mus sigmas
  let vss := sigmas.map fun sg => gbmVs o sg dt
  scan (assetsStep o ms vss c) (s0, s0) gs

/-! ## `black_scholes_mc` — antithetic terminal sampling and payoff aggregation -/

/-- `max(s - K, 0.0)` / `max(K - s, 0.0)` -/
def payoff (o : Ops α) (isCall : Bool) (k s : α) : α :=
  if isCall then o.max (s - k) 0 else o.max (k - s) 0

/-- `ss = s * exp((mu - v2/2.0) * t)` with `mu = r - q`, `v2 = v**2` -/
def bsSS (o : Ops α) (s t r q v : α) : α := s * o.exp ((r - q - v * v / o.two) * t)

/-- `_value_mc_numba_only` / `_value_mc_nonumba_nonumpy`: one accumulator, `s_1 = ss*exp(+g*v√t)`,
`s_2 = ss*exp(-g*v√t)`; `v = payoff * exp(-r*t) / num_paths / 2.0`. -/
def bsmcLoop (o : Ops α) (isCall : Bool) (s t k r q v : α) (gs : List α) : α :=
  let ss := bsSS o s t r q v
  let vst := v * o.sqrt t
  let acc := gs.foldl (fun acc g =>
    acc + payoff o isCall k (ss * o.exp (g * vst)) + payoff o isCall k (ss * o.exp (-g * vst))) 0
  acc * o.exp (-r * t) / (gs.length : α) / o.two

/-- `_value_mc_numba_parallel`: two accumulators, `(payoff1 + payoff2)/2.0/num_paths * exp(-r*t)`. -/
def bsmcTwoAcc (o : Ops α) (isCall : Bool) (s t k r q v : α) (gs : List α) : α :=
  let ss := bsSS o s t r q v
  let vst := v * o.sqrt t
  let p1 := sumL (gs.map fun g => payoff o isCall k (ss * o.exp (g * vst)))
  let p2 := sumL (gs.map fun g => payoff o isCall k (ss * o.exp (-g * vst)))
  (p1 + p2) / o.two / (gs.length : α) * o.exp (-r * t)

/-- `_value_mc_numpy_only` / `_value_mc_numpy_numba`: `m = exp(g*v√t)`, `s_1 = ss*m`, `s_2 = ss/m`,
`(mean(payoff_1) + mean(payoff_2)) * exp(-r*t) / 2.0`. -/
def bsmcVec (o : Ops α) (isCall : Bool) (s t k r q v : α) (gs : List α) : α :=
  let ss := bsSS o s t r q v
  let vst := v * o.sqrt t
  let p1 := meanL (gs.map fun g => payoff o isCall k (ss * o.exp (g * vst)))
  let p2 := meanL (gs.map fun g => payoff o isCall k (ss / o.exp (g * vst)))
  (p1 + p2) * o.exp (-r * t) / o.two

/-- generic antithetic estimator of a terminal payoff `f`: discounted mean of the pair averages. -/
def antitheticEstimate (o : Ops α) (f : α → α) (df : α) (gs : List α) : α :=
  df * meanL (gs.map fun g => (f g + f (-g)) / o.two)

/-! ## Vasicek -/

/-- `r += a*(b - r)*dt + z*sigma*sqrt(dt)` -/
def vasStep (a b dt ssd r z : α) : α := r + a * (b - r) * dt + z * ssd

/-- the antithetic partner of `get_vasicek_paths`: `r2 + kappa*(theta-r2)*dt - z*sigma_sqrt_dt` -/
def vasStepAnti (a b dt ssd r z : α) : α := r + a * (b - r) * dt - z * ssd

def vasPath (o : Ops α) (a b sigma dt r0 : α) (zs : List α) : List α :=
  scan (vasStep a b dt (sigma * o.sqrt dt)) r0 zs

def vasPathAnti (o : Ops α) (a b sigma dt r0 : α) (zs : List α) : List α :=
  scan (vasStepAnti a b dt (sigma * o.sqrt dt)) r0 zs

/-- one path of `vasicek_mc.zero_price_mc`: `(r, rsum)` with `r += …; rsum += r*dt` -/
def vasAccum (a b dt ssd : α) (st : α × α) (z : α) : α × α :=
  let r := vasStep a b dt ssd st.1 z
  (r, st.2 + r * dt)

/-- `zero_price_mc`: `zcb += exp(-rsum)` over the paths, `/ num_paths` -/
def vasZeroPriceMC (o : Ops α) (r0 a b sigma dt : α) (paths : List (List α)) : α :=
  let ssd := sigma * o.sqrt dt
  sumL (paths.map fun zs => o.exp (-(runL (vasAccum a b dt ssd) (r0, 0) zs).2)) / (paths.length : α)

/-! ## CIR — `process_simulator.get_cir_paths` -/

/-- EULER: `r + kappa*(theta - rplus)*dt + sigma_sqrt_dt*z*sqrt(rplus)`, `rplus = max(r, 0.0)` -/
def cirEulerPS (o : Ops α) (kappa theta dt ssd r z : α) : α :=
  let rplus := o.max r 0
  r + kappa * (theta - rplus) * dt + ssd * z * o.sqrt rplus

/-- LOGNORMAL (moment-matched): `mean*exp(-0.5*sig*sig + sig*z)` -/
def cirLognormal (o : Ops α) (kappa theta sigma dt r z : α) : α :=
  let x := o.exp (-kappa * dt)
  let y := 1 - x
  let mean := x * r + theta * y
  let var := sigma * sigma * y * (x * r + o.half * theta * y) / kappa
  let sig := o.sqrt (o.log (1 + var / (mean * mean)))
  mean * o.exp (-o.half * sig * sig + sig * z)

/-- MILSTEIN: Euler with `kappa*(theta - r)` plus `sigma*sigma*dt/4.0 * (z**2 - 1.0)` -/
def cirMilstein (o : Ops α) (kappa theta sigma dt r z : α) : α :=
  let r1 := r + kappa * (theta - r) * dt + z * (sigma * o.sqrt dt) * o.sqrt (o.max r 0)
  r1 + sigma * sigma * dt / o.four * (z * z - 1)

/-- KAHLJACKEL with the floor `fl` under the square root (`0.0` in process_simulator, `1e-8` in
cir_montecarlo) -/
def cirKJ (o : Ops α) (fl kappa theta sigma dt r z : α) : α :=
  let bhat := theta - sigma * sigma / o.four / kappa
  let beta := z / o.sqrt dt
  let rootr := o.sqrt (o.max r fl)
  let c := 1 + (sigma * beta - o.two * kappa * rootr) * dt / o.four / rootr
  r + (kappa * (bhat - r) + sigma * beta * rootr) * c * dt

/-! ## CIR — `cir_montecarlo.rate_path_mc` / `zero_price_mc` -/

/-- EULER there: `r + a*(b - r)*dt + z*sigmasqrt_dt*sqrt(max(r, 0.0))` (drift NOT truncated) -/
def cirEulerMC (o : Ops α) (a b dt ssd r z : α) : α :=
  r + a * (b - r) * dt + z * ssd * o.sqrt (o.max r 0)

/-- scheme code as in `CIRNumericalScheme` (1 EULER, 2 LOGNORMAL, 3 MILSTEIN, 4 KAHLJACKEL) -/
def cirStepMC (o : Ops α) (scheme : Nat) (a b sigma dt r z : α) : α :=
  match scheme with
  | 1 => cirEulerMC o a b dt (sigma * o.sqrt dt) r z
  | 2 => cirLognormal o a b sigma dt r z
  | 3 => cirMilstein o a b sigma dt r z
  | _ => cirKJ o o.tiny8 a b sigma dt r z

def cirStepPS (o : Ops α) (scheme : Nat) (kappa theta sigma dt r z : α) : α :=
  match scheme with
  | 1 => cirEulerPS o kappa theta dt (sigma * o.sqrt dt) r z
  | 2 => cirLognormal o kappa theta sigma dt r z
  | 3 => cirMilstein o kappa theta sigma dt r z
  | _ => cirKJ o 0 kappa theta sigma dt r z

/-- one path of `zero_price_mc`: `rsum = r0; …; rsum += (r + r_prev)` -/
def cirAccum (step : α → α → α) (st : α × α) (z : α) : α × α :=
  let r := step st.1 z
  (r, st.2 + (r + st.1))

/-- `zcb += exp(-0.5*rsum*dt)` over the paths, `/ num_paths` -/
def cirZeroPriceMC (o : Ops α) (scheme : Nat) (r0 a b sigma dt : α) (paths : List (List α)) : α :=
  sumL (paths.map fun zs =>
    o.exp (-o.half * (runL (cirAccum (cirStepMC o scheme a b sigma dt)) (r0, r0) zs).2 * dt))
    / (paths.length : α)

/-! ## Heston — `heston.get_paths` and `process_simulator.get_heston_paths` (same arithmetic) -/

/-- EULER: state `(s, v)`, draws `(n1, n2)` standard normal; `z1 = n1*sdt`, `z2 = n2*sdt`. -/
def hestonEuler (o : Ops α) (mu kappa theta sigma rho dt : α) (st : α × α) (n : α × α) : α × α :=
  let sdt := o.sqrt dt
  let rhohat := o.sqrt (1 - rho * rho)
  let zV := n.1 * sdt
  let zS := rho * zV + rhohat * (n.2 * sdt)
  let vplus := o.max st.2 0
  let rtv := o.sqrt vplus
  let v' := st.2 + (kappa * (theta - vplus) * dt + sigma * rtv * zV + o.quarter * (sigma * sigma) * (zV * zV - dt))
  let s' := st.1 + (mu * st.1 * dt + rtv * st.1 * zS + o.half * st.1 * vplus * (zV * zV - dt))
  (s', v')

/-- EULERLOG: state `(x, v)` with `x = log s`. -/
def hestonEulerLog (o : Ops α) (mu kappa theta sigma rho dt : α) (st : α × α) (n : α × α) : α × α :=
  let sdt := o.sqrt dt
  let rhohat := o.sqrt (1 - rho * rho)
  let zV := n.1 * sdt
  let zS := rho * zV + rhohat * n.2 * sdt
  let vplus := o.max st.2 0
  let rtv := o.sqrt vplus
  let x' := st.1 + ((mu - o.half * vplus) * dt + rtv * zS)
  let v' := st.2 + (kappa * (theta - vplus) * dt + sigma * rtv * zV + sigma * sigma * (zV * zV - dt) / o.four)
  (x', v')

/-- asset path (initial price first) for scheme 1 (EULER) or 2 (EULERLOG). -/
def hestonPath (o : Ops α) (scheme : Nat) (s0 v0 mu kappa theta sigma rho dt : α) (ns : List (α × α)) : List α :=
  match scheme with
  | 1 => (scan (hestonEuler o mu kappa theta sigma rho dt) (s0, v0) ns).map (·.1)
  | _ => s0 :: ((scan (hestonEulerLog o mu kappa theta sigma rho dt) (o.log s0, v0) ns).drop 1).map (fun st => o.exp st.1)

/-- `Heston.value_mc`: `mean(payoff(S_T)) * exp(-r*tau)` over the terminal values. -/
def terminalEstimate (o : Ops α) (isCall : Bool) (k df : α) (terminals : List α) : α :=
  meanL (terminals.map (payoff o isCall k)) * df

/-! ## LMM one factor — `lmm_simulate_fwds_1f`, one time step `j` of one path -/

/-- `muA = Σ_{i=j+1..k} zkj*fi*ti*zij/(1+fi*ti)` accumulated left to right; `terms` = the
`(fi, ti, zij)` of `i = j+1..k`. -/
def lmmDrift (zkj : α) (terms : List (α × α × α)) : α :=
  terms.foldl (fun acc x => acc + zkj * x.1 * x.2.1 * x.2.2 / (1 + x.1 * x.2.1)) 0

/-- new value of forward `k` at step `j`: `cur` are the forwards `j..` at time `j` (index 0 ↔ forward j),
`taus`/`gammas` aligned the same way (`taus[j+m]`, `gammas[m]`), `m = k - j`, `w` the draw.
AS CODED the corrector sum reuses `fwdB[k]` for every `i` (`fi = fwdB[k]`). -/
def lmmStep1F (o : Ops α) (dtj w : α) (cur taus gammas : List α) (m : Nat) : α :=
  let zkj := gammas.getD m 0
  let fk := cur.getD m 0
  let idx := (List.range m).map (· + 1)
  let muA := lmmDrift zkj (idx.map fun i => (cur.getD i 0, taus.getD i 0, gammas.getD i 0))
  let x := o.exp (muA * dtj - o.half * (zkj * zkj) * dtj + zkj * w * o.sqrt dtj)
  let fB := fk * x
  let muB := lmmDrift zkj (idx.map fun i => (fB, taus.getD i 0, gammas.getD i 0))
  let muC := o.half * (muA + muB)
  fk * o.exp (muC * dtj - o.half * (zkj * zkj) * dtj + zkj * w * o.sqrt dtj)

/-- all forwards `j..n-1` after step `j` (index 0 ↔ forward j; entry 0 is the forward that has just reset
and is not read again by the routine). -/
def lmmStepAll (o : Ops α) (dtj w : α) (cur taus gammas : List α) : List α :=
  (List.range cur.length).map (lmmStep1F o dtj w cur taus gammas)

/-- one path of `lmm_simulate_fwds_1f`: list over time `j = 0..n-1` of the forwards `j..n-1`
(`fwd[path, j, j..]`).  `ws` are the draws `g_matrix[path, 0..n-2]`. -/
def lmmPath1F (o : Ops α) (gammas : List α) : List α → List α → List α → List (List α)
  | cur, _, [] => [cur]
  | cur, taus, w :: ws =>
    let nxt := lmmStepAll o (taus.getD 0 0) w cur taus gammas
    cur :: lmmPath1F o gammas (nxt.drop 1) (taus.drop 1) ws

/-! ## LMM cap/floor pricer — `lmm_cap_flr_pricer` (as repaired: `numeraire[0] = 1/df[0]`, `df[0] = 1/(1+fwd0[0]·taus[0])`) -/

/-- cap/floorlet cash flows of one path: `max(libor - K, 0)*tau` / `max(K - libor, 0)*tau` on the diagonal
`libor_j = fwds[path, j, j]`. -/
def capFlrLets (o : Ops α) (isCap : Bool) (k : α) (libors taus : List α) : List α :=
  List.zipWith (fun l tau => (if isCap then o.max (l - k) 0 else o.max (k - l) 0) * tau) libors taus

/-- the numeraire along one path: `numeraire[0] = 1/df[0]`, `numeraire[j] = numeraire[j-1]*(1 + libor_j*taus[j])`
(`rest` = the `(libor_j, taus[j])` for `j ≥ 1`). -/
def capFlrNumeraire (n0 : α) : List (α × α) → List α
  | [] => [n0]
  | (l, tau) :: rest => n0 :: capFlrNumeraire (n0 * (1 + l * tau)) rest

/-- discounted cap/floorlets of one path: `capFlrLets[i] / (abs(numeraire[i]) + 1e-12)` -/
def capFlrPath (o : Ops α) (isCap : Bool) (k fwd00 : α) (libors taus : List α) : List α :=
  let df0 := 1 / (1 + fwd00 * taus.headD 0)
  let nums := capFlrNumeraire (1 / df0) ((libors.zip taus).drop 1)
  List.zipWith (fun c n => c / (o.abs n + o.tiny12)) (capFlrLets o isCap k libors taus) nums

/-! ## Asian option — `_value_mc_fast_numba` (as repaired) -/

/-- the averaging-period adjustment and THEN the observation spacing: returns `(k, multiplier, t0, dt)` for the
number of observations `nAdj` actually simulated (`n` outside the period, `int(n*t/tau+0.5)+1` inside — the
truncation is taken by the caller).  `accrued` is only read inside the period. -/
def asianSchedule [LT α] [DecidableRel (α := α) (· < ·)] (t0 t tau k accrued : α) (nAdj : Nat) : α × α × α × α :=
  if t0 < 0 then ((k * tau + accrued * t0) / t, t / tau, 0, (t - 0) / (nAdj : α))
  else (k, 1, t0, (t - t0) / (nAdj : α))

/-- the pair of arithmetic averages of one antithetic path pair: `g0` moves the price to the start of averaging,
`gs` are the draws of the `n` observations; `s_arithmetic += s/n`. -/
def asianFastPair (o : Ops α) (mu v t0 dt s : α) (g0 : α) (gs : List α) : α × α :=
  let v2 := v * v
  let n : α := (gs.length : α)
  let s1 := s * o.exp ((mu - v2 / o.two) * t0 + g0 * o.sqrt t0 * v)
  let s2 := s * o.exp ((mu - v2 / o.two) * t0 - g0 * o.sqrt t0 * v)
  let st := gs.foldl (fun (st : (α × α) × (α × α)) g =>
    let a := st.1.1 * o.exp ((mu - v2 / o.two) * dt + g * o.sqrt dt * v)
    let b := st.1.2 * o.exp ((mu - v2 / o.two) * dt - g * o.sqrt dt * v)
    ((a, b), (st.2.1 + a / n, st.2.2 + b / n))) ((s1, s2), (0, 0))
  st.2

/-- `_value_mc_fast_numba`: `multiplier * (mean(payoff_1) + mean(payoff_2)) * exp(-r*t) / 2.0`; `paths` = per path
`(g0, observation draws)`. -/
def asianFastMC (o : Ops α) (isCall : Bool) (mu v r t t0 dt k mult s : α) (paths : List (α × List α)) : α :=
  let avgs := paths.map fun p => asianFastPair o mu v t0 dt s p.1 p.2
  let p1 := meanL (avgs.map fun a => payoff o isCall k a.1)
  let p2 := meanL (avgs.map fun a => payoff o isCall k a.2)
  mult * (p1 + p2) * o.exp (-r * t) / o.two


/-! ## Lookback payoffs — `EquityFixedLookbackOption.value_mc`, `EquityFloatLookbackOption.value_mc` (payoff functional on
one simulated path `S_0..S_n`, `hist` = the running extreme handed in as `stock_min_max`) -/

/-- `np.max(s_all, axis=1)` of one path (first point as the start value) -/
def pathMax (o : Ops α) : List α → α
  | [] => 0
  | x :: xs => xs.foldl o.max x

def pathMin (o : Ops α) : List α → α
  | [] => 0
  | x :: xs => xs.foldl o.min x

/-- fixed strike, AS CODED: call `max(max(S_max_path - k, 0), hist - k)`, put `max(max(k - S_min_path, 0), k - hist)` -/
def fixedLookbackPayoff (o : Ops α) (isCall : Bool) (k hist : α) (path : List α) : α :=
  if isCall then o.max (o.max (pathMax o path - k) 0) (hist - k)
  else o.max (o.max (k - pathMin o path) 0) (k - hist)

/-- floating strike, AS CODED: call `max(S_T - min(S_min_path, hist), 0)`, put `max(max(S_max_path, hist) - S_T, 0)` -/
def floatLookbackPayoff (o : Ops α) (isCall : Bool) (hist : α) (path : List α) : α :=
  let sT := path.getLastD 0
  if isCall then o.max (sT - o.min (pathMin o path) hist) 0
  else o.max (o.max (pathMax o path) hist - sT) 0

/-- `payoff.mean() * df` over the simulated paths -/
def lookbackMC (payoff : List α → α) (df : α) (paths : List (List α)) : α :=
  meanL (paths.map payoff) * df

/-! ## CIR exact transition — `cir_montecarlo.draw`, branch `d > 1`: `r = c*(x + (z + sqrt(ll))**2)` with
`z` standard normal and `x` chi-square with `d - 1` degrees of freedom -/

/-- `(d, ll, c)` of `draw(rt, a, b, sigma, dt)` -/
def cirExactCoeffs (o : Ops α) (rt a b sigma dt : α) : α × α × α :=
  let sigma2 := sigma * sigma
  let e := o.exp (-a * dt)
  (o.four * a * b / sigma2, o.four * a * e / sigma2 / (1 - e) * rt, sigma2 * (1 - e) / o.four / a)

/-- the value returned in the `d > 1` branch from its two draws -/
def cirExactDraw (o : Ops α) (c ll z x : α) : α := c * (x + (z + o.sqrt ll) * (z + o.sqrt ll))


/-! ## LMM multi-factor — `lmm_simulate_fwds_mf`, one time step `j` of one path (predictor–corrector, as coded) -/

/-- `zz = Σ_q lambdas[q][i-j] * lambdas[q][k-j]` -/
def lmmZZ (lams : List (List α)) (i m : Nat) : α := sumL (lams.map fun l => l.getD i 0 * l.getD m 0)

/-- `mu += fi * ti * zz / (1 + fi * ti)` over `i = j+1..k`; `terms` = the `(fi, ti, zz_i)` -/
def lmmDriftMF (terms : List (α × α × α)) : α :=
  terms.foldl (fun acc x => acc + x.1 * x.2.1 * x.2.2 / (1 + x.1 * x.2.1)) 0

/-- new value of forward `k = j+m`: `cur`, `taus` aligned at `j` (index 0 ↔ forward j; the accrual of forward `i` is
`taus[i]`, in BOTH the predictor and the corrector sum), `lams[q]` indexed by the offset `i-j`, `ws` the factor draws. -/
def lmmStepMF (o : Ops α) (dtj : α) (ws : List α) (cur taus : List α) (lams : List (List α)) (m : Nat) : α :=
  let fk := cur.getD m 0
  let idx := (List.range m).map (· + 1)
  let muA := lmmDriftMF (idx.map fun i => (cur.getD i 0, taus.getD i 0, lmmZZ lams i m))
  let ito := sumL (lams.map fun l => l.getD m 0 * l.getD m 0)
  let rnd := sumL (List.zipWith (fun (l : List α) w => l.getD m 0 * w) lams ws) * o.sqrt dtj
  let fB := fk * o.exp (muA * dtj - o.half * ito * dtj + rnd)
  let muB := lmmDriftMF (idx.map fun i => (fB, taus.getD i 0, lmmZZ lams i m))
  let muC := o.half * (muA + muB)
  fk * o.exp (muC * dtj - o.half * ito * dtj + rnd)

/-- one path: list over time `j` of the forwards `j..n-1`; `wss` = per step the factor draws `g_matrix[path, j, :]` -/
def lmmPathMF (o : Ops α) (lams : List (List α)) : List α → List α → List (List α) → List (List α)
  | cur, _, [] => [cur]
  | cur, taus, ws :: wss =>
    let nxt := (List.range cur.length).map (lmmStepMF o (taus.getD 0 0) ws cur taus lams)
    cur :: lmmPathMF o lams (nxt.drop 1) (taus.drop 1) wss

end

/-! ## Default time from a uniform — `uniform_to_default_time` -/

section dt
variable {α : Type} [Zero α] [One α] [Add α] [Sub α] [Mul α] [Div α] [Neg α] [LT α] [LE α]
  [DecidableRel (α := α) (· < ·)] [DecidableRel (α := α) (· ≤ ·)]

/-- `for i in range(1, n): if u <= v[i-1] and u > v[i]: index = i; break` (0 when no bracket is found);
`vs` is the list from position `i-1` on. -/
def findBracket (u : α) : Nat → List α → Nat
  | i, a :: b :: rest => if u ≤ a ∧ b < u then i else findBracket u (i + 1) (b :: rest)
  | _, _ => 0

/-- `(t1*log(q2/u) + t2*log(u/q1)) / log(q2/q1)` -/
def invSurvival (o : Ops α) (t1 q1 t2 q2 u : α) : α :=
  (t1 * o.log (q2 / u) + t2 * o.log (u / q1)) / o.log (q2 / q1)

/-- `uniform_to_default_time(u, t, v)`.  With `index = 0` the reads `t[index-1]`, `v[index-1]` wrap to the
LAST knot (Python negative index) — as coded; the branch `index == num_points + 1` is unreachable. -/
def uniformToDefaultTime (o : Ops α) (u : α) (t v : List α) : α :=
  if u ≤ 0 ∧ 0 ≤ u then o.far            -- `u == 0.0` (equality spelled with the order, decidable at both types)
  else if u ≤ 1 ∧ 1 ≤ u then 0         -- `u == 1.0`
  else
    let index := findBracket u 1 v
    let lo : Int := (index : Int) - 1
    invSurvival o (pyIdxD t lo 0) (pyIdxD v lo 0) (t.getD index 0) (v.getD index 0) u


/-! ## Heston QUADEXP (Andersen 2006) — `heston.get_paths` / `get_heston_paths`, scheme 3, one step as coded.
Draws of one step: `n1`, `n2` standard normal, `u` uniform, and `w = norminvcdf(u)` (the inverse normal cdf is a
parameter supplied by the caller: the quadratic branch uses it, the asset draw uses the ORIGINAL `n1`). -/

structure QEDraw (α : Type) where
  n1 : α
  n2 : α
  u : α
  w : α

/-! ### The pieces of the QUADEXP step by name -/

/-- `m = theta + (vn - theta)*Q`, `psi = (c1*vn + c2)/m**2` with `c1`, `c2` as coded -/
def qeMean (theta q vn : α) : α := theta + (vn - theta) * q

def qePsi (o : Ops α) (kappa theta sigma q vn : α) : α :=
  (sigma * sigma * q * (1 - q) / kappa * vn + theta * (sigma * sigma) * ((1 - q) * (1 - q)) / o.two / kappa)
    / (qeMean theta q vn * qeMean theta q vn)

/-- `A = K2 + 0.5*K4` -/
def qeAconst (o : Ops α) (kappa sigma rho dt : α) : α :=
  (o.half * dt * (kappa * rho / sigma - o.half) + rho / sigma) + o.half * (o.half * dt * (1 - rho * rho))

/-- `b2 = 2/psi - 1 + sqrt((2/psi)*(2/psi - 1))` -/
def qeB2 (o : Ops α) (psi : α) : α := o.two / psi - 1 + o.sqrt ((o.two / psi) * (o.two / psi - 1))

/-- `vnp = a*(b + zV)**2`, `a = m/(1 + b2)`, `b = sqrt(b2)` -/
def qeQuadDraw (o : Ops α) (m b2 w : α) : α := m / (1 + b2) * ((o.sqrt b2 + w) * (o.sqrt b2 + w))

/-- `M = exp(A*b2*a/d)/sqrt(d)`, `d = 1 - 2*A*a` -/
def qeQuadM (o : Ops α) (a' m b2 : α) : α :=
  o.exp ((a' * b2 * (m / (1 + b2))) / (1 - o.two * a' * (m / (1 + b2)))) / o.sqrt (1 - o.two * a' * (m / (1 + b2)))

/-- `p = (psi - 1)/(psi + 1)`, `beta = (1 - p)/m` -/
def qeP (psi : α) : α := (psi - 1) / (psi + 1)
def qeBeta (p m : α) : α := (1 - p) / m

/-- `vnp = 0 if u <= p else log((1-p)/(1-u))/beta` -/
def qeExpDraw (o : Ops α) (p beta u : α) : α := if u ≤ p then 0 else o.log ((1 - p) / (1 - u)) / beta

/-- `M = p + beta*(1-p)/(beta - A)` -/
def qeExpM (p beta a' : α) : α := p + beta * (1 - p) / (beta - a')

/-- `mu*dt + K0 + (K1*vn + K2*vnp) + sqrt(K3*vn + K4*vnp)*zS`, `K0 = -log(M) - (K1 + 0.5*K3)*vn` -/
def qeLogIncr (o : Ops α) (mu kappa sigma rho dt vn vnp mM zS : α) : α :=
  let k1 := o.half * dt * (kappa * rho / sigma - o.half) - rho / sigma
  let k2 := o.half * dt * (kappa * rho / sigma - o.half) + rho / sigma
  let k3 := o.half * dt * (1 - rho * rho)
  let k4 := o.half * dt * (1 - rho * rho)
  mu * dt + (-(o.log mM) - (k1 + o.half * k3) * vn) + (k1 * vn + k2 * vnp) + o.sqrt (k3 * vn + k4 * vnp) * zS

/-- state `(x, vn)`, `x = log s`: one step as coded, written with the pieces above (`psic = 1.5` is spelled `2.0 - 0.5`,
the same double). -/
def hestonQE (o : Ops α) (mu kappa theta sigma rho dt : α) (st : α × α) (d : QEDraw α) : α × α :=
  let q := o.exp (-kappa * dt)
  let a' := qeAconst o kappa sigma rho dt
  let zS := rho * d.n1 + o.sqrt (1 - rho * rho) * d.n2
  let m := qeMean theta q st.2
  let psi := qePsi o kappa theta sigma q st.2
  if psi ≤ o.two - o.half then
    let b2 := qeB2 o psi
    let vnp := qeQuadDraw o m b2 d.w
    (st.1 + qeLogIncr o mu kappa sigma rho dt st.2 vnp (qeQuadM o a' m b2) zS, vnp)
  else
    let p := qeP psi
    let vnp := qeExpDraw o p (qeBeta p m) d.u
    (st.1 + qeLogIncr o mu kappa sigma rho dt st.2 vnp (qeExpM p (qeBeta p m) a') zS, vnp)

/-- asset path of scheme QUADEXP (initial price first) -/
def hestonPathQE (o : Ops α) (s0 v0 mu kappa theta sigma rho dt : α) (ds : List (QEDraw α)) : List α :=
  s0 :: ((scan (hestonQE o mu kappa theta sigma rho dt) (o.log s0, v0) ds).drop 1).map (fun st => o.exp st.1)

end dt

/-! ## Reproducibility: a routine that seeds the generator first -/

/-- an abstract random generator: how a seed initialises the hidden state, how one draw advances it -/
structure Gen (σ α : Type) where
  seed : Int → σ
  next : σ → α × σ

/-- `n` successive draws from state `s`, and the state left behind -/
def Gen.draws {σ α : Type} (g : Gen σ α) : Nat → σ → List α × σ
  | 0, s => ([], s)
  | n + 1, s =>
    let (x, s1) := g.next s
    let (xs, s2) := g.draws n s1
    (x :: xs, s2)

/-- a Monte-Carlo routine as the library writes them: `np.random.seed(seed)` first, then `n` draws, then a
pure function of (parameters, draws).  Takes the global generator state it finds and returns the one it
leaves. -/
def seededRoutine {σ α π ρ : Type} (g : Gen σ α) (n : π → Nat) (f : π → List α → ρ) (p : π) (seed : Int)
    (_found : σ) : ρ × σ :=
  let d := g.draws (n p) (g.seed seed)
  (f p d.1, d.2)

/-- the same routine with the `np.random.seed` call missing: it continues from the state it finds -/
def unseededRoutine {σ α π ρ : Type} (g : Gen σ α) (n : π → Nat) (f : π → List α → ρ) (p : π) (_seed : Int)
    (found : σ) : ρ × σ :=
  let d := g.draws (n p) found
  (f p d.1, d.2)

end FinVerif.Model.C19
