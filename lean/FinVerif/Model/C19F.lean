/- C19 — the `Float` instantiation of the Monte-Carlo model (IEEE double + the C library's exp/log/sqrt). -/
import FinVerif.Model.C19

namespace FinVerif.Model.C19F
open FinVerif.Model.C19

instance : NatCast Float := ⟨Float.ofNat⟩

def opsF : Ops Float := ⟨Float.exp, Float.log, Float.sqrt, fmax, 2.0, 4.0, 0.5, 0.25, 1e-8, 99999.0⟩

/-- split `xs` into consecutive blocks of length `n` (as many as fit) -/
def chunks (n : Nat) (xs : List Float) : List (List Float) :=
  if n = 0 then [] else
  let rec go (fuel : Nat) (xs : List Float) (acc : List (List Float)) : List (List Float) :=
    match fuel with
    | 0 => acc.reverse
    | fuel + 1 => if xs.length < n then acc.reverse else go fuel (xs.drop n) (xs.take n :: acc)
  go (xs.length / n + 1) xs []

def pairs : List Float → List (Float × Float)
  | a :: b :: rest => (a, b) :: pairs rest
  | _ => []

end FinVerif.Model.C19F
