/- C19 — the `Float` instantiation of the Monte-Carlo model (IEEE double + the C library's exp/log/sqrt). -/
import FinVerif.Model.C19

namespace FinVerif.Model.C19F
open FinVerif.Model.C19

instance : NatCast Float := ⟨Float.ofNat⟩

def opsF : Ops Float := ⟨Float.exp, Float.log, Float.sqrt, fmax, 2.0, 4.0, 0.5, 0.25, 1e-8, 99999.0, Float.abs, 1e-12, fmin⟩

/-- split `xs` into consecutive blocks of length `n` (as many as fit) -/
def chunks (n : Nat) (xs : List Float) : List (List Float) :=
  if n = 0 then [] else
  let rec go (fuel : Nat) (xs : List Float) (acc : List (List Float)) : List (List Float) :=
    match fuel with
    | 0 => acc.reverse
    | fuel + 1 => if xs.length < n then acc.reverse else go fuel (xs.drop n) (xs.take n :: acc)
  go (xs.length / n + 1) xs []

/-- Python `int(x)` for a non-negative double. -/
def truncNat (x : Float) : Nat := x.toUInt64.toNat

/-- number of observations `_value_mc_fast_numba` simulates: `n`, or `int(n*t/tau+0.5)+1` inside the period -/
def asianNAdj (t0 t tau : Float) (n : Nat) : Nat :=
  if t0 < 0 then truncNat (Float.ofNat n * t / tau + 0.5) + 1 else n

def quads : List Float → List (QEDraw Float)
  | a :: b :: c :: d :: rest => ⟨a, b, c, d⟩ :: quads rest
  | _ => []

def pairs : List Float → List (Float × Float)
  | a :: b :: rest => (a, b) :: pairs rest
  | _ => []

end FinVerif.Model.C19F
