/-
  C20 — hand-written executable models of the looping numerical kernels
  (`financepy/utils/solver_1d.py`: bisection, newton, newton_secant;
   `financepy/utils/math.py`: solve_tridiagonal_matrix, band_matrix_multiplication, npv,
   accrued_interpolator, pair_gcd, cholesky).

  Every definition is written ONCE over a type `α` carrying only the standard operation classes, so
  the same text is executed at `Float` by the driver (correspondence with the implementation) and is
  the subject of the theorems at `ℝ` (Props/C20*.lean).  Mathlib-free.  Statement order and the
  association of every arithmetic expression follow the Python source.
-/
import FinVerif.Core.Prelude

namespace FinVerif.Model.C20
open FinVerif

section generic
variable {α : Type} [Add α] [Sub α] [Mul α] [Div α] [Neg α] [LT α] [LE α] [BEq α]
  [DecidableLT α] [DecidableLE α] [OfNat α 0] [OfNat α 1] [OfNat α 2]

/-- `np.abs` / `abs` on a scalar. -/
def absG (x : α) : α := if x < 0 then -x else x

/-! ### solver_1d.bisection -/

/-- One pass of the `for` body of `bisection`: the new bracket.  (`f1` is never updated by the code.) -/
def bisectStep (f : α → α) (f1 : α) (s : α × α) : α × α :=
  let xmid := (s.1 + s.2) / 2
  let fmid := f xmid
  if f1 * fmid < 0 then (s.1, xmid) else (xmid, s.2)

/-- The `for i in range(0, maxiter)` loop; `none` = "Bisection exceeded number of iterations" (returns None). -/
def bisectLoop (f : α → α) (f1 xtol : α) : Nat → α × α → Option α
  | 0, _ => none
  | n + 1, s =>
    let xmid := (s.1 + s.2) / 2
    let fmid := f xmid
    let s' := bisectStep f f1 s
    if absG fmid < xtol then some xmid else bisectLoop f f1 xtol n s'

/-- `bisection(func, x1, x2, args, xtol, maxiter)`.  `.error .finError` = the two FinError exits,
`.ok none` = the two `return None` exits (root not bracketed; iterations exceeded). `eqtol` is the literal 1e-10. -/
def bisection (f : α → α) (eqtol x1 x2 xtol : α) (maxiter : Nat) : Except PyErr (Option α) :=
  if absG (x1 - x2) < eqtol then .error .finError
  else if x1 > x2 then .error .finError
  else
    let f1 := f x1
    let fmid := f x2
    if absG f1 < xtol then .ok (some x1)
    else if absG fmid < xtol then .ok (some x2)
    else if f1 * fmid ≥ 0 then .ok none
    else .ok (bisectLoop f f1 xtol maxiter (x1, x2))

/-! ### solver_1d.newton (Newton–Raphson branch, `fprime` given, `fprime2 = None`) -/

/-- What `newton` hands back.  In Python the last three are all "a float" or `None`:
`root`/`step`/`noconv` are returned as plain numbers, `zeroDer` is `return None`. -/
inductive NewtonRes (α : Type) where
  | root (p : α)       -- `fval == 0`
  | step (p p0 : α)    -- `np.isclose(p, p0, rtol, atol=tol)`: the last step was small
  | zeroDer            -- derivative vanished: `return None`
  | noconv (p : α)     -- `maxiter` exhausted: the code falls out of the loop and does `return p`

/-- `np.isclose(p, p0, rtol=rtol, atol=tol)` on finite scalars: `|p − p0| ≤ tol + rtol·|p0|`. -/
def isclose (p p0 rtol tol : α) : Bool := decide (absG (p - p0) ≤ tol + rtol * absG p0)

def newtonLoop (f f' : α → α) (tol rtol : α) : Nat → α → NewtonRes α
  | 0, p0 => .noconv p0
  | n + 1, p0 =>
    let fval := f p0
    if fval == 0 then .root p0 else
    let fder := f' p0
    if fder == 0 then .zeroDer else
    let newton_step := fval / fder
    let p := p0 - newton_step
    if isclose p p0 rtol tol then .step p p0 else newtonLoop f f' tol rtol n p

/-- `newton(func, x0, fprime, args, tol, maxiter)`; `maxiter < 1` and `tol <= 0` raise FinError. -/
def newton (f f' : α → α) (x0 tol rtol : α) (maxiter : Int) : Except PyErr (NewtonRes α) :=
  if tol ≤ 0 then .error .finError
  else if maxiter < 1 then .error .finError
  else .ok (newtonLoop f f' tol rtol maxiter.toNat (1 * x0))

/-- The value the Python caller sees. -/
def NewtonRes.value : NewtonRes α → Option α
  | .root p => some p | .step p _ => some p | .zeroDer => none | .noconv p => some p

/-! ### solver_1d.newton_secant (the jitted secant) -/

/-- The secant update of `newton_secant` (the better-conditioned of the two algebraically equal forms). -/
def secantUpdate (p0 p1 q0 q1 : α) : α :=
  if absG q1 > absG q0 then ((-q0) / q1 * p1 + p0) / (1 - q0 / q1)
  else ((-q1) / q0 * p0 + p1) / (1 - q1 / q0)

def secantLoop (f : α → α) (tol : α) (disp : Bool) : Nat → α → α → α → α → α → Except PyErr α
  | 0, _, _, _, _, plast => if disp then .error .finError else .ok plast
  | n + 1, p0, p1, q0, q1, _ =>
    if q1 == q0 then
      if p1 != p0 then .error .finError else .ok ((p1 + p0) / 2)
    else
      let p := secantUpdate p0 p1 q0 q1
      if absG (p - p1) < tol then .ok p
      else secantLoop f tol disp n p1 p q1 (f p) p

/-- `newton_secant(func, x0, args, tol, maxiter, disp)`; `eps` is the literal 1e-4. -/
def newton_secant (f : α → α) (eps x0 tol : α) (maxiter : Int) (disp : Bool) : Except PyErr α :=
  if tol ≤ 0 then .error .finError
  else if maxiter < 1 then .error .finError
  else
    let p0 := 1 * x0
    let p1 := x0 * (1 + eps)
    let p1 := if p1 > 0 then p1 + eps else p1 - eps
    let q0 := f p0
    let q1 := f p1
    if absG q1 < absG q0 then secantLoop f tol disp maxiter.toNat p1 p0 q1 q0 p0
    else secantLoop f tol disp maxiter.toNat p0 p1 q0 q1 p0

/-! ### math.solve_tridiagonal_matrix (Thomas algorithm) -/

/-- One row of `a_matrix` with its right-hand side: sub-diagonal, diagonal, super-diagonal, r. -/
structure Row (α : Type) where
  a : α
  b : α
  c : α
  r : α

/-- Rows `j ≥ 1`.  Arguments: previous pivot `bet`, previous forward value `u[j-1]`, previous `c[j-1]`.
Returns the FINAL (back-substituted) values `u[j-1], u[j], …`.  `none` = `ValueError` (zero pivot). -/
def thomasAux (bet uf cprev : α) : List (Row α) → Option (List α)
  | [] => some [uf]
  | row :: rest =>
    let gam := cprev / bet
    let bet' := row.b - row.a * gam
    if bet' == 0 then none else
    let uf' := (row.r - row.a * uf) / bet'
    match thomasAux bet' uf' row.c rest with
    | none => none
    | some xs => some ((uf - gam * xs.headD 0) :: xs)

/-- `solve_tridiagonal_matrix(a_matrix, r)`; `none` = ValueError. -/
def thomas : List (Row α) → Option (List α)
  | [] => some []
  | r0 :: rest => if r0.b == 0 then none else thomasAux r0.b (r0.r / r0.b) r0.c rest

/-- Tridiagonal matrix–vector product, row by row: `a_j·x_{j-1} + b_j·x_j + c_j·x_{j+1}` with the
out-of-range neighbours absent (`a[0]` and `c[-1]` are not part of the matrix). -/
def triMulAux : Option α → List (Row α) → List α → List α
  | xprev, row :: rows, x :: xs =>
    let lower := match xprev with | some xp => row.a * xp + row.b * x | none => row.b * x
    let v := match xs with | xn :: _ => lower + row.c * xn | [] => lower
    v :: triMulAux (some x) rows xs
  | _, _, _ => []

def triMul (rows : List (Row α)) (xs : List α) : List α := triMulAux none rows xs

/-! ### math.band_matrix_multiplication -/

/-- left-to-right accumulation `x += t` starting from `z` (Python's loop order). -/
def sumFrom (z : α) (l : List α) : α := l.foldl (· + ·) z

/-- Row `i` of `band_matrix_multiplication(a, m1, m2, b)` with `n = a.shape[0]`;
`a i k` is the band storage `a[i, k]`, `b j` the vector. -/
def bandMulRow (a : Nat → Nat → α) (m1 m2 n : Nat) (b : Nat → α) (i : Nat) : α :=
  let jl := i - m1                       -- `jl[jl < 0] = 0`
  let ju := min (i + m2) (n - 1)         -- `ju[ju > n-1] = n-1`
  sumFrom 0 ((List.range (ju + 1 - jl)).map (fun t => a i (jl + t + m1 - i) * b (jl + t)))

def bandMul (a : Nat → Nat → α) (m1 m2 n : Nat) (b : Nat → α) : List α :=
  (List.range n).map (bandMulRow a m1 m2 n b)

/-! ### math.npv -/

/-- `npv(irr, times_cfs)`: `_npv += c / ((1 + irr) ** t)`; `pow` is `**`. -/
def npv (pow : α → α → α) (irr : α) (tcs : List (α × α)) : α :=
  tcs.foldl (fun acc tc => acc + tc.2 / pow (1 + irr) tc.1) 0

/-! ### math.accrued_interpolator -/

/-- Loop over consecutive coupon-time pairs `(cpn_times[i-1], cpn_times[i])`, `i ≥ 1`, with `cpn_amounts[i]`. -/
def accruedLoop (t : α) : List α → List α → α
  | pct :: nct :: ts, _ :: amt :: as =>
    if t ≥ pct && t < nct then (t - pct) / (nct - pct) * amt
    else accruedLoop t (nct :: ts) (amt :: as)
  | _, _ => 0

def accrued_interpolator (t : α) (times amounts : List α) : α := accruedLoop t times amounts

/-! ### math.pair_gcd -/

def gcdLoop : Nat → α → α → Option α
  | 0, _, _ => none                       -- fuel exhausted (the Python `while` would still be running)
  | n + 1, v1, v2 =>
    if v2 != 0 then
      let temp := v2
      let factor := v1 / v2
      let v2' := v1 - factor * v2
      gcdLoop n temp v2'
    else some (absG v1)

def pair_gcd (fuel : Nat) (v1 v2 : α) : Option α :=
  if v1 == 0 || v2 == 0 then some 0 else gcdLoop fuel v1 v2

/-! ### Cholesky–Banachiewicz (what `np.linalg.cholesky` must return, up to rounding) -/

def dotPrefix (x y : List α) : α := sumFrom 0 (List.zipWith (· * ·) x y)

/-- Row `i` of `L` given the previous rows: `L[i][j] = (ρ[i][j] − Σ_{k<j} L[i][k] L[j][k]) / L[j][j]`,
`L[i][i] = sqrt(ρ[i][i] − Σ_{k<i} L[i][k]²)`. -/
def cholRow (sqrt : α → α) (rhoRow : List α) (prev : List (List α)) : List α :=
  let i := prev.length
  let row := (List.range i).foldl (fun acc j =>
      let lj := prev.getD j []
      acc ++ [((rhoRow.getD j 0) - dotPrefix acc lj) / (lj.getD j 0)]) ([] : List α)
  row ++ [sqrt ((rhoRow.getD i 0) - dotPrefix row row)]

def cholesky (sqrt : α → α) (rho : List (List α)) : List (List α) :=
  rho.foldl (fun prev rhoRow => prev ++ [cholRow sqrt rhoRow prev]) []

end generic
end FinVerif.Model.C20
