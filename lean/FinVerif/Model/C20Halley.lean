/-
  C20 — hand-written executable model of the HALLEY path of `financepy/utils/solver_1d.py: newton`
  (`fprime` and `fprime2` both given) and of the start-point logic of the two secant variants
  (`newton_secant`: `if p1 > 0.0: p1 = p1 + eps else: p1 = p1 - eps`;
   `newton(fprime=None)`: `p1 += eps if p1 >= 0 else -eps`).

  Same conventions as Model/C20.lean: one definition over a type `α` with the standard operation classes,
  executed at `Float` by the driver (ops `halley`, `sstart`, `sstart2`, `nsecant`), proved at `ℝ` (Props/C20f.lean).
  Statement order and association follow the Python source:

      newton_step = fval / fder
      if fprime2:
          fder2 = fprime2(p0, args)
          adj = newton_step * fder2 / fder / 2
          if np.abs(adj) < 1:
              newton_step /= 1.0 - adj
      p = p0 - newton_step
      if np.isclose(p, p0, rtol=rtol, atol=tol): return p
      p0 = p
-/
import FinVerif.Model.C20

namespace FinVerif.Model.C20
open FinVerif

section generic
variable {α : Type} [Add α] [Sub α] [Mul α] [Div α] [Neg α] [LT α] [LE α] [BEq α]
  [DecidableLT α] [DecidableLE α] [OfNat α 0] [OfNat α 1] [OfNat α 2]

/-- The step taken by one pass of the Halley path: the Newton step `fval / fder`, divided by `1 − adj`
only when `|adj| < 1` (`adj = newton_step * fder2 / fder / 2`). -/
def halleyStep (fval fder fder2 : α) : α :=
  let newton_step := fval / fder
  let adj := newton_step * fder2 / fder / 2
  if absG adj < 1 then newton_step / (1 - adj) else newton_step

/-- The `for itr in range(maxiter)` loop of `newton` with `fprime2` given. -/
def halleyLoop (f f' f'' : α → α) (tol rtol : α) : Nat → α → NewtonRes α
  | 0, p0 => .noconv p0
  | n + 1, p0 =>
    let fval := f p0
    if fval == 0 then .root p0 else
    let fder := f' p0
    if fder == 0 then .zeroDer else
    let p := p0 - halleyStep fval fder (f'' p0)
    if isclose p p0 rtol tol then .step p p0 else halleyLoop f f' f'' tol rtol n p

/-- `newton(func, x0, fprime, args, tol, maxiter, fprime2)`. -/
def newtonHalley (f f' f'' : α → α) (x0 tol rtol : α) (maxiter : Int) : Except PyErr (NewtonRes α) :=
  if tol ≤ 0 then .error .finError
  else if maxiter < 1 then .error .finError
  else .ok (halleyLoop f f' f'' tol rtol maxiter.toNat (1 * x0))

/-- Second starting abscissa of `newton_secant`: `p1 = x0*(1+eps); p1 = p1 + eps if p1 > 0 else p1 - eps`
(the same expression that `newton_secant` in Model/C20.lean inlines). -/
def secantStart (eps x0 : α) : α :=
  let p1 := x0 * (1 + eps)
  if p1 > 0 then p1 + eps else p1 - eps

/-- Second starting abscissa of the secant branch of `newton` (`fprime=None`, `x1=None`):
`p1 = x0*(1+eps); p1 += eps if p1 >= 0 else -eps`. -/
def secantStartNewton (eps x0 : α) : α :=
  let p1 := x0 * (1 + eps)
  p1 + (if p1 ≥ 0 then eps else -eps)

/-! ### solver_1d.newton, secant path (`fprime=None`, `x1=None`; plain Python) -/

/-- What the secant path of `newton` hands back: `mid` = `(p1 + p0)/2` at coinciding abscissae with equal ordinates,
`step` = `np.isclose(p, p1, rtol, atol=tol)` fired, `flat` = equal ordinates at DISTINCT abscissae: `return None`,
`noconv` = budget exhausted: falls out of the loop and does `return p` (the last update). -/
inductive SecRes (α : Type) where
  | mid (p : α)
  | step (p p1 : α)
  | flat
  | noconv (p : α)

def SecRes.value : SecRes α → Option α
  | .mid p => some p | .step p _ => some p | .flat => none | .noconv p => some p

/-- The `for itr in range(maxiter)` loop of the secant path; `plast` is the Python variable `p`. -/
def newtonSecLoop (f : α → α) (tol rtol : α) : Nat → α → α → α → α → α → SecRes α
  | 0, _, _, _, _, plast => .noconv plast
  | n + 1, p0, p1, q0, q1, _ =>
    if q1 == q0 then
      if p1 != p0 then .flat else .mid ((p1 + p0) / 2)
    else
      let p := secantUpdate p0 p1 q0 q1
      if isclose p p1 rtol tol then .step p p1
      else newtonSecLoop f tol rtol n p1 p q1 (f p) p

/-- `newton(func, x0, None, args, tol, maxiter)`; `eps` is the literal 1e-4. -/
def newtonSec (f : α → α) (eps x0 tol rtol : α) (maxiter : Int) : Except PyErr (SecRes α) :=
  if tol ≤ 0 then .error .finError
  else if maxiter < 1 then .error .finError
  else
    let p0 := 1 * x0
    let p1 := secantStartNewton eps x0
    let q0 := f p0
    let q1 := f p1
    if absG q1 < absG q0 then .ok (newtonSecLoop f tol rtol maxiter.toNat p1 p0 q1 q0 p0)
    else .ok (newtonSecLoop f tol rtol maxiter.toNat p0 p1 q0 q1 p0)

end generic
end FinVerif.Model.C20
