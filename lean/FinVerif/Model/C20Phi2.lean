/-
  C20 — hand model (Float only, executable) of `financepy/utils/math.py:phi2` (Drezner–Wesolowsky
  bivariate normal CDF) and `M`.  It calls the GENERATED `N` (Gen/KernF).  Statement order, reassignments
  (`r2` is overwritten inside the second loop, `h2` is negated for r < 0 while `hk` keeps the original)
  and the association of every product follow the Python source.  No theorem is stated about it; it is
  the "source meaning" stream of the compiled-vs-source correspondence.
-/
import FinVerif.Gen.KernF

namespace FinVerif.Model.C20
open FinVerif.Gen.KernF

def phi2X : List Float := [0.04691008, 0.23076534, 0.5, 0.76923466, 0.95308992]
def phi2W : List Float := [0.018854042, 0.038088059, 0.0452707394, 0.038088059, 0.018854042]

def phi2 (h1 hk r : Float) : Float :=
  let h2 := hk
  let h12 := (h1 * h1 + h2 * h2) * 0.5
  if Float.abs r < 0.7 || Float.abs h1 > 35 || Float.abs h2 > 35 then
    let h3 := h1 * h2
    let bv := (List.zip phi2X phi2W).foldl (fun bv (xw : Float × Float) =>
      let r1 := r * xw.1
      let rr2 := 1.0 - r1 * r1
      bv + xw.2 * Float.exp ((r1 * h3 - h12) / rr2) / Float.sqrt rr2) 0.0
    N h1 * N h2 + r * bv
  else
    let r2 := 1.0 - r * r
    let r3 := Float.sqrt r2
    let h2 := if r < 0.0 then -h2 else h2
    let h3 := h1 * h2
    let h7 := Float.exp (-h3 * 0.5)
    let bv :=
      if r2 != 0.0 then
        let h6 := Float.abs (h1 - h2)
        let h5 := h6 * h6 * 0.5
        let h6 := h6 / r3
        let aa := 0.5 - h3 * 0.125
        let ab := 3.0 - 2.0 * aa * h5
        let bv := 0.13298076 * h6 * ab * N (-h6) - Float.exp (-h5 / r2) * (ab + aa * r2) * 0.053051647
        (List.zip phi2X phi2W).foldl (fun bv (xw : Float × Float) =>
          let r1 := r3 * xw.1
          let rr := r1 * r1
          let r2 := Float.sqrt (1.0 - rr)
          bv - xw.2 * Float.exp (-h5 / rr) * (Float.exp (-h3 / (1.0 + r2)) / r2 / h7 - 1.0 - aa * rr)) bv
      else 0.0
    if r > 0.0 then bv * r3 * h7 + N (fmin h1 h2)
    else if h1 < h2 then -bv * r3 * h7
    else -bv * r3 * h7 + N h1 + N hk - 1.0

def M (a b c : Float) : Float := phi2 a b c

end FinVerif.Model.C20
