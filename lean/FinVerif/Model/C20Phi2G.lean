/-
  C20 — GENERIC hand model of `financepy/utils/math.py:phi2` (Drezner–Wesolowsky bivariate normal CDF)
  and `M`.  `phi2G` is written ONCE over a type `α` carrying only the standard operation classes; the
  transcendental pieces (`exp`, `sqrt`, the univariate normal CDF `N`) are PARAMETERS and the numeric
  literals of the source are collected in `Phi2Consts α`, so that the same text is executed at `Float`
  (`phi2GF`: `Float.exp`, `Float.sqrt`, the generated `N` of Gen/KernF, the source literals) and is the
  subject of the theorems at `ℝ` (Props/C20h.lean).  Mathlib-free.

  Statement order, the reassignments (`r2` is overwritten inside the second loop, `h2` is negated for
  r < 0 while `hk` keeps the original value), the guard `if r2 != 0.0`, `min(h1, h2)` and the association
  of every product follow the Python source, exactly as the Float-only model `Model/C20Phi2.lean` does.
-/
import FinVerif.Model.C20
import FinVerif.Gen.KernF

namespace FinVerif.Model.C20
open FinVerif

/-- The numeric literals of `phi2`, in order of appearance in the source. -/
structure Phi2Consts (α : Type) where
  x : List α          -- x[0..4]
  w : List α          -- w[0..4]
  half : α            -- 0.5
  c07 : α             -- 0.7
  c35 : α             -- 35
  c0125 : α           -- 0.125
  three : α           -- 3.0
  two : α             -- 2.0
  k13298076 : α       -- 0.13298076
  k053051647 : α      -- 0.053051647

/-- The literal values of the source, written once for every type with decimal literals
(`Float`, `ℝ`, …). -/
def phi2Consts {α : Type} [OfScientific α] : Phi2Consts α where
  x := [0.04691008, 0.23076534, 0.5, 0.76923466, 0.95308992]
  w := [0.018854042, 0.038088059, 0.0452707394, 0.038088059, 0.018854042]
  half := 0.5
  c07 := 0.7
  c35 := 35.0
  c0125 := 0.125
  three := 3.0
  two := 2.0
  k13298076 := 0.13298076
  k053051647 := 0.053051647

section generic
variable {α : Type} [Add α] [Sub α] [Mul α] [Div α] [Neg α] [LT α] [LE α] [BEq α]
  [DecidableLT α] [DecidableLE α] [OfNat α 0] [OfNat α 1]

/-- Python's builtin `min(a, b)` on two scalars: `b` if `b < a`, else `a`. -/
def minG (a b : α) : α := if b < a then b else a

/-- `phi2(h1, hk, r)`; `c` = the literals, `exp`/`sqrt`/`N` = `np.exp`/`np.sqrt`/`N`. -/
def phi2G (c : Phi2Consts α) (exp sqrt N : α → α) (h1 hk r : α) : α :=
  let h2 := hk
  let h12 := (h1 * h1 + h2 * h2) * c.half
  if absG r < c.c07 ∨ absG h1 > c.c35 ∨ absG h2 > c.c35 then
    let h3 := h1 * h2
    let bv := (List.zip c.x c.w).foldl (fun bv (xw : α × α) =>
      let r1 := r * xw.1
      let rr2 := 1 - r1 * r1
      bv + xw.2 * exp ((r1 * h3 - h12) / rr2) / sqrt rr2) 0
    N h1 * N h2 + r * bv
  else
    let r2 := 1 - r * r
    let r3 := sqrt r2
    let h2 := if r < 0 then -h2 else h2
    let h3 := h1 * h2
    let h7 := exp (-h3 * c.half)
    let bv :=
      if r2 != 0 then
        let h6 := absG (h1 - h2)
        let h5 := h6 * h6 * c.half
        let h6 := h6 / r3
        let aa := c.half - h3 * c.c0125
        let ab := c.three - c.two * aa * h5
        let bv := c.k13298076 * h6 * ab * N (-h6) - exp (-h5 / r2) * (ab + aa * r2) * c.k053051647
        (List.zip c.x c.w).foldl (fun bv (xw : α × α) =>
          let r1 := r3 * xw.1
          let rr := r1 * r1
          let r2 := sqrt (1 - rr)
          bv - xw.2 * exp (-h5 / rr) * (exp (-h3 / (1 + r2)) / r2 / h7 - 1 - aa * rr)) bv
      else 0
    if r > 0 then bv * r3 * h7 + N (minG h1 h2)
    else if h1 < h2 then -bv * r3 * h7
    else -bv * r3 * h7 + N h1 + N hk - 1

/-- `M(a, b, c)`: `return phi2(a, b, c)`. -/
def MG (c : Phi2Consts α) (exp sqrt N : α → α) (a b r : α) : α := phi2G c exp sqrt N a b r

end generic

/-- The `Float` instantiation: `np.exp`/`np.sqrt` = `Float.exp`/`Float.sqrt`, `N` = the generated
`FinVerif.Gen.KernF.N`, the literals of the source. -/
def phi2GF (h1 hk r : Float) : Float :=
  phi2G (phi2Consts (α := Float)) Float.exp Float.sqrt FinVerif.Gen.KernF.N h1 hk r

def MGF (a b c : Float) : Float :=
  MG (phi2Consts (α := Float)) Float.exp Float.sqrt FinVerif.Gen.KernF.N a b c

end FinVerif.Model.C20
