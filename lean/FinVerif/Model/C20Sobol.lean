/-
  C20 — executable model of the integer skeleton of `financepy/models/sobol.py: get_uniform_sobol`:
  the "number of bits needed" `ll`, the table `c[i]` (index from the right of the first zero bit of `i`),
  the direction-number table `v[0..ll]` of the first dimension and the Gray-code recurrence
  `x[i] = x[i-1] XOR v[c[i-1]]`.  All quantities are the integers the code stores scaled by 2**32.
  A table read past the end is `IndexError` (what the interpreter raises; compiled code has no bounds check).
  Mathlib-free.
-/
import FinVerif.Core.Prelude

namespace FinVerif.Model.C20Sobol
open FinVerif

/-- `c = 1; value = i; while value & 1: value >>= 1; c += 1` with explicit fuel (`fuel = i` is always enough;
the upper bound proved in Props/C20d holds for every fuel). -/
def firstZeroAux : Nat → Nat → Nat
  | 0, _ => 1
  | fuel + 1, i => if i % 2 = 1 then firstZeroAux fuel (i / 2) + 1 else 1

/-- `c[i]`: index from the right (1-based) of the first zero bit of `i`. -/
def firstZeroIdx (i : Nat) : Nat := firstZeroAux i i

/-- The exact number of bits needed: `⌈log₂(N+1)⌉` (= bit length of `N`).  The source computes
`int(np.ceil(np.log(num_points+1)/np.log(2.0)))` in floating point; the harness evaluates that expression of the
current source and checks the hypothesis `N < 2^ll` the theorems need, and `ll = sobolLL N` where both are exact. -/
def sobolLL (n : Nat) : Nat := if n = 0 then 0 else Nat.log2 n + 1

/-- `v[0] = 0`, `v[i] = 1 << (32-i)` for `1 ≤ i ≤ ll` (first dimension). -/
def dirNum1 (ll : Nat) : Array Nat := (Array.range (ll + 1)).map (fun i => if i = 0 then 0 else 2 ^ (32 - i))

/-- One pass of `for i in range(1, num_points+1): x[i] = int(x[i-1]) ^ int(v[c[i-1]])`; the argument is `i-1`.
State: current `x` and the points so far (reversed). -/
def sobolStep (v : Array Nat) (st : Nat × List Nat) (i : Nat) : Except PyErr (Nat × List Nat) :=
  match v[firstZeroIdx i]? with
  | none => .error .indexError
  | some d => let x := st.1 ^^^ d; .ok (x, x :: st.2)

/-- The walk with an arbitrary direction table. -/
def sobolWalk (v : Array Nat) (n : Nat) : Except PyErr (List Nat) :=
  ((List.range n).foldlM (sobolStep v) (0, [])).map (fun st => st.2.reverse)

/-- First coordinate of `get_uniform_sobol(n, ·)` scaled by 2**32, with a table of `ll+1` entries. -/
def sobolDim1 (ll n : Nat) : Except PyErr (List Nat) := sobolWalk (dirNum1 ll) n

/-- `get_uniform_sobol(n, 1)[:, 0] * 2**32` as the source sizes its table. -/
def sobolDim1Src (n : Nat) : Except PyErr (List Nat) := sobolDim1 (sobolLL n) n

/-- The van der Corput / (0,k,1)-net property of a list of scaled points `x_1 … x_{2^k-1}`: together with the
origin they are exactly the multiples `j·2^(32-k)`, `j < 2^k`, each once. -/
def stratified (k : Nat) (xs : List Nat) : Bool :=
  (0 :: xs).all (fun x => x % 2 ^ (32 - k) == 0) &&
  ((List.range (2 ^ k)).all (fun j => ((0 :: xs).filter (fun x => x == j * 2 ^ (32 - k))).length == 1))

end FinVerif.Model.C20Sobol
