/-
  Hand-written executable model of `Calendar.is_holiday / is_business_day / adjust /
  add_business_days` and of `Date.add_days`.  The holiday functions and the dispatch chain are
  generated (`FinVerif.Gen.Calendar`); the loops are modelled here with fuel and compared with the
  implementation exhaustively (every calendar × every date 1901–2199 × every convention).
-/
import FinVerif.Core.Prelude
import FinVerif.Gen.DateK
import FinVerif.Gen.Calendar
import FinVerif.Model.Date
import FinVerif.Core.AdjustAlgo

namespace FinVerif.Model
open FinVerif FinVerif.Gen.DateK FinVerif.Gen.Calendar

/-- One forward step of the index walk in `Date.add_days`: the next table entry `> 0`. -/
def nextDayT (d m y : Int) : Int × Int × Int :=
  if d < tableMonthDays y m then (d + 1, m, y)
  else if m < 12 then (1, m + 1, y) else (1, 1, y + 1)

/-- One backward step of the index walk. -/
def prevDayT (d m y : Int) : Int × Int × Int :=
  if d > 1 then (d - 1, m, y)
  else if m > 1 then (tableMonthDays y (m - 1), m - 1, y) else (31, 12, y - 1)

def stepDays : Nat → Bool → Int × Int × Int → Int × Int × Int
  | 0, _, t => t
  | k + 1, fwd, (d, m, y) => stepDays k fwd (if fwd then nextDayT d m y else prevDayT d m y)

/-- `Date.add_days(n)` while the walk stays inside the table: walk `|n|` valid table entries, then
construct (and validate) the date.  (Table-end behaviour is part of C13's state machine.) -/
def addDays (dt : PyDate) (n : Int) : Except PyErr PyDate :=
  let (d, m, y) := stepDays n.natAbs (decide (n ≥ 0)) (dt.d, dt.m, dt.y)
  mkDate? d m y

/-- `self.day_in_year` as set by `is_holiday`. -/
def dayInYear (dt : PyDate) : Int := dt.serial - (mkDate 1 1 dt.y).serial + 1

/-- `Calendar.is_holiday` (none = the final `raise FinError("Unknown calendar")`). -/
def isHoliday (cal : Int) (dt : PyDate) : Option Bool :=
  is_holiday_dispatch cal dt.m dt.d dt.y dt.wd (dayInYear dt)

/-- `Calendar.is_business_day`. -/
def isBusinessDay (cal : Int) (dt : PyDate) : Option Bool :=
  if is_weekend dt.wd then some false
  else match isHoliday cal dt with
    | some true => some false
    | some false => some true
    | none => none

/-- Fuel used by the model: no calendar has 40 consecutive non-business days — proved for held dates of
1917 … 2197 (ten evaluations suffice: Props/C14g, C14h), validated exhaustively by the correspondence for the rest
of 1901 … 2199 (the implementation terminates and agrees). -/
def adjustFuel : Nat := 40

/-- `Calendar.adjust(dt, bd_type)` on enum values: the generic algorithm at the generated predicates. -/
def adjust (cal conv : Int) (dt : PyDate) : Except PyErr PyDate :=
  Algo.adjust (isBusinessDay cal) addDays mkDate adjustFuel (decide (cal = 1)) conv dt

/-- Gregorian successor / predecessor as computed by `datetime.date ± timedelta(1)`
(used by `add_business_days`, which does not go through the date table). -/
def nextDayG (d m y : Int) : Int × Int × Int :=
  if d < monthDays y m then (d + 1, m, y)
  else if m < 12 then (1, m + 1, y) else (1, 1, y + 1)

def prevDayG (d m y : Int) : Int × Int × Int :=
  if d > 1 then (d - 1, m, y)
  else if m > 1 then (monthDays y (m - 1), m - 1, y) else (31, 12, y - 1)

/-- One `datetime` step followed by `Date(d, m, y)`. -/
def stepG (fwd : Bool) (cur : PyDate) : Except PyErr PyDate :=
  let (d, m, y) := if fwd then nextDayG cur.d cur.m cur.y else prevDayG cur.d cur.m cur.y
  mkDate? d m y

/-- `Calendar.add_business_days(start, n)` for an `int` n. -/
def addBusinessDays (cal : Int) (start : PyDate) (n : Int) : Except PyErr PyDate :=
  match mkDate? start.d start.m start.y with
  | .error e => .error e
  | .ok s0 => Algo.abdLoop (isBusinessDay cal) (stepG (decide (n ≥ 0))) (n.natAbs * 40 + 40) n.natAbs s0

end FinVerif.Model
