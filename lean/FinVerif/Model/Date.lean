/-
  Hand-written executable model of `financepy/utils/date.py` (the `Date` class and its
  table of day counters) and of `frequency.annual_frequency`.  Mathlib-free.

  Tie to the code: the kernels `is_leap_year`, `date_index`, `date_from_index`, `weekday` and the
  month-length tables are *generated* (`FinVerif.Gen.DateK`); everything else here is compared with
  the implementation by the correspondence check of C13 (`harness/props/c13.py`), exhaustively over
  1900-03-01 … 2200-12-31.
-/
import FinVerif.Core.Prelude
import FinVerif.Gen.DateK

namespace FinVerif.Model
open FinVerif FinVerif.Gen.DateK

/-- `calculate_list`: Excel's calendar treats 1900 as a leap year. -/
def excelLeap (y : Int) : Bool := if y = 1900 then true else is_leap_year y

/-- Month length used by `calculate_list` for year `yy`. -/
def tableMonthDays (yy mm : Int) : Int :=
  if excelLeap yy then pyIdxD month_days_leap_year (mm - 1) 0
  else pyIdxD month_days_not_leap_year (mm - 1) 0

/-- One month block of the padded table: the counters `c+1 … c+n` followed by `31-n` pads. -/
def monthBlock (c : Int) (n : Nat) : List Int :=
  (List.range n).map (fun (i : Nat) => c + 1 + (i : Int)) ++ List.replicate (31 - n) (-999)

/-- All month blocks of one year starting from counter `c`; returns the blocks and the new counter. -/
def yearBlocks (yy : Int) (c : Int) : List Int × Int :=
  (List.range 12).foldl (fun (acc : List Int × Int) (i : Nat) =>
      let n := (tableMonthDays yy ((i : Int) + 1)).toNat
      (acc.1 ++ monthBlock acc.2 n, acc.2 + n)) ([], c)

/-- `calculate_list()` with `g_start_year = 1900` and `g_end_year = E`: the padded counter table. -/
def calcList (E : Int) : List Int :=
  ((List.range (E - 1900 + 1).toNat).foldl (fun (acc : List Int × Int) (k : Nat) =>
      let yb := yearBlocks (1900 + (k : Int)) acc.2
      (acc.1 ++ yb.1, yb.2)) ([], 0)).1

/-- Number of Gregorian leap years `≤ Y` (for `Y ≥ 0`). -/
def leapsUpTo (Y : Int) : Int := Y / 4 - Y / 100 + Y / 400

/-- Closed form of the counter just before 1 January of year `y` (`y ≥ 1900`):
365 per year plus one per Excel-leap year in `[1900, y)`; 1900 itself counts as leap. -/
def daysBeforeYear (y : Int) : Int :=
  365 * (y - 1900) + (leapsUpTo (y - 1) - leapsUpTo 1900) + (if y > 1900 then 1 else 0)

def cumDaysNonLeap : List Int := [0, 31, 59, 90, 120, 151, 181, 212, 243, 273, 304, 334]
def cumDaysLeap : List Int := [0, 31, 60, 91, 121, 152, 182, 213, 244, 274, 305, 335]

def daysBeforeMonth (y m : Int) : Int :=
  if excelLeap y then pyIdxD cumDaysLeap (m - 1) 0 else pyIdxD cumDaysNonLeap (m - 1) 0

/-- Closed-form Excel serial (the value `calculate_list` stores at `date_index d m y`). -/
def excelSerial (d m y : Int) : Int := daysBeforeYear y + daysBeforeMonth y m + d

/-- Length of month `m` of year `y` as the *constructor* sees it (true Gregorian leap rule). -/
def monthDays (y m : Int) : Int :=
  if is_leap_year y then pyIdxD month_days_leap_year (m - 1) 0
  else pyIdxD month_days_not_leap_year (m - 1) 0

/-- Total (unvalidated) date construction: what `Date(d,m,y)._refresh()` computes. -/
def mkDate (d m y : Int) : PyDate :=
  let s := excelSerial d m y
  { d := d, m := m, y := y, serial := s, wd := weekday s }

/-- The validation performed by `Date.__init__`, in the code's order.  `E` is the current table end
(`g_end_year`); the constructor extends the table when `y > E`, so the year is never rejected for
being too large.  `month_days[m-1]` is a Python list read: negative wrap-around, IndexError beyond. -/
def mkDate? (d m y : Int) : Except PyErr PyDate :=
  if y < 1900 then .error .finError
  else if d < 1 then .error .finError
  else if m < 1 ∨ m > 12 then .error .finError
  else
    let tbl := if is_leap_year y then month_days_leap_year else month_days_not_leap_year
    match pyIdx? tbl (m - 1) with
    | none => .error .indexError
    | some md => if d > md then .error .finError else .ok (mkDate d m y)

/-- `frequency.annual_frequency` on the enum *value*; `none` is Python's `None` (fall-through). -/
def annualFrequency (f : Int) : Option Rat :=
  if f = 99 then some (-1)
  else if f = -1 then some 1
  else if f = 1 then some 1
  else if f = 2 then some 2
  else if f = 3 then some 3
  else if f = 4 then some 4
  else if f = 12 then some 12
  else none

end FinVerif.Model
