/-
  Hand-written model of the arithmetic methods of `Date` (C13): add_months, add_years (integer
  argument), add_tenor, add_weekdays, eom / is_eom, third_wednesday_of_month, next_imm_date,
  and the table-extension state machine.  `next_cds_date`, `is_eom`, `eom` also exist in GENERATED form
  (`Gen/DateLogic.lean`); `Date.add_days` is in `Model/Calendar.lean`.
-/
import FinVerif.Model.Calendar

namespace FinVerif.Model
open FinVerif FinVerif.Gen.DateK

/-- `Date.add_months(k)` for an integer `k`: month arithmetic by the two `while` loops (closed form:
Euclidean division of the zero-based month count), the day clipped to the target month's length, then
`Date(d, m, y)`. -/
def addMonths (dt : PyDate) (k : Int) : Except PyErr PyDate :=
  let t := dt.m + k - 1
  let y := dt.y + t / 12
  let m := t % 12 + 1
  let md := monthDays y m
  let d := if dt.d > md then md else dt.d
  mkDate? d m y

/-- total version used where the result is known to be valid -/
def addMonthsD (dt : PyDate) (k : Int) : PyDate :=
  match addMonths dt k with | .ok r => r | .error _ => dt

/-- `Date.eom()` -/
def eom (dt : PyDate) : Except PyErr PyDate := mkDate? (monthDays dt.y dt.m) dt.m dt.y

/-- `Date.is_eom()` -/
def isEom (dt : PyDate) : Bool := decide (dt.d = monthDays dt.y dt.m)

/-- `third_wednesday_of_month(m, y)`: scan days 15..21. -/
def thirdWednesday (m y : Int) : Except PyErr Int :=
  match (List.range 7).find? (fun (i : Nat) => (mkDate (15 + (i : Int)) m y).wd == 2) with
  | some i => .ok (15 + (i : Int))
  | none => .error .finError

def thirdWednesdayD (m y : Int) : Int := match thirdWednesday m y with | .ok d => d | .error _ => 0

/-- `next_imm_date()` as coded (strictly after the date: `d >= third Wednesday` rolls). -/
def nextIMM (dt : PyDate) : Except PyErr PyDate :=
  let y := dt.y
  let m := dt.m
  let d := dt.d
  let (mI, yI) : Int × Int :=
    if m = 12 ∧ d ≥ thirdWednesdayD m y then (3, y + 1)
    else if m = 10 ∨ m = 11 ∨ m = 12 then (12, y)
    else if m = 9 ∧ d ≥ thirdWednesdayD m y then (12, y)
    else if m = 7 ∨ m = 8 ∨ m = 9 then (9, y)
    else if m = 6 ∧ d ≥ thirdWednesdayD m y then (9, y)
    else if m = 4 ∨ m = 5 ∨ m = 6 then (6, y)
    else if m = 3 ∧ d ≥ thirdWednesdayD m y then (6, y)
    else (3, y)
  match thirdWednesday mI yI with
  | .error e => .error e
  | .ok dI => mkDate? dI mI yI

/-- `add_weekdays(n)`: step one day at a time, counting Monday–Friday. -/
def addWeekdaysLoop (fwd : Bool) : Nat → Nat → PyDate → Except PyErr PyDate
  | _, 0, cur => .ok cur
  | 0, _ + 1, _ => .error .other
  | fuel + 1, left + 1, cur =>
    match addDays cur (if fwd then 1 else -1) with
    | .error e => .error e
    | .ok nd => if nd.wd = 5 ∨ nd.wd = 6 then addWeekdaysLoop fwd fuel (left + 1) nd
                else addWeekdaysLoop fwd fuel left nd

def addWeekdays (dt : PyDate) (n : Int) : Except PyErr PyDate :=
  addWeekdaysLoop (decide (n > 0)) (n.natAbs * 3 + 7) n.natAbs dt

/-- iterate a fallible step `k` times -/
def iterE (f : PyDate → Except PyErr PyDate) : Nat → PyDate → Except PyErr PyDate
  | 0, x => .ok x
  | k + 1, x => match f x with | .error e => .error e | .ok y => iterE f k y

/-- `add_tenor` on a parsed tenor (`unit`: 1 = days, 2 = weeks, 3 = months, 4 = years), as coded:
days/weeks iterate single steps; months and years iterate then restore the original day-of-month
(`min(self.d, eom.d)`). -/
def addTenor (dt : PyDate) (n : Int) (unit : Int) : Except PyErr PyDate :=
  let s : Int := if n ≥ 0 then 1 else -1
  match mkDate? dt.d dt.m dt.y with
  | .error e => .error e
  | .ok d0 =>
    if unit = 1 then iterE (fun x => addDays x s) n.natAbs d0
    else if unit = 2 then iterE (fun x => addDays x (7 * s)) n.natAbs d0
    else if unit = 3 then
      match iterE (fun x => addMonths x s) n.natAbs d0 with
      | .error e => .error e
      | .ok r =>
        match eom r with
        | .error e => .error e
        | .ok e => mkDate? (min dt.d e.d) r.m r.y
    else if unit = 4 then
      match iterE (fun x => addMonths x (12 * s)) n.natAbs d0 with
      | .error e => .error e
      | .ok r =>
        match eom r with
        | .error e => .error e
        | .ok e => mkDate? (min dt.d e.d) r.m r.y
    else .ok d0

/-- The date-table state: `E` = `g_end_year`.  Constructing a date in year `y > E` extends the
table; `add_days` walking past 31 Dec `E` extends it too. -/
structure TableState where
  E : Int
  deriving Repr

def TableState.init : TableState := ⟨g_end_year⟩

/-- `Date(d, m, y)` against the table state. -/
def construct (s : TableState) (d m y : Int) : TableState × Except PyErr PyDate :=
  match mkDate? d m y with
  | .error e =>
    -- the table is extended before the day/month validation runs
    (if y ≥ 1900 ∧ y > s.E then ⟨y⟩ else s, .error e)
  | .ok r => (if y > s.E then ⟨y⟩ else s, .ok r)

/-- `dt.add_days(n)` against the table state: the walk extends the table a year at a time when it
reaches the end, then `Date(d, m, y)` is constructed; the result never depends on `E`. -/
def addDaysT (s : TableState) (dt : PyDate) (n : Int) : TableState × Except PyErr PyDate :=
  match addDays dt n with
  | .error e => (s, .error e)
  | .ok r => (if r.y > s.E then ⟨r.y⟩ else s, .ok r)

end FinVerif.Model
