/-
  Executable stand-ins (Float only) for SciPy's `norm.cdf` / `norm.pdf`, which `bachelier.py` calls and which
  are not part of the repository.  Used ONLY by the Float driver (correspondence); theorems about Bachelier
  are stated for an abstract pair `(Ncdf, npdf)` (`Gen/BSP.lean`).

  `normCdf` is Marsaglia's series  Φ(x) = 1/2 + φ(x) · Σ_{n≥0} x^{2n+1}/(2n+1)!!  (absolute accuracy ≈ 1e-16 for
  |x| ≤ 8, outside 0 / 1), checked against `scipy.stats.norm.cdf` on every run of the C05 check.
-/
namespace FinVerif

def normPdf (x : Float) : Float := Float.exp (-(x * x) / 2.0) / Float.sqrt (2.0 * 3.141592653589793)

def normCdfSeries : Nat → Float → Float → Float → Float → Float
  | 0, s, _, _, _ => s
  | fuel + 1, s, b, q, i =>
    let i' := i + 2.0
    let b' := b * q / i'
    let s' := s + b'
    if s' == s then s else normCdfSeries fuel s' b' q i'

def normCdf (x : Float) : Float :=
  if x < -8.0 then 0.0
  else if x > 8.0 then 1.0
  else
    let q := x * x
    let s := normCdfSeries 400 x x q 1.0
    0.5 + s * Float.exp (-0.5 * q - 0.91893853320467274178)

end FinVerif
