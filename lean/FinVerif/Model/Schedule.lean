/- The model of `Schedule.generate`: the generic algorithm at the model of the code's Date/Calendar. -/
import FinVerif.Core.ScheduleAlgo
import FinVerif.Core.CDSAlgo
import FinVerif.Model.DateArith

namespace FinVerif.Model
open FinVerif

def schedOps (cal conv : Int) : Sched.Ops :=
  { adjust := adjust cal conv, addMonths := addMonths, eom := eom }

/-- `Schedule(eff, term, freq, cal, conv, rule, adjust_term, eom)` then `.adjusted_dts`; with
`regen = true` the result of calling `generate()` a second time (termination date overwritten). -/
def schedule (eff term : PyDate) (numMonths cal conv : Int) (backward adjTerm eomFlag regen : Bool) :
    Except PyErr (List PyDate) :=
  if eff.serial ≥ term.serial then .error .finError else
  let p : Sched.Params := { effective := eff, termination := term, numMonths := numMonths, backward := backward,
                            adjustTermination := adjTerm, endOfMonth := eomFlag }
  match Sched.generate (schedOps cal conv) p 5000 with
  | .error e => .error e
  | .ok r =>
    if regen then
      -- a second generate() anchors on `self.termination_dt`, which the first call overwrote with
      -- its adjusted value
      match Sched.generate (schedOps cal conv) { p with termination := r.termination } 5000 with
      | .error e => .error e
      | .ok r2 => .ok r2.dates
    else .ok r.dates

end FinVerif.Model

namespace FinVerif.Model
open FinVerif

/-- `CDS(step_in, maturity, cpn, …, freq, dc, cal, conv, rule)` → payment and accrual-start dates. -/
def cdsDates (stepIn maturity : PyDate) (numMonths cal conv : Int) (backward : Bool) : Except PyErr Sched.CdsDates :=
  Sched.cdsGenerate (schedOps cal conv) stepIn maturity numMonths backward 5000

end FinVerif.Model
