/- The consumers of schedules (`Core/ScheduleUse.lean`) at the model of the code's Date/Calendar. -/
import FinVerif.Core.ScheduleUse
import FinVerif.Model.Schedule

namespace FinVerif.Model
open FinVerif

/-- `CDS(step_in, maturity, …)` → payment, accrual-start and accrual-end dates. -/
def cdsDatesFull (stepIn maturity : PyDate) (numMonths cal conv : Int) (backward : Bool) :
    Except PyErr Sched.CdsDatesFull :=
  Sched.cdsGenerateFull (schedOps cal conv) addDays stepIn maturity numMonths backward 5000

/-- `SwapFixedLeg(eff, term, …, payment_lag, cal, conv, rule, eom)` / `SwapFloatLeg(…)` date lists: the constructor
adjusts the termination date (the leg's maturity date) and rejects an effective date after it, then
`generate_payments` builds `Schedule(eff, term, freq, cal, conv, rule, end_of_month=eom)` (termination adjusted by
default) and runs the period loop. -/
def legDates (eff term : PyDate) (numMonths cal conv : Int) (backward eomFlag : Bool) (lag : Int) :
    Except PyErr Sched.LegDates :=
  match adjust cal conv term with
  | .error e => .error e
  | .ok mat =>
    if eff.serial > mat.serial then .error .finError else
    match schedule eff term numMonths cal conv backward true eomFlag false with
    | .error e => .error e
    | .ok s => Sched.legDates (addBusinessDays cal) lag s

end FinVerif.Model
