/-
  C01 — bootstrapped curves reprice their instruments.  Theorems about the bootstrap skeleton of
  `IborSingleCurve._build_curve_using_1d_solver` (same in `OISCurve`, `IborDualCurve`): knots are appended one per
  instrument, the new knot's df is a closed form (deposits) or the result of a 1-d root search (FRAs, swaps), and the
  interpolation is the model of C02 (`uinterp`).  The root finder is a parameter with a postcondition.
-/
import FinVerif.Props.C02a
import FinVerif.Props.C02b
import Mathlib.Tactic.NormNum
import Mathlib.Tactic.FieldSimp
import Mathlib.Tactic.Ring
import Mathlib.Tactic.Linarith

namespace FinVerif.Props.C01
open FinVerif FinVerif.Model.C02

/-- `IborDeposit.value`: `(1 + α r) N df(maturity) / df(settlement)`. -/
noncomputable def depositValue (N α r dfS dfM : ℝ) : ℝ := (1 + α * r) * N * dfM / dfS

/-- The knot the bootstrap appends for a deposit: `depo._maturity_df() * df(settlement)`. -/
noncomputable def depositKnot (α r dfS : ℝ) : ℝ := 1 / (1 + α * r) * dfS

/-- C01: the closed-form deposit knot reprices the deposit at its notional — provided the curve returns the knot's df
at the deposit's maturity date (i.e. query time = knot time; this is the hypothesis the leap-year defect breaks). -/
theorem deposit_knot_reprices (N α r dfS : ℝ) (h1 : 1 + α * r ≠ 0) (hS : dfS ≠ 0) :
    depositValue N α r dfS (depositKnot α r dfS) = N := by
  unfold depositValue depositKnot
  field_simp

/-- What the curve returns at the maturity date when the query time `tq` differs from the knot time `tk`
(flat forwards through the anchor `(0,1)` and the knot `(tk, d)`): `d^(tq/tk)`, so the deposit is mispriced by the
factor `d^(tq/tk - 1)`. -/
theorem deposit_value_off_knot (N α r d x : ℝ) (h1 : 1 + α * r ≠ 0) (hd : d = 1 / (1 + α * r)) :
    depositValue N α r 1 (d * x) = N * x := by
  unfold depositValue
  subst hd
  field_simp

/-- An instrument as the bootstrap sees it: a maturity time and a value functional of the curve that reads the curve
only on `[0, mat]` (deposit: settlement and maturity; FRA: start and end; swap: its payment dates). -/
structure Instr where
  mat : ℝ
  val : (ℝ → Except PyErr ℝ) → ℝ
  reads_up_to_mat : ∀ D D' : ℝ → Except PyErr ℝ, (∀ t, 0 ≤ t → t ≤ mat → D t = D' t) → val D = val D'

/-- C01 `objective_depends_only_on_last_knot` + C02 `interp_local`: once the knot vector reaches an instrument's
maturity, appending any further knots does not change the instrument's value. -/
theorem value_unchanged_by_later_knots (m : Int) (J : Instr) (ts ds st sd : List ℝ)
    (hlen : ds.length = ts.length) (h1 : 1 ≤ ts.length) (h0 : g ts 0 = 0)
    (hmat : J.mat ≤ g ts (ts.length - 1)) :
    J.val (uinterp m (ts ++ st) (ds ++ sd)) = J.val (uinterp m ts ds) := by
  apply J.reads_up_to_mat
  intro t ht0 htm
  exact FinVerif.Props.C02.interp_append_local m ts ds st sd t hlen h1 (by rw [h0]; exact ht0) (le_trans htm hmat)

/-- The sequential bootstrap: one knot per instrument at the instrument's maturity, its df chosen by `solve`
(closed form or root search) from the knots so far. -/
def bootstrap (solve : List ℝ → List ℝ → Instr → ℝ) : List Instr → List ℝ × List ℝ → List ℝ × List ℝ
  | [], s => s
  | I :: rest, (ts, ds) => bootstrap solve rest (ts ++ [I.mat], ds ++ [solve ts ds I])

/-- The bootstrap only ever appends knots. -/
theorem bootstrap_extends (solve : List ℝ → List ℝ → Instr → ℝ) :
    ∀ (instrs : List Instr) (ts ds : List ℝ), ∃ st sd : List ℝ,
      bootstrap solve instrs (ts, ds) = (ts ++ st, ds ++ sd) := by
  intro instrs
  induction instrs with
  | nil => intro ts ds; exact ⟨[], [], by simp [bootstrap]⟩
  | cons I rest ih =>
    intro ts ds
    obtain ⟨st, sd, h⟩ := ih (ts ++ [I.mat]) (ds ++ [solve ts ds I])
    exact ⟨[I.mat] ++ st, [solve ts ds I] ++ sd, by simp [bootstrap, h, List.append_assoc]⟩

theorem g_append_last (ts : List ℝ) (x : ℝ) : g (ts ++ [x]) ((ts ++ [x]).length - 1) = x := by
  simp [g, List.getD_eq_getElem?_getD]

theorem g_append_zero (ts : List ℝ) (x : ℝ) (h1 : 1 ≤ ts.length) : g (ts ++ [x]) 0 = g ts 0 := by
  cases ts with
  | nil => simp at h1
  | cons a l => simp [g]

/-- C01 `bootstrap_preserves_earlier` + `reprice_of_postcondition`, by induction over the instrument list (any number
of instruments): if the solver meets its postcondition `|value| ≤ tol` at the moment it places an instrument's knot,
then on the FINAL curve every instrument still has `|value| ≤ tol`. -/
theorem bootstrap_reprices_all (m : Int) (solve : List ℝ → List ℝ → Instr → ℝ) (tol : ℝ)
    (hpost : ∀ (ts ds : List ℝ) (I : Instr),
      |I.val (uinterp m (ts ++ [I.mat]) (ds ++ [solve ts ds I]))| ≤ tol) :
    ∀ (instrs : List Instr) (ts ds : List ℝ), ds.length = ts.length → 1 ≤ ts.length → g ts 0 = 0 →
      ∀ I ∈ instrs,
        |I.val (uinterp m (bootstrap solve instrs (ts, ds)).1 (bootstrap solve instrs (ts, ds)).2)| ≤ tol := by
  intro instrs
  induction instrs with
  | nil => intro ts ds _ _ _ I hI; simp at hI
  | cons K rest ih =>
    intro ts ds hlen h1 h0 I hI
    have hlen' : (ds ++ [solve ts ds K]).length = (ts ++ [K.mat]).length := by simp [hlen]
    have h1' : 1 ≤ (ts ++ [K.mat]).length := by simp
    have h0' : g (ts ++ [K.mat]) 0 = 0 := by rw [g_append_zero ts _ h1, h0]
    rcases List.mem_cons.mp hI with hIK | hIrest
    · -- the instrument just placed: later knots do not change its value
      subst hIK
      obtain ⟨st, sd, hext⟩ := bootstrap_extends solve rest (ts ++ [I.mat]) (ds ++ [solve ts ds I])
      have hb : bootstrap solve (I :: rest) (ts, ds)
          = ((ts ++ [I.mat]) ++ st, (ds ++ [solve ts ds I]) ++ sd) := by simp [bootstrap, hext]
      rw [hb]
      simp only
      rw [value_unchanged_by_later_knots m I (ts ++ [I.mat]) (ds ++ [solve ts ds I]) st sd hlen' h1' h0'
        (by rw [g_append_last])]
      exact hpost ts ds I
    · have := ih (ts ++ [K.mat]) (ds ++ [solve ts ds K]) hlen' h1' h0' I hIrest
      simpa [bootstrap] using this

/-- `reprice_of_postcondition`: a root of the objective `value/notional` within `tol` means the instrument's value is
within `tol * |notional|` of par. -/
theorem reprice_of_postcondition (v N tol : ℝ) (hN : N ≠ 0) (h : |v / N| ≤ tol) : |v| ≤ tol * |N| := by
  rw [abs_div] at h
  have hpos : 0 < |N| := abs_pos.mpr hN
  rwa [div_le_iff₀ hpos] at h

/-- The curve date keeps df = 1 through the whole bootstrap (the anchor knot is never moved). -/
theorem bootstrap_df0 (m : Int) (solve : List ℝ → List ℝ → Instr → ℝ) (instrs : List Instr) (ts ds : List ℝ)
    (h1 : 1 ≤ ts.length) (hlen : ds.length = ts.length) (h0 : g ts 0 = 0) (hd : g ds 0 = 1) :
    uinterp m (bootstrap solve instrs (ts, ds)).1 (bootstrap solve instrs (ts, ds)).2 0 = .ok 1 := by
  obtain ⟨st, sd, hext⟩ := bootstrap_extends solve instrs ts ds
  rw [hext]
  simp only
  have ht : g (ts ++ st) 0 = 0 := by rw [g_append_left ts st 0 (by omega), h0]
  have hdd : g (ds ++ sd) 0 = 1 := by rw [g_append_left ds sd 0 (by omega), hd]
  have hn : (ts ++ st).length ≠ 0 := by rw [List.length_append]; omega
  have h := uinterp_first m (ts ++ st) (ds ++ sd) hn
  rw [ht, hdd] at h
  exact h

/-- Non-vacuity of `Instr`: a deposit (settlement time `tS`, maturity time `tM`) valued off the curve reads the curve
at `tS` and `tM` only. -/
noncomputable def depositInstr (N α r tS tM : ℝ) (hS : 0 ≤ tS) (hSM : tS ≤ tM) : Instr where
  mat := tM
  val := fun D => match D tS, D tM with
    | .ok a, .ok b => depositValue N α r a b - N
    | _, _ => 0
  reads_up_to_mat := by
    intro D D' h
    rw [h tS hS hSM, h tM (le_trans hS hSM) (le_refl _)]

/-- Counterexample (known defect, C01/leap-time-axis): curve dated 1-Jun-2019, one deposit maturing 1-Jun-2020 with
`1/(1 + α r) = 0.97`; the bootstrap places the knot at 366/365 but the deposit is valued at the ACT/ACT ISDA time
214/365 + 152/366, where the curve returns `v ≠ 0.97`: the deposit does not reprice at its notional. -/
theorem leap_deposit_not_repriced :
    ∃ v, uinterp 1 [0, 366 / 365] [1, depositKnot 1 (3 / 97) 1] (214 / 365 + 152 / 366) = .ok v ∧
      depositValue 1 1 (3 / 97) 1 v ≠ 1 := by
  have hk : depositKnot 1 (3 / 97) 1 = (0.97 : ℝ) := by unfold depositKnot; norm_num
  rw [hk]
  obtain ⟨v, hv, hne, _⟩ := FinVerif.Props.C02.leap_pillar_not_reproduced
  refine ⟨v, hv, ?_⟩
  unfold depositValue
  intro h
  apply hne
  have : (100 / 97 : ℝ) * v = 1 := by
    have h2 : (1 + 1 * (3 / 97 : ℝ)) * 1 * v / 1 = 100 / 97 * v := by ring
    rw [h2] at h; exact h
  have : v = 97 / 100 := by linarith
  rw [this]; norm_num

end FinVerif.Props.C01
