/-
  C01 (part b) — the closed forms and 1-d objectives of the bootstrap, as GENERATED from the source
  (`Gen/RatesR.lean`  <-  `IborDeposit._maturity_df / value`, `IborFRA.value / maturity_df`,
  `IborFuture.futures_rate / fra_rate / convexity`; registry `tools/py2lean/registry/rates.py`).

  What is proved here (for all real inputs meeting the stated non-degeneracy hypotheses):
    * the hand definitions of `Props/C01.lean` ARE the generated code (`depositValue_is_generated`, …), so the theorems of
      part (a) are statements about what the source says now;
    * deposit: closed-form knot ⇒ value = notional; value = notional ⇔ the simple rate implied by the curve is the quote;
      the solver-free post-condition `|value/N − 1| ≤ tol` bounds the implied-rate error;
    * FRA: the closed-form knot (`maturity_df`) zeroes `value` for ANY discounting curve (dual-curve included);
      `value = 0` ⇔ curve forward = quote; the root the 1-d search looks for is unique and IS the closed form;
      `|value/N| ≤ tol` ⇒ `|forward − quote| ≤ tol / (α · df_mat/df_value)`; single-curve objective is affine in the knot
      (so a secant step from any two distinct points is exact), dual-curve objective is strictly monotone in the knot;
    * futures → FRA: `fra_rate = futures_rate − |convexity|/100` (so never above the futures rate, even in the sign of the
      convexity argument), Ho–Lee limit of `convexity` is `t1 t2 σ²/2 ≥ 0`; a FRA made by `to_fra` and bootstrapped with its
      closed-form knot makes the curve's forward equal to the convexity-adjusted futures rate.
-/
import FinVerif.Props.C01
import FinVerif.Gen.RatesR
import Mathlib.Tactic.Positivity
import Mathlib.Tactic.LinearCombination

set_option linter.unusedVariables false
set_option linter.unusedSimpArgs false

namespace FinVerif.Props.C01
open FinVerif FinVerif.Gen

/-! ### the hand definitions of part (a) are the generated code -/

/-- `depositKnot` (part a) is `IborDeposit._maturity_df() * df(settlement)` as generated. -/
theorem depositKnot_is_generated (α r dfS : ℝ) :
    depositKnot α r dfS = RatesR.deposit_maturity_df α r * dfS := by
  simp only [depositKnot, RatesR.deposit_maturity_df]

/-- `depositValue` (part a) is `IborDeposit.value` as generated, for every valuation date not after the maturity date;
after it the generated code raises `FinError` (as the source does). -/
theorem depositValue_is_generated (vd mat : Int) (N α r dfS dfM : ℝ) :
    RatesR.deposit_value vd α dfS dfM r N mat =
      if vd > mat then .error .finError else .ok (depositValue N α r dfS dfM) := by
  by_cases h : vd > mat
  · simp [RatesR.deposit_value, h]
  · simp [RatesR.deposit_value, h, depositValue]

/-- C01, deposits, on the generated code: the knot the bootstrap appends (`_maturity_df() * df(settlement)`) makes
`IborDeposit.value` return exactly the notional — whenever the curve returns the knot's df at the maturity date. -/
theorem gen_deposit_knot_reprices (vd mat : Int) (hvd : vd ≤ mat) (N α r dfS : ℝ) (h1 : 1 + α * r ≠ 0) (hS : dfS ≠ 0) :
    RatesR.deposit_value vd α dfS (RatesR.deposit_maturity_df α r * dfS) r N mat = .ok N := by
  rw [depositValue_is_generated, if_neg (by omega), ← depositKnot_is_generated,
    deposit_knot_reprices N α r dfS h1 hS]

example : RatesR.deposit_value 44000 (1 / 4) (99 / 100) (RatesR.deposit_maturity_df (1 / 4) (2 / 100) * (99 / 100))
    (2 / 100) 100 44090 = .ok 100 :=
  gen_deposit_knot_reprices _ _ (by norm_num) _ _ _ _ (by norm_num) (by norm_num)

/-- The simple rate the curve implies over the deposit period: `(df(settle)/df(maturity) − 1)/α`
(`valuation_details()['market_rate']`). -/
noncomputable def impliedRate (α dfS dfM : ℝ) : ℝ := (dfS / dfM - 1) / α

/-- C01, deposits: the deposit is worth its notional **iff** the rate implied by the curve is the quoted rate. -/
theorem deposit_par_iff_implied_rate (N α r dfS dfM : ℝ) (hN : N ≠ 0) (hα : α ≠ 0) (hS : dfS ≠ 0) (hM : dfM ≠ 0) :
    depositValue N α r dfS dfM = N ↔ impliedRate α dfS dfM = r := by
  unfold depositValue impliedRate
  constructor
  · intro h
    have h1 : (1 + α * r) * N * dfM = N * dfS := by rwa [div_eq_iff hS] at h
    have h' : (1 + α * r) * dfM = dfS := by
      apply mul_left_cancel₀ hN; linear_combination h1
    have h2 : dfS / dfM = 1 + α * r := by rw [div_eq_iff hM]; linarith
    rw [h2, add_sub_cancel_left, mul_div_cancel_left₀ _ hα]
  · intro h
    have h2 : dfS / dfM = 1 + α * r := by
      rw [div_eq_iff hα] at h; linarith
    have h' : dfS = (1 + α * r) * dfM := by rwa [div_eq_iff hM] at h2
    rw [div_eq_iff hS, h']; ring

example : depositValue 100 (1 / 2) (4 / 100) 1 (100 / 102) = 100 ∧ impliedRate (1 / 2) 1 (100 / 102) = 4 / 100 := by
  constructor <;> norm_num [depositValue, impliedRate]

/-- C01, deposits: the error of the repricing oracle in rate terms. With positive dfs and `α > 0`,
`value/N − 1 = α (r − r_implied) · df(maturity)/df(settle)`; hence `|value/N − 1| ≤ tol` bounds the rate error by
`tol / (α · dfM/dfS)`. -/
theorem deposit_error_in_rate_terms (N α r dfS dfM : ℝ) (hN : N ≠ 0) (hα : α ≠ 0) (hS : dfS ≠ 0) (hM : dfM ≠ 0) :
    depositValue N α r dfS dfM / N - 1 = α * (r - impliedRate α dfS dfM) * (dfM / dfS) := by
  unfold depositValue impliedRate
  field_simp
  ring

theorem deposit_postcondition_rate_error (N α r dfS dfM tol : ℝ) (hN : N ≠ 0) (hα : 0 < α) (hS : 0 < dfS) (hM : 0 < dfM)
    (h : |depositValue N α r dfS dfM / N - 1| ≤ tol) :
    |r - impliedRate α dfS dfM| ≤ tol / (α * (dfM / dfS)) := by
  rw [deposit_error_in_rate_terms N α r dfS dfM hN hα.ne' hS.ne' hM.ne'] at h
  have hk : 0 < α * (dfM / dfS) := by positivity
  rw [le_div_iff₀ hk]
  have : |α * (r - impliedRate α dfS dfM) * (dfM / dfS)| = |r - impliedRate α dfS dfM| * (α * (dfM / dfS)) := by
    rw [show α * (r - impliedRate α dfS dfM) * (dfM / dfS) = (r - impliedRate α dfS dfM) * (α * (dfM / dfS)) by ring,
      abs_mul, abs_of_pos hk]
  rwa [this] at h

/-! ### FRA: `IborFRA.value` and `IborFRA.maturity_df` as generated -/

/-- Shape of the generated `IborFRA.value` (pv_only): `± α (fwd − K) df_mat N / df_value`, `fwd = (df1/df2 − 1)/α`,
the sign being `−` for `pay_fixed_rate = True`. -/
theorem fra_value_shape (α d1 d2 dm dv K N : ℝ) (pay : Bool) :
    RatesR.fra_value α d1 d2 dm dv K N pay =
      (if pay then -1 else 1) * (α * ((d1 / d2 - 1) / α - K) * dm * N / dv) := by
  cases pay <;> simp [RatesR.fra_value]

/-- The forward rate the index curve implies over the FRA period. -/
noncomputable def fraForward (α d1 d2 : ℝ) : ℝ := (d1 / d2 - 1) / α

/-- C01, FRAs, closed-form branch: the knot `IborFRA.maturity_df` returns (`df1 / (1 + α K)`) makes `IborFRA.value`
exactly zero — for ANY discount-curve values `dm`, `dv` (single curve: `dm` = the same knot; dual curve: read off the OIS
curve), either sign convention. -/
theorem fra_closed_form_knot_reprices (α d1 dm dv K N : ℝ) (pay : Bool) (hα : α ≠ 0) (h1 : 1 + α * K ≠ 0) (hd1 : d1 ≠ 0) :
    RatesR.fra_value α d1 (RatesR.fra_maturity_df d1 α K) dm dv K N pay = 0 := by
  rw [fra_value_shape]
  have : (d1 / RatesR.fra_maturity_df d1 α K - 1) / α - K = 0 := by
    simp only [RatesR.fra_maturity_df]
    field_simp
    ring
  rw [this]
  ring

example : RatesR.fra_value (1 / 4) (98 / 100) (RatesR.fra_maturity_df (98 / 100) (1 / 4) (3 / 100)) (97 / 100) 1
    (3 / 100) 1000000 false = 0 :=
  fra_closed_form_knot_reprices _ _ _ _ _ _ _ (by norm_num) (by norm_num) (by norm_num)

/-- C01, FRAs: the FRA is worth zero **iff** the forward implied by the index curve is the quoted FRA rate
(non-degenerate accrual, discount factors and notional). -/
theorem fra_zero_iff_forward_eq_quote (α d1 d2 dm dv K N : ℝ) (pay : Bool) (hα : α ≠ 0) (hm : dm ≠ 0) (hv : dv ≠ 0)
    (hN : N ≠ 0) :
    RatesR.fra_value α d1 d2 dm dv K N pay = 0 ↔ fraForward α d1 d2 = K := by
  rw [fra_value_shape]
  unfold fraForward
  have hs : (if pay then (-1 : ℝ) else 1) ≠ 0 := by cases pay <;> norm_num
  constructor
  · intro h
    rcases mul_eq_zero.mp h with h | h
    · exact absurd h hs
    · have h2 : α * ((d1 / d2 - 1) / α - K) * dm * N = 0 := by
        rcases div_eq_zero_iff.mp h with h | h
        · exact h
        · exact absurd h hv
      have h3 : (d1 / d2 - 1) / α - K = 0 := by
        rcases mul_eq_zero.mp h2 with h | h
        · rcases mul_eq_zero.mp h with h | h
          · rcases mul_eq_zero.mp h with h | h
            · exact absurd h hα
            · exact h
          · exact absurd h hm
        · exact absurd h hN
      linarith
  · intro h
    rw [h]
    ring

/-- C01, FRAs: **the root of the 1-d search is unique and is the closed form** — if `value = 0` (the exact post-condition
of the root search `_g`) then the knot is `df1 / (1 + α K)`, i.e. what `maturity_df` returns.  So the two branches of the
FRA loop (closed form / Newton) place the same knot given the same `df(start)`. -/
theorem fra_root_is_closed_form (α d1 d2 dm dv K N : ℝ) (pay : Bool) (hα : α ≠ 0) (hm : dm ≠ 0) (hv : dv ≠ 0)
    (hN : N ≠ 0) (hd2 : d2 ≠ 0) (h1 : 1 + α * K ≠ 0)
    (h : RatesR.fra_value α d1 d2 dm dv K N pay = 0) :
    d2 = RatesR.fra_maturity_df d1 α K := by
  have hf := (fra_zero_iff_forward_eq_quote α d1 d2 dm dv K N pay hα hm hv hN).mp h
  unfold fraForward at hf
  simp only [RatesR.fra_maturity_df]
  have h2 : d1 / d2 = 1 + α * K := by
    have := hf
    field_simp at this
    field_simp
    linear_combination this
  rw [eq_div_iff h1, ← h2]
  field_simp

/-- C01, FRAs: the repricing error in rate terms: `value/N = ± α (fwd − K) · df_mat/df_value`. -/
theorem fra_error_in_rate_terms (α d1 d2 dm dv K N : ℝ) (pay : Bool) (hN : N ≠ 0) :
    RatesR.fra_value α d1 d2 dm dv K N pay / N =
      (if pay then -1 else 1) * (α * (fraForward α d1 d2 - K) * (dm / dv)) := by
  rw [fra_value_shape]
  unfold fraForward
  field_simp

/-- C01, FRAs, `reprice_of_postcondition` in rate terms: the solver's post-condition `|value/N| ≤ tol` bounds the distance
between the curve's forward and the quote by `tol / (α · df_mat/df_value)`. -/
theorem fra_postcondition_rate_error (α d1 d2 dm dv K N tol : ℝ) (pay : Bool) (hN : N ≠ 0) (hα : 0 < α) (hm : 0 < dm)
    (hv : 0 < dv) (h : |RatesR.fra_value α d1 d2 dm dv K N pay / N| ≤ tol) :
    |fraForward α d1 d2 - K| ≤ tol / (α * (dm / dv)) := by
  rw [fra_error_in_rate_terms α d1 d2 dm dv K N pay hN] at h
  have hk : 0 < α * (dm / dv) := by positivity
  rw [le_div_iff₀ hk]
  have hs : |(if pay then (-1 : ℝ) else 1)| = 1 := by cases pay <;> simp
  have : |(if pay then (-1 : ℝ) else 1) * (α * (fraForward α d1 d2 - K) * (dm / dv))|
      = |fraForward α d1 d2 - K| * (α * (dm / dv)) := by
    rw [abs_mul, hs, one_mul,
      show α * (fraForward α d1 d2 - K) * (dm / dv) = (fraForward α d1 d2 - K) * (α * (dm / dv)) by ring,
      abs_mul, abs_of_pos hk]
  rwa [this] at h

/-- C01, "well below 0.01bp of rate": with the root finder's tolerance `1e-10` on `value/N`, the curve's forward is within
`1e-6` (0.01bp) of the FRA quote as soon as `α · df_mat/df_value ≥ 1e-4` (e.g. a one-day accrual discounted at 0.04). -/
theorem fra_postcondition_below_hundredth_bp (α d1 d2 dm dv K N : ℝ) (pay : Bool) (hN : N ≠ 0) (hα : 0 < α) (hm : 0 < dm)
    (hv : 0 < dv) (hscale : 1e-4 ≤ α * (dm / dv)) (h : |RatesR.fra_value α d1 d2 dm dv K N pay / N| ≤ 1e-10) :
    |fraForward α d1 d2 - K| ≤ 1e-6 := by
  have h1 := fra_postcondition_rate_error α d1 d2 dm dv K N 1e-10 pay hN hα hm hv h
  have hk : 0 < α * (dm / dv) := by positivity
  refine le_trans h1 ?_
  rw [div_le_iff₀ hk]
  calc (1e-10 : ℝ) = 1e-6 * 1e-4 := by norm_num
    _ ≤ 1e-6 * (α * (dm / dv)) := by apply mul_le_mul_of_nonneg_left hscale; norm_num

/-- The same for deposits: `|value/N − 1| ≤ 1e-10` and `α · df(mat)/df(settle) ≥ 1e-4` put the implied rate within 0.01bp. -/
theorem deposit_postcondition_below_hundredth_bp (N α r dfS dfM : ℝ) (hN : N ≠ 0) (hα : 0 < α) (hS : 0 < dfS) (hM : 0 < dfM)
    (hscale : 1e-4 ≤ α * (dfM / dfS)) (h : |depositValue N α r dfS dfM / N - 1| ≤ 1e-10) :
    |r - impliedRate α dfS dfM| ≤ 1e-6 := by
  have h1 := deposit_postcondition_rate_error N α r dfS dfM 1e-10 hN hα hS hM h
  have hk : 0 < α * (dfM / dfS) := by positivity
  refine le_trans h1 ?_
  rw [div_le_iff₀ hk]
  calc (1e-10 : ℝ) = 1e-6 * 1e-4 := by norm_num
    _ ≤ 1e-6 * (α * (dfM / dfS)) := by apply mul_le_mul_of_nonneg_left hscale; norm_num

/-- Single-curve objective `_g(x)` (IborSingleCurve / OISCurve; the FRA's maturity IS the last knot, so the discount
factor at maturity and the index df at maturity are both the unknown `x`): it is **affine** in `x`,
`± (d1 − (1 + α K) x) N / dv`. -/
theorem fra_single_curve_objective_affine (α d1 x dv K N : ℝ) (pay : Bool) (hα : α ≠ 0) (hx : x ≠ 0) :
    RatesR.fra_value α d1 x x dv K N pay = (if pay then -1 else 1) * ((d1 - (1 + α * K) * x) * N / dv) := by
  rw [fra_value_shape]
  congr 1
  field_simp
  ring

/-- A secant step on an affine function lands on its root from any two distinct points (scipy's `newton` without
`fprime` is the secant method): with `fra_single_curve_objective_affine` the single-curve FRA search is exact after one
update, whatever the start. -/
theorem secant_step_exact_of_affine (a b x0 x1 : ℝ) (ha : a ≠ 0) (hx : x0 ≠ x1) :
    let f := fun x : ℝ => a * x + b
    f (x1 - f x1 * (x1 - x0) / (f x1 - f x0)) = 0 := by
  intro f
  have hd : a * x1 + b - (a * x0 + b) ≠ 0 := by
    have : a * x1 + b - (a * x0 + b) = a * (x1 - x0) := by ring
    rw [this]
    exact mul_ne_zero ha (sub_ne_zero.mpr (Ne.symm hx))
  show a * (x1 - (a * x1 + b) * (x1 - x0) / (a * x1 + b - (a * x0 + b))) + b = 0
  field_simp
  ring

/-- Dual-curve objective `_g(x)` (IborDualCurve: discounting off the fixed OIS curve, only the index knot `x` moves):
with positive dfs, accrual and notional it is **strictly decreasing** in the knot (receive-fixed sign reverses it), so a
sign change brackets exactly one root. -/
theorem fra_dual_objective_strictAnti (α d1 dm dv K N : ℝ) (hα : 0 < α) (hd1 : 0 < d1) (hm : 0 < dm) (hv : 0 < dv)
    (hN : 0 < N) (x y : ℝ) (hx : 0 < x) (hxy : x < y) :
    RatesR.fra_value α d1 y dm dv K N false < RatesR.fra_value α d1 x dm dv K N false := by
  rw [fra_value_shape, fra_value_shape]
  simp only [Bool.false_eq_true, if_false, one_mul]
  have hy : 0 < y := lt_trans hx hxy
  have h1 : d1 / y < d1 / x := div_lt_div_of_pos_left hd1 hx hxy
  have h2 : α * ((d1 / y - 1) / α - K) < α * ((d1 / x - 1) / α - K) := by
    have e1 : α * ((d1 / y - 1) / α - K) = d1 / y - 1 - α * K := by field_simp
    have e2 : α * ((d1 / x - 1) / α - K) = d1 / x - 1 - α * K := by field_simp
    rw [e1, e2]; linarith
  have h3 : α * ((d1 / y - 1) / α - K) * dm * N < α * ((d1 / x - 1) / α - K) * dm * N := by
    have := mul_lt_mul_of_pos_right h2 hm
    exact mul_lt_mul_of_pos_right this hN
  exact div_lt_div_of_pos_right h3 hv

/-- Sign of the objective on either side of the root (what a bracketing start relies on): above the closed-form knot
the (pay-floating sign) objective is negative, below it positive. -/
theorem fra_objective_sign (α d1 dm dv K N x : ℝ) (hα : 0 < α) (hd1 : 0 < d1) (hm : 0 < dm) (hv : 0 < dv) (hN : 0 < N)
    (h1 : 0 < 1 + α * K) (hx : 0 < x) :
    (RatesR.fra_maturity_df d1 α K < x → RatesR.fra_value α d1 x dm dv K N false < 0) ∧
    (x < RatesR.fra_maturity_df d1 α K → 0 < RatesR.fra_value α d1 x dm dv K N false) := by
  have hroot : 0 < RatesR.fra_maturity_df d1 α K := by
    simp only [RatesR.fra_maturity_df]; positivity
  have hz := fra_closed_form_knot_reprices α d1 dm dv K N false hα.ne' h1.ne' hd1.ne'
  constructor
  · intro h
    have := fra_dual_objective_strictAnti α d1 dm dv K N hα hd1 hm hv hN _ x hroot h
    rwa [hz] at this
  · intro h
    have := fra_dual_objective_strictAnti α d1 dm dv K N hα hd1 hm hv hN x _ hx h
    rwa [hz] at this

/-- Pay-fixed flag: the generated value changes sign and nothing else. -/
theorem fra_value_pay_fixed_neg (α d1 d2 dm dv K N : ℝ) :
    RatesR.fra_value α d1 d2 dm dv K N true = -RatesR.fra_value α d1 d2 dm dv K N false := by
  rw [fra_value_shape, fra_value_shape]; simp

/-! ### futures → FRA (`IborFuture.futures_rate`, `fra_rate`, `convexity`, used by `to_fra`) -/

/-- `IborFuture.fra_rate` subtracts the absolute value of the convexity argument (in percent) from the futures rate. -/
theorem futures_fra_rate_eq (p c : ℝ) :
    RatesR.futures_fra_rate p c = RatesR.futures_rate p - |c| / 100 := by
  simp only [RatesR.futures_fra_rate, RatesR.futures_rate]
  by_cases h : c < 0
  · simp [h, abs_of_neg h]; ring
  · have h' : 0 ≤ c := not_lt.mp h
    simp [h, abs_of_nonneg h']

/-- The FRA rate made from a future is never above the futures rate (the convexity correction only lowers it). -/
theorem futures_fra_rate_le_futures_rate (p c : ℝ) : RatesR.futures_fra_rate p c ≤ RatesR.futures_rate p := by
  rw [futures_fra_rate_eq]
  have : 0 ≤ |c| / 100 := by positivity
  linarith

/-- `fra_rate` is even in the convexity argument (BBG quotes it negative, Hull's formula gives it positive). -/
theorem futures_fra_rate_even (p c : ℝ) : RatesR.futures_fra_rate p (-c) = RatesR.futures_fra_rate p c := by
  rw [futures_fra_rate_eq, futures_fra_rate_eq, abs_neg]

/-- With no convexity the FRA rate is the futures rate `(100 − price)/100`. -/
theorem futures_fra_rate_zero_convexity (p : ℝ) : RatesR.futures_fra_rate p 0 = (100 - p) / 100 := by
  rw [futures_fra_rate_eq]; simp [RatesR.futures_rate]

/-- A higher futures price is a strictly lower FRA rate (one price point = one percent of rate). -/
theorem futures_fra_rate_strictAnti_in_price (p q c : ℝ) (h : p < q) :
    RatesR.futures_fra_rate q c < RatesR.futures_fra_rate p c := by
  rw [futures_fra_rate_eq, futures_fra_rate_eq]
  simp only [RatesR.futures_rate]
  have : (100 - q) / 100 < (100 - p) / 100 := by
    apply div_lt_div_of_pos_right _ (by norm_num); linarith
  linarith

/-- Ho–Lee limit (`|a| ≤ 1e-10`) of `IborFuture.convexity`: `t1 t2 σ²/2`, non-negative for dates after the value date. -/
theorem futures_convexity_holee (t1 t2 σ a : ℝ) (ha : |a| ≤ 1e-10) :
    RatesR.futures_convexity t1 t2 σ a = t1 * t2 * σ ^ 2 / 2 := by
  have h : ¬ (|a| > (1e-10 : ℝ)) := not_lt.mpr ha
  simp [RatesR.futures_convexity, h]

theorem futures_convexity_holee_nonneg (t1 t2 σ a : ℝ) (ha : |a| ≤ 1e-10) (h1 : 0 ≤ t1) (h2 : 0 ≤ t2) :
    0 ≤ RatesR.futures_convexity t1 t2 σ a := by
  rw [futures_convexity_holee t1 t2 σ a ha]
  positivity

/-- Hull–White branch (`a > 1e-10`) of `IborFuture.convexity` is positive for `0 < t1 < t2`, `σ ≠ 0`. -/
theorem futures_convexity_hw_pos (t1 t2 σ a : ℝ) (ha : 1e-10 < a) (h1 : 0 < t1) (h12 : t1 < t2) (hσ : σ ≠ 0) :
    0 < RatesR.futures_convexity t1 t2 σ a := by
  have ha0 : 0 < a := lt_trans (by norm_num) ha
  have h : |a| > (1e-10 : ℝ) := by rw [abs_of_pos ha0]; exact ha
  simp only [RatesR.futures_convexity, h, decide_true, if_true]
  have e1 : Real.exp (-a * (t2 - t1)) < 1 := by
    rw [Real.exp_lt_one_iff]; nlinarith
  have e2 : Real.exp (-a * (t1 - 0)) < 1 := by
    rw [Real.exp_lt_one_iff]; nlinarith
  have e3 : Real.exp (-2 * a * t1) < 1 := by
    rw [Real.exp_lt_one_iff]; nlinarith
  have hB : 0 < (1 - Real.exp (-a * (t2 - t1))) / a := div_pos (by linarith) ha0
  have hW : 0 < 1 - Real.exp (-2 * a * t1) := by linarith
  have hσ2 : 0 < σ ^ 2 := by positivity
  have hT : 0 < t2 - t1 := by linarith
  have hterm : 0 < (1 - Real.exp (-a * (t2 - t1))) / a * (1 - Real.exp (-2 * a * t1))
      + 2 * a * ((1 - Real.exp (-a * (t1 - 0))) / a) ^ 2 := by positivity
  positivity

example : 0 < RatesR.futures_convexity (1 / 2) (3 / 4) (1 / 100) (3 / 100) :=
  futures_convexity_hw_pos _ _ _ _ (by norm_num) (by norm_num) (by norm_num) (by norm_num)

/-- End to end for a futures-implied FRA on the closed-form branch: a FRA struck at `fra_rate(price, convexity)` and
bootstrapped with `maturity_df` makes the curve's forward over the futures period equal to
`futures_rate − |convexity|/100`. -/
theorem futures_fra_bootstrapped_forward (p c α d1 : ℝ) (hα : α ≠ 0) (hd1 : d1 ≠ 0)
    (h1 : 1 + α * RatesR.futures_fra_rate p c ≠ 0) :
    fraForward α d1 (RatesR.fra_maturity_df d1 α (RatesR.futures_fra_rate p c)) = RatesR.futures_rate p - |c| / 100 := by
  rw [← futures_fra_rate_eq]
  unfold fraForward
  simp only [RatesR.fra_maturity_df]
  field_simp
  ring

end FinVerif.Props.C01
