/-
  C01 (part c) — swaps in the bootstrap.  The objective `_f` of IborSingleCurve / OISCurve / IborDualCurve is
  `swap.value(value_dt, discount_curve, index_curve, None) / swap.fixed_leg.notional`; `swap.value` is C06's model
  (`Model/C06.lean`: the valuation loops of `SwapFixedLeg.value`, `SwapFloatLeg.value`, `IborSwap.value`, `OIS.value`, tied
  to the implementation by C06's correspondence and, for the swaps of every bootstrapped curve, by this check's).

  Proved here, for any curves, schedules of any length, either leg direction:
    * `swap value = ± N · annuity · (par − coupon)` and hence `value = 0 ⇔ coupon = par rate`; the post-condition
      `|value/N| ≤ tol` of the root search bounds `|par − coupon|` by `tol/|annuity|`; the model's `IborSwap.swap_rate`
      returns that par rate, so on a curve that reprices the swap it returns the quote;
    * single curve (projection = discounting, contiguous float periods): `par = (df(start) − df(end))/df(vd)/annuity`,
      value in closed form; the payer objective is STRICTLY DECREASING when the curve is raised at the last date and not
      lowered at the other payment dates, for a non-negative coupon (so the search has at most one root);
    * dual curve: the index curve enters the floating leg only through its forward rates, and the floating leg is LINEAR in
      the vector of forward rates (and spread) — discounting on one curve, projecting on the other.
-/
import FinVerif.Props.C06b
import Mathlib.Data.Real.Basic
import Mathlib.Tactic.Positivity
import Mathlib.Tactic.LinearCombination
import Mathlib.Tactic.FieldSimp
import Mathlib.Tactic.Linarith

set_option linter.unusedVariables false
set_option linter.unusedSimpArgs false
set_option linter.unusedSectionVars false

namespace FinVerif.Props.C01
open FinVerif FinVerif.Spec.C06 FinVerif.Model.C06 FinVerif.Lemmas.C06 FinVerif.Props.C06

/-- The bootstrap objective `_f`: `swap.value(...) / swap.fixed_leg.notional` (first fixing `None`). -/
noncomputable def swapObjective (df : Int → ℝ) (idx : IndexCurve ℝ) (s : Swap ℝ) (vd : Int) : ℝ :=
  swapValue df idx none s vd / s.fixed.notional

/-- Unsigned present value of the floating leg's projected coupons (the receiver's view). -/
noncomputable def floatPV (df : Int → ℝ) (idx : IndexCurve ℝ) (ff : Option ℝ) (N spread : ℝ) (lp : List (Period ℝ))
    (vd : Int) : ℝ :=
  pv df vd (floatFlows idx.df idx.yf ff spread 0 vd (lp.zip (List.replicate lp.length N)))

/-- The par rate: floating PV per unit notional over the fixed-leg annuity. -/
noncomputable def parRate (df : Int → ℝ) (idx : IndexCurve ℝ) (ff : Option ℝ) (N spread : ℝ) (fp lp : List (Period ℝ))
    (vd : Int) : ℝ :=
  floatPV df idx ff N spread lp vd / (N * annuity df vd fp)

/-- `IborSwap.value` = `± coupon · N · annuity  ∓ floating PV` (fixed payer: minus the fixed leg, plus the floating). -/
theorem swap_value_annuity_form (df : Int → ℝ) (idx : IndexCurve ℝ) (ff : Option ℝ) (vd : Int) (s : Bool)
    (c N spread : ℝ) (fp lp : List (Period ℝ)) :
    swapValue df idx ff (mkSwap s c N spread fp lp) vd
      = signed s (c * N * annuity df vd fp) + signed (!s) (floatPV df idx ff N spread lp vd) := by
  rw [swap_eq_fixed_plus_float]
  unfold floatPV fixedFlows
  rw [pv_append, pv_fixedCoupons]
  have : pv df vd (principalFlow 0 (fp.getLast?.map (fun p => (p.pay, N)))) = 0 := by
    cases fp.getLast? with
    | none => simp [principalFlow, pv_nil]
    | some p => simp [principalFlow, pv_cons, pv_nil, Flow.amount]
  rw [this, add_zero]

/-- C01, swaps: **value = ± N · annuity · (par − coupon)** (`+` for the payer of fixed). -/
theorem swap_value_eq_annuity_times_par_minus_coupon (df : Int → ℝ) (idx : IndexCurve ℝ) (ff : Option ℝ) (vd : Int)
    (s : Bool) (c N spread : ℝ) (fp lp : List (Period ℝ)) (hN : N ≠ 0) (hA : annuity df vd fp ≠ 0) :
    swapValue df idx ff (mkSwap s c N spread fp lp) vd
      = signed (!s) (N * annuity df vd fp * (parRate df idx ff N spread fp lp vd - c)) := by
  rw [swap_value_annuity_form]
  unfold parRate
  cases s <;> simp [signed] <;> field_simp <;> ring

/-- C01, swaps: the swap is worth zero **iff** its coupon is the par rate of the curve(s). -/
theorem swap_zero_iff_coupon_eq_par (df : Int → ℝ) (idx : IndexCurve ℝ) (ff : Option ℝ) (vd : Int)
    (s : Bool) (c N spread : ℝ) (fp lp : List (Period ℝ)) (hN : N ≠ 0) (hA : annuity df vd fp ≠ 0) :
    swapValue df idx ff (mkSwap s c N spread fp lp) vd = 0 ↔ parRate df idx ff N spread fp lp vd = c := by
  rw [swap_value_eq_annuity_times_par_minus_coupon df idx ff vd s c N spread fp lp hN hA]
  have hNA : N * annuity df vd fp ≠ 0 := mul_ne_zero hN hA
  constructor
  · intro h
    have h2 : N * annuity df vd fp * (parRate df idx ff N spread fp lp vd - c) = 0 := by
      cases s <;> simpa [signed] using h
    rcases mul_eq_zero.mp h2 with h3 | h3
    · exact absurd h3 hNA
    · linarith
  · intro h
    rw [h]; cases s <;> simp [signed]

/-- The objective `_f` in rate terms: `value/N = ± annuity · (par − coupon)`. -/
theorem swap_objective_in_rate_terms (df : Int → ℝ) (idx : IndexCurve ℝ) (vd : Int)
    (s : Bool) (c N spread : ℝ) (fp lp : List (Period ℝ)) (hN : N ≠ 0) (hA : annuity df vd fp ≠ 0) :
    swapObjective df idx (mkSwap s c N spread fp lp) vd
      = signed (!s) (annuity df vd fp * (parRate df idx none N spread fp lp vd - c)) := by
  unfold swapObjective
  rw [swap_value_eq_annuity_times_par_minus_coupon df idx none vd s c N spread fp lp hN hA]
  have : (mkSwap s c N spread fp lp).fixed.notional = N := rfl
  rw [this]
  cases s <;> simp [signed] <;> field_simp

/-- C01, swaps, `reprice_of_postcondition` in rate terms: the root search's post-condition `|_f| ≤ tol` puts the curve's par
rate within `tol / |annuity|` of the quoted coupon (annuity of a 1Y+ swap is of order ≥ 1, so tol = 1e-10 is far below
0.01bp). -/
theorem swap_postcondition_rate_error (df : Int → ℝ) (idx : IndexCurve ℝ) (vd : Int)
    (s : Bool) (c N spread tol : ℝ) (fp lp : List (Period ℝ)) (hN : N ≠ 0) (hA : annuity df vd fp ≠ 0)
    (h : |swapObjective df idx (mkSwap s c N spread fp lp) vd| ≤ tol) :
    |parRate df idx none N spread fp lp vd - c| ≤ tol / |annuity df vd fp| := by
  rw [swap_objective_in_rate_terms df idx vd s c N spread fp lp hN hA] at h
  have hpos : 0 < |annuity df vd fp| := abs_pos.mpr hA
  rw [le_div_iff₀ hpos]
  have : |signed (!s) (annuity df vd fp * (parRate df idx none N spread fp lp vd - c))|
      = |parRate df idx none N spread fp lp vd - c| * |annuity df vd fp| := by
    cases s <;> simp [signed, abs_mul, mul_comm]
  rwa [this] at h

/-- C01, "well below 0.01bp of rate": with the root finder's tolerance `1e-10` on `_f`, the par rate of the curve is within
`1e-6` (0.01bp) of the swap's coupon as soon as the annuity is at least `1e-4` (any swap of a day or more). -/
theorem swap_postcondition_below_hundredth_bp (df : Int → ℝ) (idx : IndexCurve ℝ) (vd : Int)
    (s : Bool) (c N spread : ℝ) (fp lp : List (Period ℝ)) (hN : N ≠ 0) (hA : 1e-4 ≤ annuity df vd fp)
    (h : |swapObjective df idx (mkSwap s c N spread fp lp) vd| ≤ 1e-10) :
    |parRate df idx none N spread fp lp vd - c| ≤ 1e-6 := by
  have hApos : 0 < annuity df vd fp := lt_of_lt_of_le (by norm_num) hA
  have h1 := swap_postcondition_rate_error df idx vd s c N spread 1e-10 fp lp hN hApos.ne' h
  refine le_trans h1 ?_
  rw [abs_of_pos hApos, div_le_iff₀ hApos]
  calc (1e-10 : ℝ) = 1e-6 * 1e-4 := by norm_num
    _ ≤ 1e-6 * annuity df vd fp := by apply mul_le_mul_of_nonneg_left hA; norm_num

/-- The model of `IborSwap.swap_rate` returns `parRate` (non-zero coupon and notional — the code divides by them — and an
annuity above its guard). -/
theorem swap_rate_eq_parRate (gSmall : ℝ) (df : Int → ℝ) (idx : IndexCurve ℝ) (ff : Option ℝ) (vd : Int)
    (s : Bool) (c N spread : ℝ) (fp lp : List (Period ℝ))
    (hc : c ≠ 0) (hN : N ≠ 0) (hA : 0 < annuity df vd fp) (hg : gSmall ≤ annuity df vd fp) :
    swapRate abs gSmall df idx ff (mkSwap s c N spread fp lp) vd = .ok (parRate df idx ff N spread fp lp vd) := by
  have hp : pv01 abs df (mkSwap s c N spread fp lp) vd = annuity df vd fp := by
    rw [pv01_eq_abs_annuity df vd s c N spread fp lp hc hN, abs_of_pos hA]
  have hguard : ¬ |annuity df vd fp| < gSmall := by rw [abs_of_pos hA]; exact not_lt.mpr hg
  have hfl : floatValue df idx ff (mkSwap s c N spread fp lp).float vd = signed (!s) (floatPV df idx ff N spread lp vd) := by
    unfold mkSwap
    rw [float_leg_eq_sum _ _ _ _ _ (by simp [mkFloatLeg])]
    rfl
  have hn : (mkSwap s c N spread fp lp).float.notional = N := rfl
  have hs : (mkSwap s c N spread fp lp).float.isPay = !s := rfl
  unfold swapRate
  simp only [hp, hguard, if_false, hfl, hn, hs]
  unfold parRate
  congr 1
  cases s <;> simp [signed] <;> field_simp

/-- C01, swaps: on curves that reprice the swap, `IborSwap.swap_rate` returns the quoted coupon. -/
theorem repriced_swap_rate_is_quote (gSmall : ℝ) (df : Int → ℝ) (idx : IndexCurve ℝ) (ff : Option ℝ) (vd : Int)
    (s : Bool) (c N spread : ℝ) (fp lp : List (Period ℝ))
    (hc : c ≠ 0) (hN : N ≠ 0) (hA : 0 < annuity df vd fp) (hg : gSmall ≤ annuity df vd fp)
    (h0 : swapValue df idx ff (mkSwap s c N spread fp lp) vd = 0) :
    swapRate abs gSmall df idx ff (mkSwap s c N spread fp lp) vd = .ok c := by
  rw [swap_rate_eq_parRate gSmall df idx ff vd s c N spread fp lp hc hN hA hg,
    (swap_zero_iff_coupon_eq_par df idx ff vd s c N spread fp lp hN hA.ne').mp h0]

/-- Non-vacuity: a one-period payer swap struck at the curve's par rate `(1/0.97 − 1)` on `df ≡ 0.97` at the end. -/
example : swapValue (fun d : Int => if d = 0 then (1 : ℝ) else 97 / 100)
    ⟨fun d : Int => if d = 0 then (1 : ℝ) else 97 / 100, fun _ _ => (1 : ℝ)⟩ none
    (mkSwap true (3 / 97 : ℝ) 1 0 [⟨0, 1, 1, 1⟩] [⟨0, 1, 1, 1⟩]) 0 = 0 := by
  have hA : annuity (fun d : Int => if d = 0 then (1 : ℝ) else 97 / 100) 0 [⟨0, 1, 1, 1⟩] = 97 / 100 := by
    simp [annuity, fixedCoupons, pv_cons, pv_nil, Flow.amount]
  refine (swap_zero_iff_coupon_eq_par _ _ none 0 true (3 / 97) 1 0 _ _ (by norm_num) (by rw [hA]; norm_num)).mpr ?_
  unfold parRate floatPV
  rw [hA]
  simp [floatFlows, floatCoupons, fwdFlow, fwdRate, principalFlow, pv_cons, pv_nil, Flow.amount]
  norm_num

/-! ### single curve: the floating leg telescopes -/

/-- Floating PV on one curve (no spread, contiguous unpaid periods, pay basis = index basis, no lag):
`N (df(first start) − df(last end)) / df(vd)`. -/
theorem single_curve_floatPV (df : Int → ℝ) (yfI : Int → Int → ℝ) (vd : Int) (N : ℝ)
    (ps : List (Period ℝ)) (first last : Period ℝ)
    (hfirst : ps.head? = some first) (hlast : ps.getLast? = some last)
    (hfut : ∀ q ∈ ps, vd < q.pay) (hlag : ∀ q ∈ ps, q.pay = q.stop)
    (hbasis : ∀ q ∈ ps, yfI q.start q.stop = q.yf) (hyf : ∀ q ∈ ps, q.yf ≠ 0)
    (hdf : ∀ q ∈ ps, df q.stop ≠ 0) (hc : Contiguous ps) :
    floatPV df ⟨df, yfI⟩ none N 0 ps vd = N * (df first.start - df last.stop) / df vd := by
  have h1 := float_leg_telescopes df yfI vd N false ps first last hfirst hlast hfut hlag hbasis hyf hdf hc
  rw [float_leg_eq_sum _ _ _ _ _ (by simp [mkFloatLeg])] at h1
  simpa [signed, mkFloatLeg, floatPV] using h1

/-- C01, single curve: the par rate is `(df(start) − df(end)) / df(vd) / annuity` — the textbook swap rate, i.e. what
`DiscountCurve.swap_rate` computes (C02 `swap_rate_annuity_identity`). -/
theorem single_curve_par_rate (df : Int → ℝ) (yfI : Int → Int → ℝ) (vd : Int) (N : ℝ)
    (fp lp : List (Period ℝ)) (first last : Period ℝ) (hN : N ≠ 0)
    (hfirst : lp.head? = some first) (hlast : lp.getLast? = some last)
    (hfut : ∀ q ∈ lp, vd < q.pay) (hlag : ∀ q ∈ lp, q.pay = q.stop)
    (hbasis : ∀ q ∈ lp, yfI q.start q.stop = q.yf) (hyf : ∀ q ∈ lp, q.yf ≠ 0)
    (hdf : ∀ q ∈ lp, df q.stop ≠ 0) (hc : Contiguous lp) :
    parRate df ⟨df, yfI⟩ none N 0 fp lp vd = (df first.start - df last.stop) / df vd / annuity df vd fp := by
  unfold parRate
  rw [single_curve_floatPV df yfI vd N lp first last hfirst hlast hfut hlag hbasis hyf hdf hc]
  by_cases hA : annuity df vd fp = 0
  · simp [hA]
  · by_cases hv : df vd = 0
    · simp [hv]
    · field_simp

/-- C01, single curve: the swap value in closed form, `± N ((df(start) − df(end))/df(vd) − c · annuity)`. -/
theorem single_curve_swap_value (df : Int → ℝ) (yfI : Int → Int → ℝ) (vd : Int) (s : Bool) (c N : ℝ)
    (fp lp : List (Period ℝ)) (first last : Period ℝ)
    (hfirst : lp.head? = some first) (hlast : lp.getLast? = some last)
    (hfut : ∀ q ∈ lp, vd < q.pay) (hlag : ∀ q ∈ lp, q.pay = q.stop)
    (hbasis : ∀ q ∈ lp, yfI q.start q.stop = q.yf) (hyf : ∀ q ∈ lp, q.yf ≠ 0)
    (hdf : ∀ q ∈ lp, df q.stop ≠ 0) (hc : Contiguous lp) :
    swapValue df ⟨df, yfI⟩ none (mkSwap s c N 0 fp lp) vd
      = signed (!s) (N * ((df first.start - df last.stop) / df vd - c * annuity df vd fp)) := by
  rw [swap_value_annuity_form, single_curve_floatPV df yfI vd N lp first last hfirst hlast hfut hlag hbasis hyf hdf hc]
  cases s <;> simp [signed] <;> ring

/-- C01, single curve: the swap reprices **iff** the curve satisfies the bootstrap equation
`df(end) = df(start) − c · Σ α_i df(pay_i)` (all dfs relative to the valuation date). -/
theorem single_curve_reprices_iff (df : Int → ℝ) (yfI : Int → Int → ℝ) (vd : Int) (s : Bool) (c N : ℝ)
    (fp lp : List (Period ℝ)) (first last : Period ℝ) (hN : N ≠ 0) (hv : df vd ≠ 0)
    (hfirst : lp.head? = some first) (hlast : lp.getLast? = some last)
    (hfut : ∀ q ∈ lp, vd < q.pay) (hlag : ∀ q ∈ lp, q.pay = q.stop)
    (hbasis : ∀ q ∈ lp, yfI q.start q.stop = q.yf) (hyf : ∀ q ∈ lp, q.yf ≠ 0)
    (hdf : ∀ q ∈ lp, df q.stop ≠ 0) (hc : Contiguous lp) :
    swapValue df ⟨df, yfI⟩ none (mkSwap s c N 0 fp lp) vd = 0
      ↔ df last.stop = df first.start - c * annuity df vd fp * df vd := by
  rw [single_curve_swap_value df yfI vd s c N fp lp first last hfirst hlast hfut hlag hbasis hyf hdf hc]
  have key : N * ((df first.start - df last.stop) / df vd - c * annuity df vd fp) = 0
      ↔ df last.stop = df first.start - c * annuity df vd fp * df vd := by
    constructor
    · intro h
      rcases mul_eq_zero.mp h with h | h
      · exact absurd h hN
      · have h2 : (df first.start - df last.stop) / df vd = c * annuity df vd fp := by linarith
        rw [div_eq_iff hv] at h2
        linarith
    · intro h
      rw [h]; field_simp; ring
  cases s <;> simpa [signed] using key

/-! ### monotonicity of the single-curve objective in the curve -/

/-- The annuity does not decrease when no discount factor at a payment date decreases (non-negative accruals, the
valuation-date df unchanged and positive). -/
theorem annuity_mono (df df' : Int → ℝ) (vd : Int) (ps : List (Period ℝ)) (hv : df vd = df' vd) (hpos : 0 < df vd)
    (hyf : ∀ p ∈ ps, 0 ≤ p.yf) (hle : ∀ p ∈ ps, df p.pay ≤ df' p.pay) :
    annuity df vd ps ≤ annuity df' vd ps := by
  unfold annuity fixedCoupons
  induction ps with
  | nil => simp [pv_nil]
  | cons p ps ih =>
    have ih' := ih (fun q hq => hyf q (by simp [hq])) (fun q hq => hle q (by simp [hq]))
    rw [List.map_cons, pv_cons, pv_cons]
    have hp := hle p (by simp)
    have hy := hyf p (by simp)
    by_cases h : vd < p.pay
    · simp only [h, if_true, Flow.amount]
      rw [← hv]
      have : p.yf * 1 * 1 * (df p.pay / df vd) ≤ p.yf * 1 * 1 * (df' p.pay / df vd) := by
        apply mul_le_mul_of_nonneg_left _ (by simpa using hy)
        exact div_le_div_of_nonneg_right hp hpos.le
      linarith
    · simp only [h, if_false, zero_add]
      exact ih'

/-- C01, single curve, sign fact used by the root search: raise the curve at the swap's last date (strictly) and do not
lower it at the fixed-leg payment dates, leave it as it is at the valuation date and at the swap's start: for a
non-negative coupon the PAYER objective strictly decreases.  (In the bootstrap the curve at these dates is a function of
the last knot's df; see `Props/C01d` for the flat-forward instance.)  Hence at most one root. -/
theorem single_curve_payer_value_strictAnti (df df' : Int → ℝ) (yfI : Int → Int → ℝ) (vd : Int) (c N : ℝ)
    (fp lp : List (Period ℝ)) (first last : Period ℝ) (hc0 : 0 ≤ c) (hN : 0 < N)
    (hv : df vd = df' vd) (hpos : 0 < df vd) (hstart : df first.start = df' first.start)
    (hend : df last.stop < df' last.stop)
    (hyfF : ∀ p ∈ fp, 0 ≤ p.yf) (hle : ∀ p ∈ fp, df p.pay ≤ df' p.pay)
    (hfirst : lp.head? = some first) (hlast : lp.getLast? = some last)
    (hfut : ∀ q ∈ lp, vd < q.pay) (hlag : ∀ q ∈ lp, q.pay = q.stop)
    (hbasis : ∀ q ∈ lp, yfI q.start q.stop = q.yf) (hyf : ∀ q ∈ lp, q.yf ≠ 0)
    (hdf : ∀ q ∈ lp, df q.stop ≠ 0) (hdf' : ∀ q ∈ lp, df' q.stop ≠ 0) (hc : Contiguous lp) :
    swapValue df' ⟨df', yfI⟩ none (mkSwap true c N 0 fp lp) vd
      < swapValue df ⟨df, yfI⟩ none (mkSwap true c N 0 fp lp) vd := by
  rw [single_curve_swap_value df yfI vd true c N fp lp first last hfirst hlast hfut hlag hbasis hyf hdf hc,
    single_curve_swap_value df' yfI vd true c N fp lp first last hfirst hlast hfut hlag hbasis hyf hdf' hc]
  simp only [signed, Bool.not_true, Bool.false_eq_true, if_false]
  have hA := annuity_mono df df' vd fp hv hpos hyfF hle
  have h1 : (df' first.start - df' last.stop) / df' vd < (df first.start - df last.stop) / df vd := by
    rw [← hv, ← hstart]
    apply div_lt_div_of_pos_right _ hpos
    linarith
  have h2 : c * annuity df vd fp ≤ c * annuity df' vd fp := mul_le_mul_of_nonneg_left hA hc0
  apply mul_lt_mul_of_pos_left _ hN
  linarith

/-! ### dual curve: projecting on the index curve, discounting on the other -/

/-- The forward rate the floating leg projects for a period off the index curve. -/
noncomputable def periodForward (idx : IndexCurve ℝ) (p : Period ℝ) : ℝ :=
  fwdRate idx.df p.start p.stop (idx.yf p.start p.stop)

private lemma pv_fwd_linear (df : Int → ℝ) (vd : Int) (i1 i2 i3 : IndexCurve ℝ) (a b s1 s2 : ℝ)
    (l : List (Period ℝ × ℝ))
    (h : ∀ x ∈ l, periodForward i3 x.1 = a * periodForward i1 x.1 + b * periodForward i2 x.1) :
    pv df vd (l.map (fwdFlow i3.df i3.yf (a * s1 + b * s2)))
      = a * pv df vd (l.map (fwdFlow i1.df i1.yf s1)) + b * pv df vd (l.map (fwdFlow i2.df i2.yf s2)) := by
  induction l with
  | nil => simp [pv_nil]
  | cons x xs ih =>
    have hx := h x (by simp)
    have ih' := ih (fun y hy => h y (by simp [hy]))
    simp only [List.map_cons, pv_cons, ih']
    unfold periodForward at hx
    by_cases hp : vd < x.1.pay
    · simp only [fwdFlow, hp, if_true, Flow.amount, hx]
      ring
    · simp only [fwdFlow, hp, if_false]
      ring

/-- C01, dual curve: **the floating leg is linear in the forward rates** (and the spread).  If, period by period, the
forwards of index curve 3 are `a ×` those of curve 1 `+ b ×` those of curve 2, then the floating PV on curve 3 with spread
`a s1 + b s2` is `a × PV₁ + b × PV₂` — the discount curve `df` being the same fixed (OIS) curve throughout. -/
theorem float_pv_linear_in_forwards (df : Int → ℝ) (vd : Int) (i1 i2 i3 : IndexCurve ℝ) (a b s1 s2 N : ℝ)
    (lp : List (Period ℝ))
    (h : ∀ p ∈ lp, periodForward i3 p = a * periodForward i1 p + b * periodForward i2 p) :
    floatPV df i3 none N (a * s1 + b * s2) lp vd = a * floatPV df i1 none N s1 lp vd + b * floatPV df i2 none N s2 lp vd := by
  unfold floatPV floatFlows
  simp only [pv_append, floatCoupons_none]
  have hz : pv df vd (principalFlow 0 ((lp.zip (List.replicate lp.length N)).getLast?.map (fun x => (x.1.pay, x.2)))) = 0 := by
    cases (lp.zip (List.replicate lp.length N)).getLast? with
    | none => simp [principalFlow, pv_nil]
    | some p => simp [principalFlow, pv_cons, pv_nil, Flow.amount]
  rw [hz, add_zero, add_zero, add_zero]
  apply pv_fwd_linear
  intro x hx
  exact h x.1 (List.of_mem_zip hx).1

/-- C01, dual curve: the index curve enters the floating leg **only through its forward rates** — two index curves with the
same forwards over the leg's periods give the same floating PV (whatever their discount factors are). -/
theorem float_pv_depends_on_forwards_only (df : Int → ℝ) (vd : Int) (i1 i2 : IndexCurve ℝ) (s N : ℝ)
    (lp : List (Period ℝ)) (h : ∀ p ∈ lp, periodForward i2 p = periodForward i1 p) :
    floatPV df i2 none N s lp vd = floatPV df i1 none N s lp vd := by
  have := float_pv_linear_in_forwards df vd i1 i1 i2 1 0 s 0 N lp (by intro p hp; rw [h p hp]; ring)
  simpa using this

/-- C01, dual curve: for the bootstrap this is the locality the index-curve search needs — a change of the index curve
that leaves the forwards of the swap's own periods alone leaves the objective alone. -/
theorem dual_objective_depends_on_forwards_only (df : Int → ℝ) (vd : Int) (i1 i2 : IndexCurve ℝ) (sgn : Bool) (c N s : ℝ)
    (fp lp : List (Period ℝ)) (h : ∀ p ∈ lp, periodForward i2 p = periodForward i1 p) :
    swapObjective df i2 (mkSwap sgn c N s fp lp) vd = swapObjective df i1 (mkSwap sgn c N s fp lp) vd := by
  unfold swapObjective
  rw [swap_value_annuity_form, swap_value_annuity_form, float_pv_depends_on_forwards_only df vd i1 i2 s N lp h]

end FinVerif.Props.C01
