/-
  C01 (part d) — the bootstrap loops of `Model/C01.lean` (the text of `_build_curve_using_1d_solver`, shared by
  IborSingleCurve / OISCurve / IborDualCurve) over ℝ, with the GENERATED closed forms plugged in and C02's `uinterp` as the
  interpolation.

    * `depo_loop_reprices`: the deposit loop, for ANY number of deposits — every deposit is worth exactly its notional on the
      curve the loop returns (FLAT_FWD_RATES and LINEAR_ZERO_RATES).  Here the "solver post-condition" of part (a)'s
      `bootstrap_reprices_all` is not assumed but PROVED: closed-form knot (generated `_maturity_df`) + the curve reproduces
      its knots (`interp_at_knot`) + later knots do not move earlier reads (`interp_append_local`).  The hypotheses are the
      ones the known findings violate: each deposit starts at or before the last knot placed so far
      (finding deposit-starting-beyond-last-knot / spot-lag-without-swaps) and is read at its knot time (leap-time-axis).
    * `fra_closed_form_step_reprices`: the closed-form branch of the FRA loop zeroes the generated `IborFRA.value` objective.
    * `earlier_reads_unchanged_by_last_knot`: the 1-d root search moves only the last knot's df — every read at or before
      the previous knot is unchanged (so earlier instruments keep their value while `_f/_g` iterate).
    * flat-forward interpolation is monotone in the last knot's df (`flat_interp_mono_in_last_df`, strict right of the
      previous knot), hence the single-curve payer swap objective `_f` is strictly decreasing in the knot being solved for
      (`flat_swap_objective_strictAnti`): the root the search looks for is unique.
-/
import FinVerif.Model.C01
import FinVerif.Props.C01b
import FinVerif.Props.C01c
import FinVerif.Props.C02c

set_option linter.unusedVariables false
set_option linter.unusedSimpArgs false

namespace FinVerif.Props.C01
open FinVerif FinVerif.Gen FinVerif.Model.C02 FinVerif.Model.C01 FinVerif.Props.C02
open FinVerif.Spec.C06 (Period Contiguous annuity)
open FinVerif.Model.C06 (swapValue mkSwap IndexCurve)

/-! ### small list facts -/

lemma g_snoc_last (l : List ℝ) (x : ℝ) : g (l ++ [x]) l.length = x := by
  simp [g]

lemma g_snoc_left (l : List ℝ) (x : ℝ) (k : ℕ) (hk : k < l.length) : g (l ++ [x]) k = g l k :=
  g_append_left l [x] k hk

lemma lastTime_snoc (ts ds : List ℝ) (x d : ℝ) : lastTime (ts ++ [x], ds ++ [d]) = x := by
  unfold lastTime
  simp only [List.length_append, List.length_singleton, Nat.add_sub_cancel]
  exact g_snoc_last ts x

/-! ### the invariant of the knot vector -/

/-- What every state of the bootstrap satisfies on an admissible quote set: as many dfs as times, times strictly
increasing from 0, dfs positive with df(0) = 1. -/
structure Good (st : Knots ℝ) : Prop where
  len : st.2.length = st.1.length
  ne : 1 ≤ st.1.length
  sorted : st.1.Pairwise (· < ·)
  pos : ∀ d ∈ st.2, 0 < d
  t0 : g st.1 0 = 0
  d0 : g st.2 0 = 1

lemma good_init : Good (init : Knots ℝ) := by
  refine ⟨rfl, by simp [init], by simp [init], ?_, by simp [init, g], by simp [init, g]⟩
  intro d hd
  simp [init] at hd
  rw [hd]; norm_num

lemma Good.le_last {st : Knots ℝ} (h : Good st) (k : ℕ) (hk : k < st.1.length) : g st.1 k ≤ lastTime st := by
  unfold lastTime
  exact g_le_of_le st.1 h.sorted k (st.1.length - 1) (by omega) (by have := h.ne; omega)

lemma Good.snoc {st : Knots ℝ} (h : Good st) (t d : ℝ) (ht : lastTime st < t) (hd : 0 < d) :
    Good (st.1 ++ [t], st.2 ++ [d]) := by
  have hne := h.ne
  refine ⟨by simp [h.len], by simp, ?_, ?_, ?_, ?_⟩
  · show (st.1 ++ [t]).Pairwise (· < ·)
    rw [List.pairwise_append]
    refine ⟨h.sorted, by simp, ?_⟩
    intro a ha b hb
    simp only [List.mem_singleton] at hb
    subst hb
    obtain ⟨k, hk, rfl⟩ := List.getElem_of_mem ha
    have := h.le_last k hk
    rw [g_eq_getElem st.1 k hk] at this
    linarith
  · intro x hx
    simp only [List.mem_append, List.mem_singleton] at hx
    rcases hx with hx | hx
    · exact h.pos x hx
    · rw [hx]; exact hd
  · show g (st.1 ++ [t]) 0 = 0
    rw [g_snoc_left st.1 t 0 (by omega)]; exact h.t0
  · show g (st.2 ++ [d]) 0 = 1
    rw [g_snoc_left st.2 d 0 (by rw [h.len]; omega)]; exact h.d0

/-- A read of a good curve at a time in `[0, last knot]` succeeds with a positive value. -/
lemma Good.read {st : Knots ℝ} (h : Good st) (m : Int) (hm : m = 1 ∨ m = 2 ∨ m = 4) (t : ℝ) (h0 : 0 ≤ t)
    (hl : t ≤ lastTime st) : ∃ v, uinterp m st.1 st.2 t = .ok v ∧ 0 < v := by
  by_cases h1 : st.1.length = 1
  · have hl' : t ≤ g st.1 0 := by
      unfold lastTime at hl
      rw [h1] at hl
      exact hl
    have ht : t = g st.1 0 := by rw [h.t0] at hl' ⊢; linarith
    refine ⟨g st.2 0, by rw [ht]; exact uinterp_first m st.1 st.2 (by omega), by rw [h.d0]; norm_num⟩
  · have hn : 2 ≤ st.1.length := by have := h.ne; omega
    obtain ⟨v, hv⟩ := uinterp_total m st.1 st.2 t h.len h.sorted h.pos hn h.t0.ge (by rw [h.t0]; exact h0) hm
    exact ⟨v, hv, interp_pos m st.1 st.2 t v hv h.pos h.len⟩

/-- A good curve with at least two knots returns its last knot's df at its last knot's time (FLAT_FWD, LINEAR_ZERO). -/
lemma Good.read_last {st : Knots ℝ} (h : Good st) (m : Int) (hm : m = 1 ∨ m = 4) (hn : 2 ≤ st.1.length) :
    uinterp m st.1 st.2 (lastTime st) = .ok (g st.2 (st.1.length - 1)) := by
  unfold lastTime
  exact interp_at_knot m st.1 st.2 h.len h.sorted h.pos h.t0.ge hn (st.1.length - 1) (by omega)
    (by rcases hm with h | h <;> simp [h])

/-- Later knots do not move a read at or before the last knot of a good prefix. -/
lemma Good.read_append {st : Knots ℝ} (h : Good st) (m : Int) (xs ys : List ℝ) (t : ℝ) (h0 : 0 ≤ t)
    (hl : t ≤ lastTime st) : uinterp m (st.1 ++ xs) (st.2 ++ ys) t = uinterp m st.1 st.2 t :=
  interp_append_local m st.1 st.2 xs ys t h.len h.ne (by rw [h.t0]; exact h0) hl

/-! ### the 1-d search moves only the last knot -/

/-- While `_f` / `_g` overwrite the last knot's df (`curve._dfs[num_points - 1] = df`), every read at a time up to the
previous knot is unchanged — for each of the three bootstrap interpolation schemes. -/
theorem earlier_reads_unchanged_by_last_knot (m : Int) (ts ds : List ℝ) (T x y t : ℝ)
    (hlen : ds.length = ts.length) (h1 : 1 ≤ ts.length) (h0 : g ts 0 ≤ t) (ht : t ≤ g ts (ts.length - 1)) :
    uinterp m (ts ++ [T]) (ds ++ [x]) t = uinterp m (ts ++ [T]) (ds ++ [y]) t :=
  interp_local m ts ds [T] [x] [T] [y] t hlen h1 h0 ht

/-! ### the deposit loop reprices every deposit -/

/-- A deposit the loop can handle given the last knot time `last`: it starts at a time the curve already covers and
matures beyond the last knot; `1 + α r > 0`. -/
def DepoOk (last : ℝ) (d : Depo ℝ) : Prop :=
  0 ≤ d.tS ∧ d.tS ≤ last ∧ last < d.tM ∧ 0 < 1 + d.acc * d.rate

/-- Admissible deposit list: each deposit is `DepoOk` for the knot placed by its predecessor. -/
def DepoChain : ℝ → List (Depo ℝ) → Prop
  | _, [] => True
  | last, d :: ds => DepoOk last d ∧ DepoChain d.tM ds

/-- The deposit is worth its notional on the curve `st` (read at its start time and at its knot time). -/
def DepoReprices (m : Int) (st : Knots ℝ) (d : Depo ℝ) : Prop :=
  ∃ a b, uinterp m st.1 st.2 d.tS = .ok a ∧ uinterp m st.1 st.2 d.tM = .ok b ∧
    ∀ N : ℝ, depositValue N d.acc d.rate a b = N

/-- One pass of the deposit loop: it succeeds, keeps the invariant, appends exactly one knot at the deposit's knot time,
and the deposit reprices on the new curve. -/
theorem depo_step_reprices (m : Int) (hm : m = 1 ∨ m = 4) (st : Knots ℝ) (hg : Good st) (d : Depo ℝ)
    (hd : DepoOk (lastTime st) d) :
    ∃ k, depoStep RatesR.deposit_maturity_df m st d = .ok (st.1 ++ [d.tM], st.2 ++ [k]) ∧
      Good (st.1 ++ [d.tM], st.2 ++ [k]) ∧ DepoReprices m (st.1 ++ [d.tM], st.2 ++ [k]) d := by
  obtain ⟨h0, hS, hM, h1⟩ := hd
  have hm3 : m = 1 ∨ m = 2 ∨ m = 4 := by rcases hm with h | h <;> simp [h]
  obtain ⟨a, ha, hapos⟩ := hg.read m hm3 d.tS h0 hS
  have hkpos : 0 < RatesR.deposit_maturity_df d.acc d.rate * a := by
    simp only [RatesR.deposit_maturity_df]; positivity
  refine ⟨_, by simp only [depoStep, ha], hg.snoc d.tM _ hM hkpos, ?_⟩
  have hg' := hg.snoc d.tM _ hM hkpos
  refine ⟨a, RatesR.deposit_maturity_df d.acc d.rate * a, ?_, ?_, ?_⟩
  · show uinterp m (st.1 ++ [d.tM]) (st.2 ++ [_]) d.tS = .ok a
    rw [hg.read_append m _ _ d.tS h0 hS]; exact ha
  · have hl := hg'.read_last m hm (by simp only [List.length_append, List.length_singleton]; have := hg.ne; omega)
    rw [lastTime_snoc] at hl
    simp only [List.length_append, List.length_singleton, Nat.add_sub_cancel] at hl
    rw [← hg.len, g_snoc_last] at hl
    exact hl
  · intro N
    rw [← depositKnot_is_generated]
    exact deposit_knot_reprices N d.acc d.rate a h1.ne' hapos.ne'

/-- C01, deposits, **for every admissible deposit list of any length**: the deposit loop of the bootstrap (with the
generated `_maturity_df`) succeeds, only appends knots, keeps the curve good, and EVERY deposit is worth exactly its notional
on the final curve.  No solver post-condition is assumed. -/
theorem depo_loop_reprices (m : Int) (hm : m = 1 ∨ m = 4) :
    ∀ (deps : List (Depo ℝ)) (st : Knots ℝ), Good st → DepoChain (lastTime st) deps →
      ∃ fin xs ys, depoLoop RatesR.deposit_maturity_df m st deps = .ok fin ∧ fin = (st.1 ++ xs, st.2 ++ ys) ∧ Good fin ∧
        ∀ d ∈ deps, DepoReprices m fin d := by
  intro deps
  induction deps with
  | nil =>
    intro st hg _
    exact ⟨st, [], [], rfl, by simp, hg, by simp⟩
  | cons d ds ih =>
    intro st hg hc
    obtain ⟨hd, hrest⟩ := hc
    obtain ⟨k, hstep, hg', hrep⟩ := depo_step_reprices m hm st hg d hd
    have hlast : lastTime (st.1 ++ [d.tM], st.2 ++ [k]) = d.tM := lastTime_snoc _ _ _ _
    obtain ⟨fin, xs, ys, hloop, hfin, hgf, hall⟩ := ih (st.1 ++ [d.tM], st.2 ++ [k]) hg' (by rw [hlast]; exact hrest)
    refine ⟨fin, [d.tM] ++ xs, [k] ++ ys, by simp only [depoLoop, hstep, hloop], ?_, hgf, ?_⟩
    · rw [hfin]; simp [List.append_assoc]
    · intro e he
      rcases List.mem_cons.mp he with he | he
      · subst he
        obtain ⟨a, b, ha, hb, hv⟩ := hrep
        obtain ⟨h0, hS, hM, _⟩ := hd
        refine ⟨a, b, ?_, ?_, hv⟩
        · rw [hfin]
          show uinterp m ((st.1 ++ [e.tM]) ++ xs) ((st.2 ++ [k]) ++ ys) e.tS = .ok a
          rw [hg'.read_append m xs ys e.tS h0 (by rw [hlast]; linarith)]
          exact ha
        · rw [hfin]
          show uinterp m ((st.1 ++ [e.tM]) ++ xs) ((st.2 ++ [k]) ++ ys) e.tM = .ok b
          rw [hg'.read_append m xs ys e.tM (by linarith [hg.t0, hg.le_last 0 (by have := hg.ne; omega)])
            (by rw [hlast])]
          exact hb
      · exact hall e he

/-- Non-vacuity: two deposits off the curve date (3M at 2 %, 6M at 2.5 %, ACT/360-like accruals) form an admissible chain
from the initial curve `([0], [1])`. -/
example : Good (init : Knots ℝ) ∧
    DepoChain (lastTime (init : Knots ℝ)) [⟨0, 1 / 4, 1 / 4, 2 / 100⟩, ⟨0, 1 / 2, 1 / 2, 5 / 200⟩] := by
  refine ⟨good_init, ?_⟩
  have : lastTime (init : Knots ℝ) = 0 := by simp [lastTime, init, g]
  rw [this]
  simp only [DepoChain, DepoOk]
  norm_num

/-! ### the closed-form branch of the FRA loop -/

/-- C01, FRAs, closed-form branch (`t_set < oldt_mat and t_mat > oldt_mat`): the step succeeds, keeps the invariant, and the
objective `_g` (generated `IborFRA.value / notional`, read off the NEW curve at the FRA's start and at its knot time) is
exactly zero — provided the start is read where the curve already is (`tSq ≤` last knot) and the knot goes beyond it. -/
theorem fra_closed_form_step_reprices (m : Int) (hm : m = 1 ∨ m = 4) (solve : Knots ℝ → Fra ℝ → ℝ) (oldT : ℝ)
    (st : Knots ℝ) (hg : Good st) (f : Fra ℝ) (hbranch : fraClosedForm oldT f = true)
    (h0 : 0 ≤ f.tSq) (hS : f.tSq ≤ lastTime st) (hM : lastTime st < f.tMat) (hα : f.acc ≠ 0)
    (h1 : 0 < 1 + f.acc * f.rate) (N : ℝ) (hN : N ≠ 0) (pay : Bool) :
    ∃ k, fraStep RatesR.fra_maturity_df solve m oldT st f = .ok (st.1 ++ [f.tMat], st.2 ++ [k]) ∧
      Good (st.1 ++ [f.tMat], st.2 ++ [k]) ∧
      fraObjective RatesR.fra_value m (st.1 ++ [f.tMat], st.2 ++ [k]) f.tSq f.tMat f.acc f.rate N pay = .ok 0 := by
  have hm3 : m = 1 ∨ m = 2 ∨ m = 4 := by rcases hm with h | h <;> simp [h]
  obtain ⟨a, ha, hapos⟩ := hg.read m hm3 f.tSq h0 hS
  have hkpos : 0 < RatesR.fra_maturity_df a f.acc f.rate := by
    simp only [RatesR.fra_maturity_df]; positivity
  have hg' := hg.snoc f.tMat _ hM hkpos
  refine ⟨_, by simp only [fraStep, hbranch, if_true, ha], hg', ?_⟩
  have e1 : uinterp m (st.1 ++ [f.tMat]) (st.2 ++ [RatesR.fra_maturity_df a f.acc f.rate]) f.tSq = .ok a := by
    rw [hg.read_append m _ _ f.tSq h0 hS]; exact ha
  have e2 : uinterp m (st.1 ++ [f.tMat]) (st.2 ++ [RatesR.fra_maturity_df a f.acc f.rate]) f.tMat
      = .ok (RatesR.fra_maturity_df a f.acc f.rate) := by
    have hl := hg'.read_last m hm (by simp only [List.length_append, List.length_singleton]; have := hg.ne; omega)
    rw [lastTime_snoc] at hl
    simp only [List.length_append, List.length_singleton, Nat.add_sub_cancel] at hl
    rw [← hg.len, g_snoc_last] at hl
    exact hl
  have e3 : uinterp m (st.1 ++ [f.tMat]) (st.2 ++ [RatesR.fra_maturity_df a f.acc f.rate]) 0 = .ok 1 := by
    have := uinterp_first m (st.1 ++ [f.tMat]) (st.2 ++ [RatesR.fra_maturity_df a f.acc f.rate]) (by simp)
    rw [hg'.t0, hg'.d0] at this
    exact this
  simp only [fraObjective, e1, e2, e3]
  rw [fra_closed_form_knot_reprices f.acc a _ 1 f.rate N pay hα h1.ne' hapos.ne']
  simp

/-! ### flat-forward interpolation is monotone in the last knot's df -/

theorem kFlat_mono_right_df (times dfs dfs' : List ℝ) (a b : ℕ) (hab : g times a < g times b)
    (ha : g dfs a = g dfs' a) (hb : 0 < g dfs b) (hbb : g dfs b ≤ g dfs' b) (t : ℝ) (ht : g times a ≤ t) :
    kFlat times dfs a b t ≤ kFlat times dfs' a b t := by
  have hlog : Real.log (g dfs b) ≤ Real.log (g dfs' b) := Real.log_le_log hb hbb
  have hdt : 0 ≤ g times b - g times a := (sub_pos.mpr hab).le
  unfold kFlat
  simp only [exp_real, log_real]
  apply Real.exp_le_exp.mpr
  apply neg_le_neg
  rw [ha]
  apply div_le_div_of_nonneg_right _ hdt
  nlinarith [mul_nonneg (sub_nonneg.mpr ht) (sub_nonneg.mpr hlog)]

theorem kFlat_strictMono_right_df (times dfs dfs' : List ℝ) (a b : ℕ) (hab : g times a < g times b)
    (ha : g dfs a = g dfs' a) (hb : 0 < g dfs b) (hbb : g dfs b < g dfs' b) (t : ℝ) (ht : g times a < t) :
    kFlat times dfs a b t < kFlat times dfs' a b t := by
  have hlog : Real.log (g dfs b) < Real.log (g dfs' b) := Real.log_lt_log hb hbb
  have hdt : 0 < g times b - g times a := sub_pos.mpr hab
  unfold kFlat
  simp only [exp_real, log_real]
  apply Real.exp_lt_exp.mpr
  apply neg_lt_neg
  rw [ha]
  apply div_lt_div_of_pos_right _ hdt
  nlinarith [mul_pos (sub_pos.mpr ht) (sub_pos.mpr hlog)]

/-- The flat-forward branch index, a function of the times only. -/
noncomputable def flatIdx (times : List ℝ) (t : ℝ) : ℕ :=
  if t ≤ g times (times.length - 1) then search t times else times.length - 1

/-- FLAT_FWD_RATES right of the first knot, with the branch index made explicit (it does not depend on the dfs). -/
lemma uinterp_flat_eq (times dfs : List ℝ) (hs : times.Pairwise (· < ·)) (hn : 2 ≤ times.length)
    (t : ℝ) (ht : g times 0 < t) :
    1 ≤ flatIdx times t ∧ flatIdx times t < times.length ∧ g times (flatIdx times t - 1) < t ∧
      uinterp 1 times dfs t = .ok (kFlat times dfs (flatIdx times t - 1) (flatIdx times t) t) := by
  unfold flatIdx
  by_cases hhi : t ≤ g times (times.length - 1)
  · obtain ⟨s1, s2, s3, s4, s5⟩ := search_spec times t ht hhi
    simp only [hhi, if_true]
    refine ⟨s1, s2, s3, ?_⟩
    rw [uinterp_kernel 1 times dfs t hn (ne_of_gt ht), s5, kernel_m1, if_neg (by omega), if_pos s2,
      guardDiv_ok1 _ _ (g_sub_ne times hs _ _ (by omega) s2)]
  · have hlt := not_le.mp hhi
    have h21 := g_lt_of_lt times hs (times.length - 2) (times.length - 1) (by omega) (by omega)
    have e : times.length - 1 - 1 = times.length - 2 := by omega
    simp only [hhi, if_false]
    refine ⟨by omega, by omega, by rw [e]; linarith, ?_⟩
    rw [uinterp_kernel 1 times dfs t hn (ne_of_gt ht), locate_right times hs t hlt, kernel_m1,
      if_neg (by omega), if_neg (lt_irrefl _),
      guardDiv_ok1 _ _ (g_sub_ne times hs _ _ (by omega) (by omega)), e]

/-- C01, FLAT_FWD_RATES: the interpolated df at any `t ≥ times[0]` is **non-decreasing in the last knot's df** — strictly
increasing right of the previous knot.  (`ts` are the `n ≥ 2` knot times, `ds` the first `n − 1` dfs, `x ≤ y` two candidate
values of the last df, as in the root search.) -/
theorem flat_interp_mono_in_last_df (ts ds : List ℝ) (x y t : ℝ) (hlen : ds.length + 1 = ts.length)
    (hs : ts.Pairwise (· < ·)) (hn : 2 ≤ ts.length) (hpos : ∀ d ∈ ds, 0 < d) (hx : 0 < x) (hxy : x ≤ y)
    (ht : g ts 0 ≤ t) :
    ∃ u v, uinterp 1 ts (ds ++ [x]) t = .ok u ∧ uinterp 1 ts (ds ++ [y]) t = .ok v ∧ u ≤ v ∧
      (x < y → g ts (ts.length - 2) < t → u < v) := by
  rcases eq_or_lt_of_le ht with ht0 | ht0
  · refine ⟨g ds 0, g ds 0, ?_, ?_, le_rfl, ?_⟩
    · have := uinterp_first 1 ts (ds ++ [x]) (by omega)
      rw [g_snoc_left ds x 0 (by omega)] at this; rw [← ht0]; exact this
    · have := uinterp_first 1 ts (ds ++ [y]) (by omega)
      rw [g_snoc_left ds y 0 (by omega)] at this; rw [← ht0]; exact this
    · intro _ h2
      have := g_le_of_le ts hs 0 (ts.length - 2) (by omega) (by omega)
      rw [← ht0] at h2
      linarith
  · obtain ⟨j1, j2, j3, ex⟩ := uinterp_flat_eq ts (ds ++ [x]) hs hn t ht0
    obtain ⟨_, _, _, ey⟩ := uinterp_flat_eq ts (ds ++ [y]) hs hn t ht0
    set j := flatIdx ts t with hj
    have hab : g ts (j - 1) < g ts j := g_lt_of_lt ts hs (j - 1) j (by omega) j2
    have ha : g (ds ++ [x]) (j - 1) = g (ds ++ [y]) (j - 1) := by
      rw [g_snoc_left ds x (j - 1) (by omega), g_snoc_left ds y (j - 1) (by omega)]
    have hcase : j < ds.length ∨ j = ds.length := by omega
    have hb : 0 < g (ds ++ [x]) j := by
      rcases hcase with h | h
      · rw [g_snoc_left ds x j h]; exact g_pos ds hpos j h
      · rw [h, g_snoc_last]; exact hx
    have hbb : g (ds ++ [x]) j ≤ g (ds ++ [y]) j := by
      rcases hcase with h | h
      · rw [g_snoc_left ds x j h, g_snoc_left ds y j h]
      · rw [h, g_snoc_last, g_snoc_last]; exact hxy
    refine ⟨_, _, ex, ey, kFlat_mono_right_df ts _ _ (j - 1) j hab ha hb hbb t j3.le, ?_⟩
    intro hlt h2
    -- right of the previous knot the branch is the last one
    have hjl : j = ds.length := by
      rcases hcase with h | h
      · exfalso
        -- j < n - 1 means t ≤ times[j] ≤ times[n-2]
        have hle : t ≤ g ts j := by
          rw [hj]
          unfold flatIdx
          by_cases hhi : t ≤ g ts (ts.length - 1)
          · simp only [hhi, if_true]
            exact (search_spec ts t ht0 hhi).2.2.2.1
          · exfalso
            have : flatIdx ts t = ts.length - 1 := by unfold flatIdx; simp only [hhi, if_false]
            rw [← hj] at this
            omega
        have := g_le_of_le ts hs j (ts.length - 2) (by omega) (by omega)
        linarith
      · exact h
    have hbb' : g (ds ++ [x]) j < g (ds ++ [y]) j := by rw [hjl, g_snoc_last, g_snoc_last]; exact hlt
    exact kFlat_strictMono_right_df ts _ _ (j - 1) j hab ha hb hbb' t j3

/-- C01, locality of FLAT_FWD_RATES in BOTH directions: the value at `t` depends only on the two knots bracketing `t` (the
last two when extrapolating) — two df vectors on the same times that agree on those two knots give the same value, whatever
they are before and after.  (Locality towards later knots for all three bootstrap schemes is `interp_local`.) -/
theorem flat_interp_depends_on_bracketing_knots (times dfs dfs' : List ℝ) (hs : times.Pairwise (· < ·))
    (hn : 2 ≤ times.length) (t : ℝ) (ht : g times 0 < t)
    (ha : g dfs (flatIdx times t - 1) = g dfs' (flatIdx times t - 1))
    (hb : g dfs (flatIdx times t) = g dfs' (flatIdx times t)) :
    uinterp 1 times dfs t = uinterp 1 times dfs' t := by
  obtain ⟨_, _, _, e1⟩ := uinterp_flat_eq times dfs hs hn t ht
  obtain ⟨_, _, _, e2⟩ := uinterp_flat_eq times dfs' hs hn t ht
  rw [e1, e2]
  simp only [kFlat, ha, hb]

/-- Non-vacuity of `Instr` (part a) for FRAs: a single-curve FRA valued by the generated `IborFRA.value` reads the curve at the
valuation date (time 0), its start and its maturity only — so `bootstrap_reprices_all` applies to it. -/
noncomputable def fraInstr (α K N : ℝ) (pay : Bool) (tS tM : ℝ) (hS : 0 ≤ tS) (hSM : tS ≤ tM) : Instr where
  mat := tM
  val := fun D => match D tS, D tM, D 0 with
    | .ok d1, .ok d2, .ok dv => RatesR.fra_value α d1 d2 d2 dv K N pay / N
    | _, _, _ => 0
  reads_up_to_mat := by
    intro D D' h
    rw [h tS hS hSM, h tM (le_trans hS hSM) (le_refl _), h 0 (le_refl _) (le_trans hS hSM)]

/-! ### the single-curve swap objective is strictly decreasing in the knot being solved for -/

/-- The curve as the instruments see it: date → time (`τ`, the curve's day count) → interpolated df. -/
noncomputable def curveOfKnots (m : Int) (τ : Int → ℝ) (ts ds : List ℝ) (d : Int) : ℝ := curveFn m ts ds (τ d)

/-- C01, swaps, FLAT_FWD_RATES single curve: as a function of the df `x` placed on the LAST knot (which sits at the time of
the swap's last payment date), with the swap starting at or before the previous knot and every date at or after the curve
date, the payer objective `_f` is **strictly decreasing** for a non-negative coupon.  So the equation `_f(x) = 0` the root
search solves has at most one positive solution. -/
theorem flat_swap_objective_strictAnti (τ : Int → ℝ) (ts ds : List ℝ) (x y : ℝ) (hlen : ds.length + 1 = ts.length)
    (hs : ts.Pairwise (· < ·)) (hn : 2 ≤ ts.length) (hpos : ∀ d ∈ ds, 0 < d) (hx : 0 < x) (hxy : x < y)
    (ht0 : g ts 0 = 0)
    (yfI : Int → Int → ℝ) (vd : Int) (c N : ℝ) (fp lp : List (Period ℝ)) (first last : Period ℝ)
    (hc0 : 0 ≤ c) (hN : 0 < N) (hvd : τ vd = 0)
    (hstart0 : 0 ≤ τ first.start) (hstart : τ first.start ≤ g ts (ts.length - 2))
    (hend : τ last.stop = g ts (ts.length - 1))
    (hyfF : ∀ p ∈ fp, 0 ≤ p.yf) (hpay0 : ∀ p ∈ fp, 0 ≤ τ p.pay) (hstop0 : ∀ q ∈ lp, 0 ≤ τ q.stop)
    (hfirst : lp.head? = some first) (hlast : lp.getLast? = some last)
    (hfut : ∀ q ∈ lp, vd < q.pay) (hlag : ∀ q ∈ lp, q.pay = q.stop)
    (hbasis : ∀ q ∈ lp, yfI q.start q.stop = q.yf) (hyf : ∀ q ∈ lp, q.yf ≠ 0) (hc : Contiguous lp) :
    swapValue (curveOfKnots 1 τ ts (ds ++ [y])) ⟨curveOfKnots 1 τ ts (ds ++ [y]), yfI⟩ none (mkSwap true c N 0 fp lp) vd
      < swapValue (curveOfKnots 1 τ ts (ds ++ [x])) ⟨curveOfKnots 1 τ ts (ds ++ [x]), yfI⟩ none
          (mkSwap true c N 0 fp lp) vd := by
  have hy : 0 < y := lt_trans hx hxy
  -- every read at a time ≥ 0: both curves answer, ordered
  have hread : ∀ t, 0 ≤ t → curveOfKnots 1 (fun _ => t) ts (ds ++ [x]) 0 ≤ curveOfKnots 1 (fun _ => t) ts (ds ++ [y]) 0 ∧
      0 < curveOfKnots 1 (fun _ => t) ts (ds ++ [x]) 0 ∧ 0 < curveOfKnots 1 (fun _ => t) ts (ds ++ [y]) 0 := by
    intro t ht
    obtain ⟨u, v, hu, hv, huv, _⟩ := flat_interp_mono_in_last_df ts ds x y t hlen hs hn hpos hx hxy.le (by rw [ht0]; exact ht)
    have hposx : ∀ d ∈ ds ++ [x], 0 < d := by
      intro d hd; simp only [List.mem_append, List.mem_singleton] at hd
      rcases hd with h | h
      · exact hpos d h
      · rw [h]; exact hx
    have hposy : ∀ d ∈ ds ++ [y], 0 < d := by
      intro d hd; simp only [List.mem_append, List.mem_singleton] at hd
      rcases hd with h | h
      · exact hpos d h
      · rw [h]; exact hy
    simp only [curveOfKnots, curveFn_of_ok 1 ts _ t u hu, curveFn_of_ok 1 ts _ t v hv]
    exact ⟨huv, interp_pos 1 ts _ t u hu hposx (by simp; omega), interp_pos 1 ts _ t v hv hposy (by simp; omega)⟩
  have hread' : ∀ d : Int, 0 ≤ τ d → curveOfKnots 1 τ ts (ds ++ [x]) d ≤ curveOfKnots 1 τ ts (ds ++ [y]) d ∧
      0 < curveOfKnots 1 τ ts (ds ++ [x]) d ∧ 0 < curveOfKnots 1 τ ts (ds ++ [y]) d := by
    intro d hd
    exact hread (τ d) hd
  -- reads at or before the previous knot agree
  have hprefix : ∀ t, 0 ≤ t → t ≤ g ts (ts.length - 2) →
      curveFn 1 ts (ds ++ [x]) t = curveFn 1 ts (ds ++ [y]) t := by
    intro t h0 h1
    have hsplit : ts = ts.take (ts.length - 1) ++ [g ts (ts.length - 1)] := by
      have h1 : ts.length - 1 < ts.length := by omega
      have := List.take_append_drop (ts.length - 1) ts
      rw [List.drop_eq_getElem_cons h1] at this
      rw [g_eq_getElem ts _ h1]
      have hd : ts.drop (ts.length - 1 + 1) = [] := by
        apply List.drop_eq_nil_of_le; omega
      rw [hd] at this
      exact this.symm
    set p := ts.take (ts.length - 1) with hp
    have hpl : p.length = ts.length - 1 := by rw [hp, List.length_take]; omega
    have hgk : ∀ k, k < p.length → g ts k = g p k := by
      intro k hk
      have := congrArg (fun l => g l k) hsplit
      beta_reduce at this
      rw [this]; exact g_append_left p _ k hk
    have hg0 : g p 0 = g ts 0 := (hgk 0 (by omega)).symm
    have hglast : g p (p.length - 1) = g ts (ts.length - 2) := by
      rw [show p.length - 1 = ts.length - 2 by omega]
      exact (hgk _ (by omega)).symm
    have := interp_local 1 p ds [g ts (ts.length - 1)] [x] [g ts (ts.length - 1)] [y] t (by omega) (by omega)
      (by rw [hg0, ht0]; exact h0) (by rw [hglast]; exact h1)
    rw [← hsplit] at this
    unfold curveFn
    rw [this]
  have hv : curveOfKnots 1 τ ts (ds ++ [x]) vd = curveOfKnots 1 τ ts (ds ++ [y]) vd := by
    unfold curveOfKnots
    rw [hvd]
    exact hprefix 0 le_rfl (by have := g_le_of_le ts hs 0 (ts.length - 2) (by omega) (by omega); linarith)
  have hvpos : 0 < curveOfKnots 1 τ ts (ds ++ [x]) vd := (hread' vd (by rw [hvd])).2.1
  have hst : curveOfKnots 1 τ ts (ds ++ [x]) first.start = curveOfKnots 1 τ ts (ds ++ [y]) first.start := by
    unfold curveOfKnots
    exact hprefix _ hstart0 hstart
  have hen : curveOfKnots 1 τ ts (ds ++ [x]) last.stop < curveOfKnots 1 τ ts (ds ++ [y]) last.stop := by
    unfold curveOfKnots
    rw [hend]
    have hlt : g ts (ts.length - 2) < g ts (ts.length - 1) := g_lt_of_lt ts hs _ _ (by omega) (by omega)
    obtain ⟨u, v, hu, hv', _, hstrict⟩ := flat_interp_mono_in_last_df ts ds x y (g ts (ts.length - 1)) hlen hs hn hpos hx
      hxy.le (g_le_of_le ts hs 0 _ (by omega) (by omega))
    rw [curveFn_of_ok 1 ts _ _ u hu, curveFn_of_ok 1 ts _ _ v hv']
    exact hstrict hxy hlt
  exact single_curve_payer_value_strictAnti (curveOfKnots 1 τ ts (ds ++ [x])) (curveOfKnots 1 τ ts (ds ++ [y])) yfI vd c N
    fp lp first last hc0 hN hv hvpos hst hen hyfF (fun p hp => (hread' p.pay (hpay0 p hp)).1) hfirst hlast hfut hlag hbasis
    hyf (fun q hq => (hread' q.stop (hstop0 q hq)).2.1.ne') (fun q hq => (hread' q.stop (hstop0 q hq)).2.2.ne') hc

end FinVerif.Props.C01
