/-
  C01 (part e) — the whole `_build_curve_using_1d_solver` of `Model/C01.lean` (anchor knot, deposit loop, FRA loop with its
  two branches, swap loop), the root finders being parameters of which only POSITIVITY of the returned df is assumed here.

    * `bootstrap1d_structure`: on an admissible quote set the build succeeds and returns a knot vector with
        times = [0] ++ deposit knot times ++ FRA knot times ++ swap knot times        (one knot per instrument, in order),
      hence `knot count = 1 + number of instruments`, and the vector is `Good` (strictly increasing times from 0, positive
      dfs, df(0) = 1);
    * `good_curve_df_curve_date`, `good_curve_positive`: a `Good` curve returns exactly 1 at the curve date and a strictly
      positive (finite: a real number) df at every time `t ≥ 0`, for each of the three bootstrap schemes;
    * `bootstrap1d_curve_date_and_positive`: the two together — the last clause of the property for the modelled build;
    * non-vacuity: a concrete admissible quote set (`example`s), and a concrete instance of the swap-objective monotonicity
      result of part (d).
-/
import FinVerif.Props.C01d

set_option linter.unusedVariables false
set_option linter.unusedSimpArgs false

namespace FinVerif.Props.C01
open FinVerif FinVerif.Gen FinVerif.Model.C02 FinVerif.Model.C01 FinVerif.Props.C02
open FinVerif.Spec.C06 (Period Contiguous annuity)
open FinVerif.Model.C06 (swapValue mkSwap IndexCurve)

/-! ### the curve a good knot vector defines -/

/-- df(curve date) = 1, exactly, for every interpolation code (the anchor knot is returned as it is). -/
theorem good_curve_df_curve_date (m : Int) (st : Knots ℝ) (h : Good st) : uinterp m st.1 st.2 0 = .ok 1 := by
  have := uinterp_first m st.1 st.2 (by have := h.ne; omega)
  rwa [h.t0, h.d0] at this

/-- df(t) is a strictly positive real for every `t ≥ 0` (interpolation and extrapolation), FLAT_FWD_RATES (1),
LINEAR_FWD_RATES (2), LINEAR_ZERO_RATES (4), as soon as the curve has one knot beyond the anchor. -/
theorem good_curve_positive (m : Int) (hm : m = 1 ∨ m = 2 ∨ m = 4) (st : Knots ℝ) (h : Good st) (hn : 2 ≤ st.1.length)
    (t : ℝ) (ht : 0 ≤ t) : ∃ v, uinterp m st.1 st.2 t = .ok v ∧ 0 < v := by
  obtain ⟨v, hv⟩ := uinterp_total m st.1 st.2 t h.len h.sorted h.pos hn h.t0.ge (by rw [h.t0]; exact ht) hm
  exact ⟨v, hv, interp_pos m st.1 st.2 t v hv h.pos h.len⟩

/-! ### times appended by the loops (no hypothesis: pure bookkeeping of the code) -/

theorem depoLoop_times (mdf : ℝ → ℝ → ℝ) (m : Int) :
    ∀ (deps : List (Depo ℝ)) (st fin : Knots ℝ), depoLoop mdf m st deps = .ok fin →
      fin.1 = st.1 ++ deps.map (·.tM) := by
  intro deps
  induction deps with
  | nil => intro st fin h; simp only [depoLoop] at h; injection h with h; subst h; simp
  | cons d ds ih =>
    intro st fin h
    simp only [depoLoop] at h
    cases hs : depoStep mdf m st d with
    | error e => rw [hs] at h; simp at h
    | ok st' =>
      rw [hs] at h
      have h1 : st'.1 = st.1 ++ [d.tM] := by
        unfold depoStep at hs
        cases hu : uinterp m st.1 st.2 d.tS with
        | error e => rw [hu] at hs; simp at hs
        | ok a => rw [hu] at hs; injection hs with hs; subst hs; rfl
      rw [ih st' fin h, h1]; simp

theorem fraLoop_times (fk : ℝ → ℝ → ℝ → ℝ) (solve : Knots ℝ → Fra ℝ → ℝ) (m : Int) (oldT : ℝ) :
    ∀ (fras : List (Fra ℝ)) (st fin : Knots ℝ), fraLoop fk solve m oldT st fras = .ok fin →
      fin.1 = st.1 ++ fras.map (·.tMat) := by
  intro fras
  induction fras with
  | nil => intro st fin h; simp only [fraLoop] at h; injection h with h; subst h; simp
  | cons f fs ih =>
    intro st fin h
    simp only [fraLoop] at h
    cases hs : fraStep fk solve m oldT st f with
    | error e => rw [hs] at h; simp at h
    | ok st' =>
      rw [hs] at h
      have h1 : st'.1 = st.1 ++ [f.tMat] := by
        unfold fraStep at hs
        by_cases hb : fraClosedForm oldT f = true
        · simp only [hb, if_true] at hs
          cases hu : uinterp m st.1 st.2 f.tSq with
          | error e => rw [hu] at hs; simp at hs
          | ok a => rw [hu] at hs; injection hs with hs; subst hs; rfl
        · simp only [hb, if_false] at hs
          injection hs with hs; subst hs; rfl
      rw [ih st' fin h, h1]; simp

theorem swapLoop_times (solve : Knots ℝ → ℝ → ℝ) :
    ∀ (ts : List ℝ) (st : Knots ℝ), (swapLoop solve st ts).1 = st.1 ++ ts := by
  intro ts
  induction ts with
  | nil => intro st; simp [swapLoop]
  | cons t ts ih => intro st; simp only [swapLoop]; rw [ih]; simp [swapStep]

/-! ### the FRA and swap loops keep the curve good -/

/-- A FRA the loop can handle given the last knot time: its knot goes beyond it, and on the closed-form branch its start is
read where the curve already is and `1 + α K > 0`. -/
def FraOk (oldT last : ℝ) (f : Fra ℝ) : Prop :=
  last < f.tMat ∧ (fraClosedForm oldT f = true → 0 ≤ f.tSq ∧ f.tSq ≤ last ∧ 0 < 1 + f.acc * f.rate)

def FraChain (oldT : ℝ) : ℝ → List (Fra ℝ) → Prop
  | _, [] => True
  | last, f :: fs => FraOk oldT last f ∧ FraChain oldT f.tMat fs

/-- Strictly increasing run of knot times beyond `last`. -/
def IncChain : ℝ → List ℝ → Prop
  | _, [] => True
  | last, t :: ts => last < t ∧ IncChain t ts

theorem fra_loop_good (m : Int) (hm : m = 1 ∨ m = 2 ∨ m = 4) (solve : Knots ℝ → Fra ℝ → ℝ)
    (hsolve : ∀ st f, 0 < solve st f) (oldT : ℝ) :
    ∀ (fras : List (Fra ℝ)) (st : Knots ℝ), Good st → FraChain oldT (lastTime st) fras →
      ∃ fin, fraLoop RatesR.fra_maturity_df solve m oldT st fras = .ok fin ∧ Good fin := by
  intro fras
  induction fras with
  | nil => intro st hg _; exact ⟨st, rfl, hg⟩
  | cons f fs ih =>
    intro st hg hc
    obtain ⟨⟨hM, hcf⟩, hrest⟩ := hc
    by_cases hb : fraClosedForm oldT f = true
    · obtain ⟨h0, hS, h1⟩ := hcf hb
      obtain ⟨a, ha, hapos⟩ := hg.read m hm f.tSq h0 hS
      have hk : 0 < RatesR.fra_maturity_df a f.acc f.rate := by
        simp only [RatesR.fra_maturity_df]; positivity
      have hg' := hg.snoc f.tMat _ hM hk
      obtain ⟨fin, hl, hgf⟩ := ih _ hg' (by rw [lastTime_snoc]; exact hrest)
      exact ⟨fin, by simp only [fraLoop, fraStep, hb, if_true, ha, hl], hgf⟩
    · have hg' := hg.snoc f.tMat _ hM (hsolve st f)
      obtain ⟨fin, hl, hgf⟩ := ih _ hg' (by rw [lastTime_snoc]; exact hrest)
      exact ⟨fin, by simp only [fraLoop, fraStep, hb, Bool.false_eq_true, if_false, hl], hgf⟩

theorem swap_loop_good (solve : Knots ℝ → ℝ → ℝ) (hsolve : ∀ st t, 0 < solve st t) :
    ∀ (ts : List ℝ) (st : Knots ℝ), Good st → IncChain (lastTime st) ts → Good (swapLoop solve st ts) := by
  intro ts
  induction ts with
  | nil => intro st hg _; exact hg
  | cons t ts ih =>
    intro st hg hc
    obtain ⟨hlt, hrest⟩ := hc
    simp only [swapLoop]
    apply ih
    · exact hg.snoc t _ hlt (hsolve st t)
    · simp only [swapStep]; rw [lastTime_snoc]; exact hrest

/-! ### the whole build -/

/-- Last knot time after a list of deposits (`0` when there is none) — `oldt_mat`. -/
def lastDepoTime : ℝ → List (Depo ℝ) → ℝ
  | last, [] => last
  | _, d :: ds => lastDepoTime d.tM ds

lemma lastTime_after_depos (mdf : ℝ → ℝ → ℝ) (m : Int) :
    ∀ (deps : List (Depo ℝ)) (st fin : Knots ℝ), depoLoop mdf m st deps = .ok fin →
      lastTime fin = lastDepoTime (lastTime st) deps := by
  intro deps
  induction deps with
  | nil => intro st fin h; simp only [depoLoop] at h; injection h with h; subst h; rfl
  | cons d ds ih =>
    intro st fin h
    simp only [depoLoop] at h
    cases hs : depoStep mdf m st d with
    | error e => rw [hs] at h; simp at h
    | ok st' =>
      rw [hs] at h
      have h1 : lastTime st' = d.tM := by
        unfold depoStep at hs
        cases hu : uinterp m st.1 st.2 d.tS with
        | error e => rw [hu] at hs; simp at hs
        | ok a => rw [hu] at hs; injection hs with hs; subst hs; exact lastTime_snoc _ _ _ _
      rw [ih st' fin h, h1]; rfl

lemma lastTime_init : lastTime (init : Knots ℝ) = 0 := by simp [lastTime, init, g]

/-- Last knot time after the FRAs. -/
def lastFraTime : ℝ → List (Fra ℝ) → ℝ
  | last, [] => last
  | _, f :: fs => lastFraTime f.tMat fs

lemma lastTime_after_fras (fk : ℝ → ℝ → ℝ → ℝ) (solve : Knots ℝ → Fra ℝ → ℝ) (m : Int) (oldT : ℝ) :
    ∀ (fras : List (Fra ℝ)) (st fin : Knots ℝ), fraLoop fk solve m oldT st fras = .ok fin →
      lastTime fin = lastFraTime (lastTime st) fras := by
  intro fras
  induction fras with
  | nil => intro st fin h; simp only [fraLoop] at h; injection h with h; subst h; rfl
  | cons f fs ih =>
    intro st fin h
    simp only [fraLoop] at h
    cases hs : fraStep fk solve m oldT st f with
    | error e => rw [hs] at h; simp at h
    | ok st' =>
      rw [hs] at h
      have h1 : lastTime st' = f.tMat := by
        unfold fraStep at hs
        by_cases hb : fraClosedForm oldT f = true
        · simp only [hb, if_true] at hs
          cases hu : uinterp m st.1 st.2 f.tSq with
          | error e => rw [hu] at hs; simp at hs
          | ok a => rw [hu] at hs; injection hs with hs; subst hs; exact lastTime_snoc _ _ _ _
        · simp only [hb, if_false] at hs
          injection hs with hs; subst hs; exact lastTime_snoc _ _ _ _
      rw [ih st' fin h, h1]; rfl

/-- C01, structure of the build, **any numbers of deposits, FRAs and swaps**: on an admissible quote set (deposits chained
from the curve date, FRA and swap knots strictly increasing beyond, closed-form FRAs starting inside the curve) and with root
finders that return positive dfs, `_build_curve_using_1d_solver` succeeds; the knot times are the anchor followed by one knot
per instrument in the order deposits, FRAs, swaps; and the knot vector is `Good`. -/
theorem bootstrap1d_structure (m : Int) (hm : m = 1 ∨ m = 4) (solveF : Knots ℝ → Fra ℝ → ℝ) (solveS : Knots ℝ → ℝ → ℝ)
    (hF : ∀ st f, 0 < solveF st f) (hS : ∀ st t, 0 < solveS st t)
    (deps : List (Depo ℝ)) (fras : List (Fra ℝ)) (swapTs : List ℝ)
    (hd : DepoChain 0 deps) (hf : FraChain (lastDepoTime 0 deps) (lastDepoTime 0 deps) fras)
    (hs : IncChain (lastFraTime (lastDepoTime 0 deps) fras) swapTs) :
    ∃ fin, bootstrap1d RatesR.deposit_maturity_df RatesR.fra_maturity_df solveF solveS m deps fras swapTs = .ok fin ∧
      Good fin ∧ fin.1 = [0] ++ deps.map (·.tM) ++ fras.map (·.tMat) ++ swapTs ∧
      fin.1.length = 1 + deps.length + fras.length + swapTs.length := by
  have hm3 : m = 1 ∨ m = 2 ∨ m = 4 := by rcases hm with h | h <;> simp [h]
  obtain ⟨st1, _, _, h1, _, hg1, _⟩ := depo_loop_reprices m hm deps init good_init (by rw [lastTime_init]; exact hd)
  have hl1 : lastTime st1 = lastDepoTime 0 deps := by
    rw [lastTime_after_depos _ m deps init st1 h1, lastTime_init]
  obtain ⟨st2, h2, hg2⟩ := fra_loop_good m hm3 solveF hF (lastTime st1) fras st1 hg1 (by rw [hl1]; exact hf)
  have hl2 : lastTime st2 = lastFraTime (lastDepoTime 0 deps) fras := by
    rw [lastTime_after_fras _ solveF m _ fras st1 st2 h2, hl1]
  have hg3 := swap_loop_good solveS hS swapTs st2 hg2 (by rw [hl2]; exact hs)
  have ht : (swapLoop solveS st2 swapTs).1 = [0] ++ deps.map (·.tM) ++ fras.map (·.tMat) ++ swapTs := by
    rw [swapLoop_times, fraLoop_times _ solveF m _ fras st1 st2 h2, depoLoop_times _ m deps init st1 h1]
    rfl
  refine ⟨swapLoop solveS st2 swapTs, by simp only [bootstrap1d, h1, h2], hg3, ht, ?_⟩
  rw [ht]; simp; omega

/-- C01, last clause of the property for the modelled build: the curve returned has df exactly 1 on the curve date and a
strictly positive df at every `t ≥ 0` — assumption: the root finders return positive dfs (checked on every built curve). -/
theorem bootstrap1d_curve_date_and_positive (m : Int) (hm : m = 1 ∨ m = 4) (solveF : Knots ℝ → Fra ℝ → ℝ)
    (solveS : Knots ℝ → ℝ → ℝ) (hF : ∀ st f, 0 < solveF st f) (hS : ∀ st t, 0 < solveS st t)
    (deps : List (Depo ℝ)) (fras : List (Fra ℝ)) (swapTs : List ℝ) (hne : 1 ≤ deps.length + fras.length + swapTs.length)
    (hd : DepoChain 0 deps) (hf : FraChain (lastDepoTime 0 deps) (lastDepoTime 0 deps) fras)
    (hs : IncChain (lastFraTime (lastDepoTime 0 deps) fras) swapTs) :
    ∃ fin, bootstrap1d RatesR.deposit_maturity_df RatesR.fra_maturity_df solveF solveS m deps fras swapTs = .ok fin ∧
      uinterp m fin.1 fin.2 0 = .ok 1 ∧ ∀ t, 0 ≤ t → ∃ v, uinterp m fin.1 fin.2 t = .ok v ∧ 0 < v := by
  obtain ⟨fin, hb, hg, _, hlen⟩ := bootstrap1d_structure m hm solveF solveS hF hS deps fras swapTs hd hf hs
  have hm3 : m = 1 ∨ m = 2 ∨ m = 4 := by rcases hm with h | h <;> simp [h]
  exact ⟨fin, hb, good_curve_df_curve_date m fin hg,
    fun t ht => good_curve_positive m hm3 fin hg (by omega) t ht⟩

/-- Non-vacuity of `bootstrap1d_structure`: one deposit (3M), one closed-form FRA starting inside the deposit (2M × 5M), one
solver FRA (5M × 8M), two swaps (1Y, 2Y); solvers returning any positive number. -/
example : ∃ fin, bootstrap1d RatesR.deposit_maturity_df RatesR.fra_maturity_df (fun _ _ => 1 / 2) (fun _ _ => 1 / 2) 1
      [⟨0, 1 / 4, 1 / 4, 2 / 100⟩]
      [⟨1 / 6, 5 / 12, 1 / 6, 1 / 4, 2 / 100⟩, ⟨5 / 12, 2 / 3, 5 / 12, 1 / 4, 2 / 100⟩] [1, 2] = .ok fin ∧
    Good fin ∧ fin.1 = [0] ++ [1 / 4] ++ [5 / 12, 2 / 3] ++ [1, 2] ∧ fin.1.length = 1 + 1 + 2 + 2 := by
  have := bootstrap1d_structure 1 (Or.inl rfl) (fun _ _ => 1 / 2) (fun _ _ => 1 / 2) (by intros; norm_num) (by intros; norm_num)
    [⟨0, 1 / 4, 1 / 4, 2 / 100⟩]
    [⟨1 / 6, 5 / 12, 1 / 6, 1 / 4, 2 / 100⟩, ⟨5 / 12, 2 / 3, 5 / 12, 1 / 4, 2 / 100⟩] [1, 2]
    (by simp only [DepoChain, DepoOk]; norm_num)
    (by simp only [FraChain, FraOk, lastDepoTime, fraClosedForm]; norm_num)
    (by simp only [IncChain, lastFraTime, lastDepoTime]; norm_num)
  simpa using this

/-- Non-vacuity of `fra_closed_form_step_reprices` (part d): the curve `([0, ¼], [1, 0.99])` after one 3M deposit, a 2M × 5M FRA
at 2 % (it starts before the deposit's knot and ends after it: the closed-form branch). -/
example := fra_closed_form_step_reprices 1 (Or.inl rfl) (fun _ _ => 0) (1 / 4)
  ((init : Knots ℝ).1 ++ [1 / 4], (init : Knots ℝ).2 ++ [99 / 100])
  (good_init.snoc (1 / 4) (99 / 100) (by rw [lastTime_init]; norm_num) (by norm_num))
  ⟨1 / 6, 5 / 12, 1 / 6, 1 / 4, 2 / 100⟩ (by simp [fraClosedForm]; norm_num) (by norm_num)
  (by rw [lastTime_snoc]; norm_num) (by rw [lastTime_snoc]; norm_num) (by norm_num) (by norm_num) 1000000 (by norm_num) false

/-- Non-vacuity of `flat_swap_objective_strictAnti` (part d): knots at 0, ½, 1 (dfs 1, 0.99, last one free), a 1Y payer swap
with semi-annual floating and annual fixed leg at 2 %, dates 0, 1, 2 at times 0, ½, 1: raising the last df from 0.97 to 0.98
strictly lowers the value. -/
example :
    swapValue (curveOfKnots 1 (fun d => (d : ℝ) / 2) [0, 1 / 2, 1] ([1, 99 / 100] ++ [98 / 100]))
        ⟨curveOfKnots 1 (fun d => (d : ℝ) / 2) [0, 1 / 2, 1] ([1, 99 / 100] ++ [98 / 100]), fun _ _ => 1 / 2⟩ none
        (mkSwap true (2 / 100 : ℝ) 1 0 [⟨0, 2, 2, 1⟩] [⟨0, 1, 1, 1 / 2⟩, ⟨1, 2, 2, 1 / 2⟩]) 0
      < swapValue (curveOfKnots 1 (fun d => (d : ℝ) / 2) [0, 1 / 2, 1] ([1, 99 / 100] ++ [97 / 100]))
        ⟨curveOfKnots 1 (fun d => (d : ℝ) / 2) [0, 1 / 2, 1] ([1, 99 / 100] ++ [97 / 100]), fun _ _ => 1 / 2⟩ none
        (mkSwap true (2 / 100 : ℝ) 1 0 [⟨0, 2, 2, 1⟩] [⟨0, 1, 1, 1 / 2⟩, ⟨1, 2, 2, 1 / 2⟩]) 0 := by
  apply flat_swap_objective_strictAnti (fun d => (d : ℝ) / 2) [0, 1 / 2, 1] [1, 99 / 100] (97 / 100) (98 / 100) rfl
    (by simp; norm_num) (by simp) (by intro d hd; simp at hd; rcases hd with h | h <;> rw [h] <;> norm_num)
    (by norm_num) (by norm_num) (by simp [g]) (fun _ _ => 1 / 2) 0 (2 / 100) 1 [⟨0, 2, 2, 1⟩]
    [⟨0, 1, 1, 1 / 2⟩, ⟨1, 2, 2, 1 / 2⟩] ⟨0, 1, 1, 1 / 2⟩ ⟨1, 2, 2, 1 / 2⟩ (by norm_num) (by norm_num) (by norm_num)
    (by norm_num) (by simp [g]) (by simp [g])
    (by intro p hp; simp at hp; rw [hp]; norm_num) (by intro p hp; simp at hp; rw [hp]; norm_num)
    (by intro q hq; simp at hq; rcases hq with h | h <;> rw [h] <;> norm_num) rfl rfl
    (by intro q hq; simp at hq; rcases hq with h | h <;> rw [h] <;> norm_num)
    (by intro q hq; simp at hq; rcases hq with h | h <;> rw [h])
    (by intro q hq; simp at hq; rcases hq with h | h <;> rw [h] <;> norm_num)
    (by intro q hq; simp at hq; rcases hq with h | h <;> rw [h] <;> norm_num)
    (by simp [Contiguous])

end FinVerif.Props.C01
