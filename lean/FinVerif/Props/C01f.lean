/-
  C01 (part f) — the LINEAR_ONFWD_RATES scheme of `interpolator.py` (`Model/C01Onf.lean`, hand model run at `Float` against
  the implementation by ops `ONFS` / `ONFF` of `Driver/C01`) over ℝ, for ANY number of knots:

    * `onf_knot_reproduced` — every knot with a non-negligible time is returned exactly (the trapezoids of the fitted
      piecewise-linear overnight forwards telescope to `−log df_k`), `onf_knot_zero` — a knot AT the origin is answered `1`
      whatever its df (so the anchor is reproduced iff its df is 1);
    * `onf_df_zero`, `onf_positive` — df(0) = 1 and df > 0 for every `t ≥ 0`, for ANY knots (no hypothesis on the dfs);
    * `onfInt_continuous`, `onf_continuousOn` — the curve is continuous on `[g_small, ∞)` (not only at the knots);
    * `onf_local` — the value at `t ≤ times[i]` does not depend on the knots after `i` (the scheme is CAUSAL: the sequential
      bootstrap is sound for it, `onf_search_moves_only_last_segment`), while `onf_not_bracket_local` shows it is NOT local
      in the two-sided sense of FLAT_FWD: between knots 2 and 3 the value depends on knot 1;
    * the edge branches exercised by `unit_tests/test_FinInterpolate.py`: empty fit, single value at the origin, single
      value not at the origin, two values including the origin; and the object-state fact behind the finding
      `stale-fit-after-closed-form-last-knot`: a curve read through a spline fitted BEFORE the last knot was appended
      extrapolates flat over that knot (`onf_stale_fit_misses_last_knot`), and a one-knot `fit` keeps the previous spline
      (`onf_fit_single_keeps_spline`).
-/
import FinVerif.Model.C01Onf
import FinVerif.Lemmas.C02Interp
import FinVerif.Props.C01
import Mathlib.Topology.Order.OrderClosed
import Mathlib.Tactic.NormNum
import Mathlib.Tactic.Positivity

set_option linter.unusedVariables false
set_option linter.unusedSimpArgs false

namespace FinVerif.Props.C01
open FinVerif FinVerif.Model.C02 FinVerif.Model.C01

/-! ### small facts -/

lemma gSmall_real : (gSmall : ℝ) = 1e-12 := rfl

lemma absG_real (x : ℝ) : absG x = |x| := by
  unfold absG
  by_cases h : x < 0
  · simp [h, abs_of_neg h]
  · simp [h, abs_of_nonneg (not_lt.mp h)]

lemma g_cons_zero (x : ℝ) (l : List ℝ) : g (x :: l) 0 = x := by simp [g]

lemma g_cons_succ (x : ℝ) (l : List ℝ) (k : ℕ) : g (x :: l) (k + 1) = g l k := by simp [g]

lemma feq_zero_false {t : ℝ} (h : t ≠ 0) : feq t 0 = false := by simp [feq_real, h]

/-! ### the fit -/

lemma onfRest_cons_ne (prevDf pt pr t d : ℝ) (ts ds : List ℝ) (ht : t ≠ 0) :
    onfRest prevDf pt pr (t :: ts) (d :: ds) =
      (t, 2 * (-(Real.log (d / prevDf))) / (t - pt) - pr) ::
        onfRest d t (2 * (-(Real.log (d / prevDf))) / (t - pt) - pr) ts ds := by
  rw [onfRest]
  simp only [feq_zero_false ht, Bool.false_eq_true, if_false, log_real]

lemma onfFit_cons_zero (d : ℝ) (ts ds : List ℝ) : onfFit ((0 : ℝ) :: ts) (d :: ds) = onfFit ts ds := by
  rw [onfFit]
  simp [feq_real]

lemma onfFit_cons_ne (t d : ℝ) (ts ds : List ℝ) (ht : t ≠ 0) :
    onfFit (t :: ts) (d :: ds) =
      some (-(Real.log d) / t, (t, -(Real.log d) / t) :: onfRest d t (-(Real.log d) / t) ts ds) := by
  rw [onfFit]
  simp only [feq_zero_false ht, Bool.false_eq_true, if_false, log_real]

/-- The node times of the fitted spline are the knot times (none of them zero). -/
lemma onfRest_times : ∀ (ts ds : List ℝ) (prevDf pt pr : ℝ), ds.length = ts.length → (∀ x ∈ ts, x ≠ 0) →
    (onfRest prevDf pt pr ts ds).map Prod.fst = ts := by
  intro ts
  induction ts with
  | nil => intro ds _ _ _ _ _; cases ds <;> simp [onfRest]
  | cons t ts ih =>
    intro ds prevDf pt pr hlen hne
    cases ds with
    | nil => simp at hlen
    | cons d ds =>
      rw [onfRest_cons_ne _ _ _ _ _ _ _ (hne t (by simp))]
      simp only [List.map_cons, List.cons.injEq, true_and]
      exact ih ds _ _ _ (by simpa using hlen) (fun x hx => hne x (by simp [hx]))

/-- Fitting more knots only APPENDS nodes: the nodes of a prefix of the knots are a prefix of the nodes. -/
lemma onfRest_append : ∀ (ts ds xs ys : List ℝ) (prevDf pt pr : ℝ), ds.length = ts.length →
    ∃ more, onfRest prevDf pt pr (ts ++ xs) (ds ++ ys) = onfRest prevDf pt pr ts ds ++ more := by
  intro ts
  induction ts with
  | nil =>
    intro ds xs ys prevDf pt pr hlen
    cases ds with
    | nil => exact ⟨onfRest prevDf pt pr xs ys, by simp [onfRest]⟩
    | cons d ds => simp at hlen
  | cons t ts ih =>
    intro ds xs ys prevDf pt pr hlen
    cases ds with
    | nil => simp at hlen
    | cons d ds =>
      have hl : ds.length = ts.length := by simpa using hlen
      by_cases ht : t = 0
      · subst ht
        obtain ⟨more, hm⟩ := ih ds xs ys prevDf pt pr hl
        refine ⟨more, ?_⟩
        simp only [List.cons_append]
        rw [onfRest, onfRest]
        simpa [feq_real] using hm
      · simp only [List.cons_append]
        rw [onfRest_cons_ne _ _ _ _ _ _ _ ht, onfRest_cons_ne _ _ _ _ _ _ _ ht]
        obtain ⟨more, hm⟩ := ih ds xs ys d t (2 * (-(Real.log (d / prevDf))) / (t - pt) - pr) hl
        exact ⟨more, by rw [hm]; simp⟩

/-! ### the integral of the fitted forwards -/

/-- The trapezoids telescope: from the node `(pt, pr)`, where the df is `prevDf`, the integral of the fitted forwards up to
knot `k` is `log prevDf − log df_k`. -/
lemma onfRest_int_at_knot : ∀ (ts ds : List ℝ) (prevDf pt pr : ℝ), ds.length = ts.length →
    (pt :: ts).Pairwise (· < ·) → 0 ≤ pt → 0 < prevDf → (∀ d ∈ ds, 0 < d) → ∀ k, k < ts.length →
    onfInt pt pr (onfRest prevDf pt pr ts ds) (g ts k) = Real.log prevDf - Real.log (g ds k) := by
  intro ts
  induction ts with
  | nil => intro ds _ _ _ _ _ _ _ _ k hk; simp at hk
  | cons t ts ih =>
    intro ds prevDf pt pr hlen hs hpt hp hpos k hk
    cases ds with
    | nil => simp at hlen
    | cons d ds =>
      have hl : ds.length = ts.length := by simpa using hlen
      have hs' := List.pairwise_cons.mp hs
      have hptt : pt < t := hs'.1 t (by simp)
      have ht0 : t ≠ 0 := by intro h; rw [h] at hptt; linarith
      have hd : 0 < d := hpos d (by simp)
      have hdt : t - pt ≠ 0 := by intro h; linarith
      rw [onfRest_cons_ne _ _ _ _ _ _ _ ht0]
      cases k with
      | zero =>
        rw [g_cons_zero, g_cons_zero, onfInt]
        simp only [le_refl, if_true]
        rw [Real.log_div hd.ne' hp.ne']
        field_simp
        ring
      | succ k =>
        rw [g_cons_succ, g_cons_succ, onfInt]
        have hk' : k < ts.length := by simpa using hk
        have hlt : t < g ts k := (List.pairwise_cons.mp hs'.2).1 _ (g_mem ts k hk')
        simp only [not_le.mpr hlt, if_false]
        rw [ih ds d t _ hl hs'.2 (le_trans hpt hptt.le) hd (fun x hx => hpos x (by simp [hx])) k hk',
          Real.log_div hd.ne' hp.ne']
        field_simp
        ring

/-- From time 0: with positive sorted knot times the integral of the fitted forwards up to knot `k` is `−log df_k`. -/
lemma onfFit_int_at_knot (t d : ℝ) (ts ds : List ℝ) (hlen : ds.length = ts.length) (hs : (t :: ts).Pairwise (· < ·))
    (ht : 0 < t) (hpos : ∀ x ∈ d :: ds, 0 < x) (k : ℕ) (hk : k < (t :: ts).length) :
    onfInt 0 (-(Real.log d) / t) ((t, -(Real.log d) / t) :: onfRest d t (-(Real.log d) / t) ts ds) (g (t :: ts) k)
      = -(Real.log (g (d :: ds) k)) := by
  have hd : 0 < d := hpos d (by simp)
  cases k with
  | zero =>
    rw [g_cons_zero, g_cons_zero, onfInt]
    simp only [le_refl, if_true]
    field_simp
    ring
  | succ k =>
    have hk' : k < ts.length := by simpa using hk
    have hlt : t < g ts k := (List.pairwise_cons.mp hs).1 _ (g_mem ts k hk')
    rw [g_cons_succ, g_cons_succ, onfInt]
    simp only [not_le.mpr hlt, if_false]
    rw [onfRest_int_at_knot ts ds d t _ hlen hs ht.le hd (fun x hx => hpos x (by simp [hx])) k hk']
    field_simp
    ring

/-- The integral from a node to itself is 0 when the next node is not earlier. -/
lemma onfInt_start (pt pr : ℝ) (nodes : List (ℝ × ℝ)) (h : (pt :: nodes.map Prod.fst).Pairwise (· ≤ ·)) :
    onfInt pt pr nodes pt = 0 := by
  cases nodes with
  | nil => simp [onfInt]
  | cons n rest =>
    obtain ⟨a, r⟩ := n
    have : pt ≤ a := (List.pairwise_cons.mp h).1 a (by simp)
    rw [onfInt]
    simp [this]

/-- `true_integral` is a continuous function of `t` on the whole line (node times non-decreasing). -/
theorem onfInt_continuous : ∀ (nodes : List (ℝ × ℝ)) (pt pr : ℝ), (pt :: nodes.map Prod.fst).Pairwise (· ≤ ·) →
    Continuous (onfInt pt pr nodes) := by
  intro nodes
  induction nodes with
  | nil =>
    intro pt pr _
    have : onfInt pt pr [] = fun t => (t - pt) * pr := by funext t; simp [onfInt]
    rw [this]
    fun_prop
  | cons n rest ih =>
    intro pt pr h
    obtain ⟨a, r⟩ := n
    have h' : (a :: rest.map Prod.fst).Pairwise (· ≤ ·) := by
      have := (List.pairwise_cons.mp h).2
      simpa using this
    have e : onfInt pt pr ((a, r) :: rest) = fun t =>
        if t ≤ a then (t - pt) * (pr + (pr + (r - pr) * (t - pt) / (a - pt))) / 2
        else (a - pt) * (pr + r) / 2 + onfInt a r rest t := by
      funext t; rw [onfInt]
    rw [e]
    refine Continuous.if_le (by fun_prop) ((continuous_const).add (ih a r h')) continuous_id continuous_const ?_
    intro t ht
    rw [ht, onfInt_start a r rest h']
    by_cases hz : a - pt = 0
    · rw [hz]; simp
    · field_simp
      ring

/-- Nodes after a node at or beyond `t` do not matter. -/
lemma onfInt_append_local : ∀ (ns : List (ℝ × ℝ)) (pt pr a r : ℝ) (ms : List (ℝ × ℝ)) (t : ℝ), t ≤ a →
    onfInt pt pr (ns ++ (a, r) :: ms) t = onfInt pt pr (ns ++ [(a, r)]) t := by
  intro ns
  induction ns with
  | nil =>
    intro pt pr a r ms t ht
    simp only [List.nil_append]
    rw [onfInt, onfInt]
    simp [ht]
  | cons n ns ih =>
    intro pt pr a r ms t ht
    obtain ⟨b, s⟩ := n
    simp only [List.cons_append]
    rw [onfInt, onfInt, ih b s a r ms t ht]

/-! ### the curve as a real function -/

/-- The value `Interpolator.interpolate` returns (0 where it raises). -/
noncomputable def onfVal (st : OnfState ℝ) (t : ℝ) : ℝ :=
  match onfInterp st t with
  | .ok v => v
  | .error _ => 0

lemma small_pos : (0 : ℝ) < 1e-12 := by norm_num

/-- Right of `g_small` a fitted object answers `exp(−∫₀ᵗ f)`. -/
lemma onfInterp_fitted (times dfs : List ℝ) (s : OnfSpline ℝ) (t : ℝ) (ht : 1e-12 ≤ t) :
    onfInterp ⟨times, dfs, true, some s⟩ t = .ok (Real.exp (-(onfInt 0 s.1 s.2 t))) := by
  have h0 : ¬ t < 0 := by linarith [small_pos]
  have h1 : ¬ |t| < 1e-12 := by rw [abs_of_nonneg (by linarith [small_pos])]; linarith
  simp only [onfInterp, Bool.not_true, Bool.false_eq_true, if_false, h0, absG_real, gSmall_real, h1, exp_real]

/-- **df(curve date) = 1**: any object that has been fitted answers exactly `1.0` at `t = 0`, whatever the knots. -/
theorem onf_df_zero (st : OnfState ℝ) (h : st.hasDfs = true) : onfInterp st 0 = .ok 1 := by
  have h1 : |(0 : ℝ)| < 1e-12 := by rw [abs_zero]; norm_num
  simp only [onfInterp, h, Bool.not_true, Bool.false_eq_true, if_false, lt_irrefl, absG_real, gSmall_real, h1, if_true]

/-- **Positivity, no hypothesis on the knots**: whenever `interpolate` answers, the answer is positive. -/
theorem onf_positive (st : OnfState ℝ) (t v : ℝ) (h : onfInterp st t = .ok v) : 0 < v := by
  unfold onfInterp at h
  split at h
  · simp at h
  · split at h
    · simp at h
    · split at h
      · simp only [Except.ok.injEq] at h; rw [← h]; norm_num
      · split at h
        · split at h
          · simp only [Except.ok.injEq] at h; rw [← h]; norm_num
          · simp only [Except.ok.injEq, exp_real] at h; rw [← h]; exact Real.exp_pos _
        · simp only [Except.ok.injEq, exp_real] at h; rw [← h]; exact Real.exp_pos _

/-- Every query `t ≥ 0` of a fitted object is answered (no error branch is reachable). -/
theorem onf_total (st : OnfState ℝ) (h : st.hasDfs = true) (t : ℝ) (ht : 0 ≤ t) : ∃ v, onfInterp st t = .ok v ∧ 0 < v := by
  have : ∃ v, onfInterp st t = .ok v := by
    unfold onfInterp
    simp only [h, Bool.not_true, Bool.false_eq_true, if_false, not_lt.mpr ht]
    split
    · exact ⟨_, rfl⟩
    · split
      · split
        · exact ⟨_, rfl⟩
        · exact ⟨_, rfl⟩
      · exact ⟨_, rfl⟩
  obtain ⟨v, hv⟩ := this
  exact ⟨v, hv, onf_positive st t v hv⟩

/-- **Continuity**: a fitted object whose spline has non-decreasing node times is continuous on `[g_small, ∞)` — at the knots
and between them, including the passage to the flat extrapolation. -/
theorem onf_continuousOn (times dfs : List ℝ) (s : OnfSpline ℝ) (hs : ((0 : ℝ) :: s.2.map Prod.fst).Pairwise (· ≤ ·)) :
    ContinuousOn (onfVal ⟨times, dfs, true, some s⟩) (Set.Ici 1e-12) := by
  have hc : Continuous fun t => Real.exp (-(onfInt 0 s.1 s.2 t)) :=
    Real.continuous_exp.comp (onfInt_continuous s.2 0 s.1 hs).neg
  refine hc.continuousOn.congr ?_
  intro t ht
  simp only [onfVal, onfInterp_fitted times dfs s t ht]

/-! ### a fresh object fitted once: `onfwdDf` -/

lemma onfwdDf_multi (times dfs : List ℝ) (hn : times.length ≠ 1) (t : ℝ) :
    onfwdDf times dfs t = onfInterp ⟨times, dfs, true, some (onfSplineOf times dfs)⟩ t := by
  simp [onfwdDf, onfFitState, hn, onfNew]

lemma onfwdDf_single (t0 d0 t : ℝ) : onfwdDf [t0] [d0] t = onfInterp ⟨[t0], [d0], true, none⟩ t := by
  simp [onfwdDf, onfFitState, onfNew]

lemma onfwdDf_small (times dfs : List ℝ) (t : ℝ) (h0 : 0 ≤ t) (ht : t < 1e-12) : onfwdDf times dfs t = .ok 1 := by
  have h1 : |t| < 1e-12 := by rw [abs_of_nonneg h0]; exact ht
  unfold onfwdDf onfFitState
  split <;>
    simp only [onfInterp, Bool.not_true, Bool.false_eq_true, if_false, not_lt.mpr h0, absG_real, gSmall_real, h1, if_true]

/-- **df(curve date) = 1** for every knot vector (also an empty one, also one whose anchor df is not 1). -/
theorem onf_df_curve_date (times dfs : List ℝ) : onfwdDf times dfs 0 = .ok 1 :=
  onfwdDf_small times dfs 0 le_rfl (by norm_num)

/-- df > 0 wherever the curve answers, and it answers for every `t ≥ 0` — no hypothesis on the knots. -/
theorem onf_df_pos (times dfs : List ℝ) (t : ℝ) (ht : 0 ≤ t) : ∃ v, onfwdDf times dfs t = .ok v ∧ 0 < v := by
  unfold onfwdDf
  apply onf_total _ _ t ht
  unfold onfFitState
  split <;> rfl

/-- Sorted knot times starting at or after 0: every later time is positive. -/
lemma tail_pos (t0 : ℝ) (ts : List ℝ) (hs : (t0 :: ts).Pairwise (· < ·)) (h0 : 0 ≤ t0) : ∀ x ∈ ts, 0 < x := by
  intro x hx
  have := (List.pairwise_cons.mp hs).1 x hx
  linarith

/-- The integral of the fitted forwards up to any knot with a non-zero time is `−log df_k`. -/
lemma onfSplineOf_int_at_knot (times dfs : List ℝ) (hlen : dfs.length = times.length) (hs : times.Pairwise (· < ·))
    (h0 : 0 ≤ g times 0) (hpos : ∀ d ∈ dfs, 0 < d) (k : ℕ) (hk : k < times.length) (hne : g times k ≠ 0) :
    onfInt 0 (onfSplineOf times dfs).1 (onfSplineOf times dfs).2 (g times k) = -(Real.log (g dfs k)) := by
  cases times with
  | nil => simp at hk
  | cons t0 ts =>
    cases dfs with
    | nil => simp at hlen
    | cons d0 ds =>
      have hl : ds.length = ts.length := by simpa using hlen
      rw [g_cons_zero] at h0
      by_cases hz : t0 = 0
      · subst hz
        cases k with
        | zero => rw [g_cons_zero] at hne; exact absurd rfl hne
        | succ k =>
          have hk' : k < ts.length := by simpa using hk
          cases ts with
          | nil => simp at hk'
          | cons t1 ts =>
            cases ds with
            | nil => simp at hl
            | cons d1 ds =>
              have ht1 : 0 < t1 := tail_pos 0 _ hs le_rfl t1 (by simp)
              have hs1 := (List.pairwise_cons.mp hs).2
              simp only [onfSplineOf, onfFit_cons_zero, onfFit_cons_ne t1 d1 ts ds ht1.ne']
              rw [g_cons_succ, g_cons_succ]
              exact onfFit_int_at_knot t1 d1 ts ds (by simpa using hl) hs1 ht1 (fun x hx => hpos x (by simp [hx])) k hk'
      · have ht0 : 0 < t0 := lt_of_le_of_ne h0 (Ne.symm hz)
        simp only [onfSplineOf, onfFit_cons_ne t0 d0 ts ds hz]
        exact onfFit_int_at_knot t0 d0 ts ds hl hs ht0 hpos k hk

/-- **Knots reproduced exactly**: a curve with at least two knots (sorted times from `t₀ ≥ 0`, positive dfs) returns `df_k`
at every knot time that is not inside the `g_small` window around 0. -/
theorem onf_knot_reproduced (times dfs : List ℝ) (hlen : dfs.length = times.length) (hs : times.Pairwise (· < ·))
    (h0 : 0 ≤ g times 0) (hpos : ∀ d ∈ dfs, 0 < d) (hn : 2 ≤ times.length) (k : ℕ) (hk : k < times.length)
    (hk0 : 1e-12 ≤ g times k) : onfwdDf times dfs (g times k) = .ok (g dfs k) := by
  rw [onfwdDf_multi times dfs (by omega), onfInterp_fitted times dfs _ _ hk0,
    onfSplineOf_int_at_knot times dfs hlen hs h0 hpos k hk (by linarith [small_pos]), neg_neg,
    Real.exp_log (g_pos dfs hpos k (by omega))]

/-- A knot AT the origin is answered `1.0` whatever df was given for it: the anchor is reproduced iff its df is 1. -/
theorem onf_knot_zero (times dfs : List ℝ) (h : g times 0 = 0) : onfwdDf times dfs (g times 0) = .ok 1 := by
  rw [h]; exact onf_df_curve_date times dfs

/-- All knots of a bootstrap-shaped curve (anchor `(0, 1)`, later times `≥ g_small`) are reproduced. -/
theorem onf_all_knots_reproduced (times dfs : List ℝ) (hlen : dfs.length = times.length) (hs : times.Pairwise (· < ·))
    (ht0 : g times 0 = 0) (hd0 : g dfs 0 = 1) (hpos : ∀ d ∈ dfs, 0 < d) (hn : 2 ≤ times.length)
    (hsm : ∀ k, 1 ≤ k → k < times.length → 1e-12 ≤ g times k) (k : ℕ) (hk : k < times.length) :
    onfwdDf times dfs (g times k) = .ok (g dfs k) := by
  cases k with
  | zero => rw [hd0]; exact onf_knot_zero times dfs ht0
  | succ k => exact onf_knot_reproduced times dfs hlen hs ht0.ge hpos hn _ hk (hsm _ (by omega) hk)

example : ∃ times dfs : List ℝ, dfs.length = times.length ∧ times.Pairwise (· < ·) ∧ g times 0 = 0 ∧ g dfs 0 = 1 ∧
    (∀ d ∈ dfs, 0 < d) ∧ 2 ≤ times.length ∧ ∀ k, 1 ≤ k → k < times.length → 1e-12 ≤ g times k := by
  refine ⟨[0, 1 / 4, 1], [1, 99 / 100, 24 / 25], rfl, by norm_num, by simp [g], by simp [g], ?_, by simp, ?_⟩
  · intro d hd; simp at hd; rcases hd with h | h | h <;> rw [h] <;> norm_num
  · intro k h1 hk
    simp at hk
    rcases (by omega : k = 1 ∨ k = 2) with rfl | rfl <;> norm_num [g]

/-! ### locality: the scheme is causal -/

/-- Positive sorted knots: appending knots keeps the rate at 0 and, up to the last old knot, the integral. -/
lemma onfFit_pos_local (t d : ℝ) (ts ds xs ys : List ℝ) (hlen : ds.length = ts.length) (hs : (t :: ts).Pairwise (· < ·))
    (ht : 0 < t) (q : ℝ) (hq : q ≤ g (t :: ts) ts.length) :
    ∃ s s' : OnfSpline ℝ, onfFit (t :: ts) (d :: ds) = some s ∧ onfFit (t :: ts ++ xs) (d :: ds ++ ys) = some s' ∧
      s'.1 = s.1 ∧ onfInt 0 s.1 s'.2 q = onfInt 0 s.1 s.2 q := by
  have hne : ∀ x ∈ ts, x ≠ 0 := fun x hx => (tail_pos t ts hs ht.le x hx).ne'
  obtain ⟨more, hm⟩ := onfRest_append ts ds xs ys d t (-(Real.log d) / t) hlen
  refine ⟨(-(Real.log d) / t, (t, -(Real.log d) / t) :: onfRest d t (-(Real.log d) / t) ts ds),
    (-(Real.log d) / t, (t, -(Real.log d) / t) :: onfRest d t (-(Real.log d) / t) (ts ++ xs) (ds ++ ys)),
    onfFit_cons_ne t d ts ds ht.ne', ?_, rfl, ?_⟩
  · simp only [List.cons_append]
    exact onfFit_cons_ne t d (ts ++ xs) (ds ++ ys) ht.ne'
  · simp only [hm]
    set N := (t, -(Real.log d) / t) :: onfRest d t (-(Real.log d) / t) ts ds with hN
    have hNt : N.map Prod.fst = t :: ts := by
      rw [hN, List.map_cons, onfRest_times ts ds _ _ _ hlen hne]
    show onfInt 0 _ (N ++ more) q = onfInt 0 _ N q
    rcases List.eq_nil_or_concat N with h | ⟨L, b, hLb'⟩
    · rw [hN] at h; simp at h
    · have hLb : N = L ++ [b] := by rw [hLb', List.concat_eq_append]
      have hb : b.1 = g (t :: ts) ts.length := by
        have h1 : (L ++ [b]).map Prod.fst = t :: ts := by rw [← hLb]; exact hNt
        have h2 : L.length = ts.length := by
          have := congrArg List.length h1
          simp at this
          exact this
        rw [← h1, ← h2]
        simp [g]
      obtain ⟨a, r⟩ := b
      rw [hLb, List.append_assoc, List.singleton_append]
      exact onfInt_append_local L 0 _ a r more q (by rw [← hb] at hq; exact hq)

/-- **Locality (causality)**: with at least two knots placed, the value at any `t` up to the last of them does not depend
on the knots appended afterwards — although the forwards of interval `i` depend on ALL knots `≤ i`, none depends on a later
knot.  This is what the one-knot-at-a-time bootstrap needs, so LINEAR_ONFWD_RATES is sound for it once `fit` has been
refreshed. -/
theorem onf_local (pt pd xs ys : List ℝ) (t : ℝ) (hlen : pd.length = pt.length) (hs : pt.Pairwise (· < ·))
    (h0 : 0 ≤ g pt 0) (hn : 2 ≤ pt.length) (ht0 : 0 ≤ t) (ht : t ≤ g pt (pt.length - 1)) :
    onfwdDf (pt ++ xs) (pd ++ ys) t = onfwdDf pt pd t := by
  by_cases hsm : t < 1e-12
  · rw [onfwdDf_small _ _ t ht0 hsm, onfwdDf_small _ _ t ht0 hsm]
  · have hge : 1e-12 ≤ t := not_lt.mp hsm
    rw [onfwdDf_multi _ _ (by simp; omega), onfwdDf_multi _ _ (by omega), onfInterp_fitted _ _ _ _ hge,
      onfInterp_fitted _ _ _ _ hge]
    congr 2
    cases pt with
    | nil => simp at hn
    | cons t0 ts =>
      cases pd with
      | nil => simp at hlen
      | cons d0 ds =>
        have hl : ds.length = ts.length := by simpa using hlen
        rw [g_cons_zero] at h0
        by_cases hz : t0 = 0
        · subst hz
          cases ts with
          | nil => simp at hn
          | cons t1 ts =>
            cases ds with
            | nil => simp at hl
            | cons d1 ds =>
              have ht1 : 0 < t1 := tail_pos 0 _ hs le_rfl t1 (by simp)
              have hs1 := (List.pairwise_cons.mp hs).2
              obtain ⟨s, s', e1, e2, e3, e4⟩ := onfFit_pos_local t1 d1 ts ds xs ys (by simpa using hl) hs1 ht1 t
                (by simpa [g] using ht)
              simp only [onfSplineOf, List.cons_append, onfFit_cons_zero]
              simp only [List.cons_append] at e2
              rw [e1, e2]
              simp only [e3, e4]
        · have hp : 0 < t0 := lt_of_le_of_ne h0 (Ne.symm hz)
          obtain ⟨s, s', e1, e2, e3, e4⟩ := onfFit_pos_local t0 d0 ts ds xs ys hl hs hp t (by simpa using ht)
          simp only [onfSplineOf]
          rw [e1, e2]
          simp only [e3, e4]

/-- The one-knot prefix (the bootstrap's anchor `([0], [1])`, or a single knot off the origin): reads up to that knot are
the same before and after further knots are appended — even though the one-knot object is NOT fitted (work-around branch). -/
theorem onf_local_single (t0 d0 x : ℝ) (xs ys : List ℝ) (t : ℝ) (h0 : 0 ≤ t0) (ht0 : 0 ≤ t) (ht : t ≤ t0) :
    onfwdDf (t0 :: x :: xs) (d0 :: ys) t = onfwdDf [t0] [d0] t := by
  by_cases hsm : t < 1e-12
  · rw [onfwdDf_small _ _ t ht0 hsm, onfwdDf_small _ _ t ht0 hsm]
  · have hge : 1e-12 ≤ t := not_lt.mp hsm
    have hp : 0 < t0 := by linarith [small_pos]
    · have h0' : ¬ t < 0 := not_lt.mpr ht0
      have h1 : ¬ |t| < 1e-12 := by rw [abs_of_nonneg ht0]; exact hsm
      rw [onfwdDf_multi _ _ (by simp), onfInterp_fitted _ _ _ _ hge, onfwdDf_single]
      simp only [onfInterp, Bool.not_true, Bool.false_eq_true, if_false, h0', absG_real, gSmall_real, h1,
        List.length_singleton, one_ne_zero, g_cons_zero, feq_zero_false hp.ne', false_or, exp_real, log_real]
      simp only [onfSplineOf, onfFit_cons_ne t0 d0 _ _ hp.ne']
      rw [onfInt]
      simp only [ht, if_true]
      congr 2
      field_simp
      ring

/-- **What the 1-d root search moves** (`_f`/`_g` overwrite the LAST knot's df and refit): every read at or before the previous
knot is unchanged, so instruments placed earlier keep their value while the search iterates. -/
theorem onf_search_moves_only_last_segment (ts ds : List ℝ) (T x y t : ℝ) (hlen : ds.length = ts.length)
    (hs : ts.Pairwise (· < ·)) (h0 : 0 ≤ g ts 0) (hn : 2 ≤ ts.length) (ht0 : 0 ≤ t) (ht : t ≤ g ts (ts.length - 1)) :
    onfwdDf (ts ++ [T]) (ds ++ [x]) t = onfwdDf (ts ++ [T]) (ds ++ [y]) t := by
  rw [onf_local ts ds [T] [x] t hlen hs h0 hn ht0 ht, onf_local ts ds [T] [y] t hlen hs h0 hn ht0 ht]

/-! ### edge branches (`unit_tests/test_FinInterpolate.py`) and object state -/

/-- `Interpolator(...)` never fitted: "Dfs have not been set." -/
theorem onf_unfitted_raises (t : ℝ) : onfInterp (onfNew : OnfState ℝ) t = .error .finError := by
  simp [onfInterp, onfNew]

/-- A negative time raises whatever the state. -/
theorem onf_negative_raises (st : OnfState ℝ) (t : ℝ) (ht : t < 0) : onfInterp st t = .error .finError := by
  unfold onfInterp
  split
  · rfl
  · simp [ht]

/-- `test_LINEAR_ONFWD_RATES_empty_fit`: `fit([], [])` stores the zero spline on `[0, 0.1]`: df ≡ 1. -/
theorem onf_empty_fit (t : ℝ) (ht : 0 ≤ t) : onfwdDf ([] : List ℝ) [] t = .ok 1 := by
  by_cases hsm : t < 1e-12
  · exact onfwdDf_small _ _ t ht hsm
  · rw [onfwdDf_multi _ _ (by simp), onfInterp_fitted _ _ _ _ (not_lt.mp hsm)]
    simp only [onfSplineOf, onfFit, onfInt]
    split <;> simp

/-- `test_LINEAR_ONFWD_RATES_single_value_at_origin`: one knot at time 0 (never fitted): df ≡ 1, whatever its df. -/
theorem onf_single_at_origin (d0 t : ℝ) (ht : 0 ≤ t) : onfwdDf [(0 : ℝ)] [d0] t = .ok 1 := by
  by_cases hsm : t < 1e-12
  · exact onfwdDf_small _ _ t ht hsm
  · have h1 : ¬ |t| < 1e-12 := by rw [abs_of_nonneg ht]; exact hsm
    rw [onfwdDf_single]
    simp [onfInterp, not_lt.mpr ht, absG_real, gSmall_real, h1, g_cons_zero, feq_real]

/-- `test_LINEAR_ONFWD_RATES_single_value_not_at_origin`: one knot off the origin (never fitted): flat forward
`−log(df₀)/t₀` everywhere. -/
theorem onf_single_not_at_origin (t0 d0 t : ℝ) (h0 : t0 ≠ 0) (ht : 1e-12 ≤ t) :
    onfwdDf [t0] [d0] t = .ok (Real.exp (-(-(Real.log d0) / t0) * t)) := by
  have h0' : ¬ t < 0 := by linarith [small_pos]
  have h1 : ¬ |t| < 1e-12 := by rw [abs_of_nonneg (by linarith [small_pos])]; linarith
  rw [onfwdDf_single]
  simp only [onfInterp, Bool.not_true, Bool.false_eq_true, if_false, h0', absG_real, gSmall_real, h1,
    List.length_singleton, one_ne_zero, g_cons_zero, feq_zero_false h0, false_or, exp_real, log_real]

/-- … and that single knot is reproduced. -/
theorem onf_single_not_at_origin_knot (t0 d0 : ℝ) (h0 : 1e-12 ≤ t0) (hd : 0 < d0) : onfwdDf [t0] [d0] t0 = .ok d0 := by
  have hp : 0 < t0 := by linarith [small_pos]
  rw [onf_single_not_at_origin t0 d0 t0 hp.ne' h0]
  congr 1
  rw [show -(-(Real.log d0) / t0) * t0 = Real.log d0 by field_simp]
  exact Real.exp_log hd

/-- `test_LINEAR_ONFWD_RATES_two_values_including_origin`: `[0, t₁]` is fitted and gives the SAME curve as the single knot
`t₁` alone (the test asserts the same four numbers for both). -/
theorem onf_two_including_origin (t1 d0 d1 t : ℝ) (h1 : 0 < t1) (ht : 0 ≤ t) :
    onfwdDf [0, t1] [d0, d1] t = onfwdDf [t1] [d1] t := by
  by_cases hsm : t < 1e-12
  · rw [onfwdDf_small _ _ t ht hsm, onfwdDf_small _ _ t ht hsm]
  · have hge := not_lt.mp hsm
    rw [onf_single_not_at_origin t1 d1 t h1.ne' hge, onfwdDf_multi _ _ (by simp), onfInterp_fitted _ _ _ _ hge]
    simp only [onfSplineOf, onfFit_cons_zero, onfFit_cons_ne t1 d1 [] [] h1.ne', onfRest]
    congr 2
    rw [onfInt]
    split
    · field_simp; ring
    · rw [onfInt]; field_simp; ring

/-- Object state: a ONE-knot `fit` returns before the fitting stage, so the object keeps the spline of the previous fit
(only `times` / `_dfs` are replaced) and keeps answering from it. -/
theorem onf_fit_single_keeps_spline (st : OnfState ℝ) (t0 d0 : ℝ) (s : OnfSpline ℝ) (h : st.fn = some s) (t : ℝ)
    (ht : 1e-12 ≤ t) :
    (onfFitState st [t0] [d0]).fn = some s ∧
      onfInterp (onfFitState st [t0] [d0]) t = .ok (Real.exp (-(onfInt 0 s.1 s.2 t))) := by
  have e : onfFitState st [t0] [d0] = ⟨[t0], [d0], true, some s⟩ := by simp [onfFitState, h]
  rw [e]
  exact ⟨rfl, onfInterp_fitted _ _ s t ht⟩

/-! ### what causality means for the sequential bootstrap -/

/-- Locality for any non-empty sorted prefix starting at the curve date (one knot: work-around branch; more: fitted). -/
theorem onf_append_local (ts ds st sd : List ℝ) (t : ℝ) (hlen : ds.length = ts.length) (h1 : 1 ≤ ts.length)
    (hs : ts.Pairwise (· < ·)) (h0 : 0 ≤ g ts 0) (hl2 : sd.length = st.length) (ht0 : 0 ≤ t)
    (ht : t ≤ g ts (ts.length - 1)) : onfwdDf (ts ++ st) (ds ++ sd) t = onfwdDf ts ds t := by
  by_cases h2 : 2 ≤ ts.length
  · exact onf_local ts ds st sd t hlen hs h0 h2 ht0 ht
  · cases ts with
    | nil => simp at h1
    | cons t0 ts =>
      cases ts with
      | cons _ _ => simp at h2
      | nil =>
        cases ds with
        | nil => simp at hlen
        | cons d0 ds =>
          have : ds = [] := by simpa using hlen
          subst this
          cases st with
          | nil =>
            have : sd = [] := by simpa using hl2
            subst this
            rfl
          | cons x xs =>
            simp only [g_cons_zero, List.length_singleton, Nat.sub_self] at h0 ht
            exact onf_local_single t0 d0 x xs sd t h0 ht0 ht

/-- Once the knot vector reaches an instrument's maturity, appending further knots (and refitting) does not change the
instrument's value under LINEAR_ONFWD_RATES. -/
theorem onf_value_unchanged_by_later_knots (J : Instr) (ts ds st sd : List ℝ) (hlen : ds.length = ts.length)
    (h1 : 1 ≤ ts.length) (hs : ts.Pairwise (· < ·)) (h0 : g ts 0 = 0) (hl2 : sd.length = st.length)
    (hmat : J.mat ≤ g ts (ts.length - 1)) :
    J.val (onfwdDf (ts ++ st) (ds ++ sd)) = J.val (onfwdDf ts ds) := by
  apply J.reads_up_to_mat
  intro t ht0 htm
  exact onf_append_local ts ds st sd t hlen h1 hs h0.ge hl2 ht0 (le_trans htm hmat)

lemma bootstrap_lengths (solve : List ℝ → List ℝ → Instr → ℝ) : ∀ (instrs : List Instr) (ts ds : List ℝ),
    ds.length = ts.length → (bootstrap solve instrs (ts, ds)).2.length = (bootstrap solve instrs (ts, ds)).1.length := by
  intro instrs
  induction instrs with
  | nil => intro ts ds h; simpa [bootstrap] using h
  | cons I rest ih =>
    intro ts ds h
    simp only [bootstrap]
    exact ih _ _ (by simp [h])

/-- C01 for LINEAR_ONFWD_RATES, by induction over the instrument list (any number of instruments, maturities increasing):
if the solver meets `|value| ≤ tol` when it places an instrument's knot — on the curve REFITTED through that knot — then on
the final (refitted) curve every instrument still has `|value| ≤ tol`.  The scheme is not local in the FLAT_FWD sense, but it is
causal (`onf_local`), and that is all the one-knot-at-a-time bootstrap uses. -/
theorem onf_bootstrap_reprices_all (solve : List ℝ → List ℝ → Instr → ℝ) (tol : ℝ)
    (hpost : ∀ (ts ds : List ℝ) (I : Instr), |I.val (onfwdDf (ts ++ [I.mat]) (ds ++ [solve ts ds I]))| ≤ tol) :
    ∀ (instrs : List Instr) (ts ds : List ℝ), ds.length = ts.length → 1 ≤ ts.length → g ts 0 = 0 →
      (ts ++ instrs.map (·.mat)).Pairwise (· < ·) → ∀ I ∈ instrs,
        |I.val (onfwdDf (bootstrap solve instrs (ts, ds)).1 (bootstrap solve instrs (ts, ds)).2)| ≤ tol := by
  intro instrs
  induction instrs with
  | nil => intro ts ds _ _ _ _ I hI; simp at hI
  | cons K rest ih =>
    intro ts ds hlen h1 h0 hs I hI
    have hlen' : (ds ++ [solve ts ds K]).length = (ts ++ [K.mat]).length := by simp [hlen]
    have h1' : 1 ≤ (ts ++ [K.mat]).length := by simp
    have h0' : g (ts ++ [K.mat]) 0 = 0 := by rw [g_append_zero ts _ h1, h0]
    have hs' : ((ts ++ [K.mat]) ++ rest.map (·.mat)).Pairwise (· < ·) := by
      simpa [List.append_assoc] using hs
    have hsp : (ts ++ [K.mat]).Pairwise (· < ·) := hs'.sublist (List.sublist_append_left _ _)
    rcases List.mem_cons.mp hI with hIK | hIrest
    · subst hIK
      obtain ⟨st, sd, hext⟩ := bootstrap_extends solve rest (ts ++ [I.mat]) (ds ++ [solve ts ds I])
      have hl := bootstrap_lengths solve rest (ts ++ [I.mat]) (ds ++ [solve ts ds I]) hlen'
      have hl2 : sd.length = st.length := by
        rw [hext] at hl
        simp only [List.length_append, List.length_singleton] at hl
        omega
      have hb : bootstrap solve (I :: rest) (ts, ds)
          = ((ts ++ [I.mat]) ++ st, (ds ++ [solve ts ds I]) ++ sd) := by simp [bootstrap, hext]
      rw [hb]
      simp only
      rw [onf_value_unchanged_by_later_knots I (ts ++ [I.mat]) (ds ++ [solve ts ds I]) st sd hlen' h1' hsp h0' hl2
        (by rw [g_append_last])]
      exact hpost ts ds I
    · have := ih (ts ++ [K.mat]) (ds ++ [solve ts ds K]) hlen' h1' h0' hs' I hIrest
      simpa [bootstrap] using this

/-- Non-vacuity of the hypotheses of `onf_bootstrap_reprices_all`: the anchor curve and two instruments maturing at 1/4, 1. -/
example : ∃ (instrs : List Instr) (ts ds : List ℝ), ds.length = ts.length ∧ 1 ≤ ts.length ∧ g ts 0 = 0 ∧
    (ts ++ instrs.map (·.mat)).Pairwise (· < ·) ∧ instrs.length = 2 := by
  refine ⟨[⟨1 / 4, fun _ => 0, fun _ _ _ => rfl⟩, ⟨1, fun _ => 0, fun _ _ _ => rfl⟩], [0], [1], rfl, by simp, by simp [g],
    ?_, rfl⟩
  norm_num

/-! ### the scheme is NOT local in the two-sided sense -/

/-- Between knots 2 and 3 the value depends on knot 1: two df vectors on the times `[0, 1, 2, 3]` that AGREE on the two
bracketing knots (and on every other knot but the first interior one) give different dfs at `t = 5/2` (`1` against
`e^{3/4}`).  So `flat_interp_depends_on_bracketing_knots` has no analogue here: a change of an early quote re-shapes the
forwards of every later interval (it cannot move any knot df, `onf_knot_reproduced`). -/
theorem onf_not_bracket_local :
    onfwdDf [0, 1, 2, 3] [1, 1, 1, 1] (5 / 2 : ℝ) = .ok 1 ∧
      onfwdDf [0, 1, 2, 3] [1, Real.exp (-1), 1, 1] (5 / 2 : ℝ) = .ok (Real.exp (3 / 4)) := by
  have h1 : (1 : ℝ) ≠ 0 := one_ne_zero
  have h2 : (2 : ℝ) ≠ 0 := two_ne_zero
  have h3 : (3 : ℝ) ≠ 0 := by norm_num
  constructor
  · rw [onfwdDf_multi _ _ (by simp), onfInterp_fitted _ _ _ _ (by norm_num)]
    simp only [onfSplineOf, onfFit_cons_zero, onfFit_cons_ne _ _ _ _ h1, onfRest_cons_ne _ _ _ _ _ _ _ h2,
      onfRest_cons_ne _ _ _ _ _ _ _ h3, onfRest, onfInt]
    norm_num [onfInt]
  · rw [onfwdDf_multi _ _ (by simp), onfInterp_fitted _ _ _ _ (by norm_num)]
    simp only [onfSplineOf, onfFit_cons_zero, onfFit_cons_ne _ _ _ _ h1, onfRest_cons_ne _ _ _ _ _ _ _ h2,
      onfRest_cons_ne _ _ _ _ _ _ _ h3, onfRest, onfInt, Real.log_exp, Real.log_one, one_div,
      Real.log_inv, div_one]
    norm_num [onfInt]

/-! ### object state: what a missing refit does (finding `stale-fit-after-closed-form-last-knot`) -/

/-- A `fit` with any number of knots other than one forgets everything the object held before. -/
theorem onf_fit_refreshes (st : OnfState ℝ) (times dfs : List ℝ) (hn : times.length ≠ 1) :
    onfFitState st times dfs = onfFitState onfNew times dfs := by
  simp [onfFitState, hn]

/-- The mechanism of the known finding, on the model: the object fitted through `(0,1), (1,e⁻¹)` and NOT refitted after the
curve appended the knot `(2, e⁻³)` answers `e⁻²` at `t = 2` (flat extrapolation of the old forwards — it cannot see the new
knot); the refitted object answers the knot's df `e⁻³`. -/
theorem onf_stale_read_witness :
    onfInterp (onfFitState onfNew [0, 1] [1, Real.exp (-1)]) (2 : ℝ) = .ok (Real.exp (-2)) ∧
      onfInterp (onfFitState (onfFitState onfNew [0, 1] [1, Real.exp (-1)]) [0, 1, 2]
        [1, Real.exp (-1), Real.exp (-3)]) (2 : ℝ) = .ok (Real.exp (-3)) := by
  have h1 : (1 : ℝ) ≠ 0 := one_ne_zero
  have h2 : (2 : ℝ) ≠ 0 := two_ne_zero
  constructor
  · show onfwdDf [0, 1] [1, Real.exp (-1)] (2 : ℝ) = _
    rw [onfwdDf_multi _ _ (by simp), onfInterp_fitted _ _ _ _ (by norm_num)]
    simp only [onfSplineOf, onfFit_cons_zero, onfFit_cons_ne _ _ _ _ h1, onfRest, onfInt, Real.log_exp]
    norm_num [onfInt]
  · rw [onf_fit_refreshes _ _ _ (by simp)]
    show onfwdDf [0, 1, 2] [1, Real.exp (-1), Real.exp (-3)] (2 : ℝ) = _
    rw [onfwdDf_multi _ _ (by simp), onfInterp_fitted _ _ _ _ (by norm_num)]
    simp only [onfSplineOf, onfFit_cons_zero, onfFit_cons_ne _ _ _ _ h1, onfRest_cons_ne _ _ _ _ _ _ _ h2, onfRest, onfInt,
      Real.log_exp, Real.log_div (Real.exp_ne_zero _) (Real.exp_ne_zero _)]
    norm_num [onfInt, Real.log_div (Real.exp_ne_zero _) (Real.exp_ne_zero _), Real.log_exp]

end FinVerif.Props.C01
