/-
  C01 (part g) — LINEAR_ZERO_RATES: the interpolated df is monotone in the LAST knot's df, hence the single-curve payer swap
  objective `_f` of the bootstrap is strictly decreasing in the knot being solved for: the root the 1-d search looks for is
  unique for LINEAR_ZERO_RATES as well (part d proved this for FLAT_FWD_RATES only).  Same model (`Model/C02.uinterp`, all
  three branch shapes of the LINEAR_ZERO kernel: `i == 1`, interior, right extrapolation), same statement shape as
  `flat_interp_mono_in_last_df` / `flat_swap_objective_strictAnti`.

  Also: uniqueness of the root of the single-curve FRA objective on the SOLVER branch (FRA starting beyond the previous knot,
  so that df(start) moves with the knot being solved for) for FLAT_FWD_RATES: `flat_fra_solver_root_unique`.
-/
import FinVerif.Props.C01d

set_option linter.unusedVariables false
set_option linter.unusedSimpArgs false

namespace FinVerif.Props.C01
open FinVerif FinVerif.Gen FinVerif.Model.C02 FinVerif.Model.C01 FinVerif.Props.C02
open FinVerif.Spec.C06 (Period Contiguous annuity)
open FinVerif.Model.C06 (swapValue mkSwap IndexCurve)

/-! ### the two shapes of the LINEAR_ZERO kernel as functions of the right-hand df -/

/-- Same zero rate at both ends (`i == 1` and the right extrapolation): `exp(log(df)/T · t)` is monotone in `df`. -/
lemma linzero_const_mono (T t x y : ℝ) (hT : 0 < T) (ht : 0 ≤ t) (hx : 0 < x) (hxy : x ≤ y) :
    Real.exp (-(-Real.log x / T) * t) ≤ Real.exp (-(-Real.log y / T) * t) := by
  have hlog : Real.log x ≤ Real.log y := Real.log_le_log hx hxy
  apply Real.exp_le_exp.mpr
  have e : ∀ z : ℝ, -(-z / T) * t = z * (t / T) := by intro z; field_simp
  rw [e, e]
  exact mul_le_mul_of_nonneg_right hlog (div_nonneg ht hT.le)

lemma linzero_const_strictMono (T t x y : ℝ) (hT : 0 < T) (ht : 0 < t) (hx : 0 < x) (hxy : x < y) :
    Real.exp (-(-Real.log x / T) * t) < Real.exp (-(-Real.log y / T) * t) := by
  have hlog : Real.log x < Real.log y := Real.log_lt_log hx hxy
  apply Real.exp_lt_exp.mpr
  have e : ∀ z : ℝ, -(-z / T) * t = z * (t / T) := by intro z; field_simp
  rw [e, e]
  exact mul_lt_mul_of_pos_right hlog (div_pos ht hT)

/-- Interior branch: knots `a < b`, zero rate `r₁` of knot `a` fixed, `r₂ = −log(df_b)/t_b`. -/
theorem kLinZero_mono_right_df (times dfs dfs' : List ℝ) (a b : ℕ) (hab : g times a < g times b)
    (hb0 : 0 < g times b) (ha : g dfs a = g dfs' a) (hb : 0 < g dfs b) (hbb : g dfs b ≤ g dfs' b) (t : ℝ)
    (ht : g times a ≤ t) (ht0 : 0 ≤ t) : kLinZero times dfs a b a b t ≤ kLinZero times dfs' a b a b t := by
  have hlog : Real.log (g dfs b) ≤ Real.log (g dfs' b) := Real.log_le_log hb hbb
  have hdt : 0 < g times b - g times a := sub_pos.mpr hab
  unfold kLinZero
  simp only [exp_real, log_real]
  apply Real.exp_le_exp.mpr
  rw [ha]
  have key : ((g times b - t) * (-Real.log (g dfs' a) / g times a) + (t - g times a) * (-Real.log (g dfs' b) / g times b))
      / (g times b - g times a)
      ≤ ((g times b - t) * (-Real.log (g dfs' a) / g times a) + (t - g times a) * (-Real.log (g dfs b) / g times b))
      / (g times b - g times a) := by
    apply div_le_div_of_nonneg_right _ hdt.le
    have : -Real.log (g dfs' b) / g times b ≤ -Real.log (g dfs b) / g times b :=
      div_le_div_of_nonneg_right (neg_le_neg hlog) hb0.le
    nlinarith [mul_le_mul_of_nonneg_left this (sub_nonneg.mpr ht)]
  nlinarith [mul_le_mul_of_nonneg_right key ht0]

theorem kLinZero_strictMono_right_df (times dfs dfs' : List ℝ) (a b : ℕ) (hab : g times a < g times b)
    (hb0 : 0 < g times b) (ha : g dfs a = g dfs' a) (hb : 0 < g dfs b) (hbb : g dfs b < g dfs' b) (t : ℝ)
    (ht : g times a < t) (ht0 : 0 < t) : kLinZero times dfs a b a b t < kLinZero times dfs' a b a b t := by
  have hlog : Real.log (g dfs b) < Real.log (g dfs' b) := Real.log_lt_log hb hbb
  have hdt : 0 < g times b - g times a := sub_pos.mpr hab
  unfold kLinZero
  simp only [exp_real, log_real]
  apply Real.exp_lt_exp.mpr
  rw [ha]
  have key : ((g times b - t) * (-Real.log (g dfs' a) / g times a) + (t - g times a) * (-Real.log (g dfs' b) / g times b))
      / (g times b - g times a)
      < ((g times b - t) * (-Real.log (g dfs' a) / g times a) + (t - g times a) * (-Real.log (g dfs b) / g times b))
      / (g times b - g times a) := by
    apply div_lt_div_of_pos_right _ hdt
    have : -Real.log (g dfs' b) / g times b < -Real.log (g dfs b) / g times b :=
      div_lt_div_of_pos_right (neg_lt_neg hlog) hb0
    nlinarith [mul_lt_mul_of_pos_left this (sub_pos.mpr ht)]
  nlinarith [mul_lt_mul_of_pos_right key ht0]

/-! ### the branch taken, as a function of the times only -/

/-- LINEAR_ZERO_RATES right of the first knot with the branch made explicit: the knot indices `(ra, rb, ta, tb)` the kernel
reads depend on the times and the query only, not on the dfs. -/
lemma uinterp_linzero_eq (times : List ℝ) (hs : times.Pairwise (· < ·)) (h0 : 0 ≤ g times 0)
    (hn : 2 ≤ times.length) (t : ℝ) (ht : g times 0 < t) :
    ∃ ra rb ta tb : ℕ, (∀ dfs : List ℝ, uinterp 4 times dfs t = .ok (kLinZero times dfs ra rb ta tb t)) ∧
      rb < times.length ∧ (ra = rb ∨ (ra + 1 = rb ∧ ta = ra ∧ tb = rb)) ∧
      g times ta < g times tb ∧ g times ta < t ∧ 0 < g times rb ∧
      (rb < times.length - 1 → t ≤ g times (times.length - 2)) := by
  have hpos : ∀ k, 1 ≤ k → k < times.length → 0 < g times k := fun k h1 hk =>
    lt_of_le_of_lt h0 (g_lt_of_lt times hs 0 k (by omega) hk)
  by_cases hhi : t ≤ g times (times.length - 1)
  · obtain ⟨s1, s2, s3, s4, s5⟩ := search_spec times t ht hhi
    by_cases hi1 : search t times = 1
    · refine ⟨1, 1, 0, 1, fun dfs => ?_, by omega, Or.inl rfl, g_lt_of_lt times hs 0 1 (by omega) (by omega), ht,
        hpos 1 le_rfl (by omega), ?_⟩
      · rw [uinterp_kernel 4 times dfs t hn (ne_of_gt ht), s5, hi1, kernel_m4, if_pos rfl,
          guardDiv_ok2 _ _ _ (hpos 1 le_rfl (by omega)).ne' (g_sub_ne times hs 0 1 (by omega) (by omega))]
      · intro h
        rw [hi1] at s4
        exact le_trans s4 (g_le_of_le times hs 1 (times.length - 2) (by omega) (by omega))
    · set i := search t times with hi
      refine ⟨i - 1, i, i - 1, i, fun dfs => ?_, s2, Or.inr ⟨by omega, rfl, rfl⟩,
        g_lt_of_lt times hs (i - 1) i (by omega) s2, s3, hpos i s1 s2, ?_⟩
      · rw [uinterp_kernel 4 times dfs t hn (ne_of_gt ht), s5, kernel_m4, if_neg hi1, if_neg (by omega), if_pos s2,
          guardDiv_ok3 _ _ _ _ (hpos (i - 1) (by omega) (by omega)).ne' (hpos i s1 s2).ne'
            (g_sub_ne times hs (i - 1) i (by omega) s2)]
      · intro h
        exact le_trans s4 (g_le_of_le times hs i (times.length - 2) (by omega) (by omega))
  · have hlt := not_le.mp hhi
    have h21 := g_lt_of_lt times hs (times.length - 2) (times.length - 1) (by omega) (by omega)
    refine ⟨times.length - 1, times.length - 1, times.length - 2, times.length - 1, fun dfs => ?_, by omega, Or.inl rfl,
      h21, by linarith, hpos _ (by omega) (by omega), ?_⟩
    · rw [uinterp_kernel 4 times dfs t hn (ne_of_gt ht), locate_right times hs t hlt, kernel_m4,
        if_neg (by omega), if_neg (by omega), if_neg (lt_irrefl _),
        guardDiv_ok2 _ _ _ (hpos _ (by omega) (by omega)).ne' (g_sub_ne times hs _ _ (by omega) (by omega))]
    · intro h; omega

/-- C01, LINEAR_ZERO_RATES: the interpolated df at any `t ≥ times[0] ≥ 0` is **non-decreasing in the last knot's df** —
strictly increasing right of the previous knot.  (`ts` are the `n ≥ 2` knot times, `ds` the first `n − 1` dfs, `x ≤ y` two
candidate values of the last df, as in the root search.) -/
theorem linzero_interp_mono_in_last_df (ts ds : List ℝ) (x y t : ℝ) (hlen : ds.length + 1 = ts.length)
    (hs : ts.Pairwise (· < ·)) (hn : 2 ≤ ts.length) (hpos : ∀ d ∈ ds, 0 < d) (hx : 0 < x) (hxy : x ≤ y)
    (h0 : 0 ≤ g ts 0) (ht : g ts 0 ≤ t) :
    ∃ u v, uinterp 4 ts (ds ++ [x]) t = .ok u ∧ uinterp 4 ts (ds ++ [y]) t = .ok v ∧ u ≤ v ∧
      (x < y → g ts (ts.length - 2) < t → u < v) := by
  rcases eq_or_lt_of_le ht with ht0 | ht0
  · refine ⟨g ds 0, g ds 0, ?_, ?_, le_rfl, ?_⟩
    · have := uinterp_first 4 ts (ds ++ [x]) (by omega)
      rw [g_snoc_left ds x 0 (by omega)] at this; rw [← ht0]; exact this
    · have := uinterp_first 4 ts (ds ++ [y]) (by omega)
      rw [g_snoc_left ds y 0 (by omega)] at this; rw [← ht0]; exact this
    · intro _ h2
      have := g_le_of_le ts hs 0 (ts.length - 2) (by omega) (by omega)
      rw [← ht0] at h2
      linarith
  · obtain ⟨ra, rb, ta, tb, e, p1, p2, p3, p4, p5, p6⟩ := uinterp_linzero_eq ts hs h0 hn t ht0
    have htpos : 0 < t := lt_of_le_of_lt h0 ht0
    refine ⟨_, _, e (ds ++ [x]), e (ds ++ [y]), ?_⟩
    by_cases hlast : rb < ts.length - 1
    · -- the last knot is not read
      have e' : kLinZero ts (ds ++ [x]) ra rb ta tb t = kLinZero ts (ds ++ [y]) ra rb ta tb t := by
        have hra : ra < ds.length := by rcases p2 with h | ⟨h, _, _⟩ <;> omega
        unfold kLinZero
        rw [g_snoc_left ds x ra hra, g_snoc_left ds y ra hra, g_snoc_left ds x rb (by omega),
          g_snoc_left ds y rb (by omega)]
      rw [e']
      refine ⟨le_rfl, ?_⟩
      intro _ h2
      have := p6 hlast
      linarith
    · have hrb : rb = ds.length := by omega
      have gx : g (ds ++ [x]) rb = x := by rw [hrb, g_snoc_last]
      have gy : g (ds ++ [y]) rb = y := by rw [hrb, g_snoc_last]
      rcases p2 with h | ⟨h, h1, h2⟩
      · subst h
        have hdt : g ts tb - g ts ta ≠ 0 := (sub_pos.mpr p3).ne'
        rw [kLinZero_const ts _ ra ta tb t hdt, kLinZero_const ts _ ra ta tb t hdt, gx, gy]
        exact ⟨linzero_const_mono _ t x y p5 htpos.le hx hxy,
          fun hlt _ => linzero_const_strictMono _ t x y p5 htpos hx hlt⟩
      · obtain rfl := h1.symm; obtain rfl := h2.symm
        have hra : ra < ds.length := by omega
        have ha : g (ds ++ [x]) ra = g (ds ++ [y]) ra := by rw [g_snoc_left ds x ra hra, g_snoc_left ds y ra hra]
        refine ⟨kLinZero_mono_right_df ts _ _ ra rb p3 p5 ha (by rw [gx]; exact hx) (by rw [gx, gy]; exact hxy) t
          p4.le htpos.le, ?_⟩
        intro hlt _
        exact kLinZero_strictMono_right_df ts _ _ ra rb p3 p5 ha (by rw [gx]; exact hx) (by rw [gx, gy]; exact hlt) t
          p4 htpos

/-! ### the single-curve swap objective is strictly decreasing in the knot being solved for (LINEAR_ZERO_RATES) -/

/-- C01, swaps, LINEAR_ZERO_RATES single curve: as a function of the df `x` placed on the LAST knot (at the time of the swap's
last payment date), with the swap starting at or before the previous knot and every date at or after the curve date, the
payer objective `_f` is **strictly decreasing** for a non-negative coupon: `_f(x) = 0` has at most one positive solution. -/
theorem linzero_swap_objective_strictAnti (τ : Int → ℝ) (ts ds : List ℝ) (x y : ℝ) (hlen : ds.length + 1 = ts.length)
    (hs : ts.Pairwise (· < ·)) (hn : 2 ≤ ts.length) (hpos : ∀ d ∈ ds, 0 < d) (hx : 0 < x) (hxy : x < y)
    (ht0 : g ts 0 = 0)
    (yfI : Int → Int → ℝ) (vd : Int) (c N : ℝ) (fp lp : List (Period ℝ)) (first last : Period ℝ)
    (hc0 : 0 ≤ c) (hN : 0 < N) (hvd : τ vd = 0)
    (hstart0 : 0 ≤ τ first.start) (hstart : τ first.start ≤ g ts (ts.length - 2))
    (hend : τ last.stop = g ts (ts.length - 1))
    (hyfF : ∀ p ∈ fp, 0 ≤ p.yf) (hpay0 : ∀ p ∈ fp, 0 ≤ τ p.pay) (hstop0 : ∀ q ∈ lp, 0 ≤ τ q.stop)
    (hfirst : lp.head? = some first) (hlast : lp.getLast? = some last)
    (hfut : ∀ q ∈ lp, vd < q.pay) (hlag : ∀ q ∈ lp, q.pay = q.stop)
    (hbasis : ∀ q ∈ lp, yfI q.start q.stop = q.yf) (hyf : ∀ q ∈ lp, q.yf ≠ 0) (hc : Contiguous lp) :
    swapValue (curveOfKnots 4 τ ts (ds ++ [y])) ⟨curveOfKnots 4 τ ts (ds ++ [y]), yfI⟩ none (mkSwap true c N 0 fp lp) vd
      < swapValue (curveOfKnots 4 τ ts (ds ++ [x])) ⟨curveOfKnots 4 τ ts (ds ++ [x]), yfI⟩ none
          (mkSwap true c N 0 fp lp) vd := by
  have hy : 0 < y := lt_trans hx hxy
  -- every read at a time ≥ 0: both curves answer, ordered
  have hread : ∀ t, 0 ≤ t → curveOfKnots 4 (fun _ => t) ts (ds ++ [x]) 0 ≤ curveOfKnots 4 (fun _ => t) ts (ds ++ [y]) 0 ∧
      0 < curveOfKnots 4 (fun _ => t) ts (ds ++ [x]) 0 ∧ 0 < curveOfKnots 4 (fun _ => t) ts (ds ++ [y]) 0 := by
    intro t ht
    obtain ⟨u, v, hu, hv, huv, _⟩ := linzero_interp_mono_in_last_df ts ds x y t hlen hs hn hpos hx hxy.le ht0.ge (by rw [ht0]; exact ht)
    have hposx : ∀ d ∈ ds ++ [x], 0 < d := by
      intro d hd; simp only [List.mem_append, List.mem_singleton] at hd
      rcases hd with h | h
      · exact hpos d h
      · rw [h]; exact hx
    have hposy : ∀ d ∈ ds ++ [y], 0 < d := by
      intro d hd; simp only [List.mem_append, List.mem_singleton] at hd
      rcases hd with h | h
      · exact hpos d h
      · rw [h]; exact hy
    simp only [curveOfKnots, curveFn_of_ok 4 ts _ t u hu, curveFn_of_ok 4 ts _ t v hv]
    exact ⟨huv, interp_pos 4 ts _ t u hu hposx (by simp; omega), interp_pos 4 ts _ t v hv hposy (by simp; omega)⟩
  have hread' : ∀ d : Int, 0 ≤ τ d → curveOfKnots 4 τ ts (ds ++ [x]) d ≤ curveOfKnots 4 τ ts (ds ++ [y]) d ∧
      0 < curveOfKnots 4 τ ts (ds ++ [x]) d ∧ 0 < curveOfKnots 4 τ ts (ds ++ [y]) d := by
    intro d hd
    exact hread (τ d) hd
  -- reads at or before the previous knot agree
  have hprefix : ∀ t, 0 ≤ t → t ≤ g ts (ts.length - 2) →
      curveFn 4 ts (ds ++ [x]) t = curveFn 4 ts (ds ++ [y]) t := by
    intro t h0 h1
    have hsplit : ts = ts.take (ts.length - 1) ++ [g ts (ts.length - 1)] := by
      have h1 : ts.length - 1 < ts.length := by omega
      have := List.take_append_drop (ts.length - 1) ts
      rw [List.drop_eq_getElem_cons h1] at this
      rw [g_eq_getElem ts _ h1]
      have hd : ts.drop (ts.length - 1 + 1) = [] := by
        apply List.drop_eq_nil_of_le; omega
      rw [hd] at this
      exact this.symm
    set p := ts.take (ts.length - 1) with hp
    have hpl : p.length = ts.length - 1 := by rw [hp, List.length_take]; omega
    have hgk : ∀ k, k < p.length → g ts k = g p k := by
      intro k hk
      have := congrArg (fun l => g l k) hsplit
      beta_reduce at this
      rw [this]; exact g_append_left p _ k hk
    have hg0 : g p 0 = g ts 0 := (hgk 0 (by omega)).symm
    have hglast : g p (p.length - 1) = g ts (ts.length - 2) := by
      rw [show p.length - 1 = ts.length - 2 by omega]
      exact (hgk _ (by omega)).symm
    have := interp_local 4 p ds [g ts (ts.length - 1)] [x] [g ts (ts.length - 1)] [y] t (by omega) (by omega)
      (by rw [hg0, ht0]; exact h0) (by rw [hglast]; exact h1)
    rw [← hsplit] at this
    unfold curveFn
    rw [this]
  have hv : curveOfKnots 4 τ ts (ds ++ [x]) vd = curveOfKnots 4 τ ts (ds ++ [y]) vd := by
    unfold curveOfKnots
    rw [hvd]
    exact hprefix 0 le_rfl (by have := g_le_of_le ts hs 0 (ts.length - 2) (by omega) (by omega); linarith)
  have hvpos : 0 < curveOfKnots 4 τ ts (ds ++ [x]) vd := (hread' vd (by rw [hvd])).2.1
  have hst : curveOfKnots 4 τ ts (ds ++ [x]) first.start = curveOfKnots 4 τ ts (ds ++ [y]) first.start := by
    unfold curveOfKnots
    exact hprefix _ hstart0 hstart
  have hen : curveOfKnots 4 τ ts (ds ++ [x]) last.stop < curveOfKnots 4 τ ts (ds ++ [y]) last.stop := by
    unfold curveOfKnots
    rw [hend]
    have hlt : g ts (ts.length - 2) < g ts (ts.length - 1) := g_lt_of_lt ts hs _ _ (by omega) (by omega)
    obtain ⟨u, v, hu, hv', _, hstrict⟩ := linzero_interp_mono_in_last_df ts ds x y (g ts (ts.length - 1)) hlen hs hn hpos hx
      hxy.le ht0.ge (g_le_of_le ts hs 0 _ (by omega) (by omega))
    rw [curveFn_of_ok 4 ts _ _ u hu, curveFn_of_ok 4 ts _ _ v hv']
    exact hstrict hxy hlt
  exact single_curve_payer_value_strictAnti (curveOfKnots 4 τ ts (ds ++ [x])) (curveOfKnots 4 τ ts (ds ++ [y])) yfI vd c N
    fp lp first last hc0 hN hv hvpos hst hen hyfF (fun p hp => (hread' p.pay (hpay0 p hp)).1) hfirst hlast hfut hlag hbasis
    hyf (fun q hq => (hread' q.stop (hstop0 q hq)).2.1.ne') (fun q hq => (hread' q.stop (hstop0 q hq)).2.2.ne') hc


/-- C01, swaps: **uniqueness of the bootstrap root**, LINEAR_ZERO_RATES — two positive candidate dfs for the knot being solved
for that give the payer objective the same value (in particular: two roots) are equal. -/
theorem linzero_swap_root_unique (τ : Int → ℝ) (ts ds : List ℝ) (x y : ℝ) (hlen : ds.length + 1 = ts.length)
    (hs : ts.Pairwise (· < ·)) (hn : 2 ≤ ts.length) (hpos : ∀ d ∈ ds, 0 < d) (hx : 0 < x) (hy : 0 < y)
    (ht0 : g ts 0 = 0)
    (yfI : Int → Int → ℝ) (vd : Int) (c N : ℝ) (fp lp : List (Period ℝ)) (first last : Period ℝ)
    (hc0 : 0 ≤ c) (hN : 0 < N) (hvd : τ vd = 0)
    (hstart0 : 0 ≤ τ first.start) (hstart : τ first.start ≤ g ts (ts.length - 2))
    (hend : τ last.stop = g ts (ts.length - 1))
    (hyfF : ∀ p ∈ fp, 0 ≤ p.yf) (hpay0 : ∀ p ∈ fp, 0 ≤ τ p.pay) (hstop0 : ∀ q ∈ lp, 0 ≤ τ q.stop)
    (hfirst : lp.head? = some first) (hlast : lp.getLast? = some last)
    (hfut : ∀ q ∈ lp, vd < q.pay) (hlag : ∀ q ∈ lp, q.pay = q.stop)
    (hbasis : ∀ q ∈ lp, yfI q.start q.stop = q.yf) (hyf : ∀ q ∈ lp, q.yf ≠ 0) (hc : Contiguous lp) 
    (hroot : swapValue (curveOfKnots 4 τ ts (ds ++ [x])) ⟨curveOfKnots 4 τ ts (ds ++ [x]), yfI⟩ none (mkSwap true c N 0 fp lp) vd
      = swapValue (curveOfKnots 4 τ ts (ds ++ [y])) ⟨curveOfKnots 4 τ ts (ds ++ [y]), yfI⟩ none (mkSwap true c N 0 fp lp) vd) :
    x = y := by
  rcases lt_trichotomy x y with h | h | h
  · have := linzero_swap_objective_strictAnti τ ts ds x y hlen hs hn hpos hx h ht0 yfI vd c N fp lp first last hc0 hN hvd hstart0 hstart hend hyfF hpay0 hstop0 hfirst hlast hfut hlag hbasis hyf hc
    linarith
  · exact h
  · have := linzero_swap_objective_strictAnti τ ts ds y x hlen hs hn hpos hy h ht0 yfI vd c N fp lp first last hc0 hN hvd hstart0 hstart hend hyfF hpay0 hstop0 hfirst hlast hfut hlag hbasis hyf hc
    linarith

/-- … and FLAT_FWD_RATES (corollary of part d's `flat_swap_objective_strictAnti`). -/
theorem flat_swap_root_unique (τ : Int → ℝ) (ts ds : List ℝ) (x y : ℝ) (hlen : ds.length + 1 = ts.length)
    (hs : ts.Pairwise (· < ·)) (hn : 2 ≤ ts.length) (hpos : ∀ d ∈ ds, 0 < d) (hx : 0 < x) (hy : 0 < y)
    (ht0 : g ts 0 = 0)
    (yfI : Int → Int → ℝ) (vd : Int) (c N : ℝ) (fp lp : List (Period ℝ)) (first last : Period ℝ)
    (hc0 : 0 ≤ c) (hN : 0 < N) (hvd : τ vd = 0)
    (hstart0 : 0 ≤ τ first.start) (hstart : τ first.start ≤ g ts (ts.length - 2))
    (hend : τ last.stop = g ts (ts.length - 1))
    (hyfF : ∀ p ∈ fp, 0 ≤ p.yf) (hpay0 : ∀ p ∈ fp, 0 ≤ τ p.pay) (hstop0 : ∀ q ∈ lp, 0 ≤ τ q.stop)
    (hfirst : lp.head? = some first) (hlast : lp.getLast? = some last)
    (hfut : ∀ q ∈ lp, vd < q.pay) (hlag : ∀ q ∈ lp, q.pay = q.stop)
    (hbasis : ∀ q ∈ lp, yfI q.start q.stop = q.yf) (hyf : ∀ q ∈ lp, q.yf ≠ 0) (hc : Contiguous lp) 
    (hroot : swapValue (curveOfKnots 1 τ ts (ds ++ [x])) ⟨curveOfKnots 1 τ ts (ds ++ [x]), yfI⟩ none (mkSwap true c N 0 fp lp) vd
      = swapValue (curveOfKnots 1 τ ts (ds ++ [y])) ⟨curveOfKnots 1 τ ts (ds ++ [y]), yfI⟩ none (mkSwap true c N 0 fp lp) vd) :
    x = y := by
  rcases lt_trichotomy x y with h | h | h
  · have := flat_swap_objective_strictAnti τ ts ds x y hlen hs hn hpos hx h ht0 yfI vd c N fp lp first last hc0 hN hvd hstart0 hstart hend hyfF hpay0 hstop0 hfirst hlast hfut hlag hbasis hyf hc
    linarith
  · exact h
  · have := flat_swap_objective_strictAnti τ ts ds y x hlen hs hn hpos hy h ht0 yfI vd c N fp lp first last hc0 hN hvd hstart0 hstart hend hyfF hpay0 hstop0 hfirst hlast hfut hlag hbasis hyf hc
    linarith

/-- Non-vacuity of `linzero_interp_mono_in_last_df`: three knots, two candidate last dfs, a query in the last interval. -/
example : ∃ u v, uinterp 4 [0, 1, 2] ([1, 97 / 100] ++ [(9 / 10 : ℝ)]) (3 / 2) = .ok u ∧
    uinterp 4 [0, 1, 2] ([1, 97 / 100] ++ [(19 / 20 : ℝ)]) (3 / 2) = .ok v ∧ u < v := by
  obtain ⟨u, v, hu, hv, _, hlt⟩ := linzero_interp_mono_in_last_df [0, 1, 2] [1, 97 / 100] (9 / 10) (19 / 20) (3 / 2) rfl
    (by norm_num) (by simp) (by intro d hd; simp at hd; rcases hd with h | h <;> rw [h] <;> norm_num) (by norm_num)
    (by norm_num) (by simp [g]) (by simp [g]; norm_num)
  exact ⟨u, v, hu, hv, hlt (by norm_num) (by simp [g]; norm_num)⟩

/-! ### the FRA objective on the SOLVER branch (FLAT_FWD_RATES) -/

/-- The log of the flat-forward kernel is affine in the logs of the two dfs it reads. -/
lemma kFlat_log (times dfs : List ℝ) (a b : ℕ) (t : ℝ) (hab : g times a < g times b) :
    Real.log (kFlat times dfs a b t) =
      ((g times b - t) * Real.log (g dfs a) + (t - g times a) * Real.log (g dfs b)) / (g times b - g times a) := by
  have hdt : g times b - g times a ≠ 0 := (sub_pos.mpr hab).ne'
  unfold kFlat
  simp only [exp_real, log_real, Real.log_exp]
  field_simp
  ring

/-- C01, FRAs, solver branch, FLAT_FWD_RATES single curve: when the FRA starts INSIDE the last interval (`t < times[b]`, so
df(start) moves with the knot being solved for — the case the closed form does not cover), the generated `IborFRA.value`
objective still has **at most one positive root** in the last knot's df: `df(start) = (1 + αK)·x` with
`df(start) ∝ x^w`, `w < 1`. -/
theorem flat_fra_solver_root_unique (times dfs dfs' : List ℝ) (a b : ℕ) (hab : g times a < g times b)
    (ha : g dfs a = g dfs' a) (hx : 0 < g dfs b) (hy : 0 < g dfs' b) (t : ℝ) (htb : t < g times b)
    (α K dv N : ℝ) (pay : Bool) (hα : α ≠ 0) (hc : 0 < 1 + α * K) (hv : dv ≠ 0) (hN : N ≠ 0)
    (h1 : RatesR.fra_value α (kFlat times dfs a b t) (g dfs b) (g dfs b) dv K N pay = 0)
    (h2 : RatesR.fra_value α (kFlat times dfs' a b t) (g dfs' b) (g dfs' b) dv K N pay = 0) :
    g dfs b = g dfs' b := by
  have key : ∀ (l : List ℝ), 0 < g l b → RatesR.fra_value α (kFlat times l a b t) (g l b) (g l b) dv K N pay = 0 →
      Real.log (kFlat times l a b t) = Real.log (1 + α * K) + Real.log (g l b) := by
    intro l hl h
    have hf := (fra_zero_iff_forward_eq_quote α _ _ _ dv K N pay hα hl.ne' hv hN).mp h
    unfold fraForward at hf
    have : kFlat times l a b t = (1 + α * K) * g l b := by
      have h3 : kFlat times l a b t / g l b = 1 + α * K := by
        field_simp at hf
        field_simp
        linarith
      rw [← h3]; field_simp
    rw [this, Real.log_mul hc.ne' hl.ne']
  have e1 := key dfs hx h1
  have e2 := key dfs' hy h2
  rw [kFlat_log times dfs a b t hab] at e1
  rw [kFlat_log times dfs' a b t hab, ← ha] at e2
  have hdt : g times b - g times a ≠ 0 := (sub_pos.mpr hab).ne'
  rw [div_eq_iff hdt] at e1 e2
  have hz : (Real.log (g dfs b) - Real.log (g dfs' b)) * (t - g times b) = 0 := by linear_combination e1 - e2
  rcases mul_eq_zero.mp hz with h | h
  · have : Real.log (g dfs b) = Real.log (g dfs' b) := by linarith
    exact Real.log_injOn_pos (Set.mem_Ioi.mpr hx) (Set.mem_Ioi.mpr hy) this
  · exfalso; linarith

end FinVerif.Props.C01
