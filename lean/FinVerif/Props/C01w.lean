/-
  C01 (wave 5) — the two consistency clauses the deposit step of the bootstrap rests on, on the GENERATED code
  (`Gen/RatesR.lean` <- `IborDeposit._maturity_df / value`).

  The knot of a deposit is `_maturity_df() * df_settle` and the deposit is afterwards valued as
  `(1 + α r) N df(maturity) / df(settlement)` on the curve that was built.  The deposit is worth its notional exactly when
    (1) the settlement discount factor that went into the knot is the one the BUILT curve returns at the settlement date
        (for a dual curve: the index curve's own df, not the discounting curve's), and
    (2) the accrual factor used for the knot is the accrual factor used by the valuation.
  Both directions are proved: the mismatch is not only sufficient for a repricing error, its size is exact
  (`dfS'/dfS − 1` resp. `(α' − α) r / (1 + α r)` of notional), which is what the repricing oracle of the harness measures.
-/
import FinVerif.Props.C01b

set_option linter.unusedVariables false
set_option linter.unusedSimpArgs false

namespace FinVerif.Props.C01
open FinVerif FinVerif.Gen

/-- Value of a deposit whose knot was computed from a settlement df `dfK` while the built curve returns `dfS` at the
settlement date: `N · dfK / dfS`. -/
theorem deposit_value_foreign_settle (vd mat : Int) (hvd : vd ≤ mat) (N α r dfS dfK : ℝ) (h1 : 1 + α * r ≠ 0) (hS : dfS ≠ 0) :
    RatesR.deposit_value vd α dfS (RatesR.deposit_maturity_df α r * dfK) r N mat = .ok (N * dfK / dfS) := by
  rw [depositValue_is_generated, if_neg (by omega)]
  simp only [RatesR.deposit_maturity_df, depositValue]
  congr 1
  field_simp

/-- C01, deposit clause, dual curves included: the deposit is worth its notional on the built curve **iff** the settlement
df that went into its knot is the built curve's own df at the settlement date. -/
theorem deposit_reprices_iff_own_settle (vd mat : Int) (hvd : vd ≤ mat) (N α r dfS dfK : ℝ) (hN : N ≠ 0) (h1 : 1 + α * r ≠ 0)
    (hS : dfS ≠ 0) :
    RatesR.deposit_value vd α dfS (RatesR.deposit_maturity_df α r * dfK) r N mat = .ok N ↔ dfK = dfS := by
  rw [deposit_value_foreign_settle vd mat hvd N α r dfS dfK h1 hS]
  constructor
  · intro h
    have h' : N * dfK / dfS = N := by injection h
    rw [div_eq_iff hS] at h'
    exact mul_left_cancel₀ hN h'
  · intro h
    rw [h, mul_div_assoc, div_self hS, mul_one]

/-- The repricing error of a deposit whose knot took the settlement df from another curve: `value/N − 1 = dfK/dfS − 1`
(for two curves with simple short rates `r_i`, `r_d` over a spot lag `τ`: `≈ (r_i − r_d) τ`). -/
theorem deposit_foreign_settle_error (N α r dfS dfK : ℝ) (hN : N ≠ 0) (h1 : 1 + α * r ≠ 0) (hS : dfS ≠ 0) :
    depositValue N α r dfS (depositKnot α r dfK) / N - 1 = dfK / dfS - 1 := by
  unfold depositValue depositKnot
  field_simp

/-- Value of a deposit whose knot was computed with accrual factor `α` while the valuation uses `α'`:
`N (1 + α' r)/(1 + α r)`. -/
theorem deposit_value_other_accrual (vd mat : Int) (hvd : vd ≤ mat) (N α α' r dfS : ℝ) (h1 : 1 + α * r ≠ 0) (hS : dfS ≠ 0) :
    RatesR.deposit_value vd α' dfS (RatesR.deposit_maturity_df α r * dfS) r N mat = .ok (N * (1 + α' * r) / (1 + α * r)) := by
  rw [depositValue_is_generated, if_neg (by omega)]
  simp only [RatesR.deposit_maturity_df, depositValue]
  congr 1
  field_simp

/-- C01, deposit clause: with a non-zero quote the deposit is worth its notional **iff** knot and valuation use the same
accrual factor (same day count, same treatment of the period end). -/
theorem deposit_reprices_iff_same_accrual (vd mat : Int) (hvd : vd ≤ mat) (N α α' r dfS : ℝ) (hN : N ≠ 0) (hr : r ≠ 0)
    (h1 : 1 + α * r ≠ 0) (hS : dfS ≠ 0) :
    RatesR.deposit_value vd α' dfS (RatesR.deposit_maturity_df α r * dfS) r N mat = .ok N ↔ α' = α := by
  rw [deposit_value_other_accrual vd mat hvd N α α' r dfS h1 hS]
  constructor
  · intro h
    have h' : N * (1 + α' * r) / (1 + α * r) = N := by injection h
    rw [div_eq_iff h1] at h'
    have h2 : 1 + α' * r = 1 + α * r := mul_left_cancel₀ hN h'
    have h3 : α' * r = α * r := by linarith
    exact mul_right_cancel₀ hr h3
  · intro h
    rw [h, mul_div_assoc, div_self h1, mul_one]

/-- The repricing error when the accrual factors differ: `value/N − 1 = (α' − α) r / (1 + α r)`. -/
theorem deposit_other_accrual_error (N α α' r dfS : ℝ) (hN : N ≠ 0) (h1 : 1 + α * r ≠ 0) (hS : dfS ≠ 0) :
    depositValue N α' r dfS (depositKnot α r dfS) / N - 1 = (α' - α) * r / (1 + α * r) := by
  have hv : depositValue N α' r dfS (depositKnot α r dfS) = N * (1 + α' * r) / (1 + α * r) := by
    unfold depositValue depositKnot
    field_simp
  rw [hv, div_sub_one hN, div_eq_div_iff hN h1, sub_mul, div_mul_cancel₀ _ h1]
  ring

/-- Non-vacuity / size: a 3M deposit at 2.35 % under 30E/360 ISDA ending on the last day of February — knot with 90/360,
valuation with 88/360 — is off par by more than a basis point of notional (the oracle's tolerance is 1e-8). -/
example : depositValue 100 (88 / 360) (235 / 10000) 1 (depositKnot (90 / 360) (235 / 10000) 1) / 100 - 1 < -(1 / 10000) := by
  rw [deposit_other_accrual_error 100 _ _ _ 1 (by norm_num) (by norm_num) (by norm_num)]
  norm_num

/-- Non-vacuity / size: a two-day spot lag, index short rate 1.2 %, discounting short rate 0.8 % (ACT/360): the deposit whose
knot took the discounting curve's settlement df is off par by more than 2e-5 of notional. -/
example : depositValue 100 (1 / 12) (12 / 1000) (1 / (1 + 2 / 360 * (12 / 1000)))
    (depositKnot (1 / 12) (12 / 1000) (1 / (1 + 2 / 360 * (8 / 1000)))) / 100 - 1 > 2 / 100000 := by
  rw [deposit_foreign_settle_error 100 _ _ _ _ (by norm_num) (by norm_num) (by norm_num)]
  norm_num

end FinVerif.Props.C01
