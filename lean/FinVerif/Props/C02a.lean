/-
  C02a — `_uinterpolate` (FLAT_FWD_RATES = 1, LINEAR_FWD_RATES = 2, LINEAR_ZERO_RATES = 4) at `α = ℝ`,
  for any number of knots: pillar reproduction, positivity, locality, continuity at the knots and the
  monotonicity criterion of the flat-forward branch.  Helper lemmas: `Lemmas/C02Interp.lean`.
-/
import FinVerif.Lemmas.C02Interp

namespace FinVerif.Props.C02
open FinVerif FinVerif.Model.C02

/-! ### continuity at the knots: the branch formulas at their end points -/

/-- FLAT_FWD_RATES: the branch of interval `i` (`1 ≤ i < n`) returns `dfs[i]` at its right end `times[i]`. -/
theorem kernel_right_end_flat (times dfs : List ℝ) (hlen : dfs.length = times.length)
    (hs : times.Pairwise (· < ·)) (hpos : ∀ d ∈ dfs, 0 < d) (i : ℕ) (h1 : 1 ≤ i) (hi : i < times.length) :
    kernel 1 times dfs i (g times i) = .ok (g dfs i) := by
  have hdt := g_sub_ne times hs (i - 1) i (by omega) hi
  rw [kernel_m1, if_neg (by omega), if_pos hi, guardDiv_ok1 _ _ hdt,
    kFlat_right times dfs (i - 1) i hdt (g_pos dfs hpos i (by omega))]

/-- LINEAR_ZERO_RATES: the branch of interval `i` (`1 ≤ i < n`) returns `dfs[i]` at its right end `times[i]`. -/
theorem kernel_right_end_linzero (times dfs : List ℝ) (hlen : dfs.length = times.length)
    (hs : times.Pairwise (· < ·)) (hpos : ∀ d ∈ dfs, 0 < d) (h0 : 0 ≤ g times 0)
    (i : ℕ) (h1 : 1 ≤ i) (hi : i < times.length) :
    kernel 4 times dfs i (g times i) = .ok (g dfs i) := by
  have hdt := g_sub_ne times hs (i - 1) i (by omega) hi
  have hti := g_ne_zero_of_pos times hs h0 i h1 hi
  have hdi := g_pos dfs hpos i (by omega)
  rw [kernel_m4]
  by_cases hi1 : i = 1
  · subst hi1
    rw [if_pos rfl, guardDiv_ok2 _ _ _ hti hdt, kLinZero_const_at times dfs 1 0 1 hdt hti hdi]
  · have hta := g_ne_zero_of_pos times hs h0 (i - 1) (by omega) (by omega)
    rw [if_neg hi1, if_neg (by omega), if_pos hi, guardDiv_ok3 _ _ _ _ hta hti hdt,
      kLinZero_right times dfs (i - 1) i hdt hti hdi]

/-- LINEAR_FWD_RATES: the interior branch of interval `i` (`2 ≤ i < n`) returns `dfs[i]` at `times[i]`. -/
theorem kernel_right_end_linfwd (times dfs : List ℝ) (hlen : dfs.length = times.length)
    (hs : times.Pairwise (· < ·)) (hpos : ∀ d ∈ dfs, 0 < d) (i : ℕ) (h2 : 2 ≤ i) (hi : i < times.length) :
    kernel 2 times dfs i (g times i) = .ok (g dfs i) := by
  have hdt := g_sub_ne times hs (i - 1) i (by omega) hi
  have hdt' := g_sub_ne times hs (i - 2) (i - 1) (by omega) (by omega)
  have hdi := g_pos dfs hpos i (by omega)
  have hda := g_pos dfs hpos (i - 1) (by omega)
  have hdc := g_pos dfs hpos (i - 2) (by omega)
  rw [kernel_m2, if_neg (by omega), if_neg (by omega), if_pos hi,
    guardDiv_ok4 _ _ _ _ _ hdc.ne' hdt' hda.ne' hdt, kLinFwdInt_right times dfs (i - 2) (i - 1) i hdt hda hdi]

/-- Right end of a branch, all three methods (LINEAR_FWD_RATES only for the interior branches `i ≥ 2`). -/
theorem kernel_right_end (m : Int) (times dfs : List ℝ) (hlen : dfs.length = times.length)
    (hs : times.Pairwise (· < ·)) (hpos : ∀ d ∈ dfs, 0 < d) (h0 : 0 ≤ g times 0)
    (i : ℕ) (h1 : 1 ≤ i) (hi : i < times.length) (hm : m = 1 ∨ m = 4 ∨ (m = 2 ∧ 2 ≤ i)) :
    kernel m times dfs i (g times i) = .ok (g dfs i) := by
  rcases hm with rfl | rfl | ⟨rfl, h2⟩
  · exact kernel_right_end_flat times dfs hlen hs hpos i h1 hi
  · exact kernel_right_end_linzero times dfs hlen hs hpos h0 i h1 hi
  · exact kernel_right_end_linfwd times dfs hlen hs hpos i h2 hi

/-- FLAT_FWD_RATES: the branch `i` (`1 ≤ i ≤ n`, `i = n` is the right extrapolation) returns `dfs[i-1]`
at its left end `times[i-1]`. -/
theorem kernel_left_end_flat (times dfs : List ℝ) (hlen : dfs.length = times.length)
    (hs : times.Pairwise (· < ·)) (hpos : ∀ d ∈ dfs, 0 < d) (i : ℕ) (h1 : 1 ≤ i) (hi : i ≤ times.length)
    (hn : 2 ≤ times.length) :
    kernel 1 times dfs i (g times (i - 1)) = .ok (g dfs (i - 1)) := by
  rw [kernel_m1, if_neg (by omega)]
  by_cases hin : i < times.length
  · have hdt := g_sub_ne times hs (i - 1) i (by omega) hin
    rw [if_pos hin, guardDiv_ok1 _ _ hdt, kFlat_left times dfs (i - 1) i hdt (g_pos dfs hpos (i - 1) (by omega))]
  · have hin' : i = times.length := by omega
    subst hin'
    have hdt := g_sub_ne times hs (times.length - 2) (times.length - 1) (by omega) (by omega)
    rw [if_neg hin, guardDiv_ok1 _ _ hdt,
      kFlat_right times dfs (times.length - 2) (times.length - 1) hdt (g_pos dfs hpos _ (by omega))]

/-- LINEAR_ZERO_RATES: the branch `i` (`2 ≤ i ≤ n`) returns `dfs[i-1]` at its left end `times[i-1]`. -/
theorem kernel_left_end_linzero (times dfs : List ℝ) (hlen : dfs.length = times.length)
    (hs : times.Pairwise (· < ·)) (hpos : ∀ d ∈ dfs, 0 < d) (h0 : 0 ≤ g times 0)
    (i : ℕ) (h2 : 2 ≤ i) (hi : i ≤ times.length) :
    kernel 4 times dfs i (g times (i - 1)) = .ok (g dfs (i - 1)) := by
  have hta := g_ne_zero_of_pos times hs h0 (i - 1) (by omega) (by omega)
  have hda := g_pos dfs hpos (i - 1) (by omega)
  rw [kernel_m4, if_neg (by omega), if_neg (by omega)]
  by_cases hin : i < times.length
  · have hdt := g_sub_ne times hs (i - 1) i (by omega) hin
    have hti := g_ne_zero_of_pos times hs h0 i (by omega) hin
    rw [if_pos hin, guardDiv_ok3 _ _ _ _ hta hti hdt, kLinZero_left times dfs (i - 1) i hdt hta hda]
  · have hin' : i = times.length := by omega
    subst hin'
    have hdt := g_sub_ne times hs (times.length - 2) (times.length - 1) (by omega) (by omega)
    rw [if_neg hin, guardDiv_ok2 _ _ _ hta hdt,
      kLinZero_const_at times dfs (times.length - 1) (times.length - 2) (times.length - 1) hdt hta hda]

/-- LINEAR_FWD_RATES: the branch `i` (`2 ≤ i ≤ n`) returns `dfs[i-1]` at its left end `times[i-1]`. -/
theorem kernel_left_end_linfwd (times dfs : List ℝ) (hlen : dfs.length = times.length)
    (hs : times.Pairwise (· < ·)) (hpos : ∀ d ∈ dfs, 0 < d) (i : ℕ) (h2 : 2 ≤ i) (hi : i ≤ times.length) :
    kernel 2 times dfs i (g times (i - 1)) = .ok (g dfs (i - 1)) := by
  have hda := g_pos dfs hpos (i - 1) (by omega)
  have hdc := g_pos dfs hpos (i - 2) (by omega)
  have hdt' := g_sub_ne times hs (i - 2) (i - 1) (by omega) (by omega)
  rw [kernel_m2, if_neg (by omega), if_neg (by omega)]
  by_cases hin : i < times.length
  · have hdt := g_sub_ne times hs (i - 1) i (by omega) hin
    rw [if_pos hin, guardDiv_ok4 _ _ _ _ _ hdc.ne' hdt' hda.ne' hdt, kLinFwdInt_left]
  · have hin' : i = times.length := by omega
    subst hin'
    rw [if_neg hin, guardDiv_ok2 _ _ _ hdc.ne' hdt', kLinFwdRight_left]

/-- Left end of a branch `2 ≤ i ≤ n` (`i = n`: right extrapolation), all three methods. -/
theorem kernel_left_end (m : Int) (times dfs : List ℝ) (hlen : dfs.length = times.length)
    (hs : times.Pairwise (· < ·)) (hpos : ∀ d ∈ dfs, 0 < d) (h0 : 0 ≤ g times 0)
    (i : ℕ) (h2 : 2 ≤ i) (hi : i ≤ times.length) (hm : m = 1 ∨ m = 2 ∨ m = 4) :
    kernel m times dfs i (g times (i - 1)) = .ok (g dfs (i - 1)) := by
  rcases hm with rfl | rfl | rfl
  · exact kernel_left_end_flat times dfs hlen hs hpos i (by omega) hi (by omega)
  · exact kernel_left_end_linfwd times dfs hlen hs hpos i h2 hi
  · exact kernel_left_end_linzero times dfs hlen hs hpos h0 i h2 hi

/-- Left end of the first branch under the anchor knot `(times[0], dfs[0]) = (0, 1)`: every method gives `1`. -/
theorem kernel_left_end_first (m : Int) (times dfs : List ℝ) (hlen : dfs.length = times.length)
    (hs : times.Pairwise (· < ·)) (hpos : ∀ d ∈ dfs, 0 < d) (hn : 2 ≤ times.length)
    (ht0 : g times 0 = 0) (hd0 : g dfs 0 = 1) (hm : m = 1 ∨ m = 2 ∨ m = 4) :
    kernel m times dfs 1 (g times 0) = .ok (g dfs 0) := by
  have hdt := g_sub_ne times hs 0 1 (by omega) (by omega)
  rcases hm with rfl | rfl | rfl
  · exact kernel_left_end_flat times dfs hlen hs hpos 1 le_rfl (by omega) hn
  · have h1 : g times 1 + (1e-10 : ℝ) ≠ 0 := by
      have := g_lt_of_lt times hs 0 1 (by omega) (by omega)
      rw [ht0] at this
      have h : (0 : ℝ) < 1e-10 := by norm_num
      linarith
    rw [kernel_m2, if_pos rfl, guardDiv_ok1 _ _ h1, ht0, kLinFwdFirst_zero, hd0]
  · have ht1 := g_ne_zero_of_pos times hs ht0.ge 1 le_rfl (by omega)
    have := kLinZero_const_zero times dfs 1 0 1 hdt
    rw [kernel_m4, if_pos rfl, guardDiv_ok2 _ _ _ ht1 hdt, ht0, this, hd0]

/-- Continuity at an interior knot `times[i]` (`1 ≤ i`, `i + 1 ≤ n`): the branch ending there and the branch
starting there (or the right extrapolation) agree, both giving `dfs[i]`
(LINEAR_FWD_RATES: only for `i ≥ 2`, the first-interval formula is off by the `small` guards). -/
theorem interp_continuous_at_knots (m : Int) (times dfs : List ℝ) (hlen : dfs.length = times.length)
    (hs : times.Pairwise (· < ·)) (hpos : ∀ d ∈ dfs, 0 < d) (h0 : 0 ≤ g times 0)
    (i : ℕ) (h1 : 1 ≤ i) (hi : i < times.length) (hm : m = 1 ∨ m = 4 ∨ (m = 2 ∧ 2 ≤ i)) :
    kernel m times dfs i (g times i) = kernel m times dfs (i + 1) (g times i) ∧
      kernel m times dfs i (g times i) = .ok (g dfs i) := by
  have hr := kernel_right_end m times dfs hlen hs hpos h0 i h1 hi hm
  have hl := kernel_left_end m times dfs hlen hs hpos h0 (i + 1) (by omega) (by omega)
    (by rcases hm with h | h | h <;> simp [h])
  rw [Nat.add_sub_cancel] at hl
  exact ⟨hr.trans hl.symm, hr⟩

/-! ### pillar reproduction -/

/-- FLAT_FWD_RATES reproduces every pillar (no sign condition on `times[0]`). -/
theorem interp_at_knot_flat (times dfs : List ℝ) (hlen : dfs.length = times.length)
    (hs : times.Pairwise (· < ·)) (hpos : ∀ d ∈ dfs, 0 < d) (hn : 2 ≤ times.length)
    (k : ℕ) (hk : k < times.length) :
    uinterp 1 times dfs (g times k) = .ok (g dfs k) := by
  by_cases hk0 : k = 0
  · subst hk0
    exact uinterp_first 1 times dfs (by omega)
  · have hne : g times k ≠ g times 0 := ne_of_gt (g_lt_of_lt times hs 0 k (by omega) hk)
    rw [uinterp_kernel 1 times dfs _ hn hne, locate_at_knot times hs k hk]
    exact kernel_right_end_flat times dfs hlen hs hpos k (by omega) hk

/-- FLAT_FWD_RATES and LINEAR_ZERO_RATES reproduce every pillar; LINEAR_FWD_RATES every pillar but `k = 1`. -/
theorem interp_at_knot (m : Int) (times dfs : List ℝ) (hlen : dfs.length = times.length)
    (hs : times.Pairwise (· < ·)) (hpos : ∀ d ∈ dfs, 0 < d) (h0 : 0 ≤ g times 0) (hn : 2 ≤ times.length)
    (k : ℕ) (hk : k < times.length) (hm : m = 1 ∨ m = 4 ∨ (m = 2 ∧ k ≠ 1)) :
    uinterp m times dfs (g times k) = .ok (g dfs k) := by
  by_cases hk0 : k = 0
  · subst hk0
    exact uinterp_first m times dfs (by omega)
  · have hne : g times k ≠ g times 0 := ne_of_gt (g_lt_of_lt times hs 0 k (by omega) hk)
    rw [uinterp_kernel m times dfs _ hn hne, locate_at_knot times hs k hk]
    exact kernel_right_end m times dfs hlen hs hpos h0 k (by omega) hk
      (by rcases hm with h | h | ⟨h, h'⟩
          · exact Or.inl h
          · exact Or.inr (Or.inl h)
          · exact Or.inr (Or.inr ⟨h, by omega⟩))

/-- LINEAR_FWD_RATES at the second pillar: the value as coded, with the `small = 1e-10` guards — the
pillar is reproduced only up to O(1e-10). -/
theorem interp_at_knot_linfwd_first (times dfs : List ℝ)
    (hs : times.Pairwise (· < ·)) (h0 : 0 ≤ g times 0) (hn : 2 ≤ times.length) :
    uinterp 2 times dfs (g times 1) =
      .ok (Real.exp (-(g times 1 * -Real.log (g dfs 1 + 1e-10) / (g times 1 + 1e-10)))) := by
  have hlt := g_lt_of_lt times hs 0 1 (by omega) (by omega)
  have h1 : g times 1 + (1e-10 : ℝ) ≠ 0 := by
    have h : (0 : ℝ) < 1e-10 := by norm_num
    linarith
  rw [uinterp_kernel 2 times dfs _ hn (ne_of_gt hlt), locate_at_knot times hs 1 (by omega),
    kernel_m2, if_pos rfl, guardDiv_ok1 _ _ h1]
  simp only [kLinFwdFirst, exp_real, log_real]

/-! ### positivity -/

/-- Every value `_uinterpolate` returns (any method, any `t`, any number of knots) is strictly positive
when the discount factors are. -/
theorem interp_pos (method : Int) (times dfs : List ℝ) (t v : ℝ) :
    uinterp method times dfs t = .ok v → (∀ d ∈ dfs, 0 < d) → dfs.length = times.length → 0 < v := by
  intro h hpos hlen
  unfold uinterp at h
  simp only at h
  split_ifs at h
  · injection h with h; subst h; exact g_pos dfs hpos 0 (by omega)
  · exact kernel_pos method times dfs hlen hpos (by omega) _ t v h

/-! ### locality -/

/-- Appending knots after `t` does not change the value at `t` (no sortedness needed: the search loop stops at
the first knot not `< t`, and the branch reads only knots up to it). -/
theorem interp_append_local (m : Int) (pt pd st sd : List ℝ) (t : ℝ) (hlen : pd.length = pt.length)
    (h1 : 1 ≤ pt.length) (hlo : g pt 0 ≤ t) (hhi : t ≤ g pt (pt.length - 1)) :
    uinterp m (pt ++ st) (pd ++ sd) t = uinterp m pt pd t := by
  by_cases ht : t = g pt 0
  · subst ht
    rw [uinterp_first m pt pd (by omega)]
    have := uinterp_first m (pt ++ st) (pd ++ sd) (by rw [List.length_append]; omega)
    rw [g_append_left pt st 0 (by omega), g_append_left pd sd 0 (by omega)] at this
    exact this
  · have hlt : g pt 0 < t := lt_of_le_of_ne hlo (Ne.symm ht)
    obtain ⟨s1, s2, _, _, _⟩ := search_spec pt t hlt hhi
    obtain ⟨l1, l2⟩ := locate_append pt st t h1 (not_lt.mpr hhi)
    have ht' : t ≠ g (pt ++ st) 0 := by rw [g_append_left pt st 0 (by omega)]; exact ht
    rw [uinterp_kernel m (pt ++ st) (pd ++ sd) t (by rw [List.length_append]; omega) ht',
      uinterp_kernel m pt pd t (by omega) ht, l1, l2]
    exact kernel_append m pt pd st sd hlen _ t s1 s2

/-- The value at `t` depends only on the knots up to the first knot `≥ t`: two curves sharing the prefix
`(pt, pd)` with `pt[0] ≤ t ≤ pt[last]` agree at `t`, whatever follows. -/
theorem interp_local (m : Int) (pt pd st sd st' sd' : List ℝ) (t : ℝ) (hlen : pd.length = pt.length)
    (h1 : 1 ≤ pt.length) (hlo : g pt 0 ≤ t) (hhi : t ≤ g pt (pt.length - 1)) :
    uinterp m (pt ++ st) (pd ++ sd) t = uinterp m (pt ++ st') (pd ++ sd') t := by
  rw [interp_append_local m pt pd st sd t hlen h1 hlo hhi,
    interp_append_local m pt pd st' sd' t hlen h1 hlo hhi]

/-! ### monotonicity of the flat-forward branch -/

/-- The FLAT_FWD_RATES branch on knots `a`, `b` is non-increasing in `t` iff `dfs[b] ≤ dfs[a]`, i.e. iff the
forward rate of that interval is non-negative. -/
theorem flatfwd_branch_antitone_iff (times dfs : List ℝ) (a b : ℕ) (hab : g times a < g times b)
    (ha : 0 < g dfs a) (hb : 0 < g dfs b) :
    (∀ s t, s ≤ t → kFlat times dfs a b t ≤ kFlat times dfs a b s) ↔ g dfs b ≤ g dfs a := by
  have hdt : g times b - g times a ≠ 0 := sub_ne_zero.mpr (ne_of_gt hab)
  constructor
  · intro h
    have := h (g times a) (g times b) hab.le
    rwa [kFlat_right times dfs a b hdt hb, kFlat_left times dfs a b hdt ha] at this
  · intro h s t hst
    exact kFlat_antitone times dfs a b hab hb h s t hst

/-- FLAT_FWD_RATES: the interpolated discount factor is non-increasing on `[times[0], ∞)` (extrapolation
included) iff the pillar discount factors are non-increasing, i.e. iff all forward rates are `≥ 0`. -/
theorem flatfwd_antitone_iff (times dfs : List ℝ) (hlen : dfs.length = times.length)
    (hs : times.Pairwise (· < ·)) (hpos : ∀ d ∈ dfs, 0 < d) (hn : 2 ≤ times.length) :
    (∀ s t u v, g times 0 ≤ s → s ≤ t → uinterp 1 times dfs s = .ok u → uinterp 1 times dfs t = .ok v → v ≤ u)
      ↔ ∀ k, k + 1 < times.length → g dfs (k + 1) ≤ g dfs k := by
  constructor
  · intro h k hk
    exact h (g times k) (g times (k + 1)) (g dfs k) (g dfs (k + 1))
      (g_le_of_le times hs 0 k (by omega) (by omega)) (g_le_of_le times hs k (k + 1) (by omega) hk)
      (interp_at_knot_flat times dfs hlen hs hpos hn k (by omega))
      (interp_at_knot_flat times dfs hlen hs hpos hn (k + 1) hk)
  · intro h s t u v hs0 hst hu hv
    have hmono := g_antitone_of_step dfs times.length h
    have step : ∀ j, 1 ≤ j → j < times.length → g dfs j ≤ g dfs (j - 1) := by
      intro j j1 j2
      have := h (j - 1) (by omega)
      rwa [Nat.sub_add_cancel j1] at this
    -- a branch value is bounded by the pillar values at the ends of its interval
    have upper : ∀ j x, 1 ≤ j → j < times.length → g times (j - 1) < x →
        kFlat times dfs (j - 1) j x ≤ g dfs (j - 1) := by
      intro j x j1 j2 hx
      have hab := g_lt_of_lt times hs (j - 1) j (by omega) j2
      have := kFlat_antitone times dfs (j - 1) j hab (g_pos dfs hpos j (by omega)) (step j j1 j2)
        (g times (j - 1)) x hx.le
      rwa [kFlat_left times dfs (j - 1) j (sub_ne_zero.mpr (ne_of_gt hab)) (g_pos dfs hpos _ (by omega))]
        at this
    have lower : ∀ j x, 1 ≤ j → j < times.length → x ≤ g times j →
        g dfs j ≤ kFlat times dfs (j - 1) j x := by
      intro j x j1 j2 hx
      have hab := g_lt_of_lt times hs (j - 1) j (by omega) j2
      have := kFlat_antitone times dfs (j - 1) j hab (g_pos dfs hpos j (by omega)) (step j j1 j2)
        x (g times j) hx
      rwa [kFlat_right times dfs (j - 1) j (sub_ne_zero.mpr (ne_of_gt hab)) (g_pos dfs hpos _ (by omega))]
        at this
    rcases eq_or_lt_of_le hs0 with hs1 | hs1
    · -- `s` is the first knot
      subst hs1
      rw [uinterp_first 1 times dfs (by omega)] at hu
      injection hu with hu
      subst hu
      rcases eq_or_lt_of_le hst with ht1 | ht1
      · rw [← ht1, uinterp_first 1 times dfs (by omega)] at hv
        injection hv with hv
        exact hv.ge
      · obtain ⟨j, j1, j2, j3, _, j5⟩ := uinterp_flat_shape times dfs hs hn t ht1
        rw [j5] at hv
        injection hv with hv
        subst hv
        exact le_trans (upper j t j1 j2 j3) (hmono 0 (j - 1) (by omega) (by omega))
    · have ht1 : g times 0 < t := lt_of_lt_of_le hs1 hst
      obtain ⟨a, a1, a2, a3, a4, a5⟩ := uinterp_flat_shape times dfs hs hn s hs1
      obtain ⟨b, b1, b2, b3, b4, b5⟩ := uinterp_flat_shape times dfs hs hn t ht1
      rw [a5] at hu
      rw [b5] at hv
      injection hu with hu
      injection hv with hv
      subst hu
      subst hv
      rcases Nat.lt_trichotomy a b with hab | hab | hab
      · have hsa : s ≤ g times a := by
          rcases a4 with a4 | a4
          · exact a4
          · omega
        exact le_trans (upper b t b1 b2 b3)
          (le_trans (hmono a (b - 1) (by omega) (by omega)) (lower a s a1 a2 hsa))
      · subst hab
        exact kFlat_antitone times dfs (a - 1) a (g_lt_of_lt times hs (a - 1) a (by omega) a2)
          (g_pos dfs hpos a (by omega)) (step a a1 a2) s t hst
      · exfalso
        have htb : t ≤ g times b := by
          rcases b4 with b4 | b4
          · exact b4
          · omega
        have := g_le_of_le times hs b (a - 1) (by omega) (by omega)
        linarith

/-! ### the hypotheses are satisfiable -/

/-- The hypotheses used above hold for the curve `times = [0, 1, 2]`, `dfs = [1, 0.99, 0.97]`. -/
example : let times : List ℝ := [0, 1, 2]; let dfs : List ℝ := [1, 0.99, 0.97]
    dfs.length = times.length ∧ times.Pairwise (· < ·) ∧ (∀ d ∈ dfs, 0 < d) ∧ 0 ≤ g times 0 ∧
      2 ≤ times.length ∧ g times 0 = 0 ∧ g dfs 0 = 1 ∧ (∀ k, k + 1 < times.length → g dfs (k + 1) ≤ g dfs k) := by
  intro times dfs
  refine ⟨rfl, by simp [times], by simp [dfs]; norm_num, by simp [times, g], by simp [times],
    by simp [times, g], by simp [dfs, g], ?_⟩
  intro k hk
  have hk' : k = 0 ∨ k = 1 := by simp [times] at hk; omega
  rcases hk' with rfl | rfl <;> simp [dfs, g] <;> norm_num

/-- Instance: the flat-forward curve through `(0,1), (1,0.99), (2,0.97)` returns `0.99` at `t = 1`. -/
example : uinterp 1 ([0, 1, 2] : List ℝ) [1, 0.99, 0.97] 1 = .ok 0.99 := by
  have := interp_at_knot_flat ([0, 1, 2] : List ℝ) [1, 0.99, 0.97] rfl (by simp) (by simp; norm_num)
    (by simp) 1 (by simp)
  simpa [g] using this

end FinVerif.Props.C02
