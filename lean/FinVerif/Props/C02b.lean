/-
  C02 (part b) — algebraic identities of the discount-curve model at `α = ℝ`:
  rate ↔ discount-factor round trips, forward / swap-rate identities, composite product,
  the anchor knot, and the concrete witnesses of the known defects of the unchanged code.
-/
import FinVerif.Lemmas.C02Alg
import Mathlib.Tactic.Ring
import Mathlib.Tactic.FieldSimp
import Mathlib.Tactic.Linarith
import Mathlib.Tactic.NormNum

namespace FinVerif.Props.C02
open FinVerif FinVerif.Model.C02

/-! ### 1. rate ↔ discount factor -/

/-- The continuous-compounding formula as the model computes it. -/
theorem zeroToDf_cont (r t : ℝ) : zeroToDf 99 r t = .ok (Real.exp (-r * max t 1e-12)) := by
  simp [zeroToDf, fmaxG_real, gSmall]

/-- The simple-compounding formula as the model computes it. -/
theorem zeroToDf_simple (r t : ℝ) : zeroToDf 0 r t = .ok (1 / (1 + r * max t 1e-12)) := by
  simp [zeroToDf, fmaxG_real, gSmall]

/-- The compounded formula (`f` periods a year) as the model computes it. -/
theorem zeroToDf_comp (f : Int) (hf : f = 1 ∨ f = 2 ∨ f = 4 ∨ f = 12) (r t : ℝ) :
    zeroToDf f r t = .ok (1 / (1 + r / (f : ℝ)) ^ ((f : ℝ) * max t 1e-12)) := by
  rcases hf with h | h | h | h <;> subst h <;>
    simp [zeroToDf, annualFreq, fmaxG_real, gSmall] <;> norm_num

/-- `_df_to_zero`, continuous. -/
theorem dfToZero_cont (df t : ℝ) : dfToZero 99 df t = .ok (-(Real.log df) / max t 1e-12) := by
  simp [dfToZero, fmaxG_real, gSmall]

/-- `_df_to_zero`, simple. -/
theorem dfToZero_simple (df t : ℝ) : dfToZero 0 df t = .ok ((1 / df - 1) / max t 1e-12) := by
  simp [dfToZero, fmaxG_real, gSmall]

/-- `_df_to_zero`, compounded. -/
theorem dfToZero_comp (f : Int) (hf : f = 1 ∨ f = 2 ∨ f = 4 ∨ f = 12) (df t : ℝ) :
    dfToZero f df t = .ok ((df ^ (-(1 : ℝ) / (max t 1e-12 * (f : ℝ))) - 1) * (f : ℝ)) := by
  rcases hf with h | h | h | h <;> subst h <;>
    simp [dfToZero, annualFreq, fmaxG_real, gSmall] <;> norm_num

/-- The compounding-frequency codes `_zero_to_df` handles: CONTINUOUS, SIMPLE, ANNUAL, SEMI_ANNUAL,
QUARTERLY, MONTHLY. -/
def handledFreqs : List Int := [99, 0, 1, 2, 4, 12]

/-- The set of rates on which `_zero_to_df` is a positive, invertible map (`T` is the floored time). -/
def Admissible (f : Int) (r T : ℝ) : Prop :=
  if f = 99 then True else if f = 0 then 0 < 1 + r * T else 0 < 1 + r / (f : ℝ)

/-- df → rate → df, continuous compounding (no positivity of the time needed beyond the floor). -/
theorem zero_df_roundtrip_cont (df t r : ℝ) (hdf : 0 < df)
    (h : dfToZero 99 df t = .ok r) : zeroToDf 99 r t = .ok df := by
  rw [dfToZero_cont, Except.ok.injEq] at h
  rw [zeroToDf_cont, ← h]
  have hT := maxT_pos t
  have : -(-Real.log df / max t 1e-12) * max t 1e-12 = Real.log df := by field_simp
  rw [this, Real.exp_log hdf]

/-- df → rate → df, simple compounding. -/
theorem zero_df_roundtrip_simple (df t r : ℝ) (hdf : 0 < df)
    (h : dfToZero 0 df t = .ok r) : zeroToDf 0 r t = .ok df := by
  rw [dfToZero_simple, Except.ok.injEq] at h
  rw [zeroToDf_simple, ← h]
  have hT := maxT_pos t
  congr 1
  field_simp
  ring

/-- df → rate → df, compounded `f` times a year (`f ∈ {1, 2, 4, 12}`). -/
theorem zero_df_roundtrip_comp (f : Int) (hf : f = 1 ∨ f = 2 ∨ f = 4 ∨ f = 12) (df t r : ℝ)
    (hdf : 0 < df) (h : dfToZero f df t = .ok r) : zeroToDf f r t = .ok df := by
  rw [dfToZero_comp f hf, Except.ok.injEq] at h
  rw [zeroToDf_comp f hf, ← h]
  have hfpos : (0 : ℝ) < (f : ℝ) := by rcases hf with h | h | h | h <;> subst h <;> norm_num
  rw [comp_df_rate_df df _ _ hdf (maxT_pos t) hfpos]

/-- `zero_df_roundtrip`: for every handled compounding frequency and every time (the code floors it at
`1e-12`), a positive discount factor converted to a zero rate converts back to the same discount factor. -/
theorem zero_df_roundtrip (f : Int) (hf : f ∈ handledFreqs) (df t r : ℝ) (hdf : 0 < df)
    (h : dfToZero f df t = .ok r) : zeroToDf f r t = .ok df := by
  simp only [handledFreqs, List.mem_cons, List.not_mem_nil, or_false] at hf
  rcases hf with rfl | rfl | hf
  · exact zero_df_roundtrip_cont df t r hdf h
  · exact zero_df_roundtrip_simple df t r hdf h
  · exact zero_df_roundtrip_comp f hf df t r hdf h

/-- For `t ≥ 1e-12` the floor is inactive: the rate returned by `_df_to_zero` is the textbook one,
e.g. continuous `r = -log df / t`. -/
theorem dfToZero_cont_of_ge (df t : ℝ) (ht : 1e-12 ≤ t) : dfToZero 99 df t = .ok (-(Real.log df) / t) := by
  rw [dfToZero_cont, max_eq_left ht]

/-- For `t ≥ 1e-12`, `_zero_to_df` is `exp (-r t)` for continuous compounding. -/
theorem zeroToDf_cont_of_ge (r t : ℝ) (ht : 1e-12 ≤ t) : zeroToDf 99 r t = .ok (Real.exp (-r * t)) := by
  rw [zeroToDf_cont, max_eq_left ht]

/-- For `t ≥ 1e-12`, `_zero_to_df` is `1 / (1 + r/f)^(f t)` for compounded rates. -/
theorem zeroToDf_comp_of_ge (f : Int) (hf : f = 1 ∨ f = 2 ∨ f = 4 ∨ f = 12) (r t : ℝ) (ht : 1e-12 ≤ t) :
    zeroToDf f r t = .ok (1 / (1 + r / (f : ℝ)) ^ ((f : ℝ) * t)) := by
  rw [zeroToDf_comp f hf, max_eq_left ht]

/-- For `t ≥ 1e-12`, `_zero_to_df` is `1 / (1 + r t)` for simple compounding. -/
theorem zeroToDf_simple_of_ge (r t : ℝ) (ht : 1e-12 ≤ t) : zeroToDf 0 r t = .ok (1 / (1 + r * t)) := by
  rw [zeroToDf_simple, max_eq_left ht]

/-- For `t ≥ 1e-12`, `_df_to_zero` is `(df^(-1/(t f)) - 1) f` for compounded rates. -/
theorem dfToZero_comp_of_ge (f : Int) (hf : f = 1 ∨ f = 2 ∨ f = 4 ∨ f = 12) (df t : ℝ) (ht : 1e-12 ≤ t) :
    dfToZero f df t = .ok ((df ^ (-(1 : ℝ) / (t * (f : ℝ))) - 1) * (f : ℝ)) := by
  rw [dfToZero_comp f hf, max_eq_left ht]

/-- rate → df → rate, continuous compounding: every rate is admissible. -/
theorem df_zero_roundtrip_cont (r t d : ℝ) (h : zeroToDf 99 r t = .ok d) : dfToZero 99 d t = .ok r := by
  rw [zeroToDf_cont, Except.ok.injEq] at h
  rw [dfToZero_cont, ← h, Real.log_exp]
  have hT := maxT_pos t
  congr 1
  field_simp

/-- rate → df → rate, simple compounding (holds for every rate: `1/(1/x) = x` also at `x = 0` in ℝ's
totalised division; the admissible domain `0 < 1 + r T` is where the df is meaningful). -/
theorem df_zero_roundtrip_simple (r t d : ℝ)
    (h : zeroToDf 0 r t = .ok d) : dfToZero 0 d t = .ok r := by
  rw [zeroToDf_simple, Except.ok.injEq] at h
  rw [dfToZero_simple, ← h]
  have hT := maxT_pos t
  congr 1
  field_simp
  ring

/-- rate → df → rate, compounded, on `0 < 1 + r / f`. -/
theorem df_zero_roundtrip_comp (f : Int) (hf : f = 1 ∨ f = 2 ∨ f = 4 ∨ f = 12) (r t d : ℝ)
    (hadm : 0 < 1 + r / (f : ℝ)) (h : zeroToDf f r t = .ok d) : dfToZero f d t = .ok r := by
  rw [zeroToDf_comp f hf, Except.ok.injEq] at h
  rw [dfToZero_comp f hf, ← h]
  have hfpos : (0 : ℝ) < (f : ℝ) := by rcases hf with h | h | h | h <;> subst h <;> norm_num
  rw [comp_rate_df_rate r _ _ hadm (maxT_pos t) hfpos]

/-- `df_zero_roundtrip`: on the admissible domain a zero rate converted to a discount factor converts
back to the same rate, for every handled compounding frequency. -/
theorem df_zero_roundtrip (f : Int) (hf : f ∈ handledFreqs) (r t d : ℝ)
    (hadm : Admissible f r (max t 1e-12)) (h : zeroToDf f r t = .ok d) : dfToZero f d t = .ok r := by
  simp only [handledFreqs, List.mem_cons, List.not_mem_nil, or_false] at hf
  rcases hf with rfl | rfl | hf
  · exact df_zero_roundtrip_cont r t d h
  · exact df_zero_roundtrip_simple r t d h
  · have h99 : f ≠ 99 := by rcases hf with h | h | h | h <;> subst h <;> decide
    have h0 : f ≠ 0 := by rcases hf with h | h | h | h <;> subst h <;> decide
    exact df_zero_roundtrip_comp f hf r t d (by simpa [Admissible, h99, h0] using hadm) h

/-- `zeroToDf_pos`: on the admissible domain the discount factor is positive. -/
theorem zeroToDf_pos (f : Int) (hf : f ∈ handledFreqs) (r t d : ℝ)
    (hadm : Admissible f r (max t 1e-12)) (h : zeroToDf f r t = .ok d) : 0 < d := by
  simp only [handledFreqs, List.mem_cons, List.not_mem_nil, or_false] at hf
  rcases hf with rfl | rfl | hf
  · rw [zeroToDf_cont, Except.ok.injEq] at h
    rw [← h]; exact Real.exp_pos _
  · rw [zeroToDf_simple, Except.ok.injEq] at h
    have : 0 < 1 + r * max t 1e-12 := by simpa [Admissible] using hadm
    rw [← h]; positivity
  · have h99 : f ≠ 99 := by rcases hf with h | h | h | h <;> subst h <;> decide
    have h0 : f ≠ 0 := by rcases hf with h | h | h | h <;> subst h <;> decide
    have hb : 0 < 1 + r / (f : ℝ) := by simpa [Admissible, h99, h0] using hadm
    rw [zeroToDf_comp f hf, Except.ok.injEq] at h
    rw [← h]
    exact one_div_pos.mpr (Real.rpow_pos_of_pos hb _)

/-- `zeroToDf_total`: `_zero_to_df` never raises for a handled frequency. -/
theorem zeroToDf_total (f : Int) (hf : f ∈ handledFreqs) (r t : ℝ) : ∃ d, zeroToDf f r t = .ok d := by
  simp only [handledFreqs, List.mem_cons, List.not_mem_nil, or_false] at hf
  rcases hf with rfl | rfl | hf
  · exact ⟨_, zeroToDf_cont r t⟩
  · exact ⟨_, zeroToDf_simple r t⟩
  · exact ⟨_, zeroToDf_comp f hf r t⟩

/-- `zeroToDf_unknown_freq`: for ZERO (-1) and TRI_ANNUAL (3) `_zero_to_df` raises `FinError`, while
`_df_to_zero` accepts both (the two directions do not handle the same set of frequencies). -/
theorem zeroToDf_unknown_freq (r t df : ℝ) :
    zeroToDf (-1) r t = .error .finError ∧ zeroToDf 3 r t = .error .finError ∧
    (∃ z, dfToZero (-1) df t = .ok z) ∧ (∃ z, dfToZero 3 df t = .ok z) := by
  refine ⟨by simp [zeroToDf], by simp [zeroToDf], ?_, ?_⟩ <;> simp [dfToZero, annualFreq]

/-- The hypotheses of the round trips are satisfiable: 5 % semi-annual at two years. -/
example : Admissible 2 (0.05 : ℝ) (max 2 1e-12) ∧ (2 : Int) ∈ handledFreqs ∧
    ∃ d, zeroToDf 2 (0.05 : ℝ) 2 = .ok d ∧ 0 < d ∧ dfToZero 2 d 2 = .ok 0.05 := by
  have hadm : Admissible 2 (0.05 : ℝ) (max 2 1e-12) := by simp [Admissible]; norm_num
  have hm : (2 : Int) ∈ handledFreqs := by simp [handledFreqs]
  obtain ⟨d, hd⟩ := zeroToDf_total 2 hm (0.05 : ℝ) 2
  exact ⟨hadm, hm, d, hd, zeroToDf_pos 2 hm _ _ d hadm hd, df_zero_roundtrip 2 hm _ _ d hadm hd⟩

/-! ### 2. forwards -/

/-- `fwd_rate_is_df_ratio`: the simple forward rate over `yf` satisfies `1 + F·yf = df1/df2`. -/
theorem fwd_rate_is_df_ratio (df1 df2 yf : ℝ) (hyf : yf ≠ 0) :
    1 + fwdRate df1 df2 yf * yf = df1 / df2 := by
  unfold fwdRate
  field_simp
  ring

/-- `fwd_is_log_df_ratio`: the one-day continuously compounded forward reproduces the df ratio. -/
theorem fwd_is_log_df_ratio (df1 df2 : ℝ) (h1 : 0 < df1) (h2 : 0 < df2) :
    Real.exp (-(fwdInst df1 df2) * (1 / 365)) = df2 / df1 := by
  have h : -(fwdInst df1 df2) * (1 / 365) = -Real.log (df1 / df2) := by
    simp only [fwdInst, log_real]
    norm_num
  rw [h, Real.exp_neg, Real.exp_log (div_pos h1 h2), inv_div]

/-! ### 3. swap rate -/

/-- `pv01_eq_sum`: the annuity loop is the sum of `alpha_i * df_i`. -/
theorem pv01_eq_sum (flows : List (ℝ × ℝ)) : pv01 flows = (flows.map (fun p => p.1 * p.2)).sum := by
  unfold pv01
  rw [foldl_pv01_acc]; simp

/-- `swap_rate_annuity_identity`: when the annuity is not below the `1e-12` guard,
`swap_rate × pv01 = df(start) − df(last flow)`. -/
theorem swap_rate_annuity_identity (dfStart : ℝ) (flows : List (ℝ × ℝ))
    (hp : ¬ (absG (pv01 flows) < gSmall)) :
    swapRate dfStart flows * pv01 flows = dfStart - ((flows.getLast?.map (·.2)).getD 1) := by
  have hne : pv01 flows ≠ 0 := by
    intro h0
    apply hp
    rw [h0]
    simp [absG, gSmall]
    norm_num
  simp only [swapRate, hp, if_false]
  field_simp

/-- Below the guard the code returns a par rate of exactly 0. -/
theorem swap_rate_guarded (dfStart : ℝ) (flows : List (ℝ × ℝ)) (hp : absG (pv01 flows) < gSmall) :
    swapRate dfStart flows = 0 := by
  simp [swapRate, hp]

/-- The swap-rate hypothesis is satisfiable: one annual flow at df 0.95. -/
example : ¬ (absG (pv01 [((1 : ℝ), (0.95 : ℝ))]) < gSmall) := by
  simp [pv01, absG, gSmall]; norm_num

/-! ### 4. composite curve -/

/-- `composite_df_is_product`: the composite discount factor is the product of the children's. -/
theorem composite_df_is_product (l : List ℝ) : compositeDf l = l.prod := by
  unfold compositeDf
  rw [foldl_mul_acc]; simp

/-- `compositeDf_cons`: adding a child multiplies the composite df by the child's df. -/
theorem compositeDf_cons (x : ℝ) (l : List ℝ) : compositeDf (x :: l) = x * compositeDf l := by
  simp [composite_df_is_product]

/-- `compositeDf_pos`: positive children give a positive composite df. -/
theorem compositeDf_pos (l : List ℝ) (h : ∀ x ∈ l, 0 < x) : 0 < compositeDf l := by
  rw [composite_df_is_product]
  exact List.prod_pos h

/-- `compositeDf_nil`: the empty composite is the unit curve. -/
theorem compositeDf_nil : compositeDf ([] : List ℝ) = 1 := by
  simp [composite_df_is_product]

/-! ### 5. the anchor knot of `DiscountCurve.__init__` -/

/-- `anchor_df_one`: a `DiscountCurve` whose first pillar is after the valuation date has `df(0) = 1`,
for every interpolation method and every pillar list. -/
theorem anchor_df_one (m : Int) (ts vs : List ℝ) :
    uinterp m (dcKnots false ts vs).1 (dcKnots false ts vs).2 0 = .ok 1 := by
  simp [uinterp, dcKnots, g]

/-- `anchor_first_on_valuation`: when the first pillar IS the valuation date, the user's df there
overwrites the anchor: `df(0)` is that value (1 only if the user supplied 1). -/
theorem anchor_first_on_valuation (m : Int) (ts vs : List ℝ) :
    uinterp m (dcKnots true ts vs).1 (dcKnots true ts vs).2 0 = .ok (vs.headD 1) := by
  simp [uinterp, dcKnots, g]

/-- Concrete instance of the overwrite: a first df of 0.9 on the valuation date gives `df(0) = 0.9 ≠ 1`. -/
theorem anchor_overwritten_witness :
    uinterp 1 (dcKnots true [(0 : ℝ), 1] [0.9, 0.8]).1 (dcKnots true [(0 : ℝ), 1] [0.9, 0.8]).2 0 = .ok 0.9 ∧
      (0.9 : ℝ) ≠ 1 := by
  refine ⟨by simpa using anchor_first_on_valuation 1 [(0 : ℝ), 1] [0.9, 0.8], by norm_num⟩

/-! ### 6. witnesses of the known defects of the unchanged code -/

/-- Value of the FLAT_FWD interpolation on the leap-year example at the ACT/ACT-ISDA time of the pillar. -/
theorem leap_pillar_value :
    uinterp 1 [0, 366/365] [1, (0.97:ℝ)] (214/365 + 152/366)
      = .ok (Real.exp (((214/365 + 152/366) / (366/365)) * Real.log 0.97)) := by
  simp [uinterp, locate, search, kernel, guardDiv, anyZero, kFlat, g]
  norm_num
  ring

/-- `leap_pillar_not_reproduced`: curve dated 1-Jun-2019 with one pillar 1-Jun-2020 (knot at 366/365,
df 0.97); queried at the pillar's ACT/ACT-ISDA time `214/365 + 152/366` the curve returns a df
strictly above 0.97 — the pillar is not reproduced. -/
theorem leap_pillar_not_reproduced :
    ∃ v : ℝ, uinterp 1 [0, 366/365] [1, (0.97:ℝ)] (214/365 + 152/366) = .ok v ∧ v ≠ 0.97 ∧ 0.97 < v := by
  refine ⟨_, leap_pillar_value, ?_⟩
  have hlog : Real.log (0.97:ℝ) < 0 := Real.log_neg (by norm_num) (by norm_num)
  have hlt : (0.97:ℝ) < Real.exp (((214/365 + 152/366) / (366/365)) * Real.log 0.97) := by
    have h97 : (0.97:ℝ) = Real.exp (Real.log 0.97) := (Real.exp_log (by norm_num)).symm
    conv_lhs => rw [h97]
    apply Real.exp_lt_exp.mpr
    have : ((214/365 + 152/366) / (366/365) : ℝ) < 1 := by norm_num
    nlinarith
  exact ⟨ne_of_gt hlt, hlt⟩

/-- Negative form: the query at the ACT/ACT time does not return the pillar df. -/
theorem leap_pillar_not_reproduced_neg :
    ¬ (uinterp 1 [0, 366/365] [1, (0.97:ℝ)] (214/365 + 152/366) = .ok 0.97) := by
  obtain ⟨v, hv, hne, _⟩ := leap_pillar_not_reproduced
  intro h
  rw [hv, Except.ok.injEq] at h
  exact hne h

/-- At the knot's own time (ACT/365F, `366/365`) the same pillar IS reproduced. -/
theorem leap_pillar_reproduced_at_knot_time :
    uinterp 1 [0, 366/365] [1, (0.97:ℝ)] (366/365) = .ok 0.97 := by
  simp [uinterp, locate, search, kernel, guardDiv, anyZero, kFlat, g]
  norm_num
  have h : -(-(366 / 365 * Real.log (97 / 100 : ℝ)) / (366 / 365)) = Real.log (97 / 100) := by ring
  rw [h, Real.exp_log (by norm_num)]

/-- The knots `DiscountCurveZeros` builds from continuous zero rates 1 %, 2 % at 1y, 2y: no anchor. -/
theorem zeros_knots_example :
    zerosKnots 99 [(1:ℝ), 2] [0.01, 0.02] = .ok ([1, 2], [Real.exp (-0.01), Real.exp (-0.04)]) := by
  simp [zerosKnots, mapM2, zeroToDf, fmaxG_real, gSmall]
  norm_num

/-- `zeros_first_pillar_after_valuation_df_gt_one`: on those knots `df(0) = exp(0.02) > 1` (the query
left of the first knot takes the wrap-around read `i = 0`). -/
theorem zeros_first_pillar_after_valuation_df_gt_one :
    uinterp 1 [(1:ℝ), 2] [Real.exp (-0.01), Real.exp (-0.04)] 0 = .ok (Real.exp 0.02) ∧
      1 < Real.exp (0.02:ℝ) := by
  constructor
  · simp [uinterp, locate, search, kernel, guardDiv, anyZero, kFlat, g]
    norm_num
  · exact Real.one_lt_exp_iff.mpr (by norm_num)

/-- Negative form: `df(valuation date) = 1` fails for that Zeros curve. -/
theorem zeros_df_at_valuation_ne_one :
    ¬ (uinterp 1 [(1:ℝ), 2] [Real.exp (-0.01), Real.exp (-0.04)] 0 = .ok 1) := by
  intro h
  rw [zeros_first_pillar_after_valuation_df_gt_one.1, Except.ok.injEq] at h
  exact absurd h (ne_of_gt zeros_first_pillar_after_valuation_df_gt_one.2)

/-- `single_knot_errors`: with one knot, every query off the knot fails, whatever the method. -/
theorem single_knot_errors (m : Int) (x d t : ℝ) (h : t ≠ x) :
    ∃ e, uinterp m [x] [d] t = .error e := by
  simp only [uinterp, g, feq_real, List.length_singleton, List.getD_cons_zero, h, decide_false]
  simp
  split_ifs <;> exact ⟨_, rfl⟩

/-- On the single knot itself the df is returned. -/
theorem single_knot_at_knot (m : Int) (x d : ℝ) : uinterp m [x] [d] x = .ok d := by
  simp [uinterp, g]

/-- `pwl_single_pillar_errors`: a PWL curve with a single pillar raises `IndexError` at every time. -/
theorem pwl_single_pillar_errors (x r t : ℝ) : pwlRate [x] [r] t = .error .indexError := by
  simp [pwlRate]

/-! ### 7. pillar selection of the PWF / PWL / PWFONF curves -/


/-- `pwf_pillar_rate`: on a strictly increasing grid the PWF zero rate at pillar `k` is `rates[k]`
(the step function is right-continuous: pillar `k` starts interval `k`; the last pillar reads the last rate). -/
theorem pwf_pillar_rate (times rates : List ℝ) (k : Nat) (hs : times.Pairwise (· < ·))
    (hk : k < times.length) (hlen : rates.length = times.length) (hpos : gSmall ≤ g times k) :
    pwfRate times rates (g times k) = g rates k := by
  cases times with
  | nil => simp at hk
  | cons x l =>
    have hf := findLeft_at_knot l x 0 k hs hk
    simp only [pwfRate, fmaxG_real, max_eq_left hpos, List.drop_one, List.tail_cons]
    simp only [g] at hf ⊢
    rw [hf]
    by_cases h : k < l.length
    · simp [h]
    · have : rates.length - 1 = k := by simp at hk hlen; omega
      simp [h, this]


/-- `pwl_pillar_rate`: on a strictly increasing grid with at least two pillars the PWL zero rate at pillar
`k` is `rates[k]`. -/
theorem pwl_pillar_rate (times rates : List ℝ) (k : Nat) (hs : times.Pairwise (· < ·))
    (hk : k < times.length) (h2 : 2 ≤ times.length) (hlen : rates.length = times.length)
    (hpos : (1e-6 : ℝ) ≤ g times k) :
    pwlRate times rates (g times k) = .ok (g rates k) := by
  cases times with
  | nil => simp at hk
  | cons x l =>
    have hf := findLeft_at_knot l x 0 k hs hk
    have hn : ¬ ((x :: l).length < 2) := by omega
    simp only [pwlRate, fmaxG_real, max_eq_left hpos, List.drop_one, List.tail_cons, hn, if_false]
    simp only [g] at hf ⊢
    rw [hf]
    by_cases h : k < l.length
    · have hlt := getD_lt_getD (x :: l) hs k (k + 1) (by omega) (by simpa using h)
      have hne : (x :: l).getD (k + 1) 0 - (x :: l).getD k 0 ≠ 0 := by linarith
      simp only [h, if_true, Nat.zero_add, Except.ok.injEq]
      field_simp
      ring
    · have : rates.length - 1 = k := by simp at hk hlen; omega
      simp [h, this]

/-- `onf_pillar_df`: the PWFONF curve at pillar `k` returns `exp` of the k-th cumulative log-df
`-Σ_{j≤k} (t_j - t_{j-1}) r_j`. -/
theorem onf_pillar_df (times rates : List ℝ) (k : Nat) (hs : ((0 : ℝ) :: times).Pairwise (· < ·))
    (hk : k < times.length) (hpos : gSmall ≤ g times k) :
    onfDf times rates (g times k) = Real.exp (g (onfLogDfs times rates 0 0) k) := by
  have hk' : k + 1 < ((0 : ℝ) :: times).length := by simpa using hk
  have hc : countLess (g times k) ((0 : ℝ) :: times) = k + 1 := by
    have := countLess_at_knot ((0 : ℝ) :: times) (k + 1) hs hk'
    simpa only [List.getD_cons_succ, g] using this
  have hlt := getD_lt_getD ((0 : ℝ) :: times) hs k (k + 1) (by omega) hk'
  have h0 : (0 : ℝ) < g times k := lt_of_lt_of_le (by norm_num [gSmall]) hpos
  have hhi : (if k + 1 < 1 then 1 else if ((0 : ℝ) :: times).length - 1 < k + 1 then
      ((0 : ℝ) :: times).length - 1 else k + 1) = k + 1 := by
    simp only [List.length_cons] at hk' ⊢
    split_ifs <;> omega
  simp only [onfDf, fmaxG_real, max_eq_left hpos, interp1d, exp_real, hc, hhi]
  simp only [g] at hlt h0 ⊢
  simp only [Nat.add_sub_cancel, List.getD_cons_succ]
  have hne : times.getD k 0 - ((0 : ℝ) :: times).getD k 0 ≠ 0 := by
    simp only [List.getD_cons_succ] at hlt; linarith
  congr 1
  field_simp
  ring

/-- `pwf_pillar_df`: hence the continuous-compounding PWF df at pillar `k` is `exp(-rates[k]·times[k])`. -/
theorem pwf_pillar_df (times rates : List ℝ) (k : Nat) (hs : times.Pairwise (· < ·))
    (hk : k < times.length) (hlen : rates.length = times.length) (hpos : gSmall ≤ g times k) :
    pwfDf 99 times rates (g times k) = .ok (Real.exp (-(g rates k) * g times k)) := by
  have hpos' : (1e-12 : ℝ) ≤ g times k := by simpa [gSmall] using hpos
  rw [pwfDf, pwf_pillar_rate times rates k hs hk hlen hpos, zeroToDf_cont, max_eq_left hpos']

/-- The pillar hypotheses are satisfiable: grid 1y, 2y, 5y, second pillar. -/
example : ([1, 2, 5] : List ℝ).Pairwise (· < ·) ∧ 1 < ([1, 2, 5] : List ℝ).length ∧
    (gSmall : ℝ) ≤ g [1, 2, 5] 1 ∧ (1e-6 : ℝ) ≤ g [1, 2, 5] 1 ∧
    ((0 : ℝ) :: [1, 2, 5]).Pairwise (· < ·) := by
  refine ⟨by simp; norm_num, by simp, by simp [g, gSmall]; norm_num, by simp [g]; norm_num,
    by simp; norm_num⟩

end FinVerif.Props.C02
