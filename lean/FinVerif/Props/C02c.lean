/-
  C02 (part c) — the model meets the source-independent specification `Spec/C02.lean`:
  `_uinterpolate` never raises on the curve's own domain, the anchored curve is `Coherent`
  (anchor, positivity, pillar reproduction), `_zero_to_df` is the textbook compounding formula, and
  `fwd_rate` / `swap_rate` are the forward / par-rate views of the discount function.
-/
import FinVerif.Spec.C02
import FinVerif.Props.C02a
import FinVerif.Props.C02b

namespace FinVerif.Props.C02
open FinVerif FinVerif.Model.C02 FinVerif.Spec.C02

/-! ### 1. totality on the curve's domain -/

/-- `uinterp_total`: on a strictly increasing grid starting at a non-negative time, with positive discount
factors and at least two knots, `_uinterpolate` returns a value (never raises) for every `t ≥ times[0]`
and each of FLAT_FWD_RATES (1), LINEAR_FWD_RATES (2), LINEAR_ZERO_RATES (4). -/
theorem uinterp_total (m : Int) (times dfs : List ℝ) (t : ℝ) (hlen : dfs.length = times.length)
    (hs : times.Pairwise (· < ·)) (hpos : ∀ d ∈ dfs, 0 < d) (hn : 2 ≤ times.length)
    (h0 : 0 ≤ g times 0) (ht : g times 0 ≤ t) (hm : m = 1 ∨ m = 2 ∨ m = 4) :
    ∃ v, uinterp m times dfs t = .ok v := by
  rcases eq_or_lt_of_le ht with ht0 | ht0
  · -- the first knot
    exact ⟨g dfs 0, by rw [← ht0]; exact uinterp_first m times dfs (by omega)⟩
  · rw [uinterp_kernel m times dfs t hn (ne_of_gt ht0)]
    have h01 := g_lt_of_lt times hs 0 1 (by omega) (by omega)
    have hsmall : g times 1 + (1e-10 : ℝ) ≠ 0 := by
      have h : (0 : ℝ) < 1e-10 := by norm_num
      linarith
    by_cases hhi : t ≤ g times (times.length - 1)
    · -- inside the grid: the loop stops at `1 ≤ i < n`
      obtain ⟨s1, s2, _, _, s5⟩ := search_spec times t ht0 hhi
      rw [s5]
      generalize search t times = i at s1 s2
      have hdt := g_sub_ne times hs (i - 1) i (by omega) s2
      have hti := g_ne_zero_of_pos times hs h0 i s1 s2
      rcases hm with rfl | rfl | rfl
      · exact ⟨_, by rw [kernel_m1, if_neg (by omega), if_pos s2, guardDiv_ok1 _ _ hdt]⟩
      · by_cases hi1 : i = 1
        · subst hi1
          exact ⟨_, by rw [kernel_m2, if_pos rfl, guardDiv_ok1 _ _ hsmall]⟩
        · have hdc := g_pos dfs hpos (i - 2) (by omega)
          have hda := g_pos dfs hpos (i - 1) (by omega)
          have hdt2 := g_sub_ne times hs (i - 2) (i - 1) (by omega) (by omega)
          exact ⟨_, by rw [kernel_m2, if_neg hi1, if_neg (by omega), if_pos s2,
            guardDiv_ok4 _ _ _ _ _ hdc.ne' hdt2 hda.ne' hdt]⟩
      · by_cases hi1 : i = 1
        · subst hi1
          exact ⟨_, by rw [kernel_m4, if_pos rfl, guardDiv_ok2 _ _ _ hti hdt]⟩
        · have hta := g_ne_zero_of_pos times hs h0 (i - 1) (by omega) (by omega)
          exact ⟨_, by rw [kernel_m4, if_neg hi1, if_neg (by omega), if_pos s2,
            guardDiv_ok3 _ _ _ _ hta hti hdt]⟩
    · -- right of the last knot: extrapolation branch `i = n`
      rw [locate_right times hs t (not_le.mp hhi)]
      have hdt := g_sub_ne times hs (times.length - 2) (times.length - 1) (by omega) (by omega)
      have hta := g_ne_zero_of_pos times hs h0 (times.length - 1) (by omega) (by omega)
      have hdc := g_pos dfs hpos (times.length - 2) (by omega)
      rcases hm with rfl | rfl | rfl
      · exact ⟨_, by rw [kernel_m1, if_neg (by omega), if_neg (lt_irrefl _), guardDiv_ok1 _ _ hdt]⟩
      · exact ⟨_, by rw [kernel_m2, if_neg (by omega), if_neg (by omega), if_neg (lt_irrefl _),
          guardDiv_ok2 _ _ _ hdc.ne' hdt]⟩
      · exact ⟨_, by rw [kernel_m4, if_neg (by omega), if_neg (by omega), if_neg (lt_irrefl _),
          guardDiv_ok2 _ _ _ hta hdt]⟩

/-! ### 2. the anchored curve is coherent -/

/-- The discount function of year-time computed by the model (`0` stands for "raised"; by `uinterp_total`
this value is never taken on the curve's domain). -/
noncomputable def curveFn (m : Int) (times dfs : List ℝ) (t : ℝ) : ℝ :=
  match uinterp m times dfs t with
  | .ok v => v
  | .error _ => 0

theorem curveFn_of_ok (m : Int) (times dfs : List ℝ) (t v : ℝ) (h : uinterp m times dfs t = .ok v) :
    curveFn m times dfs t = v := by
  simp only [curveFn, h]

/-- `model_coherent`: FLAT_FWD_RATES and LINEAR_ZERO_RATES on a strictly increasing grid anchored at
`(0, 1)` with positive discount factors give a `Coherent` discount function: `D 0 = 1`, `D > 0` on
`[0, ∞)`, and every pillar is reproduced. -/
theorem model_coherent (m : Int) (times dfs : List ℝ) (hm : m = 1 ∨ m = 4)
    (hlen : dfs.length = times.length) (hs : times.Pairwise (· < ·)) (hpos : ∀ d ∈ dfs, 0 < d)
    (hn : 2 ≤ times.length) (ht0 : g times 0 = 0) (hd0 : g dfs 0 = 1) :
    Coherent (curveFn m times dfs) times dfs := by
  have hm3 : m = 1 ∨ m = 2 ∨ m = 4 := by rcases hm with h | h <;> simp [h]
  refine ⟨?_, ?_, ?_⟩
  · have := uinterp_first m times dfs (by omega)
    rw [ht0, hd0] at this
    exact curveFn_of_ok m times dfs 0 1 this
  · intro t ht
    obtain ⟨v, hv⟩ := uinterp_total m times dfs t hlen hs hpos hn ht0.ge (by rw [ht0]; exact ht) hm3
    rw [curveFn_of_ok m times dfs t v hv]
    exact interp_pos m times dfs t v hv hpos hlen
  · intro k hk
    have := interp_at_knot m times dfs hlen hs hpos ht0.ge hn k hk
      (by rcases hm with h | h <;> simp [h])
    exact curveFn_of_ok m times dfs _ _ this

/-- `model_coherent_anchor`: the knots `DiscountCurve.__init__` builds from pillars strictly after the
valuation date (anchor `(0, 1)` prepended) are coherent for the pillar set `(0, 1) :: pillars`. -/
theorem model_coherent_anchor (m : Int) (ts vs : List ℝ) (hm : m = 1 ∨ m = 4)
    (hlen : vs.length = ts.length) (hs : ts.Pairwise (· < ·)) (hpos : ∀ d ∈ vs, 0 < d)
    (hn : 1 ≤ ts.length) (hfirst : 0 < g ts 0) :
    Coherent (curveFn m (dcKnots false ts vs).1 (dcKnots false ts vs).2) (0 :: ts) (1 :: vs) := by
  have hk : dcKnots false ts vs = (0 :: ts, 1 :: vs) := by simp [dcKnots]
  rw [hk]
  refine model_coherent m (0 :: ts) (1 :: vs) hm (by simp [hlen]) ?_ ?_ (by simp; omega) (by simp)
    (by simp)
  · refine List.pairwise_cons.mpr ⟨?_, hs⟩
    intro x hx
    obtain ⟨k, hk, rfl⟩ := List.getElem_of_mem hx
    rw [← g_eq_getElem ts k hk]
    exact lt_of_lt_of_le hfirst (g_le_of_le ts hs 0 k (by omega) hk)
  · intro d hd
    rcases List.mem_cons.mp hd with rfl | hd
    · exact one_pos
    · exact hpos d hd

/-- The hypotheses of `model_coherent` are satisfiable: `times = [0, 1, 2]`, `dfs = [1, 0.99, 0.97]`. -/
example : Coherent (curveFn 1 [0, 1, 2] [1, 0.99, 0.97]) [0, 1, 2] [1, 0.99, 0.97] :=
  model_coherent 1 [0, 1, 2] [1, 0.99, 0.97] (Or.inl rfl) rfl (by simp) (by simp; norm_num) (by simp)
    (by simp) (by simp)

/-- The same curve through the constructor rule: pillars `(1, 0.99), (2, 0.97)` after the valuation date. -/
example : Coherent (curveFn 4 (dcKnots false [1, 2] [0.99, 0.97]).1 (dcKnots false [1, 2] [0.99, 0.97]).2)
    [0, 1, 2] [1, 0.99, 0.97] :=
  model_coherent_anchor 4 [1, 2] [0.99, 0.97] (Or.inr rfl) rfl (by simp) (by simp; norm_num) (by simp)
    (by simp)

/-! #### LINEAR_FWD_RATES: the full statement fails at the second pillar, the rest holds -/

/-- The full coherence statement for LINEAR_FWD_RATES (method 2) under the same hypotheses. -/
def LinFwdCoherent : Prop :=
  ∀ times dfs : List ℝ, dfs.length = times.length → times.Pairwise (· < ·) → (∀ d ∈ dfs, 0 < d) →
    2 ≤ times.length → g times 0 = 0 → g dfs 0 = 1 → Coherent (curveFn 2 times dfs) times dfs

/-- `linfwd_not_coherent`: it is false — on `times = [0, 1, 2]`, `dfs = [1, 1 - 1e-10, 0.97]` the
first-interval formula with its `small = 1e-10` guards returns `1` at `t = 1`, not the pillar `1 - 1e-10`. -/
theorem linfwd_not_coherent : ¬ LinFwdCoherent := by
  intro h
  have hc := h [0, 1, 2] [1, 1 - 1e-10, 0.97] rfl (by simp) (by simp; norm_num) (by simp) (by simp) (by simp)
  have hp := hc.pillars 1 (by simp)
  have hv := interp_at_knot_linfwd_first [0, 1, 2] [1, 1 - 1e-10, 0.97] (by simp) (by simp) (by simp)
  have e : ((1 : ℝ) - 1e-10 + 1e-10) = 1 := by norm_num
  simp only [g, List.getD_cons_succ, List.getD_cons_zero, e, Real.log_one, neg_zero, mul_zero, zero_div,
    Real.exp_zero] at hv
  simp only [List.getD_cons_succ, List.getD_cons_zero] at hp
  rw [curveFn_of_ok 2 _ _ 1 1 hv] at hp
  norm_num at hp

/-- `model_coherent_linfwd_partial`: what does hold for LINEAR_FWD_RATES — anchor, positivity, and every
pillar except the second (`k = 1`, reproduced only up to the `1e-10` guards). -/
theorem model_coherent_linfwd_partial (times dfs : List ℝ)
    (hlen : dfs.length = times.length) (hs : times.Pairwise (· < ·)) (hpos : ∀ d ∈ dfs, 0 < d)
    (hn : 2 ≤ times.length) (ht0 : g times 0 = 0) (hd0 : g dfs 0 = 1) :
    curveFn 2 times dfs 0 = 1 ∧ (∀ t, 0 ≤ t → 0 < curveFn 2 times dfs t) ∧
      ∀ k, k < times.length → k ≠ 1 → curveFn 2 times dfs (times.getD k 0) = dfs.getD k 0 := by
  refine ⟨?_, ?_, ?_⟩
  · have := uinterp_first 2 times dfs (by omega)
    rw [ht0, hd0] at this
    exact curveFn_of_ok 2 times dfs 0 1 this
  · intro t ht
    obtain ⟨v, hv⟩ := uinterp_total 2 times dfs t hlen hs hpos hn ht0.ge (by rw [ht0]; exact ht)
      (Or.inr (Or.inl rfl))
    rw [curveFn_of_ok 2 times dfs t v hv]
    exact interp_pos 2 times dfs t v hv hpos hlen
  · intro k hk hk1
    have := interp_at_knot 2 times dfs hlen hs hpos ht0.ge hn k hk (Or.inr (Or.inr ⟨rfl, hk1⟩))
    exact curveFn_of_ok 2 times dfs _ _ this

/-! ### 3. `_zero_to_df` is the textbook compounding formula (time floored at `1e-12`) -/

/-- the frequency code of `_zero_to_df` for each convention (`FrequencyTypes.*.value`). -/
def freqCode : Compounding → Int
  | .continuous => 99
  | .simple => 0
  | .periodic f => (f : Int)

theorem zeroToDf_meets_spec_cont (r t : ℝ) :
    zeroToDf 99 r t = .ok (dfOfRate .continuous r (max t 1e-12)) := by
  rw [zeroToDf_cont, dfOfRate, neg_mul]

theorem zeroToDf_meets_spec_simple (r t : ℝ) :
    zeroToDf 0 r t = .ok (dfOfRate .simple r (max t 1e-12)) := by
  rw [zeroToDf_simple, dfOfRate]

theorem zeroToDf_meets_spec_periodic (f : ℕ) (hf : f = 1 ∨ f = 2 ∨ f = 4 ∨ f = 12) (r t : ℝ) :
    zeroToDf (f : Int) r t = .ok (dfOfRate (.periodic f) r (max t 1e-12)) := by
  rw [zeroToDf_comp (f : Int) (by omega), dfOfRate, Int.cast_natCast]

/-- `zeroToDf_meets_spec`: for continuous, simple and `f ∈ {1, 2, 4, 12}` periodic compounding the model's
`_zero_to_df` returns the specification's discount factor at the floored time. -/
theorem zeroToDf_meets_spec (c : Compounding)
    (hc : ∀ f, c = .periodic f → f = 1 ∨ f = 2 ∨ f = 4 ∨ f = 12) (r t : ℝ) :
    zeroToDf (freqCode c) r t = .ok (dfOfRate c r (max t 1e-12)) := by
  cases c with
  | continuous => exact zeroToDf_meets_spec_cont r t
  | simple => exact zeroToDf_meets_spec_simple r t
  | periodic f => exact zeroToDf_meets_spec_periodic f (hc f rfl) r t

/-- On a non-negative base and `t ≥ 1e-12` the periodic df is `(1 + r/f)^(-(f t))`. -/
theorem zeroToDf_periodic_rpow_neg (f : ℕ) (hf : f = 1 ∨ f = 2 ∨ f = 4 ∨ f = 12) (r t : ℝ)
    (hb : 0 ≤ 1 + r / (f : ℝ)) (ht : 1e-12 ≤ t) :
    zeroToDf (f : Int) r t = .ok ((1 + r / (f : ℝ)) ^ (-((f : ℝ) * t))) := by
  rw [zeroToDf_meets_spec_periodic f hf, dfOfRate_periodic_neg f r _ hb, max_eq_left ht]

/-! ### 4. forward and par swap rates are views of the discount function -/

/-- `fwdRate_meets_spec`: the model's `fwd_rate` computed from `D(t1)`, `D(t2)` is the simple forward rate
of `D` over a non-zero accrual fraction. -/
theorem fwdRate_meets_spec (D : ℝ → ℝ) (t1 t2 alpha : ℝ) (ha : alpha ≠ 0) :
    IsFwdRate D t1 t2 alpha (fwdRate (D t1) (D t2) alpha) :=
  fwd_rate_is_df_ratio (D t1) (D t2) alpha ha

/-- the flows `(alpha, df)` the model's `swap_rate` loop sees for a schedule `(alpha, time)` on `D`. -/
def dfFlows (D : ℝ → ℝ) (flows : List (ℝ × ℝ)) : List (ℝ × ℝ) := flows.map (fun p => (p.1, D p.2))

theorem pv01_dfFlows (D : ℝ → ℝ) (flows : List (ℝ × ℝ)) :
    pv01 (dfFlows D flows) = (flows.map (fun p => p.1 * D p.2)).sum := by
  rw [pv01_eq_sum, dfFlows, List.map_map]
  rfl

/-- `swapRate_meets_spec`: the model's `swap_rate` on the discount factors of `D` is the par rate of the
schedule, provided the schedule is non-empty and the annuity is not below the code's `1e-12` guard. -/
theorem swapRate_meets_spec (D : ℝ → ℝ) (tStart : ℝ) (flows : List (ℝ × ℝ)) (hne : flows ≠ [])
    (hp : ¬ (absG (pv01 (dfFlows D flows)) < gSmall)) :
    IsParRate D tStart flows (swapRate (D tStart) (dfFlows D flows)) := by
  refine ⟨hne, ?_⟩
  have h := swap_rate_annuity_identity (D tStart) (dfFlows D flows) hp
  rw [pv01_dfFlows] at h
  rw [h]
  congr 1
  simp only [dfFlows, List.getLast?_map, List.getLast?_eq_some_getLast hne, Option.map_some,
    Option.getD_some]

/-- The swap-rate hypotheses are satisfiable: one annual flow at `t = 1` on `D t = exp (-0.05 t)`. -/
example : ([((1 : ℝ), (1 : ℝ))] : List (ℝ × ℝ)) ≠ [] ∧
    ¬ (absG (pv01 (dfFlows (fun t => Real.exp (-0.05 * t)) [((1 : ℝ), (1 : ℝ))])) < gSmall) := by
  refine ⟨by simp, ?_⟩
  have h : (1 : ℝ) / 2 < Real.exp (-0.05 * 1) := by
    have := Real.add_one_le_exp (-0.05 * 1 : ℝ)
    norm_num at this ⊢
    linarith
  have hpos : ¬ Real.exp (-0.05 * 1) < 0 := not_lt.mpr (Real.exp_pos _).le
  simp only [dfFlows, List.map_cons, List.map_nil, pv01, List.foldl_cons, List.foldl_nil, absG, gSmall,
    zero_add, one_mul, hpos, if_false, not_lt]
  have : (1e-12 : ℝ) ≤ 1 / 2 := by norm_num
  linarith

end FinVerif.Props.C02
