/-
  C02 (part d, growth round) — the rate-parameterised curve classes.

  1. the GENERATED text of `DiscountCurveNS._zero_rate`, `DiscountCurveNSS._zero_rate`, `DiscountCurve._zero_to_df`
     (`Gen/CurvesR.lean`, re-translated from /repo on every run) equals the hand-written model of `Model/C02.lean`:
     every theorem of C02b/C02c about `nsRate`, `nssRate`, `zeroToDf` is a theorem about the source text;
  2. Nelson-Siegel(-Svensson) closed forms; 3. the polynomial curve's loop is the polynomial;
  4. `zero_rate(freq, dc)` of those classes is a view of the same discount factor (intermediate df in the CURVE's
     frequency); 5. the SIMPLE-compounding domain, monotonicity in time, the value at the valuation date.
-/
import FinVerif.Gen.CurvesR
import FinVerif.Model.C02Ext
import FinVerif.Props.C02b
import Mathlib.Tactic.Ring
import Mathlib.Tactic.FieldSimp
import Mathlib.Tactic.Linarith
import Mathlib.Tactic.NormNum
import Mathlib.Tactic.Positivity

namespace FinVerif.Props.C02
open FinVerif FinVerif.Model.C02 FinVerif.Gen

/-! ### 1. generated source text = hand-written model -/

/-- `ns_gen_eq_model`: the translation of `DiscountCurveNS._zero_rate` is the model's `nsRate`. -/
theorem ns_gen_eq_model (t b0 b1 b2 tau : ℝ) :
    CurvesR.ns_zero_rate t b0 b1 b2 tau = nsRate b0 b1 b2 tau t := by
  simp only [CurvesR.ns_zero_rate, nsRate, fmaxG_real, gSmall, exp_real]

/-- `nss_gen_eq_model`: the translation of `DiscountCurveNSS._zero_rate` is the model's `nssRate`. -/
theorem nss_gen_eq_model (t b0 b1 b2 b3 tau1 tau2 : ℝ) :
    CurvesR.nss_zero_rate t b0 b1 b2 b3 tau1 tau2 = nssRate b0 b1 b2 b3 tau1 tau2 t := by
  simp only [CurvesR.nss_zero_rate, nssRate, fmaxG_real, gSmall, exp_real]

/-- `zero_to_df_gen_eq_model`: the translation of `DiscountCurve._zero_to_df` is the model's `zeroToDf`, for EVERY
frequency code (handled or not), `f_in` being `annual_frequency(freq_type)` where that number is used. -/
theorem zero_to_df_gen_eq_model (f : Int) (r t fin : ℝ)
    (hfin : f = 1 ∨ f = 2 ∨ f = 4 ∨ f = 12 → fin = (f : ℝ)) :
    CurvesR.zero_to_df r t f fin = zeroToDf f r t := by
  by_cases h99 : f = 99
  · subst h99; simp [CurvesR.zero_to_df, zeroToDf, fmaxG_real, gSmall]
  by_cases h0 : f = 0
  · subst h0; simp [CurvesR.zero_to_df, zeroToDf, fmaxG_real, gSmall]
  by_cases hc : f = 1 ∨ f = 2 ∨ f = 4 ∨ f = 12
  · have hf := hfin hc
    rw [zeroToDf_comp f hc, hf]
    rcases hc with h | h | h | h <;> subst h <;>
      simp [CurvesR.zero_to_df, Real.rpow_eq_pow]
  · have h1 : f ≠ 1 := fun h => hc (Or.inl h)
    have h2 : f ≠ 2 := fun h => hc (Or.inr (Or.inl h))
    have h4 : f ≠ 4 := fun h => hc (Or.inr (Or.inr (Or.inl h)))
    have h12 : f ≠ 12 := fun h => hc (Or.inr (Or.inr (Or.inr h)))
    simp [CurvesR.zero_to_df, zeroToDf, h99, h0, h1, h2, h4, h12]

/-- The generated NS / NSS discount factor (`df = _zero_to_df(_zero_rate(t), t, self.freq_type)`), continuous
compounding, in closed form: `exp(-R(t)·t)` with the generated zero rate. -/
theorem ns_gen_df_cont (t b0 b1 b2 tau : ℝ) :
    CurvesR.zero_to_df (CurvesR.ns_zero_rate t b0 b1 b2 tau) t 99 (-1)
      = .ok (Real.exp (-(nsRate b0 b1 b2 tau t) * max t 1e-12)) := by
  rw [zero_to_df_gen_eq_model 99 _ _ _ (by omega), ns_gen_eq_model, zeroToDf_cont]

/-! ### 2. Nelson-Siegel / Svensson closed forms -/

/-- `ns_rate_closed_form`: the textbook Nelson-Siegel form
`R = β0 + (β1 + β2)·(1 − e^{−θ})/θ − β2·e^{−θ}`, `θ = max(t, 1e-12)/τ`. -/
theorem ns_rate_closed_form (b0 b1 b2 tau t : ℝ) :
    nsRate b0 b1 b2 tau t =
      b0 + (b1 + b2) * ((1 - Real.exp (-(max t 1e-12 / tau))) / (max t 1e-12 / tau))
        - b2 * Real.exp (-(max t 1e-12 / tau)) := by
  simp only [nsRate, fmaxG_real, gSmall, exp_real]
  ring

/-- `nss_reduces_to_ns`: with `β3 = 0` the Svensson curve is the Nelson-Siegel curve on `τ1`. -/
theorem nss_reduces_to_ns (b0 b1 b2 tau1 tau2 t : ℝ) :
    nssRate b0 b1 b2 0 tau1 tau2 t = nsRate b0 b1 b2 tau1 t := by
  simp only [nssRate, nsRate, fmaxG_real, gSmall, exp_real]
  ring

/-- `nss_is_ns_plus_hump`: the Svensson rate is the NS rate plus the second hump `β3·((1 − e^{−θ2})/θ2 − e^{−θ2})`,
the hump being computed on `τ2`. -/
theorem nss_is_ns_plus_hump (b0 b1 b2 b3 tau1 tau2 t : ℝ) :
    nssRate b0 b1 b2 b3 tau1 tau2 t = nsRate b0 b1 b2 tau1 t
      + b3 * ((1 - Real.exp (-(max t 1e-12 / tau2))) / (max t 1e-12 / tau2) - Real.exp (-(max t 1e-12 / tau2))) := by
  simp only [nssRate, nsRate, fmaxG_real, gSmall, exp_real]

/-- `ns_level_only`: with `β1 = β2 = 0` the zero rate is the level `β0` at every time — the curve is the flat curve. -/
theorem ns_level_only (b0 tau t : ℝ) : nsRate b0 0 0 tau t = b0 := by
  simp [nsRate]

/-- hence its discount factor is the flat curve's, for every compounding frequency. -/
theorem ns_level_only_df (f : Int) (b0 tau t : ℝ) :
    zeroToDf f (nsRate b0 0 0 tau t) t = zeroToDf f b0 t := by
  rw [ns_level_only]

/-- `ns_linear_in_betas`: the NS zero rate is linear in `(β0, β1, β2)`. -/
theorem ns_linear_in_betas (b0 b1 b2 c0 c1 c2 tau t : ℝ) :
    nsRate (b0 + c0) (b1 + c1) (b2 + c2) tau t = nsRate b0 b1 b2 tau t + nsRate c0 c1 c2 tau t := by
  simp only [nsRate, fmaxG_real, gSmall, exp_real]
  ring

/-- the slope loading `(1 − e^{−θ})/θ` lies in `[0, 1]` for `θ > 0`. -/
theorem ns_loading_bounds (th : ℝ) (hth : 0 < th) :
    0 ≤ (1 - Real.exp (-th)) / th ∧ (1 - Real.exp (-th)) / th ≤ 1 := by
  have h1 : Real.exp (-th) ≤ 1 := Real.exp_le_one_iff.mpr (by linarith)
  have h2 : -th + 1 ≤ Real.exp (-th) := Real.add_one_le_exp (-th)
  constructor
  · exact div_nonneg (by linarith) hth.le
  · rw [div_le_one hth]; linarith

/-- `ns_rate_bounds`: level + slope only (`β2 = 0`, `β1 ≥ 0`, `τ > 0`): the zero rate stays between the long rate
`β0` and the short rate `β0 + β1`, at every time. -/
theorem ns_rate_bounds (b0 b1 tau t : ℝ) (htau : 0 < tau) (hb1 : 0 ≤ b1) :
    b0 ≤ nsRate b0 b1 0 tau t ∧ nsRate b0 b1 0 tau t ≤ b0 + b1 := by
  have hth : 0 < max t 1e-12 / tau := div_pos (maxT_pos t) htau
  obtain ⟨hl, hu⟩ := ns_loading_bounds _ hth
  rw [ns_rate_closed_form]
  simp only [add_zero, zero_mul, sub_zero]
  constructor
  · nlinarith [mul_nonneg hb1 hl]
  · nlinarith [mul_le_mul_of_nonneg_left hu hb1]

/-- The hypotheses of `ns_rate_bounds` are satisfiable, and the bound is attained in the limit only:
`β0 = 3 %`, `β1 = 2 %`, `τ = 2`. -/
example : (0.03 : ℝ) ≤ nsRate (0.03 : ℝ) 0.02 0 2 5 ∧ nsRate (0.03 : ℝ) 0.02 0 2 5 ≤ 0.03 + 0.02 :=
  ns_rate_bounds 0.03 0.02 2 5 (by norm_num) (by norm_num)

/-! ### 3. the polynomial curve -/

/-- the loop `zero_rate += c[n] * np.power(t, n)` with a general accumulator and start index. -/
theorem polyRateAux_eq (T : ℝ) : ∀ (cs : List ℝ) (k : ℕ) (acc : ℝ),
    polyRateAux T cs (k : ℝ) acc = acc + ((cs.zipIdx k).map (fun p => p.1 * T ^ p.2)).sum := by
  intro cs
  induction cs with
  | nil => intro k acc; simp [polyRateAux]
  | cons c cs ih =>
    intro k acc
    have hk : ((k : ℝ) + 1) = ((k + 1 : ℕ) : ℝ) := by push_cast; ring
    simp only [polyRateAux, pow_real, List.zipIdx_cons, List.map_cons, List.sum_cons]
    rw [hk, ih (k + 1), Real.rpow_natCast]
    ring

/-- `poly_rate_eq_sum`: `DiscountCurvePoly._zero_rate` is the polynomial `Σ c_n T^n` in the floored time. -/
theorem poly_rate_eq_sum (cs : List ℝ) (t : ℝ) :
    polyRate cs t = (cs.zipIdx.map (fun p => p.1 * (max t 1e-12) ^ p.2)).sum := by
  have h := polyRateAux_eq (max t 1e-12) cs 0 0
  simp only [Nat.cast_zero, zero_add] at h
  simp only [polyRate, fmaxG_real, gSmall]
  exact h

/-- a constant polynomial is the flat curve. -/
theorem poly_rate_const (c t : ℝ) : polyRate [c] t = c := by
  rw [poly_rate_eq_sum]; simp

/-- a linear polynomial: `c0 + c1·T`. -/
theorem poly_rate_linear (c0 c1 t : ℝ) : polyRate [c0, c1] t = c0 + c1 * max t 1e-12 := by
  rw [poly_rate_eq_sum]; simp [List.zipIdx_cons]

/-- the cubic the class documents: `c0 + c1 T + c2 T² + c3 T³`. -/
theorem poly_rate_cubic (c0 c1 c2 c3 t : ℝ) :
    polyRate [c0, c1, c2, c3] t
      = c0 + c1 * max t 1e-12 + c2 * (max t 1e-12) ^ 2 + c3 * (max t 1e-12) ^ 3 := by
  rw [poly_rate_eq_sum]; simp [List.zipIdx_cons]; ring

/-! ### 4. `zero_rate(freq, dc)` is a view of the same discount factor -/

/-- `zero_rate_view_roundtrip`: the zero rate a rate-parameterised curve reports in ANY handled frequency `fa` at
ANY requested day-count time `ta` converts back (same frequency, same time) to the curve's own discount factor —
the one computed with the curve's frequency `fc` at the curve's time `tc`. -/
theorem zero_rate_view_roundtrip (fc fa : Int) (hfa : fa ∈ handledFreqs) (rate tc ta z d : ℝ)
    (hd : zeroToDf fc rate tc = .ok d) (hpos : 0 < d)
    (hz : zeroRateView fc fa rate tc ta = .ok z) : zeroToDf fa z ta = .ok d := by
  simp only [zeroRateView, hd] at hz
  exact zero_df_roundtrip fa hfa d ta z hpos hz

/-- `zero_rate_view_same_convention`: asked in the curve's own frequency and day count, `zero_rate` returns the
parametric rate itself (on the admissible domain). -/
theorem zero_rate_view_same_convention (f : Int) (hf : f ∈ handledFreqs) (rate t : ℝ)
    (hadm : Admissible f rate (max t 1e-12)) : zeroRateView f f rate t t = .ok rate := by
  obtain ⟨d, hd⟩ := zeroToDf_total f hf rate t
  simp only [zeroRateView, hd]
  exact df_zero_roundtrip f hf rate t d hadm hd

/-- `zero_rate_view_total`: the view never raises when both frequencies are handled. -/
theorem zero_rate_view_total (fc fa : Int) (hfc : fc ∈ handledFreqs) (hfa : fa ∈ handledFreqs) (rate tc ta : ℝ) :
    ∃ z, zeroRateView fc fa rate tc ta = .ok z := by
  obtain ⟨d, hd⟩ := zeroToDf_total fc hfc rate tc
  simp only [zeroRateView, hd]
  simp only [handledFreqs, List.mem_cons, List.not_mem_nil, or_false] at hfa
  rcases hfa with rfl | rfl | hfa
  · exact ⟨_, dfToZero_cont d ta⟩
  · exact ⟨_, dfToZero_simple d ta⟩
  · exact ⟨_, dfToZero_comp fa hfa d ta⟩

/-- `zero_rate_view_uses_curve_frequency`: the intermediate discount factor is built with the CURVE's frequency.
A curve quoted ANNUAL at 10 % for one year, asked for its CONTINUOUS zero rate, answers `log 1.1`, not `0.1`
(which is what converting the rate with the requested frequency in both directions would return). -/
theorem zero_rate_view_uses_curve_frequency :
    zeroRateView 1 99 (0.1 : ℝ) 1 1 = .ok (Real.log 1.1) ∧ Real.log (1.1 : ℝ) ≠ 0.1 := by
  constructor
  · have hm : max (1 : ℝ) 1e-12 = 1 := max_eq_left (by norm_num)
    simp only [zeroRateView, zeroToDf_comp 1 (Or.inl rfl), dfToZero_cont, hm]
    norm_num
    rw [← Real.log_inv]
    norm_num
  · have h := Real.log_lt_sub_one_of_pos (x := (1.1 : ℝ)) (by norm_num) (by norm_num)
    intro h'
    rw [h'] at h
    norm_num at h

/-- The hypotheses of `zero_rate_view_roundtrip` are satisfiable: NS rate on an ANNUAL curve viewed QUARTERLY. -/
example : ∃ d z : ℝ, zeroToDf 1 (nsRate (0.03 : ℝ) 0.01 0 2 5) 5 = .ok d ∧ 0 < d ∧
    zeroRateView 1 4 (nsRate (0.03 : ℝ) 0.01 0 2 5) 5 5 = .ok z ∧ zeroToDf 4 z 5 = .ok d := by
  have hb := ns_rate_bounds 0.03 0.01 2 5 (by norm_num) (by norm_num)
  have h1 : (1 : Int) ∈ handledFreqs := by simp [handledFreqs]
  have h4 : (4 : Int) ∈ handledFreqs := by simp [handledFreqs]
  obtain ⟨d, hd⟩ := zeroToDf_total 1 h1 (nsRate 0.03 0.01 0 2 5) 5
  obtain ⟨z, hz⟩ := zero_rate_view_total 1 4 h1 h4 (nsRate 0.03 0.01 0 2 5) 5 5
  have hadm : Admissible 1 (nsRate 0.03 0.01 0 2 5) (max 5 1e-12) := by
    simp only [Admissible]; norm_num; linarith [hb.1]
  have hpos := zeroToDf_pos 1 h1 _ _ d hadm hd
  exact ⟨d, z, hd, hpos, hz, zero_rate_view_roundtrip 1 4 h4 _ 5 5 z d hd hpos hz⟩

/-! ### 5. SIMPLE compounding: the admissible domain; monotonicity in time; the valuation date -/

/-- `zeroToDf_simple_pos_iff`: away from the pole `1 + r·T = 0`, the SIMPLE rule `1/(1 + r·T)` gives a positive
discount factor exactly on the admissible domain `1 + r·T > 0`.  (The pole is excluded from the statement on purpose:
there NumPy returns `inf`, the real-number model `1/0 = 0`; the proof does not need the hypothesis.) -/
theorem zeroToDf_simple_pos_iff (r t d : ℝ) (_hne : 1 + r * max t 1e-12 ≠ 0)
    (h : zeroToDf 0 r t = .ok d) : 0 < d ↔ 0 < 1 + r * max t 1e-12 := by
  rw [zeroToDf_simple, Except.ok.injEq] at h
  rw [← h, one_div, inv_pos]

/-- `zeroToDf_simple_neg_outside`: outside the domain (`1 + r·T < 0`) the documented rule itself returns a NEGATIVE
number — the code computes what the rule says; no positive discount factor exists for such a simple rate. -/
theorem zeroToDf_simple_neg_outside (r t d : ℝ) (hout : 1 + r * max t 1e-12 < 0)
    (h : zeroToDf 0 r t = .ok d) : d < 0 := by
  rw [zeroToDf_simple, Except.ok.injEq] at h
  rw [← h, one_div, inv_lt_zero]
  exact hout

/-- The outside-domain hypothesis is satisfiable: −1.8 % simple at 60 years (`1 − 0.018·60 = −0.08`). -/
example : (1 : ℝ) + (-0.018) * max 60 1e-12 < 0 := by
  rw [max_eq_left (by norm_num)]; norm_num

/-- `zeroToDf_antitone_in_t`: for a non-negative rate the discount factor of EVERY handled compounding frequency is
non-increasing in time (the flat curve, and each flat piece of a PWF curve, is monotone iff its rate is ≥ 0). -/
theorem zeroToDf_antitone_in_t (f : Int) (hf : f ∈ handledFreqs) (r t1 t2 d1 d2 : ℝ) (hr : 0 ≤ r) (ht : t1 ≤ t2)
    (h1 : zeroToDf f r t1 = .ok d1) (h2 : zeroToDf f r t2 = .ok d2) : d2 ≤ d1 := by
  have hT : max t1 1e-12 ≤ max t2 1e-12 := max_le_max ht le_rfl
  have hT1 := maxT_pos t1
  simp only [handledFreqs, List.mem_cons, List.not_mem_nil, or_false] at hf
  rcases hf with rfl | rfl | hf
  · rw [zeroToDf_cont, Except.ok.injEq] at h1 h2
    rw [← h1, ← h2]
    apply Real.exp_le_exp.mpr
    nlinarith
  · rw [zeroToDf_simple, Except.ok.injEq] at h1 h2
    rw [← h1, ← h2]
    have hp1 : 0 < 1 + r * max t1 1e-12 := by positivity
    exact one_div_le_one_div_of_le hp1 (by nlinarith)
  · rw [zeroToDf_comp f hf, Except.ok.injEq] at h1 h2
    rw [← h1, ← h2]
    have hfpos : (0 : ℝ) < (f : ℝ) := by rcases hf with h | h | h | h <;> subst h <;> norm_num
    have hb : 1 ≤ 1 + r / (f : ℝ) := by
      have : 0 ≤ r / (f : ℝ) := div_nonneg hr hfpos.le
      linarith
    have hp : 0 < (1 + r / (f : ℝ)) ^ ((f : ℝ) * max t1 1e-12) := Real.rpow_pos_of_pos (by linarith) _
    exact one_div_le_one_div_of_le hp
      (Real.rpow_le_rpow_of_exponent_le hb (mul_le_mul_of_nonneg_left hT hfpos.le))

/-- `zeroToDf_strict_anti_iff_cont`: continuous compounding, times above the floor: `df(t2) ≤ df(t1)` for `t1 < t2`
holds IF AND ONLY IF the rate is non-negative. -/
theorem zeroToDf_antitone_iff_cont (r t1 t2 d1 d2 : ℝ) (h0 : 1e-12 ≤ t1) (ht : t1 < t2)
    (h1 : zeroToDf 99 r t1 = .ok d1) (h2 : zeroToDf 99 r t2 = .ok d2) : d2 ≤ d1 ↔ 0 ≤ r := by
  rw [zeroToDf_cont_of_ge r t1 h0, Except.ok.injEq] at h1
  rw [zeroToDf_cont_of_ge r t2 (by linarith), Except.ok.injEq] at h2
  rw [← h1, ← h2, Real.exp_le_exp]
  constructor
  · intro h
    by_contra hr
    have hr' : r < 0 := not_le.mp hr
    nlinarith
  · intro hr
    nlinarith

/-- The full statement "a rate-parameterised curve returns exactly 1 at its valuation date" (continuous compounding). -/
def RateCurveDfOneAtValuation : Prop := ∀ r : ℝ, zeroToDf 99 r 0 = .ok 1

/-- it is false over the reals: the time floor `1e-12` leaves `exp(−r·1e-12)`, e.g. `r = 1`. -/
theorem rate_curve_df_at_valuation_not_one : ¬ RateCurveDfOneAtValuation := by
  intro h
  have h1 := h 1
  rw [zeroToDf_cont, Except.ok.injEq, max_eq_right (by norm_num)] at h1
  have : Real.exp (-1 * 1e-12) < 1 := Real.exp_lt_one_iff.mpr (by norm_num)
  linarith

/-- `rate_curve_df_at_valuation_partial`: what holds — `df(0) = exp(−r·1e-12)`, within `r·1e-12` of 1
(`1 − r·1e-12 ≤ df`; `df ≤ 1` for `r ≥ 0`), and exactly 1 for `r = 0`. -/
theorem rate_curve_df_at_valuation_partial (r : ℝ) :
    ∃ d, zeroToDf 99 r 0 = .ok d ∧ 1 - r * 1e-12 ≤ d ∧ (0 ≤ r → d ≤ 1) ∧ (r = 0 → d = 1) := by
  refine ⟨Real.exp (-r * 1e-12), ?_, ?_, ?_, ?_⟩
  · rw [zeroToDf_cont, max_eq_right (by norm_num)]
  · have := Real.add_one_le_exp (-r * 1e-12)
    linarith
  · intro hr
    exact Real.exp_le_one_iff.mpr (by nlinarith)
  · intro hr
    subst hr
    simp

end FinVerif.Props.C02
