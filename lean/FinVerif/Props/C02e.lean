/-
  C02 (part e, growth round) — piecewise-flat / piecewise-linear zero curves between their pillars (which side of a
  pillar the jump is on), and `DiscountCurve.bump` as a function of the knots with the object's own arrays in a store.
-/
import FinVerif.Model.C02Ext
import FinVerif.Props.C02d

namespace FinVerif.Props.C02
open FinVerif FinVerif.Model.C02

/-! ### 1. the PWF / PWL interval search (`for i in range(1, n): if self.times[i] > t: …`) -/

/-- On a strictly increasing grid, a time in `[times[j], times[j+1])` is found in interval `j`: the comparison
`times[i] > t` is STRICT, so a time equal to a pillar belongs to the interval that STARTS at that pillar. -/
theorem findLeft_between (l : List ℝ) : ∀ (x : ℝ) (k0 j : Nat) (t : ℝ), (x :: l).Pairwise (· < ·) →
    j + 1 < (x :: l).length → (x :: l).getD j 0 ≤ t → t < (x :: l).getD (j + 1) 0 →
    findLeft t l k0 = some (k0 + j) := by
  induction l with
  | nil => intro x k0 j t _ hj; simp at hj
  | cons y l' ih =>
    intro x k0 j t hs hj hlo hhi
    cases j with
    | zero =>
      have hty : t < y := by simpa using hhi
      simp [findLeft, hty]
    | succ j' =>
      have hs' : (y :: l').Pairwise (· < ·) := (List.pairwise_cons.mp hs).2
      have hj' : j' + 1 < (y :: l').length := by simpa using hj
      have hle := head_le_getD y l' hs' j' (by omega)
      have hlo' : (y :: l').getD j' 0 ≤ t := by simpa using hlo
      have hnot : ¬ t < y := not_lt.mpr (le_trans hle hlo')
      have := ih y (k0 + 1) j' t hs' hj' hlo' (by simpa using hhi)
      simp only [findLeft, hnot, if_false, this]
      congr 1; omega

/-- no pillar after the first is strictly above `t`: the loop ends without a hit. -/
theorem findLeft_none (l : List ℝ) : ∀ (k0 : Nat) (t : ℝ), (∀ y ∈ l, y ≤ t) → findLeft t l k0 = none := by
  induction l with
  | nil => intro k0 t _; simp [findLeft]
  | cons y l' ih =>
    intro k0 t h
    have hy : ¬ t < y := not_lt.mpr (h y (by simp))
    simp only [findLeft, hy, if_false]
    exact ih (k0 + 1) t (fun z hz => h z (by simp [hz]))

/-- `pwf_rate_on_interval`: on `[times[k], times[k+1])` (floored time `T = max(t, 1e-12)`) the piecewise-flat zero
rate is `rates[k]` — the pillar's own rate applies FROM the pillar on; the jump sits at the left end of each interval. -/
theorem pwf_rate_on_interval (times rates : List ℝ) (k : Nat) (t : ℝ) (hs : times.Pairwise (· < ·))
    (hk : k + 1 < times.length) (hlo : g times k ≤ max t 1e-12) (hhi : max t 1e-12 < g times (k + 1)) :
    pwfRate times rates t = g rates k := by
  cases times with
  | nil => simp at hk
  | cons x l =>
    have hf := findLeft_between l x 0 k (max t 1e-12) hs hk (by simpa [g] using hlo) (by simpa [g] using hhi)
    simp only [pwfRate, fmaxG_real, gSmall, List.drop_one, List.tail_cons, hf, Nat.zero_add]

/-- `pwf_rate_before_second`: every time before the SECOND pillar (including times before the first pillar and the
valuation date itself) reads `rates[0]`; no ordering hypothesis is needed. -/
theorem pwf_rate_before_second (times rates : List ℝ) (t : ℝ) (hhi : max t 1e-12 < g times 1) :
    pwfRate times rates t = g rates 0 := by
  match times, hhi with
  | [], hhi =>
    have h0 : g ([] : List ℝ) 1 = 0 := by simp [g]
    rw [h0] at hhi
    exact absurd hhi (not_lt.mpr (maxT_pos t).le)
  | [x], hhi =>
    have h0 : g ([x] : List ℝ) 1 = 0 := by simp [g]
    rw [h0] at hhi
    exact absurd hhi (not_lt.mpr (maxT_pos t).le)
  | _ :: y :: l, hhi =>
    have hty : max t 1e-12 < y := by simpa [g] using hhi
    simp [pwfRate, fmaxG_real, gSmall, findLeft, hty]

/-- `pwf_rate_after_last`: at and after the last pillar the last rate is used (flat extrapolation). -/
theorem pwf_rate_after_last (times rates : List ℝ) (t : ℝ) (h : ∀ y ∈ times.drop 1, y ≤ max t 1e-12) :
    pwfRate times rates t = g rates (rates.length - 1) := by
  simp only [pwfRate, fmaxG_real, gSmall, findLeft_none _ 0 _ h]

/-- `pwf_df_on_interval`: the construction rule of DiscountCurvePWF between pillars — the discount factor is the
flat-rate discount factor of the interval's rate in the curve's compounding frequency. -/
theorem pwf_df_on_interval (f : Int) (times rates : List ℝ) (k : Nat) (t : ℝ) (hs : times.Pairwise (· < ·))
    (hk : k + 1 < times.length) (hlo : g times k ≤ max t 1e-12) (hhi : max t 1e-12 < g times (k + 1)) :
    pwfDf f times rates t = zeroToDf f (g rates k) t := by
  rw [pwfDf, pwf_rate_on_interval times rates k t hs hk hlo hhi]

/-- `pwf_antitone_on_interval`: inside one interval the PWF curve is non-increasing when the interval's rate is
non-negative (every handled frequency); the only other changes are the jumps at the pillars. -/
theorem pwf_antitone_on_interval (f : Int) (hf : f ∈ handledFreqs) (times rates : List ℝ) (k : Nat) (t1 t2 d1 d2 : ℝ)
    (hs : times.Pairwise (· < ·)) (hk : k + 1 < times.length) (hr : 0 ≤ g rates k) (h12 : t1 ≤ t2)
    (hlo : g times k ≤ max t1 1e-12) (hhi : max t2 1e-12 < g times (k + 1))
    (h1 : pwfDf f times rates t1 = .ok d1) (h2 : pwfDf f times rates t2 = .ok d2) : d2 ≤ d1 := by
  have hm : max t1 1e-12 ≤ max t2 1e-12 := max_le_max h12 le_rfl
  rw [pwf_df_on_interval f times rates k t1 hs hk hlo (lt_of_le_of_lt hm hhi)] at h1
  rw [pwf_df_on_interval f times rates k t2 hs hk (le_trans hlo hm) hhi] at h2
  exact zeroToDf_antitone_in_t f hf _ t1 t2 d1 d2 hr h12 h1 h2

/-- `pwf_jump_at_pillar`: both sides of pillar `k+1` in one statement — just before it the rate is `rates[k]`, AT it
(and after, up to the next pillar) the rate is `rates[k+1]`: the curve is right-continuous and the permitted jump is
exactly at the pillar's own time. -/
theorem pwf_jump_at_pillar (times rates : List ℝ) (k : Nat) (tl : ℝ) (hs : times.Pairwise (· < ·))
    (hk : k + 2 < times.length) (hlen : rates.length = times.length) (hpos : (1e-12 : ℝ) ≤ g times (k + 1))
    (hlo : g times k ≤ max tl 1e-12) (hhi : max tl 1e-12 < g times (k + 1)) :
    pwfRate times rates tl = g rates k ∧ pwfRate times rates (g times (k + 1)) = g rates (k + 1) :=
  ⟨pwf_rate_on_interval times rates k tl hs (by omega) hlo hhi,
   pwf_pillar_rate times rates (k + 1) hs (by omega) hlen (by simpa [gSmall] using hpos)⟩

/-- The interval hypotheses are satisfiable: grid 1y, 2y, 5y; `t = 1` is in interval 0 (not "before the first"),
`t = 2` exactly on the second pillar is in interval 1. -/
example : pwfRate [1, 2, 5] [(0.01 : ℝ), 0.02, 0.03] 1 = 0.01 ∧ pwfRate [1, 2, 5] [(0.01 : ℝ), 0.02, 0.03] 2 = 0.02 ∧
    pwfRate [1, 2, 5] [(0.01 : ℝ), 0.02, 0.03] 1.999 = 0.01 ∧ pwfRate [1, 2, 5] [(0.01 : ℝ), 0.02, 0.03] 7 = 0.03 := by
  have hs : ([1, 2, 5] : List ℝ).Pairwise (· < ·) := by simp; norm_num
  refine ⟨?_, ?_, ?_, ?_⟩
  · rw [pwf_rate_on_interval _ _ 0 1 hs (by simp) (by simp [g]) (by simp [g]; norm_num)]; simp [g]
  · rw [pwf_rate_on_interval _ _ 1 2 hs (by simp) (by simp [g]) (by simp [g]; norm_num)]; simp [g]
  · rw [pwf_rate_on_interval _ _ 0 1.999 hs (by simp) (by simp [g]; norm_num) (by simp [g]; norm_num)]; simp [g]
  · rw [pwf_rate_after_last _ _ 7 (by simp; norm_num)]; simp [g]

/-! ### 2. piecewise-linear zero rates -/

/-- `pwl_rate_on_interval`: on `[times[k], times[k+1])` (floored time `T = max(t, 1e-6)`) the PWL zero rate is the
linear interpolation of the two surrounding pillar rates. -/
theorem pwl_rate_on_interval (times rates : List ℝ) (k : Nat) (t : ℝ) (hs : times.Pairwise (· < ·))
    (hk : k + 1 < times.length) (hlo : g times k ≤ max t 1e-6) (hhi : max t 1e-6 < g times (k + 1)) :
    pwlRate times rates t = .ok (((g times (k + 1) - max t 1e-6) * g rates k
      + (max t 1e-6 - g times k) * g rates (k + 1)) / (g times (k + 1) - g times k)) := by
  cases times with
  | nil => simp at hk
  | cons x l =>
    have hf := findLeft_between l x 0 k (max t 1e-6) hs hk (by simpa [g] using hlo) (by simpa [g] using hhi)
    have hn : ¬ ((x :: l).length < 2) := by omega
    simp only [pwlRate, fmaxG_real, List.drop_one, List.tail_cons, hn, if_false, hf, Nat.zero_add]

/-- `pwl_rate_after_last`: at and after the last pillar (≥ 2 pillars) the last rate is used. -/
theorem pwl_rate_after_last (times rates : List ℝ) (t : ℝ) (h2 : 2 ≤ times.length)
    (h : ∀ y ∈ times.drop 1, y ≤ max t 1e-6) : pwlRate times rates t = .ok (g rates (rates.length - 1)) := by
  have hn : ¬ (times.length < 2) := by omega
  simp only [pwlRate, fmaxG_real, hn, if_false, findLeft_none _ 0 _ h]

/-- `pwl_continuous_at_pillar`: the interval-`k` formula evaluated at its right end `times[k+1]` gives `rates[k+1]`,
which is the value the curve takes AT that pillar (`pwl_pillar_rate`): no jump at the pillars. -/
theorem pwl_continuous_at_pillar (times rates : List ℝ) (k : Nat) (hs : times.Pairwise (· < ·))
    (hk : k + 1 < times.length) :
    ((g times (k + 1) - g times (k + 1)) * g rates k + (g times (k + 1) - g times k) * g rates (k + 1))
      / (g times (k + 1) - g times k) = g rates (k + 1) := by
  have hlt := getD_lt_getD times hs k (k + 1) (by omega) hk
  have hne : g times (k + 1) - g times k ≠ 0 := by simp only [g]; linarith
  field_simp
  ring

/-- `pwl_rate_between_pillar_rates`: inside an interval the PWL zero rate lies between the two pillar rates. -/
theorem pwl_rate_between_pillar_rates (times rates : List ℝ) (k : Nat) (t r : ℝ) (hs : times.Pairwise (· < ·))
    (hk : k + 1 < times.length) (hlo : g times k ≤ max t 1e-6) (hhi : max t 1e-6 < g times (k + 1))
    (h : pwlRate times rates t = .ok r) :
    min (g rates k) (g rates (k + 1)) ≤ r ∧ r ≤ max (g rates k) (g rates (k + 1)) := by
  rw [pwl_rate_on_interval times rates k t hs hk hlo hhi, Except.ok.injEq] at h
  have hlt := getD_lt_getD times hs k (k + 1) (by omega) hk
  have hd : 0 < g times (k + 1) - g times k := by simp only [g]; linarith
  have ha : 0 ≤ g times (k + 1) - max t 1e-6 := by linarith
  have hb : 0 ≤ max t 1e-6 - g times k := by linarith
  have hmin1 := min_le_left (g rates k) (g rates (k + 1))
  have hmin2 := min_le_right (g rates k) (g rates (k + 1))
  have hmax1 := le_max_left (g rates k) (g rates (k + 1))
  have hmax2 := le_max_right (g rates k) (g rates (k + 1))
  rw [← h]
  constructor
  · rw [le_div_iff₀ hd]
    nlinarith [mul_le_mul_of_nonneg_left hmin1 ha, mul_le_mul_of_nonneg_left hmin2 hb]
  · rw [div_le_iff₀ hd]
    nlinarith [mul_le_mul_of_nonneg_left hmax1 ha, mul_le_mul_of_nonneg_left hmax2 hb]

/-- The PWL interval hypotheses are satisfiable: the midpoint of `[1, 2]` with rates 1 %, 2 % gives 1.5 %. -/
example : pwlRate [1, 2, 5] [(0.01 : ℝ), 0.02, 0.03] 1.5 = .ok 0.015 := by
  have hs : ([1, 2, 5] : List ℝ).Pairwise (· < ·) := by simp; norm_num
  rw [pwl_rate_on_interval _ _ 0 1.5 hs (by simp) (by simp [g]; norm_num) (by simp [g]; norm_num)]
  have hm : max (1.5 : ℝ) 1e-6 = 1.5 := max_eq_left (by norm_num)
  simp only [g, hm, List.getD_cons_zero, List.getD_cons_succ, Except.ok.injEq]
  norm_num

/-! ### 3. `DiscountCurve.bump` -/

/-- the in-place loop body on the four-cell store `[self._times, self._dfs, times, values]`: only cell 3 changes. -/
theorem bumpStep_cells (b : ℝ) (T D T' V : List ℝ) (i : Nat) :
    bumpStep b 2 3 [T, D, T', V] i = [T, D, T', V.set i (g V i * Real.exp (-b * g T' i))] := by
  simp [bumpStep, cellWrite, cellGet]

/-- the value-array update of one loop step, as a function on lists. -/
noncomputable def bumpSet (b : ℝ) (T' : List ℝ) (V : List ℝ) (i : Nat) : List ℝ :=
  V.set i (g V i * Real.exp (-b * g T' i))

/-- the whole loop over any index list: the object's own cells 0 and 1 are untouched. -/
theorem bumpFold_cells (b : ℝ) (T D T' : List ℝ) : ∀ (idx : List Nat) (V : List ℝ),
    idx.foldl (bumpStep b 2 3) [T, D, T', V] = [T, D, T', idx.foldl (bumpSet b T') V] := by
  intro idx
  induction idx with
  | nil => intro V; rfl
  | cons i rest ih =>
    intro V
    simp only [List.foldl_cons, bumpStep_cells]
    exact ih _

theorem bumpLoop_eq (b : ℝ) (T D : List ℝ) :
    bumpLoop b [T, D] 0 1 = ([T, D, T, (List.range T.length).foldl (bumpSet b T) D], 2, 3) := by
  simp only [bumpLoop, cellCopy, cellGet]
  simp only [List.getD_cons_zero, List.getD_cons_succ, List.cons_append, List.nil_append, List.length_cons,
    List.length_nil]
  rw [bumpFold_cells]

/-- `bump_leaves_original`: after `curve.bump(b)` the object's own `_times` and `_dfs` hold exactly what they held
before — the loop writes into the copies only (an aliased `values = self._dfs` would not satisfy this). -/
theorem bump_leaves_original (b : ℝ) (onv : Bool) (ts vs : List ℝ) :
    (bumpCurve b onv ts vs).selfTimes = (dcKnots onv ts vs).1 ∧
    (bumpCurve b onv ts vs).selfDfs = (dcKnots onv ts vs).2 := by
  simp only [bumpCurve, bumpLoop_eq, cellGet]
  simp

/-- entry `k` and length of the value array after the first `m` loop steps. -/
theorem bumpSet_range (b : ℝ) (T' V : List ℝ) : ∀ m : Nat,
    ((List.range m).foldl (bumpSet b T') V).length = V.length ∧
    ∀ k, g ((List.range m).foldl (bumpSet b T') V) k
      = if k < m ∧ k < V.length then g V k * Real.exp (-b * g T' k) else g V k := by
  intro m
  induction m with
  | zero => simp
  | succ m ih =>
    obtain ⟨hl, hg⟩ := ih
    rw [List.range_succ, List.foldl_append]
    simp only [List.foldl_cons, List.foldl_nil]
    constructor
    · simp [bumpSet, hl]
    · intro k
      simp only [bumpSet, g, List.getD_eq_getElem?_getD, List.getElem?_set, hl]
      simp only [g, List.getD_eq_getElem?_getD] at hg
      by_cases hmk : m = k
      · subst hmk
        by_cases hk : m < V.length
        · have := hg m
          simp only [lt_irrefl, false_and, if_false] at this
          simp [hk, this]
        · have h1 : V[m]? = none := List.getElem?_eq_none (by omega)
          have := hg m
          simp only [lt_irrefl, false_and, if_false] at this
          simp [hk]
      · rw [if_neg hmk, hg k]
        by_cases hkm : k < m
        · have : k < m + 1 := by omega
          simp [hkm, this]
        · have : ¬ k < m + 1 := by omega
          simp [hkm, this]

/-- `bump_values`: after the loop every knot's discount factor is `dfs[k]·exp(−b·times[k])`. -/
theorem bump_values (b : ℝ) (T D : List ℝ) (hlen : D.length = T.length) (k : Nat) :
    g ((List.range T.length).foldl (bumpSet b T) D) k = g D k * Real.exp (-b * g T k) := by
  rw [(bumpSet_range b T D T.length).2 k]
  by_cases hk : k < T.length
  · simp [hk, hlen]
  · have h0 : g D k = 0 := by
      simp only [g, List.getD_eq_getElem?_getD, List.getElem?_eq_none (by omega : D.length ≤ k)]; rfl
    simp [hk, h0]

/-- `bump_knots_after_val`: first pillar after the valuation date — the returned curve has the SAME knot times, and
knot `k` carries `dfs[k]·exp(−b·times[k])`; in particular the anchor stays `(0, 1)`. -/
theorem bump_knots_after_val (b : ℝ) (ts vs : List ℝ) (hlen : vs.length = ts.length) :
    (bumpCurve b false ts vs).newTimes = 0 :: ts ∧
    (∀ k, g (bumpCurve b false ts vs).newDfs k = g (1 :: vs) k * Real.exp (-b * g (0 :: ts) k)) := by
  have hk : dcKnots false ts vs = (0 :: ts, 1 :: vs) := by simp [dcKnots]
  have hl := (bumpSet_range b (0 :: ts) (1 :: vs) (0 :: ts).length).1
  simp only [bumpCurve, hk, bumpLoop_eq, cellGet, List.getD_cons_succ, List.getD_cons_zero]
  have hstart : ((List.range (0 :: ts).length).foldl (bumpSet b (0 :: ts)) (1 :: vs)).length - ts.length = 1 := by
    rw [hl]; simp [hlen]
  rw [hstart]
  refine ⟨by simp [dcKnots], ?_⟩
  intro k
  have hv := bump_values b (0 :: ts) (1 :: vs) (by simp [hlen])
  cases k with
  | zero => simp [dcKnots, g]
  | succ k' =>
    have h1 := hv (k' + 1)
    simp only [dcKnots, Bool.false_eq_true, if_false, g, List.getD_eq_getElem?_getD] at h1 ⊢
    rw [← h1, List.getElem?_cons_succ, List.getElem?_drop, Nat.add_comm 1 k']

/-- `kFlat_bump`: FLAT_FWD_RATES on bumped knots — if the two knot dfs are multiplied by `exp(−b·t_knot)`, the
interpolated / extrapolated discount factor at ANY time `t` is multiplied by `exp(−b·t)`:
`bumped.df(t) = df(t)·exp(−b·t)`. -/
theorem kFlat_bump (b : ℝ) (times dfs dfs' : List ℝ) (i j : Nat) (t : ℝ)
    (hdt : g times j - g times i ≠ 0) (hi : 0 < g dfs i) (hj : 0 < g dfs j)
    (hi' : g dfs' i = g dfs i * Real.exp (-b * g times i))
    (hj' : g dfs' j = g dfs j * Real.exp (-b * g times j)) :
    kFlat times dfs' i j t = kFlat times dfs i j t * Real.exp (-b * t) := by
  simp only [kFlat, exp_real, log_real, hi', hj']
  rw [Real.log_mul hi.ne' (Real.exp_pos _).ne', Real.log_mul hj.ne' (Real.exp_pos _).ne', Real.log_exp,
    Real.log_exp, ← Real.exp_add]
  congr 1
  field_simp
  ring

/-- `kLinZero_bump`: LINEAR_ZERO_RATES on bumped knots: every zero rate moves up by `b`, so again
`bumped.df(t) = df(t)·exp(−b·t)` (knot times used as divisors must be non-zero, as the code requires). -/
theorem kLinZero_bump (b : ℝ) (times dfs dfs' : List ℝ) (ra rb ta tb : Nat) (t : ℝ)
    (hdt : g times tb - g times ta ≠ 0) (hta : g times ra ≠ 0) (htb : g times rb ≠ 0)
    (ha : 0 < g dfs ra) (hb : 0 < g dfs rb)
    (ha' : g dfs' ra = g dfs ra * Real.exp (-b * g times ra))
    (hb' : g dfs' rb = g dfs rb * Real.exp (-b * g times rb)) :
    kLinZero times dfs' ra rb ta tb t = kLinZero times dfs ra rb ta tb t * Real.exp (-b * t) := by
  simp only [kLinZero, exp_real, log_real, ha', hb']
  rw [Real.log_mul ha.ne' (Real.exp_pos _).ne', Real.log_mul hb.ne' (Real.exp_pos _).ne', Real.log_exp,
    Real.log_exp, ← Real.exp_add]
  congr 1
  field_simp
  ring

/-- `bump_zero_is_identity`: `bump(0.0)` leaves every knot's discount factor as it is. -/
theorem bump_zero_is_identity (T D : List ℝ) (hlen : D.length = T.length) (k : Nat) :
    g ((List.range T.length).foldl (bumpSet 0 T) D) k = g D k := by
  rw [bump_values 0 T D hlen k]; simp

/-- The bump hypotheses are satisfiable: pillars 1y, 2y after the valuation date, 1 bp. -/
example : (bumpCurve (0.0001 : ℝ) false [1, 2] [0.99, 0.97]).newTimes = [0, 1, 2] ∧
    (bumpCurve (0.0001 : ℝ) false [1, 2] [0.99, 0.97]).selfDfs = [1, 0.99, 0.97] :=
  ⟨(bump_knots_after_val 0.0001 [1, 2] [0.99, 0.97] rfl).1, by
    have := (bump_leaves_original 0.0001 false [1, 2] [0.99, 0.97]).2
    simpa [dcKnots] using this⟩

end FinVerif.Props.C02
