/-
  C02 (part f, growth round 6) — the two time axes of a discount curve.

  `DiscountCurve` / `DiscountCurvePWFONF` place a pillar at (pillar − valuation)/365 (`g_days_in_year`), while
  `df(date)` converts the query date with ACT/ACT ISDA.  About the GENERATED `DayCount.year_frac`
  (Gen/DayCount.lean, re-translated from day_count.py on every run) and the date model of C13:

  * `time_axis_gap`: days/365 − ACT/ACT ISDA = (number of days of [start, end) lying in a leap year) · (1/365 − 1/366),
    exactly, for every pair of dates start ≤ end from 1 Mar 1900, any number of years.
  * `time_axis_agree_iff` / `time_axis_agree_iff_noLeapDay`: the two axes agree iff no day of the half-open span
    lies in a leap year; same-year and multi-year forms of the condition the code's branches induce.
  * sign and size when they differ, the curve-level corollaries (pillar reproduced exactly iff the condition
    holds, for the local kernels), and the concrete witness with its exact rational mismatch.
-/
import FinVerif.Props.C15g
import FinVerif.Props.C02a
import FinVerif.Props.C02b
import FinVerif.Spec.TimeAxis
import Mathlib.Data.Rat.Cast.CharZero
import Mathlib.Data.Rat.Cast.Order

set_option linter.unusedSimpArgs false
set_option linter.unusedVariables false
set_option linter.unusedTactic false
set_option linter.unreachableTactic false

namespace FinVerif.Props.C02
open FinVerif FinVerif.Gen.DayCount FinVerif.Spec FinVerif.Props.C15

/-! ### 1. calendar-year arithmetic on serial numbers -/

theorem J_lt_succ (y : Int) : J y < J (y + 1) := by
  have := J_step y; have := yearLen_pos y; omega

theorem J_mono {a b : Int} (h : a ≤ b) : J a ≤ J b := by
  obtain ⟨k, hk⟩ : ∃ k : Nat, b = a + k := ⟨(b - a).toNat, by omega⟩
  rw [hk]; exact J_mono_step a k

/-- A serial number lies inside calendar year `y`. -/
def InYear (s y : Int) : Prop := J y ≤ s ∧ s < J (y + 1)

/-- Years are ordered as the serial numbers inside them. -/
theorem year_le_of_serial_le {s1 y1 s2 y2 : Int} (h1 : InYear s1 y1) (h2 : InYear s2 y2) (h : s1 ≤ s2) : y1 ≤ y2 := by
  by_contra hc
  have := J_mono (show y2 + 1 ≤ y1 by omega)
  obtain ⟨a, b⟩ := h1; obtain ⟨c, d⟩ := h2
  omega

theorem overlap_unfold (s1 s2 y : Int) : daysInYearOverlap s1 s2 y = min s2 (J (y + 1)) - max s1 (J y) := rfl

/-- The days of `[s1, s2)` in the calendar years `y1 … y1 + n` add up to `s2 − s1` (telescoping). -/
theorem sum_overlap (s1 y1 : Int) (h1 : InYear s1 y1) : ∀ (n : Nat) (s2 : Int),
    J (y1 + n) ≤ s2 → s2 ≤ J (y1 + n + 1) → s1 ≤ s2 →
    ((List.range (n + 1)).map (fun i : Nat => daysInYearOverlap s1 s2 (y1 + i))).sum = s2 - s1 := by
  obtain ⟨h1a, h1b⟩ := h1
  intro n
  induction n with
  | zero =>
    intro s2 ha hb hle
    simp only [Nat.cast_zero, add_zero] at ha hb
    simp [overlap_unfold]
    omega
  | succ n ih =>
    intro s2 ha hb hle
    rw [List.sum_range_succ]
    have hJ : J (y1 + (n : Int)) ≤ J (y1 + (n : Int) + 1) := (J_lt_succ _).le
    have e : y1 + ((n + 1 : Nat) : Int) = y1 + (n : Int) + 1 := by push_cast; ring
    rw [e] at ha hb
    have h1n : J (y1 + 1) ≤ J (y1 + (n : Int) + 1) := J_mono (by omega)
    have hcongr : (List.range (n + 1)).map (fun i : Nat => daysInYearOverlap s1 s2 (y1 + i))
        = (List.range (n + 1)).map (fun i : Nat => daysInYearOverlap s1 (J (y1 + (n : Int) + 1)) (y1 + i)) := by
      apply List.map_congr_left
      intro i hi
      rw [List.mem_range] at hi
      have : J (y1 + (i : Int) + 1) ≤ J (y1 + (n : Int) + 1) := J_mono (by omega)
      simp only [overlap_unfold]
      omega
    rw [hcongr, ih (J (y1 + (n : Int) + 1)) hJ le_rfl (by omega)]
    simp only [overlap_unfold, e]
    have := J_lt_succ (y1 + (n : Int) + 1)
    omega

/-- Inside the year range every per-year overlap of a forward span is non-negative. -/
theorem overlap_nonneg {s1 y1 s2 : Int} {n i : Nat} (h1 : InYear s1 y1) (h2 : InYear s2 (y1 + n)) (hle : s1 ≤ s2)
    (hi : i ≤ n) : 0 ≤ daysInYearOverlap s1 s2 (y1 + i) := by
  obtain ⟨a, b⟩ := h1; obtain ⟨c, d⟩ := h2
  have := J_mono (show y1 + (i : Int) ≤ y1 + (n : Int) by omega)
  have := J_mono (show y1 + 1 ≤ y1 + (i : Int) + 1 by omega)
  have := J_lt_succ (y1 + (i : Int))
  simp only [overlap_unfold]
  omega

/-! ### 2. list algebra -/

theorem sum_nonneg_list (l : List Nat) (f : Nat → Int) (h : ∀ i ∈ l, 0 ≤ f i) : 0 ≤ (l.map f).sum := by
  induction l with
  | nil => simp
  | cons a t ih =>
    simp only [List.map_cons, List.sum_cons]
    have := h a (by simp)
    have := ih (fun i hi => h i (by simp [hi]))
    omega

theorem sum_eq_zero_iff_list (l : List Nat) (f : Nat → Int) (h : ∀ i ∈ l, 0 ≤ f i) :
    (l.map f).sum = 0 ↔ ∀ i ∈ l, f i = 0 := by
  induction l with
  | nil => simp
  | cons a t ih =>
    simp only [List.map_cons, List.sum_cons, List.mem_cons, forall_eq_or_imp]
    have ha := h a (by simp)
    have ht := sum_nonneg_list t f (fun i hi => h i (by simp [hi]))
    have := ih (fun i hi => h i (by simp [hi]))
    constructor
    · intro hs
      exact ⟨by omega, this.mp (by omega)⟩
    · rintro ⟨h0, hr⟩
      have := this.mpr hr
      omega

theorem sum_le_sum_list (l : List Nat) (f g : Nat → Int) (h : ∀ i ∈ l, f i ≤ g i) :
    (l.map f).sum ≤ (l.map g).sum := by
  induction l with
  | nil => simp
  | cons a t ih =>
    simp only [List.map_cons, List.sum_cons]
    have := h a (by simp)
    have := ih (fun i hi => h i (by simp [hi]))
    omega

/-- Per calendar year: (days in the year)/365 − (days in the year)/(length of the year) is one `axisStep` per day
when the year is a leap year and nothing otherwise; summed over any list of years. -/
theorem gap_sum (l : List Nat) (s1 s2 y1 : Int) :
    (((l.map (fun i : Nat => daysInYearOverlap s1 s2 (y1 + i))).sum : Int) : Rat) / 365
      - (l.map (fun i : Nat => ((daysInYearOverlap s1 s2 (y1 + i) : Int) : Rat) / (yearLen (y1 + i) : Int))).sum
    = (((l.map (fun i : Nat => if gLeap (y1 + i) then daysInYearOverlap s1 s2 (y1 + i) else 0)).sum : Int) : Rat)
        * axisStep := by
  induction l with
  | nil => simp
  | cons a t ih =>
    simp only [List.map_cons, List.sum_cons, Int.cast_add]
    have hd : ((daysInYearOverlap s1 s2 (y1 + (a : Int)) : Int) : Rat) / 365
        - ((daysInYearOverlap s1 s2 (y1 + (a : Int)) : Int) : Rat) / (yearLen (y1 + (a : Int)) : Int)
        = (((if gLeap (y1 + (a : Int)) then daysInYearOverlap s1 s2 (y1 + (a : Int)) else 0) : Int) : Rat) * axisStep := by
      by_cases hl : gLeap (y1 + (a : Int)) = true
      · simp only [yearLen, hl, if_true, axisStep]; push_cast; ring
      · simp only [yearLen, hl, axisStep]; simp
    linear_combination ih + hd

/-! ### 3. the specification level: ACT/ACT ISDA against days/365 -/

/-- ISDA 2006 ACT/ACT (per-calendar-year sum) against days/365, exact, for any number of years. -/
theorem spec_gap (s1 y1 s2 y2 : Int) (h1 : InYear s1 y1) (h2 : InYear s2 y2) (hle : s1 ≤ s2) :
    t365 s1 s2 - actActISDA s1 y1 s2 y2 = (leapDays s1 y1 s2 y2 : Rat) * axisStep := by
  have hy := year_le_of_serial_le h1 h2 hle
  obtain ⟨n, hn⟩ : ∃ n : Nat, y2 = y1 + n := ⟨(y2 - y1).toNat, by omega⟩
  subst hn
  have e : (y1 + (n : Int) - y1).toNat = n := by omega
  simp only [t365, actActISDA, leapDays, e]
  rw [← gap_sum, sum_overlap s1 y1 h1 n s2 h2.1 h2.2.le hle]

/-- The leap-day count of a forward span is between 0 and the length of the span. -/
theorem leapDays_bounds (s1 y1 s2 y2 : Int) (h1 : InYear s1 y1) (h2 : InYear s2 y2) (hle : s1 ≤ s2) :
    0 ≤ leapDays s1 y1 s2 y2 ∧ leapDays s1 y1 s2 y2 ≤ s2 - s1 := by
  have hy := year_le_of_serial_le h1 h2 hle
  obtain ⟨n, hn⟩ : ∃ n : Nat, y2 = y1 + n := ⟨(y2 - y1).toNat, by omega⟩
  subst hn
  have e : (y1 + (n : Int) - y1).toNat = n := by omega
  simp only [leapDays, e]
  constructor
  · apply sum_nonneg_list
    intro i hi
    rw [List.mem_range] at hi
    have := overlap_nonneg h1 h2 hle (show i ≤ n by omega)
    split <;> omega
  · rw [← sum_overlap s1 y1 h1 n s2 h2.1 h2.2.le hle]
    apply sum_le_sum_list
    intro i hi
    rw [List.mem_range] at hi
    have := overlap_nonneg h1 h2 hle (show i ≤ n by omega)
    split <;> omega

/-- No day of the half-open span `[s1, s2)` lies in a leap year. -/
def NoLeapDay (s1 s2 : Int) : Prop :=
  ∀ y s : Int, gLeap y = true → s1 ≤ s → s < s2 → ¬ InYear s y

/-- The count is zero exactly when no day of the span lies in a leap year. -/
theorem leapDays_eq_zero_iff (s1 y1 s2 y2 : Int) (h1 : InYear s1 y1) (h2 : InYear s2 y2) (hle : s1 ≤ s2) :
    leapDays s1 y1 s2 y2 = 0 ↔ NoLeapDay s1 s2 := by
  have hy := year_le_of_serial_le h1 h2 hle
  obtain ⟨n, hn⟩ : ∃ n : Nat, y2 = y1 + n := ⟨(y2 - y1).toNat, by omega⟩
  subst hn
  have e : (y1 + (n : Int) - y1).toNat = n := by omega
  simp only [leapDays, e]
  rw [sum_eq_zero_iff_list]
  · constructor
    · intro h y s hl ha hb hin
      obtain ⟨c, d⟩ := hin
      have hy1 : y1 ≤ y := by
        by_contra hc
        have := J_mono (show y + 1 ≤ y1 by omega)
        have := h1.1
        omega
      have hy2 : y ≤ y1 + n := by
        by_contra hc
        have := J_mono (show y1 + (n : Int) + 1 ≤ y by omega)
        have := h2.2
        omega
      have hi := h (y - y1).toNat (by rw [List.mem_range]; omega)
      have ey : y1 + (((y - y1).toNat : Nat) : Int) = y := by omega
      rw [ey] at hi
      simp only [hl, if_true, overlap_unfold] at hi
      omega
    · intro h i hi
      rw [List.mem_range] at hi
      by_cases hl : gLeap (y1 + (i : Int)) = true
      · simp only [hl, if_true]
        have nn := overlap_nonneg h1 h2 hle (show i ≤ n by omega)
        by_contra hne
        have hpos : 0 < daysInYearOverlap s1 s2 (y1 + (i : Int)) := by omega
        simp only [overlap_unfold] at hpos
        exact h (y1 + (i : Int)) (max s1 (J (y1 + (i : Int)))) hl (by omega) (by omega) ⟨by omega, by omega⟩
      · simp [hl]
  · intro i hi
    rw [List.mem_range] at hi
    have := overlap_nonneg h1 h2 hle (show i ≤ n by omega)
    split <;> omega

theorem axisStep_pos : 0 < axisStep := by simp only [axisStep]; norm_num

theorem axisStep_val : axisStep = 1 / 133590 := by simp only [axisStep]; norm_num

/-! ### 4. the GENERATED `year_frac`, all dates from 1 Mar 1900 -/

/-- closed form of the generated multi-year branch, start year from 1900 (the branch builds 1 Jan of the NEXT
year of the start and 1 Jan of the end year, both ≥ 1901, where the table serial is the calendar serial). -/
theorem year_frac_isda_shape_1900 (a b : PyDate) (dt3 : Option PyDate) (f : Int) (term : Bool)
    (hlt : a.y < b.y) (h1 : 1900 ≤ a.y) :
    fracOf (year_frac a b dt3 f term 5) =
      ((J (a.y + 1) - a.serial : Int) : Rat) / (yearLen a.y : Int)
        + ((b.serial - J b.y : Int) : Rat) / (yearLen b.y : Int) + ((b.y - a.y - 1 : Int) : Rat) := by
  have hne : a.y ≠ b.y := by omega
  have e1 : (Model.mkDate 1 1 (a.y + 1)).serial = J (a.y + 1) := by
    simp only [Model.mkDate, J]
    exact FinVerif.Props.C13.excelSerial_eq_spec 1 1 (a.y + 1) ⟨by omega, by omega⟩ (by omega)
  have e2 : (Model.mkDate 1 1 b.y).serial = J b.y := by
    simp only [Model.mkDate, J]
    exact FinVerif.Props.C13.excelSerial_eq_spec 1 1 b.y ⟨by omega, by omega⟩ (by omega)
  simp only [year_frac, pyIn, is_leap_year_eq_gLeap, datediff, e1, e2]
  by_cases p : gLeap a.y = true <;> by_cases q : gLeap b.y = true <;>
    simp [hne, fracOf, yearLen, p, q]

/-- The generated ACT/ACT ISDA fraction is the ISDA per-calendar-year sum for EVERY forward pair of dates from
1900 lying inside their calendar years (same year or any number of years apart). -/
theorem year_frac_isda_eq_spec (a b : PyDate) (dt3 : Option PyDate) (f : Int) (term : Bool)
    (h1900 : 1900 ≤ a.y) (ha : InYear a.serial a.y) (hb : InYear b.serial b.y) (hle : a.serial ≤ b.serial) :
    fracOf (year_frac a b dt3 f term 5) = actActISDA a.serial a.y b.serial b.y := by
  have hy := year_le_of_serial_le ha hb hle
  rcases Int.lt_or_eq_of_le hy with hlt | heq
  · rw [year_frac_isda_shape_1900 a b dt3 f term hlt h1900, actActISDA_closed _ _ _ _ hlt ha hb]
  · rw [year_frac_act_act_isda_same_year a b dt3 f term heq]
    obtain ⟨p, q⟩ := ha; obtain ⟨r, s⟩ := hb
    rw [← heq] at r s
    have : daysInYearOverlap a.serial b.serial a.y = b.serial - a.serial := by
      simp only [overlap_unfold]; omega
    simp [fracOf, actActISDA, ← heq, this]

/-- **Time-axis gap, exact.**  For the GENERATED `year_frac`, every forward pair of dates from 1900 inside their
calendar years: (days)/365 − ACT/ACT ISDA = (days of [start, end) in a leap year) · (1/365 − 1/366). -/
theorem time_axis_gap (a b : PyDate) (dt3 : Option PyDate) (f : Int) (term : Bool)
    (h1900 : 1900 ≤ a.y) (ha : InYear a.serial a.y) (hb : InYear b.serial b.y) (hle : a.serial ≤ b.serial) :
    t365 a.serial b.serial - fracOf (year_frac a b dt3 f term 5)
      = (leapDays a.serial a.y b.serial b.y : Rat) * axisStep := by
  rw [year_frac_isda_eq_spec a b dt3 f term h1900 ha hb hle, spec_gap _ _ _ _ ha hb hle]

/-- **Time-axis agreement.**  ACT/ACT ISDA = days/365 (exact rationals) iff no day of the span is counted in a
leap year. -/
theorem time_axis_agree_iff (a b : PyDate) (dt3 : Option PyDate) (f : Int) (term : Bool)
    (h1900 : 1900 ≤ a.y) (ha : InYear a.serial a.y) (hb : InYear b.serial b.y) (hle : a.serial ≤ b.serial) :
    fracOf (year_frac a b dt3 f term 5) = t365 a.serial b.serial ↔ leapDays a.serial a.y b.serial b.y = 0 := by
  have g := time_axis_gap a b dt3 f term h1900 ha hb hle
  have sp := axisStep_pos
  constructor
  · intro h
    rw [h, sub_self] at g
    have := mul_eq_zero.mp g.symm
    rcases this with h0 | h0
    · exact_mod_cast h0
    · exact absurd h0 (ne_of_gt sp)
  · intro h
    rw [h] at g
    simp at g
    linarith

/-- … in the vocabulary of the property: iff no day `s` with start ≤ s < end lies in a leap year. -/
theorem time_axis_agree_iff_noLeapDay (a b : PyDate) (dt3 : Option PyDate) (f : Int) (term : Bool)
    (h1900 : 1900 ≤ a.y) (ha : InYear a.serial a.y) (hb : InYear b.serial b.y) (hle : a.serial ≤ b.serial) :
    fracOf (year_frac a b dt3 f term 5) = t365 a.serial b.serial ↔ NoLeapDay a.serial b.serial := by
  rw [time_axis_agree_iff a b dt3 f term h1900 ha hb hle, leapDays_eq_zero_iff _ _ _ _ ha hb hle]

/-- The executable classifier predicate is the negation of agreement. -/
theorem touchesLeap_iff_axes_differ (a b : PyDate) (dt3 : Option PyDate) (f : Int) (term : Bool)
    (h1900 : 1900 ≤ a.y) (ha : InYear a.serial a.y) (hb : InYear b.serial b.y) (hle : a.serial ≤ b.serial) :
    touchesLeap a.serial a.y b.serial b.y = true ↔ fracOf (year_frac a b dt3 f term 5) ≠ t365 a.serial b.serial := by
  rw [Ne, time_axis_agree_iff a b dt3 f term h1900 ha hb hle]
  have := (leapDays_bounds _ _ _ _ ha hb hle).1
  simp only [touchesLeap, decide_eq_true_eq]
  omega

/-- Same calendar year (the code's first branch): the axes agree iff the year is not a leap year or the span is
empty. -/
theorem time_axis_agree_same_year (a b : PyDate) (dt3 : Option PyDate) (f : Int) (term : Bool)
    (hy : a.y = b.y) :
    fracOf (year_frac a b dt3 f term 5) = t365 a.serial b.serial ↔ (gLeap a.y = false ∨ a.serial = b.serial) := by
  rw [year_frac_act_act_isda_same_year a b dt3 f term hy]
  simp only [fracOf, t365, yearLen]
  by_cases hl : gLeap a.y = true
  · simp only [hl, if_true]
    constructor
    · intro h
      right
      have h' : ((b.serial - a.serial : Int) : Rat) = 0 := by
        push_cast at h ⊢
        linarith
      have : b.serial - a.serial = 0 := by exact_mod_cast h'
      omega
    · rintro (h | h)
      · simp at h
      · simp [h]
  · simp [hl]

/-- Different calendar years (the code's second branch): the axes agree iff the first-year stub, the last-year
stub and every whole year in between are free of leap-year days. -/
theorem time_axis_agree_multi_year (a b : PyDate) (dt3 : Option PyDate) (f : Int) (term : Bool)
    (h1900 : 1900 ≤ a.y) (ha : InYear a.serial a.y) (hb : InYear b.serial b.y) (hlt : a.y < b.y) :
    fracOf (year_frac a b dt3 f term 5) = t365 a.serial b.serial ↔
      (gLeap a.y = false) ∧ (gLeap b.y = false ∨ b.serial = J b.y) ∧ (∀ y, a.y < y → y < b.y → gLeap y = false) := by
  have hle : a.serial ≤ b.serial := by
    have := J_mono (show a.y + 1 ≤ b.y by omega)
    have := ha.2; have := hb.1; omega
  rw [time_axis_agree_iff_noLeapDay a b dt3 f term h1900 ha hb hle]
  obtain ⟨p, q⟩ := ha; obtain ⟨r, s⟩ := hb
  constructor
  · intro h
    refine ⟨?_, ?_, ?_⟩
    · by_contra hl
      have hl' : gLeap a.y = true := by simpa using hl
      have := J_mono (show a.y + 1 ≤ b.y by omega)
      exact h a.y a.serial hl' le_rfl (by omega) ⟨p, q⟩
    · by_contra hc
      rw [not_or] at hc
      have hl' : gLeap b.y = true := by simpa using hc.1
      have := J_mono (show a.y + 1 ≤ b.y by omega)
      exact h b.y (J b.y) hl' (by omega) (by omega) ⟨le_rfl, J_lt_succ _⟩
    · intro y h1 h2
      by_contra hl
      have hl' : gLeap y = true := by simpa using hl
      have := J_mono (show a.y + 1 ≤ y by omega)
      have := J_mono (show y + 1 ≤ b.y by omega)
      have := J_lt_succ y
      exact h y (J y) hl' (by omega) (by omega) ⟨le_rfl, J_lt_succ _⟩
  · rintro ⟨h1, h2, h3⟩ y t hl hs1 hs2 ⟨c, d⟩
    have hy1 : a.y ≤ y := by
      by_contra hc
      have := J_mono (show y + 1 ≤ a.y by omega)
      omega
    have hy2 : y ≤ b.y := by
      by_contra hc
      have := J_mono (show b.y + 1 ≤ y by omega)
      omega
    rcases Int.lt_or_eq_of_le hy1 with g1 | g1
    · rcases Int.lt_or_eq_of_le hy2 with g2 | g2
      · rw [h3 y g1 g2] at hl; simp at hl
      · subst g2
        rcases h2 with h2 | h2
        · rw [h2] at hl; simp at hl
        · omega
    · subst g1
      rw [h1] at hl; simp at hl

/-- **Sign and size of the gap.**  When the span touches a leap year the ACT/ACT ISDA time is strictly SHORTER than
days/365, by exactly one `axisStep` per leap-year day, hence by at most (days in span) · (1/365 − 1/366). -/
theorem time_axis_gap_sign_bound (a b : PyDate) (dt3 : Option PyDate) (f : Int) (term : Bool)
    (h1900 : 1900 ≤ a.y) (ha : InYear a.serial a.y) (hb : InYear b.serial b.y) (hle : a.serial ≤ b.serial) :
    0 ≤ t365 a.serial b.serial - fracOf (year_frac a b dt3 f term 5) ∧
    (touchesLeap a.serial a.y b.serial b.y = true → fracOf (year_frac a b dt3 f term 5) < t365 a.serial b.serial) ∧
    t365 a.serial b.serial - fracOf (year_frac a b dt3 f term 5)
      ≤ (leapDays a.serial a.y b.serial b.y : Rat) * (1 / 365 - 1 / 366) ∧
    t365 a.serial b.serial - fracOf (year_frac a b dt3 f term 5)
      ≤ ((b.serial - a.serial : Int) : Rat) * (1 / 365 - 1 / 366) := by
  have g := time_axis_gap a b dt3 f term h1900 ha hb hle
  obtain ⟨l0, l1⟩ := leapDays_bounds _ _ _ _ ha hb hle
  have sp := axisStep_pos
  have l0' : (0 : Rat) ≤ (leapDays a.serial a.y b.serial b.y : Rat) := by exact_mod_cast l0
  have l1' : (leapDays a.serial a.y b.serial b.y : Rat) ≤ ((b.serial - a.serial : Int) : Rat) := by exact_mod_cast l1
  have ea : axisStep = 1 / 365 - 1 / 366 := rfl
  rw [← ea]
  refine ⟨?_, ?_, ?_, ?_⟩
  · rw [g]; exact mul_nonneg l0' sp.le
  · intro ht
    simp only [touchesLeap, decide_eq_true_eq] at ht
    have : (0 : Rat) < (leapDays a.serial a.y b.serial b.y : Rat) := by exact_mod_cast ht
    have := mul_pos this sp
    linarith
  · rw [g]
  · rw [g]; exact mul_le_mul_of_nonneg_right l1' sp.le

/-! ### 5. dates as the constructor builds them -/

/-- A date built by `Date(d, m, y)` from 1 Mar 1900 on carries the calendar serial and lies inside its year. -/
theorem mkDate_inYear (d m y : Int) (hv : Valid d m y) (h : 1901 ≤ y ∨ (y = 1900 ∧ 3 ≤ m)) :
    (Model.mkDate d m y).y = y ∧ (Model.mkDate d m y).serial = serial d m y ∧
      InYear (Model.mkDate d m y).serial (Model.mkDate d m y).y := by
  have hs : (Model.mkDate d m y).serial = serial d m y := by
    simp only [Model.mkDate]
    rcases h with h | ⟨h, h3⟩
    · exact FinVerif.Props.C13.excelSerial_eq_spec d m y ⟨hv.1, hv.2.1⟩ h
    · subst h; exact FinVerif.Props.C13.excelSerial_eq_spec_1900 d m ⟨h3, hv.2.1⟩
  refine ⟨rfl, hs, ?_⟩
  rw [hs]
  exact serial_in_year d m y hv

/-- `time_axis_gap` / `time_axis_agree_iff` for dates as `Date(d, m, y)` builds them, from 1 Mar 1900, start ≤ end. -/
theorem time_axis_dates (d1 m1 y1 d2 m2 y2 : Int) (dt3 : Option PyDate) (f : Int) (term : Bool)
    (hv1 : Valid d1 m1 y1) (hv2 : Valid d2 m2 y2)
    (h1 : 1901 ≤ y1 ∨ (y1 = 1900 ∧ 3 ≤ m1)) (h2 : 1901 ≤ y2 ∨ (y2 = 1900 ∧ 3 ≤ m2))
    (hle : serial d1 m1 y1 ≤ serial d2 m2 y2) :
    let a := Model.mkDate d1 m1 y1
    let b := Model.mkDate d2 m2 y2
    (t365 a.serial b.serial - fracOf (year_frac a b dt3 f term 5)
        = (leapDays (serial d1 m1 y1) y1 (serial d2 m2 y2) y2 : Rat) * axisStep) ∧
    (fracOf (year_frac a b dt3 f term 5) = t365 a.serial b.serial
        ↔ NoLeapDay (serial d1 m1 y1) (serial d2 m2 y2)) ∧
    (fracOf (year_frac a b dt3 f term 5) = t365 a.serial b.serial
        ↔ touchesLeap (serial d1 m1 y1) y1 (serial d2 m2 y2) y2 = false) := by
  intro a b
  obtain ⟨ay, as, ain⟩ := mkDate_inYear d1 m1 y1 hv1 h1
  obtain ⟨by', bs, bin⟩ := mkDate_inYear d2 m2 y2 hv2 h2
  have h1900 : 1900 ≤ a.y := by rw [ay]; omega
  have hle' : a.serial ≤ b.serial := by rw [as, bs]; exact hle
  have g := time_axis_gap a b dt3 f term h1900 ain bin hle'
  have i1 := time_axis_agree_iff_noLeapDay a b dt3 f term h1900 ain bin hle'
  have i2 := touchesLeap_iff_axes_differ a b dt3 f term h1900 ain bin hle'
  rw [as, bs, ay, by'] at g i2
  rw [as, bs] at i1
  refine ⟨by rw [as, bs]; exact g, by rw [as, bs]; exact i1, ?_⟩
  rw [as, bs]
  constructor
  · intro h
    by_contra hc
    have : touchesLeap (serial d1 m1 y1) y1 (serial d2 m2 y2) y2 = true := by simpa using hc
    exact (i2.mp this) h
  · intro h
    by_contra hc
    have := i2.mpr hc
    rw [h] at this
    simp at this

/-- The hypotheses of `time_axis_dates` are satisfiable on both sides of the equivalence:
1 Jun 2021 → 1 Jun 2023 touches no leap year, 1 Jun 2019 → 1 Jun 2020 has 152 days in leap year 2020. -/
example : Valid 1 6 2021 ∧ Valid 1 6 2023 ∧ serial 1 6 2021 ≤ serial 1 6 2023 ∧
    touchesLeap (serial 1 6 2021) 2021 (serial 1 6 2023) 2023 = false ∧
    touchesLeap (serial 1 6 2019) 2019 (serial 1 6 2020) 2020 = true ∧
    leapDays (serial 1 6 2019) 2019 (serial 1 6 2020) 2020 = 152 := by decide

/-! ### 5b. the condition in the vocabulary of calendar dates -/

/-- Every serial number from 1 Jan of year `y` on is the serial of a valid calendar date (walk the Gregorian
successor of C13 from 1 January). -/
theorem serial_surj_from (y : Int) : ∀ k : Nat, ∃ d m y', Valid d m y' ∧ serial d m y' = J y + k := by
  intro k
  induction k with
  | zero => exact ⟨1, 1, y, ⟨by omega, by omega, by omega, by simp [monthLen]⟩, by simp [J]⟩
  | succ n ih =>
    obtain ⟨d, m, y', hv, hs⟩ := ih
    refine ⟨(succ d m y').1, (succ d m y').2.1, (succ d m y').2.2, FinVerif.Props.C13.succ_valid d m y' hv, ?_⟩
    rw [FinVerif.Props.C13.serial_succ d m y' hv, hs]; push_cast; ring

/-- A serial number lies in exactly one calendar year. -/
theorem inYear_unique {s y y' : Int} (h : InYear s y) (h' : InYear s y') : y = y' :=
  le_antisymm (year_le_of_serial_le h h' le_rfl) (year_le_of_serial_le h' h le_rfl)

/-- Every day of calendar year `y` is a valid date `d/m/y`. -/
theorem serial_surj_in_year (y s : Int) (h : InYear s y) : ∃ d m, Valid d m y ∧ serial d m y = s := by
  obtain ⟨d, m, y', hv, hs⟩ := serial_surj_from y (s - J y).toNat
  have e : J y + (((s - J y).toNat : Nat) : Int) = s := by have := h.1; omega
  rw [e] at hs
  have hin : InYear s y' := by rw [← hs]; exact serial_in_year d m y' hv
  have := inYear_unique h hin
  subst this
  exact ⟨d, m, hv, hs⟩

/-- `NoLeapDay` says what it should about calendar DATES: no valid date `d/m/y` with start ≤ serial < end has a
leap `y`. -/
theorem noLeapDay_iff_dates (s1 s2 : Int) :
    NoLeapDay s1 s2 ↔ ∀ d m y : Int, Valid d m y → s1 ≤ serial d m y → serial d m y < s2 → gLeap y = false := by
  constructor
  · intro h d m y hv a b
    by_contra hl
    have hl' : gLeap y = true := by simpa using hl
    exact h y (serial d m y) hl' a b (serial_in_year d m y hv)
  · intro h y s hl a b hin
    obtain ⟨d, m, hv, hs⟩ := serial_surj_in_year y s hin
    have := h d m y hv (by rw [hs]; exact a) (by rw [hs]; exact b)
    rw [this] at hl; simp at hl

/-- **Time-axis agreement, in dates.**  For dates as `Date(d, m, y)` builds them from 1 Mar 1900, start ≤ end: the
generated ACT/ACT ISDA fraction equals days/365 iff every calendar date `d/m/y` of the half-open span
[start, end) has a non-leap year `y`. -/
theorem time_axis_agree_iff_dates (d1 m1 y1 d2 m2 y2 : Int) (dt3 : Option PyDate) (f : Int) (term : Bool)
    (hv1 : Valid d1 m1 y1) (hv2 : Valid d2 m2 y2)
    (h1 : 1901 ≤ y1 ∨ (y1 = 1900 ∧ 3 ≤ m1)) (h2 : 1901 ≤ y2 ∨ (y2 = 1900 ∧ 3 ≤ m2))
    (hle : serial d1 m1 y1 ≤ serial d2 m2 y2) :
    fracOf (year_frac (Model.mkDate d1 m1 y1) (Model.mkDate d2 m2 y2) dt3 f term 5)
        = t365 (Model.mkDate d1 m1 y1).serial (Model.mkDate d2 m2 y2).serial
      ↔ ∀ d m y : Int, Valid d m y → serial d1 m1 y1 ≤ serial d m y → serial d m y < serial d2 m2 y2 → gLeap y = false := by
  rw [← noLeapDay_iff_dates]
  exact (time_axis_dates d1 m1 y1 d2 m2 y2 dt3 f term hv1 hv2 h1 h2 hle).2.1

/-! ### 6. curve level: a knot placed at days/365, queried at the ACT/ACT ISDA time -/

open FinVerif.Model.C02 in
/-- **Pillar reproduced exactly under the condition.**  A curve whose k-th knot is placed at days/365 from the
valuation date `v` to the pillar date `p` (`DiscountCurve.__init__`, `DiscountCurvePWFONF`), queried — as
`df(p)` does — at the ACT/ACT ISDA time of the pillar's own date computed by the GENERATED `year_frac`: if no
day of `[v, p)` lies in a leap year, the local kernels (FLAT_FWD, LINEAR_ZERO; LINEAR_FWD except knot 1) return
the pillar's discount factor exactly, for any number of knots. -/
theorem pillar_reproduced_of_noLeapDay (m : Int) (times dfs : List ℝ) (hlen : dfs.length = times.length)
    (hs : times.Pairwise (· < ·)) (hpos : ∀ d ∈ dfs, 0 < d) (h0 : 0 ≤ g times 0) (hn : 2 ≤ times.length)
    (k : ℕ) (hk : k < times.length) (hm : m = 1 ∨ m = 4 ∨ (m = 2 ∧ k ≠ 1))
    (v p : PyDate) (dt3 : Option PyDate) (f : Int) (term : Bool)
    (h1900 : 1900 ≤ v.y) (hv : InYear v.serial v.y) (hp : InYear p.serial p.y) (hle : v.serial ≤ p.serial)
    (hknot : g times k = ((t365 v.serial p.serial : Rat) : ℝ))
    (hno : NoLeapDay v.serial p.serial) :
    uinterp m times dfs ((fracOf (year_frac v p dt3 f term 5) : Rat) : ℝ) = .ok (g dfs k) := by
  rw [(time_axis_agree_iff_noLeapDay v p dt3 f term h1900 hv hp hle).mpr hno, ← hknot]
  exact interp_at_knot m times dfs hlen hs hpos h0 hn k hk hm

open FinVerif.Model.C02 in
/-- **The query lands on the knot iff the condition holds**: the ACT/ACT ISDA time of the pillar date equals the
knot time days/365 (as real numbers) iff no day of `[v, p)` lies in a leap year; otherwise it falls strictly
LEFT of the knot, by exactly (leap-year days)·(1/365 − 1/366). -/
theorem query_time_eq_knot_time_iff (v p : PyDate) (dt3 : Option PyDate) (f : Int) (term : Bool)
    (h1900 : 1900 ≤ v.y) (hv : InYear v.serial v.y) (hp : InYear p.serial p.y) (hle : v.serial ≤ p.serial) :
    (((fracOf (year_frac v p dt3 f term 5) : Rat) : ℝ) = ((t365 v.serial p.serial : Rat) : ℝ) ↔ NoLeapDay v.serial p.serial) ∧
    (¬ NoLeapDay v.serial p.serial →
      ((fracOf (year_frac v p dt3 f term 5) : Rat) : ℝ) < ((t365 v.serial p.serial : Rat) : ℝ)) ∧
    ((t365 v.serial p.serial : Rat) : ℝ) - ((fracOf (year_frac v p dt3 f term 5) : Rat) : ℝ)
      = (leapDays v.serial v.y p.serial p.y : ℝ) * (1 / 365 - 1 / 366) := by
  have i1 := time_axis_agree_iff_noLeapDay v p dt3 f term h1900 hv hp hle
  have sb := time_axis_gap_sign_bound v p dt3 f term h1900 hv hp hle
  have gp := time_axis_gap v p dt3 f term h1900 hv hp hle
  refine ⟨?_, ?_, ?_⟩
  · rw [← i1]; exact Rat.cast_inj
  · intro hno
    have hne : fracOf (year_frac v p dt3 f term 5) ≠ t365 v.serial p.serial := fun h => hno (i1.mp h)
    have : fracOf (year_frac v p dt3 f term 5) < t365 v.serial p.serial :=
      lt_of_le_of_ne (by linarith [sb.1]) hne
    exact_mod_cast this
  · have : ((t365 v.serial p.serial - fracOf (year_frac v p dt3 f term 5) : Rat) : ℝ)
        = (((leapDays v.serial v.y p.serial p.y : Rat) * axisStep : Rat) : ℝ) := by rw [gp]
    simp only [axisStep] at this
    push_cast at this
    linarith

/-! ### 7. the witness of `C02/leap-time-axis`, computed through the generated code -/

/-- The valuation and pillar dates of the recorded witness. -/
def wV : PyDate := Model.mkDate 1 6 2019
def wP : PyDate := Model.mkDate 1 6 2020

/-- On the witness the GENERATED `year_frac` gives 214/365 + 152/366 while the knot sits at 366/365: 152 days of
the span lie in leap year 2020 and the exact mismatch is 152/133590 = 76/66795. -/
theorem leap_witness_times :
    fracOf (year_frac wV wP none 1 false 5) = 214 / 365 + 152 / 366 ∧
    t365 wV.serial wP.serial = 366 / 365 ∧
    leapDays wV.serial wV.y wP.serial wP.y = 152 ∧
    t365 wV.serial wP.serial - fracOf (year_frac wV wP none 1 false 5) = 76 / 66795 := by
  have sV : wV.serial = 43617 := by decide +kernel
  have sP : wP.serial = 43983 := by decide +kernel
  have hy1 : wV.y = 2019 := rfl
  have hy2 : wP.y = 2020 := rfl
  have e : fracOf (year_frac wV wP none 1 false 5) = 214 / 365 + 152 / 366 := by
    rw [year_frac_isda_shape_1900 wV wP none 1 false (by decide) (by decide)]
    rw [hy1, hy2, sV, sP, show J (2019 + 1) = 43831 by decide +kernel, show J 2020 = 43831 by decide +kernel,
      show yearLen 2019 = 365 by decide, show yearLen 2020 = 366 by decide]
    norm_num
  have e2 : t365 wV.serial wP.serial = 366 / 365 := by
    simp only [t365, sV, sP]; norm_num
  refine ⟨e, e2, by decide +kernel, ?_⟩
  rw [e, e2]; norm_num

open FinVerif.Model.C02 in
/-- **Counterexample, end to end.**  Curve dated 1 Jun 2019, one pillar 1 Jun 2020 with df 0.97, FLAT_FWD: the knot is
at days/365, `df(1 Jun 2020)` looks it up at the time the generated ACT/ACT ISDA code returns, and the value is
strictly above 0.97 — the pillar is not reproduced; at the knot's own time it is. -/
theorem leap_pillar_not_reproduced_via_daycount :
    ¬ NoLeapDay wV.serial wP.serial ∧
    (∃ x : ℝ, uinterp 1 [0, ((t365 wV.serial wP.serial : Rat) : ℝ)] [1, (0.97 : ℝ)]
        ((fracOf (year_frac wV wP none 1 false 5) : Rat) : ℝ) = .ok x ∧ 0.97 < x) ∧
    uinterp 1 [0, ((t365 wV.serial wP.serial : Rat) : ℝ)] [1, (0.97 : ℝ)] ((t365 wV.serial wP.serial : Rat) : ℝ) = .ok 0.97 := by
  obtain ⟨e1, e2, e3, _⟩ := leap_witness_times
  refine ⟨?_, ?_, ?_⟩
  · intro h
    have hv : InYear wV.serial wV.y := by simp only [InYear]; decide +kernel
    have hp : InYear wP.serial wP.y := by simp only [InYear]; decide +kernel
    have := (leapDays_eq_zero_iff wV.serial wV.y wP.serial wP.y hv hp (by decide +kernel)).mpr h
    rw [e3] at this
    omega
  · rw [e1, e2]
    obtain ⟨x, hx, _, hgt⟩ := leap_pillar_not_reproduced
    refine ⟨x, ?_, hgt⟩
    have c1 : (((366 / 365 : Rat)) : ℝ) = 366 / 365 := by push_cast; norm_num
    have c2 : (((214 / 365 + 152 / 366 : Rat)) : ℝ) = 214 / 365 + 152 / 366 := by push_cast; norm_num
    rw [c1, c2]; exact hx
  · rw [e2]
    have c1 : (((366 / 365 : Rat)) : ℝ) = 366 / 365 := by push_cast; norm_num
    rw [c1]; exact leap_pillar_reproduced_at_knot_time

end FinVerif.Props.C02
