/-
  C02g — the hand model of `_uinterpolate` (Model/C02.lean: `search`, `locate`, `kernel`, `uinterp`) IS the text that
  `tools/py2lean/registry/interploops.py` cuts out of `financepy/market/curves/interpolator.py` on every run
  (`Gen/InterpLoopR.lean`): the `while` condition, its body, the initial index, the test after the loop, the first-knot
  test, the method chain, and every branch formula with its knot offsets.  An edit of a bound, a comparison operator,
  an index offset, a factor or the initial value in the Python changes the generated text and breaks a theorem here.

  Python semantics used: `pyWhile` (a `while` loop run with fuel), `pyIdx` (Numba's wrap-around read of a negative index,
  the compiled code has no bounds check).
-/
import FinVerif.Lemmas.C02Interp
import FinVerif.Lemmas.C20Loop
import FinVerif.Gen.InterpLoopR

namespace FinVerif.Props.C02
open FinVerif FinVerif.Model.C02 FinVerif.Gen.InterpLoopR

/-! ### Python semantics -/

/-- `while guard(s): s = step(s)` run for at most `fuel` iterations. -/
def pyWhile {σ : Type} (guard : σ → Bool) (step : σ → σ) : ℕ → σ → σ
  | 0, s => s
  | k + 1, s => if guard s then pyWhile guard step k (step s) else s

/-- the element Numba reads for the index `k` of an array of size `n`: negative indices wrap around once. -/
def pyIdx (n : ℕ) (k : ℤ) : ℕ := if k < 0 then (k + n).toNat else k.toNat

/-- `arr[k]` as the compiled code reads it. -/
noncomputable def rd (l : List ℝ) (n : ℕ) (k : ℤ) : ℝ := g l (pyIdx n k)

theorem pyIdx_nat (n k : ℕ) : pyIdx n (k : ℤ) = k := by simp [pyIdx]

/-- a counting loop whose condition holds at every index below `r` and fails at `r` stops at `r` (any fuel `≥ r - i`). -/
theorem pyWhile_count (guard : ℤ → Bool) (r : ℕ) (hlt : ∀ j : ℕ, j < r → guard j = true) (hr : guard r = false) :
    ∀ (fuel i : ℕ), i ≤ r → r - i ≤ fuel → pyWhile guard (fun i => i + 1) fuel (i : ℤ) = r := by
  intro fuel
  induction fuel with
  | zero =>
    intro i hi hf
    have : i = r := by omega
    subst this; rfl
  | succ k ih =>
    intro i hi hf
    rcases Nat.lt_or_eq_of_le hi with h | h
    · simp only [pyWhile, hlt i h, if_true]
      have := ih (i + 1) (by omega) (by omega)
      simpa using this
    · subst h
      simp only [pyWhile, hr, Bool.false_eq_true, if_false]

/-! ### the search loop `i = 0; while times[i] < t and i < num_points - 1: i = i + 1` -/

/-- the generated initial index and body: the loop counts up from 0 in steps of 1. -/
theorem search_init_step_is_generated : uinterp_search_init = 0 ∧ ∀ i : ℤ, uinterp_search_step i = i + 1 := by
  simp [uinterp_search_init, uinterp_search_step]

/-- the condition reads `times[i]` (no offset). -/
theorem search_guard_reads_is_generated (i : ℤ) : uinterp_search_guard_reads i = i := by
  simp [uinterp_search_guard_reads]

/-- the generated `while` condition as the loop evaluates it at index `i` of the knot list. -/
noncomputable def searchGuard (times : List ℝ) (t : ℝ) (i : ℤ) : Bool :=
  uinterp_search_guard (rd times times.length (uinterp_search_guard_reads i)) t i times.length

/-- the generated condition holds at every index the hand model's `search` passes … -/
theorem search_guard_true (times : List ℝ) (t : ℝ) (j : ℕ) (hj : j < search t times) :
    searchGuard times t j = true := by
  have h1 := search_prefix_lt t times j hj
  have h2 := search_le t times
  simp only [searchGuard, uinterp_search_guard, uinterp_search_guard_reads, rd, pyIdx_nat, Bool.and_eq_true,
    decide_eq_true_eq]
  exact ⟨h1, by omega⟩

/-- … and fails at the index it returns. -/
theorem search_guard_false (times : List ℝ) (t : ℝ) : searchGuard times t (search t times) = false := by
  have h2 := search_le t times
  simp only [searchGuard, uinterp_search_guard, uinterp_search_guard_reads, rd, pyIdx_nat]
  by_cases h : search t times < times.length - 1
  · have := search_stop t times h
    simp [this]
  · have : ¬ ((search t times : ℤ) < (times.length : ℤ) - 1) := by omega
    simp [this]

/-- **the hand-written search IS the generated loop**: running the generated condition and the generated body from the
generated initial index, with any fuel `≥ num_points`, ends at `search t times`. -/
theorem search_is_generated_loop (times : List ℝ) (t : ℝ) (fuel : ℕ) (hf : times.length ≤ fuel) :
    pyWhile (searchGuard times t) uinterp_search_step fuel uinterp_search_init = (search t times : ℤ) := by
  have hstep : uinterp_search_step = fun i : ℤ => i + 1 := by
    funext i; simp [uinterp_search_step]
  have hinit : uinterp_search_init = ((0 : ℕ) : ℤ) := by simp [uinterp_search_init]
  rw [hstep, hinit]
  have h2 := search_le t times
  exact pyWhile_count _ _ (fun j hj => search_guard_true times t j hj) (search_guard_false times t) fuel 0
    (Nat.zero_le _) (by omega)

/-- no out-of-range read: every index at which the loop condition reads `times[i]` is `< num_points` (`num_points ≥ 1`). -/
theorem search_reads_in_range (times : List ℝ) (t : ℝ) (hn : 1 ≤ times.length) (j : ℕ) (hj : j ≤ search t times) :
    0 ≤ uinterp_search_guard_reads j ∧ uinterp_search_guard_reads j < times.length := by
  have h2 := search_le t times
  simp only [uinterp_search_guard_reads]
  omega

/-- the loop index is a monotone accumulator: each iteration of the generated body raises it by exactly one, so the
number of iterations is the returned index and is at most `num_points - 1`. -/
theorem search_iterations_bound (times : List ℝ) (t : ℝ) : (search t times : ℤ) ≤ (times.length : ℤ) - 1 ∨ times = [] := by
  have h2 := search_le t times
  rcases times with _ | ⟨x, l⟩
  · right; rfl
  · left; simp only [List.length_cons] at h2 ⊢; omega

/-! ### after the loop: `if t > times[i]: i = num_points` -/

theorem locate_is_generated (times : List ℝ) (t : ℝ) :
    (locate times t : ℤ) =
      uinterp_locate (rd times times.length (uinterp_locate_reads (search t times))) t (search t times) times.length := by
  simp only [locate, uinterp_locate, uinterp_locate_reads, rd, pyIdx_nat, gt_iff_lt, decide_eq_true_eq]
  split <;> simp

/-- the index handed to the kernels is the generated post-processing of the generated loop. -/
theorem locate_is_generated_loop (times : List ℝ) (t : ℝ) (fuel : ℕ) (hf : times.length ≤ fuel) :
    (locate times t : ℤ) =
      (let i := pyWhile (searchGuard times t) uinterp_search_step fuel uinterp_search_init
       uinterp_locate (rd times times.length (uinterp_locate_reads i)) t i times.length) := by
  simp only [search_is_generated_loop times t fuel hf]
  exact locate_is_generated times t

/-- the located index is `0 ≤ i ≤ num_points`. -/
theorem locate_le (times : List ℝ) (t : ℝ) (hn : 1 ≤ times.length) : locate times t ≤ times.length := by
  have h2 := search_le t times
  simp only [locate]
  split <;> omega

/-! ### the first-knot test and the method chain -/

theorem first_test_is_generated (times : List ℝ) (t : ℝ) :
    feq t (g times 0) = Gen.InterpLoopR.uinterp_first t (rd times times.length uinterp_first_reads.1) ∧
      uinterp_first_reads = (0, 0) := by
  refine ⟨?_, by simp [uinterp_first_reads]⟩
  simp [feq_real, Gen.InterpLoopR.uinterp_first, uinterp_first_reads, rd, pyIdx]

/-- the method chain selects: 1st branch of the source ↔ code `uinterp_k1_method`, … ; any other code raises FinError,
exactly the codes the hand model's `kernel` dispatches on. -/
theorem dispatch_is_generated (method : ℤ) :
    uinterp_dispatch method =
      (if method = uinterp_k1_method then .ok 1 else if method = uinterp_k2_method then .ok 2
       else if method = uinterp_k3_method then .ok 3 else .error .finError) ∧
    uinterp_k1_method = 4 ∧ uinterp_k2_method = 1 ∧ uinterp_k3_method = 2 := by
  refine ⟨?_, by simp [uinterp_k1_method], by simp [uinterp_k2_method], by simp [uinterp_k3_method]⟩
  simp only [uinterp_dispatch, uinterp_k1_method, uinterp_k2_method, uinterp_k3_method, decide_eq_true_eq]
  by_cases h4 : method = 4
  · simp [h4]
  · by_cases h1 : method = 1
    · simp [h1]
    · by_cases h2 : method = 2
      · simp [h2]
      · simp [h1, h2, h4]

theorem kernel_dispatch_is_generated (method : ℤ) (times dfs : List ℝ) (i : ℕ) (t : ℝ) :
    (uinterp_dispatch method = .error .finError ↔ (method ≠ 1 ∧ method ≠ 2 ∧ method ≠ 4)) ∧
    (uinterp_dispatch method = .error .finError → kernel method times dfs i t = .error .finError) := by
  have key : uinterp_dispatch method = .error .finError ↔ (method ≠ 1 ∧ method ≠ 2 ∧ method ≠ 4) := by
    simp only [uinterp_dispatch, decide_eq_true_eq]
    by_cases h4 : method = 4
    · simp [h4]
    · by_cases h1 : method = 1
      · simp [h1]
      · by_cases h2 : method = 2
        · simp [h2]
        · simp [h1, h2, h4]
  refine ⟨key, fun h => ?_⟩
  obtain ⟨h1, h2, h4⟩ := key.mp h
  exact kernel_other method times dfs i t h1 h2 h4

/-! ### `_vinterpolate`: `for i in range(0, n): yvalues[i] = _uinterpolate(xValues[i], …)` -/

/-- the loop visits exactly the indices `0 … n-1`, in order, stores at the index it reads: the vector call is the map of the
scalar call over the query list. -/
theorem vinterp_is_generated_loop (n : ℕ) :
    Lemmas.C20.pyRange (vinterp_range n) = (List.range n).map (fun k : ℕ => (k : ℤ)) ∧
      ∀ i : ℤ, vinterp_reads i = (i, i) := by
  refine ⟨?_, fun i => by simp [vinterp_reads]⟩
  simp only [vinterp_range]
  rw [Lemmas.C20.pyRange_up]
  simp

theorem vinterp_fold_is_map (method : ℤ) (times dfs xs : List ℝ) :
    Lemmas.C20.forRange (vinterp_range xs.length)
        (fun (acc : List (Except PyErr ℝ)) i => acc ++ [uinterp method times dfs (rd xs xs.length (vinterp_reads i).2)]) []
      = xs.map (uinterp method times dfs) := by
  have h := (vinterp_is_generated_loop xs.length).1
  simp only [Lemmas.C20.forRange, h, vinterp_reads, rd]
  rw [List.foldl_map]
  simp only [pyIdx_nat]
  have gen : ∀ (k : ℕ) (acc : List (Except PyErr ℝ)), k ≤ xs.length →
      (List.range k).foldl (fun acc (j : ℕ) => acc ++ [uinterp method times dfs (g xs j)]) acc
        = acc ++ (xs.take k).map (uinterp method times dfs) := by
    intro k
    induction k with
    | zero => intro acc _; simp
    | succ k ih =>
      intro acc hk
      rw [List.range_succ, List.foldl_append, ih acc (by omega)]
      simp only [List.foldl_cons, List.foldl_nil, List.append_assoc]
      congr 1
      have hk' : k < xs.length := by omega
      rw [List.take_add_one, List.map_append]
      congr 1
      simp [g, List.getD_eq_getElem?_getD, List.getElem?_eq_getElem hk']
  have := gen xs.length [] le_rfl
  simpa using this

/-! ### the branch formulas: the hand model's kernels ARE the generated branch bodies at the generated knot offsets -/

theorem pyIdx_sub1 (n i : ℕ) (h : 1 ≤ i) : pyIdx n ((i : ℤ) - 1) = i - 1 := by unfold pyIdx; split <;> omega
theorem pyIdx_sub2 (n i : ℕ) (h : 2 ≤ i) : pyIdx n ((i : ℤ) - 2) = i - 2 := by unfold pyIdx; split <;> omega
theorem pyIdx_wrap1 (n : ℕ) (h : 1 ≤ n) : pyIdx n (((0 : ℕ) : ℤ) - 1) = n - 1 := by unfold pyIdx; split <;> omega
theorem pyIdx_wrap2 (n : ℕ) (h : 2 ≤ n) : pyIdx n (((0 : ℕ) : ℤ) - 2) = n - 2 := by unfold pyIdx; split <;> omega

/-- FLAT_FWD_RATES: the generated branch body evaluated at the generated reads of the knot arrays. -/
noncomputable def genFlat (times dfs : List ℝ) (i : ℕ) (t : ℝ) : ℝ :=
  let n := times.length
  let r := uinterp_k2_reads i
  uinterp_k2 i n t (rd dfs n r.1) (rd dfs n r.2.1) (rd times n r.2.2.1) (rd times n r.2.2.2.1) (rd dfs n r.2.2.2.2.1)
    (rd times n r.2.2.2.2.2)

/-- LINEAR_ZERO_RATES. -/
noncomputable def genLinZero (times dfs : List ℝ) (i : ℕ) (t : ℝ) : ℝ :=
  let n := times.length
  let r := uinterp_k1_reads i
  uinterp_k1 i n t (rd dfs n r.1) (rd times n r.2.1) (rd times n r.2.2.1) (rd dfs n r.2.2.2.1) (rd times n r.2.2.2.2)

/-- LINEAR_FWD_RATES. -/
noncomputable def genLinFwd (times dfs : List ℝ) (i : ℕ) (t : ℝ) : ℝ :=
  let n := times.length
  let r := uinterp_k3_reads i
  uinterp_k3 i n t (rd dfs n r.1) (rd times n r.2.1) (rd dfs n r.2.2.1) (rd dfs n r.2.2.2.1) (rd times n r.2.2.2.2.1)
    (rd times n r.2.2.2.2.2)

section values
variable (times dfs : List ℝ) (t : ℝ)

theorem flat_step_is_generated_wrap (hn : 2 ≤ times.length) :
    kFlat times dfs (times.length - 1) 0 t = genFlat times dfs 0 t := by
  have c1 : ¬ (((0 : ℕ) : ℤ) = 1) := by omega
  have c2 : ((0 : ℕ) : ℤ) < (times.length : ℤ) := by omega
  simp only [kFlat, genFlat, uinterp_k2, uinterp_k2_reads, rd, pyIdx_nat, pyIdx_wrap1 _ (show 1 ≤ times.length by omega),
    c1, c2, decide_true, decide_false, Bool.false_eq_true, if_true, if_false, exp_real, log_real]

theorem flat_step_is_generated (i : ℕ) (h1 : 1 ≤ i) (hi : i < times.length) :
    kFlat times dfs (i - 1) i t = genFlat times dfs i t := by
  have c2 : (i : ℤ) < (times.length : ℤ) := by omega
  simp only [kFlat, genFlat, uinterp_k2, uinterp_k2_reads, rd, pyIdx_nat, pyIdx_sub1 _ _ h1,
    c2, decide_true, if_true, exp_real, log_real, ite_self]

theorem flat_step_is_generated_right (hn : 2 ≤ times.length) :
    kFlat times dfs (times.length - 2) (times.length - 1) t = genFlat times dfs times.length t := by
  have c1 : ¬ ((times.length : ℤ) = 1) := by omega
  have c2 : ¬ ((times.length : ℤ) < (times.length : ℤ)) := by omega
  simp only [kFlat, genFlat, uinterp_k2, uinterp_k2_reads, rd, pyIdx_nat, pyIdx_sub1 _ _ (show 1 ≤ times.length by omega),
    pyIdx_sub2 _ _ hn, c1, c2, decide_false, Bool.false_eq_true, if_false, exp_real, log_real]

end values

/-- **FLAT_FWD_RATES: `kernel 1` is the generated branch** for every located index `0 ≤ i ≤ num_points` (`i = 0`: the
wrap-around read of a query left of the first knot), up to the division-by-zero guard of the compiled code. -/
theorem kernel_flat_is_generated (times dfs : List ℝ) (i : ℕ) (t : ℝ) (hn : 2 ≤ times.length) (hi : i ≤ times.length) :
    ∃ dens, kernel 1 times dfs i t = guardDiv dens (genFlat times dfs i t) := by
  rw [kernel_m1]
  by_cases h0 : i = 0
  · subst h0
    exact ⟨_, by rw [if_pos rfl, flat_step_is_generated_wrap times dfs t hn]⟩
  · by_cases h : i < times.length
    · exact ⟨_, by rw [if_neg h0, if_pos h, flat_step_is_generated times dfs t i (by omega) h]⟩
    · have : i = times.length := by omega
      subst this
      exact ⟨_, by rw [if_neg h0, if_neg h, flat_step_is_generated_right times dfs t hn]⟩

/-! ### LINEAR_ZERO_RATES -/

section linzero
variable (times dfs : List ℝ) (t : ℝ)

theorem linzero_step_is_generated_first (i : ℕ) (h : i = 1) :
    kLinZero times dfs i i (i - 1) i t = genLinZero times dfs i t := by
  have d1 : decide ((i : ℤ) = 1) = true := decide_eq_true (by omega)
  simp only [kLinZero, genLinZero, uinterp_k1, uinterp_k1_reads, rd, pyIdx_nat, pyIdx_sub1 _ _ (show 1 ≤ i by omega),
    d1, if_true, exp_real, log_real]

theorem linzero_step_is_generated_wrap (hn : 2 ≤ times.length) :
    kLinZero times dfs (times.length - 1) 0 (times.length - 1) 0 t = genLinZero times dfs 0 t := by
  have d1 : decide ((((0 : ℕ) : ℤ)) = 1) = false := decide_eq_false (by omega)
  have d2 : decide ((((0 : ℕ) : ℤ)) < (times.length : ℤ)) = true := decide_eq_true (by omega)
  simp only [kLinZero, genLinZero, uinterp_k1, uinterp_k1_reads, rd, pyIdx_nat,
    pyIdx_wrap1 _ (show 1 ≤ times.length by omega), d1, d2, Bool.false_eq_true, if_true, if_false, exp_real, log_real]

theorem linzero_step_is_generated (i : ℕ) (h2 : 2 ≤ i) (hi : i < times.length) :
    kLinZero times dfs (i - 1) i (i - 1) i t = genLinZero times dfs i t := by
  have d1 : decide ((i : ℤ) = 1) = false := decide_eq_false (by omega)
  have d2 : decide ((i : ℤ) < (times.length : ℤ)) = true := decide_eq_true (by omega)
  simp only [kLinZero, genLinZero, uinterp_k1, uinterp_k1_reads, rd, pyIdx_nat, pyIdx_sub1 _ _ (show 1 ≤ i by omega),
    d1, d2, Bool.false_eq_true, if_true, if_false, exp_real, log_real]

theorem linzero_step_is_generated_right (hn : 2 ≤ times.length) :
    kLinZero times dfs (times.length - 1) (times.length - 1) (times.length - 2) (times.length - 1) t
      = genLinZero times dfs times.length t := by
  have d1 : decide ((times.length : ℤ) = 1) = false := decide_eq_false (by omega)
  have d2 : decide ((times.length : ℤ) < (times.length : ℤ)) = false := decide_eq_false (by omega)
  simp only [kLinZero, genLinZero, uinterp_k1, uinterp_k1_reads, rd, pyIdx_nat,
    pyIdx_sub1 _ _ (show 1 ≤ times.length by omega), pyIdx_sub2 _ _ hn, d1, d2, Bool.false_eq_true, if_false,
    exp_real, log_real]

end linzero

/-- **LINEAR_ZERO_RATES: `kernel 4` is the generated branch** for every located index `0 ≤ i ≤ num_points`. -/
theorem kernel_linzero_is_generated (times dfs : List ℝ) (i : ℕ) (t : ℝ) (hn : 2 ≤ times.length) (hi : i ≤ times.length) :
    ∃ dens, kernel 4 times dfs i t = guardDiv dens (genLinZero times dfs i t) := by
  rw [kernel_m4]
  by_cases h1 : i = 1
  · refine ⟨[g times 1, g times 1 - g times 0], ?_⟩
    rw [if_pos h1, ← linzero_step_is_generated_first times dfs t i h1]
    subst h1; rfl
  · by_cases h0 : i = 0
    · subst h0
      exact ⟨_, by rw [if_neg h1, if_pos rfl, linzero_step_is_generated_wrap times dfs t hn]⟩
    · by_cases h : i < times.length
      · exact ⟨_, by rw [if_neg h1, if_neg h0, if_pos h, linzero_step_is_generated times dfs t i (by omega) h]⟩
      · have : i = times.length := by omega
        subst this
        exact ⟨_, by rw [if_neg h1, if_neg h0, if_neg h, linzero_step_is_generated_right times dfs t hn]⟩

/-! ### LINEAR_FWD_RATES -/

section linfwd
variable (times dfs : List ℝ) (t : ℝ)

theorem linfwd_step_is_generated_first (i : ℕ) (h : i = 1) :
    kLinFwdFirst times dfs t = genLinFwd times dfs i t := by
  have d1 : decide ((i : ℤ) = 1) = true := decide_eq_true (by omega)
  subst h
  simp only [kLinFwdFirst, genLinFwd, uinterp_k3, uinterp_k3_reads, rd, pyIdx_nat, d1, if_true, exp_real, log_real]

theorem linfwd_step_is_generated_wrap (hn : 2 ≤ times.length) :
    kLinFwdInt times dfs (times.length - 2) (times.length - 1) 0 t = genLinFwd times dfs 0 t := by
  have d1 : decide ((((0 : ℕ) : ℤ)) = 1) = false := decide_eq_false (by omega)
  have d2 : decide ((((0 : ℕ) : ℤ)) < (times.length : ℤ)) = true := decide_eq_true (by omega)
  simp only [kLinFwdInt, genLinFwd, uinterp_k3, uinterp_k3_reads, rd, pyIdx_nat,
    pyIdx_wrap1 _ (show 1 ≤ times.length by omega), pyIdx_wrap2 _ hn, d1, d2, Bool.false_eq_true, if_true, if_false,
    exp_real, log_real]

theorem linfwd_step_is_generated (i : ℕ) (h2 : 2 ≤ i) (hi : i < times.length) :
    kLinFwdInt times dfs (i - 2) (i - 1) i t = genLinFwd times dfs i t := by
  have d1 : decide ((i : ℤ) = 1) = false := decide_eq_false (by omega)
  have d2 : decide ((i : ℤ) < (times.length : ℤ)) = true := decide_eq_true (by omega)
  simp only [kLinFwdInt, genLinFwd, uinterp_k3, uinterp_k3_reads, rd, pyIdx_nat, pyIdx_sub1 _ _ (show 1 ≤ i by omega),
    pyIdx_sub2 _ _ h2, d1, d2, Bool.false_eq_true, if_true, if_false, exp_real, log_real]

theorem linfwd_step_is_generated_right (hn : 2 ≤ times.length) :
    kLinFwdRight times dfs (times.length - 2) (times.length - 1) t = genLinFwd times dfs times.length t := by
  have d1 : decide ((times.length : ℤ) = 1) = false := decide_eq_false (by omega)
  have d2 : decide ((times.length : ℤ) < (times.length : ℤ)) = false := decide_eq_false (by omega)
  simp only [kLinFwdRight, genLinFwd, uinterp_k3, uinterp_k3_reads, rd, pyIdx_nat,
    pyIdx_sub1 _ _ (show 1 ≤ times.length by omega), pyIdx_sub2 _ _ hn, d1, d2, Bool.false_eq_true, if_false,
    exp_real, log_real]

end linfwd

/-- **LINEAR_FWD_RATES: `kernel 2` is the generated branch** for every located index `0 ≤ i ≤ num_points`. -/
theorem kernel_linfwd_is_generated (times dfs : List ℝ) (i : ℕ) (t : ℝ) (hn : 2 ≤ times.length) (hi : i ≤ times.length) :
    ∃ dens, kernel 2 times dfs i t = guardDiv dens (genLinFwd times dfs i t) := by
  rw [kernel_m2]
  by_cases h1 : i = 1
  · exact ⟨_, by rw [if_pos h1, linfwd_step_is_generated_first times dfs t i h1]⟩
  · by_cases h0 : i = 0
    · subst h0
      exact ⟨_, by rw [if_neg h1, if_pos rfl, linfwd_step_is_generated_wrap times dfs t hn]⟩
    · by_cases h : i < times.length
      · exact ⟨_, by rw [if_neg h1, if_neg h0, if_pos h, linfwd_step_is_generated times dfs t i (by omega) h]⟩
      · have : i = times.length := by omega
        subst this
        exact ⟨_, by rw [if_neg h1, if_neg h0, if_neg h, linfwd_step_is_generated_right times dfs t hn]⟩

/-! ### the whole function -/

/-- the generated branch selected by the position `k` of the method chain. -/
noncomputable def genKernel (k : ℤ) (times dfs : List ℝ) (i : ℕ) (t : ℝ) : ℝ :=
  if k = 1 then genLinZero times dfs i t else if k = 2 then genFlat times dfs i t else genLinFwd times dfs i t

/-- **`_uinterpolate` is its generated pieces**: the generated first-knot test, then the generated method chain applied to the
generated branch body at the located index (`locate_is_generated_loop`: the generated loop followed by the generated
right-of-knot test), up to the division-by-zero guard of the compiled code.  Two knots or more (one knot: finding
`C02/single-knot-curve`). -/
theorem uinterp_is_generated (method : ℤ) (times dfs : List ℝ) (t : ℝ) (hn : 2 ≤ times.length) :
    ∃ dens, uinterp method times dfs t =
      if Gen.InterpLoopR.uinterp_first t (rd times times.length uinterp_first_reads.1) then
        .ok (rd dfs times.length uinterp_first_reads.2)
      else match uinterp_dispatch method with
        | .error e => .error e
        | .ok k => guardDiv dens (genKernel k times dfs (locate times t) t) := by
  have hr1 : rd times times.length uinterp_first_reads.1 = g times 0 := by simp [uinterp_first_reads, rd, pyIdx]
  have hr2 : rd dfs times.length uinterp_first_reads.2 = g dfs 0 := by simp [uinterp_first_reads, rd, pyIdx]
  rw [hr1, hr2]
  by_cases ht : t = g times 0
  · refine ⟨[], ?_⟩
    subst ht
    rw [Model.C02.uinterp_first method times dfs (by omega)]
    simp [Gen.InterpLoopR.uinterp_first]
  · have hloc := locate_le times t (by omega)
    have hf : Gen.InterpLoopR.uinterp_first t (g times 0) = false := by simp [Gen.InterpLoopR.uinterp_first, ht]
    rw [uinterp_kernel method times dfs t hn ht, hf]
    simp only [Bool.false_eq_true, if_false]
    by_cases h4 : method = 4
    · subst h4
      obtain ⟨d, hd⟩ := kernel_linzero_is_generated times dfs (locate times t) t hn hloc
      exact ⟨d, by rw [hd]; simp [uinterp_dispatch, genKernel]⟩
    · by_cases h1 : method = 1
      · subst h1
        obtain ⟨d, hd⟩ := kernel_flat_is_generated times dfs (locate times t) t hn hloc
        exact ⟨d, by rw [hd]; simp [uinterp_dispatch, genKernel]⟩
      · by_cases h2 : method = 2
        · subst h2
          obtain ⟨d, hd⟩ := kernel_linfwd_is_generated times dfs (locate times t) t hn hloc
          exact ⟨d, by rw [hd]; simp [uinterp_dispatch, genKernel]⟩
        · refine ⟨[], ?_⟩
          rw [kernel_other method times dfs _ t h1 h2 h4]
          simp [uinterp_dispatch, h1, h2, h4]

/-- the hypotheses of the theorems above are satisfiable (two knots, a query between them). -/
example : ∃ (times : List ℝ) (t : ℝ), 2 ≤ times.length ∧ locate times t ≤ times.length ∧ t ≠ g times 0 :=
  ⟨[0, 1], 0.5, by simp, locate_le _ _ (by simp), by norm_num [g]⟩

/-! ### index bounds of the generated reads (no out-of-range read for a located index `≥ 1`) -/

/-- FLAT_FWD_RATES, interior (`1 ≤ i < n`): the branch reads knots `i-1` and `i` of both arrays, both inside `[0, n)`. -/
theorem flat_reads_in_range (n i : ℕ) (h1 : 1 ≤ i) (hi : i < n) :
    let r := uinterp_k2_reads i
    (0 ≤ r.1 ∧ r.1 < n) ∧ (0 ≤ r.2.1 ∧ r.2.1 < n) ∧ r.2.2.1 = r.2.1 ∧ r.2.2.2.1 = r.1 := by
  dsimp only [uinterp_k2_reads]; omega

/-- FLAT_FWD_RATES, right extrapolation (`i = n ≥ 2`): the branch reads knots `n-2` and `n-1`, both inside `[0, n)`. -/
theorem flat_reads_in_range_right (n : ℕ) (hn : 2 ≤ n) :
    let r := uinterp_k2_reads n
    (0 ≤ r.2.2.2.2.1 ∧ r.2.2.2.2.1 < n) ∧ (0 ≤ r.1 ∧ r.1 < n) ∧ r.2.2.2.2.2 = r.2.2.2.2.1 ∧ r.2.2.2.1 = r.1 := by
  dsimp only [uinterp_k2_reads]; omega

/-- a query left of the first knot (`i = 0`) reads index `-1`: the wrap-around read behind finding
`C02/zeros-first-pillar-after-valuation` is in the generated text itself. -/
theorem flat_reads_wrap_at_zero : (uinterp_k2_reads 0).1 = -1 ∧ (uinterp_k2_reads 0).2.2.2.1 = -1 := by
  simp [uinterp_k2_reads]

/-- LINEAR_FWD_RATES, interior (`2 ≤ i < n`): knots `i-2`, `i-1`, `i`, all inside `[0, n)`. -/
theorem linfwd_reads_in_range (n i : ℕ) (h2 : 2 ≤ i) (hi : i < n) :
    let r := uinterp_k3_reads i
    (0 ≤ r.2.2.2.1 ∧ r.2.2.2.1 < n) ∧ (0 ≤ r.2.2.1 ∧ r.2.2.1 < n) ∧ (0 ≤ r.1 ∧ r.1 < n) := by
  dsimp only [uinterp_k3_reads]; omega

end FinVerif.Props.C02
