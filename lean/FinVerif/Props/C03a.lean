/-
  C03 (part a) — branching probabilities of the Hull–White / Black–Karasinski lattice
  (`probs`, the model of the `pu/pm/pd` loop of `build_tree_fast`), read over ℝ.
-/
import FinVerif.Lemmas.C03Sum
import FinVerif.Spec.C03

namespace FinVerif.Props.C03
open FinVerif.Model.C03 FinVerif.Spec.C03

/-- the three shapes, as real formulas (shape lemmas) -/
theorem probs_top (a dt : ℝ) (J : Nat) :
    probs 𝕆 a dt J J = ⟨7/6 + 1/2 * ((a*J*dt)*(a*J*dt) - 3*(a*J*dt)), -1/3 - (a*J*dt)*(a*J*dt) + 2*(a*J*dt),
      1/6 + 1/2 * ((a*J*dt)*(a*J*dt) - (a*J*dt))⟩ := by
  simp [probs]

theorem probs_bot (a dt : ℝ) (J : Nat) (hJ : 0 < J) :
    probs 𝕆 a dt J (-(J : Int)) = ⟨1/6 + 1/2 * ((a*(-J)*dt)*(a*(-J)*dt) + (a*(-J)*dt)),
      -1/3 - (a*(-J)*dt)*(a*(-J)*dt) - 2*(a*(-J)*dt), 7/6 + 1/2 * ((a*(-J)*dt)*(a*(-J)*dt) + 3*(a*(-J)*dt))⟩ := by
  have h : ¬ (-(J : Int) = J) := by omega
  simp [probs, h]

theorem probs_mid (a dt : ℝ) (J : Nat) (j : Int) (h1 : j ≠ J) (h2 : j ≠ -(J : Int)) :
    probs 𝕆 a dt J j = ⟨1/6 + 1/2 * ((a*j*dt)*(a*j*dt) - (a*j*dt)), 2/3 - (a*j*dt)*(a*j*dt),
      1/6 + 1/2 * ((a*j*dt)*(a*j*dt) + (a*j*dt))⟩ := by
  simp [probs, h1, h2]

/-- **C03** `pu + pm + pd = 1` at every node, for all three branch shapes, all `a, dt, j_max`. -/
theorem hw_probs_sum_one (a dt : ℝ) (J : Nat) (j : Int) :
    (probs 𝕆 a dt J j).u + (probs 𝕆 a dt J j).m + (probs 𝕆 a dt J j).d = 1 := by
  unfold probs
  split
  · simp; ring
  · split
    · simp; ring
    · simp; ring

/-- **C03** the branching matches Hull's moment conditions (mean `-a·j·Δt`, second moment
`(a·j·Δt)² + 1/3`) with the index moves of the three shapes. -/
theorem hw_probs_match_moments (a dt : ℝ) (J : Nat) (hJ : 0 < J) (j : Int) :
    let p := probs 𝕆 a dt J j
    let x := a * j * dt
    HullMoments ⟨p.u, p.m, p.d⟩
      (if j = J then 0 else if j = -(J : Int) then 2 else 1)
      (if j = J then -1 else if j = -(J : Int) then 1 else 0)
      (if j = J then -2 else if j = -(J : Int) then 0 else -1) x := by
  intro p x
  by_cases h1 : j = J
  · subst h1
    simp only [p, x, probs_top, HullMoments, if_true]
    push_cast
    refine ⟨by ring, by ring, by ring⟩
  · by_cases h2 : j = -(J : Int)
    · subst h2
      have h : ¬ (-(J : Int) = J) := by omega
      simp only [p, x, probs_bot a dt J hJ, HullMoments, h, if_false, if_true]
      push_cast
      refine ⟨by ring, by ring, by ring⟩
    · simp only [p, x, probs_mid a dt J j h1 h2, HullMoments, h1, h2, if_false]
      refine ⟨by ring, by ring, by ring⟩

/-- Hull's condition for a node: interior nodes need `|x| ≤ √(2/3)`, the edge nodes need
`1-√(2/3) ≤ |x| ≤ 1+√(2/3)`, written without square roots (`x = a·j·Δt`). -/
def HullCond (a dt : ℝ) (J : Nat) (j : Int) : Prop :=
  if j = J ∨ j = -(J : Int) then (1 - |a * j * dt|) ^ 2 ≤ 2 / 3 else (a * j * dt) ^ 2 ≤ 2 / 3

/-- **C03** under Hull's condition every probability lies in `[0,1]`. -/
theorem hw_probs_in_unit_interval (a dt : ℝ) (J : Nat) (hJ : 0 < J) (j : Int) (ha : 0 ≤ a * dt)
    (hj : -(J : Int) ≤ j ∧ j ≤ J) (hc : HullCond a dt J j) :
    let p := probs 𝕆 a dt J j
    (0 ≤ p.u ∧ p.u ≤ 1) ∧ (0 ≤ p.m ∧ p.m ≤ 1) ∧ (0 ≤ p.d ∧ p.d ≤ 1) := by
  intro p
  have hs := hw_probs_sum_one a dt J j
  suffices h : 0 ≤ p.u ∧ 0 ≤ p.m ∧ 0 ≤ p.d by
    obtain ⟨hu, hm, hd⟩ := h
    refine ⟨⟨hu, ?_⟩, ⟨hm, ?_⟩, ⟨hd, ?_⟩⟩ <;> simp only [p] at * <;> linarith
  unfold HullCond at hc
  by_cases h1 : j = J
  · subst h1
    have hx : 0 ≤ a * ((J : Int) : ℝ) * dt := by
      have : a * ((J : Int) : ℝ) * dt = (a * dt) * (J : ℝ) := by push_cast; ring
      rw [this]; positivity
    simp only [true_or, if_true, abs_of_nonneg hx] at hc
    simp only [p, probs_top]
    push_cast at hc hx ⊢
    set x := a * (J : ℝ) * dt
    refine ⟨by nlinarith [sq_nonneg (x - 3/2)], by nlinarith, by nlinarith [sq_nonneg (x - 1/2)]⟩
  · by_cases h2 : j = -(J : Int)
    · subst h2
      have hx : a * ((-(J : Int) : Int) : ℝ) * dt ≤ 0 := by
        have : a * ((-(J : Int) : Int) : ℝ) * dt = -((a * dt) * (J : ℝ)) := by push_cast; ring
        rw [this]; simp only [Left.neg_nonpos_iff]; positivity
      simp only [or_true, if_true, abs_of_nonpos hx] at hc
      simp only [p, probs_bot a dt J hJ]
      push_cast at hc hx ⊢
      set x := a * (-(J : ℝ)) * dt
      refine ⟨by nlinarith [sq_nonneg (x + 1/2)], by nlinarith, by nlinarith [sq_nonneg (x + 3/2)]⟩
    · simp only [h1, h2, or_self, if_false] at hc
      simp only [p, probs_mid a dt J j h1 h2]
      set x := a * (j : ℝ) * dt
      refine ⟨by nlinarith [sq_nonneg (x - 1/2)], by nlinarith, by nlinarith [sq_nonneg (x + 1/2)]⟩

/-- non-vacuity: `a = 0.1`, `Δt = 0.25`, `j_max = 8` (`a·j_max·Δt = 0.2`) meets Hull's condition at the edge -/
example : HullCond (1/10) (1/4) 8 8 := by
  unfold HullCond; norm_num [abs_of_nonneg]

/-- The threshold in the code: `j_max = ceil(0.1835/(a·Δt))` only guarantees `a·j_max·Δt ≥ 0.1835`. -/
def CodeThresholdSuffices : Prop :=
  ∀ (a dt : ℝ) (J : Nat), 0 < J → 0 ≤ a * dt → (1835 : ℝ) / 10000 ≤ a * J * dt → a * J * dt ≤ 1 →
    0 ≤ (probs 𝕆 a dt J J).m

/-- **C03 counterexample** (known finding `C03/hw-jmax-threshold-0.1835`): at `a = 0.1835`, `Δt = 1`,
`j_max = 1` the code's threshold is met and the middle probability of the edge node is negative
(`-5.58e-6`); `1 - √(2/3) = 0.18350342…` is what is needed. -/
theorem hw_code_threshold_not_enough : ¬ CodeThresholdSuffices := by
  intro h
  have := h (1835/10000) 1 1 (by norm_num) (by norm_num) (by norm_num) (by norm_num)
  rw [probs_top] at this
  norm_num at this

end FinVerif.Props.C03
