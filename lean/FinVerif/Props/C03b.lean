/-
  C03 (part b) — Arrow–Debreu state prices: support, non-negativity, the pairing with one
  backward step (the key lemma), and "every row sums to the curve discount factor":
  Hull–White by its closed-form `alpha`, Black–Karasinski from the root-search postcondition,
  Black–Derman–Toy under consistent compounding — and not as coded (counterexample).
-/
import FinVerif.Props.C03a

namespace FinVerif.Props.C03
open FinVerif.Model.C03 Finset

/-- the three branch targets of a node of level `nm` stay inside the next level -/
theorem targets_in (J : Nat) (hJ : 0 < J) (nm : Int) (h0 : 0 ≤ nm) (hn : nm ≤ J) (j : Int)
    (hj : -nm ≤ j ∧ j ≤ nm) :
    (-(min (nm + 1) (J : Int)) ≤ upT J j ∧ upT J j ≤ min (nm + 1) (J : Int)) ∧
    (-(min (nm + 1) (J : Int)) ≤ midT J j ∧ midT J j ≤ min (nm + 1) (J : Int)) ∧
    (-(min (nm + 1) (J : Int)) ≤ dnT J j ∧ dnT J j ≤ min (nm + 1) (J : Int)) := by
  unfold upT midT dnT
  split_ifs <;> omega

/-- **key lemma.** Pairing the next level of state prices with any function `V` equals pairing this
level with one backward-induction step of `V` (all branch shapes, any probabilities and discounts). -/
theorem fwdStep_pair (J : Nat) (hJ : 0 < J) (nm : Int) (h0 : 0 ≤ nm) (hn : nm ≤ J)
    (p : Int → P3 ℝ) (z Q V : Int → ℝ) :
    ∑ i ∈ Icc (-(J : Int)) J, fwdStep 𝕆 J nm p z Q i * V i
      = ∑ j ∈ Icc (-nm) nm, Q j * backStep J p z V j := by
  simp only [fwdStep, sumR_eq, ind_real, Finset.sum_mul]
  rw [Finset.sum_comm]
  apply Finset.sum_congr rfl
  intro j hj
  rw [mem_Icc] at hj
  obtain ⟨⟨hu1, hu2⟩, ⟨hm1, hm2⟩, ⟨hd1, hd2⟩⟩ := targets_in J hJ nm h0 hn j hj
  simp only [add_mul, Finset.sum_add_distrib]
  rw [sum_ind_mul _ _ _ ⟨by omega, by omega⟩, sum_ind_mul _ _ _ ⟨by omega, by omega⟩,
    sum_ind_mul _ _ _ ⟨by omega, by omega⟩]
  unfold backStep
  ring

theorem fwdStep_support (J : Nat) (hJ : 0 < J) (nm : Int) (h0 : 0 ≤ nm) (hn : nm ≤ J)
    (p : Int → P3 ℝ) (z Q : Int → ℝ) (i : Int)
    (hi : ¬ (-(min (nm + 1) (J : Int)) ≤ i ∧ i ≤ min (nm + 1) (J : Int))) :
    fwdStep 𝕆 J nm p z Q i = 0 := by
  simp only [fwdStep, sumR_eq, ind_real]
  apply Finset.sum_eq_zero
  intro j hj
  rw [mem_Icc] at hj
  obtain ⟨hu, hm, hd⟩ := targets_in J hJ nm h0 hn j hj
  have h1 : ¬ i = upT J j := fun h => hi (h ▸ hu)
  have h2 : ¬ i = midT J j := fun h => hi (h ▸ hm)
  have h3 : ¬ i = dnT J j := fun h => hi (h ▸ hd)
  simp [h1, h2, h3]

theorem fwdStep_nonneg (J : Nat) (nm : Int) (p : Int → P3 ℝ) (z Q : Int → ℝ)
    (hp : ∀ j, -nm ≤ j ∧ j ≤ nm → 0 ≤ (p j).u ∧ 0 ≤ (p j).m ∧ 0 ≤ (p j).d)
    (hz : ∀ j, 0 ≤ z j) (hQ : ∀ j, 0 ≤ Q j) (i : Int) : 0 ≤ fwdStep 𝕆 J nm p z Q i := by
  simp only [fwdStep, sumR_eq, ind_real]
  apply Finset.sum_nonneg
  intro j hj
  rw [mem_Icc] at hj
  obtain ⟨hu, hm, hd⟩ := hp j hj
  have := hz j; have := hQ j
  refine add_nonneg (add_nonneg ?_ ?_) ?_ <;> split <;> positivity

theorem nmOf_bounds (J m : Nat) : 0 ≤ nmOf J m ∧ nmOf J m ≤ J := by
  unfold nmOf; omega

theorem nmOf_succ (J m : Nat) : min (nmOf J m + 1) (J : Int) = nmOf J (m + 1) := by
  unfold nmOf; omega

/-- A lattice of state prices: level 0 is the unit mass at the root, each level is one forward
step of the previous one (HW and BK are instances, see `hw_isLattice`, `bk_isLattice`). -/
def IsLattice (J : Nat) (p : Int → P3 ℝ) (z : Nat → Int → ℝ) (Q : Nat → Int → ℝ) : Prop :=
  Q 0 = q0 𝕆 ∧ ∀ m, Q (m + 1) = fwdStep 𝕆 J (nmOf J m) p (z m) (Q m)

theorem hw_isLattice (a dt dR : ℝ) (J : Nat) (P : Nat → ℝ) :
    IsLattice J (probs 𝕆 a dt J)
      (fun m => hwZ 𝕆 dt dR (hwAlpha 𝕆 dt dR (nmOf J m) (hwQ 𝕆 a dt dR J P m) (P (m + 1))))
      (hwQ 𝕆 a dt dR J P) := ⟨rfl, fun _ => rfl⟩

theorem bk_isLattice (a dt dX : ℝ) (J : Nat) (al : Nat → ℝ) :
    IsLattice J (probs 𝕆 a dt J) (fun m => bkZ 𝕆 dt dX (al m)) (bkQ 𝕆 a dt dX J al) :=
  ⟨rfl, fun _ => rfl⟩

/-- state prices vanish outside the reachable nodes `|i| ≤ min(m, j_max)` -/
theorem lattice_support {J : Nat} (hJ : 0 < J) {p z Q} (h : IsLattice J p z Q) (m : Nat) (i : Int)
    (hi : ¬ (-(nmOf J m) ≤ i ∧ i ≤ nmOf J m)) : Q m i = 0 := by
  cases m with
  | zero =>
    rw [h.1]; unfold q0
    have : i ≠ 0 := by intro h0; apply hi; subst h0; unfold nmOf; omega
    simp [this]
  | succ m =>
    rw [h.2 m]
    obtain ⟨h0, hn⟩ := nmOf_bounds J m
    apply fwdStep_support J hJ _ h0 hn
    rw [nmOf_succ]; exact hi

/-- with non-negative probabilities and discounts all state prices are non-negative -/
theorem lattice_nonneg {J : Nat} {p z Q} (h : IsLattice J p z Q)
    (hp : ∀ j, -(J : Int) ≤ j ∧ j ≤ J → 0 ≤ (p j).u ∧ 0 ≤ (p j).m ∧ 0 ≤ (p j).d)
    (hz : ∀ m j, 0 ≤ z m j) (m : Nat) (i : Int) : 0 ≤ Q m i := by
  induction m generalizing i with
  | zero => rw [h.1]; unfold q0; split <;> simp
  | succ m ih =>
    rw [h.2 m]
    obtain ⟨h0, hn⟩ := nmOf_bounds J m
    exact fwdStep_nonneg J _ p _ _ (fun j hj => hp j ⟨by omega, by omega⟩) (hz m) ih i

/-- **C03** (pairing form of the key lemma on a lattice, full rows) -/
theorem lattice_pair {J : Nat} (hJ : 0 < J) {p z Q} (h : IsLattice J p z Q) (m : Nat) (V : Int → ℝ) :
    ∑ i ∈ Icc (-(J : Int)) J, Q (m + 1) i * V i
      = ∑ j ∈ Icc (-(J : Int)) J, Q m j * backStep J p (z m) V j := by
  obtain ⟨h0, hn⟩ := nmOf_bounds J m
  rw [h.2 m, fwdStep_pair J hJ _ h0 hn]
  apply Finset.sum_subset
  · intro j; simp only [mem_Icc]; omega
  · intro j _ hj
    rw [lattice_support hJ h m j (by simpa [mem_Icc] using hj)]; ring

/-- one step of any lattice whose probabilities sum to one: the next row sums to the discounted
pairing of this row -/
theorem lattice_row_step {J : Nat} (hJ : 0 < J) {p z Q} (h : IsLattice J p z Q)
    (hp : ∀ j, (p j).u + (p j).m + (p j).d = 1) (m : Nat) :
    ∑ i ∈ Icc (-(J : Int)) J, Q (m + 1) i = ∑ j ∈ Icc (-(J : Int)) J, Q m j * z m j := by
  have := lattice_pair hJ h m (fun _ => 1)
  simp only [mul_one] at this
  rw [this]
  apply Finset.sum_congr rfl
  intro j _
  unfold backStep
  have := hp j
  rw [show (p j).u * 1 + (p j).m * 1 + (p j).d * 1 = 1 by linarith]; ring

theorem sum_restrict {J : Nat} (hJ : 0 < J) {p z Q} (h : IsLattice J p z Q) (m : Nat) (X : Int → ℝ) :
    ∑ j ∈ Icc (-(nmOf J m)) (nmOf J m), Q m j * X j = ∑ j ∈ Icc (-(J : Int)) J, Q m j * X j := by
  obtain ⟨h0, hn⟩ := nmOf_bounds J m
  apply Finset.sum_subset
  · intro j; simp only [mem_Icc]; omega
  · intro j _ hj
    rw [lattice_support hJ h m j (by simpa [mem_Icc] using hj)]; ring

/-- **C03** Hull–White: with the closed-form `alpha`, `Σ_j Q[m+1, j] = P(0, t_{m+1})` for every `m`,
for every curve `P`, every `a, σ, Δt ≠ 0, j_max ≥ 1`, provided the quantity under the logarithm
(`sum_qz / df`) is positive (see `hw_sumQz_pos` for when it is). -/
theorem hw_row_sum_eq_df (a dt dR : ℝ) (J : Nat) (hJ : 0 < J) (P : Nat → ℝ) (hdt : dt ≠ 0) (m : Nat)
    (hP : 0 < P (m + 1)) (hS : 0 < hwSumQz 𝕆 dt dR (nmOf J m) (hwQ 𝕆 a dt dR J P m)) :
    ∑ i ∈ Icc (-(J : Int)) J, hwQ 𝕆 a dt dR J P (m + 1) i = P (m + 1) := by
  have hL := hw_isLattice a dt dR J P
  rw [lattice_row_step hJ hL (hw_probs_sum_one a dt J) m, ← sum_restrict hJ hL m]
  set S := hwSumQz 𝕆 dt dR (nmOf J m) (hwQ 𝕆 a dt dR J P m) with hSdef
  have hz : ∀ j : Int, hwZ 𝕆 dt dR (hwAlpha 𝕆 dt dR (nmOf J m) (hwQ 𝕆 a dt dR J P m) (P (m + 1))) j
      = (P (m + 1) / S) * Real.exp (-((j : ℝ) * dR * dt)) := by
    intro j
    simp only [hwZ, hwRate, hwAlpha, exp_real, log_real, ofInt_real, ← hSdef]
    have : -((Real.log (S / P (m + 1)) / dt + (j : ℝ) * dR) * dt)
        = -Real.log (S / P (m + 1)) + -((j : ℝ) * dR * dt) := by field_simp; ring
    rw [this, Real.exp_add, Real.exp_neg, Real.exp_log (div_pos hS hP), inv_div]
  simp only [hz]
  have hS' : S = ∑ j ∈ Icc (-(nmOf J m)) (nmOf J m), hwQ 𝕆 a dt dR J P m j * Real.exp (-((j : ℝ) * dR * dt)) := by
    rw [hSdef]; simp only [hwSumQz, sumR_eq, exp_real, ofInt_real]
  have : ∑ j ∈ Icc (-(nmOf J m)) (nmOf J m), hwQ 𝕆 a dt dR J P m j * (P (m + 1) / S * Real.exp (-((j : ℝ) * dR * dt)))
      = P (m + 1) / S * S := by
    rw [hS', Finset.mul_sum]; apply Finset.sum_congr rfl; intros; ring
  rw [this]; field_simp

/-- the quantity under HW's logarithm is positive once the previous row is non-negative and sums
to a positive discount factor (which `hw_row_sum_eq_df` provides inductively under Hull's condition) -/
theorem hw_sumQz_pos (dt dR : ℝ) (J : Nat) (hJ : 0 < J) {p z Q} (h : IsLattice J p z Q) (m : Nat)
    (hQ : ∀ j, 0 ≤ Q m j) (hrow : 0 < ∑ j ∈ Icc (-(J : Int)) J, Q m j) :
    0 < hwSumQz 𝕆 dt dR (nmOf J m) (Q m) := by
  simp only [hwSumQz, sumR_eq, exp_real, ofInt_real]
  rw [sum_restrict hJ h m (fun j => Real.exp (-((j : ℝ) * dR * dt)))]
  by_contra hneg
  have hle : ∀ j ∈ Icc (-(J : Int)) J, 0 ≤ Q m j * Real.exp (-((j : ℝ) * dR * dt)) :=
    fun j _ => mul_nonneg (hQ j) (Real.exp_pos _).le
  have h0 : ∑ j ∈ Icc (-(J : Int)) J, Q m j * Real.exp (-((j : ℝ) * dR * dt)) = 0 :=
    le_antisymm (not_lt.mp hneg) (Finset.sum_nonneg hle)
  have hz := (Finset.sum_eq_zero_iff_of_nonneg hle).mp h0
  have : ∑ j ∈ Icc (-(J : Int)) J, Q m j = 0 := by
    apply Finset.sum_eq_zero
    intro j hj
    have := hz j hj
    rcases mul_eq_zero.mp this with h1 | h1
    · exact h1
    · exact absurd h1 (Real.exp_pos _).ne'
  linarith

/-- **C03** Black–Karasinski: the next row sums to the curve discount factor exactly when the root
search's objective vanishes, and misses it by exactly the residual otherwise (`|f| ≤ 1e-8` in the code). -/
theorem bk_row_sum_of_postcondition (a dt dX : ℝ) (J : Nat) (hJ : 0 < J) (al : Nat → ℝ) (P1 : ℝ) (m : Nat) :
    ∑ i ∈ Icc (-(J : Int)) J, bkQ 𝕆 a dt dX J al (m + 1) i
      = P1 + bkF 𝕆 dt dX (nmOf J m) (bkQ 𝕆 a dt dX J al m) P1 (al m) := by
  have hL := bk_isLattice a dt dX J al
  rw [lattice_row_step hJ hL (hw_probs_sum_one a dt J) m, ← sum_restrict hJ hL m]
  simp only [bkF, sumR_eq]; ring

/-! ### BDT -/

/-- one BDT step: the next row sums to the pairing of this row with the propagation discount -/
theorem bdt_row_step (disc : ℝ → ℝ) (m : Nat) (Q r : Nat → ℝ) :
    ∑ k ∈ range (m + 2), bdtNext 𝕆 disc m Q r k = ∑ i ∈ range (m + 1), Q i * disc (r i) := by
  induction m generalizing Q r with
  | zero =>
    simp [Finset.sum_range_succ, bdtNext]; ring
  | succ m ih =>
    -- split off the last two targets and compare with the step of size m on the same data
    have key : ∀ k ∈ range (m + 1), bdtNext 𝕆 disc (m + 1) Q r k = bdtNext 𝕆 disc m Q r k := by
      intro k hk
      rw [mem_range] at hk
      unfold bdtNext
      by_cases h0 : k = 0
      · simp [h0]
      · have h1 : ¬ k = m + 1 + 1 := by omega
        have h2 : ¬ k = m + 1 := by omega
        have h3 : k ≤ m + 1 := by omega
        have h4 : k ≤ m := by omega
        simp [h0, h1, h2, h3, h4]
    rw [Finset.sum_range_succ, Finset.sum_range_succ, Finset.sum_congr rfl key]
    have e1 : bdtNext 𝕆 disc (m + 1) Q r (m + 1) = 1 / 2 * Q m * disc (r m) + 1 / 2 * Q (m + 1) * disc (r (m + 1)) := by
      unfold bdtNext; simp
    have e2 : bdtNext 𝕆 disc (m + 1) Q r (m + 1 + 1) = 1 / 2 * Q (m + 1) * disc (r (m + 1)) := by
      unfold bdtNext; simp
    have e3 : bdtNext 𝕆 disc m Q r (m + 1) = 1 / 2 * Q m * disc (r m) := by
      unfold bdtNext; simp
    have := ih Q r
    rw [Finset.sum_range_succ, e3] at this
    rw [e1, e2, Finset.sum_range_succ (fun i => Q i * disc (r i))]
    linarith

/-- **C03** BDT under consistent compounding: if the drift search and the propagation use the same
one-period discounting and the search objective vanishes, the next row sums to the curve df. -/
theorem bdt_row_sum_of_consistent_compounding (disc : ℝ → ℝ) (m : Nat) (Q r : Nat → ℝ) (dfEnd : ℝ)
    (hpost : bdtF 𝕆 disc m Q r dfEnd = 0) :
    ∑ k ∈ range (m + 2), bdtNext 𝕆 disc m Q r k = dfEnd := by
  rw [bdt_row_step]
  simp only [bdtF, sumN_eq] at hpost
  linarith

/-- **C03** BDT as coded (search with `1/(1+r)^Δt`, propagation with `exp(-r·Δt)`): the row misses
the curve df by exactly the compounding mismatch — the classifier of `C03/bdt-mixed-compounding`. -/
theorem bdt_row_sum_asCoded (dt : ℝ) (m : Nat) (Q r : Nat → ℝ) (dfEnd : ℝ)
    (hpost : bdtF 𝕆 (discAnnual 𝕆 dt) m Q r dfEnd = 0) :
    ∑ k ∈ range (m + 2), bdtNext 𝕆 (discCont 𝕆 dt) m Q r k
      = dfEnd - ∑ i ∈ range (m + 1), Q i * (discAnnual 𝕆 dt (r i) - discCont 𝕆 dt (r i)) := by
  rw [bdt_row_step]
  simp only [bdtF, sumN_eq] at hpost
  simp only [mul_sub, Finset.sum_sub_distrib]
  linarith

/-- the full statement for the code as written -/
def BdtAsCodedFits : Prop :=
  ∀ (dt : ℝ) (m : Nat) (Q r : Nat → ℝ) (dfEnd : ℝ), 0 < dt →
    bdtF 𝕆 (discAnnual 𝕆 dt) m Q r dfEnd = 0 →
    ∑ k ∈ range (m + 2), bdtNext 𝕆 (discCont 𝕆 dt) m Q r k = dfEnd

/-- **C03 counterexample** (known finding `C03/bdt-mixed-compounding`): `Δt = 1`, one node with
state price 1 and short rate 100 %: the search is satisfied by `df = 1/2`, the propagated row sums
to `e⁻¹ < 1/2`. -/
theorem bdt_asCoded_not_fit : ¬ BdtAsCodedFits := by
  intro h
  have := h 1 0 (fun _ => 1) (fun _ => 1) (1 / 2) one_pos
    (by simp [bdtF, sumN_eq, discAnnual]; norm_num)
  rw [bdt_row_step] at this
  simp [discCont] at this
  have h2 : (2 : ℝ) < Real.exp 1 := by
    have := Real.add_one_lt_exp (x := (1 : ℝ)) one_ne_zero
    linarith
  have : Real.exp 1 = 2 := by
    rw [Real.exp_neg] at this
    field_simp at this
    linarith
  linarith

end FinVerif.Props.C03
