/-
  C03 (part c) — backward induction on the lattice.
  * The pairing `Σ_j Q[m,j]·V[m,j]` is invariant under one backward step, hence (induction over the
    steps) zero-coupon and option-free coupon bonds price to the curve whenever the rows fit it.
  * The backward operator is monotone when probabilities and discounts are non-negative, hence
    more exercise rights never lower an option value (american ≥ bermudan ≥ european ≥ 0) and
    callable ≤ option-free ≤ puttable.
-/
import FinVerif.Props.C03b

namespace FinVerif.Props.C03
open FinVerif.Model.C03 Finset

/-- **C03** (backward-induction invariance, induction over steps).  On any lattice, the state-price
pairing of the option-free bond `d` levels below the terminal level `M` equals the pairing of the
terminal values plus every later flow times the row sum of its level. -/
theorem bond_pair_invariant {J : Nat} (hJ : 0 < J) {p z Q} (h : IsLattice J p z Q)
    (flow : Nat → ℝ) (term : Int → ℝ) (M d : Nat) (hd : d ≤ M) :
    ∑ j ∈ Icc (-(J : Int)) J, Q (M - d) j * bondBack J p z flow term M d j
      = ∑ i ∈ Icc (-(J : Int)) J, Q M i * term i
        + ∑ k ∈ range d, flow (M - (k + 1)) * ∑ j ∈ Icc (-(J : Int)) J, Q (M - (k + 1)) j := by
  induction d with
  | zero => simp [bondBack]
  | succ d ih =>
    have ih' := ih (by omega)
    have hm : M - d = (M - (d + 1)) + 1 := by omega
    rw [Finset.sum_range_succ, ← add_assoc, ← ih', hm, lattice_pair hJ h (M - (d + 1))]
    simp only [bondBack, bondLevel, mul_add, Finset.sum_add_distrib, ← Finset.sum_mul]
    ring

theorem q0_pair (J : Nat) (X : Int → ℝ) : ∑ j ∈ Icc (-(J : Int)) J, q0 𝕆 j * X j = X 0 := by
  have : ∀ j ∈ Icc (-(J : Int)) J, q0 𝕆 j * X j = if j = 0 then X 0 else 0 := by
    intro j _; unfold q0; split <;> simp_all
  rw [Finset.sum_congr rfl this, Finset.sum_ite_eq' (Icc (-(J : Int)) J) 0]
  simp [mem_Icc]

/-- **C03** an option-free coupon bond valued by backward induction on a lattice whose rows fit the
curve is worth its curve PV: redemption `c` at level `M` and flow `flow m` at every level `m < M`. -/
theorem option_free_bond_on_tree_eq_pv {J : Nat} (hJ : 0 < J) {p z Q} (h : IsLattice J p z Q)
    (P : Nat → ℝ) (hfit : ∀ m, m ≤ M → ∑ j ∈ Icc (-(J : Int)) J, Q m j = P m)
    (flow : Nat → ℝ) (c : ℝ) :
    bondBack J p z flow (fun _ => c) M M 0 = c * P M + ∑ k ∈ range M, flow (M - (k + 1)) * P (M - (k + 1)) := by
  have := bond_pair_invariant hJ h flow (fun _ => c) M M le_rfl
  rw [Nat.sub_self, h.1, q0_pair, ← Finset.sum_mul, hfit M le_rfl] at this
  rw [this, mul_comm]
  congr 1
  apply Finset.sum_congr rfl
  intro k hk
  rw [hfit _ (by omega)]

/-- **C03** a zero-coupon bond on the tree is the curve discount factor. -/
theorem zcb_on_tree_eq_curve {J : Nat} (hJ : 0 < J) {p z Q} (h : IsLattice J p z Q)
    (P : Nat → ℝ) (hfit : ∀ m, m ≤ M → ∑ j ∈ Icc (-(J : Int)) J, Q m j = P m) :
    bondBack J p z (fun _ => 0) (fun _ => 1) M M 0 = P M := by
  rw [option_free_bond_on_tree_eq_pv hJ h P hfit]; simp

/-! ### monotonicity -/

/-- nodes of the lattice -/
def Node (J : Nat) (j : Int) : Prop := -(J : Int) ≤ j ∧ j ≤ J

theorem node_targets (J : Nat) (hJ : 0 < J) (j : Int) (hj : Node J j) :
    Node J (upT J j) ∧ Node J (midT J j) ∧ Node J (dnT J j) := by
  obtain ⟨a, b, c⟩ := targets_in J hJ J (by omega) le_rfl j hj
  unfold Node; omega

/-- non-negative probabilities and discounts at the nodes (what `hw_probs_in_unit_interval` gives) -/
def NonNeg (J : Nat) (p : Int → P3 ℝ) (z : Nat → Int → ℝ) : Prop :=
  ∀ j, Node J j → (0 ≤ (p j).u ∧ 0 ≤ (p j).m ∧ 0 ≤ (p j).d) ∧ ∀ m, 0 ≤ z m j

theorem backStep_mono {J : Nat} (hJ : 0 < J) {p z} (hn : NonNeg J p z) (m : Nat) (V W : Int → ℝ)
    (hVW : ∀ i, Node J i → V i ≤ W i) (j : Int) (hj : Node J j) :
    backStep J p (z m) V j ≤ backStep J p (z m) W j := by
  obtain ⟨⟨hu, hm, hd⟩, hz⟩ := hn j hj
  obtain ⟨tu, tm, td⟩ := node_targets J hJ j hj
  unfold backStep
  apply mul_le_mul_of_nonneg_right _ (hz m)
  have := mul_le_mul_of_nonneg_left (hVW _ tu) hu
  have := mul_le_mul_of_nonneg_left (hVW _ tm) hm
  have := mul_le_mul_of_nonneg_left (hVW _ td) hd
  linarith

theorem backStep_nonneg {J : Nat} (hJ : 0 < J) {p z} (hn : NonNeg J p z) (m : Nat) (V : Int → ℝ)
    (hV : ∀ i, Node J i → 0 ≤ V i) (j : Int) (hj : Node J j) : 0 ≤ backStep J p (z m) V j := by
  have := backStep_mono hJ hn m (fun _ => 0) V hV j hj
  simpa [backStep] using this

/-- **C03** option values are non-negative at every node and level. -/
theorem option_value_nonneg {J : Nat} (hJ : 0 < J) {p z} (hn : NonNeg J p z)
    (payoff : Nat → Int → ℝ) (ex : Nat → Bool) (M d : Nat) (j : Int) (hj : Node J j) :
    0 ≤ optBack 𝕆 J p z payoff ex M d j := by
  induction d generalizing j with
  | zero => simp [optBack]
  | succ d ih =>
    simp only [optBack, optLevel]
    have := backStep_nonneg hJ hn (M - (d + 1)) _ (fun i hi => ih i hi) j hj
    split
    · simp only [max_real]; exact le_max_of_le_right this
    · exact this

/-- **C03** more exercise rights never lower the value: if exercise is allowed under `ex'` whenever
it is under `ex`, the value under `ex'` dominates, at every node and level (monotone operator,
induction over steps). -/
theorem option_value_mono_exercise {J : Nat} (hJ : 0 < J) {p z} (hn : NonNeg J p z)
    (payoff : Nat → Int → ℝ) (ex ex' : Nat → Bool) (hex : ∀ m, ex m = true → ex' m = true)
    (M d : Nat) (j : Int) (hj : Node J j) :
    optBack 𝕆 J p z payoff ex M d j ≤ optBack 𝕆 J p z payoff ex' M d j := by
  induction d generalizing j with
  | zero => simp [optBack]
  | succ d ih =>
    simp only [optBack, optLevel]
    have hb := backStep_mono hJ hn (M - (d + 1)) _ _ (fun i hi => ih i hi) j hj
    cases h1 : ex (M - (d + 1)) with
    | true =>
      rw [hex _ h1]
      simp only [if_true, max_real]
      exact max_le_max le_rfl hb
    | false =>
      cases h2 : ex' (M - (d + 1)) with
      | true => simp only [if_true, max_real]; exact le_max_of_le_right hb
      | false => simpa using hb

/-- **C03** `american ≥ european ≥ 0` (the european option exercises only at expiry, which `optBack`
always allows at level `M`; the american one at every level). -/
theorem american_ge_european_ge_0 {J : Nat} (hJ : 0 < J) {p z} (hn : NonNeg J p z)
    (payoff : Nat → Int → ℝ) (M : Nat) :
    0 ≤ optBack 𝕆 J p z payoff (fun _ => false) M M 0 ∧
    optBack 𝕆 J p z payoff (fun _ => false) M M 0 ≤ optBack 𝕆 J p z payoff (fun _ => true) M M 0 := by
  have h0 : Node J 0 := by unfold Node; omega
  exact ⟨option_value_nonneg hJ hn _ _ M M 0 h0,
    option_value_mono_exercise hJ hn _ _ _ (fun _ h => by simp at h) M M 0 h0⟩

theorem cpClamp_mono (acc put put' call call' v v' : ℝ) (hp : put ≤ put') (hc : call ≤ call') (hv : v ≤ v') :
    cpClamp 𝕆 acc put call v ≤ cpClamp 𝕆 acc put' call' v' := by
  simp only [cpClamp, min_real, max_real]
  have : max (v - acc) put ≤ max (v' - acc) put' := max_le_max (by linarith) hp
  have := min_le_min this hc
  linarith

/-- **C03** the callable/puttable bond value is monotone in both schedules: lowering call prices
(more call rights for the issuer) lowers it, raising put prices raises it. -/
theorem cp_mono_schedules {J : Nat} (hJ : 0 < J) {p z} (hn : NonNeg J p z)
    (flow acc put put' call call' : Nat → ℝ) (term : Int → ℝ)
    (hp : ∀ m, put m ≤ put' m) (hc : ∀ m, call m ≤ call' m) (M d : Nat) (j : Int) (hj : Node J j) :
    cpBack 𝕆 J p z flow acc put call term M d j ≤ cpBack 𝕆 J p z flow acc put' call' term M d j := by
  induction d generalizing j with
  | zero => simp only [cpBack]; exact cpClamp_mono _ _ _ _ _ _ _ (hp M) (hc M) le_rfl
  | succ d ih =>
    simp only [cpBack, cpLevel]
    have hb := backStep_mono hJ hn (M - (d + 1)) _ _ (fun i hi => ih i hi) j hj
    exact cpClamp_mono _ _ _ _ _ _ _ (hp _) (hc _) (by linarith)

/-- **C03** `callable ≤ option-free`: with the put floor never above the option-free clean value
(the code's "no put" is a floor of 0 on the clean price). -/
theorem callable_le_pure {J : Nat} (hJ : 0 < J) {p z} (hn : NonNeg J p z)
    (flow acc put call : Nat → ℝ) (term : Int → ℝ) (M : Nat)
    (hput : ∀ d, d ≤ M → ∀ j, Node J j → put (M - d) ≤ bondBack J p z flow term M d j - acc (M - d))
    (d : Nat) (hd : d ≤ M) (j : Int) (hj : Node J j) :
    cpBack 𝕆 J p z flow acc put call term M d j ≤ bondBack J p z flow term M d j := by
  induction d generalizing j with
  | zero =>
    have := hput 0 (Nat.zero_le _) j hj
    simp only [cpBack, bondBack, cpClamp, min_real, max_real, Nat.sub_zero] at *
    have h1 : max (term j - acc M) (put M) = term j - acc M := max_eq_left this
    have := min_le_left (max (term j - acc M) (put M)) (call M)
    linarith
  | succ d ih =>
    have hb := backStep_mono hJ hn (M - (d + 1)) _ _ (fun i hi => ih (by omega) i hi) j hj
    have := hput (d + 1) hd j hj
    simp only [cpBack, cpLevel, bondBack, bondLevel, cpClamp, min_real, max_real] at *
    set x := backStep J p (z (M - (d + 1))) (cpBack 𝕆 J p z flow acc put call term M d) j
    set y := backStep J p (z (M - (d + 1))) (bondBack J p z flow term M d) j
    have h1 : max (x + flow (M - (d + 1)) - acc (M - (d + 1))) (put (M - (d + 1)))
        ≤ y + flow (M - (d + 1)) - acc (M - (d + 1)) := max_le (by linarith) this
    have := min_le_left (max (x + flow (M - (d + 1)) - acc (M - (d + 1))) (put (M - (d + 1)))) (call (M - (d + 1)))
    linarith

/-- **C03** `option-free ≤ puttable`: with the call cap never below the option-free clean value
(the code's "no call" is a cap of `1000·face`). -/
theorem pure_le_puttable {J : Nat} (hJ : 0 < J) {p z} (hn : NonNeg J p z)
    (flow acc put call : Nat → ℝ) (term : Int → ℝ) (M : Nat)
    (hcall : ∀ d, d ≤ M → ∀ j, Node J j → bondBack J p z flow term M d j - acc (M - d) ≤ call (M - d))
    (d : Nat) (hd : d ≤ M) (j : Int) (hj : Node J j) :
    bondBack J p z flow term M d j ≤ cpBack 𝕆 J p z flow acc put call term M d j := by
  induction d generalizing j with
  | zero =>
    have := hcall 0 (Nat.zero_le _) j hj
    simp only [cpBack, bondBack, cpClamp, min_real, max_real, Nat.sub_zero] at *
    have h1 : term j - acc M ≤ min (max (term j - acc M) (put M)) (call M) :=
      le_min (le_max_left _ _) this
    linarith
  | succ d ih =>
    have hb := backStep_mono hJ hn (M - (d + 1)) _ _ (fun i hi => ih (by omega) i hi) j hj
    have := hcall (d + 1) hd j hj
    simp only [cpBack, cpLevel, bondBack, bondLevel, cpClamp, min_real, max_real] at *
    set x := backStep J p (z (M - (d + 1))) (cpBack 𝕆 J p z flow acc put call term M d) j
    set y := backStep J p (z (M - (d + 1))) (bondBack J p z flow term M d) j
    have h1 : y + flow (M - (d + 1)) - acc (M - (d + 1))
        ≤ min (max (x + flow (M - (d + 1)) - acc (M - (d + 1))) (put (M - (d + 1)))) (call (M - (d + 1))) :=
      le_min (le_trans (by linarith) (le_max_left _ _)) this
    linarith

end FinVerif.Props.C03
