/-
  C03 (part d) — the pieces of the tree code that the translator generates from the source
  (`Gen/TreesR.lean`, cut out of `build_tree_fast` and the roll-back routines of hw_tree.py, bk_tree.py)
  are the hand model of `Model/C03.lean`; and what the code's rule `j_max = ceil(0.1835/(a·Δt))`
  implies for the branching probabilities at every node `-j_max … j_max`.
-/
import FinVerif.Props.C03c
import FinVerif.Gen.TreesR
import Mathlib.Algebra.Order.Floor.Semiring

namespace FinVerif.Props.C03
open FinVerif.Model.C03 FinVerif.Gen.TreesR Finset

/-! ### generated probabilities = model -/

/-- **tie** the three branch formulas of the probability loop of `hw_tree.build_tree_fast`, as generated
from the source, are `probs` of the model, at every node and for all three branching regimes. -/
theorem gen_hw_probs_eq_model (a dt : ℝ) (J : Nat) (j : Int) :
    hw_pu a j dt J = (probs 𝕆 a dt J j).u ∧ hw_pm a j dt J = (probs 𝕆 a dt J j).m ∧
      hw_pd a j dt J = (probs 𝕆 a dt J j).d := by
  unfold hw_pu hw_pm hw_pd probs
  simp only [decide_eq_true_eq, ofInt_real]
  refine ⟨?_, ?_, ?_⟩ <;> split_ifs <;> push_cast <;> ring

/-- **tie** `bk_tree.build_tree_fast` uses the same three formulas as `hw_tree.build_tree_fast`. -/
theorem gen_bk_probs_eq_hw (a dt : ℝ) (J j : Int) :
    bk_pu a j dt J = hw_pu a j dt J ∧ bk_pm a j dt J = hw_pm a j dt J ∧ bk_pd a j dt J = hw_pd a j dt J :=
  ⟨rfl, rfl, rfl⟩

/-- **C03** (generated code, all three regimes) `pu + pm + pd = 1` identically in `(a, Δt, j, j_max)`. -/
theorem gen_probs_sum_one (a dt : ℝ) (J j : Int) :
    hw_pu a j dt J + hw_pm a j dt J + hw_pd a j dt J = 1 ∧
    bk_pu a j dt J + bk_pm a j dt J + bk_pd a j dt J = 1 := by
  unfold bk_pu bk_pm bk_pd hw_pu hw_pm hw_pd
  simp only [decide_eq_true_eq]
  refine ⟨?_, ?_⟩ <;> split_ifs <;> ring

/-- the probabilities are stored at array position `j + j_max` -/
theorem gen_prob_pos (J j : Int) : hw_prob_pos J j = j + J ∧ bk_prob_pos j J = j + J := ⟨rfl, rfl⟩

/-! ### the `j_max` rule -/

/-- **tie** the argument of `ceil` in `j_max = ceil(0.1835/(a*dt))` — in the two builders and as recomputed
by each of the six roll-back routines — is the model's `thr/(a·Δt)`; so `treeJ` is the code's `j_max` and
every routine works with the same `j_max` as the builder. -/
theorem gen_jmax_eq_model (a dt : ℝ) :
    ⌈hw_jmax_arg a dt⌉₊ = treeJ 𝕆 a dt ∧ bk_jmax_arg a dt = hw_jmax_arg a dt ∧
    hw_opt_jmax_arg a dt = hw_jmax_arg a dt ∧ hw_swn_jmax_arg a dt = hw_jmax_arg a dt ∧
    hw_cp_jmax_arg a dt = hw_jmax_arg a dt ∧ bk_opt_jmax_arg a dt = hw_jmax_arg a dt ∧
    bk_swn_jmax_arg a dt = hw_jmax_arg a dt ∧ bk_cp_jmax_arg a dt = hw_jmax_arg a dt := by
  refine ⟨?_, rfl, rfl, rfl, rfl, rfl, rfl, rfl⟩
  unfold treeJ thr hw_jmax_arg
  simp only [ofInt_real]
  show ⌈_⌉₊ = ⌈_⌉₊
  congr 1
  norm_num

/-- what the rule gives: `j_max ≥ 1`, `a·j_max·Δt ≥ 0.1835` and `a·(j_max-1)·Δt < 0.1835`. -/
theorem jmax_rule_bounds (a dt : ℝ) (h : 0 < a * dt) :
    0 < treeJ 𝕆 a dt ∧ (1835 : ℝ) / 10000 ≤ a * (treeJ 𝕆 a dt : ℝ) * dt ∧
      a * ((treeJ 𝕆 a dt : ℝ) - 1) * dt < 1835 / 10000 := by
  have hq : (0 : ℝ) < (1835 / 10000) / (a * dt) := div_pos (by norm_num) h
  have hJ : treeJ 𝕆 a dt = ⌈((1835 : ℝ) / 10000) / (a * dt)⌉₊ := by
    unfold treeJ thr; simp only [ofInt_real]; rfl
  rw [hJ]
  refine ⟨Nat.ceil_pos.mpr hq, ?_, ?_⟩
  · have := Nat.le_ceil ((1835 / 10000 : ℝ) / (a * dt))
    rw [div_le_iff₀ h] at this
    linarith
  · have := Nat.ceil_lt_add_one hq.le
    have h2 : ((⌈((1835 : ℝ) / 10000) / (a * dt)⌉₊ : ℝ) - 1) < (1835 / 10000) / (a * dt) := by linarith
    rw [lt_div_iff₀ h] at h2
    linarith

/-- **C03** interior nodes under the rule: for every `j` strictly between `-j_max` and `j_max`, with
`j_max = ceil(0.1835/(a·Δt))`, all three probabilities lie in `[0,1]` — no further hypothesis. -/
theorem jmax_rule_interior_in_unit (a dt : ℝ) (h : 0 < a * dt) (j : Int)
    (hj : -(treeJ 𝕆 a dt : Int) < j ∧ j < (treeJ 𝕆 a dt : Int)) :
    let p := probs 𝕆 a dt (treeJ 𝕆 a dt) j
    (0 ≤ p.u ∧ p.u ≤ 1) ∧ (0 ≤ p.m ∧ p.m ≤ 1) ∧ (0 ≤ p.d ∧ p.d ≤ 1) := by
  obtain ⟨hJ, _, hup⟩ := jmax_rule_bounds a dt h
  set J := treeJ 𝕆 a dt with hJdef
  apply hw_probs_in_unit_interval a dt J hJ j h.le ⟨by omega, by omega⟩
  unfold HullCond
  have h1 : ¬ (j = (J : Int) ∨ j = -(J : Int)) := by omega
  simp only [h1, if_false]
  -- |a j dt| ≤ a (J-1) dt < 0.1835
  have hjr : |(j : ℝ)| ≤ (J : ℝ) - 1 := by
    rw [abs_le]
    have h1 : (-(J : Int) + 1 : Int) ≤ j := by omega
    have h2 : j ≤ (J : Int) - 1 := by omega
    have h1' : ((-(J : Int) + 1 : Int) : ℝ) ≤ (j : ℝ) := by exact_mod_cast h1
    have h2' : (j : ℝ) ≤ (((J : Int) - 1 : Int) : ℝ) := by exact_mod_cast h2
    push_cast at h1' h2'
    constructor <;> linarith
  have hx : |a * (j : ℝ) * dt| ≤ a * ((J : ℝ) - 1) * dt := by
    have : a * (j : ℝ) * dt = (a * dt) * (j : ℝ) := by ring
    rw [this, abs_mul, abs_of_pos h]
    have := mul_le_mul_of_nonneg_left hjr h.le
    linarith
  have hlt : |a * (j : ℝ) * dt| < 1835 / 10000 := lt_of_le_of_lt hx hup
  have : (a * (j : ℝ) * dt) ^ 2 = |a * (j : ℝ) * dt| ^ 2 := (sq_abs _).symm
  rw [this]
  have h0 := abs_nonneg (a * (j : ℝ) * dt)
  nlinarith

/-- at the two edge nodes `pu` and `pd` are positive for every `a, Δt, j_max` (their discriminants are negative);
only `pm` can leave `[0,1]`. -/
theorem edge_pu_pd_pos (a dt : ℝ) (J : Nat) (hJ : 0 < J) :
    0 < (probs 𝕆 a dt J J).u ∧ 0 < (probs 𝕆 a dt J J).d ∧
    0 < (probs 𝕆 a dt J (-(J : Int))).u ∧ 0 < (probs 𝕆 a dt J (-(J : Int))).d := by
  rw [probs_top, probs_bot a dt J hJ]
  refine ⟨?_, ?_, ?_, ?_⟩
  · nlinarith [sq_nonneg (a * (J : ℝ) * dt - 3 / 2)]
  · nlinarith [sq_nonneg (a * (J : ℝ) * dt - 1 / 2)]
  · nlinarith [sq_nonneg (a * (-(J : ℝ)) * dt + 1 / 2)]
  · nlinarith [sq_nonneg (a * (-(J : ℝ)) * dt + 3 / 2)]

/-- the middle probability of both edge nodes is `2/3 - (1 - a·j_max·Δt)²` -/
theorem edge_pm_eq (a dt : ℝ) (J : Nat) (hJ : 0 < J) :
    (probs 𝕆 a dt J J).m = 2 / 3 - (1 - a * (J : ℝ) * dt) ^ 2 ∧
    (probs 𝕆 a dt J (-(J : Int))).m = 2 / 3 - (1 - a * (J : ℝ) * dt) ^ 2 := by
  rw [probs_top, probs_bot a dt J hJ]
  constructor <;> ring

/-- **C03** (sharp form of "probabilities in `[0,1]`" for the code's rule).  With
`j_max = ceil(0.1835/(a·Δt))`, *every* probability at *every* node `-j_max … j_max` lies in `[0,1]`
if and only if `(1 - a·j_max·Δt)² ≤ 2/3`, i.e. `1-√(2/3) ≤ a·j_max·Δt ≤ 1+√(2/3)`; the rule itself
takes care of all interior nodes. -/
theorem jmax_rule_probs_in_unit_iff (a dt : ℝ) (h : 0 < a * dt) :
    (∀ j : Int, -(treeJ 𝕆 a dt : Int) ≤ j ∧ j ≤ (treeJ 𝕆 a dt : Int) →
      let p := probs 𝕆 a dt (treeJ 𝕆 a dt) j
      (0 ≤ p.u ∧ p.u ≤ 1) ∧ (0 ≤ p.m ∧ p.m ≤ 1) ∧ (0 ≤ p.d ∧ p.d ≤ 1))
    ↔ (1 - a * (treeJ 𝕆 a dt : ℝ) * dt) ^ 2 ≤ 2 / 3 := by
  obtain ⟨hJ, hlo, _⟩ := jmax_rule_bounds a dt h
  set J := treeJ 𝕆 a dt with hJdef
  constructor
  · intro hall
    have := (hall J ⟨by omega, le_rfl⟩).2.1.1
    rw [(edge_pm_eq a dt J hJ).1] at this
    linarith
  · intro hc j hj
    by_cases hint : -(J : Int) < j ∧ j < (J : Int)
    · exact jmax_rule_interior_in_unit a dt h j hint
    · apply hw_probs_in_unit_interval a dt J hJ j h.le hj
      unfold HullCond
      have hx : 0 ≤ a * (J : ℝ) * dt := by linarith
      have hedge : j = (J : Int) ∨ j = -(J : Int) := by omega
      simp only [hedge, if_true]
      rcases hedge with rfl | rfl
      · push_cast; rw [abs_of_nonneg hx]; exact hc
      · push_cast
        have : a * -(J : ℝ) * dt = -(a * (J : ℝ) * dt) := by ring
        rw [this, abs_neg, abs_of_nonneg hx]; exact hc

/-- the full statement "the rule alone puts every probability in `[0,1]`" … -/
def JmaxRuleSuffices : Prop :=
  ∀ a dt : ℝ, 0 < a * dt → a * dt ≤ 1 →
    ∀ j : Int, -(treeJ 𝕆 a dt : Int) ≤ j ∧ j ≤ (treeJ 𝕆 a dt : Int) →
      0 ≤ (probs 𝕆 a dt (treeJ 𝕆 a dt) j).m

/-- … is false for the code's `0.1835` (known finding `C03/hw-jmax-threshold-0.1835`): `a = 0.1835, Δt = 1`
gives `j_max = 1` by the rule and `pm(±1) = -67/12000000`. -/
theorem jmax_rule_not_sufficient : ¬ JmaxRuleSuffices := by
  intro hall
  have h0 : (0 : ℝ) < 1835 / 10000 * 1 := by norm_num
  have hJ : treeJ 𝕆 (1835 / 10000) 1 = 1 := by
    unfold treeJ thr; simp only [ofInt_real]
    show ⌈_⌉₊ = 1
    have : ((1835 : Int) : ℝ) / ((10000 : Int) : ℝ) / (1835 / 10000 * 1) = 1 := by norm_num
    rw [this]; exact Nat.ceil_one
  have := hall (1835 / 10000) 1 h0 (by norm_num) 1 (by rw [hJ]; simp)
  rw [hJ] at this
  have h2 := probs_top (1835 / 10000) 1 1
  simp only [Nat.cast_one] at h2
  rw [h2] at this
  norm_num at this

/-- **C03** `_partial` of the above: under the rule, if `a·j_max·Δt` also clears `0.18350342` (the decimal
expansion of `1-√(2/3)` rounded up) and stays below `1.8`, every probability of every node is in `[0,1]`.
For `j_max ≥ 2` the upper bound is automatic (`jmax_rule_two_upper`). -/
theorem jmax_rule_probs_in_unit_partial (a dt : ℝ) (h : 0 < a * dt)
    (hlo : (18350342 : ℝ) / 100000000 ≤ a * (treeJ 𝕆 a dt : ℝ) * dt) (hhi : a * (treeJ 𝕆 a dt : ℝ) * dt ≤ 9 / 5)
    (j : Int) (hj : -(treeJ 𝕆 a dt : Int) ≤ j ∧ j ≤ (treeJ 𝕆 a dt : Int)) :
    let p := probs 𝕆 a dt (treeJ 𝕆 a dt) j
    (0 ≤ p.u ∧ p.u ≤ 1) ∧ (0 ≤ p.m ∧ p.m ≤ 1) ∧ (0 ≤ p.d ∧ p.d ≤ 1) := by
  refine (jmax_rule_probs_in_unit_iff a dt h).mpr ?_ j hj
  nlinarith

/-- non-vacuity: `a = 0.1`, `Δt = 0.25`: the rule gives `j_max = 8`, `a·j_max·Δt = 0.2` -/
example : treeJ 𝕆 (1 / 10) (1 / 4) = 8 ∧ (18350342 : ℝ) / 100000000 ≤ 1 / 10 * (8 : ℝ) * (1 / 4) := by
  constructor
  · unfold treeJ thr; simp only [ofInt_real]
    show ⌈_⌉₊ = 8
    have : ((1835 : Int) : ℝ) / ((10000 : Int) : ℝ) / (1 / 10 * (1 / 4)) = 734 / 100 := by norm_num
    rw [this, Nat.ceil_eq_iff (by norm_num)]
    norm_num
  · norm_num

/-- with `j_max ≥ 2` the rule bounds `a·j_max·Δt` by `2·0.1835` -/
theorem jmax_rule_two_upper (a dt : ℝ) (h : 0 < a * dt) (h2 : 2 ≤ treeJ 𝕆 a dt) :
    a * (treeJ 𝕆 a dt : ℝ) * dt < 367 / 1000 := by
  obtain ⟨_, _, hup⟩ := jmax_rule_bounds a dt h
  have hJ2 : (2 : ℝ) ≤ (treeJ 𝕆 a dt : ℝ) := by exact_mod_cast h2
  -- a dt ≤ a (J-1) dt < 0.1835
  have : a * dt ≤ a * ((treeJ 𝕆 a dt : ℝ) - 1) * dt := by nlinarith
  nlinarith

/-- **C03** (bound used by the classifier of the known finding) under the rule and `a·j_max·Δt ≤ 1.8165`,
the edge `pm` is never below `-67/12000000 = -5.58e-6`: the violation of `[0,1]` is confined to that sliver. -/
theorem jmax_rule_edge_pm_lower (a dt : ℝ) (h : 0 < a * dt) (hhi : a * (treeJ 𝕆 a dt : ℝ) * dt ≤ 18165 / 10000) :
    -(67 : ℝ) / 12000000 ≤ (probs 𝕆 a dt (treeJ 𝕆 a dt) (treeJ 𝕆 a dt)).m ∧
    -(67 : ℝ) / 12000000 ≤ (probs 𝕆 a dt (treeJ 𝕆 a dt) (-(treeJ 𝕆 a dt : Int))).m := by
  obtain ⟨hJ, hlo, _⟩ := jmax_rule_bounds a dt h
  obtain ⟨e1, e2⟩ := edge_pm_eq a dt (treeJ 𝕆 a dt) hJ
  rw [e1, e2]
  constructor <;> nlinarith

/-- **C03** (repair candidate) the same rule with any threshold `θ` such that `(1-θ)² ≤ 2/3` — e.g. Hull's
`0.184` — does put every probability of every node in `[0,1]` (as long as `a·j_max·Δt ≤ 1.8`). -/
theorem threshold_rule_probs_in_unit (θ a dt : ℝ) (hθ : (1 - θ) ^ 2 ≤ 2 / 3) (hθ1 : 0 < θ) (hθ2 : θ ≤ 4 / 5)
    (h : 0 < a * dt) (J : Nat) (hJ : J = ⌈θ / (a * dt)⌉₊) (hhi : a * (J : ℝ) * dt ≤ 9 / 5)
    (j : Int) (hj : -(J : Int) ≤ j ∧ j ≤ (J : Int)) :
    let p := probs 𝕆 a dt J j
    (0 ≤ p.u ∧ p.u ≤ 1) ∧ (0 ≤ p.m ∧ p.m ≤ 1) ∧ (0 ≤ p.d ∧ p.d ≤ 1) := by
  have hq : (0 : ℝ) < θ / (a * dt) := div_pos hθ1 h
  have hJpos : 0 < J := by rw [hJ]; exact Nat.ceil_pos.mpr hq
  have hlo : θ ≤ a * (J : ℝ) * dt := by
    have := Nat.le_ceil (θ / (a * dt))
    rw [← hJ, div_le_iff₀ h] at this
    linarith
  have hup : a * ((J : ℝ) - 1) * dt < θ := by
    have := Nat.ceil_lt_add_one hq.le
    rw [← hJ] at this
    have h2 : ((J : ℝ) - 1) < θ / (a * dt) := by linarith
    rw [lt_div_iff₀ h] at h2
    linarith
  apply hw_probs_in_unit_interval a dt J hJpos j h.le hj
  unfold HullCond
  by_cases hedge : j = (J : Int) ∨ j = -(J : Int)
  · simp only [hedge, if_true]
    have hx : 0 ≤ a * (J : ℝ) * dt := by linarith
    have key : (1 - a * (J : ℝ) * dt) ^ 2 ≤ 2 / 3 := by
      rcases le_total (a * (J : ℝ) * dt) 1 with h1 | h1
      · have e1 : 0 ≤ 1 - a * (J : ℝ) * dt := by linarith
        have e2 : 1 - a * (J : ℝ) * dt ≤ 1 - θ := by linarith
        nlinarith
      · nlinarith
    rcases hedge with rfl | rfl
    · push_cast; rw [abs_of_nonneg hx]; exact key
    · push_cast
      have : a * -(J : ℝ) * dt = -(a * (J : ℝ) * dt) := by ring
      rw [this, abs_neg, abs_of_nonneg hx]; exact key
  · simp only [hedge, if_false]
    have hjr : |(j : ℝ)| ≤ (J : ℝ) - 1 := by
      rw [abs_le]
      have h1 : (-(J : Int) + 1 : Int) ≤ j := by omega
      have h2 : j ≤ (J : Int) - 1 := by omega
      have h1' : ((-(J : Int) + 1 : Int) : ℝ) ≤ (j : ℝ) := by exact_mod_cast h1
      have h2' : (j : ℝ) ≤ (((J : Int) - 1 : Int) : ℝ) := by exact_mod_cast h2
      push_cast at h1' h2'
      constructor <;> linarith
    have hx : |a * (j : ℝ) * dt| ≤ a * ((J : ℝ) - 1) * dt := by
      have : a * (j : ℝ) * dt = (a * dt) * (j : ℝ) := by ring
      rw [this, abs_mul, abs_of_pos h]
      have := mul_le_mul_of_nonneg_left hjr h.le
      linarith
    have : (a * (j : ℝ) * dt) ^ 2 = |a * (j : ℝ) * dt| ^ 2 := (sq_abs _).symm
    rw [this]
    have h0 := abs_nonneg (a * (j : ℝ) * dt)
    nlinarith

/-- non-vacuity: Hull's `θ = 0.184` meets the hypothesis on the threshold -/
example : (1 - (184 : ℝ) / 1000) ^ 2 ≤ 2 / 3 ∧ (184 : ℝ) / 1000 ≤ 4 / 5 := by norm_num

/-! ### generated index arithmetic = model -/

/-- **tie** forward induction: the columns of `Q[m+1, ·]` that receive the `pu`, `pm`, `pd` contributions of
node `j` (generated from the scatter loop, HW and BK) are `upT/midT/dnT + j_max` — for every `j`. -/
theorem gen_fwd_targets_eq_model (J : Nat) (j : Int) :
    hw_fwd_tgt_u J j = upT J j + J ∧ hw_fwd_tgt_m J j = midT J j + J ∧ hw_fwd_tgt_d J j = dnT J j + J ∧
    bk_fwd_tgt_u j J = upT J j + J ∧ bk_fwd_tgt_m j J = midT J j + J ∧ bk_fwd_tgt_d j J = dnT J j + J := by
  unfold hw_fwd_tgt_u hw_fwd_tgt_m hw_fwd_tgt_d bk_fwd_tgt_u bk_fwd_tgt_m bk_fwd_tgt_d upT midT dnT
  simp only [decide_eq_true_eq]
  refine ⟨?_, ?_, ?_, ?_, ?_, ?_⟩ <;> split_ifs <;> omega

/-- **tie** roll-back: the columns read for `vu, vm, vd` at node `k` — the `kN / kN±1 / kN±2` pattern of the edge
branching — in all six trinomial roll-back routines (HW and BK: american bond option, bermudan swaption,
callable/puttable bond; every edge-branching site of a routine reads the same columns, checked at generation)
are `upT/midT/dnT + j_max`, for every `k`. -/
theorem gen_rollback_idx_eq_model (J : Nat) (k : Int) :
    (hw_cp_idx_u k J = upT J k + J ∧ hw_cp_idx_m k J = midT J k + J ∧ hw_cp_idx_d k J = dnT J k + J) ∧
    (hw_opt_idx_u k J = upT J k + J ∧ hw_opt_idx_m k J = midT J k + J ∧ hw_opt_idx_d k J = dnT J k + J) ∧
    (hw_swn_idx_u J k = upT J k + J ∧ hw_swn_idx_m J k = midT J k + J ∧ hw_swn_idx_d J k = dnT J k + J) ∧
    (bk_cp_idx_u k J = upT J k + J ∧ bk_cp_idx_m k J = midT J k + J ∧ bk_cp_idx_d k J = dnT J k + J) ∧
    (bk_opt_idx_u k J = upT J k + J ∧ bk_opt_idx_m k J = midT J k + J ∧ bk_opt_idx_d k J = dnT J k + J) ∧
    (bk_swn_idx_u J k = upT J k + J ∧ bk_swn_idx_m J k = midT J k + J ∧ bk_swn_idx_d J k = dnT J k + J) := by
  unfold hw_cp_idx_u hw_cp_idx_m hw_cp_idx_d hw_opt_idx_u hw_opt_idx_m hw_opt_idx_d hw_swn_idx_u hw_swn_idx_m
    hw_swn_idx_d bk_cp_idx_u bk_cp_idx_m bk_cp_idx_d bk_opt_idx_u bk_opt_idx_m bk_opt_idx_d bk_swn_idx_u
    bk_swn_idx_m bk_swn_idx_d upT midT dnT
  simp only [decide_eq_true_eq]
  refine ⟨⟨?_, ?_, ?_⟩, ⟨?_, ?_, ?_⟩, ⟨?_, ?_, ?_⟩, ⟨?_, ?_, ?_⟩, ⟨?_, ?_, ?_⟩, ⟨?_, ?_, ?_⟩⟩ <;> split_ifs <;> omega

/-- **C03** the roll-back reads exactly the cells the forward induction writes (the index pattern of the
backward step is the transpose of the scatter) — this is what makes `fwdStep_pair` hold for the code. -/
theorem gen_rollback_reads_fwd_targets (J k : Int) :
    hw_cp_idx_u k J = hw_fwd_tgt_u J k ∧ hw_cp_idx_m k J = hw_fwd_tgt_m J k ∧ hw_cp_idx_d k J = hw_fwd_tgt_d J k ∧
    bk_cp_idx_u k J = bk_fwd_tgt_u k J ∧ bk_cp_idx_m k J = bk_fwd_tgt_m k J ∧ bk_cp_idx_d k J = bk_fwd_tgt_d k J :=
  ⟨rfl, rfl, rfl, rfl, rfl, rfl⟩

/-- **C03** (no out-of-range or wrapped-around array access) for a node `k` of level `m` (`|k| ≤ nm ≤ j_max`,
`j_max ≥ 1`) the three columns lie in `0 … 2·j_max`, within the written part `j_max ± (nm+1)` of level `m+1`,
and are pairwise different (so the three `+=` of the scatter hit three different cells). -/
theorem gen_idx_in_bounds (J : Nat) (hJ : 0 < J) (nm : Int) (h0 : 0 ≤ nm) (hn : nm ≤ J) (k : Int)
    (hk : -nm ≤ k ∧ k ≤ nm) :
    (0 ≤ hw_cp_idx_d k J ∧ hw_cp_idx_u k J ≤ 2 * J) ∧
    ((J : Int) - min (nm + 1) J ≤ hw_cp_idx_d k J ∧ hw_cp_idx_u k J ≤ J + min (nm + 1) J) ∧
    hw_cp_idx_u k J = hw_cp_idx_m k J + 1 ∧ hw_cp_idx_m k J = hw_cp_idx_d k J + 1 := by
  obtain ⟨⟨e1, e2, e3⟩, _⟩ := gen_rollback_idx_eq_model J k
  obtain ⟨⟨a1, a2⟩, ⟨b1, b2⟩, ⟨c1, c2⟩⟩ := targets_in J hJ nm h0 hn k hk
  rw [e1, e2, e3]
  have hud : upT J k = midT J k + 1 ∧ midT J k = dnT J k + 1 := by
    unfold upT midT dnT; split_ifs <;> omega
  omega

/-! ### generated node formulas = model -/

/-- **tie** forward induction, HW: one term of `sum_qz`, the closed-form `alpha[m]`, the node rate and the
one-period discount, as generated, are `hwSumQz / hwAlpha / hwRate / hwZ`. -/
theorem gen_hw_drift_eq_model (dt dR : ℝ) (nm : Int) (Q : Int → ℝ) (P1 al : ℝ) (j : Int) :
    hwSumQz 𝕆 dt dR nm Q = ∑ i ∈ Icc (-nm) nm, hw_sumqz_term i dR dt (Q i) ∧
    hwAlpha 𝕆 dt dR nm Q P1 = hw_alpha (hwSumQz 𝕆 dt dR nm Q) P1 dt ∧
    hwRate 𝕆 dR al j = hw_rate al j dR ∧
    hwZ 𝕆 dt dR al j = hw_z (hw_rate al j dR) dt := by
  refine ⟨?_, rfl, rfl, rfl⟩
  simp only [hwSumQz, sumR_eq, hw_sumqz_term, exp_real, ofInt_real]

/-- **tie** forward induction, BK: the node discount and the search objective `f`, as generated, are `bkZ`, `bkF`. -/
theorem gen_bk_objective_eq_model (dt dX : ℝ) (nm : Int) (Q : Int → ℝ) (P1 al : ℝ) (j : Int) :
    bkZ 𝕆 dt dX al j = bk_z (bk_x al j dX) dt ∧
    bkF 𝕆 dt dX nm Q P1 al = bk_f_obj (∑ i ∈ Icc (-nm) nm, bk_f_term al i dX dt (Q i)) P1 := by
  refine ⟨rfl, ?_⟩
  simp only [bkF, sumR_eq, bk_f_obj, bk_f_term, bkZ, bkRate, exp_real, ofInt_real]

/-- **tie** roll-back: the discounted expectation `(pu*vu + pm*vm + pd*vd)*df` (the only formula that consumes
`vu, vm, vd` in the six routines) with the columns of `gen_rollback_idx_eq_model` is `backStep`; the option-free
and the callable/puttable node values of `callable_puttable_bond_tree_fast` (HW, BK) are `bondLevel` and `cpLevel`;
the values written at the maturity step are the model's terminal level. -/
theorem gen_rollback_nodes_eq_model (J : Nat) (p : Int → P3 ℝ) (z V : Int → ℝ) (j : Int)
    (flow acc put call : ℝ) :
    backStep J p z V j = hw_cp_back (p j).u (V (upT J j)) (p j).m (V (midT J j)) (p j).d (V (dnT J j)) (z j) ∧
    bondLevel J p z flow V j
      = hw_cp_bond_node (p j).u (V (upT J j)) (p j).m (V (midT J j)) (p j).d (V (dnT J j)) (z j) flow ∧
    cpLevel 𝕆 J p z flow acc put call V j
      = hw_cp_node (p j).u (V (upT J j)) (p j).m (V (midT J j)) (p j).d (V (dnT J j)) (z j) flow acc put call ∧
    (∀ f face : ℝ, cpClamp 𝕆 acc put call (hw_cp_bond_terminal f face) = hw_cp_terminal f face acc put call) :=
  ⟨rfl, rfl, rfl, fun _ _ => rfl⟩

/-- **tie** the BK routines and the other HW routines use the same node formulas and the same discount. -/
theorem gen_rollback_nodes_same (pu vu pm vm pd vd df flow acc put call r dt f face : ℝ) :
    bk_cp_back pu vu pm vm pd vd df = hw_cp_back pu vu pm vm pd vd df ∧
    hw_opt_back pu vu pm vm pd vd df = hw_cp_back pu vu pm vm pd vd df ∧
    hw_swn_back pu vu pm vm pd vd df = hw_cp_back pu vu pm vm pd vd df ∧
    bk_opt_back pu vu pm vm pd vd df = hw_cp_back pu vu pm vm pd vd df ∧
    bk_swn_back pu vu pm vm pd vd df = hw_cp_back pu vu pm vm pd vd df ∧
    bk_cp_bond_node pu vu pm vm pd vd df flow = hw_cp_bond_node pu vu pm vm pd vd df flow ∧
    bk_cp_node pu vu pm vm pd vd df flow acc put call = hw_cp_node pu vu pm vm pd vd df flow acc put call ∧
    bk_cp_terminal f face acc put call = hw_cp_terminal f face acc put call ∧
    (hw_cp_disc r dt = hw_z r dt ∧ hw_opt_disc r dt = hw_z r dt ∧ hw_swn_disc r dt = hw_z r dt ∧
      bk_cp_disc r dt = hw_z r dt ∧ bk_opt_disc r dt = hw_z r dt ∧ bk_swn_disc r dt = hw_z r dt) := by
  refine ⟨rfl, rfl, rfl, rfl, rfl, rfl, rfl, rfl, ?_⟩
  unfold hw_cp_disc hw_opt_disc hw_swn_disc bk_cp_disc bk_opt_disc bk_swn_disc hw_z
  simp only [neg_mul, and_self]

/-- **tie** the exercise decision of `american_bond_option_tree_fast` (HW, BK): the stored value
`max(max(clean - K, 0), hold)` is the model's `optLevel` with payoff `clean - K` (resp. `K - clean`)
whenever the continuation value is non-negative (`option_value_nonneg`). -/
theorem gen_option_node_eq_model (dirty acc K hold : ℝ) (hh : 0 ≤ hold) :
    hw_opt_call_node dirty acc K hold = max (dirty - acc - K) hold ∧
    hw_opt_put_node dirty acc K hold = max (K - (dirty - acc)) hold ∧
    bk_opt_call_node dirty acc K hold = hw_opt_call_node dirty acc K hold ∧
    bk_opt_put_node dirty acc K hold = hw_opt_put_node dirty acc K hold := by
  refine ⟨?_, ?_, rfl, rfl⟩
  · unfold hw_opt_call_node
    rw [max_assoc, max_eq_right hh]
  · unfold hw_opt_put_node
    rw [max_assoc, max_eq_right hh]

end FinVerif.Props.C03
