/-
  C03 (part e) — the forward induction over *all* steps, and the Black–Derman–Toy tree.
  * HW: with the closed-form `alpha[m]` every row of `Q` sums to the curve discount factor — packaged as one
    induction over the steps, first under "the quantity under the logarithm is positive", then from
    non-negative probabilities, then from the code's `j_max` rule; bonds reprice.
  * BK: the search postcondition `|f(alpha_m)| ≤ tol` at every step bounds every row and every option-free
    bond; the objective is strictly decreasing, so the root the search looks for is unique.
  * BDT: probabilities ½/½, the pairing of one forward step with one backward step, bonds on the tree,
    optionality ordering, the rate ladder, level 1; the generated pieces of bdt_tree.py are the model.
-/
import FinVerif.Props.C03d

namespace FinVerif.Props.C03
open FinVerif.Model.C03 FinVerif.Gen.TreesR Finset

/-! ### Hull–White, all steps -/

theorem q0_row_sum (J : Nat) : ∑ j ∈ Icc (-(J : Int)) J, q0 𝕆 j = 1 := by
  have := q0_pair J (fun _ => 1)
  simpa using this

/-- **C03** HW, every step, weakest hypothesis: if the quantity under the logarithm of the closed-form
`alpha[m]` is positive at every step, then `Σ_j Q[m, j] = P(0, t_m)` for every `m` — whatever the signs of the
probabilities (this covers the sliver of the known finding where an edge `pm` is slightly negative). -/
theorem hw_all_rows_fit_of_pos (a dt dR : ℝ) (J : Nat) (hJ : 0 < J) (P : Nat → ℝ) (hdt : dt ≠ 0)
    (hP0 : P 0 = 1) (hP : ∀ m, 0 < P m)
    (hS : ∀ m, 0 < hwSumQz 𝕆 dt dR (nmOf J m) (hwQ 𝕆 a dt dR J P m)) (m : Nat) :
    ∑ i ∈ Icc (-(J : Int)) J, hwQ 𝕆 a dt dR J P m i = P m := by
  cases m with
  | zero => rw [hP0]; exact q0_row_sum J
  | succ m => exact hw_row_sum_eq_df a dt dR J hJ P hdt m (hP _) (hS m)

/-- **C03** HW, every step, by induction over the steps: with non-negative branching probabilities at the
nodes `-j_max … j_max`, a positive curve and `Δt ≠ 0`, every row of the Arrow–Debreu prices is non-negative
and sums to the curve discount factor — for any number of steps, any `σ`, any `j_max ≥ 1`. -/
theorem hw_all_rows_fit (a dt dR : ℝ) (J : Nat) (hJ : 0 < J) (P : Nat → ℝ) (hdt : dt ≠ 0)
    (hP0 : P 0 = 1) (hP : ∀ m, 0 < P m)
    (hp : ∀ j : Int, -(J : Int) ≤ j ∧ j ≤ J →
      0 ≤ (probs 𝕆 a dt J j).u ∧ 0 ≤ (probs 𝕆 a dt J j).m ∧ 0 ≤ (probs 𝕆 a dt J j).d) (m : Nat) :
    (∑ i ∈ Icc (-(J : Int)) J, hwQ 𝕆 a dt dR J P m i = P m) ∧ ∀ j, 0 ≤ hwQ 𝕆 a dt dR J P m j := by
  have hL := hw_isLattice a dt dR J P
  have hnn : ∀ m j, 0 ≤ hwQ 𝕆 a dt dR J P m j :=
    lattice_nonneg hL hp (fun m j => by simp only [hwZ, exp_real]; exact (Real.exp_pos _).le)
  refine ⟨?_, hnn m⟩
  induction m with
  | zero => rw [hP0]; exact q0_row_sum J
  | succ m ih =>
    apply hw_row_sum_eq_df a dt dR J hJ P hdt m (hP _)
    exact hw_sumQz_pos dt dR J hJ hL m (hnn m) (by rw [ih]; exact hP m)

/-- **C03** HW, from the code's rule: with `j_max = ceil(0.1835/(a·Δt))`, `a·Δt > 0` and the edge condition
`(1 - a·j_max·Δt)² ≤ 2/3` (see `jmax_rule_probs_in_unit_iff`: it is exactly "all probabilities in `[0,1]`"),
the tree built by `build_tree_fast` fits the curve at every tree date. -/
theorem hw_tree_fits_curve_of_jmax_rule (a dt dR : ℝ) (P : Nat → ℝ) (h : 0 < a * dt) (hdt : dt ≠ 0)
    (hP0 : P 0 = 1) (hP : ∀ m, 0 < P m) (hc : (1 - a * (treeJ 𝕆 a dt : ℝ) * dt) ^ 2 ≤ 2 / 3) (m : Nat) :
    ∑ i ∈ Icc (-(treeJ 𝕆 a dt : Int)) (treeJ 𝕆 a dt), hwQ 𝕆 a dt dR (treeJ 𝕆 a dt) P m i = P m := by
  obtain ⟨hJ, _, _⟩ := jmax_rule_bounds a dt h
  refine (hw_all_rows_fit a dt dR _ hJ P hdt hP0 hP (fun j hj => ?_) m).1
  have := (jmax_rule_probs_in_unit_iff a dt h).mpr hc j hj
  exact ⟨this.1.1, this.2.1.1, this.2.2.1⟩

/-- non-vacuity of the hypotheses: flat 5 % curve, `a = 0.1`, `Δt = 0.25` (`j_max = 8`, `a·j_max·Δt = 0.2`) -/
example : (0 : ℝ) < 1 / 10 * (1 / 4) ∧ (∀ m : Nat, 0 < Real.exp (-(5 / 100 * (1 / 4 : ℝ) * m))) ∧
    Real.exp (-(5 / 100 * (1 / 4 : ℝ) * (0 : Nat))) = 1 ∧ (1 - (1 : ℝ) / 10 * (8 : Nat) * (1 / 4)) ^ 2 ≤ 2 / 3 := by
  refine ⟨by norm_num, fun m => Real.exp_pos _, by simp, by norm_num⟩

/-- the root value of the option-free roll-back in terms of the rows of the lattice (no fit assumed) -/
theorem bond_root_eq_rows {J : Nat} (hJ : 0 < J) {p z Q} (h : IsLattice J p z Q) (flow : Nat → ℝ) (c : ℝ)
    (M : Nat) :
    bondBack J p z flow (fun _ => c) M M 0 = c * ∑ j ∈ Icc (-(J : Int)) J, Q M j
      + ∑ k ∈ range M, flow (M - (k + 1)) * ∑ j ∈ Icc (-(J : Int)) J, Q (M - (k + 1)) j := by
  have := bond_pair_invariant hJ h flow (fun _ => c) M M le_rfl
  rw [Nat.sub_self, h.1, q0_pair, ← Finset.sum_mul] at this
  rw [this, mul_comm]

/-- **C03** HW: zero-coupon and option-free coupon bonds rolled back on the tree are worth their curve value
`c·P(0,T) + Σ flow_i·P(0,t_i)`, for any number of steps. -/
theorem hw_bond_reprices (a dt dR : ℝ) (J : Nat) (hJ : 0 < J) (P : Nat → ℝ) (hdt : dt ≠ 0)
    (hP0 : P 0 = 1) (hP : ∀ m, 0 < P m)
    (hp : ∀ j : Int, -(J : Int) ≤ j ∧ j ≤ J →
      0 ≤ (probs 𝕆 a dt J j).u ∧ 0 ≤ (probs 𝕆 a dt J j).m ∧ 0 ≤ (probs 𝕆 a dt J j).d)
    (flow : Nat → ℝ) (c : ℝ) (M : Nat) :
    bondBack J (probs 𝕆 a dt J)
      (fun m => hwZ 𝕆 dt dR (hwAlpha 𝕆 dt dR (nmOf J m) (hwQ 𝕆 a dt dR J P m) (P (m + 1)))) flow (fun _ => c) M M 0
      = c * P M + ∑ k ∈ range M, flow (M - (k + 1)) * P (M - (k + 1)) := by
  rw [bond_root_eq_rows hJ (hw_isLattice a dt dR J P), (hw_all_rows_fit a dt dR J hJ P hdt hP0 hP hp M).1]
  congr 1
  apply Finset.sum_congr rfl
  intro k _
  rw [(hw_all_rows_fit a dt dR J hJ P hdt hP0 hP hp _).1]

/-! ### Black–Karasinski, all steps -/

/-- **C03** BK, every step: if the root search returns at every step an `alpha[m]` with `|f(alpha[m])| ≤ tol`
(its exit condition; `tol = 1e-8` in the code), every row of `Q` is within `tol` of the curve discount factor. -/
theorem bk_all_rows_within_tol (a dt dX : ℝ) (J : Nat) (hJ : 0 < J) (al : Nat → ℝ) (P : Nat → ℝ) (tol : ℝ)
    (hP0 : P 0 = 1)
    (hpost : ∀ m, |bkF 𝕆 dt dX (nmOf J m) (bkQ 𝕆 a dt dX J al m) (P (m + 1)) (al m)| ≤ tol) (htol : 0 ≤ tol)
    (m : Nat) :
    |∑ i ∈ Icc (-(J : Int)) J, bkQ 𝕆 a dt dX J al m i - P m| ≤ tol := by
  cases m with
  | zero =>
    have : ∑ i ∈ Icc (-(J : Int)) J, bkQ 𝕆 a dt dX J al 0 i = 1 := q0_row_sum J
    rw [this, hP0]; simpa using htol
  | succ m =>
    rw [bk_row_sum_of_postcondition a dt dX J hJ al (P (m + 1)) m]
    simpa using hpost m

/-- on any lattice whose rows are within `tol` of the curve, the option-free bond is within
`tol·(|c| + Σ|flow_i|)` of its curve value -/
theorem bond_within_tol_of_rows {J : Nat} (hJ : 0 < J) {p z Q} (h : IsLattice J p z Q) (P : Nat → ℝ) (tol : ℝ)
    (hrows : ∀ m, |∑ j ∈ Icc (-(J : Int)) J, Q m j - P m| ≤ tol) (flow : Nat → ℝ) (c : ℝ) (M : Nat) :
    |bondBack J p z flow (fun _ => c) M M 0 - (c * P M + ∑ k ∈ range M, flow (M - (k + 1)) * P (M - (k + 1)))|
      ≤ tol * (|c| + ∑ k ∈ range M, |flow (M - (k + 1))|) := by
  rw [bond_root_eq_rows hJ h]
  set R := fun m => ∑ j ∈ Icc (-(J : Int)) J, Q m j with hR
  have e : c * R M + ∑ k ∈ range M, flow (M - (k + 1)) * R (M - (k + 1))
      - (c * P M + ∑ k ∈ range M, flow (M - (k + 1)) * P (M - (k + 1)))
      = c * (R M - P M) + ∑ k ∈ range M, flow (M - (k + 1)) * (R (M - (k + 1)) - P (M - (k + 1))) := by
    simp only [mul_sub, Finset.sum_sub_distrib]; ring
  rw [e]
  have h1 : |c * (R M - P M)| ≤ tol * |c| := by
    rw [abs_mul, mul_comm]; exact mul_le_mul_of_nonneg_right (hrows M) (abs_nonneg _)
  have h2 : |∑ k ∈ range M, flow (M - (k + 1)) * (R (M - (k + 1)) - P (M - (k + 1)))|
      ≤ ∑ k ∈ range M, tol * |flow (M - (k + 1))| := by
    refine le_trans (Finset.abs_sum_le_sum_abs _ _) (Finset.sum_le_sum ?_)
    intro k _
    rw [abs_mul, mul_comm]; exact mul_le_mul_of_nonneg_right (hrows _) (abs_nonneg _)
  rw [← Finset.mul_sum] at h2
  calc |c * (R M - P M) + ∑ k ∈ range M, flow (M - (k + 1)) * (R (M - (k + 1)) - P (M - (k + 1)))|
      ≤ |c * (R M - P M)| + |∑ k ∈ range M, flow (M - (k + 1)) * (R (M - (k + 1)) - P (M - (k + 1)))| := abs_add_le _ _
    _ ≤ tol * |c| + tol * ∑ k ∈ range M, |flow (M - (k + 1))| := add_le_add h1 h2
    _ = tol * (|c| + ∑ k ∈ range M, |flow (M - (k + 1))|) := by ring

/-- **C03** BK: under the search postcondition at every step, zero-coupon and option-free coupon bonds on the
tree are within `tol·(|c| + Σ|flow_i|)` of their curve value (the harness's `2e-8 × scale`). -/
theorem bk_bond_reprices_within_tol (a dt dX : ℝ) (J : Nat) (hJ : 0 < J) (al : Nat → ℝ) (P : Nat → ℝ) (tol : ℝ)
    (hP0 : P 0 = 1)
    (hpost : ∀ m, |bkF 𝕆 dt dX (nmOf J m) (bkQ 𝕆 a dt dX J al m) (P (m + 1)) (al m)| ≤ tol) (htol : 0 ≤ tol)
    (flow : Nat → ℝ) (c : ℝ) (M : Nat) :
    |bondBack J (probs 𝕆 a dt J) (fun m => bkZ 𝕆 dt dX (al m)) flow (fun _ => c) M M 0
        - (c * P M + ∑ k ∈ range M, flow (M - (k + 1)) * P (M - (k + 1)))|
      ≤ tol * (|c| + ∑ k ∈ range M, |flow (M - (k + 1))|) :=
  bond_within_tol_of_rows hJ (bk_isLattice a dt dX J al) P tol
    (bk_all_rows_within_tol a dt dX J hJ al P tol hP0 hpost htol) flow c M

/-- **C03** BK: the objective of the drift search is strictly decreasing in `alpha` (for `Δt > 0`, state prices
non-negative and not all zero) … -/
theorem bkF_strictAnti (dt dX : ℝ) (hdt : 0 < dt) (nm : Int) (Q : Int → ℝ) (P1 : ℝ)
    (hQ : ∀ j ∈ Icc (-nm) nm, 0 ≤ Q j) (hpos : ∃ j ∈ Icc (-nm) nm, 0 < Q j) :
    StrictAnti (fun al => bkF 𝕆 dt dX nm Q P1 al) := by
  intro al al' hlt
  simp only [bkF, sumR_eq]
  have hz : ∀ j : Int, bkZ 𝕆 dt dX al' j < bkZ 𝕆 dt dX al j := by
    intro j
    simp only [bkZ, bkRate, exp_real, ofInt_real]
    apply Real.exp_lt_exp.mpr
    have : Real.exp (al + (j : ℝ) * dX) < Real.exp (al' + (j : ℝ) * dX) := Real.exp_lt_exp.mpr (by linarith)
    nlinarith
  have : ∑ j ∈ Icc (-nm) nm, Q j * bkZ 𝕆 dt dX al' j < ∑ j ∈ Icc (-nm) nm, Q j * bkZ 𝕆 dt dX al j := by
    apply Finset.sum_lt_sum
    · intro j hj; exact mul_le_mul_of_nonneg_left (hz j).le (hQ j hj)
    · obtain ⟨j, hj, hq⟩ := hpos
      exact ⟨j, hj, mul_lt_mul_of_pos_left (hz j) hq⟩
  linarith

/-- … hence the `alpha[m]` that fits the curve at a step is unique: the parameter of the model is determined
by its postcondition. -/
theorem bk_root_unique (dt dX : ℝ) (hdt : 0 < dt) (nm : Int) (Q : Int → ℝ) (P1 : ℝ)
    (hQ : ∀ j ∈ Icc (-nm) nm, 0 ≤ Q j) (hpos : ∃ j ∈ Icc (-nm) nm, 0 < Q j) (al al' : ℝ)
    (h1 : bkF 𝕆 dt dX nm Q P1 al = 0) (h2 : bkF 𝕆 dt dX nm Q P1 al' = 0) : al = al' :=
  (bkF_strictAnti dt dX hdt nm Q P1 hQ hpos).injective (by simp only [h1, h2])

/-- **C03** (domain of the lognormal tree) BK short rates `exp(x)` are positive, so every one-period discount is
below one and the objective of the drift search is negative for *every* `alpha` as soon as the target discount
factor is not below the current row sum: where the curve does not decrease from one tree date to the next, no
fitted BK tree exists (the search's `FinError` there is the correct outcome; the harness treats such curves as
outside the admissible inputs of BK). -/
theorem bk_no_root_of_df_not_decreasing (dt dX : ℝ) (hdt : 0 < dt) (nm : Int) (Q : Int → ℝ) (P1 : ℝ)
    (hQ : ∀ j ∈ Icc (-nm) nm, 0 ≤ Q j) (hpos : ∃ j ∈ Icc (-nm) nm, 0 < Q j)
    (hP : ∑ j ∈ Icc (-nm) nm, Q j ≤ P1) (al : ℝ) : bkF 𝕆 dt dX nm Q P1 al < 0 := by
  simp only [bkF, sumR_eq]
  have hz : ∀ j : Int, bkZ 𝕆 dt dX al j < 1 := by
    intro j
    simp only [bkZ, bkRate, exp_real, ofInt_real]
    rw [← Real.exp_zero]
    apply Real.exp_lt_exp.mpr
    have := mul_pos (Real.exp_pos (al + (j : ℝ) * dX)) hdt
    linarith
  have : ∑ j ∈ Icc (-nm) nm, Q j * bkZ 𝕆 dt dX al j < ∑ j ∈ Icc (-nm) nm, Q j := by
    apply Finset.sum_lt_sum
    · intro j hj
      have := mul_le_mul_of_nonneg_left (hz j).le (hQ j hj)
      linarith
    · obtain ⟨j, hj, hq⟩ := hpos
      refine ⟨j, hj, ?_⟩
      have := mul_lt_mul_of_pos_left (hz j) hq
      linarith
  linarith

/-! ### Black–Derman–Toy -/

/-- **tie** the generated pieces of `bdt_tree.build_tree_fast` (branch `CONT_COMPOUNDED = True`), of the search
objective `f` and of the BDT roll-back are the model: the three cases of the `Q[m+1, ·]` recursion with
probabilities ½/½, the annual discounting of `f`, the ½/½ backward step reading columns `k+1` and `k`. -/
theorem gen_bdt_eq_model (dt : ℝ) (m : Nat) (Q r : Nat → ℝ) (dfEnd : ℝ) (d V : Nat → ℝ) (k : Nat)
    (flow acc put call : ℝ) :
    bdtNext 𝕆 (discCont 𝕆 dt) m Q r 0 = bdt_q_first (Q 0) (r 0) dt ∧
    (0 < k → k ≤ m → bdtNext 𝕆 (discCont 𝕆 dt) m Q r k = bdt_q_inner (Q (k - 1)) (r (k - 1)) dt (Q k) (r k)) ∧
    bdtNext 𝕆 (discCont 𝕆 dt) m Q r (m + 1) = bdt_q_last (Q m) (r m) dt ∧
    (∀ x, discAnnual 𝕆 dt x = bdt_f_disc x dt) ∧
    bdtF 𝕆 (discAnnual 𝕆 dt) m Q r dfEnd = bdt_f_obj (∑ i ∈ range (m + 1), bdt_f_term (r i) dt (Q i)) dfEnd ∧
    bdtBackStep 𝕆 d V k = bdt_cp_back (V (k + 1)) (V k) (d k) ∧
    bdtBondLevel 𝕆 d flow V k = bdt_cp_bond_node (V (k + 1)) (V k) (d k) flow ∧
    bdtCpLevel 𝕆 d flow acc put call V k = bdt_cp_node (V (k + 1)) (V k) (d k) flow acc put call ∧
    (∀ x, discCont 𝕆 dt x = bdt_cp_disc x dt) := by
  refine ⟨?_, ?_, ?_, ?_, ?_, ?_, ?_, ?_, ?_⟩
  · simp only [bdtNext, if_true, discCont, bdt_q_first, ofInt_real, exp_real, neg_mul]; norm_num
  · intro h0 hk
    have h1 : ¬ k = 0 := by omega
    have h2 : ¬ k = m + 1 := by omega
    simp only [bdtNext, h1, h2, hk, if_false, if_true, discCont, bdt_q_inner, ofInt_real, exp_real, neg_mul]
    norm_num
  · have h1 : ¬ m + 1 = 0 := by omega
    simp only [bdtNext, h1, if_false, if_true, discCont, bdt_q_last, ofInt_real, exp_real, neg_mul]; norm_num
  · intro x; simp only [discAnnual, bdt_f_disc, ofInt_real, pow_real]; norm_num [Real.rpow_eq_pow]
  · simp only [bdtF, sumN_eq, bdt_f_obj, bdt_f_term, discAnnual, ofInt_real, pow_real]; norm_num [Real.rpow_eq_pow]
  · simp only [bdtBackStep, bdt_cp_back, ofInt_real]; norm_num
  · simp only [bdtBondLevel, bdtBackStep, bdt_cp_bond_node, ofInt_real]; norm_num
  · simp only [bdtCpLevel, cpClamp, bdtBackStep, bdt_cp_node, ofInt_real, min_real, max_real]; norm_num
  · intro x; simp only [discCont, bdt_cp_disc, exp_real, neg_mul]

/-- **tie** the rate ladder that `f` writes into `rt[m, ·]` is the model's `bdtDown / bdtUp` with `u = σ√Δt` -/
theorem gen_bdt_ladder_eq_model (x sigma dt : ℝ) (k : Nat) :
    bdtDown 𝕆 x (sigma * Real.sqrt dt) (k + 1) = bdt_ladder_down (bdtDown 𝕆 x (sigma * Real.sqrt dt) k) sigma dt ∧
    bdtUp 𝕆 x (sigma * Real.sqrt dt) (k + 1) = bdt_ladder_up (bdtUp 𝕆 x (sigma * Real.sqrt dt) k) sigma dt := by
  simp only [bdtDown, bdtUp, bdt_ladder_down, bdt_ladder_up, exp_real, ofInt_real]
  constructor <;> congr 2 <;> push_cast <;> ring

theorem bdtDown_closed (x u : ℝ) (k : Nat) : bdtDown 𝕆 x u k = x * Real.exp (-(2 * u * k)) := by
  induction k with
  | zero => simp [bdtDown]
  | succ k ih =>
    simp only [bdtDown, ih, exp_real, ofInt_real, mul_assoc, ← Real.exp_add]
    congr 2; push_cast; ring

theorem bdtUp_closed (x u : ℝ) (k : Nat) : bdtUp 𝕆 x u k = x * Real.exp (2 * u * k) := by
  induction k with
  | zero => simp [bdtUp]
  | succ k ih =>
    simp only [bdtUp, ih, exp_real, ofInt_real, mul_assoc, ← Real.exp_add]
    congr 2; push_cast; ring

/-- **C03** BDT: the short rates of level `m` form one geometric ladder around the median rate `x` found by
the search: `r[m, i] = x·exp(2σ√Δt·(i - ⌊m/2⌋))` — the two loops of `f` (down from and up from the middle)
join consistently. -/
theorem bdt_rate_closed (x u : ℝ) (m i : Nat) :
    bdtRate 𝕆 x u m i = x * Real.exp (2 * u * ((i : ℝ) - ((m / 2 : Nat) : ℝ))) := by
  unfold bdtRate
  simp only
  split
  · rename_i h
    rw [bdtDown_closed]; congr 2; rw [Nat.cast_sub h]; ring
  · rename_i h
    rw [bdtUp_closed]; congr 2; rw [Nat.cast_sub (by omega)]

/-- consequences: a positive median rate makes every rate of the level positive, and with `σ√Δt ≥ 0` the rates
increase with the node index -/
theorem bdt_rate_pos_mono (x u : ℝ) (hx : 0 < x) (hu : 0 ≤ u) (m i : Nat) :
    0 < bdtRate 𝕆 x u m i ∧ bdtRate 𝕆 x u m i ≤ bdtRate 𝕆 x u m (i + 1) := by
  rw [bdt_rate_closed, bdt_rate_closed]
  refine ⟨mul_pos hx (Real.exp_pos _), ?_⟩
  apply mul_le_mul_of_nonneg_left _ hx.le
  apply Real.exp_le_exp.mpr
  push_cast
  nlinarith

/-- **C03** BDT: the objective `f` of the drift search as coded (annual discounting `1/(1+r)^Δt` on the ladder
`r_i = x·exp(2σ√Δt·(i - ⌊m/2⌋))`) is strictly decreasing in the median rate `x > 0` (for `Δt > 0`, state prices
non-negative and not all zero) … -/
theorem bdtF_strictAnti (dt u : ℝ) (hdt : 0 < dt) (m : Nat) (Q : Nat → ℝ) (dfEnd : ℝ)
    (hQ : ∀ i ∈ range (m + 1), 0 ≤ Q i) (hpos : ∃ i ∈ range (m + 1), 0 < Q i) (x x' : ℝ) (hx : 0 < x) (hlt : x < x') :
    bdtF 𝕆 (discAnnual 𝕆 dt) m Q (bdtRate 𝕆 x' u m) dfEnd < bdtF 𝕆 (discAnnual 𝕆 dt) m Q (bdtRate 𝕆 x u m) dfEnd := by
  simp only [bdtF, sumN_eq]
  have hd : ∀ i : Nat, discAnnual 𝕆 dt (bdtRate 𝕆 x' u m i) < discAnnual 𝕆 dt (bdtRate 𝕆 x u m i) := by
    intro i
    simp only [discAnnual, ofInt_real, pow_real, Int.cast_one]
    rw [bdt_rate_closed, bdt_rate_closed]
    set c := Real.exp (2 * u * ((i : ℝ) - ((m / 2 : Nat) : ℝ))) with hc
    have hcpos : 0 < c := Real.exp_pos _
    have h1 : 0 < 1 + x * c := by have := mul_pos hx hcpos; linarith
    have h2 : 1 + x * c < 1 + x' * c := by have := mul_lt_mul_of_pos_right hlt hcpos; linarith
    have h3 : (1 + x * c) ^ dt < (1 + x' * c) ^ dt := Real.rpow_lt_rpow h1.le h2 hdt
    exact one_div_lt_one_div_of_lt (Real.rpow_pos_of_pos h1 dt) h3
  have : ∑ i ∈ range (m + 1), Q i * discAnnual 𝕆 dt (bdtRate 𝕆 x' u m i)
      < ∑ i ∈ range (m + 1), Q i * discAnnual 𝕆 dt (bdtRate 𝕆 x u m i) := by
    apply Finset.sum_lt_sum
    · intro i hi; exact mul_le_mul_of_nonneg_left (hd i).le (hQ i hi)
    · obtain ⟨i, hi, hq⟩ := hpos
      exact ⟨i, hi, mul_lt_mul_of_pos_left (hd i) hq⟩
  linarith

/-- … hence the positive median rate that makes `f` vanish is unique. -/
theorem bdt_root_unique (dt u : ℝ) (hdt : 0 < dt) (m : Nat) (Q : Nat → ℝ) (dfEnd : ℝ)
    (hQ : ∀ i ∈ range (m + 1), 0 ≤ Q i) (hpos : ∃ i ∈ range (m + 1), 0 < Q i) (x x' : ℝ) (hx : 0 < x) (hx' : 0 < x')
    (h1 : bdtF 𝕆 (discAnnual 𝕆 dt) m Q (bdtRate 𝕆 x u m) dfEnd = 0)
    (h2 : bdtF 𝕆 (discAnnual 𝕆 dt) m Q (bdtRate 𝕆 x' u m) dfEnd = 0) : x = x' := by
  rcases lt_trichotomy x x' with h | h | h
  · have := bdtF_strictAnti dt u hdt m Q dfEnd hQ hpos x x' hx h; linarith
  · exact h
  · have := bdtF_strictAnti dt u hdt m Q dfEnd hQ hpos x' x hx' h; linarith

/-- **key lemma, BDT.**  Pairing the next level of state prices with any `V` equals pairing this level with one
½/½ backward step of `V` — for any discounting. -/
theorem bdt_pair (disc : ℝ → ℝ) (m : Nat) (Q r V : Nat → ℝ) :
    ∑ k ∈ range (m + 2), bdtNext 𝕆 disc m Q r k * V k
      = ∑ i ∈ range (m + 1), Q i * bdtBackStep 𝕆 (fun i => disc (r i)) V i := by
  have split : ∀ k ∈ range (m + 2), bdtNext 𝕆 disc m Q r k * V k
      = (if 1 ≤ k then 1 / 2 * Q (k - 1) * disc (r (k - 1)) * V k else 0)
        + (if k ≤ m then 1 / 2 * Q k * disc (r k) * V k else 0) := by
    intro k hk
    rw [mem_range] at hk
    unfold bdtNext
    simp only [ofInt_real]
    by_cases h0 : k = 0
    · subst h0; simp
    · by_cases h1 : k = m + 1
      · subst h1
        have : ¬ (m + 1 ≤ m) := by omega
        simp [this]
      · have h2 : k ≤ m := by omega
        have h3 : 1 ≤ k := by omega
        simp [h0, h1, h2, h3]; ring
  rw [Finset.sum_congr rfl split, Finset.sum_add_distrib]
  have s1 : ∑ k ∈ range (m + 2), (if 1 ≤ k then 1 / 2 * Q (k - 1) * disc (r (k - 1)) * V k else 0)
      = ∑ i ∈ range (m + 1), 1 / 2 * Q i * disc (r i) * V (i + 1) := by
    rw [Finset.sum_range_succ' _ (m + 1)]
    simp
  have s2 : ∑ k ∈ range (m + 2), (if k ≤ m then 1 / 2 * Q k * disc (r k) * V k else 0)
      = ∑ i ∈ range (m + 1), 1 / 2 * Q i * disc (r i) * V i := by
    rw [Finset.sum_range_succ _ (m + 1)]
    have : ¬ (m + 1 ≤ m) := by omega
    simp only [this, if_false, add_zero]
    apply Finset.sum_congr rfl
    intro k hk
    rw [mem_range] at hk
    have : k ≤ m := by omega
    simp [this]
  rw [s1, s2, ← Finset.sum_add_distrib]
  apply Finset.sum_congr rfl
  intro i _
  simp only [bdtBackStep, ofInt_real]
  push_cast
  ring

/-- BDT state prices vanish above the diagonal (`Q[m, k] = 0` for `k > m`) -/
theorem bdtQ_support (disc : ℝ → ℝ) (r : Nat → Nat → ℝ) (m k : Nat) (hk : m < k) : bdtQ 𝕆 disc r m k = 0 := by
  cases m with
  | zero =>
    have : ¬ k = 0 := by omega
    simp [bdtQ, bdtQ0, this]
  | succ m =>
    have h0 : ¬ k = 0 := by omega
    have h1 : ¬ k = m + 1 := by omega
    have h2 : ¬ k ≤ m := by omega
    simp [bdtQ, bdtNext, h0, h1, h2]

/-- **C03** BDT (backward-induction invariance, induction over steps): the state-price pairing of the
option-free bond `s` levels below the terminal level `M` equals the pairing of the terminal values plus every
later flow times the row sum of its level. -/
theorem bdt_bond_pair_invariant (disc : ℝ → ℝ) (r : Nat → Nat → ℝ) (flow : Nat → ℝ) (term : Nat → ℝ)
    (M s : Nat) (hs : s ≤ M) :
    ∑ k ∈ range (M - s + 1), bdtQ 𝕆 disc r (M - s) k
        * bdtBondBack 𝕆 (fun m i => disc (r m i)) flow term M s k
      = ∑ k ∈ range (M + 1), bdtQ 𝕆 disc r M k * term k
        + ∑ t ∈ range s, flow (M - (t + 1)) * ∑ k ∈ range (M - (t + 1) + 1), bdtQ 𝕆 disc r (M - (t + 1)) k := by
  induction s with
  | zero => simp [bdtBondBack]
  | succ s ih =>
    have ih' := ih (by omega)
    have hm : M - s = (M - (s + 1)) + 1 := by omega
    rw [Finset.sum_range_succ (fun t => flow (M - (t + 1)) * ∑ k ∈ range (M - (t + 1) + 1), bdtQ 𝕆 disc r (M - (t + 1)) k) s,
      ← add_assoc, ← ih', hm]
    have hq : bdtQ 𝕆 disc r (M - (s + 1) + 1)
        = bdtNext 𝕆 disc (M - (s + 1)) (bdtQ 𝕆 disc r (M - (s + 1))) (r (M - (s + 1))) := rfl
    rw [hq, bdt_pair]
    simp only [bdtBondBack, bdtBondLevel, mul_add, Finset.sum_add_distrib, ← Finset.sum_mul]
    ring

/-- the root value of the BDT option-free roll-back in terms of the rows of `Q` as computed (no fit assumed):
the known finding's gap in `bondpure` is the flows times the gaps of the rows -/
theorem bdt_bond_root_eq_rows (disc : ℝ → ℝ) (r : Nat → Nat → ℝ) (flow : Nat → ℝ) (c : ℝ) (M : Nat) :
    bdtBondBack 𝕆 (fun m i => disc (r m i)) flow (fun _ => c) M M 0
      = c * ∑ k ∈ range (M + 1), bdtQ 𝕆 disc r M k
        + ∑ t ∈ range M, flow (M - (t + 1)) * ∑ k ∈ range (M - (t + 1) + 1), bdtQ 𝕆 disc r (M - (t + 1)) k := by
  have := bdt_bond_pair_invariant disc r flow (fun _ => c) M M le_rfl
  simp only [Nat.sub_self, zero_add, Finset.sum_range_one, bdtQ, bdtQ0, if_true, ofInt_real, Int.cast_one,
    one_mul, ← Finset.sum_mul] at this
  rw [this, mul_comm]

/-- **C03** BDT: if the rows fit the curve (which the search delivers under consistent compounding,
`bdt_row_sum_of_consistent_compounding`), zero-coupon and option-free coupon bonds on the tree are worth
`c·P(0,T) + Σ flow_i·P(0,t_i)`. -/
theorem bdt_bond_on_tree_eq_pv (disc : ℝ → ℝ) (r : Nat → Nat → ℝ) (P : Nat → ℝ) (M : Nat)
    (hfit : ∀ m, m ≤ M → ∑ k ∈ range (m + 1), bdtQ 𝕆 disc r m k = P m) (flow : Nat → ℝ) (c : ℝ) :
    bdtBondBack 𝕆 (fun m i => disc (r m i)) flow (fun _ => c) M M 0
      = c * P M + ∑ t ∈ range M, flow (M - (t + 1)) * P (M - (t + 1)) := by
  rw [bdt_bond_root_eq_rows, hfit M le_rfl]
  congr 1
  apply Finset.sum_congr rfl
  intro t ht
  rw [mem_range] at ht
  rw [hfit _ (by omega)]

/-- **C03** BDT, every step: under consistent compounding and an exact search at every step, every row fits. -/
theorem bdt_all_rows_fit_consistent (disc : ℝ → ℝ) (r : Nat → Nat → ℝ) (P : Nat → ℝ) (hP0 : P 0 = 1)
    (hpost : ∀ m, bdtF 𝕆 disc m (bdtQ 𝕆 disc r m) (r m) (P (m + 1)) = 0) (m : Nat) :
    ∑ k ∈ range (m + 1), bdtQ 𝕆 disc r m k = P m := by
  cases m with
  | zero => simp [bdtQ, bdtQ0, hP0]
  | succ m => exact bdt_row_sum_of_consistent_compounding disc m _ _ _ (hpost m)

/-- **C03** BDT, level 1 (set without a search): with `r[0,0] = -log(df[1])/Δt` and the two state prices
`½·exp(-r·Δt)`, the first row fits the curve exactly. -/
theorem bdt_level1_fits (dt P1 : ℝ) (hdt : dt ≠ 0) (hP : 0 < P1) (r : Nat → Nat → ℝ)
    (hr : r 0 0 = bdt_r0 P1 dt) :
    ∑ k ∈ range 2, bdtQ 𝕆 (discCont 𝕆 dt) r 1 k = P1 ∧
    bdtQ 𝕆 (discCont 𝕆 dt) r 1 0 = bdt_q1 (r 0 0) dt ∧ bdtQ 𝕆 (discCont 𝕆 dt) r 1 1 = bdt_q1 (r 0 0) dt := by
  have e : Real.exp (-(r 0 0 * dt)) = P1 := by
    rw [hr, bdt_r0]
    have : -(-Real.log P1 / dt * dt) = Real.log P1 := by field_simp
    rw [this, Real.exp_log hP]
  have q0 : bdtQ 𝕆 (discCont 𝕆 dt) r 1 0 = 1 / 2 * Real.exp (-(r 0 0 * dt)) := by
    simp [bdtQ, bdtNext, bdtQ0, discCont]
  have q1 : bdtQ 𝕆 (discCont 𝕆 dt) r 1 1 = 1 / 2 * Real.exp (-(r 0 0 * dt)) := by
    simp [bdtQ, bdtNext, bdtQ0, discCont]
  refine ⟨?_, ?_, ?_⟩
  · rw [Finset.sum_range_succ, Finset.sum_range_one, q0, q1, e]; ring
  · rw [q0]; simp only [bdt_q1, neg_mul]; norm_num
  · rw [q1]; simp only [bdt_q1, neg_mul]; norm_num

/-! ### BDT: monotone roll-back, optionality ordering -/

theorem bdtBackStep_mono (d : Nat → ℝ) (hd : ∀ k, 0 ≤ d k) (V W : Nat → ℝ) (hVW : ∀ k, V k ≤ W k) (k : Nat) :
    bdtBackStep 𝕆 d V k ≤ bdtBackStep 𝕆 d W k := by
  simp only [bdtBackStep, ofInt_real]
  apply mul_le_mul_of_nonneg_right _ (hd k)
  have := hVW (k + 1); have := hVW k
  push_cast
  linarith

theorem bdtBackStep_nonneg (d : Nat → ℝ) (hd : ∀ k, 0 ≤ d k) (V : Nat → ℝ) (hV : ∀ k, 0 ≤ V k) (k : Nat) :
    0 ≤ bdtBackStep 𝕆 d V k := by
  have := bdtBackStep_mono d hd (fun _ => 0) V hV k
  simpa [bdtBackStep] using this

/-- **C03** BDT: option values are non-negative and more exercise rights never lower them
(american ≥ bermudan ≥ european ≥ 0), at every node and level. -/
theorem bdt_option_value_mono_exercise (d : Nat → Nat → ℝ) (hd : ∀ m k, 0 ≤ d m k) (payoff : Nat → Nat → ℝ)
    (ex ex' : Nat → Bool) (hex : ∀ m, ex m = true → ex' m = true) (M s k : Nat) :
    0 ≤ bdtOptBack 𝕆 d payoff ex M s k ∧ bdtOptBack 𝕆 d payoff ex M s k ≤ bdtOptBack 𝕆 d payoff ex' M s k := by
  induction s generalizing k with
  | zero => simp [bdtOptBack]
  | succ s ih =>
    simp only [bdtOptBack, bdtOptLevel]
    have hb := bdtBackStep_mono (d (M - (s + 1))) (hd _) _ _ (fun i => (ih i).2) k
    have hn := bdtBackStep_nonneg (d (M - (s + 1))) (hd _) _ (fun i => (ih i).1) k
    cases h1 : ex (M - (s + 1)) with
    | true =>
      rw [hex _ h1]
      simp only [if_true, max_real]
      exact ⟨le_max_of_le_right hn, max_le_max le_rfl hb⟩
    | false =>
      cases h2 : ex' (M - (s + 1)) with
      | true => simp only [if_true, max_real]; exact ⟨by simpa using hn, le_max_of_le_right hb⟩
      | false => exact ⟨by simpa using hn, by simpa using hb⟩

/-- **C03** BDT: `american ≥ european ≥ 0` at the root. -/
theorem bdt_american_ge_european_ge_0 (d : Nat → Nat → ℝ) (hd : ∀ m k, 0 ≤ d m k) (payoff : Nat → Nat → ℝ) (M : Nat) :
    0 ≤ bdtOptBack 𝕆 d payoff (fun _ => false) M M 0 ∧
    bdtOptBack 𝕆 d payoff (fun _ => false) M M 0 ≤ bdtOptBack 𝕆 d payoff (fun _ => true) M M 0 :=
  bdt_option_value_mono_exercise d hd payoff _ _ (fun _ h => by simp at h) M M 0

/-- **C03** BDT: `callable ≤ option-free ≤ puttable` (same reading of "no put" = floor and "no call" = cap as for
the trinomial trees: the floor must not exceed, the cap must not undercut, the option-free clean value). -/
theorem bdt_callable_le_pure_le_puttable (d : Nat → Nat → ℝ) (hd : ∀ m k, 0 ≤ d m k)
    (flow acc put call put' call' : Nat → ℝ) (term : Nat → ℝ) (M : Nat)
    (hput : ∀ s, s ≤ M → ∀ k, put (M - s) ≤ bdtBondBack 𝕆 d flow term M s k - acc (M - s))
    (hcall : ∀ s, s ≤ M → ∀ k, bdtBondBack 𝕆 d flow term M s k - acc (M - s) ≤ call' (M - s))
    (s : Nat) (hs : s ≤ M) (k : Nat) :
    bdtCpBack 𝕆 d flow acc put call term M s k ≤ bdtBondBack 𝕆 d flow term M s k ∧
    bdtBondBack 𝕆 d flow term M s k ≤ bdtCpBack 𝕆 d flow acc put' call' term M s k := by
  induction s generalizing k with
  | zero =>
    have h1 := hput 0 (Nat.zero_le _) k
    have h2 := hcall 0 (Nat.zero_le _) k
    simp only [bdtCpBack, bdtBondBack, cpClamp, min_real, max_real, Nat.sub_zero] at *
    constructor
    · rw [max_eq_left h1]
      have := min_le_left (term k - acc M) (call M)
      linarith
    · have : term k - acc M ≤ min (max (term k - acc M) (put' M)) (call' M) := le_min (le_max_left _ _) h2
      linarith
  | succ s ih =>
    have hb1 := bdtBackStep_mono (d (M - (s + 1))) (hd _) _ _ (fun i => (ih (by omega) i).1) k
    have hb2 := bdtBackStep_mono (d (M - (s + 1))) (hd _) _ _ (fun i => (ih (by omega) i).2) k
    have h1 := hput (s + 1) hs k
    have h2 := hcall (s + 1) hs k
    simp only [bdtCpBack, bdtCpLevel, bdtBondBack, bdtBondLevel, cpClamp, min_real, max_real] at *
    set x := bdtBackStep 𝕆 (d (M - (s + 1))) (bdtCpBack 𝕆 d flow acc put call term M s) k
    set x' := bdtBackStep 𝕆 (d (M - (s + 1))) (bdtCpBack 𝕆 d flow acc put' call' term M s) k
    set y := bdtBackStep 𝕆 (d (M - (s + 1))) (bdtBondBack 𝕆 d flow term M s) k
    set f := flow (M - (s + 1))
    set ac := acc (M - (s + 1))
    constructor
    · have h3 : max (x + f - ac) (put (M - (s + 1))) ≤ y + f - ac := max_le (by linarith) h1
      have := min_le_left (max (x + f - ac) (put (M - (s + 1)))) (call (M - (s + 1)))
      linarith
    · have h3 : y + f - ac ≤ min (max (x' + f - ac) (put' (M - (s + 1)))) (call' (M - (s + 1))) :=
        le_min (le_trans (by linarith) (le_max_left _ _)) h2
      linarith

end FinVerif.Props.C03
