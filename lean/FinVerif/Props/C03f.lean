/-
  C03 (part f) — the roll-back as the routines store it, linearity, and the remaining ordering facts.
  * The arrays of the roll-back routines are written only on the nodes `-nm … nm` of each level and are zero
    elsewhere; on the written nodes they are the everywhere-defined `bondBack / cpBack / optBack` of the model
    (the dependency cone of a written node never reaches an unwritten cell), so every theorem of C03c–e about
    the root value is a theorem about the stored value `…[0, j_max]`.
  * The roll-back is linear; a European option is the state-price-weighted expiry payoff; call − put parity on
    the tree; american ≥ exercise value; "no schedules" ⇒ callable/puttable = option-free.
-/
import FinVerif.Props.C03e

namespace FinVerif.Props.C03
open FinVerif.Model.C03 Finset

theorem onNodes_in (nm : Int) (f : Int → ℝ) (j : Int) (h : -nm ≤ j ∧ j ≤ nm) : onNodes 𝕆 nm f j = f j := by
  simp [onNodes, h]

theorem onNodes_out (nm : Int) (f : Int → ℝ) (j : Int) (h : ¬ (-nm ≤ j ∧ j ≤ nm)) : onNodes 𝕆 nm f j = 0 := by
  simp [onNodes, h]

/-- one backward step only looks at the three branch targets -/
theorem backStep_congr (J : Nat) (p : Int → P3 ℝ) (z V W : Int → ℝ) (j : Int)
    (h : V (upT J j) = W (upT J j) ∧ V (midT J j) = W (midT J j) ∧ V (dnT J j) = W (dnT J j)) :
    backStep J p z V j = backStep J p z W j := by
  unfold backStep; rw [h.1, h.2.1, h.2.2]

/-- the targets of a written node of level `m` are written nodes of level `m+1` -/
theorem targets_written (J : Nat) (hJ : 0 < J) (m : Nat) (j : Int) (hj : -(nmOf J m) ≤ j ∧ j ≤ nmOf J m) :
    (-(nmOf J (m + 1)) ≤ upT J j ∧ upT J j ≤ nmOf J (m + 1)) ∧
    (-(nmOf J (m + 1)) ≤ midT J j ∧ midT J j ≤ nmOf J (m + 1)) ∧
    (-(nmOf J (m + 1)) ≤ dnT J j ∧ dnT J j ≤ nmOf J (m + 1)) := by
  obtain ⟨h0, hn⟩ := nmOf_bounds J m
  have := targets_in J hJ (nmOf J m) h0 hn j hj
  rw [nmOf_succ] at this
  exact this

/-- **C03** (the stored option-free roll-back is the model) on every written node of every level the array
`bond_values` of `callable_puttable_bond_tree_fast` / `american_bond_option_tree_fast` equals `bondBack`. -/
theorem bondBackC_eq {J : Nat} (hJ : 0 < J) (p : Int → P3 ℝ) (z : Nat → Int → ℝ) (flow : Nat → ℝ) (term : Int → ℝ)
    (M d : Nat) (hd : d ≤ M) (j : Int) (hj : -(nmOf J (M - d)) ≤ j ∧ j ≤ nmOf J (M - d)) :
    bondBackC 𝕆 J p z flow term M d j = bondBack J p z flow term M d j := by
  induction d generalizing j with
  | zero => simp only [bondBackC, bondBack]; exact onNodes_in _ _ _ hj
  | succ d ih =>
    simp only [bondBackC, bondBack]
    rw [onNodes_in _ _ _ hj]
    unfold bondLevel
    congr 1
    have hm : M - d = (M - (d + 1)) + 1 := by omega
    obtain ⟨tu, tm, td⟩ := targets_written J hJ (M - (d + 1)) j hj
    rw [← hm] at tu tm td
    exact backStep_congr J p _ _ _ j ⟨ih (by omega) _ tu, ih (by omega) _ tm, ih (by omega) _ td⟩

/-- **C03** (the stored callable/puttable roll-back is the model) same for `call_put_bond_values`. -/
theorem cpBackC_eq {J : Nat} (hJ : 0 < J) (p : Int → P3 ℝ) (z : Nat → Int → ℝ) (flow acc put call : Nat → ℝ)
    (term : Int → ℝ) (M d : Nat) (hd : d ≤ M) (j : Int) (hj : -(nmOf J (M - d)) ≤ j ∧ j ≤ nmOf J (M - d)) :
    cpBackC 𝕆 J p z flow acc put call term M d j = cpBack 𝕆 J p z flow acc put call term M d j := by
  induction d generalizing j with
  | zero => simp only [cpBackC, cpBack]; exact onNodes_in _ _ _ hj
  | succ d ih =>
    simp only [cpBackC, cpBack]
    rw [onNodes_in _ _ _ hj]
    unfold cpLevel
    congr 2
    have hm : M - d = (M - (d + 1)) + 1 := by omega
    obtain ⟨tu, tm, td⟩ := targets_written J hJ (M - (d + 1)) j hj
    rw [← hm] at tu tm td
    exact backStep_congr J p _ _ _ j ⟨ih (by omega) _ tu, ih (by omega) _ tm, ih (by omega) _ td⟩

/-- **C03** (the stored option roll-back is the model) same for `call_option_values` / `put_option_values`. -/
theorem optBackC_eq {J : Nat} (hJ : 0 < J) (p : Int → P3 ℝ) (z : Nat → Int → ℝ) (payoff : Nat → Int → ℝ)
    (ex : Nat → Bool) (M d : Nat) (hd : d ≤ M) (j : Int) (hj : -(nmOf J (M - d)) ≤ j ∧ j ≤ nmOf J (M - d)) :
    optBackC 𝕆 J p z payoff ex M d j = optBack 𝕆 J p z payoff ex M d j := by
  induction d generalizing j with
  | zero => simp only [optBackC, optBack]; exact onNodes_in _ _ _ hj
  | succ d ih =>
    simp only [optBackC, optBack]
    rw [onNodes_in _ _ _ hj]
    have hm : M - d = (M - (d + 1)) + 1 := by omega
    obtain ⟨tu, tm, td⟩ := targets_written J hJ (M - (d + 1)) j hj
    rw [← hm] at tu tm td
    have hb := backStep_congr J p (z (M - (d + 1))) _ _ j ⟨ih (by omega) _ tu, ih (by omega) _ tm, ih (by omega) _ td⟩
    simp only [optLevel, hb]

/-- **C03** the values the routines return — the cell `[0, j_max]`, i.e. node `0` of level `0` — are the model's
root values, for any number of steps; unwritten cells hold `0.0`. -/
theorem coded_root_eq_model {J : Nat} (hJ : 0 < J) (p : Int → P3 ℝ) (z : Nat → Int → ℝ) (flow acc put call : Nat → ℝ)
    (term : Int → ℝ) (payoff : Nat → Int → ℝ) (ex : Nat → Bool) (M : Nat) :
    bondBackC 𝕆 J p z flow term M M 0 = bondBack J p z flow term M M 0 ∧
    cpBackC 𝕆 J p z flow acc put call term M M 0 = cpBack 𝕆 J p z flow acc put call term M M 0 ∧
    optBackC 𝕆 J p z payoff ex M M 0 = optBack 𝕆 J p z payoff ex M M 0 ∧
    (∀ d j, d ≤ M → ¬ (-(nmOf J (M - d)) ≤ j ∧ j ≤ nmOf J (M - d)) → bondBackC 𝕆 J p z flow term M d j = 0) := by
  have h0 : -(nmOf J (M - M)) ≤ (0 : Int) ∧ (0 : Int) ≤ nmOf J (M - M) := by unfold nmOf; omega
  refine ⟨bondBackC_eq hJ p z flow term M M le_rfl 0 h0, cpBackC_eq hJ p z flow acc put call term M M le_rfl 0 h0,
    optBackC_eq hJ p z payoff ex M M le_rfl 0 h0, ?_⟩
  intro d j _ hj
  cases d with
  | zero => simp only [bondBackC]; exact onNodes_out _ _ _ hj
  | succ d => simp only [bondBackC]; exact onNodes_out _ _ _ hj

/-! ### linearity -/

/-- **C03** one backward step is linear in the next level's values -/
theorem backStep_linear (J : Nat) (p : Int → P3 ℝ) (z V W : Int → ℝ) (a b : ℝ) (j : Int) :
    backStep J p z (fun i => a * V i + b * W i) j = a * backStep J p z V j + b * backStep J p z W j := by
  unfold backStep; ring

/-- **C03** the option-free roll-back is linear in (flows, terminal values), by induction over the steps -/
theorem bondBack_linear (J : Nat) (p : Int → P3 ℝ) (z : Nat → Int → ℝ) (f g : Nat → ℝ) (s t : Int → ℝ) (a b : ℝ)
    (M d : Nat) (j : Int) :
    bondBack J p z (fun m => a * f m + b * g m) (fun i => a * s i + b * t i) M d j
      = a * bondBack J p z f s M d j + b * bondBack J p z g t M d j := by
  induction d generalizing j with
  | zero => simp [bondBack]
  | succ d ih =>
    simp only [bondBack, bondLevel]
    have : bondBack J p z (fun m => a * f m + b * g m) (fun i => a * s i + b * t i) M d
        = fun i => a * bondBack J p z f s M d i + b * bondBack J p z g t M d i := funext ih
    rw [this, backStep_linear]; ring

/-- a European option (no early exercise) is the flow-free roll-back of its expiry payoff -/
theorem european_eq_bondBack (J : Nat) (p : Int → P3 ℝ) (z : Nat → Int → ℝ) (payoff : Nat → Int → ℝ) (M d : Nat)
    (j : Int) :
    optBack 𝕆 J p z payoff (fun _ => false) M d j
      = bondBack J p z (fun _ => 0) (fun i => max (payoff M i) 0) M d j := by
  induction d generalizing j with
  | zero => simp [optBack, bondBack]
  | succ d ih =>
    simp only [optBack, optLevel, bondBack, bondLevel, add_zero]
    have : optBack 𝕆 J p z payoff (fun _ => false) M d
        = bondBack J p z (fun _ => 0) (fun i => max (payoff M i) 0) M d := funext ih
    simp [this]

/-- **C03** (the harness oracle "backward induction = state-price-weighted expiry payoff" as a theorem) on any
lattice the European option value at the root is `Σ_j Q[M, j]·max(payoff_j, 0)`. -/
theorem european_eq_state_price_payoff {J : Nat} (hJ : 0 < J) {p z Q} (h : IsLattice J p z Q)
    (payoff : Nat → Int → ℝ) (M : Nat) :
    optBack 𝕆 J p z payoff (fun _ => false) M M 0 = ∑ j ∈ Icc (-(J : Int)) J, Q M j * max (payoff M j) 0 := by
  rw [european_eq_bondBack]
  have := bond_pair_invariant hJ h (fun _ => 0) (fun i => max (payoff M i) 0) M M le_rfl
  rw [Nat.sub_self, h.1, q0_pair] at this
  simpa using this

/-- **C03** call − put parity on the tree: European call minus European put on the same underlying values is the
flow-free roll-back of `underlying − K` (so it is `Σ_j Q[M,j]·(underlying_j − K)` on a lattice). -/
theorem tree_put_call_parity (J : Nat) (p : Int → P3 ℝ) (z : Nat → Int → ℝ) (c : Nat → Int → ℝ) (K : ℝ) (M d : Nat)
    (j : Int) :
    optBack 𝕆 J p z (fun m i => c m i - K) (fun _ => false) M d j
        - optBack 𝕆 J p z (fun m i => K - c m i) (fun _ => false) M d j
      = bondBack J p z (fun _ => 0) (fun i => c M i - K) M d j := by
  rw [european_eq_bondBack, european_eq_bondBack]
  have hl := bondBack_linear J p z (fun _ => 0) (fun _ => 0) (fun i => max (c M i - K) 0) (fun i => max (K - c M i) 0)
    1 (-1) M d j
  have e1 : (fun m : Nat => (1 : ℝ) * (fun _ => (0 : ℝ)) m + -1 * (fun _ => (0 : ℝ)) m) = fun _ => 0 := by
    funext m; simp
  have e2 : (fun i : Int => (1 : ℝ) * max (c M i - K) 0 + -1 * max (K - c M i) 0) = fun i => c M i - K := by
    funext i
    rcases le_total (c M i) K with hle | hle
    · rw [max_eq_right (by linarith), max_eq_left (by linarith)]; ring
    · rw [max_eq_left (by linarith), max_eq_right (by linarith)]; ring
  simp only [e1, e2] at hl
  rw [hl]; ring

/-! ### remaining ordering facts -/

/-- **C03** an American option is worth at least its exercise value, at every node and level -/
theorem american_ge_intrinsic (J : Nat) (p : Int → P3 ℝ) (z : Nat → Int → ℝ) (payoff : Nat → Int → ℝ) (M d : Nat)
    (j : Int) : payoff (M - d) j ≤ optBack 𝕆 J p z payoff (fun _ => true) M d j := by
  cases d with
  | zero => simp only [optBack, max_real, Nat.sub_zero]; exact le_max_left _ _
  | succ d => simp only [optBack, optLevel, if_true, max_real]; exact le_max_left _ _

/-- **C03** option values are monotone in the payoff (a call with a lower strike is worth more, …) -/
theorem option_value_mono_payoff {J : Nat} (hJ : 0 < J) {p z} (hn : NonNeg J p z) (payoff payoff' : Nat → Int → ℝ)
    (hpay : ∀ m j, payoff m j ≤ payoff' m j) (ex : Nat → Bool) (M d : Nat) (j : Int) (hj : Node J j) :
    optBack 𝕆 J p z payoff ex M d j ≤ optBack 𝕆 J p z payoff' ex M d j := by
  induction d generalizing j with
  | zero => simp only [optBack, max_real]; exact max_le_max (hpay _ _) le_rfl
  | succ d ih =>
    simp only [optBack, optLevel]
    have hb := backStep_mono hJ hn (M - (d + 1)) _ _ (fun i hi => ih i hi) j hj
    cases ex (M - (d + 1)) with
    | true => simp only [if_true, max_real]; exact max_le_max (hpay _ _) hb
    | false => simpa using hb

/-- **C03** with schedules that never bind (put floor ≤ option-free clean value ≤ call cap at every node — the
code's "no puts, no calls" is floor `0`, cap `1000·face`) the callable/puttable roll-back *is* the option-free one. -/
theorem no_option_eq_pure {J : Nat} (hJ : 0 < J) {p z} (hn : NonNeg J p z)
    (flow acc put call : Nat → ℝ) (term : Int → ℝ) (M : Nat)
    (hput : ∀ d, d ≤ M → ∀ j, Node J j → put (M - d) ≤ bondBack J p z flow term M d j - acc (M - d))
    (hcall : ∀ d, d ≤ M → ∀ j, Node J j → bondBack J p z flow term M d j - acc (M - d) ≤ call (M - d))
    (d : Nat) (hd : d ≤ M) (j : Int) (hj : Node J j) :
    cpBack 𝕆 J p z flow acc put call term M d j = bondBack J p z flow term M d j :=
  le_antisymm (callable_le_pure hJ hn flow acc put call term M hput d hd j hj)
    (pure_le_puttable hJ hn flow acc put call term M hcall d hd j hj)

/-- **C03** `callable ≤ option-free ≤ puttable` for the values the routine returns (stored arrays, cell
`[0, j_max]`), combining `coded_root_eq_model` with C03c. -/
theorem coded_callable_le_pure_le_puttable {J : Nat} (hJ : 0 < J) {p z} (hn : NonNeg J p z)
    (flow acc put call put' call' : Nat → ℝ) (term : Int → ℝ) (M : Nat)
    (hput : ∀ d, d ≤ M → ∀ j, Node J j → put (M - d) ≤ bondBack J p z flow term M d j - acc (M - d))
    (hcall : ∀ d, d ≤ M → ∀ j, Node J j → bondBack J p z flow term M d j - acc (M - d) ≤ call' (M - d)) :
    cpBackC 𝕆 J p z flow acc put call term M M 0 ≤ bondBackC 𝕆 J p z flow term M M 0 ∧
    bondBackC 𝕆 J p z flow term M M 0 ≤ cpBackC 𝕆 J p z flow acc put' call' term M M 0 := by
  have h0 : Node J 0 := by unfold Node; omega
  obtain ⟨e1, e2, _, _⟩ := coded_root_eq_model hJ p z flow acc put call term (fun _ _ => 0) (fun _ => false) M
  obtain ⟨_, e3, _, _⟩ := coded_root_eq_model hJ p z flow acc put' call' term (fun _ _ => 0) (fun _ => false) M
  rw [e1, e2, e3]
  exact ⟨callable_le_pure hJ hn flow acc put call term M hput M le_rfl 0 h0,
    pure_le_puttable hJ hn flow acc put' call' term M hcall M le_rfl 0 h0⟩

/-- **C03** `american ≥ european ≥ 0` for the stored option arrays. -/
theorem coded_american_ge_european_ge_0 {J : Nat} (hJ : 0 < J) {p z} (hn : NonNeg J p z)
    (payoff : Nat → Int → ℝ) (M : Nat) :
    0 ≤ optBackC 𝕆 J p z payoff (fun _ => false) M M 0 ∧
    optBackC 𝕆 J p z payoff (fun _ => false) M M 0 ≤ optBackC 𝕆 J p z payoff (fun _ => true) M M 0 := by
  obtain ⟨_, _, e1, _⟩ := coded_root_eq_model hJ p z (fun _ => 0) (fun _ => 0) (fun _ => 0) (fun _ => 0) (fun _ => 0)
    payoff (fun _ => false) M
  obtain ⟨_, _, e2, _⟩ := coded_root_eq_model hJ p z (fun _ => 0) (fun _ => 0) (fun _ => 0) (fun _ => 0) (fun _ => 0)
    payoff (fun _ => true) M
  rw [e1, e2]
  exact american_ge_european_ge_0 hJ hn payoff M

/-- non-vacuity of `NonNeg` for the HW tree: under Hull's condition at every node the probabilities and the
discounts `exp(-r·Δt)` are non-negative -/
theorem hw_nonNeg (a dt dR : ℝ) (J : Nat) (hJ : 0 < J) (ha : 0 ≤ a * dt) (al : Nat → ℝ)
    (hc : ∀ j, Node J j → HullCond a dt J j) :
    NonNeg J (probs 𝕆 a dt J) (fun m => hwZ 𝕆 dt dR (al m)) := by
  intro j hj
  have := hw_probs_in_unit_interval a dt J hJ j ha hj (hc j hj)
  refine ⟨⟨this.1.1, this.2.1.1, this.2.2.1⟩, fun m => ?_⟩
  simp only [hwZ, exp_real]; exact (Real.exp_pos _).le

end FinVerif.Props.C03
