/-
  C04 (part b) — what `IborCapVolCurve.generate_caplet_vols` guarantees, stated EXACTLY with the code's own index
  conventions (hand model `Model.C04.capletLoop` / `capletVols`, tied to the implementation by correspondence), for
  every number of caps (induction over the list of caps):

  * `caplet_variance_identity`: whenever the stripping returns, after every cap `i ≥ 1`
        σ₀²·τ₀ + Σ_{1≤j≤i} γⱼ²·τⱼ  =  σᵢ² · Σ_{1≤j≤i} τⱼ                                   (accrual-weighted variances)
    — the accumulated variance starts with σ₀²τ₀ (index 0) while the accumulated time starts at τ₁ (index 1), exactly as
    coded; the constructor forces σ₀ = 0, which is what makes the two conventions agree.
  * error branch: the stripping raises, and raises `FinError`, exactly when some step's caplet variance is negative
    (`caplet_returns_iff_no_negative_variance`, `caplet_error_is_finError`, `caplet_negative_variance_raises`).
  * `caplet_flat_curve_strips_flat`: a flat cap curve strips to the same flat caplet vol.

  NOT implied (and false on the unchanged code, see notes/C04.md and the known finding): that the stripped caplet vols
  reprice the input caps.  The identity weights variances by ACCRUAL fractions τⱼ; a Black caplet's total variance is
  γⱼ²·(time to its fixing), and Black prices are not linear in variance.
-/
import FinVerif.Model.C04
import FinVerif.Spec.C04
import Mathlib.Analysis.SpecialFunctions.Sqrt
import Mathlib.Tactic.Linarith
import Mathlib.Tactic.FieldSimp
import Mathlib.Tactic.Ring

set_option linter.unusedVariables false
set_option linter.unusedSimpArgs false

namespace FinVerif.Props.C04
open FinVerif FinVerif.Model.C04 FinVerif.Spec.C04

/-- caplet variance of one step, as coded: `(vol_cap**2 * sum_tau - cum_ibor2_tau) / tau` with `sum_tau` already
incremented -/
noncomputable def stepVar (c s τ σ : ℝ) : ℝ := (σ * σ * (s + τ) - c) / τ

/-- no step of the stripping produces a negative caplet variance -/
def NoNegVar : ℝ → ℝ → List (ℝ × ℝ) → Prop
  | _, _, [] => True
  | c, s, (τ, σ) :: ps => 0 ≤ stepVar c s τ σ ∧ NoNegVar (c + stepVar c s τ σ * τ) (s + τ) ps

theorem capletLoop_cons (sq : ℝ → ℝ) (τ σ : ℝ) (ps : List (ℝ × ℝ)) (c s : ℝ) (acc : List ℝ) :
    capletLoop sq ((τ, σ) :: ps) c s acc =
      if stepVar c s τ σ < 0 then .error .finError
      else capletLoop sq ps (c + stepVar c s τ σ * τ) (s + τ) (sq (stepVar c s τ σ) :: acc) := by
  simp only [capletLoop, stepVar]
  rfl

/-- C04: the only error the stripping loop can raise is `FinError`. -/
theorem caplet_error_is_finError (sq : ℝ → ℝ) (ps : List (ℝ × ℝ)) (c s : ℝ) (acc : List ℝ) (e : PyErr)
    (h : capletLoop sq ps c s acc = .error e) : e = .finError := by
  induction ps generalizing c s acc with
  | nil => simp [capletLoop] at h
  | cons p ps ih =>
    obtain ⟨τ, σ⟩ := p
    rw [capletLoop_cons] at h
    split at h
    · simp at h; exact h.symm
    · exact ih _ _ _ h

/-- C04 (error branch): a negative caplet variance at the current cap raises `FinError`. -/
theorem caplet_negative_variance_raises (sq : ℝ → ℝ) (τ σ : ℝ) (ps : List (ℝ × ℝ)) (c s : ℝ) (acc : List ℝ)
    (h : stepVar c s τ σ < 0) : capletLoop sq ((τ, σ) :: ps) c s acc = .error .finError := by
  rw [capletLoop_cons, if_pos h]

/-- C04 (error branch, complete): the stripping returns iff no step has a negative caplet variance; otherwise it
raises `FinError`. -/
theorem caplet_returns_iff_no_negative_variance (sq : ℝ → ℝ) (ps : List (ℝ × ℝ)) (c s : ℝ) (acc : List ℝ) :
    (∃ out, capletLoop sq ps c s acc = .ok out) ↔ NoNegVar c s ps := by
  induction ps generalizing c s acc with
  | nil => simp [capletLoop, NoNegVar]
  | cons p ps ih =>
    obtain ⟨τ, σ⟩ := p
    rw [capletLoop_cons]
    by_cases hv : stepVar c s τ σ < 0
    · simp only [if_pos hv, NoNegVar]
      constructor
      · rintro ⟨out, h⟩; simp at h
      · rintro ⟨h, _⟩; exact absurd hv (not_lt.mpr h)
    · simp only [if_neg hv, NoNegVar]
      rw [ih]
      exact ⟨fun h => ⟨not_lt.mp hv, h⟩, fun h => h.2⟩

theorem caplet_raises_iff_negative_variance (sq : ℝ → ℝ) (ps : List (ℝ × ℝ)) (c s : ℝ) (acc : List ℝ) :
    capletLoop sq ps c s acc = .error .finError ↔ ¬ NoNegVar c s ps := by
  rw [← caplet_returns_iff_no_negative_variance sq ps c s acc]
  constructor
  · rintro h ⟨out, h'⟩; rw [h] at h'; simp at h'
  · intro h
    cases hres : capletLoop sq ps c s acc with
    | error e => rw [caplet_error_is_finError sq ps c s acc e hres]
    | ok out => exact absurd ⟨out, hres⟩ h

/-- The loop invariant: whatever the loop returns extends the accumulated gammas by a list that satisfies the running
variance identity. -/
theorem capletLoop_spec (ps : List (ℝ × ℝ)) (c s : ℝ) (acc out : List ℝ) (hτ : ∀ p ∈ ps, p.1 ≠ 0)
    (h : capletLoop Real.sqrt ps c s acc = .ok out) :
    ∃ gs, out = acc.reverse ++ gs ∧ VarianceIdentity c s ps gs := by
  induction ps generalizing c s acc with
  | nil =>
    simp only [capletLoop, Except.ok.injEq] at h
    exact ⟨[], by simp [h.symm], trivial⟩
  | cons p ps ih =>
    obtain ⟨τ, σ⟩ := p
    rw [capletLoop_cons] at h
    split at h
    · simp at h
    · rename_i hv
      have hv0 : 0 ≤ stepVar c s τ σ := not_lt.mp hv
      have hτ0 : τ ≠ 0 := hτ (τ, σ) (List.mem_cons_self ..)
      obtain ⟨gs, hout, hid⟩ := ih _ _ _ (fun p hp => hτ p (List.mem_cons_of_mem _ hp)) h
      have hsq : Real.sqrt (stepVar c s τ σ) ^ 2 = stepVar c s τ σ := Real.sq_sqrt hv0
      have hstep : stepVar c s τ σ * τ = σ ^ 2 * (s + τ) - c := by
        unfold stepVar; field_simp
      refine ⟨Real.sqrt (stepVar c s τ σ) :: gs, ?_, ?_⟩
      · rw [hout]; simp
      · refine ⟨?_, Real.sqrt_nonneg _, ?_⟩
        · rw [hsq, hstep]; ring
        · rw [hsq]; exact hid

/-- C04 `caplet_variance_identity` (as coded): if `generate_caplet_vols` returns for year fractions `τ₀ :: τs` and cap
vols `σ₀ :: σs` (τᵢ ≠ 0 for i ≥ 1), the result is `0 :: γs` and the running identity holds starting from accumulated
variance `σ₀²·τ₀` and accumulated time `0`. -/
theorem caplet_variance_identity (τ0 σ0 : ℝ) (τs σs out : List ℝ) (hτ : ∀ p ∈ τs.zip σs, p.1 ≠ 0)
    (h : capletVols Real.sqrt (τ0 :: τs) (σ0 :: σs) = .ok out) :
    ∃ γs, out = 0 :: γs ∧ VarianceIdentity (σ0 * σ0 * τ0) 0 (τs.zip σs) γs := by
  simp only [capletVols] at h
  obtain ⟨gs, hout, hid⟩ := capletLoop_spec _ _ _ _ _ hτ h
  exact ⟨gs, by simpa using hout, hid⟩

/-- the running identity in closed form: for every cap index `i`,
`c + Σ_{j ≤ i} γⱼ² τⱼ = σᵢ² (s + Σ_{j ≤ i} τⱼ)`. -/
theorem varianceIdentity_prefix (ps : List (ℝ × ℝ)) (gs : List ℝ) (c s : ℝ) (h : VarianceIdentity c s ps gs)
    (i : ℕ) (hi : i < ps.length) :
    c + (((gs.zip ps).take (i + 1)).map (fun x => x.1 ^ 2 * x.2.1)).sum
      = (ps[i]).2 ^ 2 * (s + ((ps.take (i + 1)).map Prod.fst).sum) := by
  induction ps generalizing gs c s i with
  | nil => simp at hi
  | cons p ps ih =>
    obtain ⟨τ, σ⟩ := p
    cases gs with
    | nil => simp [VarianceIdentity] at h
    | cons γ gs =>
      obtain ⟨h1, _, h3⟩ := h
      cases i with
      | zero => simp; linarith
      | succ i =>
        have := ih gs _ _ h3 i (by simpa using hi)
        simp only [List.zip_cons_cons, List.take_succ_cons, List.map_cons, List.sum_cons, List.getElem_cons_succ] at this ⊢
        linarith

/-- lengths agree: one caplet vol per cap -/
theorem varianceIdentity_length (ps : List (ℝ × ℝ)) (gs : List ℝ) (c s : ℝ) (h : VarianceIdentity c s ps gs) :
    gs.length = ps.length := by
  induction ps generalizing gs c s with
  | nil => cases gs with
    | nil => rfl
    | cons _ _ => simp [VarianceIdentity] at h
  | cons p ps ih =>
    obtain ⟨τ, σ⟩ := p
    cases gs with
    | nil => simp [VarianceIdentity] at h
    | cons γ gs => simp [ih gs _ _ h.2.2]

/-- C04: a flat cap-vol curve strips to the same flat caplet vol (start consistent: `c = σ²·s`, which is the coded start
`σ₀²τ₀ = 0 = σ²·0` because the constructor forces σ₀ = 0). -/
theorem caplet_flat_curve_strips_flat (σ : ℝ) (ps : List (ℝ × ℝ)) (gs : List ℝ) (c s : ℝ) (hc : c = σ ^ 2 * s)
    (hflat : ∀ p ∈ ps, p.2 = σ ∧ 0 < p.1) (h : VarianceIdentity c s ps gs) : ∀ γ ∈ gs, γ = |σ| := by
  induction ps generalizing gs c s with
  | nil => cases gs with
    | nil => intro γ hγ; cases hγ
    | cons _ _ => simp [VarianceIdentity] at h
  | cons p ps ih =>
    obtain ⟨τ, σ'⟩ := p
    cases gs with
    | nil => simp [VarianceIdentity] at h
    | cons γ gs =>
      obtain ⟨h1, h2, h3⟩ := h
      obtain ⟨hσ, hτ⟩ := hflat (τ, σ') (List.mem_cons_self ..)
      simp only at hσ hτ
      subst hσ
      have hγ2 : γ ^ 2 = σ' ^ 2 := by
        have : γ ^ 2 * τ = σ' ^ 2 * τ := by rw [hc] at h1; linarith
        exact mul_right_cancel₀ hτ.ne' this
      have hγ : γ = |σ'| := by
        rw [← Real.sqrt_sq h2, hγ2, Real.sqrt_sq_eq_abs]
      intro g hg
      rcases List.mem_cons.mp hg with rfl | hg
      · exact hγ
      · exact ih gs _ _ (by rw [hc, hγ2]; ring) (fun p hp => hflat p (List.mem_cons_of_mem _ hp)) h3 g hg

/-- non-vacuity: two caps, 20% then 22% flat vol on annual accruals strip to 20% and √(2·0.22² − 0.2²) -/
example : capletVols Real.sqrt [0, 1, 1] [0, 0.2, 0.22]
    = .ok [0, Real.sqrt 0.04, Real.sqrt 0.0568] := by
  simp only [capletVols, List.zip_cons_cons, List.zip_nil_right, capletLoop]
  norm_num

/-- … and a steeply falling cap curve raises `FinError` (negative caplet variance) -/
example : capletVols Real.sqrt [0, 1, 1] [0, 0.3, 0.2] = .error .finError := by
  simp only [capletVols, List.zip_cons_cons, List.zip_nil_right, capletLoop]
  norm_num

end FinVerif.Props.C04
