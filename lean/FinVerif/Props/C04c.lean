/-
  C04 (part c) — algebra on the GENERATED formulas (`Gen/VolR.lean`, regenerated from /repo on every run):

  * `atm_strike_formula_is_atm`, per FinFXATMMethod as coded in FXVolSurface.build_vol_surface and
    FXVolSurfacePlus._build_vol_surface:  SPOT ↦ the spot, FWD ↦ the forward, FWD_DELTA_NEUTRAL ↦ the strike at which the
    FORWARD delta (fast_delta, FinFXDeltaMethod.FORWARD_DELTA) of the straddle is 0, FWD_DELTA_NEUTRAL_PREM_ADJ ↦ the strike
    at which the PREMIUM-ADJUSTED forward delta of the straddle is 0.  No symmetry of N is needed: at those strikes d₁ (resp.
    d₂) is exactly 0, so call and put evaluate the coded `N` at the same point.
  * `sabr_atm_alpha_root_returns_vol`: a root α ≥ 1e-10 of the cubic whose coefficients `set_alpha_from_atm_black_vol`
    hands to `np.roots` makes the coded Hagan formula `vol_function_sabr` return the target vol at f = k = K.  (That the
    code picks a ROOT: the root selection (commit 220a8a5, hand model `Model.C04.selectAlpha`, source text pinned by the
    registry) returns the real part of a root that passed the real-root filter, the smallest such, strictly positive —
    or raises FinError when no root passes (`select_alpha_*`); `sabr_atm_calibration_returns_vol` chains the two: EVERY
    alpha the method stores returns the target vol, given np.roots' postcondition on the roots that pass the filter.)
  * positivity: every vol returned by the Clark family is > 0; SVI under a > 0, b ≥ 0, |ρ| ≤ 1, t > 0.
  * the strike-from-delta objective `g` is 0 exactly when the delta of the strike is the target.
-/
import FinVerif.Gen.VolR
import FinVerif.Model.C04
import FinVerif.Spec.C04
import Mathlib.Analysis.SpecialFunctions.Pow.Real
import Mathlib.Analysis.SpecialFunctions.Sqrt
import Mathlib.Analysis.SpecialFunctions.Log.Basic
import Mathlib.Tactic.Linarith
import Mathlib.Tactic.FieldSimp
import Mathlib.Tactic.Ring
import Mathlib.Tactic.Positivity
import Mathlib.Tactic.LinearCombination

set_option linter.unusedVariables false
set_option linter.unusedSimpArgs false

namespace FinVerif.Props.C04
open FinVerif FinVerif.Gen FinVerif.Spec.C04 FinVerif.Model.C04

@[simp] theorem exErr_ok {α} (a : α) : VolR.exErr (Except.ok a : Except PyErr α) = false := rfl
@[simp] theorem exOkD_ok {α} (d a : α) : VolR.exOkD d (Except.ok a : Except PyErr α) = a := rfl

/-! ### ATM strike per convention -/

/-- C04: FinFXATMMethod.SPOT — the ATM strike is the spot. -/
theorem atm_strike_spot (s f v t : ℝ) : VolR.atm_strike s f v t 1 = .ok s ∧ VolR.atm_strike_plus s f v t 1 = .ok s := by
  simp [VolR.atm_strike, VolR.atm_strike_plus]

/-- C04: FinFXATMMethod.FWD — the ATM strike is the forward. -/
theorem atm_strike_fwd (s f v t : ℝ) : VolR.atm_strike s f v t 2 = .ok f ∧ VolR.atm_strike_plus s f v t 2 = .ok f := by
  simp [VolR.atm_strike, VolR.atm_strike_plus]

/-- both surface classes code the same four formulas, and reject every other method code with FinError -/
theorem atm_strike_plus_eq (s f v t : ℝ) (m : Int) : VolR.atm_strike_plus s f v t m = VolR.atm_strike s f v t m := by
  simp only [VolR.atm_strike, VolR.atm_strike_plus]

theorem atm_strike_unknown_method (s f v t : ℝ) (m : Int) (h1 : m ≠ 1) (h2 : m ≠ 2) (h3 : m ≠ 3) (h4 : m ≠ 4) :
    VolR.atm_strike s f v t m = .error .finError := by
  simp [VolR.atm_strike, h1, h2, h3, h4]

/-- the coded `d₁` of bs_delta / bs_value at the clamped inputs -/
noncomputable def d1Of (s t k rd rf v : ℝ) : ℝ :=
  Real.log ((s * Real.exp (-rf * t)) / (k * Real.exp (-rd * t))) / (v * Real.sqrt t) + (v * Real.sqrt t) / 2

theorem bs_delta_shape (s t k rd rf v : ℝ) (ht : 1e-12 ≤ t) (hk : 1e-12 ≤ k) (hv : 1e-12 ≤ v) :
    VolR.bs_delta s t k rd rf v 1 = .ok (Real.exp (-rf * t) * VolR.N (d1Of s t k rd rf v)) ∧
    VolR.bs_delta s t k rd rf v 2 = .ok (-(Real.exp (-rf * t)) * VolR.N (-(d1Of s t k rd rf v))) := by
  have h1 : max k 1e-12 = k := max_eq_left hk
  have h2 : max t 1e-12 = t := max_eq_left ht
  have h3 : max v 1e-12 = v := max_eq_left hv
  constructor
  · simp only [VolR.bs_delta, VolR.n_vect, d1Of, h1, h2, h3, decide_true, if_true, one_mul]
  · simp only [VolR.bs_delta, VolR.n_vect, d1Of, h1, h2, h3]
    norm_num

theorem bs_value_shape (s t k rd rf v : ℝ) (ht : 1e-12 ≤ t) (hk : 1e-12 ≤ k) (hv : 1e-12 ≤ v) :
    VolR.bs_value s t k rd rf v 1 = .ok (s * Real.exp (-rf * t) * VolR.N (d1Of s t k rd rf v)
        - k * Real.exp (-rd * t) * VolR.N (d1Of s t k rd rf v - v * Real.sqrt t)) ∧
    VolR.bs_value s t k rd rf v 2 = .ok (-(s * Real.exp (-rf * t)) * VolR.N (-(d1Of s t k rd rf v))
        + k * Real.exp (-rd * t) * VolR.N (-(d1Of s t k rd rf v - v * Real.sqrt t))) := by
  have h1 : max k 1e-12 = k := max_eq_left hk
  have h2 : max t 1e-12 = t := max_eq_left ht
  have h3 : max v 1e-12 = v := max_eq_left hv
  constructor
  · simp only [VolR.bs_value, d1Of, h1, h2, h3, decide_true, if_true, one_mul]
  · simp only [VolR.bs_value, d1Of, h1, h2, h3]
    norm_num

/-- `d₁ = 0` at `K = S·e^{(rd−rf)t}·e^{+σ²t/2}`, and `d₂ = d₁ − σ√t = 0` at `K = S·e^{(rd−rf)t}·e^{−σ²t/2}`. -/
theorem d1_at_delta_neutral (s t rd rf v : ℝ) (hs : 0 < s) (ht : 0 < t) (hv : 0 < v) :
    d1Of s t (s * Real.exp ((rd - rf) * t) * Real.exp (v * v * t / 2)) rd rf v = 0 ∧
    d1Of s t (s * Real.exp ((rd - rf) * t) * Real.exp (-v * v * t / 2)) rd rf v - v * Real.sqrt t = 0 := by
  have hsq : Real.sqrt t * Real.sqrt t = t := Real.mul_self_sqrt ht.le
  have hst : 0 < Real.sqrt t := Real.sqrt_pos.mpr ht
  have key : ∀ y : ℝ, (s * Real.exp (-rf * t)) / (s * Real.exp ((rd - rf) * t) * Real.exp y * Real.exp (-rd * t))
      = Real.exp (-y) := by
    intro y
    rw [div_eq_iff (by positivity)]
    have : Real.exp (-y) * (s * Real.exp ((rd - rf) * t) * Real.exp y * Real.exp (-rd * t))
        = s * (Real.exp (-y) * Real.exp y * (Real.exp ((rd - rf) * t) * Real.exp (-rd * t))) := by ring
    rw [this, ← Real.exp_add, ← Real.exp_add]
    congr 1
    rw [show -y + y = 0 by ring, Real.exp_zero, one_mul]
    congr 1; ring
  constructor
  · unfold d1Of
    rw [key, Real.log_exp]
    field_simp
    nlinarith [hsq]
  · unfold d1Of
    rw [key, Real.log_exp]
    field_simp
    nlinarith [hsq]

/-- C04 `atm_strike_formula_is_atm`, FinFXATMMethod.FWD_DELTA_NEUTRAL (code 3): with `f = S·e^{(rd−rf)t}` the coded
strike `f·exp(σ²t/2)` makes the FORWARD delta of call + put vanish (fast_delta with FinFXDeltaMethod.FORWARD_DELTA = 2). -/
theorem atm_strike_delta_neutral_is_atm (s t rd rf v K : ℝ) (hs : 0 < s) (ht : 1e-12 ≤ t) (hv : 1e-12 ≤ v)
    (hK : VolR.atm_strike s (s * Real.exp ((rd - rf) * t)) v t 3 = .ok K) (hk : 1e-12 ≤ K) :
    ∃ dc dp, VolR.fast_delta s t K rd rf v 2 1 = .ok dc ∧ VolR.fast_delta s t K rd rf v 2 2 = .ok dp ∧ DeltaNeutral dc dp := by
  have hK' : K = s * Real.exp ((rd - rf) * t) * Real.exp (v * v * t / 2) := by
    simp [VolR.atm_strike] at hK; exact hK.symm
  have ht0 : 0 < t := lt_of_lt_of_le (by norm_num) ht
  have hv0 : 0 < v := lt_of_lt_of_le (by norm_num) hv
  obtain ⟨hc, hp⟩ := bs_delta_shape s t K rd rf v ht hk hv
  have hd : d1Of s t K rd rf v = 0 := by rw [hK']; exact (d1_at_delta_neutral s t rd rf v hs ht0 hv0).1
  refine ⟨Real.exp (-rf * t) * VolR.N (d1Of s t K rd rf v) * Real.exp (rf * t),
    -(Real.exp (-rf * t)) * VolR.N (-(d1Of s t K rd rf v)) * Real.exp (rf * t), ?_, ?_, ?_⟩
  · simp only [VolR.fast_delta, hc, exErr_ok, exOkD_ok]; simp
  · simp only [VolR.fast_delta, hp, exErr_ok, exOkD_ok]; simp
  · unfold DeltaNeutral; rw [hd]; simp

/-- C04 `atm_strike_formula_is_atm`, FinFXATMMethod.FWD_DELTA_NEUTRAL_PREM_ADJ (code 4): the coded strike
`f·exp(−σ²t/2)` makes the PREMIUM-ADJUSTED forward delta of call + put vanish (FinFXDeltaMethod.FORWARD_DELTA_PREM_ADJ = 4). -/
theorem atm_strike_delta_neutral_prem_adj_is_atm (s t rd rf v K : ℝ) (hs : 0 < s) (ht : 1e-12 ≤ t) (hv : 1e-12 ≤ v)
    (hK : VolR.atm_strike s (s * Real.exp ((rd - rf) * t)) v t 4 = .ok K) (hk : 1e-12 ≤ K) :
    ∃ dc dp, VolR.fast_delta s t K rd rf v 4 1 = .ok dc ∧ VolR.fast_delta s t K rd rf v 4 2 = .ok dp ∧ DeltaNeutral dc dp := by
  have hK' : K = s * Real.exp ((rd - rf) * t) * Real.exp (-v * v * t / 2) := by
    simp [VolR.atm_strike] at hK
    have e : -(v * v * t) / 2 = -v * v * t / 2 := by ring
    rw [← hK, e]
  have ht0 : 0 < t := lt_of_lt_of_le (by norm_num) ht
  have hv0 : 0 < v := lt_of_lt_of_le (by norm_num) hv
  obtain ⟨hc, hp⟩ := bs_delta_shape s t K rd rf v ht hk hv
  obtain ⟨hvc, hvp⟩ := bs_value_shape s t K rd rf v ht hk hv
  have hd : d1Of s t K rd rf v - v * Real.sqrt t = 0 := by
    rw [hK']; exact (d1_at_delta_neutral s t rd rf v hs ht0 hv0).2
  refine ⟨Real.exp (rf * t) * (Real.exp (-rf * t) * VolR.N (d1Of s t K rd rf v)
      - (s * Real.exp (-rf * t) * VolR.N (d1Of s t K rd rf v)
          - K * Real.exp (-rd * t) * VolR.N (d1Of s t K rd rf v - v * Real.sqrt t)) / s),
    Real.exp (rf * t) * (-(Real.exp (-rf * t)) * VolR.N (-(d1Of s t K rd rf v))
      - (-(s * Real.exp (-rf * t)) * VolR.N (-(d1Of s t K rd rf v))
          + K * Real.exp (-rd * t) * VolR.N (-(d1Of s t K rd rf v - v * Real.sqrt t))) / s), ?_, ?_, ?_⟩
  · simp only [VolR.fast_delta, hc, hvc, exErr_ok, exOkD_ok]; simp
  · simp only [VolR.fast_delta, hp, hvp, exErr_ok, exOkD_ok]; simp
  · unfold DeltaNeutral; rw [hd]; simp; field_simp; ring

/-- the strike-from-delta objective `g(K) = delta_target − fast_delta(K)` vanishes exactly at strikes whose delta (in the
chosen convention) is the target -/
theorem delta_objective_zero_iff (k s t rd rf v : ℝ) (dm ty : Int) (target d : ℝ)
    (hd : VolR.fast_delta s t k rd rf v dm ty = .ok d) :
    VolR.delta_objective k s t rd rf v dm ty target = .ok 0 ↔ d = target := by
  simp only [VolR.delta_objective, hd, exErr_ok, exOkD_ok]
  constructor
  · intro h; simp at h; linarith
  · intro h; simp [h]

/-! ### SABR: a root of the coded cubic returns the target ATM vol -/

/-- C04 `sabr_atm_alpha_root_returns_vol`: let `(c₃, c₂, c₁, c₀)` be the coefficients `set_alpha_from_atm_black_vol` builds
for target vol `σ`, ATM strike `K > 0`, expiry `t`.  If `α ≥ 1e-10` is a root of `c₃α³ + c₂α² + c₁α + c₀` then the coded
`vol_function_sabr` with `(α, β, ρ, ν)` at `f = k = K` returns exactly `σ`. -/
theorem sabr_atm_alpha_root_returns_vol (σ K t β ρ ν α : ℝ) (hK : 0 < K) (hα : 1e-10 ≤ α)
    (hroot : let c := VolR.sabr_atm_cubic σ K t β ρ ν
             c.1 * α ^ 3 + c.2.1 * α ^ 2 + c.2.2.1 * α + c.2.2.2 = 0) :
    VolR.sabr α β ρ ν K K t = .ok σ := by
  have hα' : max (1e-10 : ℝ) α = α := max_eq_right hα
  have hk1 : ¬ (K ≤ ((0 : Int) : ℝ)) := by push_cast; exact not_le.mpr hK
  set A : ℝ := K ^ (1 - β) with hA
  have hApos : 0 < A := Real.rpow_pos_of_pos hK _
  have hKK : (K * K) ^ (1 - β) = A * A := Real.mul_rpow hK.le hK.le
  have hK2 : K ^ (2 - 2 * β) = A * A := by
    rw [hA, ← Real.rpow_add hK]; congr 1; ring
  have hhalf : (A * A) ^ (0.5 : ℝ) = A := by
    rw [show (0.5 : ℝ) = 1 / 2 by norm_num, ← Real.sqrt_eq_rpow, Real.sqrt_mul_self hApos.le]
  have hlog : Real.log (K / K) = 0 := by rw [div_self hK.ne', Real.log_one]
  simp only [VolR.sabr_atm_cubic, Real.rpow_eq_pow, hK2] at hroot
  rw [← hA] at hroot
  simp only [VolR.sabr, hα', hk1, decide_false, Real.rpow_eq_pow, hKK, hhalf, hlog, Bool.false_eq_true, if_false]
  have hz : ¬ (|ν * A * 0 / α| > (1e-7 : ℝ)) := by simp; norm_num
  simp only [hz, decide_false, Bool.false_eq_true, if_false]
  congr 1
  have hρ : ρ ^ (2 : ℝ) = ρ ^ 2 := Real.rpow_two ρ
  have hν : ν ^ (2 : ℝ) = ν ^ 2 := Real.rpow_two ν
  rw [hρ, hν]
  have hα0 : α ≠ 0 := by have : (0 : ℝ) < α := lt_of_lt_of_le (by norm_num) hα; exact this.ne'
  push_cast
  rw [div_eq_iff (by positivity)]
  field_simp at hroot ⊢
  linear_combination (480 * A) * hroot

/-! ### the root selection: a real root or FinError, never silently something else -/

theorem minL_mem (a : ℝ) (l : List ℝ) : minL (a :: l) ∈ a :: l := by
  induction l generalizing a with
  | nil => simp [minL]
  | cons b l ih =>
    simp only [minL, minA]
    split_ifs
    · exact List.mem_cons_of_mem _ (ih b)
    · exact List.mem_cons_self ..

theorem minL_le (a : ℝ) (l : List ℝ) : ∀ x ∈ a :: l, minL (a :: l) ≤ x := by
  induction l generalizing a with
  | nil => intro x hx; simp at hx; simp [minL, hx]
  | cons b l ih =>
    intro x hx
    simp only [minL, minA]
    rcases List.mem_cons.mp hx with rfl | hx
    · split_ifs with h
      · exact h.le
      · exact le_refl _
    · have := ih b x hx
      split_ifs with h
      · exact this
      · exact le_trans (not_lt.mp h) this

/-- C04 (decision logic): no root with positive real part and (numerically) zero imaginary part ⇔ `FinError`. -/
theorem select_alpha_raises_iff (tol one : ℝ) (roots : List (ℝ × ℝ)) :
    selectAlpha tol one roots = .error .finError ↔ ∀ z ∈ roots, rootPasses tol one z = false := by
  unfold selectAlpha realRoots
  cases hf : roots.filter (rootPasses tol one) with
  | nil =>
    simp only [List.map_nil, true_iff]
    intro z hz
    by_contra hc
    have : z ∈ roots.filter (rootPasses tol one) := List.mem_filter.mpr ⟨hz, by simpa using hc⟩
    rw [hf] at this; cases this
  | cons y ys =>
    simp only [List.map_cons, false_iff, not_forall, reduceCtorEq]
    have hy : y ∈ roots.filter (rootPasses tol one) := by rw [hf]; exact List.mem_cons_self ..
    obtain ⟨hy1, hy2⟩ := List.mem_filter.mp hy
    exact ⟨y, hy1, by simp [hy2]⟩

/-- "no positive real root ⇒ FinError" -/
theorem select_alpha_none_raises (tol one : ℝ) (roots : List (ℝ × ℝ)) (h : ∀ z ∈ roots, rootPasses tol one z = false) :
    selectAlpha tol one roots = .error .finError := (select_alpha_raises_iff tol one roots).mpr h

theorem select_alpha_error_is_finError (tol one : ℝ) (roots : List (ℝ × ℝ)) (e : PyErr)
    (h : selectAlpha tol one roots = .error e) : e = .finError := by
  unfold selectAlpha at h
  split at h <;> simp at h
  exact h.symm

/-- C04: a returned alpha is the real part of one of the roots that passed the filter, it is strictly positive, that root's
imaginary part is within the tolerance, and no passing root has a smaller real part. -/
theorem select_alpha_spec (tol one α : ℝ) (roots : List (ℝ × ℝ)) (h : selectAlpha tol one roots = .ok α) :
    (∃ z ∈ roots, rootPasses tol one z = true ∧ z.1 = α) ∧ 0 < α ∧
    (∀ z ∈ roots, rootPasses tol one z = true → α ≤ z.1) := by
  unfold selectAlpha at h
  split at h
  · simp at h
  · rename_i r rs hr
    simp only [Except.ok.injEq] at h
    have hmem : α ∈ realRoots tol one roots := by rw [hr, ← h]; exact minL_mem r rs
    have hle : ∀ x ∈ realRoots tol one roots, α ≤ x := by rw [hr, ← h]; exact minL_le r rs
    unfold realRoots at hmem hle
    obtain ⟨z, hz, hzα⟩ := List.mem_map.mp hmem
    obtain ⟨hz1, hz2⟩ := List.mem_filter.mp hz
    refine ⟨⟨z, hz1, hz2, hzα⟩, ?_, ?_⟩
    · have : 0 < z.1 := by
        simp only [rootPasses, Bool.and_eq_true, decide_eq_true_eq] at hz2; exact hz2.1
      rw [← hzα]; exact this
    · intro w hw hwp
      exact hle w.1 (List.mem_map.mpr ⟨w, List.mem_filter.mpr ⟨hw, hwp⟩, rfl⟩)

/-- the filter keeps exactly: positive real part and |imaginary part| ≤ tol·max(one, |real part|) -/
theorem rootPasses_iff (tol one : ℝ) (z : ℝ × ℝ) :
    rootPasses tol one z = true ↔ 0 < z.1 ∧ |z.2| ≤ tol * max one |z.1| := by
  have habs : ∀ x : ℝ, absA x = |x| := by
    intro x; unfold absA
    split_ifs with h
    · rw [abs_of_neg h]; ring
    · rw [abs_of_nonneg (not_lt.mp h)]
  have hmax : ∀ a b : ℝ, maxA a b = max a b := by
    intro a b; unfold maxA
    split_ifs with h
    · exact (max_eq_right h.le).symm
    · exact (max_eq_left (not_lt.mp h)).symm
  simp only [rootPasses, Bool.and_eq_true, decide_eq_true_eq, Bool.not_eq_true', decide_eq_false_iff_not, not_lt, habs, hmax]

/-- C04: EVERY alpha that `set_alpha_from_atm_black_vol` stores returns the target ATM vol: if the selection returns `α`
from the roots `np.roots` produced, and the roots that pass the real-root filter are roots of the cubic (np.roots'
postcondition, checked per case by the harness), then the coded SABR formula at f = k = K returns σ (for α ≥ 1e-10, the
floor `vol_function_sabr` applies to alpha; K > 0). -/
theorem sabr_atm_calibration_returns_vol (σ K t β ρ ν α : ℝ) (roots : List (ℝ × ℝ)) (hK : 0 < K)
    (hsel : selectAlpha 1e-10 1 roots = .ok α)
    (hroots : ∀ z ∈ roots, rootPasses 1e-10 1 z = true →
        let c := VolR.sabr_atm_cubic σ K t β ρ ν
        c.1 * z.1 ^ 3 + c.2.1 * z.1 ^ 2 + c.2.2.1 * z.1 + c.2.2.2 = 0)
    (hα : 1e-10 ≤ α) : VolR.sabr α β ρ ν K K t = .ok σ := by
  obtain ⟨⟨z, hz, hzp, hzα⟩, _, _⟩ := select_alpha_spec _ _ _ _ hsel
  have := hroots z hz hzp
  rw [hzα] at this
  exact sabr_atm_alpha_root_returns_vol σ K t β ρ ν α hK hα this

/-- non-vacuity: one real root 0.2 and a complex pair with smaller positive real part: the pair is rejected, 0.2 returned
(the pre-220a8a5 selection returned 0.09, the real part of the pair) -/
example : selectAlpha (1e-10 : ℝ) 1 [(25, 0), (0.09, 0.26), (0.09, -0.26), (0.2, 0)] = .ok 0.2 := by
  simp only [selectAlpha, realRoots, List.filter, rootPasses, absA, maxA, minL, minA]
  norm_num [minL, minA]

/-- … and with only the complex pair positive, FinError -/
example : selectAlpha (1e-10 : ℝ) 1 [(-3, 0), (0.09, 0.26), (0.09, -0.26)] = .error .finError := by
  apply select_alpha_none_raises
  intro z hz
  simp only [List.mem_cons, List.mem_nil_iff, or_false] at hz
  rcases hz with rfl | rfl | rfl <;> simp only [rootPasses, absA, maxA] <;> norm_num

/-- non-vacuity: β = 1, ρ = ν = 0: the cubic is `α − σ`, its root `α = σ = 0.2` returns the target -/
example : VolR.sabr 0.2 1 0 0 1 1 1 = .ok 0.2 :=
  sabr_atm_alpha_root_returns_vol 0.2 1 1 1 0 0 0.2 (by norm_num) (by norm_num)
    (by simp [VolR.sabr_atm_cubic])

/-- non-vacuity of the ATM theorems: the hypotheses are met e.g. at S = 1, t = 1, rd = rf = 0, σ = 20% -/
example : ∃ K, VolR.atm_strike 1 (1 * Real.exp ((0 - 0) * 1)) 0.2 1 3 = .ok K ∧ (1e-12 : ℝ) ≤ K := by
  refine ⟨_, by simp only [VolR.atm_strike]; rfl, ?_⟩
  have h1 : (1 : ℝ) ≤ Real.exp ((0 - 0) * 1) := Real.one_le_exp (by norm_num)
  have h2 : (1 : ℝ) ≤ Real.exp (0.2 * 0.2 * 1 / 2) := Real.one_le_exp (by norm_num)
  have h3 : (1 : ℝ) * 1 ≤ Real.exp ((0 - 0) * 1) * Real.exp (0.2 * 0.2 * 1 / 2) :=
    mul_le_mul h1 h2 (by norm_num) (by linarith)
  have h4 : (1e-12 : ℝ) ≤ 1 := by norm_num
  linarith

/-! ### positivity of returned vols where it is algebraic -/

/-- C04: every volatility the Clark family returns is strictly positive (it is `exp` of the polynomial). -/
theorem clark_vol_pos (p0 p1 p2 p3 p4 f k t v : ℝ) :
    (VolR.clark3 p0 p1 p2 f k t = .ok v → 0 < v) ∧ (VolR.clark5 p0 p1 p2 p3 p4 f k t = .ok v → 0 < v) := by
  constructor
  · intro h
    simp only [VolR.clark3] at h
    split at h
    · simp at h
    · split at h
      · simp at h
      · simp only [Except.ok.injEq] at h; rw [← h]; exact Real.exp_pos _
  · intro h
    simp only [VolR.clark5] at h
    split at h
    · simp at h
    · split at h
      · simp at h
      · simp only [Except.ok.injEq] at h; rw [← h]; exact Real.exp_pos _

/-- C04: SVI returns a strictly positive vol when `a > 0`, `b ≥ 0`, `|ρ| ≤ 1`, `t > 0`. -/
theorem svi_vol_pos (a b ρ m σ f k t : ℝ) (ha : 0 < a) (hb : 0 ≤ b) (hρ : |ρ| ≤ 1) (ht : 0 < t) :
    0 < VolR.svi a b ρ m σ f k t := by
  simp only [VolR.svi]
  apply Real.sqrt_pos.mpr
  apply div_pos _ ht
  set y := Real.log (f / k) - m
  have h1 : |y| ≤ Real.sqrt (y ^ 2 + σ * σ) := by
    apply Real.abs_le_sqrt; nlinarith [mul_self_nonneg σ]
  have h2 : -(ρ * y) ≤ |y| := by
    calc -(ρ * y) ≤ |ρ * y| := neg_le_abs _
      _ = |ρ| * |y| := abs_mul _ _
      _ ≤ 1 * |y| := mul_le_mul_of_nonneg_right hρ (abs_nonneg _)
      _ = |y| := one_mul _
  have h3 : 0 ≤ ρ * y + Real.sqrt (y ^ 2 + σ * σ) := by linarith
  have := mul_nonneg hb h3
  linarith

end FinVerif.Props.C04
