/-
  C04 (part d) — more about `IborCapVolCurve` (hand model `Model.C04`, tied to the implementation by correspondence):

  stripping (`generate_caplet_vols`, any number of caps, induction over the cap list)
  * `caplet_vols_nonneg`            every stripped caplet vol is ≥ 0 (no hypothesis on the accruals);
  * `capletLoop_out_shape`          one caplet vol per cap, appended to what was there;
  * `caplet_locality`               later caps do not change earlier caplet vols: stripping a prefix of the curve gives the
                                    prefix of the result (and the longer stripping returning implies the shorter returns);
  * `varianceIdentity_unique`       the non-negative solution of the running variance identity is unique, hence
    `caplet_stripping_is_the_solution`: ANY non-negative vols that satisfy the identity are what the code returns;
  * `noNegVar_iff_total_variance_monotone`, `caplet_returns_iff_total_variance_monotone`: in terms of the INPUTS only, the
    stripping returns iff the caps' total variances σᵢ²·(τ₁+…+τᵢ) are non-decreasing in i (and start at or above σ₀²τ₀);
    otherwise it raises FinError (`caplet_raises_iff_total_variance_decreases`) — a clamp instead of the raise, or a
    different threshold, contradicts this theorem;
  * `caplet_total_variance`         end to end with the constructor's precondition σ₀ = 0: for every cap i
                                    Σ_{1≤j≤i} γⱼ²τⱼ = σᵢ²·Σ_{1≤j≤i} τⱼ.

  look-ups (`cap_vol(t)`, `caplet_vol(t)`: piecewise flat, first pillar at or after t)
  * `scanPillars_first_hit`, `scanPillars_at_pillar`, `scanPillars_between`, `scanPillars_beyond`, `scanPillars_mem`;
  * `cap_vol_at_pillar_returns_quote`   the cap curve asked at a quoted maturity gives the quoted cap vol back;
  * `capletVolAt_eq_scan`               the early return `if t <= times[1]` of `caplet_vol` is redundant;
  * `caplet_vol_at_pillar`, `caplet_vol_before_first_pillar`, `caplet_vol_between_pillars`;
  * `caplet_vol_query_nonneg`           every caplet vol returned on and between (and beyond) the pillars is ≥ 0.
-/
import FinVerif.Props.C04b
import Mathlib.Order.Basic
import Mathlib.Tactic.Positivity

set_option linter.unusedVariables false
set_option linter.unusedSimpArgs false

namespace FinVerif.Props.C04
open FinVerif FinVerif.Model.C04 FinVerif.Spec.C04

/-! ### stripping -/

/-- the loop only appends: one value per cap -/
theorem capletLoop_out_shape (sq : ℝ → ℝ) (ps : List (ℝ × ℝ)) (c s : ℝ) (acc out : List ℝ)
    (h : capletLoop sq ps c s acc = .ok out) : ∃ gs, out = acc.reverse ++ gs ∧ gs.length = ps.length := by
  induction ps generalizing c s acc with
  | nil =>
    simp only [capletLoop, Except.ok.injEq] at h
    exact ⟨[], by simp [h.symm], rfl⟩
  | cons p ps ih =>
    obtain ⟨τ, σ⟩ := p
    rw [capletLoop_cons] at h
    split at h
    · simp at h
    · obtain ⟨gs, hout, hlen⟩ := ih _ _ _ h
      exact ⟨sq (stepVar c s τ σ) :: gs, by rw [hout]; simp, by simp [hlen]⟩

theorem capletLoop_nonneg (ps : List (ℝ × ℝ)) (c s : ℝ) (acc out : List ℝ)
    (h : capletLoop Real.sqrt ps c s acc = .ok out) (hacc : ∀ g ∈ acc, 0 ≤ g) : ∀ g ∈ out, 0 ≤ g := by
  induction ps generalizing c s acc with
  | nil =>
    simp only [capletLoop, Except.ok.injEq] at h
    intro g hg; rw [← h] at hg; exact hacc g (List.mem_reverse.mp hg)
  | cons p ps ih =>
    obtain ⟨τ, σ⟩ := p
    rw [capletLoop_cons] at h
    split at h
    · simp at h
    · refine ih _ _ _ h ?_
      intro g hg
      rcases List.mem_cons.mp hg with rfl | hg
      · exact Real.sqrt_nonneg _
      · exact hacc g hg

/-- C04 (caplet vols ≥ 0): whatever `generate_caplet_vols` returns is non-negative — for ANY year fractions and cap vols
(no sign hypothesis is needed: each entry is 0 or a square root). -/
theorem caplet_vols_nonneg (taus sigmas out : List ℝ) (h : capletVols Real.sqrt taus sigmas = .ok out) :
    ∀ g ∈ out, 0 ≤ g := by
  unfold capletVols at h
  split at h
  · exact capletLoop_nonneg _ _ _ _ _ h (by simp)
  · simp at h

/-- Locality of the loop: if the loop over `ps ++ qs` returns `out`, the loop over `ps` alone returns the first
`|acc| + |ps|` entries of `out`. -/
theorem capletLoop_prefix (sq : ℝ → ℝ) (ps qs : List (ℝ × ℝ)) (c s : ℝ) (acc out : List ℝ)
    (h : capletLoop sq (ps ++ qs) c s acc = .ok out) :
    capletLoop sq ps c s acc = .ok (out.take (acc.length + ps.length)) := by
  induction ps generalizing c s acc with
  | nil =>
    obtain ⟨gs, hout, _⟩ := capletLoop_out_shape sq _ c s acc out h
    simp only [capletLoop, List.length_nil, Nat.add_zero, Except.ok.injEq]
    rw [hout, List.take_left' (by simp)]
  | cons p ps ih =>
    obtain ⟨τ, σ⟩ := p
    rw [List.cons_append, capletLoop_cons] at h
    rw [capletLoop_cons]
    split at h
    · simp at h
    · rename_i hv
      rw [if_neg hv]
      have := ih _ _ _ h
      rw [this]
      congr 2
      simp only [List.length_cons]
      omega

/-- C04 (locality): later caps do not change earlier caplet vols.  If stripping the curve `(τs ++ τs', σs ++ σs')` returns
`out`, then stripping the shorter curve `(τs, σs)` returns, and returns exactly the first `|τs|` entries of `out`. -/
theorem caplet_locality (sq : ℝ → ℝ) (τ0 σ0 : ℝ) (τs σs τs' σs' out : List ℝ) (hlen : τs.length = σs.length)
    (h : capletVols sq (τ0 :: (τs ++ τs')) (σ0 :: (σs ++ σs')) = .ok out) :
    capletVols sq (τ0 :: τs) (σ0 :: σs) = .ok (out.take (τs.length + 1)) := by
  simp only [capletVols] at h ⊢
  rw [List.zip_append hlen] at h
  have := capletLoop_prefix sq _ _ _ _ _ _ h
  rw [this]
  congr 2
  simp [hlen, Nat.add_comm]

/-- C04 (uniqueness): with positive accruals the non-negative solution of the running variance identity is unique. -/
theorem varianceIdentity_unique (ps : List (ℝ × ℝ)) (gs gs' : List ℝ) (c s : ℝ) (hτ : ∀ p ∈ ps, 0 < p.1)
    (h : VarianceIdentity c s ps gs) (h' : VarianceIdentity c s ps gs') : gs = gs' := by
  induction ps generalizing gs gs' c s with
  | nil =>
    cases gs with
    | nil => cases gs' with
      | nil => rfl
      | cons _ _ => simp [VarianceIdentity] at h'
    | cons _ _ => simp [VarianceIdentity] at h
  | cons p ps ih =>
    obtain ⟨τ, σ⟩ := p
    cases gs with
    | nil => simp [VarianceIdentity] at h
    | cons γ gs =>
      cases gs' with
      | nil => simp [VarianceIdentity] at h'
      | cons γ' gs' =>
        obtain ⟨h1, h2, h3⟩ := h
        obtain ⟨h1', h2', h3'⟩ := h'
        have hτ0 : 0 < τ := hτ (τ, σ) (List.mem_cons_self ..)
        have hsq : γ ^ 2 = γ' ^ 2 := by
          have : γ ^ 2 * τ = γ' ^ 2 * τ := by linarith
          exact mul_right_cancel₀ hτ0.ne' this
        have hγ : γ = γ' := by
          rw [← abs_of_nonneg h2, ← abs_of_nonneg h2']
          exact (sq_eq_sq_iff_abs_eq_abs γ γ').mp hsq
        subst hγ
        rw [ih gs gs' _ _ (fun p hp => hτ p (List.mem_cons_of_mem _ hp)) h3 h3']

/-- C04: the code's answer is THE answer — any non-negative vols `gs` that satisfy the variance identity for the curve are
exactly what `generate_caplet_vols` returns (after the leading 0). -/
theorem caplet_stripping_is_the_solution (τ0 σ0 : ℝ) (τs σs out gs : List ℝ) (hτ : ∀ p ∈ τs.zip σs, 0 < p.1)
    (h : capletVols Real.sqrt (τ0 :: τs) (σ0 :: σs) = .ok out)
    (hgs : VarianceIdentity (σ0 * σ0 * τ0) 0 (τs.zip σs) gs) : out = 0 :: gs := by
  obtain ⟨γs, hout, hid⟩ := caplet_variance_identity τ0 σ0 τs σs out (fun p hp => (hτ p hp).ne') h
  rw [hout, varianceIdentity_unique _ _ _ _ _ hτ hid hgs]

/-- the caps' total variances are non-decreasing: `c ≤ σ₁²(s+τ₁) ≤ σ₂²(s+τ₁+τ₂) ≤ …` — a condition on the INPUTS only -/
def TotVarMono : ℝ → ℝ → List (ℝ × ℝ) → Prop
  | _, _, [] => True
  | c, s, (τ, σ) :: ps => c ≤ σ ^ 2 * (s + τ) ∧ TotVarMono (σ ^ 2 * (s + τ)) (s + τ) ps

theorem stepVar_mul (c s τ σ : ℝ) (hτ : τ ≠ 0) : c + stepVar c s τ σ * τ = σ ^ 2 * (s + τ) := by
  unfold stepVar; field_simp; ring

theorem stepVar_nonneg_iff (c s τ σ : ℝ) (hτ : 0 < τ) : 0 ≤ stepVar c s τ σ ↔ c ≤ σ ^ 2 * (s + τ) := by
  unfold stepVar
  rw [div_nonneg_iff]
  constructor
  · rintro (⟨h, _⟩ | ⟨_, h⟩)
    · nlinarith
    · linarith
  · intro h; left; exact ⟨by nlinarith, hτ.le⟩

/-- "no negative caplet variance along the loop" ⇔ "total variances non-decreasing" (positive accruals) -/
theorem noNegVar_iff_total_variance_monotone (ps : List (ℝ × ℝ)) (c s : ℝ) (hτ : ∀ p ∈ ps, 0 < p.1) :
    NoNegVar c s ps ↔ TotVarMono c s ps := by
  induction ps generalizing c s with
  | nil => simp [NoNegVar, TotVarMono]
  | cons p ps ih =>
    obtain ⟨τ, σ⟩ := p
    have hτ0 : 0 < τ := hτ (τ, σ) (List.mem_cons_self ..)
    simp only [NoNegVar, TotVarMono]
    rw [stepVar_nonneg_iff c s τ σ hτ0, stepVar_mul c s τ σ hτ0.ne',
      ih _ _ (fun p hp => hτ p (List.mem_cons_of_mem _ hp))]

/-- C04 (error branch in terms of the inputs): `generate_caplet_vols` returns iff the total variances
`σ₀²τ₀ ≤ σ₁²τ₁ ≤ σ₂²(τ₁+τ₂) ≤ …` of the input caps are non-decreasing. -/
theorem caplet_returns_iff_total_variance_monotone (sq : ℝ → ℝ) (τ0 σ0 : ℝ) (τs σs : List ℝ)
    (hτ : ∀ p ∈ τs.zip σs, 0 < p.1) :
    (∃ out, capletVols sq (τ0 :: τs) (σ0 :: σs) = .ok out) ↔ TotVarMono (σ0 * σ0 * τ0) 0 (τs.zip σs) := by
  simp only [capletVols]
  rw [caplet_returns_iff_no_negative_variance, noNegVar_iff_total_variance_monotone _ _ _ hτ]

/-- … and otherwise raises `FinError` (never a clamp, never another error). -/
theorem caplet_raises_iff_total_variance_decreases (sq : ℝ → ℝ) (τ0 σ0 : ℝ) (τs σs : List ℝ)
    (hτ : ∀ p ∈ τs.zip σs, 0 < p.1) :
    capletVols sq (τ0 :: τs) (σ0 :: σs) = .error .finError ↔ ¬ TotVarMono (σ0 * σ0 * τ0) 0 (τs.zip σs) := by
  simp only [capletVols]
  rw [caplet_raises_iff_negative_variance, noNegVar_iff_total_variance_monotone _ _ _ hτ]

/-- C04 `caplet_total_variance` (end to end, with the constructor's precondition σ₀ = 0): if `generate_caplet_vols`
returns, it returns `0 :: γs` with one γ per cap, and for EVERY cap `i` the accrual-weighted caplet variances up to `i` add
up to the cap's flat variance over the same accruals:  Σ_{j ≤ i} γⱼ²·τⱼ = σᵢ²·Σ_{j ≤ i} τⱼ. -/
theorem caplet_total_variance (τ0 : ℝ) (τs σs out : List ℝ) (hτ : ∀ p ∈ τs.zip σs, 0 < p.1)
    (h : capletVols Real.sqrt (τ0 :: τs) (0 :: σs) = .ok out) :
    ∃ γs, out = 0 :: γs ∧ γs.length = (τs.zip σs).length ∧ (∀ γ ∈ γs, 0 ≤ γ) ∧
      ∀ i (hi : i < (τs.zip σs).length),
        (((γs.zip (τs.zip σs)).take (i + 1)).map (fun x => x.1 ^ 2 * x.2.1)).sum
          = ((τs.zip σs)[i]).2 ^ 2 * (((τs.zip σs).take (i + 1)).map Prod.fst).sum := by
  obtain ⟨γs, hout, hid⟩ := caplet_variance_identity τ0 0 τs σs out (fun p hp => (hτ p hp).ne') h
  refine ⟨γs, hout, varianceIdentity_length _ _ _ _ hid, ?_, ?_⟩
  · intro γ hγ
    exact caplet_vols_nonneg _ _ _ h γ (by rw [hout]; exact List.mem_cons_of_mem _ hγ)
  · intro i hi
    have := varianceIdentity_prefix _ _ _ _ hid i hi
    simpa using this

/-- non-vacuity: three caps, 20 %, 22 %, 21 % on annual accruals: total variances 0.04 ≤ 0.0968 ≤ 0.1323 are
non-decreasing, so the stripping returns -/
example : ∃ out, capletVols Real.sqrt [0, 1, 1, 1] [0, 0.2, 0.22, 0.21] = .ok out := by
  rw [caplet_returns_iff_total_variance_monotone Real.sqrt 0 0 [1, 1, 1] [0.2, 0.22, 0.21]
    (by intro p hp; simp at hp; rcases hp with rfl | rfl | rfl <;> norm_num)]
  simp only [List.zip_cons_cons, List.zip_nil_right, TotVarMono]
  norm_num

/-! ### look-ups: `cap_vol(t)` and `caplet_vol(t)` -/

/-- the scan returns the value of the FIRST pillar whose time is at or after `t` -/
theorem scanPillars_first_hit (t : ℝ) (ps : List (ℝ × ℝ)) (last : ℝ) (i : ℕ) (hi : i < ps.length)
    (hbefore : ∀ j (hj : j < i), (ps[j]'(lt_trans hj hi)).1 < t) (hhit : t ≤ (ps[i]).1) :
    scanPillars t ps last = (ps[i]).2 := by
  induction ps generalizing i with
  | nil => simp at hi
  | cons p ps ih =>
    obtain ⟨ti, vi⟩ := p
    cases i with
    | zero =>
      simp only [List.getElem_cons_zero] at hhit
      simp [scanPillars, hhit]
    | succ i =>
      have h0 : ti < t := by simpa using hbefore 0 (Nat.succ_pos i)
      simp only [scanPillars, not_le.mpr h0, if_false, List.getElem_cons_succ]
      refine ih i (by simpa using hi) ?_ (by simpa using hhit)
      intro j hj
      simpa using hbefore (j + 1) (Nat.succ_lt_succ hj)

/-- beyond the last pillar the scan returns `last` (`vals[-1]`) -/
theorem scanPillars_beyond (t : ℝ) (ps : List (ℝ × ℝ)) (last : ℝ) (h : ∀ p ∈ ps, p.1 < t) :
    scanPillars t ps last = last := by
  induction ps with
  | nil => rfl
  | cons p ps ih =>
    obtain ⟨ti, vi⟩ := p
    have h0 : ti < t := h (ti, vi) (List.mem_cons_self ..)
    simp only [scanPillars, not_le.mpr h0, if_false]
    exact ih (fun p hp => h p (List.mem_cons_of_mem _ hp))

/-- whatever the scan returns is one of the pillar values or `last` -/
theorem scanPillars_mem (t : ℝ) (ps : List (ℝ × ℝ)) (last : ℝ) :
    scanPillars t ps last = last ∨ scanPillars t ps last ∈ ps.map Prod.snd := by
  induction ps with
  | nil => left; rfl
  | cons p ps ih =>
    obtain ⟨ti, vi⟩ := p
    simp only [scanPillars]
    split_ifs
    · right; simp
    · rcases ih with h | h
      · left; exact h
      · right; exact List.mem_cons_of_mem _ h

/-- pillar times strictly increasing -/
def StrictInc (ps : List (ℝ × ℝ)) : Prop := ps.Pairwise (fun a b => a.1 < b.1)

theorem strictInc_lt (ps : List (ℝ × ℝ)) (h : StrictInc ps) (j i : ℕ) (hji : j < i) (hi : i < ps.length) :
    (ps[j]'(lt_trans hji hi)).1 < (ps[i]).1 :=
  List.pairwise_iff_getElem.mp h j i (lt_trans hji hi) hi hji

/-- on a strictly increasing grid, asking AT pillar `i` returns pillar `i`'s value -/
theorem scanPillars_at_pillar (ps : List (ℝ × ℝ)) (last : ℝ) (hinc : StrictInc ps) (i : ℕ) (hi : i < ps.length) :
    scanPillars (ps[i]).1 ps last = (ps[i]).2 :=
  scanPillars_first_hit _ ps last i hi (fun j hj => strictInc_lt ps hinc j i hj hi) (le_refl _)

/-- … and asking strictly between pillars `i−1` and `i` (or at `i`) returns pillar `i`'s value: piecewise flat,
left-continuous -/
theorem scanPillars_between (t : ℝ) (ps : List (ℝ × ℝ)) (last : ℝ) (hinc : StrictInc ps) (i : ℕ)
    (hi : i + 1 < ps.length) (hlo : (ps[i]'(Nat.lt_of_succ_lt hi)).1 < t) (hhi : t ≤ (ps[i + 1]).1) :
    scanPillars t ps last = (ps[i + 1]).2 := by
  refine scanPillars_first_hit t ps last (i + 1) hi ?_ hhi
  intro j hj
  rcases Nat.lt_succ_iff_lt_or_eq.mp hj with hlt | rfl
  · exact lt_trans (strictInc_lt ps hinc j i hlt (Nat.lt_of_succ_lt hi)) hlo
  · exact hlo

/-- C04 (cap curve gives its quotes back): `cap_vol` asked at the maturity of quoted cap `i ≥ 1` returns the quoted flat
vol `σᵢ` — for every strictly increasing grid of maturities (the constructor rejects any other). -/
theorem cap_vol_at_pillar_returns_quote (t0 s0 : ℝ) (ts ss : List ℝ) (hinc : StrictInc (ts.zip ss)) (i : ℕ)
    (hi : i < (ts.zip ss).length) :
    capVolAt (t0 :: ts) (s0 :: ss) ((ts.zip ss)[i]).1 = .ok ((ts.zip ss)[i]).2 := by
  simp only [capVolAt]
  rw [scanPillars_at_pillar _ _ hinc i hi]

/-- `caplet_vol`'s early return `if t <= times[1]: return gammas[1]` is what the loop would return anyway -/
theorem capletVolAt_eq_scan (t0 t1 g0 g1 : ℝ) (ts gs : List ℝ) (t : ℝ) :
    capletVolAt (t0 :: t1 :: ts) (g0 :: g1 :: gs) t
      = .ok (scanPillars t ((t1 :: ts).zip (g1 :: gs)) (lastOf g0 (g1 :: gs))) := by
  simp only [capletVolAt, List.zip_cons_cons, scanPillars]
  split_ifs <;> rfl

/-- C04: `caplet_vol` asked at pillar `i ≥ 1` returns the stripped caplet vol `γᵢ` -/
theorem caplet_vol_at_pillar (t0 t1 g0 g1 : ℝ) (ts gs : List ℝ) (hinc : StrictInc ((t1 :: ts).zip (g1 :: gs)))
    (i : ℕ) (hi : i < ((t1 :: ts).zip (g1 :: gs)).length) :
    capletVolAt (t0 :: t1 :: ts) (g0 :: g1 :: gs) (((t1 :: ts).zip (g1 :: gs))[i]).1
      = .ok (((t1 :: ts).zip (g1 :: gs))[i]).2 := by
  rw [capletVolAt_eq_scan, scanPillars_at_pillar _ _ hinc i hi]

/-- C04: up to and including the first pillar `caplet_vol` returns `γ₁` -/
theorem caplet_vol_before_first_pillar (t0 t1 g0 g1 : ℝ) (ts gs : List ℝ) (t : ℝ) (ht : t ≤ t1) :
    capletVolAt (t0 :: t1 :: ts) (g0 :: g1 :: gs) t = .ok g1 := by
  simp [capletVolAt, ht]

/-- C04: between pillars `i` and `i+1` (right end included) `caplet_vol` returns `γ_{i+1}`: piecewise flat -/
theorem caplet_vol_between_pillars (t0 t1 g0 g1 : ℝ) (ts gs : List ℝ) (t : ℝ)
    (hinc : StrictInc ((t1 :: ts).zip (g1 :: gs))) (i : ℕ) (hi : i + 1 < ((t1 :: ts).zip (g1 :: gs)).length)
    (hlo : (((t1 :: ts).zip (g1 :: gs))[i]'(Nat.lt_of_succ_lt hi)).1 < t)
    (hhi : t ≤ (((t1 :: ts).zip (g1 :: gs))[i + 1]).1) :
    capletVolAt (t0 :: t1 :: ts) (g0 :: g1 :: gs) t = .ok (((t1 :: ts).zip (g1 :: gs))[i + 1]).2 := by
  rw [capletVolAt_eq_scan, scanPillars_between t _ _ hinc i hi hlo hhi]

theorem lastOf_mem (a : ℝ) (l : List ℝ) : lastOf a l ∈ a :: l := by
  induction l generalizing a with
  | nil => simp [lastOf]
  | cons b l ih => simp only [lastOf]; exact List.mem_cons_of_mem _ (ih b)

/-- C04 (returned vols on and between the quoted points): every value `caplet_vol(t)` returns, for ANY `t`, is one of the
stripped caplet vols; so with `caplet_vols_nonneg` every caplet vol returned on, between and beyond the pillars is ≥ 0. -/
theorem caplet_vol_query_mem (times gammas : List ℝ) (t v : ℝ) (h : capletVolAt times gammas t = .ok v) :
    v ∈ gammas := by
  unfold capletVolAt at h
  split at h
  · rename_i t0 t1 ts g0 g1 gs
    split at h
    · simp only [Except.ok.injEq] at h; rw [← h]; simp
    · simp only [Except.ok.injEq] at h
      rcases scanPillars_mem t ((t1 :: ts).zip (g1 :: gs)) (lastOf g0 (g1 :: gs)) with hl | hm
      · rw [← h, hl]; exact lastOf_mem g0 (g1 :: gs)
      · rw [← h]
        obtain ⟨p, hp, hpv⟩ := List.mem_map.mp hm
        have := (List.of_mem_zip hp).2
        rw [hpv] at this
        exact List.mem_cons_of_mem _ this
  · simp at h

theorem caplet_vol_query_nonneg (taus sigmas times gammas : List ℝ) (t v : ℝ)
    (hstrip : capletVols Real.sqrt taus sigmas = .ok gammas) (h : capletVolAt times gammas t = .ok v) : 0 ≤ v :=
  caplet_vols_nonneg taus sigmas gammas hstrip v (caplet_vol_query_mem times gammas t v h)

/-- non-vacuity: pillars at 1y, 2y, 3y with vols 20 %, 25 %, 23 %: at 2y → 25 %, at 1.5y → 25 %, at 5y → 23 % -/
example : capletVolAt [0, 1, 2, 3] [0, 0.20, 0.25, 0.23] (2 : ℝ) = .ok 0.25 ∧
    capletVolAt [0, 1, 2, 3] [0, 0.20, 0.25, 0.23] (1.5 : ℝ) = .ok 0.25 ∧
    capletVolAt [0, 1, 2, 3] [0, 0.20, 0.25, 0.23] (5 : ℝ) = .ok 0.23 ∧
    capVolAt [0, 1, 2, 3] [0, 0.20, 0.25, 0.23] (2 : ℝ) = .ok 0.25 := by
  refine ⟨?_, ?_, ?_, ?_⟩ <;>
    simp only [capletVolAt, capVolAt, List.zip_cons_cons, List.zip_nil_right, scanPillars, lastOf] <;> norm_num

end FinVerif.Props.C04
