/-
  C04 (part e) — FX: every FinFXATMMethod × FinFXDeltaMethod pairing that defines an ATM strike, and the closed-form
  strike-from-delta solutions, on the GENERATED formulas (`Gen/VolR.lean`: `atm_strike`, `fast_delta`, `bs_delta`,
  `bs_value`, `solve_for_strike`, `norminvcdf`, `N`).

  ATM strike per convention (codes of FinFXATMMethod: 1 SPOT, 2 FWD, 3 FWD_DELTA_NEUTRAL, 4 FWD_DELTA_NEUTRAL_PREM_ADJ;
  codes of FinFXDeltaMethod: 1 SPOT_DELTA, 2 FORWARD_DELTA, 3 SPOT_DELTA_PREM_ADJ, 4 FORWARD_DELTA_PREM_ADJ):
  * C04c has: code 3 is neutral for FORWARD_DELTA, code 4 for FORWARD_DELTA_PREM_ADJ.  Here:
  * `atm_strike_delta_neutral_spot_delta`            code 3 is also neutral for SPOT_DELTA;
  * `atm_strike_delta_neutral_prem_adj_spot_delta`   code 4 is also neutral for SPOT_DELTA_PREM_ADJ;
  * `atm_strike_fwd_call_eq_put`                     code 2 (K = forward): the call and the put of the straddle have the
                                                     same value (d₂ = −d₁ at the forward; no symmetry of N needed);
  * `atm_strike_delta_neutral_d1_unique`             d₁(K) = 0 has exactly one solution K > 0: the coded strike.

  Strike from delta, closed forms of `solve_for_strike` (the Newton branches are solver parameters):
  * `solve_for_strike_forward_delta_value`, `solve_for_strike_spot_delta_value` (UNCONDITIONAL): the delta of the returned strike
    is exactly φ·N(norminvcdf(a)) (× e^{−rf·t} for spot delta) at the point `a` the code inverts; hence
    `solve_for_strike_forward_delta_error`: |delta − target| = |N(norminvcdf(a)) − a|, the inversion error of the two
    coded polynomials (measured 7.3e-8) — nothing else contributes;
  * `solve_for_strike_forward_delta_hits_target`, `solve_for_strike_spot_delta_hits_target`: the returned strike has exactly the
    target delta under that convention (call and put), GIVEN that `norminvcdf` inverts the coded `N` at the point used
    (`N (norminvcdf a) = a` — an approximation property of the two polynomials, measured 7.3e-8 by the harness; it is
    the one hypothesis, like a solver's post-condition);
  * `solve_for_strike_newton_branches`, `solve_for_strike_unknown_method`: methods 3, 4 return the Newton result, any
    other code raises FinError; `solve_for_strike_plus_eq`: FXVolSurfacePlus codes the same function.
-/
import FinVerif.Props.C04c

set_option linter.unusedVariables false
set_option linter.unusedSimpArgs false

namespace FinVerif.Props.C04
open FinVerif FinVerif.Gen FinVerif.Spec.C04 FinVerif.Model.C04

/-! ### the coded `N` -/

/-- `N(x) + N(−x) = 1` for `x ≠ 0` — by the code's own `1 − N(−x)` branch -/
theorem volN_symm (x : ℝ) (hx : x ≠ 0) : VolR.N x + VolR.N (-x) = 1 := by
  rcases lt_or_gt_of_ne hx with h | h
  · have h1 : ¬ (x ≥ 0) := not_le.mpr h
    have h2 : (-x ≥ 0) := by linarith
    simp only [VolR.N, VolR.N_fuel, h1, h2, decide_false, decide_true, neg_neg]
    simp
  · have h1 : (x ≥ 0) := le_of_lt h
    have h2 : ¬ (-x ≥ 0) := by intro h'; linarith
    simp only [VolR.N, VolR.N_fuel, h1, h2, decide_false, decide_true, neg_neg]
    simp

/-! ### ATM strikes: the remaining convention pairings -/

/-- C04: FWD_DELTA_NEUTRAL (code 3) is also delta-neutral for SPOT_DELTA (fast_delta code 1): the spot delta is the
forward delta times `e^{−rf·t}`, and both vanish with d₁. -/
theorem atm_strike_delta_neutral_spot_delta (s t rd rf v K : ℝ) (hs : 0 < s) (ht : 1e-12 ≤ t) (hv : 1e-12 ≤ v)
    (hK : VolR.atm_strike s (s * Real.exp ((rd - rf) * t)) v t 3 = .ok K) (hk : 1e-12 ≤ K) :
    ∃ dc dp, VolR.fast_delta s t K rd rf v 1 1 = .ok dc ∧ VolR.fast_delta s t K rd rf v 1 2 = .ok dp ∧ DeltaNeutral dc dp := by
  have hK' : K = s * Real.exp ((rd - rf) * t) * Real.exp (v * v * t / 2) := by
    simp [VolR.atm_strike] at hK; exact hK.symm
  have ht0 : 0 < t := lt_of_lt_of_le (by norm_num) ht
  have hv0 : 0 < v := lt_of_lt_of_le (by norm_num) hv
  obtain ⟨hc, hp⟩ := bs_delta_shape s t K rd rf v ht hk hv
  have hd : d1Of s t K rd rf v = 0 := by rw [hK']; exact (d1_at_delta_neutral s t rd rf v hs ht0 hv0).1
  refine ⟨Real.exp (-rf * t) * VolR.N (d1Of s t K rd rf v), -(Real.exp (-rf * t)) * VolR.N (-(d1Of s t K rd rf v)), ?_, ?_, ?_⟩
  · simp only [VolR.fast_delta, hc, exErr_ok, exOkD_ok]; simp
  · simp only [VolR.fast_delta, hp, exErr_ok, exOkD_ok]; simp
  · unfold DeltaNeutral; rw [hd]; simp

/-- C04: FWD_DELTA_NEUTRAL_PREM_ADJ (code 4) is also delta-neutral for SPOT_DELTA_PREM_ADJ (fast_delta code 3). -/
theorem atm_strike_delta_neutral_prem_adj_spot_delta (s t rd rf v K : ℝ) (hs : 0 < s) (ht : 1e-12 ≤ t) (hv : 1e-12 ≤ v)
    (hK : VolR.atm_strike s (s * Real.exp ((rd - rf) * t)) v t 4 = .ok K) (hk : 1e-12 ≤ K) :
    ∃ dc dp, VolR.fast_delta s t K rd rf v 3 1 = .ok dc ∧ VolR.fast_delta s t K rd rf v 3 2 = .ok dp ∧ DeltaNeutral dc dp := by
  have hK' : K = s * Real.exp ((rd - rf) * t) * Real.exp (-v * v * t / 2) := by
    simp [VolR.atm_strike] at hK
    have e : -(v * v * t) / 2 = -v * v * t / 2 := by ring
    rw [← hK, e]
  have ht0 : 0 < t := lt_of_lt_of_le (by norm_num) ht
  have hv0 : 0 < v := lt_of_lt_of_le (by norm_num) hv
  obtain ⟨hc, hp⟩ := bs_delta_shape s t K rd rf v ht hk hv
  obtain ⟨hvc, hvp⟩ := bs_value_shape s t K rd rf v ht hk hv
  have hd : d1Of s t K rd rf v - v * Real.sqrt t = 0 := by
    rw [hK']; exact (d1_at_delta_neutral s t rd rf v hs ht0 hv0).2
  refine ⟨Real.exp (-rf * t) * VolR.N (d1Of s t K rd rf v)
      - (s * Real.exp (-rf * t) * VolR.N (d1Of s t K rd rf v)
          - K * Real.exp (-rd * t) * VolR.N (d1Of s t K rd rf v - v * Real.sqrt t)) / s,
    -(Real.exp (-rf * t)) * VolR.N (-(d1Of s t K rd rf v))
      - (-(s * Real.exp (-rf * t)) * VolR.N (-(d1Of s t K rd rf v))
          + K * Real.exp (-rd * t) * VolR.N (-(d1Of s t K rd rf v - v * Real.sqrt t))) / s, ?_, ?_, ?_⟩
  · simp only [VolR.fast_delta, hc, hvc, exErr_ok, exOkD_ok]; simp
  · simp only [VolR.fast_delta, hp, hvp, exErr_ok, exOkD_ok]; simp
  · unfold DeltaNeutral; rw [hd]; simp; field_simp; ring

/-- `d₁ = σ√t/2` at the forward -/
theorem d1_at_forward (s t rd rf v : ℝ) (hs : 0 < s) :
    d1Of s t (s * Real.exp ((rd - rf) * t)) rd rf v = v * Real.sqrt t / 2 := by
  have h1 : (s * Real.exp (-rf * t)) / (s * Real.exp ((rd - rf) * t) * Real.exp (-rd * t)) = 1 := by
    rw [div_eq_one_iff_eq (by positivity), mul_assoc, ← Real.exp_add]
    congr 2; ring
  unfold d1Of
  rw [h1, Real.log_one, zero_div, zero_add]

/-- C04: FinFXATMMethod.FWD (code 2): at `K = forward` the call and the put of the ATM straddle have the SAME value
(`d₂ = −d₁` there, so the put's `N(−d₁), N(−d₂)` are the call's `N(d₂), N(d₁)`; no symmetry of `N` is needed). -/
theorem atm_strike_fwd_call_eq_put (s t rd rf v K : ℝ) (hs : 0 < s) (ht : 1e-12 ≤ t) (hv : 1e-12 ≤ v)
    (hK : VolR.atm_strike s (s * Real.exp ((rd - rf) * t)) v t 2 = .ok K) (hk : 1e-12 ≤ K) :
    VolR.bs_value s t K rd rf v 1 = VolR.bs_value s t K rd rf v 2 := by
  have hK' : K = s * Real.exp ((rd - rf) * t) := by simp [VolR.atm_strike] at hK; exact hK.symm
  obtain ⟨hvc, hvp⟩ := bs_value_shape s t K rd rf v ht hk hv
  rw [hvc, hvp]
  have hd : d1Of s t K rd rf v = v * Real.sqrt t / 2 := by rw [hK']; exact d1_at_forward s t rd rf v hs
  have hA : K * Real.exp (-rd * t) = s * Real.exp (-rf * t) := by
    rw [hK', mul_assoc, ← Real.exp_add]; congr 2; ring
  congr 1
  rw [hd, hA]
  have e1 : -(v * Real.sqrt t / 2) = v * Real.sqrt t / 2 - v * Real.sqrt t := by ring
  have e2 : -(v * Real.sqrt t / 2 - v * Real.sqrt t) = v * Real.sqrt t / 2 := by ring
  rw [e2, e1]
  ring

/-- C04: the delta-neutral strike is the ONLY strike with `d₁ = 0`: for `K > 0`, `d₁(K) = 0 ⇔ K = S·e^{(rd−rf)t}·e^{σ²t/2}`. -/
theorem atm_strike_delta_neutral_d1_unique (s t rd rf v K : ℝ) (hs : 0 < s) (ht : 0 < t) (hv : 0 < v) (hK : 0 < K) :
    d1Of s t K rd rf v = 0 ↔ K = s * Real.exp ((rd - rf) * t) * Real.exp (v * v * t / 2) := by
  constructor
  · intro h
    have hst : 0 < Real.sqrt t := Real.sqrt_pos.mpr ht
    have hsq : Real.sqrt t * Real.sqrt t = t := Real.mul_self_sqrt ht.le
    unfold d1Of at h
    have hvs : v * Real.sqrt t ≠ 0 := (mul_pos hv hst).ne'
    set X := (s * Real.exp (-rf * t)) / (K * Real.exp (-rd * t)) with hX
    have h' : Real.log X / (v * Real.sqrt t) = -(v * Real.sqrt t / 2) := by linarith
    rw [div_eq_iff hvs] at h'
    have hlog : Real.log X = -(v * v * t / 2) := by
      rw [h']; linear_combination (-(v * v / 2)) * hsq
    have hpos : 0 < X := by positivity
    have hX2 := Real.exp_log hpos
    rw [hlog] at hX2
    -- exp(-(σ²t/2)) = (s e^{-rf t}) / (K e^{-rd t})
    have hK2 : K * Real.exp (-rd * t) * Real.exp (-(v * v * t / 2)) = s * Real.exp (-rf * t) := by
      rw [hX2, hX]; field_simp
    have e1 : Real.exp (-rd * t) * Real.exp (rd * t) = 1 := by rw [← Real.exp_add]; simp
    have e2 : Real.exp (-(v * v * t / 2)) * Real.exp (v * v * t / 2) = 1 := by rw [← Real.exp_add]; simp
    have h3 : K = s * Real.exp (-rf * t) * Real.exp (rd * t) * Real.exp (v * v * t / 2) := by
      calc K = K * (Real.exp (-rd * t) * Real.exp (rd * t)) * (Real.exp (-(v * v * t / 2)) * Real.exp (v * v * t / 2)) := by
                rw [e1, e2]; ring
        _ = (K * Real.exp (-rd * t) * Real.exp (-(v * v * t / 2))) * Real.exp (rd * t) * Real.exp (v * v * t / 2) := by ring
        _ = s * Real.exp (-rf * t) * Real.exp (rd * t) * Real.exp (v * v * t / 2) := by rw [hK2]
    rw [h3]
    have : Real.exp (-rf * t) * Real.exp (rd * t) = Real.exp ((rd - rf) * t) := by
      rw [← Real.exp_add]; congr 1; ring
    rw [mul_assoc s, this]
  · intro h
    rw [h]; exact (d1_at_delta_neutral s t rd rf v hs ht hv).1

/-! ### strike from delta: the closed forms of `solve_for_strike` -/

/-- shape of the two closed-form branches (`φ` = +1 call, −1 put) -/
theorem solve_for_strike_shape (s t rd rf v target kn y : ℝ) (ty : Int) :
    (VolR.norminvcdf (target * (if ty = 1 then (1:ℝ) else -1)) = .ok y →
      VolR.solve_for_strike s t rd rf ty target 2 v kn
        = .ok ((s * Real.exp (-rf * t)) / Real.exp (-rd * t)
            * Real.exp (-(v * Real.sqrt t) * ((if ty = 1 then (1:ℝ) else -1) * y - v * Real.sqrt t / 2)))) ∧
    (VolR.norminvcdf (target * (if ty = 1 then (1:ℝ) else -1) / Real.exp (-rf * t)) = .ok y →
      VolR.solve_for_strike s t rd rf ty target 1 v kn
        = .ok ((s * Real.exp (-rf * t)) / Real.exp (-rd * t)
            * Real.exp (-(v * Real.sqrt t) * ((if ty = 1 then (1:ℝ) else -1) * y - v * Real.sqrt t / 2)))) := by
  have h21 : ¬ ((2 : Int) = 1) := by decide
  constructor
  · intro hy
    simp only [VolR.solve_for_strike, h21, decide_false, decide_true, Bool.false_eq_true, if_false, if_true,
      decide_eq_true_eq, hy, exErr_ok, exOkD_ok]
  · intro hy
    simp only [VolR.solve_for_strike, decide_true, if_true, decide_eq_true_eq, hy, exErr_ok, exOkD_ok,
      Bool.false_eq_true, if_false]

/-- `d₁` at the closed-form strike `F·exp(−σ√t·(x − σ√t/2))` is `x` -/
theorem d1_at_closed_form_strike (s t rd rf v x : ℝ) (hs : 0 < s) (ht : 0 < t) (hv : 0 < v) :
    d1Of s t ((s * Real.exp (-rf * t)) / Real.exp (-rd * t)
        * Real.exp (-(v * Real.sqrt t) * (x - v * Real.sqrt t / 2))) rd rf v = x := by
  have hst : 0 < Real.sqrt t := Real.sqrt_pos.mpr ht
  have hvs : v * Real.sqrt t ≠ 0 := (mul_pos hv hst).ne'
  set A := s * Real.exp (-rf * t) with hA
  set D := Real.exp (-rd * t) with hD
  set w := (v * Real.sqrt t) * (x - v * Real.sqrt t / 2) with hw
  have hApos : 0 < A := by positivity
  have hDpos : 0 < D := Real.exp_pos _
  have hw' : -(v * Real.sqrt t) * (x - v * Real.sqrt t / 2) = -w := by rw [hw]; ring
  have key : A / (A / D * Real.exp (-(v * Real.sqrt t) * (x - v * Real.sqrt t / 2)) * D) = Real.exp w := by
    rw [hw', div_eq_iff (by positivity)]
    have e : Real.exp w * Real.exp (-w) = 1 := by rw [← Real.exp_add]; simp
    have : Real.exp w * (A / D * Real.exp (-w) * D) = (Real.exp w * Real.exp (-w)) * A * (D / D) := by ring
    rw [this, e, div_self hDpos.ne']; ring
  unfold d1Of
  rw [← hA, ← hD, key, Real.log_exp, hw]
  field_simp
  ring

/-- C04 (strike from delta, FORWARD_DELTA = 2): the closed form `solve_for_strike` returns has EXACTLY the target forward
delta, for calls (type 1) and puts (type 2), given `N (norminvcdf (target·φ)) = target·φ`. -/
theorem solve_for_strike_forward_delta_hits_target (s t rd rf v target kn y K : ℝ) (ty : Int) (hty : ty = 1 ∨ ty = 2)
    (hs : 0 < s) (ht : 1e-12 ≤ t) (hv : 1e-12 ≤ v)
    (hy : VolR.norminvcdf (target * (if ty = 1 then 1 else -1)) = .ok y)
    (hinv : VolR.N y = target * (if ty = 1 then 1 else -1))
    (hK : VolR.solve_for_strike s t rd rf ty target 2 v kn = .ok K) (hk : 1e-12 ≤ K) :
    VolR.fast_delta s t K rd rf v 2 ty = .ok target := by
  have ht0 : 0 < t := lt_of_lt_of_le (by norm_num) ht
  have hv0 : 0 < v := lt_of_lt_of_le (by norm_num) hv
  obtain ⟨hc, hp⟩ := bs_delta_shape s t K rd rf v ht hk hv
  have hee : Real.exp (-rf * t) * Real.exp (rf * t) = 1 := by rw [← Real.exp_add]; simp
  rw [(solve_for_strike_shape s t rd rf v target kn y ty).1 hy] at hK
  simp only [Except.ok.injEq] at hK
  have hd : d1Of s t K rd rf v = (if ty = 1 then (1:ℝ) else -1) * y := by
    rw [← hK]; exact d1_at_closed_form_strike s t rd rf v _ hs ht0 hv0
  have h21 : ¬ ((2 : Int) = 1) := by decide
  rcases hty with rfl | rfl
  · simp only [if_true, mul_one, one_mul] at hinv hd
    simp only [VolR.fast_delta, hc, exErr_ok, exOkD_ok, h21, decide_false, decide_true, Bool.false_eq_true, if_false,
      if_true, hd, hinv]
    congr 1
    linear_combination target * hee
  · simp only [h21, if_false] at hinv hd
    simp only [VolR.fast_delta, hp, exErr_ok, exOkD_ok, h21, decide_false, decide_true, Bool.false_eq_true, if_false,
      if_true, hd]
    congr 1
    rw [show -(-1 * y) = y by ring, hinv]
    linear_combination target * hee

/-- C04 (strike from delta, SPOT_DELTA = 1): the closed form has EXACTLY the target spot delta, given
`N (norminvcdf a) = a` at `a = target·φ / e^{−rf·t}`. -/
theorem solve_for_strike_spot_delta_hits_target (s t rd rf v target kn y K : ℝ) (ty : Int) (hty : ty = 1 ∨ ty = 2)
    (hs : 0 < s) (ht : 1e-12 ≤ t) (hv : 1e-12 ≤ v)
    (hy : VolR.norminvcdf (target * (if ty = 1 then 1 else -1) / Real.exp (-rf * t)) = .ok y)
    (hinv : VolR.N y = target * (if ty = 1 then 1 else -1) / Real.exp (-rf * t))
    (hK : VolR.solve_for_strike s t rd rf ty target 1 v kn = .ok K) (hk : 1e-12 ≤ K) :
    VolR.fast_delta s t K rd rf v 1 ty = .ok target := by
  have ht0 : 0 < t := lt_of_lt_of_le (by norm_num) ht
  have hv0 : 0 < v := lt_of_lt_of_le (by norm_num) hv
  obtain ⟨hc, hp⟩ := bs_delta_shape s t K rd rf v ht hk hv
  have hne : Real.exp (-rf * t) ≠ 0 := (Real.exp_pos _).ne'
  rw [(solve_for_strike_shape s t rd rf v target kn y ty).2 hy] at hK
  simp only [Except.ok.injEq] at hK
  have hd : d1Of s t K rd rf v = (if ty = 1 then (1:ℝ) else -1) * y := by
    rw [← hK]; exact d1_at_closed_form_strike s t rd rf v _ hs ht0 hv0
  have h21 : ¬ ((2 : Int) = 1) := by decide
  rcases hty with rfl | rfl
  · simp only [if_true, mul_one, one_mul] at hinv hd
    simp only [VolR.fast_delta, hc, exErr_ok, exOkD_ok, h21, decide_false, decide_true, Bool.false_eq_true, if_false,
      if_true, hd, hinv]
    congr 1
    field_simp
  · simp only [h21, if_false] at hinv hd
    simp only [VolR.fast_delta, hp, exErr_ok, exOkD_ok, h21, decide_false, decide_true, Bool.false_eq_true, if_false,
      if_true, hd]
    congr 1
    rw [show -(-1 * y) = y by ring, hinv]
    field_simp

/-- C04 (strike from delta, FORWARD_DELTA = 2, unconditional): the forward delta of the closed-form strike is EXACTLY
`φ·N(norminvcdf(target·φ))` (φ = +1 call, −1 put). -/
theorem solve_for_strike_forward_delta_value (s t rd rf v target kn y K : ℝ) (ty : Int) (hty : ty = 1 ∨ ty = 2)
    (hs : 0 < s) (ht : 1e-12 ≤ t) (hv : 1e-12 ≤ v)
    (hy : VolR.norminvcdf (target * (if ty = 1 then 1 else -1)) = .ok y)
    (hK : VolR.solve_for_strike s t rd rf ty target 2 v kn = .ok K) (hk : 1e-12 ≤ K) :
    VolR.fast_delta s t K rd rf v 2 ty = .ok ((if ty = 1 then 1 else -1) * VolR.N y) := by
  have ht0 : 0 < t := lt_of_lt_of_le (by norm_num) ht
  have hv0 : 0 < v := lt_of_lt_of_le (by norm_num) hv
  obtain ⟨hc, hp⟩ := bs_delta_shape s t K rd rf v ht hk hv
  have hee : Real.exp (-rf * t) * Real.exp (rf * t) = 1 := by rw [← Real.exp_add]; simp
  rw [(solve_for_strike_shape s t rd rf v target kn y ty).1 hy] at hK
  simp only [Except.ok.injEq] at hK
  have hd : d1Of s t K rd rf v = (if ty = 1 then (1:ℝ) else -1) * y := by
    rw [← hK]; exact d1_at_closed_form_strike s t rd rf v _ hs ht0 hv0
  have h21 : ¬ ((2 : Int) = 1) := by decide
  rcases hty with rfl | rfl
  · simp only [if_true, mul_one, one_mul] at hd ⊢
    simp only [VolR.fast_delta, hc, exErr_ok, exOkD_ok, h21, decide_false, decide_true, Bool.false_eq_true, if_false,
      if_true, hd]
    congr 1
    linear_combination (VolR.N y) * hee
  · simp only [h21, if_false] at hd ⊢
    simp only [VolR.fast_delta, hp, exErr_ok, exOkD_ok, h21, decide_false, decide_true, Bool.false_eq_true, if_false,
      if_true, hd]
    congr 1
    rw [show -(-1 * y) = y by ring]
    linear_combination (-(VolR.N y)) * hee

/-- C04: hence the delta error of the closed-form strike is exactly the inversion error of the two coded polynomials:
`delta − target = φ·(N(norminvcdf(a)) − a)` at `a = target·φ`. -/
theorem solve_for_strike_forward_delta_error (s t rd rf v target kn y K d : ℝ) (ty : Int) (hty : ty = 1 ∨ ty = 2)
    (hs : 0 < s) (ht : 1e-12 ≤ t) (hv : 1e-12 ≤ v)
    (hy : VolR.norminvcdf (target * (if ty = 1 then 1 else -1)) = .ok y)
    (hK : VolR.solve_for_strike s t rd rf ty target 2 v kn = .ok K) (hk : 1e-12 ≤ K)
    (hd : VolR.fast_delta s t K rd rf v 2 ty = .ok d) :
    |d - target| = |VolR.N y - target * (if ty = 1 then 1 else -1)| := by
  rw [solve_for_strike_forward_delta_value s t rd rf v target kn y K ty hty hs ht hv hy hK hk] at hd
  simp only [Except.ok.injEq] at hd
  rw [← hd]
  rcases hty with rfl | rfl
  · simp
  · have h21 : ¬ ((2 : Int) = 1) := by decide
    simp only [h21, if_false]
    rw [show -1 * VolR.N y - target = -(VolR.N y - target * -1) by ring, abs_neg]

/-- C04 (strike from delta, SPOT_DELTA = 1, unconditional): the spot delta of the closed-form strike is exactly
`φ·e^{−rf·t}·N(norminvcdf(target·φ/e^{−rf·t}))`. -/
theorem solve_for_strike_spot_delta_value (s t rd rf v target kn y K : ℝ) (ty : Int) (hty : ty = 1 ∨ ty = 2)
    (hs : 0 < s) (ht : 1e-12 ≤ t) (hv : 1e-12 ≤ v)
    (hy : VolR.norminvcdf (target * (if ty = 1 then 1 else -1) / Real.exp (-rf * t)) = .ok y)
    (hK : VolR.solve_for_strike s t rd rf ty target 1 v kn = .ok K) (hk : 1e-12 ≤ K) :
    VolR.fast_delta s t K rd rf v 1 ty = .ok ((if ty = 1 then 1 else -1) * Real.exp (-rf * t) * VolR.N y) := by
  have ht0 : 0 < t := lt_of_lt_of_le (by norm_num) ht
  have hv0 : 0 < v := lt_of_lt_of_le (by norm_num) hv
  obtain ⟨hc, hp⟩ := bs_delta_shape s t K rd rf v ht hk hv
  rw [(solve_for_strike_shape s t rd rf v target kn y ty).2 hy] at hK
  simp only [Except.ok.injEq] at hK
  have hd : d1Of s t K rd rf v = (if ty = 1 then (1:ℝ) else -1) * y := by
    rw [← hK]; exact d1_at_closed_form_strike s t rd rf v _ hs ht0 hv0
  have h21 : ¬ ((2 : Int) = 1) := by decide
  rcases hty with rfl | rfl
  · simp only [if_true, mul_one, one_mul] at hd ⊢
    simp only [VolR.fast_delta, hc, exErr_ok, exOkD_ok, h21, decide_false, decide_true, Bool.false_eq_true, if_false,
      if_true, hd]
  · simp only [h21, if_false] at hd ⊢
    simp only [VolR.fast_delta, hp, exErr_ok, exOkD_ok, h21, decide_false, decide_true, Bool.false_eq_true, if_false,
      if_true, hd]
    congr 1
    rw [show -(-1 * y) = y by ring]
    ring

/-- non-vacuity (all hypotheses met, no inverse assumption): S = 1, rd = rf = 0, t = 1, σ = 20 %, call, target 0.5:
`norminvcdf 0.5 = 0`, the strike is `exp(0.02)` and its forward delta is exactly the coded `N 0` (= 0.5 − 5e-10). -/
example : ∃ K, VolR.solve_for_strike 1 1 0 0 1 0.5 2 0.2 0 = .ok K ∧ VolR.fast_delta 1 1 K 0 0 0.2 2 1 = .ok (VolR.N 0) := by
  have hy : VolR.norminvcdf ((0.5 : ℝ) * (if (1 : Int) = 1 then 1 else -1)) = .ok 0 := by
    simp only [if_true, mul_one, VolR.norminvcdf]; norm_num
  have hK := (solve_for_strike_shape 1 1 0 0 0.2 0.5 0 0 1).1 hy
  refine ⟨_, hK, ?_⟩
  have := solve_for_strike_forward_delta_value 1 1 0 0 0.2 0.5 0 0 _ 1 (Or.inl rfl) (by norm_num) (by norm_num) (by norm_num)
    hy hK (by
      have : (0 : ℝ) < 1 * Real.exp (-0 * 1) / Real.exp (-0 * 1) * Real.exp (-(0.2 * Real.sqrt 1) * (1 * 0 - 0.2 * Real.sqrt 1 / 2)) := by positivity
      have h1 : (1 : ℝ) ≤ Real.exp (-(0.2 * Real.sqrt 1) * (1 * 0 - 0.2 * Real.sqrt 1 / 2)) := by
        apply Real.one_le_exp
        rw [Real.sqrt_one]; norm_num
      simp only [if_true]
      rw [show (-(0:ℝ) * 1) = 0 by ring, Real.exp_zero]
      calc (1e-12 : ℝ) ≤ 1 := by norm_num
        _ ≤ 1 * 1 / 1 * Real.exp (-(0.2 * Real.sqrt 1) * (1 * 0 - 0.2 * Real.sqrt 1 / 2)) := by
            rw [mul_one, div_one, one_mul]; exact h1)
  simpa using this
/-- the premium-adjusted conventions (3, 4) return the Newton result (a solver parameter; its post-condition — the delta of
the returned strike — is checked per case by the harness, clauses ms-strike-delta / rr-strike-delta) -/
theorem solve_for_strike_newton_branches (s t rd rf v target kn : ℝ) (ty : Int) :
    VolR.solve_for_strike s t rd rf ty target 3 v kn = .ok kn ∧ VolR.solve_for_strike s t rd rf ty target 4 v kn = .ok kn := by
  constructor <;> simp [VolR.solve_for_strike]

/-- any other delta-method code raises FinError -/
theorem solve_for_strike_unknown_method (s t rd rf v target kn : ℝ) (ty dm : Int)
    (h1 : dm ≠ 1) (h2 : dm ≠ 2) (h3 : dm ≠ 3) (h4 : dm ≠ 4) :
    VolR.solve_for_strike s t rd rf ty target dm v kn = .error .finError := by
  simp [VolR.solve_for_strike, h1, h2, h3, h4]

/-- FXVolSurfacePlus codes the same `solve_for_strike` -/
theorem solve_for_strike_plus_eq (s t rd rf v target kn : ℝ) (ty dm : Int) :
    VolR.solve_for_strike_plus s t rd rf ty target dm v kn = VolR.solve_for_strike s t rd rf ty target dm v kn := by
  simp only [VolR.solve_for_strike, VolR.solve_for_strike_plus]

/-- … and the same strike-from-delta objective -/
theorem delta_objective_plus_eq (k s t rd rf v : ℝ) (dm ty : Int) (target : ℝ) :
    VolR.delta_objective_plus k s t rd rf v dm ty target = VolR.delta_objective k s t rd rf v dm ty target := by
  simp only [VolR.delta_objective, VolR.delta_objective_plus]

/-- non-vacuity of the ATM-forward theorem: S = 1, t = 1, rd = rf = 0, σ = 20 % -/
example : ∃ K, VolR.atm_strike 1 (1 * Real.exp ((0 - 0) * 1)) 0.2 1 2 = .ok K ∧ (1e-12 : ℝ) ≤ K := by
  refine ⟨_, by simp only [VolR.atm_strike]; rfl, ?_⟩
  have h1 : (1 : ℝ) ≤ Real.exp ((0 - 0) * 1) := Real.one_le_exp (by norm_num)
  rw [one_mul]
  exact le_trans (by norm_num) h1

/-- non-vacuity of the closed-form theorems: the central branch of `norminvcdf` at 0.5 returns 0 (so `y = 0` exists for
`target·φ = 0.5`); the inverse hypothesis is then `N 0 = 0.5`, which the Hull polynomial misses by 5e-10 — this is why
the inverse property is a HYPOTHESIS with a measured tolerance and not a theorem. -/
example : VolR.norminvcdf 0.5 = .ok 0 := by
  simp only [VolR.norminvcdf]
  norm_num

end FinVerif.Props.C04
