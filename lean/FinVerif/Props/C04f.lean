/-
  C04 (part f) — SABR: the branches and special cases of the Hagan formula AS CODED (`Gen/VolR.lean`: `sabr`, `sabr_x`,
  `sabr_beta_half`, `sabr_beta_one`, `sabr_shifted`, `sabr_atm_cubic`, `sabr_shifted_atm_cubic`, `sabr_strike_objective`).

  * `sabr_shifted_eq_sabr`, `sabr_shifted_atm_cubic_eq`: the shifted model is the unshifted one at `f + shift`, `k + shift`
    (formula AND ATM cubic), hence `sabr_shifted_atm_alpha_root_returns_vol` / `sabr_shifted_atm_calibration_returns_vol`:
    every alpha `SABRShifted.set_alpha_from_atm_black_vol` stores returns the target ATM vol (same hypotheses as C04c).
  * `sabr_beta_half_eq_sabr`: `vol_function_sabr_beta_half` is `vol_function_sabr` at β = 0.5, everywhere.
  * `sabr_shape`: the two branches of the coded formula: `V₀·z/x(z)` for |z| > 1e-7 and `V₀` otherwise;
    `sabr_x_zero`, `sabr_x_hasDerivAt_zero`, `sabr_small_z_branch_is_limit`: x(0) = 0, x′(0) = 1, so z/x(z) → 1 as z → 0:
    the small-z branch is the limit of the other one — the switch at |z| = 1e-7 is continuous in the limit (ρ ≠ 1).
  * `sabr_atm_value`: closed form at f = k; `sabr_beta_one_atm_eq_sabr`: `vol_function_sabr_beta_one` agrees with
    `vol_function_sabr` at β = 1 at the money (away from the money they differ as coded: notes, observation (a));
    `sabr_atm_vol_pos_iff`: the ATM vol is > 0 exactly when the Hagan time-correction factor is > 0.
  * single-strike calibration (`set_alpha_from_black_vol`): the GENERATED objective `fn` handed to L-BFGS-B is
    `|target − model vol|` (`sabr_strike_objective_eq_abs`), zero iff the target is returned
    (`sabr_strike_objective_zero_iff`), ≤ ε iff the returned vol is within ε (`sabr_strike_objective_le_iff`), chained with
    the generated formula in `sabr_single_strike_postcondition`; the shifted class codes the same objective.
    The registry pins the text around it (guard `init_alpha != black_vol` only; `results.x[0]` stored without looking at
    `results.success` / `results.fun`): there is NO post-optimisation check to model — the silent-failure clause stays a
    finding (C04/silent-nonconvergence/SABR.set_alpha_from_black_vol).
-/
import FinVerif.Props.C04c
import Mathlib.Analysis.SpecialFunctions.Pow.Deriv
import Mathlib.Analysis.SpecialFunctions.Log.Deriv
import Mathlib.Analysis.Calculus.Deriv.Slope

set_option linter.unusedVariables false
set_option linter.unusedSimpArgs false

namespace FinVerif.Props.C04
open FinVerif FinVerif.Gen FinVerif.Spec.C04 FinVerif.Model.C04
open Filter Topology

/-! ### shifted SABR and β = ½ are instances of `vol_function_sabr` -/

/-- C04: `vol_function_shifted_sabr` is `vol_function_sabr` at `f + shift`, `k + shift` (all branches, error cases too). -/
theorem sabr_shifted_eq_sabr (α β ρ ν sh f k t : ℝ) :
    VolR.sabr_shifted α β ρ ν sh f k t = VolR.sabr α β ρ ν (f + sh) (k + sh) t := by
  simp only [VolR.sabr_shifted, VolR.sabr, max_comm α (1e-10 : ℝ)]

/-- … and `SABRShifted.set_alpha_from_atm_black_vol` builds the unshifted cubic at `K + shift`. -/
theorem sabr_shifted_atm_cubic_eq (σ K t β ρ ν sh : ℝ) :
    VolR.sabr_shifted_atm_cubic σ K t β ρ ν sh = VolR.sabr_atm_cubic σ (K + sh) t β ρ ν := by
  simp only [VolR.sabr_shifted_atm_cubic, VolR.sabr_atm_cubic]

/-- C04 (shifted SABR, ATM): a root α ≥ 1e-10 of the cubic `SABRShifted.set_alpha_from_atm_black_vol` hands to `np.roots`
makes `vol_function_shifted_sabr` return the target vol at f = k = K (K + shift > 0). -/
theorem sabr_shifted_atm_alpha_root_returns_vol (σ K t β ρ ν sh α : ℝ) (hK : 0 < K + sh) (hα : 1e-10 ≤ α)
    (hroot : let c := VolR.sabr_shifted_atm_cubic σ K t β ρ ν sh
             c.1 * α ^ 3 + c.2.1 * α ^ 2 + c.2.2.1 * α + c.2.2.2 = 0) :
    VolR.sabr_shifted α β ρ ν sh K K t = .ok σ := by
  rw [sabr_shifted_eq_sabr]
  rw [sabr_shifted_atm_cubic_eq] at hroot
  exact sabr_atm_alpha_root_returns_vol σ (K + sh) t β ρ ν α hK hα hroot

/-- C04 (shifted SABR, ATM calibration end to end): EVERY alpha the method stores returns the target ATM vol, given
np.roots' post-condition on the roots that pass the real-root filter. -/
theorem sabr_shifted_atm_calibration_returns_vol (σ K t β ρ ν sh α : ℝ) (roots : List (ℝ × ℝ)) (hK : 0 < K + sh)
    (hsel : selectAlpha 1e-10 1 roots = .ok α)
    (hroots : ∀ z ∈ roots, rootPasses 1e-10 1 z = true →
        let c := VolR.sabr_shifted_atm_cubic σ K t β ρ ν sh
        c.1 * z.1 ^ 3 + c.2.1 * z.1 ^ 2 + c.2.2.1 * z.1 + c.2.2.2 = 0)
    (hα : 1e-10 ≤ α) : VolR.sabr_shifted α β ρ ν sh K K t = .ok σ := by
  obtain ⟨⟨z, hz, hzp, hzα⟩, _, _⟩ := select_alpha_spec _ _ _ _ hsel
  have := hroots z hz hzp
  rw [hzα] at this
  exact sabr_shifted_atm_alpha_root_returns_vol σ K t β ρ ν sh α hK hα this

/-- C04: `vol_function_sabr_beta_half` is `vol_function_sabr` with β = 0.5 (so every SABR theorem applies to it). -/
theorem sabr_beta_half_eq_sabr (α ρ ν f k t : ℝ) :
    VolR.sabr_beta_half α ρ ν f k t = VolR.sabr α 0.5 ρ ν f k t := by
  simp only [VolR.sabr_beta_half, VolR.sabr]

/-! ### the two branches of the coded formula -/

/-- the coded `z` of `vol_function_sabr` -/
noncomputable def sabrZ (α β ν f k : ℝ) : ℝ :=
  ν * ((f * k) ^ (1 - β)) ^ (0.5 : ℝ) * Real.log (f / k) / α

/-- the value of the coded small-`z` branch of `vol_function_sabr` -/
noncomputable def sabrV0 (α β ρ ν f k t : ℝ) : ℝ :=
  let fkb := (f * k) ^ (1 - β)
  let a := (1 - β) ^ 2 * α ^ 2 / (24 * fkb)
  let b1 := 0.25 * ρ * β * ν * α / fkb ^ (0.5 : ℝ)
  let c := (2 - 3 * ρ ^ (2 : ℝ)) * ν ^ (2 : ℝ) / ((24 : Int) : ℝ)
  α * (1 + (a + b1 + c) * t)
    / (fkb ^ (0.5 : ℝ) * (1 + b1 ^ 2 * Real.log (f / k) ^ 2 / 24 + b1 ^ 4 * Real.log (f / k) ^ 4 / 1920))

/-- C04: the coded Hagan formula is `V₀ · z / x(z)` where |z| > 1e-7 and `V₀` otherwise (α above the floor, f, k > 0). -/
theorem sabr_shape (α β ρ ν f k t : ℝ) (hα : 1e-10 ≤ α) (hf : 0 < f) (hk : 0 < k) :
    VolR.sabr α β ρ ν f k t = .ok (if |sabrZ α β ν f k| > 1e-7
      then sabrV0 α β ρ ν f k t * (sabrZ α β ν f k / VolR.sabr_x ρ (sabrZ α β ν f k))
      else sabrV0 α β ρ ν f k t) := by
  have hα' : max (1e-10 : ℝ) α = α := max_eq_right hα
  have hk1 : ¬ (k ≤ ((0 : Int) : ℝ)) := by push_cast; exact not_le.mpr hk
  have hf1 : ¬ (f ≤ ((0 : Int) : ℝ)) := by push_cast; exact not_le.mpr hf
  have key : ∀ (a z P d Q x : ℝ), a * z * P / (d * Q * x) = a * P / (d * Q) * (z / x) := by
    intros; rw [div_mul_div_comm]; congr 1; ring
  by_cases hz : |sabrZ α β ν f k| > 1e-7
  · rw [if_pos hz]
    simp only [sabrZ] at hz
    simp only [VolR.sabr, hα', hk1, hf1, decide_false, Real.rpow_eq_pow, Bool.false_eq_true, if_false, sabrZ, sabrV0,
      hz, decide_true, if_true]
    congr 1
    exact key _ _ _ _ _ _
  · rw [if_neg hz]
    simp only [sabrZ] at hz
    simp only [VolR.sabr, hα', hk1, hf1, decide_false, Real.rpow_eq_pow, Bool.false_eq_true, if_false, sabrZ, sabrV0,
      hz, decide_false, if_false]

theorem sabr_x_zero (ρ : ℝ) (hρ : ρ ≠ 1) : VolR.sabr_x ρ 0 = 0 := by
  have h : (1 : ℝ) - ρ ≠ 0 := sub_ne_zero.mpr (Ne.symm hρ)
  simp only [VolR.sabr_x, Real.rpow_eq_pow]
  norm_num

/-- `x(z) = log((√(1 − 2ρz + z²) + z − ρ)/(1 − ρ))` as coded has derivative 1 at z = 0 -/
theorem sabr_x_hasDerivAt_zero (ρ : ℝ) (hρ : ρ ≠ 1) : HasDerivAt (VolR.sabr_x ρ) 1 0 := by
  have hb : (1 : ℝ) - ρ ≠ 0 := sub_ne_zero.mpr (Ne.symm hρ)
  have h1 : HasDerivAt (fun z : ℝ => 1 - 2 * ρ * z + z ^ (2 : Nat)) (-(2 * ρ)) 0 := by
    have a := ((hasDerivAt_id (0 : ℝ)).const_mul (2 * ρ)).const_sub 1
    have b := hasDerivAt_pow 2 (0 : ℝ)
    have c : HasDerivAt (fun z : ℝ => 1 - 2 * ρ * z + z ^ (2 : Nat)) _ 0 := a.add b
    refine c.congr_deriv ?_
    simp
  have h2 := h1.rpow_const (p := (0.5 : ℝ)) (Or.inl (by norm_num))
  have h3 := ((h2.add (hasDerivAt_id (0 : ℝ))).sub_const ρ).div_const (1 - ρ)
  have h4 := h3.log (by
    simp only [Pi.add_apply, id]
    norm_num
    exact hb)
  have hfun : VolR.sabr_x ρ = fun y => Real.log ((((1 - 2 * ρ * y + y ^ (2 : Nat)) ^ (0.5 : ℝ) + id y) - ρ) / (1 - ρ)) := by
    funext y
    simp only [VolR.sabr_x, Real.rpow_eq_pow, id]
  rw [hfun]
  convert h4 using 1
  simp only [Pi.add_apply, id]
  norm_num
  have e2 : (-(2 * ρ * (1 / 2)) + 1) = 1 - ρ := by ring
  rw [e2, div_self hb, div_one]

/-- C04 (continuity of the branch switch, in the limit): `z / x(z) → 1` as `z → 0`, so the value `V₀` the code returns for
|z| ≤ 1e-7 is the limit of the value `V₀·z/x(z)` it returns for |z| > 1e-7. -/
theorem sabr_small_z_branch_is_limit (ρ : ℝ) (hρ : ρ ≠ 1) :
    Tendsto (fun z => z / VolR.sabr_x ρ z) (𝓝[≠] 0) (𝓝 1) := by
  have h := hasDerivAt_iff_tendsto_slope.mp (sabr_x_hasDerivAt_zero ρ hρ)
  have h' := h.inv₀ one_ne_zero
  rw [inv_one] at h'
  refine h'.congr ?_
  intro z
  rw [slope_def_field, sabr_x_zero ρ hρ, sub_zero, sub_zero, inv_div]

/-! ### at the money -/

/-- the Hagan time-correction factor at the money, as coded -/
noncomputable def sabrAtmFactor (α β ρ ν K t : ℝ) : ℝ :=
  1 + ((1 - β) ^ 2 * α ^ 2 / (24 * (K * K) ^ (1 - β)) + 0.25 * ρ * β * ν * α / ((K * K) ^ (1 - β)) ^ (0.5 : ℝ)
        + (2 - 3 * ρ ^ (2 : ℝ)) * ν ^ (2 : ℝ) / ((24 : Int) : ℝ)) * t

/-- C04: the coded ATM vol: `α · (1 + (…)·t) / K^{1−β}` -/
theorem sabr_atm_value (α β ρ ν K t : ℝ) (hα : 1e-10 ≤ α) (hK : 0 < K) :
    VolR.sabr α β ρ ν K K t = .ok (α * sabrAtmFactor α β ρ ν K t / K ^ (1 - β)) := by
  rw [sabr_shape α β ρ ν K K t hα hK hK]
  have hlog : Real.log (K / K) = 0 := by rw [div_self hK.ne', Real.log_one]
  have hz : sabrZ α β ν K K = 0 := by simp [sabrZ, hlog]
  have hApos : 0 < K ^ (1 - β) := Real.rpow_pos_of_pos hK _
  have hKK : (K * K) ^ (1 - β) = K ^ (1 - β) * K ^ (1 - β) := Real.mul_rpow hK.le hK.le
  have hhalf : ((K * K) ^ (1 - β)) ^ (0.5 : ℝ) = K ^ (1 - β) := by
    rw [hKK, show (0.5 : ℝ) = 1 / 2 by norm_num, ← Real.sqrt_eq_rpow, Real.sqrt_mul_self hApos.le]
  rw [hz]
  have h0 : ¬ (|(0 : ℝ)| > 1e-7) := by simp; norm_num
  rw [if_neg h0]
  congr 1
  simp only [sabrV0, sabrAtmFactor, hlog, hhalf]
  congr 1
  ring

/-- C04: at the money `vol_function_sabr_beta_one` agrees with `vol_function_sabr` at β = 1 (|ρ| ≤ 1, α above the floor). -/
theorem sabr_beta_one_atm_eq_sabr (α ρ ν K t : ℝ) (hα : 1e-10 ≤ α) (hK : 0 < K) (hρ1 : ρ ≤ 1) (hρ2 : -1 ≤ ρ) :
    VolR.sabr α 1 ρ ν K K t = .ok (VolR.sabr_beta_one α ρ ν K K t) := by
  rw [sabr_atm_value α 1 ρ ν K t hα hK]
  congr 1
  have h1 : ¬ (ρ > 1) := not_lt.mpr hρ1
  have h2 : ¬ (ρ < -1) := not_lt.mpr hρ2
  have hm : ¬ (|K / K - 1| > (1e-6 : ℝ)) := by rw [div_self hK.ne']; simp; norm_num
  simp only [VolR.sabr_beta_one, h1, h2, hm, decide_false, Bool.false_eq_true, if_false, sabrAtmFactor, Real.rpow_eq_pow]
  simp only [sub_self, Real.rpow_zero, Real.one_rpow, Real.rpow_two]
  push_cast
  ring

/-- C04 (positivity at the money, exact): the ATM vol the coded formula returns is > 0 iff the time-correction factor is. -/
theorem sabr_atm_vol_pos_iff (α β ρ ν K t v : ℝ) (hα : 1e-10 ≤ α) (hK : 0 < K)
    (h : VolR.sabr α β ρ ν K K t = .ok v) : 0 < v ↔ 0 < sabrAtmFactor α β ρ ν K t := by
  rw [sabr_atm_value α β ρ ν K t hα hK] at h
  simp only [Except.ok.injEq] at h
  have hα0 : 0 < α := lt_of_lt_of_le (by norm_num) hα
  have hApos : 0 < K ^ (1 - β) := Real.rpow_pos_of_pos hK _
  rw [← h]
  constructor
  · intro hv
    have := (div_pos_iff_of_pos_right hApos).mp hv
    exact (mul_pos_iff_of_pos_left hα0).mp this
  · intro hf
    exact div_pos (mul_pos hα0 hf) hApos

/-! ### the single-strike objective -/

/-- C04: the objective `fn` of `SABR.set_alpha_from_black_vol` is `|target − model vol|` -/
theorem sabr_strike_objective_eq_abs (bv mv : ℝ) : VolR.sabr_strike_objective bv mv = |bv - mv| := by
  simp only [VolR.sabr_strike_objective]
  exact Real.sqrt_sq_eq_abs _

/-- the shifted class codes the same objective -/
theorem sabr_shifted_strike_objective_eq (bv mv : ℝ) :
    VolR.sabr_shifted_strike_objective bv mv = VolR.sabr_strike_objective bv mv := by
  simp only [VolR.sabr_shifted_strike_objective, VolR.sabr_strike_objective]

/-- C04: objective zero ⇔ the model returns the target vol -/
theorem sabr_strike_objective_zero_iff (bv mv : ℝ) : VolR.sabr_strike_objective bv mv = 0 ↔ mv = bv := by
  rw [sabr_strike_objective_eq_abs, abs_eq_zero, sub_eq_zero]
  exact eq_comm

/-- C04: objective ≤ ε ⇔ the returned vol is within ε of the target (the optimiser's REPORTED final objective bounds the
quote error — this is the post-condition the harness reads off `res.fun`) -/
theorem sabr_strike_objective_le_iff (bv mv ε : ℝ) : VolR.sabr_strike_objective bv mv ≤ ε ↔ |mv - bv| ≤ ε := by
  rw [sabr_strike_objective_eq_abs, abs_sub_comm]

/-- C04 (single-strike calibration, post-condition ⇒ quote reproduced): if the generated Hagan formula at the returned
alpha gives `mv` and the objective there is ≤ ε, then the model's vol at the quoted strike is within ε of the quote. -/
theorem sabr_single_strike_postcondition (bv α β ρ ν f k t mv ε : ℝ) (hv : VolR.sabr α β ρ ν f k t = .ok mv)
    (hobj : VolR.sabr_strike_objective bv mv ≤ ε) :
    ∃ v, VolR.sabr α β ρ ν f k t = .ok v ∧ |v - bv| ≤ ε :=
  ⟨mv, hv, (sabr_strike_objective_le_iff bv mv ε).mp hobj⟩

/-- non-vacuity: β = 1, ρ = ν = 0 at the money: factor 1, vol = α -/
example : VolR.sabr 0.2 1 0 0 1 1 1 = .ok (0.2 * sabrAtmFactor 0.2 1 0 0 1 1 / (1 : ℝ) ^ ((1 : ℝ) - 1)) :=
  sabr_atm_value 0.2 1 0 0 1 1 (by norm_num) (by norm_num)

example : VolR.sabr_strike_objective 0.25 0.25 = 0 := (sabr_strike_objective_zero_iff _ _).mpr rfl

end FinVerif.Props.C04
