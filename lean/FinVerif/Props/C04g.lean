/-
  C04 (part g) — "every volatility returned is finite and strictly positive": the exact positivity domains of the smile
  families, on the GENERATED formulas (`Gen/VolR.lean`: `svi`, `bbg3`, `vol_ssvi`).  (Clark = exp(polynomial) > 0 always:
  `clark_vol_pos` in C04c.)

  SVI  (total variance `a + b(ρ(x−m) + √((x−m)² + σ²))`, x = ln(f/k))
  * `svi_eq_sqrt_var`                       the generated function is √(sviVar / t);
  * `svi_variance_lower_bound`              b ≥ 0, |ρ| ≤ 1  ⇒  sviVar ≥ a + b·|σ|·√(1−ρ²) at EVERY strike;
  * `svi_variance_at_min`                   |ρ| < 1: the bound is attained at the strike with x − m = −ρ|σ|/√(1−ρ²);
  * `svi_positivity_condition_exact`        hence (∀ k > 0, sviVar ≥ 0) ⇔ a + b|σ|√(1−ρ²) ≥ 0  — the textbook condition is
                                            exactly the domain on which the code never takes √ of a negative number;
  * `svi_vol_pos_of_min_variance_pos`       a + b|σ|√(1−ρ²) > 0, t > 0 ⇒ returned vol > 0 for all strikes (weaker
                                            hypothesis than `svi_vol_pos`, which needs a > 0);
  * `svi_vol_zero_at_min_of_neg`            if the condition fails the code returns √(negative) at the minimising strike:
                                            0 in ℝ (`Real.sqrt`), NaN in IEEE — not a positive vol.
  BBG  (quadratic in the delta Δ = N(d₁) computed with the ATM-ish vol p₀/4 + p₁/2 + p₂)
  * `bbg_eq_quadratic`; `bbg_four_p0_mul`: 4p₀·v = (2p₀Δ + p₁)² − (p₁² − 4p₀p₂);
  * `bbg_negative_iff_of_pos` / `bbg_negative_iff_of_neg` / `bbg_negative_iff_of_zero`: the EXACT region where the returned
    vol is negative, in terms of Δ;  `bbg_pos_of_discriminant_neg`: p₀ > 0 and p₁² < 4p₀p₂ ⇒ > 0 at every strike;
    `bbg_can_be_negative`: a parameter vector with a negative vol at every strike (the family has no positivity guard).
  SSVI
  * `vol_ssvi_nonneg`, `vol_ssvi_zero_of_nonpos_local_var`: the clamp `max(var, 0)` makes the result ≥ 0 but returns exactly
    0 — not a strictly positive vol — wherever the local variance is ≤ 0 (notes, observation (b)).
-/
import FinVerif.Props.C04c

set_option linter.unusedVariables false
set_option linter.unusedSimpArgs false

namespace FinVerif.Props.C04
open FinVerif FinVerif.Gen

/-! ### SVI -/

/-- SVI total variance at strike `k`, as coded -/
noncomputable def sviVar (a b ρ m σ f k : ℝ) : ℝ :=
  a + b * (ρ * (Real.log (f / k) - m) + Real.sqrt ((Real.log (f / k) - m) ^ 2 + σ * σ))

theorem svi_eq_sqrt_var (a b ρ m σ f k t : ℝ) : VolR.svi a b ρ m σ f k t = Real.sqrt (sviVar a b ρ m σ f k / t) := by
  simp only [VolR.svi, sviVar]

/-- the SVI "wing" function is bounded below by `|σ|√(1−ρ²)` (Cauchy–Schwarz) -/
theorem svi_wing_lower_bound (ρ σ y : ℝ) (hρ : |ρ| ≤ 1) :
    |σ| * Real.sqrt (1 - ρ ^ 2) ≤ ρ * y + Real.sqrt (y ^ 2 + σ * σ) := by
  have hρ2 : ρ ^ 2 ≤ 1 := by
    have := abs_le.mp hρ
    nlinarith [this.1, this.2]
  have hr0 : 0 ≤ 1 - ρ ^ 2 := by linarith
  set r := Real.sqrt (1 - ρ ^ 2) with hr
  have hrr : r * r = 1 - ρ ^ 2 := Real.mul_self_sqrt hr0
  have hrn : 0 ≤ r := Real.sqrt_nonneg _
  have hss : |σ| * |σ| = σ * σ := abs_mul_abs_self σ
  have hsn : 0 ≤ |σ| := abs_nonneg σ
  -- (|σ| r − ρ y)² ≤ y² + σ²
  have hcs : (|σ| * r - ρ * y) ^ 2 ≤ y ^ 2 + σ * σ := by
    have : y ^ 2 + σ * σ - (|σ| * r - ρ * y) ^ 2 = (|σ| * ρ + r * y) ^ 2 := by
      have e1 : (|σ| * r) ^ 2 = (σ * σ) * (1 - ρ ^ 2) := by rw [mul_pow, sq, sq, hss, hrr]
      have e2 : (|σ| * ρ) ^ 2 = (σ * σ) * ρ ^ 2 := by rw [mul_pow, sq |σ|, hss]
      have e3 : (r * y) ^ 2 = (1 - ρ ^ 2) * y ^ 2 := by rw [mul_pow, sq r, hrr]
      nlinarith [e1, e2, e3]
    nlinarith [sq_nonneg (|σ| * ρ + r * y)]
  have h1 : |σ| * r - ρ * y ≤ Real.sqrt (y ^ 2 + σ * σ) :=
    le_trans (le_abs_self _) (Real.abs_le_sqrt hcs)
  linarith

/-- C04: with b ≥ 0 and |ρ| ≤ 1 the SVI total variance at EVERY strike is at least `a + b·|σ|·√(1−ρ²)`. -/
theorem svi_variance_lower_bound (a b ρ m σ f k : ℝ) (hb : 0 ≤ b) (hρ : |ρ| ≤ 1) :
    a + b * (|σ| * Real.sqrt (1 - ρ ^ 2)) ≤ sviVar a b ρ m σ f k := by
  unfold sviVar
  have := mul_le_mul_of_nonneg_left (svi_wing_lower_bound ρ σ (Real.log (f / k) - m) hρ) hb
  linarith

/-- the minimising log-moneyness offset -/
noncomputable def sviArgMin (ρ σ : ℝ) : ℝ := -(ρ * |σ|) / Real.sqrt (1 - ρ ^ 2)

/-- C04: for |ρ| < 1 the bound is attained: at the strike `k = f·exp(−(m + y*))`, `y* = −ρ|σ|/√(1−ρ²)`, the total variance is
exactly `a + b·|σ|·√(1−ρ²)`. -/
theorem svi_variance_at_min (a b ρ m σ f : ℝ) (hρ : |ρ| < 1) (hf : 0 < f) :
    sviVar a b ρ m σ f (f * Real.exp (-(m + sviArgMin ρ σ))) = a + b * (|σ| * Real.sqrt (1 - ρ ^ 2)) := by
  have hρ2 : ρ ^ 2 < 1 := by
    have := abs_lt.mp hρ
    nlinarith [this.1, this.2]
  have hr0 : 0 < 1 - ρ ^ 2 := by linarith
  set r := Real.sqrt (1 - ρ ^ 2) with hr
  have hrpos : 0 < r := Real.sqrt_pos.mpr hr0
  have hrr : r * r = 1 - ρ ^ 2 := Real.mul_self_sqrt hr0.le
  have hss : |σ| * |σ| = σ * σ := abs_mul_abs_self σ
  have hlog : Real.log (f / (f * Real.exp (-(m + sviArgMin ρ σ)))) - m = sviArgMin ρ σ := by
    have : f / (f * Real.exp (-(m + sviArgMin ρ σ))) = Real.exp (m + sviArgMin ρ σ) := by
      rw [Real.exp_neg]; field_simp
    rw [this, Real.log_exp]; ring
  unfold sviVar
  rw [hlog]
  have hy : sviArgMin ρ σ = -(ρ * |σ|) / r := rfl
  have hsq : sviArgMin ρ σ ^ 2 + σ * σ = (|σ| / r) ^ 2 := by
    rw [hy, div_pow, div_pow, ← hss]
    field_simp
    nlinarith [hrr]
  rw [hsq, Real.sqrt_sq (div_nonneg (abs_nonneg σ) hrpos.le), hy]
  congr 1
  congr 1
  field_simp
  linear_combination (-|σ|) * hrr

/-- C04 (SVI positivity domain, exact): for b ≥ 0, |ρ| < 1, f > 0 the coded total variance is ≥ 0 at every strike k > 0
if and only if `a + b·|σ|·√(1−ρ²) ≥ 0`. -/
theorem svi_positivity_condition_exact (a b ρ m σ f : ℝ) (hb : 0 ≤ b) (hρ : |ρ| < 1) (hf : 0 < f) :
    (∀ k, 0 < k → 0 ≤ sviVar a b ρ m σ f k) ↔ 0 ≤ a + b * (|σ| * Real.sqrt (1 - ρ ^ 2)) := by
  constructor
  · intro h
    have := h (f * Real.exp (-(m + sviArgMin ρ σ))) (by positivity)
    rwa [svi_variance_at_min a b ρ m σ f hρ hf] at this
  · intro h k _
    exact le_trans h (svi_variance_lower_bound a b ρ m σ f k hb hρ.le)

/-- C04: `a + b|σ|√(1−ρ²) > 0`, b ≥ 0, |ρ| ≤ 1, t > 0 ⇒ the vol SVI returns is strictly positive at every strike
(`a` itself may be negative). -/
theorem svi_vol_pos_of_min_variance_pos (a b ρ m σ f k t : ℝ) (hb : 0 ≤ b) (hρ : |ρ| ≤ 1) (ht : 0 < t)
    (hmin : 0 < a + b * (|σ| * Real.sqrt (1 - ρ ^ 2))) : 0 < VolR.svi a b ρ m σ f k t := by
  rw [svi_eq_sqrt_var]
  exact Real.sqrt_pos.mpr (div_pos (lt_of_lt_of_le hmin (svi_variance_lower_bound a b ρ m σ f k hb hρ)) ht)

/-- C04: if the condition fails, at the minimising strike the code takes the square root of a negative number: the real
model gives 0 (IEEE gives NaN) — in either reading not a strictly positive vol. -/
theorem svi_vol_zero_at_min_of_neg (a b ρ m σ f t : ℝ) (hρ : |ρ| < 1) (hf : 0 < f) (ht : 0 < t)
    (hneg : a + b * (|σ| * Real.sqrt (1 - ρ ^ 2)) < 0) :
    VolR.svi a b ρ m σ f (f * Real.exp (-(m + sviArgMin ρ σ))) t = 0 := by
  rw [svi_eq_sqrt_var, svi_variance_at_min a b ρ m σ f hρ hf]
  exact Real.sqrt_eq_zero_of_nonpos (div_nonpos_of_nonpos_of_nonneg hneg.le ht.le)

/-- non-vacuity: a = −0.01 < 0 but a + b|σ|√(1−ρ²) = −0.01 + 0.5·0.1·√(1 − 0.36) = 0.03 > 0 -/
example (m f k t : ℝ) (ht : 0 < t) : 0 < VolR.svi (-0.01) 0.5 0.6 m 0.1 f k t := by
  apply svi_vol_pos_of_min_variance_pos _ _ _ _ _ _ _ _ (by norm_num) (by rw [abs_of_nonneg] <;> norm_num) ht
  have h : Real.sqrt (1 - (0.6 : ℝ) ^ 2) = 0.8 := by
    rw [show (1 - (0.6 : ℝ) ^ 2) = 0.8 ^ 2 by norm_num]; exact Real.sqrt_sq (by norm_num)
  rw [h, abs_of_nonneg (by norm_num : (0 : ℝ) ≤ 0.1)]
  norm_num

/-! ### BBG -/

/-- the delta at which the BBG quadratic is evaluated, as coded (`N(d₁)` with the vol `p₀/4 + p₁/2 + p₂`) -/
noncomputable def bbgDelta (p0 p1 p2 f k t : ℝ) : ℝ :=
  let sig := (((0 : ℝ) + p0 * (0.5 : ℝ) ^ 2) + p1 * (0.5 : ℝ) ^ 1) + p2 * (0.5 : ℝ) ^ 0
  VolR.N (Real.log (f / k) / (sig * Real.sqrt t) + sig * Real.sqrt t / 2)

theorem bbg_eq_quadratic (p0 p1 p2 f k t : ℝ) :
    VolR.bbg3 p0 p1 p2 f k t = p0 * bbgDelta p0 p1 p2 f k t ^ 2 + p1 * bbgDelta p0 p1 p2 f k t + p2 := by
  simp only [VolR.bbg3, bbgDelta]
  ring

/-- completing the square: `4p₀·v = (2p₀Δ + p₁)² − (p₁² − 4p₀p₂)` -/
theorem bbg_four_p0_mul (p0 p1 p2 f k t : ℝ) :
    4 * p0 * VolR.bbg3 p0 p1 p2 f k t
      = (2 * p0 * bbgDelta p0 p1 p2 f k t + p1) ^ 2 - (p1 ^ 2 - 4 * p0 * p2) := by
  rw [bbg_eq_quadratic]; ring

/-- C04 (BBG negativity region, exact, p₀ > 0): the returned vol is negative iff Δ lies strictly between the roots. -/
theorem bbg_negative_iff_of_pos (p0 p1 p2 f k t : ℝ) (hp : 0 < p0) :
    VolR.bbg3 p0 p1 p2 f k t < 0 ↔ (2 * p0 * bbgDelta p0 p1 p2 f k t + p1) ^ 2 < p1 ^ 2 - 4 * p0 * p2 := by
  have h := bbg_four_p0_mul p0 p1 p2 f k t
  constructor
  · intro hv; nlinarith
  · intro hd
    by_contra hc
    push Not at hc
    nlinarith [mul_nonneg hp.le hc]

/-- (p₀ < 0): negative iff Δ lies strictly outside the roots (or there are none) -/
theorem bbg_negative_iff_of_neg (p0 p1 p2 f k t : ℝ) (hp : p0 < 0) :
    VolR.bbg3 p0 p1 p2 f k t < 0 ↔ p1 ^ 2 - 4 * p0 * p2 < (2 * p0 * bbgDelta p0 p1 p2 f k t + p1) ^ 2 := by
  have h := bbg_four_p0_mul p0 p1 p2 f k t
  constructor
  · intro hv; nlinarith [mul_pos_of_neg_of_neg hp hv]
  · intro hd
    by_contra hc
    push Not at hc
    nlinarith [mul_nonpos_of_nonpos_of_nonneg hp.le hc]

/-- (p₀ = 0): the smile is linear in Δ -/
theorem bbg_negative_iff_of_zero (p1 p2 f k t : ℝ) :
    VolR.bbg3 0 p1 p2 f k t < 0 ↔ p1 * bbgDelta 0 p1 p2 f k t + p2 < 0 := by
  rw [bbg_eq_quadratic]; simp

/-- C04: p₀ > 0 and negative discriminant ⇒ the BBG vol is > 0 at EVERY strike and expiry (whatever `N` returns). -/
theorem bbg_pos_of_discriminant_neg (p0 p1 p2 f k t : ℝ) (hp : 0 < p0) (hd : p1 ^ 2 < 4 * p0 * p2) :
    0 < VolR.bbg3 p0 p1 p2 f k t := by
  have h := bbg_four_p0_mul p0 p1 p2 f k t
  have : 0 < 4 * p0 * VolR.bbg3 p0 p1 p2 f k t := by
    nlinarith [sq_nonneg (2 * p0 * bbgDelta p0 p1 p2 f k t + p1)]
  have h4 : 0 < 4 * p0 := by linarith
  exact (mul_pos_iff_of_pos_left h4).mp this

/-- C04: the family has no positivity guard: parameters (0, 0, −1) give −1 at every strike and expiry. -/
theorem bbg_can_be_negative (f k t : ℝ) : VolR.bbg3 0 0 (-1) f k t = -1 := by
  rw [bbg_eq_quadratic]; ring

/-- non-vacuity of the sufficient condition: (p₀, p₁, p₂) = (0.5, −0.5, 0.3): 0.25 < 0.6 -/
example (f k t : ℝ) : 0 < VolR.bbg3 0.5 (-0.5) 0.3 f k t :=
  bbg_pos_of_discriminant_neg _ _ _ f k t (by norm_num) (by norm_num)

/-! ### SSVI -/

/-- C04: the SSVI vol is ≥ 0 (√ of a clamped variance) … -/
theorem vol_ssvi_nonneg (p0 p1 p2 f k t : ℝ) : 0 ≤ VolR.vol_ssvi p0 p1 p2 f k t := by
  simp only [VolR.vol_ssvi]
  exact Real.sqrt_nonneg _

/-- … but it is exactly 0, not a positive vol, wherever the local variance `ssvi_local_varg` is ≤ 0 (the clamp hides it). -/
theorem vol_ssvi_zero_of_nonpos_local_var (p0 p1 p2 f k t : ℝ)
    (h : VolR.ssvi_local_varg (Real.log (f / k)) p0 p1 p2 t ≤ 0) : VolR.vol_ssvi p0 p1 p2 f k t = 0 := by
  simp only [VolR.vol_ssvi, max_eq_right h, Real.sqrt_zero]

theorem vol_ssvi_pos_iff (p0 p1 p2 f k t : ℝ) :
    0 < VolR.vol_ssvi p0 p1 p2 f k t ↔ 0 < VolR.ssvi_local_varg (Real.log (f / k)) p0 p1 p2 t := by
  simp only [VolR.vol_ssvi]
  rw [Real.sqrt_pos]
  exact lt_max_iff.trans (by simp)

end FinVerif.Props.C04
