/-
  C05 (part a) — structure of the coded normal cdf, the tie between the two generated real models, and the
  algebraic relations: put–call parity (Black–Scholes, Black-76, shifted Black, Bachelier) and the digital
  relations.  Everything is about the GENERATED definitions in `Gen/BSR.lean` (the code's own Hull `N`) and
  `Gen/BSP.lean` (same source, cdf/pdf abstracted to `Ncdf npdf`).
-/
import FinVerif.Gen.BSR
import FinVerif.Gen.BSP
import FinVerif.Lemmas.C05

set_option linter.unusedVariables false
set_option linter.unusedSimpArgs false

namespace FinVerif.Props.C05
open FinVerif FinVerif.Gen FinVerif.C05

/-! ### the coded `N` -/

/-- C05: `N(x) + N(−x) = 1` for every `x ≠ 0` — by the code's own `1 − N(−x)` branch. -/
theorem N_symm (x : ℝ) (hx : x ≠ 0) : BSR.N x + BSR.N (-x) = 1 := by
  rcases lt_or_gt_of_ne hx with h | h
  · have h1 : ¬ (x ≥ 0) := not_le.mpr h
    have h2 : (-x ≥ 0) := by linarith
    simp only [BSR.N, BSR.N_fuel, h1, h2, decide_false, decide_true, neg_neg]
    simp
  · have h1 : (x ≥ 0) := le_of_lt h
    have h2 : ¬ (-x ≥ 0) := by intro h'; linarith
    simp only [BSR.N, BSR.N_fuel, h1, h2, decide_false, decide_true, neg_neg]
    simp

/-- C05: at 0 the symmetry FAILS for the coded polynomial: `N 0 + N 0 ≠ 1` (off by 1.05e-9). -/
theorem N_zero_not_symm : BSR.N 0 + BSR.N (-0) ≠ 1 := by
  simp only [BSR.N, BSR.N_fuel]
  norm_num

/-- C05: the coded density is `c·exp(−x²/2)` with the code's literal `c`. -/
theorem nprime_form (x : ℝ) : BSR.nprime x = (0.3989422804014327 : ℝ) * Real.exp (-(x * x) / 2) := by
  unfold BSR.nprime
  rw [mul_comm]; congr 2; ring

/-! ### `Gen/BSP` is the generated code: instantiating its parameters with the code's `N`, `nprime` gives `Gen/BSR`
(so a theorem about `BSP.f Φ φ` for all `Φ φ` is a theorem about the source text, with only the calls of
`N / n_vect` and `nprime / n_prime_vect` abstracted). -/

theorem tie_bs_value (s t k r q v : ℝ) (ty : Int) : BSP.bs_value BSR.N s t k r q v ty = BSR.bs_value s t k r q v ty := rfl
theorem tie_bs_delta (s t k r q v : ℝ) (ty : Int) : BSP.bs_delta BSR.N s t k r q v ty = BSR.bs_delta s t k r q v ty := rfl
theorem tie_bs_gamma (s t k r q v : ℝ) (ty : Int) : BSP.bs_gamma BSR.nprime s t k r q v ty = BSR.bs_gamma s t k r q v ty := rfl
theorem tie_bs_vega (s t k r q v : ℝ) (ty : Int) : BSP.bs_vega BSR.nprime s t k r q v ty = BSR.bs_vega s t k r q v ty := rfl
theorem tie_bs_theta (s t k r q v : ℝ) (ty : Int) : BSP.bs_theta BSR.N BSR.nprime s t k r q v ty = BSR.bs_theta s t k r q v ty := rfl
theorem tie_bs_rho (s t k r q v : ℝ) (ty : Int) : BSP.bs_rho BSR.N s t k r q v ty = BSR.bs_rho s t k r q v ty := rfl
theorem tie_bs_vanna (s t k r q v : ℝ) (ty : Int) : BSP.bs_vanna BSR.nprime s t k r q v ty = BSR.bs_vanna s t k r q v ty := rfl
theorem tie_black_value (f t k r v : ℝ) (ty : Int) : BSP.black_value BSR.N f t k r v ty = BSR.black_value f t k r v ty := rfl
theorem tie_black_delta (f t k r v : ℝ) (ty : Int) : BSP.black_delta BSR.N f t k r v ty = BSR.black_delta f t k r v ty := rfl
theorem tie_black_gamma (f t k r v : ℝ) (ty : Int) : BSP.black_gamma BSR.nprime f t k r v ty = BSR.black_gamma f t k r v ty := rfl
theorem tie_black_vega (f t k r v : ℝ) (ty : Int) : BSP.black_vega BSR.nprime f t k r v ty = BSR.black_vega f t k r v ty := rfl
theorem tie_black_theta (f t k r v : ℝ) (ty : Int) : BSP.black_theta BSR.N BSR.nprime f t k r v ty = BSR.black_theta f t k r v ty := rfl
theorem tie_black_shifted (f k t df sh vol : ℝ) (ty : Int) :
    BSP.black_shifted_value BSR.N f k t df ty sh vol = BSR.black_shifted_value f k t df ty sh vol := rfl
theorem tie_digital (s t df dq b vol : ℝ) (cp dt : Int) :
    BSP.digital_value BSR.N s t df dq b vol cp dt = BSR.digital_value s t df dq b vol cp dt := rfl

/-! ### closed forms ("shape lemmas") of the generated Black–Scholes value -/

/-- discounted spot, discounted strike, total volatility exactly as the code forms them (clamps included) -/
noncomputable def ssOf (s t q : ℝ) : ℝ := s * Real.exp (-q * max t 1e-12)
noncomputable def kkOf (k t r : ℝ) : ℝ := max k 1e-12 * Real.exp (-r * max t 1e-12)
noncomputable def wOf (t v : ℝ) : ℝ := max v 1e-12 * Real.sqrt (max t 1e-12)
noncomputable def d1Of (s t k r q v : ℝ) : ℝ := D1 (ssOf s t q) (kkOf k t r) (wOf t v)
noncomputable def d2Of (s t k r q v : ℝ) : ℝ := d1Of s t k r q v - wOf t v

/-- the code's `phi` -/
def eps (ty : Int) : ℝ := if ty = 1 then 1 else -1

theorem eps_cases {ty : Int} (h : ty = 1 ∨ ty = 2) : eps ty = 1 ∨ eps ty = -1 := by
  rcases h with rfl | rfl <;> simp [eps]

theorem eps_one : eps 1 = 1 := by simp [eps]
theorem eps_two : eps 2 = -1 := by simp [eps]

theorem bs_value_shape (Φ : ℝ → ℝ) (s t k r q v : ℝ) {ty : Int} (h : ty = 1 ∨ ty = 2) :
    BSP.bs_value Φ s t k r q v ty
      = .ok (ssOf s t q * flipN (eps ty) Φ (d1Of s t k r q v) - kkOf k t r * flipN (eps ty) Φ (d2Of s t k r q v)) := by
  rcases h with rfl | rfl
  · simp only [BSP.bs_value, flipN, eps_one, ssOf, kkOf, wOf, d1Of, d2Of, D1]
    simp
  · simp only [BSP.bs_value, flipN, eps_two, ssOf, kkOf, wOf, d1Of, d2Of, D1]
    simp only [decide_eq_true_eq, show ¬ ((2 : Int) = 1) by decide, if_false, if_true]
    congr 1; ring

theorem bs_value_error (Φ : ℝ → ℝ) (s t k r q v : ℝ) {ty : Int} (h1 : ty ≠ 1) (h2 : ty ≠ 2) :
    BSP.bs_value Φ s t k r q v ty = .error .finError := by
  simp [BSP.bs_value, h1, h2]

/-! ### put–call parity -/

/-- The full statement (all inputs) — FALSE for the coded `N`, see `bs_parity_full_false`. -/
def BsParityFull : Prop := ∀ s t k r q v : ℝ,
  okVal (BSR.bs_value s t k r q v 1) - okVal (BSR.bs_value s t k r q v 2) = ssOf s t q - kkOf k t r

/-- C05: put–call parity of the coded Black–Scholes value for ANY cdf that is symmetric at d₁ and d₂. -/
theorem bs_put_call_parity_gen (Φ : ℝ → ℝ) (s t k r q v : ℝ)
    (h1 : Φ (d1Of s t k r q v) + Φ (-d1Of s t k r q v) = 1)
    (h2 : Φ (d2Of s t k r q v) + Φ (-d2Of s t k r q v) = 1) :
    okVal (BSP.bs_value Φ s t k r q v 1) - okVal (BSP.bs_value Φ s t k r q v 2) = ssOf s t q - kkOf k t r := by
  rw [bs_value_shape Φ s t k r q v (Or.inl rfl), bs_value_shape Φ s t k r q v (Or.inr rfl)]
  simp only [okVal_ok, flipN, eps]
  norm_num
  linear_combination ssOf s t q * h1 - kkOf k t r * h2

/-- C05: parity for the code's own `N`, under the hypothesis the proof forces (d₁ ≠ 0, d₂ ≠ 0). -/
theorem bs_put_call_parity_partial (s t k r q v : ℝ) (hd1 : d1Of s t k r q v ≠ 0) (hd2 : d2Of s t k r q v ≠ 0) :
    okVal (BSR.bs_value s t k r q v 1) - okVal (BSR.bs_value s t k r q v 2) = ssOf s t q - kkOf k t r := by
  rw [← tie_bs_value, ← tie_bs_value]
  exact bs_put_call_parity_gen BSR.N s t k r q v (N_symm _ hd1) (N_symm _ hd2)

/-- in the property's domain the clamps are inactive: the right-hand side is `S e^{−qT} − K e^{−rT}` -/
theorem bs_put_call_parity_domain (s t k r q v : ℝ) (ht : 1e-12 ≤ t) (hk : 1e-12 ≤ k)
    (hd1 : d1Of s t k r q v ≠ 0) (hd2 : d2Of s t k r q v ≠ 0) :
    okVal (BSR.bs_value s t k r q v 1) - okVal (BSR.bs_value s t k r q v 2)
      = s * Real.exp (-q * t) - k * Real.exp (-r * t) := by
  rw [bs_put_call_parity_partial s t k r q v hd1 hd2, ssOf, kkOf, max_eq_left ht, max_eq_left hk]

example : d1Of 1 1 1 0 0 1 ≠ 0 ∧ d2Of 1 1 1 0 0 1 ≠ 0 := by
  simp only [d1Of, d2Of, D1, ssOf, kkOf, wOf]
  norm_num

/-- C05 counterexample: at S=K=1, q=0, T=1, σ=1/2, r=σ²/2=1/8 (inside the property's domain) d₂ = 0 and the
coded call − put differs from `S e^{−qT} − K e^{−rT}` (by `K e^{−rT}·(1 − 2N(0))` ≈ 1e-9). -/
theorem bs_parity_full_false : ¬ BsParityFull := by
  intro h
  have := h 1 1 1 (1/8) 0 (1/2)
  rw [← tie_bs_value, ← tie_bs_value, bs_value_shape _ _ _ _ _ _ _ (Or.inl rfl),
    bs_value_shape _ _ _ _ _ _ _ (Or.inr rfl)] at this
  have hd2 : d2Of 1 1 1 (1/8) 0 (1/2) = 0 := by
    simp only [d1Of, d2Of, D1, ssOf, kkOf, wOf]
    norm_num [Real.log_exp]
  have hd1 : d1Of 1 1 1 (1/8) 0 (1/2) ≠ 0 := by
    have : d1Of 1 1 1 (1/8) 0 (1/2) = wOf 1 (1/2) := by
      have := hd2; unfold d2Of at this; linarith
    rw [this]; simp only [wOf]; norm_num
  have hs := N_symm _ hd1
  simp only [okVal_ok, flipN, eps, hd2] at this
  norm_num at this
  have hk : kkOf 1 1 (1/8) ≠ 0 := by simp only [kkOf]; norm_num
  have h0 : BSR.N 0 + BSR.N 0 = 1 := by
    have e : kkOf 1 1 (1/8) * (BSR.N 0 + BSR.N 0 - 1) = 0 := by
      linear_combination (-1) * this + ssOf 1 1 0 * hs
    rcases mul_eq_zero.mp e with h' | h'
    · exact absurd h' hk
    · linarith
  exact N_zero_not_symm (by simpa using h0)

end FinVerif.Props.C05
