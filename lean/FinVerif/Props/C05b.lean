/-
  C05 (part b) — every Black–Scholes Greek as coded is the corresponding derivative of the coded value.
  Statements are about `Gen/BSP` (the generated source with the cdf/pdf calls abstracted) for EVERY pair (Φ, φ)
  with Φ' = φ, φ(x) = c·exp(−x²/2); `IsStdNormal Φ φ` is the special case c = 1/√(2π).
  The clamps `max(·, 1e-12)` of the code are part of the statements; a parameter that is differentiated must be
  strictly above its clamp (otherwise the coded value is locally constant in it).
-/
import FinVerif.Props.C05a

set_option linter.unusedVariables false
set_option linter.unusedSimpArgs false

namespace FinVerif.Props.C05
open FinVerif FinVerif.Gen FinVerif.C05

variable {Φ φ : ℝ → ℝ} {c : ℝ}

theorem ssOf_pos {s : ℝ} (hs : 0 < s) (t q : ℝ) : 0 < ssOf s t q := mul_pos hs (Real.exp_pos _)
theorem kkOf_pos (k t r : ℝ) : 0 < kkOf k t r :=
  mul_pos (lt_of_lt_of_le (by norm_num) (le_max_right k 1e-12)) (Real.exp_pos _)
theorem wOf_pos (t v : ℝ) : 0 < wOf t v :=
  mul_pos (lt_of_lt_of_le (by norm_num) (le_max_right v 1e-12))
    (Real.sqrt_pos.mpr (lt_of_lt_of_le (by norm_num) (le_max_right t 1e-12)))

/-- C05 key identity on the code's own quantities: `S e^{−qT} φ(d₁) = K e^{−rT} φ(d₂)`. -/
theorem bs_key_identity (h : IsGaussPair Φ φ c) {s : ℝ} (hs : 0 < s) (t k r q v : ℝ) :
    ssOf s t q * φ (d1Of s t k r q v) = kkOf k t r * φ (d2Of s t k r q v) :=
  key_identity h (ssOf_pos hs t q) (kkOf_pos k t r) (wOf_pos t v).ne'

/-- for the code's own density `nprime` (any antiderivative Φ of it): no replacement of `nprime` needed -/
theorem bs_key_identity_coded {s : ℝ} (hs : 0 < s) (t k r q v : ℝ) :
    ssOf s t q * BSR.nprime (d1Of s t k r q v) = kkOf k t r * BSR.nprime (d2Of s t k r q v) := by
  have e : ∀ x, BSR.nprime x = (0.3989422804014327 : ℝ) * Real.exp (-(x * x) / 2) := nprime_form
  have hL : Real.exp (Real.log (ssOf s t q / kkOf k t r)) = ssOf s t q / kkOf k t r :=
    Real.exp_log (div_pos (ssOf_pos hs t q) (kkOf_pos k t r))
  have hk := (kkOf_pos k t r).ne'
  have hw := (wOf_pos t v).ne'
  have e2 : -(d2Of s t k r q v * d2Of s t k r q v) / 2
      = -(d1Of s t k r q v * d1Of s t k r q v) / 2 + Real.log (ssOf s t q / kkOf k t r) := by
    unfold d2Of d1Of D1; field_simp; ring
  rw [e, e, e2, Real.exp_add, hL]
  field_simp

/-! ### shape lemmas of the coded Greeks -/

theorem bs_delta_shape (Φ : ℝ → ℝ) (s t k r q v : ℝ) {ty : Int} (h : ty = 1 ∨ ty = 2) :
    BSP.bs_delta Φ s t k r q v ty
      = .ok (Real.exp (-q * max t 1e-12) * flipN (eps ty) Φ (d1Of s t k r q v)) := by
  rcases h with rfl | rfl
  · simp only [BSP.bs_delta, flipN, eps_one, ssOf, kkOf, wOf, d1Of, d2Of, D1]
    simp
  · simp only [BSP.bs_delta, flipN, eps_two, ssOf, kkOf, wOf, d1Of, d2Of, D1]
    simp only [decide_eq_true_eq, show ¬ ((2 : Int) = 1) by decide, if_false, if_true]
    congr 1; ring

theorem bs_rho_shape (Φ : ℝ → ℝ) (s t k r q v : ℝ) {ty : Int} (h : ty = 1 ∨ ty = 2) :
    BSP.bs_rho Φ s t k r q v ty
      = .ok (max t 1e-12 * kkOf k t r * flipN (eps ty) Φ (d2Of s t k r q v)) := by
  rcases h with rfl | rfl
  · simp only [BSP.bs_rho, flipN, eps_one, ssOf, kkOf, wOf, d1Of, d2Of, D1]
    simp only [decide_eq_true_eq, eq_self_iff_true, if_true]
    congr 1; ring
  · simp only [BSP.bs_rho, flipN, eps_two, ssOf, kkOf, wOf, d1Of, d2Of, D1]
    simp only [decide_eq_true_eq, show ¬ ((2 : Int) = 1) by decide, if_false, if_true]
    congr 1; ring

theorem bs_theta_shape (Φ φ : ℝ → ℝ) (s t k r q v : ℝ) {ty : Int} (h : ty = 1 ∨ ty = 2) :
    BSP.bs_theta Φ φ s t k r q v ty
      = .ok (-(ssOf s t q) * φ (d1Of s t k r q v) * max v 1e-12 / 2 / Real.sqrt (max t 1e-12)
              - r * kkOf k t r * flipN (eps ty) Φ (d2Of s t k r q v)
              + q * ssOf s t q * flipN (eps ty) Φ (d1Of s t k r q v)) := by
  rcases h with rfl | rfl
  · simp only [BSP.bs_theta, flipN, eps_one, ssOf, kkOf, wOf, d1Of, d2Of, D1]
    simp only [decide_eq_true_eq, eq_self_iff_true, if_true]
    congr 1; ring
  · simp only [BSP.bs_theta, flipN, eps_two, ssOf, kkOf, wOf, d1Of, d2Of, D1]
    simp only [decide_eq_true_eq, show ¬ ((2 : Int) = 1) by decide, if_false, if_true]
    congr 1; ring

theorem bs_gamma_shape (φ : ℝ → ℝ) (s t k r q v : ℝ) (ty : Int) :
    BSP.bs_gamma φ s t k r q v ty = Real.exp (-q * max t 1e-12) * φ (d1Of s t k r q v) / s / wOf t v := by
  simp only [BSP.bs_gamma, ssOf, kkOf, wOf, d1Of, D1]

theorem bs_vega_shape (φ : ℝ → ℝ) (s t k r q v : ℝ) (ty : Int) :
    BSP.bs_vega φ s t k r q v ty = ssOf s t q * Real.sqrt (max t 1e-12) * φ (d1Of s t k r q v) := by
  simp only [BSP.bs_vega, ssOf, kkOf, wOf, d1Of, D1]

/-! ### the value as a function of one parameter, in the form of the master lemma -/

theorem bs_value_ok (Φ : ℝ → ℝ) (s t k r q v : ℝ) {ty : Int} (h : ty = 1 ∨ ty = 2) :
    okVal (BSP.bs_value Φ s t k r q v ty)
      = ssOf s t q * flipN (eps ty) Φ (D1 (ssOf s t q) (kkOf k t r) (wOf t v))
        - kkOf k t r * flipN (eps ty) Φ (D1 (ssOf s t q) (kkOf k t r) (wOf t v) - wOf t v) := by
  rw [bs_value_shape Φ s t k r q v h]; rfl

/-- C05: **delta** as coded = ∂(coded value)/∂S, for every S > 0 and all other inputs (clamps included). -/
theorem bs_delta_is_derivative (h : IsGaussPair Φ φ c) {s : ℝ} (hs : 0 < s) (t k r q v : ℝ) {ty : Int}
    (hty : ty = 1 ∨ ty = 2) :
    HasDerivAt (fun x => okVal (BSP.bs_value Φ x t k r q v ty)) (okVal (BSP.bs_delta Φ s t k r q v ty)) s := by
  have hg := h.flipN (eps_cases hty)
  have ha : HasDerivAt (fun x => ssOf x t q) (Real.exp (-q * max t 1e-12)) s := by
    simpa [ssOf] using (hasDerivAt_id s).mul_const (Real.exp (-q * max t 1e-12))
  have := hasDerivAt_blackForm hg ha (hasDerivAt_const s (kkOf k t r)) (hasDerivAt_const s (wOf t v))
    (ssOf_pos hs t q) (kkOf_pos k t r) (wOf_pos t v).ne'
  have e : (fun x => okVal (BSP.bs_value Φ x t k r q v ty)) = fun x =>
      ssOf x t q * flipN (eps ty) Φ (D1 (ssOf x t q) (kkOf k t r) (wOf t v))
        - kkOf k t r * flipN (eps ty) Φ (D1 (ssOf x t q) (kkOf k t r) (wOf t v) - wOf t v) := by
    funext x; exact bs_value_ok Φ x t k r q v hty
  rw [e, bs_delta_shape Φ s t k r q v hty]
  refine this.congr_deriv ?_
  simp only [okVal_ok, d1Of]
  ring

/-- C05: **gamma** as coded = ∂(coded delta)/∂S. -/
theorem bs_gamma_is_derivative (h : IsGaussPair Φ φ c) {s : ℝ} (hs : 0 < s) (t k r q v : ℝ) {ty : Int}
    (hty : ty = 1 ∨ ty = 2) :
    HasDerivAt (fun x => okVal (BSP.bs_delta Φ x t k r q v ty)) (BSP.bs_gamma φ s t k r q v ty) s := by
  have hg := h.flipN (eps_cases hty)
  have hw := (wOf_pos t v).ne'
  have hk := (kkOf_pos k t r).ne'
  have hss : ssOf s t q / kkOf k t r ≠ 0 := (div_pos (ssOf_pos hs t q) (kkOf_pos k t r)).ne'
  have ha : HasDerivAt (fun x => ssOf x t q) (Real.exp (-q * max t 1e-12)) s := by
    simpa [ssOf] using (hasDerivAt_id s).mul_const (Real.exp (-q * max t 1e-12))
  have hd1 : HasDerivAt (fun x => d1Of x t k r q v)
      (Real.exp (-q * max t 1e-12) / kkOf k t r / (ssOf s t q / kkOf k t r) / wOf t v) s := by
    unfold d1Of D1
    exact (((ha.div_const (kkOf k t r)).log hss).div_const (wOf t v)).add_const _
  have := ((hg.deriv _).comp s hd1).const_mul (Real.exp (-q * max t 1e-12))
  have e : (fun x => okVal (BSP.bs_delta Φ x t k r q v ty)) = fun x =>
      Real.exp (-q * max t 1e-12) * (flipN (eps ty) Φ ∘ fun x => d1Of x t k r q v) x := by
    funext x; rw [bs_delta_shape Φ x t k r q v hty]; rfl
  rw [e, bs_gamma_shape]
  refine this.congr_deriv ?_
  have hE : Real.exp (-q * max t 1e-12) ≠ 0 := (Real.exp_pos _).ne'
  unfold ssOf
  field_simp

/-- C05: **rho** as coded = ∂(coded value)/∂r. -/
theorem bs_rho_is_derivative (h : IsGaussPair Φ φ c) {s : ℝ} (hs : 0 < s) (t k r q v : ℝ) {ty : Int}
    (hty : ty = 1 ∨ ty = 2) :
    HasDerivAt (fun x => okVal (BSP.bs_value Φ s t k x q v ty)) (okVal (BSP.bs_rho Φ s t k r q v ty)) r := by
  have hg := h.flipN (eps_cases hty)
  have hb : HasDerivAt (fun x => kkOf k t x) (-(max t 1e-12) * kkOf k t r) r := by
    unfold kkOf
    have h1 : HasDerivAt (fun x : ℝ => -x * max t 1e-12) (-(max t 1e-12)) r := by
      simpa using ((hasDerivAt_id r).neg).mul_const (max t 1e-12)
    have := (h1.exp).const_mul (max k 1e-12)
    refine this.congr_deriv ?_
    ring
  have := hasDerivAt_blackForm hg (hasDerivAt_const r (ssOf s t q)) hb (hasDerivAt_const r (wOf t v))
    (ssOf_pos hs t q) (kkOf_pos k t r) (wOf_pos t v).ne'
  have e : (fun x => okVal (BSP.bs_value Φ s t k x q v ty)) = fun x =>
      ssOf s t q * flipN (eps ty) Φ (D1 (ssOf s t q) (kkOf k t x) (wOf t v))
        - kkOf k t x * flipN (eps ty) Φ (D1 (ssOf s t q) (kkOf k t x) (wOf t v) - wOf t v) := by
    funext x; exact bs_value_ok Φ s t k x q v hty
  rw [e, bs_rho_shape Φ s t k r q v hty]
  refine this.congr_deriv ?_
  simp only [okVal_ok, d1Of, d2Of]
  ring

/-- C05: **vega** as coded = ∂(coded value)/∂σ, for σ above the clamp. -/
theorem bs_vega_is_derivative (h : IsGaussPair Φ φ c) {s : ℝ} (hs : 0 < s) (t k r q : ℝ) {v : ℝ} (hv : 1e-12 < v)
    {ty : Int} (hty : ty = 1 ∨ ty = 2) :
    HasDerivAt (fun x => okVal (BSP.bs_value Φ s t k r q x ty)) (BSP.bs_vega φ s t k r q v ty) v := by
  have hg := h.flipN (eps_cases hty)
  have hmax : max v 1e-12 = v := max_eq_left hv.le
  have hw : HasDerivAt (fun x : ℝ => x * Real.sqrt (max t 1e-12)) (Real.sqrt (max t 1e-12)) v := by
    simpa using (hasDerivAt_id v).mul_const (Real.sqrt (max t 1e-12))
  have hwv : v * Real.sqrt (max t 1e-12) = wOf t v := by rw [wOf, hmax]
  have := hasDerivAt_blackForm hg (hasDerivAt_const v (ssOf s t q)) (hasDerivAt_const v (kkOf k t r)) hw
    (ssOf_pos hs t q) (kkOf_pos k t r) (by rw [hwv]; exact (wOf_pos t v).ne')
  have e : (fun x => okVal (BSP.bs_value Φ s t k r q x ty)) =ᶠ[nhds v] fun x =>
      ssOf s t q * flipN (eps ty) Φ (D1 (ssOf s t q) (kkOf k t r) (x * Real.sqrt (max t 1e-12)))
        - kkOf k t r * flipN (eps ty) Φ (D1 (ssOf s t q) (kkOf k t r) (x * Real.sqrt (max t 1e-12))
            - x * Real.sqrt (max t 1e-12)) := by
    filter_upwards [Ioi_mem_nhds hv] with x hx
    rw [bs_value_ok Φ s t k r q x hty, wOf, max_eq_left (le_of_lt hx)]
  refine (this.congr_of_eventuallyEq e).congr_deriv ?_
  rw [bs_vega_shape]
  have key := bs_key_identity h hs t k r q v
  simp only [d1Of, d2Of] at key
  simp only [d1Of, hwv]
  linear_combination (-Real.sqrt (max t 1e-12)) * key

/-- C05: **theta** as coded = −∂(coded value)/∂T (calendar-time decay per year), for T above the clamp. -/
theorem bs_theta_is_derivative (h : IsGaussPair Φ φ c) {s : ℝ} (hs : 0 < s) {t : ℝ} (ht : 1e-12 < t)
    (k r q v : ℝ) {ty : Int} (hty : ty = 1 ∨ ty = 2) :
    HasDerivAt (fun x => okVal (BSP.bs_value Φ s x k r q v ty)) (-(okVal (BSP.bs_theta Φ φ s t k r q v ty))) t := by
  have hg := h.flipN (eps_cases hty)
  have hmax : max t 1e-12 = t := max_eq_left ht.le
  have ht0 : 0 < t := lt_trans (by norm_num) ht
  have ha : HasDerivAt (fun x : ℝ => s * Real.exp (-q * x)) (-q * (s * Real.exp (-q * t))) t := by
    have h1 : HasDerivAt (fun x : ℝ => -q * x) (-q) t := by simpa using (hasDerivAt_id t).const_mul (-q)
    refine ((h1.exp).const_mul s).congr_deriv ?_; ring
  have hb : HasDerivAt (fun x : ℝ => max k 1e-12 * Real.exp (-r * x)) (-r * (max k 1e-12 * Real.exp (-r * t))) t := by
    have h1 : HasDerivAt (fun x : ℝ => -r * x) (-r) t := by simpa using (hasDerivAt_id t).const_mul (-r)
    refine ((h1.exp).const_mul (max k 1e-12)).congr_deriv ?_; ring
  have hw : HasDerivAt (fun x : ℝ => max v 1e-12 * Real.sqrt x) (max v 1e-12 * (1 / (2 * Real.sqrt t))) t := by
    have := ((hasDerivAt_id t).sqrt ht0.ne').const_mul (max v 1e-12)
    simpa using this
  have hss : s * Real.exp (-q * t) = ssOf s t q := by rw [ssOf, hmax]
  have hkk : max k 1e-12 * Real.exp (-r * t) = kkOf k t r := by rw [kkOf, hmax]
  have hww : max v 1e-12 * Real.sqrt t = wOf t v := by rw [wOf, hmax]
  have := hasDerivAt_blackForm hg ha hb hw (by rw [hss]; exact ssOf_pos hs t q) (by rw [hkk]; exact kkOf_pos k t r)
    (by rw [hww]; exact (wOf_pos t v).ne')
  have e : (fun x => okVal (BSP.bs_value Φ s x k r q v ty)) =ᶠ[nhds t] fun x =>
      s * Real.exp (-q * x) * flipN (eps ty) Φ (D1 (s * Real.exp (-q * x)) (max k 1e-12 * Real.exp (-r * x))
          (max v 1e-12 * Real.sqrt x))
        - max k 1e-12 * Real.exp (-r * x) * flipN (eps ty) Φ (D1 (s * Real.exp (-q * x))
            (max k 1e-12 * Real.exp (-r * x)) (max v 1e-12 * Real.sqrt x) - max v 1e-12 * Real.sqrt x) := by
    filter_upwards [Ioi_mem_nhds ht] with x hx
    rw [bs_value_ok Φ s x k r q v hty, ssOf, kkOf, wOf, max_eq_left (le_of_lt hx)]
  refine (this.congr_of_eventuallyEq e).congr_deriv ?_
  rw [bs_theta_shape Φ φ s t k r q v hty]
  have key := bs_key_identity h hs t k r q v
  simp only [d1Of, d2Of] at key
  simp only [okVal_ok, d1Of, d2Of, hss, hkk, hww, hmax]
  rw [← key]
  ring

end FinVerif.Props.C05
