/-
  C05 (part c) — the derivative of the coded delta in σ (what vanna must be), non-vacuity of the hypothesis bundle
  `IsGaussPair`, and the Greeks for the standard-normal pair / for the code's own density.  The statements about the
  DEFECT of the coded `bs_vanna` live in `Props/C05v.lean` (they stop building, by design, once the defect is repaired).
-/
import FinVerif.Props.C05b
import Mathlib.MeasureTheory.Integral.IntervalIntegral.FundThmCalculus

set_option linter.unusedVariables false
set_option linter.unusedSimpArgs false

namespace FinVerif.Props.C05
open FinVerif FinVerif.Gen FinVerif.C05

variable {Φ φ : ℝ → ℝ} {c : ℝ}

/-- Non-vacuity of the hypothesis bundle: for every constant `c` there is a pair (Φ, φ) with Φ' = φ = c·exp(−x²/2)
(Φ = ∫₀ˣ φ, fundamental theorem of calculus). -/
theorem exists_gaussPair (c : ℝ) : ∃ Φ φ : ℝ → ℝ, IsGaussPair Φ φ c := by
  refine ⟨fun x => ∫ u in (0 : ℝ)..x, c * Real.exp (-(u * u) / 2), fun x => c * Real.exp (-(x * x) / 2), ?_, fun x => rfl⟩
  intro x
  have hc : Continuous fun u : ℝ => c * Real.exp (-(u * u) / 2) := by fun_prop
  exact (hc.integral_hasStrictDerivAt 0 x).hasDerivAt

/-- the derivative of the coded delta with respect to σ ("true vanna" of the coded formulas) -/
noncomputable def vannaTrue (φ : ℝ → ℝ) (s t k r q v : ℝ) : ℝ :=
  -(Real.exp (-q * max t 1e-12) * φ (d1Of s t k r q v) * d2Of s t k r q v / max v 1e-12)

/-- C05: ∂(coded delta)/∂σ = −e^{−qT} φ(d₁) d₂/σ. -/
theorem bs_vanna_true_is_derivative (h : IsGaussPair Φ φ c) {s : ℝ} (hs : 0 < s) (t k r q : ℝ) {v : ℝ}
    (hv : 1e-12 < v) {ty : Int} (hty : ty = 1 ∨ ty = 2) :
    HasDerivAt (fun x => okVal (BSP.bs_delta Φ s t k r q x ty)) (vannaTrue φ s t k r q v) v := by
  have hg := h.flipN (eps_cases hty)
  have hmax : max v 1e-12 = v := max_eq_left hv.le
  have hv0 : v ≠ 0 := (lt_trans (by norm_num) hv).ne'
  have hsq : Real.sqrt (max t 1e-12) ≠ 0 :=
    (Real.sqrt_pos.mpr (lt_of_lt_of_le (by norm_num) (le_max_right t 1e-12))).ne'
  have hw : HasDerivAt (fun x : ℝ => x * Real.sqrt (max t 1e-12)) (Real.sqrt (max t 1e-12)) v := by
    simpa using (hasDerivAt_id v).mul_const (Real.sqrt (max t 1e-12))
  have hwv : v * Real.sqrt (max t 1e-12) ≠ 0 := mul_ne_zero hv0 hsq
  have hd1 : HasDerivAt (fun x : ℝ => D1 (ssOf s t q) (kkOf k t r) (x * Real.sqrt (max t 1e-12)))
      ((0 * (v * Real.sqrt (max t 1e-12)) - Real.log (ssOf s t q / kkOf k t r) * Real.sqrt (max t 1e-12))
          / (v * Real.sqrt (max t 1e-12)) ^ 2 + Real.sqrt (max t 1e-12) / 2) v := by
    unfold D1
    exact ((hasDerivAt_const v _).div hw hwv).add (hw.div_const 2)
  have := ((hg.deriv _).comp v hd1).const_mul (Real.exp (-q * max t 1e-12))
  have e : (fun x => okVal (BSP.bs_delta Φ s t k r q x ty)) =ᶠ[nhds v] fun x =>
      Real.exp (-q * max t 1e-12) * (flipN (eps ty) Φ ∘ fun x : ℝ =>
        D1 (ssOf s t q) (kkOf k t r) (x * Real.sqrt (max t 1e-12))) x := by
    filter_upwards [Ioi_mem_nhds hv] with x hx
    rw [bs_delta_shape Φ s t k r q x hty, d1Of, wOf, max_eq_left (le_of_lt hx : (1e-12 : ℝ) ≤ x)]; rfl
  refine (this.congr_of_eventuallyEq e).congr_deriv ?_
  simp only [vannaTrue, d2Of, d1Of, wOf, hmax, D1]
  field_simp
  ring

/-- the repaired formula proposed in fixes/C05-bs-vanna.diff:  −e^{−qT} φ(d₁) d₂/σ  is the derivative -/
example (h : IsGaussPair Φ φ c) : HasDerivAt (fun x => okVal (BSP.bs_delta Φ 100 1 105 0.03 0.01 x 1))
    (vannaTrue φ 100 1 105 0.03 0.01 0.25) 0.25 :=
  bs_vanna_true_is_derivative h (by norm_num) 1 105 0.03 0.01 (by norm_num) (Or.inl rfl)

/-! ### the Greeks for the standard normal pair and for the code's own density -/

/-- C05: under `IsStdNormal Φ φ` (Φ' = φ = exp(−x²/2)/√(2π), hypotheses) delta and vega as coded are the derivatives
of the coded value (the other Greeks follow in the same way from `IsStdNormal.gaussPair`). -/
theorem bs_delta_vega_stdNormal (h : IsStdNormal Φ φ) {s : ℝ} (hs : 0 < s) (t k r q : ℝ) {v : ℝ} (hv : 1e-12 < v)
    {ty : Int} (hty : ty = 1 ∨ ty = 2) :
    HasDerivAt (fun x => okVal (BSP.bs_value Φ x t k r q v ty)) (okVal (BSP.bs_delta Φ s t k r q v ty)) s ∧
    HasDerivAt (fun x => okVal (BSP.bs_value Φ s t k r q x ty)) (BSP.bs_vega φ s t k r q v ty) v :=
  ⟨bs_delta_is_derivative h.gaussPair hs t k r q v hty, bs_vega_is_derivative h.gaussPair hs t k r q hv hty⟩

/-- C05: with the code's OWN density `nprime` kept (only `N` replaced by an antiderivative Φ of `nprime`):
vega, gamma, theta as generated in `Gen/BSR` are the derivatives. -/
theorem bs_greeks_coded_density (hΦ : ∀ x, HasDerivAt Φ (BSR.nprime x) x) {s : ℝ} (hs : 0 < s) {t : ℝ}
    (ht : 1e-12 < t) (k r q : ℝ) {v : ℝ} (hv : 1e-12 < v) {ty : Int} (hty : ty = 1 ∨ ty = 2) :
    HasDerivAt (fun x => okVal (BSP.bs_value Φ s t k r q x ty)) (BSR.bs_vega s t k r q v ty) v ∧
    HasDerivAt (fun x => okVal (BSP.bs_delta Φ x t k r q v ty)) (BSR.bs_gamma s t k r q v ty) s ∧
    HasDerivAt (fun x => okVal (BSP.bs_value Φ s x k r q v ty))
      (-(okVal (BSP.bs_theta Φ BSR.nprime s t k r q v ty))) t := by
  have h : IsGaussPair Φ BSR.nprime 0.3989422804014327 := ⟨hΦ, nprime_form⟩
  exact ⟨by rw [← tie_bs_vega]; exact bs_vega_is_derivative h hs t k r q hv hty,
    by rw [← tie_bs_gamma]; exact bs_gamma_is_derivative h hs t k r q v hty,
    bs_theta_is_derivative h hs ht k r q v hty⟩

end FinVerif.Props.C05
