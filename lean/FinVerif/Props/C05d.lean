/-
  C05 (part d) — put–call parity of Black-76, shifted Black and Bachelier as coded; digital relations as coded.
  All statements are for an arbitrary cdf `Φ` that is symmetric at the two arguments that occur (for the code's own
  Hull `N` that is `d ≠ 0`, by `N_symm`), so they hold for the generated `Gen/BSR` definitions and for any exact Φ.
-/
import FinVerif.Props.C05a

set_option linter.unusedVariables false
set_option linter.unusedSimpArgs false

namespace FinVerif.Props.C05
open FinVerif FinVerif.Gen FinVerif.C05

/-! ### Black-76 (black.py: black_value with calculate_d1_d2 inlined) -/

noncomputable def bkD1 (f t k v : ℝ) : ℝ :=
  (Real.log (f / max k 1e-12) + max v 1e-12 * max v 1e-12 * max t 1e-12 / 2) / (max v 1e-12 * Real.sqrt (max t 1e-12))
noncomputable def bkD2 (f t k v : ℝ) : ℝ := bkD1 f t k v - max v 1e-12 * Real.sqrt (max t 1e-12)

theorem black_value_shape (Φ : ℝ → ℝ) {f : ℝ} (hf : 0 < f) (t k r v : ℝ) :
    BSP.black_value Φ f t k r v 1 = .ok (Real.exp (-r * t) * (f * Φ (bkD1 f t k v) - k * Φ (bkD2 f t k v))) ∧
    BSP.black_value Φ f t k r v 2 = .ok (Real.exp (-r * t) * (k * Φ (-bkD2 f t k v) - f * Φ (-bkD1 f t k v))) := by
  have hk : ¬ (max k 1e-12 ≤ 0) := not_le.mpr (lt_of_lt_of_le (by norm_num) (le_max_right _ _))
  have hf' : ¬ (f ≤ 0) := not_le.mpr hf
  constructor
  · simp only [BSP.black_value, bkD1, bkD2, decide_eq_true_eq, hf', hk, if_false, eq_self_iff_true, if_true]
  · simp only [BSP.black_value, bkD1, bkD2, decide_eq_true_eq, hf', hk, if_false, eq_self_iff_true, if_true,
      show ¬ ((2 : Int) = 1) by decide]

/-- the coded Black-76 value rejects a non-positive forward with FinError (and never rejects a strike: it is clamped) -/
theorem black_value_error (Φ : ℝ → ℝ) {f : ℝ} (hf : f ≤ 0) (t k r v : ℝ) (ty : Int) :
    BSP.black_value Φ f t k r v ty = .error .finError := by
  simp only [BSP.black_value, decide_eq_true_eq, hf, if_true]

/-- C05: Black-76 put–call parity as coded: call − put = e^{−rT}(F − K). -/
theorem black_put_call_parity_gen (Φ : ℝ → ℝ) {f : ℝ} (hf : 0 < f) (t k r v : ℝ)
    (h1 : Φ (bkD1 f t k v) + Φ (-bkD1 f t k v) = 1) (h2 : Φ (bkD2 f t k v) + Φ (-bkD2 f t k v) = 1) :
    okVal (BSP.black_value Φ f t k r v 1) - okVal (BSP.black_value Φ f t k r v 2) = Real.exp (-r * t) * (f - k) := by
  rw [(black_value_shape Φ hf t k r v).1, (black_value_shape Φ hf t k r v).2]
  simp only [okVal_ok]
  linear_combination Real.exp (-r * t) * f * h1 - Real.exp (-r * t) * k * h2

theorem black_put_call_parity_partial {f : ℝ} (hf : 0 < f) (t k r v : ℝ)
    (hd1 : bkD1 f t k v ≠ 0) (hd2 : bkD2 f t k v ≠ 0) :
    okVal (BSR.black_value f t k r v 1) - okVal (BSR.black_value f t k r v 2) = Real.exp (-r * t) * (f - k) := by
  rw [← tie_black_value, ← tie_black_value]
  exact black_put_call_parity_gen BSR.N hf t k r v (N_symm _ hd1) (N_symm _ hd2)

/-! ### shifted Black (black_shifted.py: BlackShifted.value) -/

noncomputable def shD1 (f k t sh vol : ℝ) : ℝ :=
  (Real.log ((f + sh) / (k + sh)) + vol * vol * t / 2) / (vol * Real.sqrt t)

theorem black_shifted_shape (Φ : ℝ → ℝ) (f k t df sh vol : ℝ) :
    BSP.black_shifted_value Φ f k t df 1 sh vol
      = .ok (df * ((f + sh) * Φ (shD1 f k t sh vol) - (k + sh) * Φ (shD1 f k t sh vol - vol * Real.sqrt t))) ∧
    BSP.black_shifted_value Φ f k t df 2 sh vol
      = .ok (df * ((k + sh) * Φ (-(shD1 f k t sh vol - vol * Real.sqrt t)) - (f + sh) * Φ (-shD1 f k t sh vol))) := by
  constructor
  · simp only [BSP.black_shifted_value, shD1, decide_eq_true_eq, eq_self_iff_true, if_true, Int.cast_ofNat]
  · simp only [BSP.black_shifted_value, shD1, decide_eq_true_eq, eq_self_iff_true, if_true, Int.cast_ofNat,
      show ¬ ((2 : Int) = 1) by decide, if_false]

/-- C05: shifted-Black put–call parity as coded: call − put = df·(F − K)  (the shift cancels). -/
theorem black_shifted_put_call_parity_gen (Φ : ℝ → ℝ) (f k t df sh vol : ℝ)
    (h1 : Φ (shD1 f k t sh vol) + Φ (-shD1 f k t sh vol) = 1)
    (h2 : Φ (shD1 f k t sh vol - vol * Real.sqrt t) + Φ (-(shD1 f k t sh vol - vol * Real.sqrt t)) = 1) :
    okVal (BSP.black_shifted_value Φ f k t df 1 sh vol) - okVal (BSP.black_shifted_value Φ f k t df 2 sh vol)
      = df * (f - k) := by
  rw [(black_shifted_shape Φ f k t df sh vol).1, (black_shifted_shape Φ f k t df sh vol).2]
  simp only [okVal_ok]
  linear_combination df * (f + sh) * h1 - df * (k + sh) * h2

theorem black_shifted_put_call_parity_partial (f k t df sh vol : ℝ)
    (hd1 : shD1 f k t sh vol ≠ 0) (hd2 : shD1 f k t sh vol - vol * Real.sqrt t ≠ 0) :
    okVal (BSR.black_shifted_value f k t df 1 sh vol) - okVal (BSR.black_shifted_value f k t df 2 sh vol)
      = df * (f - k) := by
  rw [← tie_black_shifted, ← tie_black_shifted]
  exact black_shifted_put_call_parity_gen BSR.N f k t df sh vol (N_symm _ hd1) (N_symm _ hd2)

/-! ### Bachelier (bachelier.py: Bachelier.value; the cdf/pdf are SciPy's, hence abstract here) -/

/-- C05: Bachelier put–call parity as coded: call − put = df·(F − K), for any symmetric cdf and ANY pdf. -/
theorem bachelier_put_call_parity (Φ φ : ℝ → ℝ) (f k t df vol : ℝ)
    (h : Φ ((f - k) / (vol * Real.sqrt t)) + Φ (-((f - k) / (vol * Real.sqrt t))) = 1) :
    okVal (BSP.bachelier_value Φ φ f k t df 1 vol) - okVal (BSP.bachelier_value Φ φ f k t df 2 vol) = df * (f - k) := by
  simp only [BSP.bachelier_value, decide_eq_true_eq, eq_self_iff_true, if_true, show ¬ ((2 : Int) = 1) by decide,
    if_false, okVal_ok]
  linear_combination df * (f - k) * h

theorem bachelier_put_call_parity_stdNormal {Φ φ : ℝ → ℝ} (hN : IsStdNormal Φ φ) (f k t df vol : ℝ) :
    okVal (BSP.bachelier_value Φ φ f k t df 1 vol) - okVal (BSP.bachelier_value Φ φ f k t df 2 vol) = df * (f - k) :=
  bachelier_put_call_parity Φ φ f k t df vol (hN.symm _)

/-! ### digital options (equity_digital_option.py: kernel of EquityDigitalOption.value) -/

noncomputable def dgT (t_raw : ℝ) : ℝ := max t_raw 1e-6
noncomputable def dgVol (vol : ℝ) : ℝ := if |vol| < 1e-12 then 1e-12 else vol
noncomputable def dgD1 (s t_raw df dq b vol : ℝ) : ℝ :=
  (Real.log (s / b) + ((-(Real.log df)) / dgT t_raw - (-(Real.log dq)) / dgT t_raw + dgVol vol * dgVol vol / 2) * dgT t_raw)
    / dgVol vol / Real.sqrt (dgT t_raw)
noncomputable def dgD2 (s t_raw df dq b vol : ℝ) : ℝ := dgD1 s t_raw df dq b vol - dgVol vol * Real.sqrt (dgT t_raw)

theorem dgT_pos (t_raw : ℝ) : 0 < dgT t_raw := lt_of_lt_of_le (by norm_num) (le_max_right _ _)

/-- the discount factor the kernel rebuilds, e^{−r t} with r = −ln(df)/t, is df itself -/
theorem dg_disc {df : ℝ} (hdf : 0 < df) (t_raw : ℝ) :
    Real.exp (-((-(Real.log df)) / dgT t_raw) * dgT t_raw) = df := by
  have ht := (dgT_pos t_raw).ne'
  have : -((-(Real.log df)) / dgT t_raw) * dgT t_raw = Real.log df := by field_simp
  rw [this, Real.exp_log hdf]

theorem digital_shape (Φ : ℝ → ℝ) (s t_raw df dq b vol : ℝ) :
    BSP.digital_value Φ s t_raw df dq b vol 1 1
      = .ok (Real.exp (-((-(Real.log df)) / dgT t_raw) * dgT t_raw) * Φ (dgD2 s t_raw df dq b vol)) ∧
    BSP.digital_value Φ s t_raw df dq b vol 2 1
      = .ok (Real.exp (-((-(Real.log df)) / dgT t_raw) * dgT t_raw) * Φ (-dgD2 s t_raw df dq b vol)) ∧
    BSP.digital_value Φ s t_raw df dq b vol 1 2
      = .ok (s * Real.exp (-((-(Real.log dq)) / dgT t_raw) * dgT t_raw) * Φ (dgD1 s t_raw df dq b vol)) ∧
    BSP.digital_value Φ s t_raw df dq b vol 2 2
      = .ok (s * Real.exp (-((-(Real.log dq)) / dgT t_raw) * dgT t_raw) * Φ (-dgD1 s t_raw df dq b vol)) := by
  refine ⟨?_, ?_, ?_, ?_⟩ <;>
    simp only [BSP.digital_value, dgT, dgVol, dgD1, dgD2, decide_eq_true_eq, eq_self_iff_true, if_true,
      show ¬ ((2 : Int) = 1) by decide, if_false]

/-- C05: cash-or-nothing call + cash-or-nothing put = df (as coded, for df > 0 and Φ symmetric at d₂). -/
theorem digital_cash_call_plus_put (Φ : ℝ → ℝ) (s t_raw : ℝ) {df : ℝ} (hdf : 0 < df) (dq b vol : ℝ)
    (h2 : Φ (dgD2 s t_raw df dq b vol) + Φ (-dgD2 s t_raw df dq b vol) = 1) :
    okVal (BSP.digital_value Φ s t_raw df dq b vol 1 1) + okVal (BSP.digital_value Φ s t_raw df dq b vol 2 1) = df := by
  obtain ⟨e1, e2, -, -⟩ := digital_shape Φ s t_raw df dq b vol
  rw [e1, e2]; simp only [okVal_ok, dg_disc hdf]
  linear_combination df * h2

/-- C05: asset-or-nothing call + asset-or-nothing put = S·dq. -/
theorem digital_asset_call_plus_put (Φ : ℝ → ℝ) (s t_raw df : ℝ) {dq : ℝ} (hdq : 0 < dq) (b vol : ℝ)
    (h1 : Φ (dgD1 s t_raw df dq b vol) + Φ (-dgD1 s t_raw df dq b vol) = 1) :
    okVal (BSP.digital_value Φ s t_raw df dq b vol 1 2) + okVal (BSP.digital_value Φ s t_raw df dq b vol 2 2) = s * dq := by
  obtain ⟨-, -, e3, e4⟩ := digital_shape Φ s t_raw df dq b vol
  rw [e3, e4]; simp only [okVal_ok, dg_disc hdq]
  linear_combination s * dq * h1

theorem digital_cash_call_plus_put_coded (s t_raw : ℝ) {df : ℝ} (hdf : 0 < df) (dq b vol : ℝ)
    (h2 : dgD2 s t_raw df dq b vol ≠ 0) :
    okVal (BSR.digital_value s t_raw df dq b vol 1 1) + okVal (BSR.digital_value s t_raw df dq b vol 2 1) = df := by
  rw [← tie_digital, ← tie_digital]
  exact digital_cash_call_plus_put BSR.N s t_raw hdf dq b vol (N_symm _ h2)

end FinVerif.Props.C05
