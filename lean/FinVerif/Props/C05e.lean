/-
  C05 (part e) — vega > 0, hence the coded value is strictly increasing in σ above the clamp, hence the implied
  volatility is unique: any solver output that reprices the option is THE volatility.  (That the solver of
  `bs_implied_volatility` returns such a point is its postcondition; the harness checks it on every case it runs.)
-/
import FinVerif.Props.C05b
import Mathlib.Analysis.Calculus.Deriv.MeanValue

set_option linter.unusedVariables false

namespace FinVerif.Props.C05
open FinVerif FinVerif.Gen FinVerif.C05

variable {Φ φ : ℝ → ℝ} {c : ℝ}

/-- C05: vega as coded is strictly positive (S > 0, density constant c > 0). -/
theorem bs_vega_pos (h : IsGaussPair Φ φ c) (hc : 0 < c) {s : ℝ} (hs : 0 < s) (t k r q v : ℝ) (ty : Int) :
    0 < BSP.bs_vega φ s t k r q v ty := by
  rw [bs_vega_shape, h.pdf]
  have h1 := ssOf_pos hs t q
  have h2 : 0 < Real.sqrt (max t 1e-12) :=
    Real.sqrt_pos.mpr (lt_of_lt_of_le (by norm_num) (le_max_right t 1e-12))
  positivity

/-- C05: the coded value is strictly increasing in σ on (1e-12, ∞). -/
theorem bs_value_strictMono_in_vol (h : IsGaussPair Φ φ c) (hc : 0 < c) {s : ℝ} (hs : 0 < s) (t k r q : ℝ) {ty : Int}
    (hty : ty = 1 ∨ ty = 2) :
    StrictMonoOn (fun x => okVal (BSP.bs_value Φ s t k r q x ty)) (Set.Ioi (1e-12 : ℝ)) := by
  apply strictMonoOn_of_deriv_pos (convex_Ioi _)
  · intro x hx
    exact (bs_vega_is_derivative h hs t k r q hx hty).continuousAt.continuousWithinAt
  · intro x hx
    rw [interior_Ioi] at hx
    rw [(bs_vega_is_derivative h hs t k r q hx hty).deriv]
    exact bs_vega_pos h hc hs t k r q x ty

/-- C05: implied volatility is unique: two volatilities above the clamp with the same coded value are equal. -/
theorem bs_implied_vol_unique (h : IsGaussPair Φ φ c) (hc : 0 < c) {s : ℝ} (hs : 0 < s) (t k r q : ℝ) {ty : Int}
    (hty : ty = 1 ∨ ty = 2) {v₁ v₂ : ℝ} (h1 : 1e-12 < v₁) (h2 : 1e-12 < v₂)
    (heq : okVal (BSP.bs_value Φ s t k r q v₁ ty) = okVal (BSP.bs_value Φ s t k r q v₂ ty)) : v₁ = v₂ :=
  (bs_value_strictMono_in_vol h hc hs t k r q hty).injOn h1 h2 heq

end FinVerif.Props.C05
