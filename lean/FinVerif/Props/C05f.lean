/-
  C05 (part f) — Black-76 (black.py) delta and vega as coded are the derivatives of the coded `black_value`
  (forward F > 0; strike, expiry above the clamps so that the clamped and unclamped occurrences coincide), and the
  digital relation  asset-or-nothing − K·cash-or-nothing = vanilla  as coded.
-/
import FinVerif.Props.C05b
import FinVerif.Props.C05d

set_option linter.unusedVariables false
set_option linter.unusedSimpArgs false

namespace FinVerif.Props.C05
open FinVerif FinVerif.Gen FinVerif.C05

variable {Φ φ : ℝ → ℝ} {c : ℝ}

/-- Black-76 d₁ as coded equals the master-lemma d₁ of the discounted forward and strike -/
theorem bkD1_eq {f k : ℝ} (hf : 0 < f) (hk : 1e-12 ≤ k) (t r v : ℝ) :
    bkD1 f t k v = D1 (Real.exp (-r * t) * f) (Real.exp (-r * t) * k) (max v 1e-12 * Real.sqrt (max t 1e-12)) := by
  have hE : Real.exp (-r * t) ≠ 0 := (Real.exp_pos _).ne'
  have hk0 : k ≠ 0 := (lt_of_lt_of_le (by norm_num) hk).ne'
  have hv : max v 1e-12 ≠ 0 := (lt_of_lt_of_le (by norm_num) (le_max_right v 1e-12)).ne'
  have ht : 0 ≤ max t 1e-12 := le_trans (by norm_num) (le_max_right t 1e-12)
  have hs : Real.sqrt (max t 1e-12) ≠ 0 :=
    (Real.sqrt_pos.mpr (lt_of_lt_of_le (by norm_num) (le_max_right t 1e-12))).ne'
  have hsq : Real.sqrt (max t 1e-12) * Real.sqrt (max t 1e-12) = max t 1e-12 := Real.mul_self_sqrt ht
  have e : Real.exp (-r * t) * f / (Real.exp (-r * t) * k) = f / k := by field_simp
  rw [bkD1, D1, e, max_eq_left hk]
  field_simp
  linear_combination (max v 1e-12 * max v 1e-12) * hsq.symm

theorem black_value_ok (Φ : ℝ → ℝ) {f k : ℝ} (hf : 0 < f) (hk : 1e-12 ≤ k) (t r v : ℝ) {ty : Int}
    (hty : ty = 1 ∨ ty = 2) :
    okVal (BSP.black_value Φ f t k r v ty)
      = Real.exp (-r * t) * f * flipN (eps ty) Φ (D1 (Real.exp (-r * t) * f) (Real.exp (-r * t) * k)
            (max v 1e-12 * Real.sqrt (max t 1e-12)))
        - Real.exp (-r * t) * k * flipN (eps ty) Φ (D1 (Real.exp (-r * t) * f) (Real.exp (-r * t) * k)
            (max v 1e-12 * Real.sqrt (max t 1e-12)) - max v 1e-12 * Real.sqrt (max t 1e-12)) := by
  rw [← bkD1_eq hf hk t r v]
  rcases hty with rfl | rfl
  · rw [(black_value_shape Φ hf t k r v).1]; simp only [okVal_ok, flipN, eps_one, bkD2]; ring_nf
  · rw [(black_value_shape Φ hf t k r v).2]; simp only [okVal_ok, flipN, eps_two, bkD2]; ring_nf

theorem black_delta_shape (Φ : ℝ → ℝ) {f : ℝ} (hf : 0 < f) (t k r v : ℝ) {ty : Int} (hty : ty = 1 ∨ ty = 2) :
    BSP.black_delta Φ f t k r v ty = .ok (Real.exp (-r * t) * flipN (eps ty) Φ (bkD1 f t k v)) := by
  have hk : ¬ (max k 1e-12 ≤ 0) := not_le.mpr (lt_of_lt_of_le (by norm_num) (le_max_right _ _))
  have hf' : ¬ (f ≤ 0) := not_le.mpr hf
  rcases hty with rfl | rfl
  · simp only [BSP.black_delta, bkD1, flipN, eps_one, decide_eq_true_eq, hf', hk, if_false, eq_self_iff_true, if_true]
    congr 1; ring_nf
  · simp only [BSP.black_delta, bkD1, flipN, eps_two, decide_eq_true_eq, hf', hk, if_false, eq_self_iff_true, if_true,
      show ¬ ((2 : Int) = 1) by decide]
    congr 1; ring_nf

/-- C05: Black-76 **delta** as coded = ∂(coded black_value)/∂F. -/
theorem black_delta_is_derivative (h : IsGaussPair Φ φ c) {f k : ℝ} (hf : 0 < f) (hk : 1e-12 ≤ k) (t r v : ℝ)
    {ty : Int} (hty : ty = 1 ∨ ty = 2) :
    HasDerivAt (fun x => okVal (BSP.black_value Φ x t k r v ty)) (okVal (BSP.black_delta Φ f t k r v ty)) f := by
  have hg := h.flipN (eps_cases hty)
  have hk0 : 0 < k := lt_of_lt_of_le (by norm_num) hk
  have hE := Real.exp_pos (-r * t)
  have hw : max v 1e-12 * Real.sqrt (max t 1e-12) ≠ 0 := by
    have := wOf_pos t v; unfold wOf at this; exact this.ne'
  have ha : HasDerivAt (fun x : ℝ => Real.exp (-r * t) * x) (Real.exp (-r * t)) f := by
    simpa using (hasDerivAt_id f).const_mul (Real.exp (-r * t))
  have := hasDerivAt_blackForm hg ha (hasDerivAt_const f (Real.exp (-r * t) * k))
    (hasDerivAt_const f (max v 1e-12 * Real.sqrt (max t 1e-12))) (mul_pos hE hf) (mul_pos hE hk0) hw
  have e : (fun x => okVal (BSP.black_value Φ x t k r v ty)) =ᶠ[nhds f] fun x =>
      Real.exp (-r * t) * x * flipN (eps ty) Φ (D1 (Real.exp (-r * t) * x) (Real.exp (-r * t) * k)
            (max v 1e-12 * Real.sqrt (max t 1e-12)))
        - Real.exp (-r * t) * k * flipN (eps ty) Φ (D1 (Real.exp (-r * t) * x) (Real.exp (-r * t) * k)
            (max v 1e-12 * Real.sqrt (max t 1e-12)) - max v 1e-12 * Real.sqrt (max t 1e-12)) := by
    filter_upwards [Ioi_mem_nhds hf] with x hx
    exact black_value_ok Φ hx hk t r v hty
  refine (this.congr_of_eventuallyEq e).congr_deriv ?_
  rw [black_delta_shape Φ hf t k r v hty, bkD1_eq hf hk t r v]
  simp only [okVal_ok]
  ring

theorem black_vega_shape (φ : ℝ → ℝ) {f : ℝ} (hf : 0 < f) (t k r v : ℝ) {ty : Int} (hty : ty = 1 ∨ ty = 2) :
    BSP.black_vega φ f t k r v ty = .ok (Real.exp (-r * t) * f * Real.sqrt t * φ (bkD1 f t k v)) := by
  have hk : ¬ (max k 1e-12 ≤ 0) := not_le.mpr (lt_of_lt_of_le (by norm_num) (le_max_right _ _))
  have hf' : ¬ (f ≤ 0) := not_le.mpr hf
  rcases hty with rfl | rfl <;>
    simp [BSP.black_vega, bkD1, pyIn, hf', hk]

/-- C05: Black-76 **vega** as coded = ∂(coded black_value)/∂σ (σ, T, K above the clamps). -/
theorem black_vega_is_derivative (h : IsGaussPair Φ φ c) {f k : ℝ} (hf : 0 < f) (hk : 1e-12 ≤ k) {t : ℝ}
    (ht : 1e-12 ≤ t) (r : ℝ) {v : ℝ} (hv : 1e-12 < v) {ty : Int} (hty : ty = 1 ∨ ty = 2) :
    HasDerivAt (fun x => okVal (BSP.black_value Φ f t k r x ty)) (okVal (BSP.black_vega φ f t k r v ty)) v := by
  have hg := h.flipN (eps_cases hty)
  have hk0 : 0 < k := lt_of_lt_of_le (by norm_num) hk
  have hE := Real.exp_pos (-r * t)
  have hmt : max t 1e-12 = t := max_eq_left ht
  have hmv : max v 1e-12 = v := max_eq_left hv.le
  have hsq : 0 < Real.sqrt t := Real.sqrt_pos.mpr (lt_of_lt_of_le (by norm_num) ht)
  have hw : HasDerivAt (fun x : ℝ => x * Real.sqrt t) (Real.sqrt t) v := by
    simpa using (hasDerivAt_id v).mul_const (Real.sqrt t)
  have hv0 : 0 < v := lt_trans (by norm_num) hv
  have := hasDerivAt_blackForm hg (hasDerivAt_const v (Real.exp (-r * t) * f))
    (hasDerivAt_const v (Real.exp (-r * t) * k)) hw (mul_pos hE hf) (mul_pos hE hk0) (mul_pos hv0 hsq).ne'
  have e : (fun x => okVal (BSP.black_value Φ f t k r x ty)) =ᶠ[nhds v] fun x =>
      Real.exp (-r * t) * f * flipN (eps ty) Φ (D1 (Real.exp (-r * t) * f) (Real.exp (-r * t) * k) (x * Real.sqrt t))
        - Real.exp (-r * t) * k * flipN (eps ty) Φ (D1 (Real.exp (-r * t) * f) (Real.exp (-r * t) * k) (x * Real.sqrt t)
            - x * Real.sqrt t) := by
    filter_upwards [Ioi_mem_nhds hv] with x hx
    rw [black_value_ok Φ hf hk t r x hty, hmt, max_eq_left (le_of_lt hx : (1e-12 : ℝ) ≤ x)]
  refine (this.congr_of_eventuallyEq e).congr_deriv ?_
  have key := key_identity h (mul_pos hE hf) (mul_pos hE hk0) (mul_pos hv0 hsq).ne'
  rw [black_vega_shape φ hf t k r v hty, bkD1_eq hf hk t r v, hmt, hmv]
  simp only [okVal_ok]
  linear_combination (-Real.sqrt t) * key

/-! ### digital: asset-or-nothing − K · cash-or-nothing = vanilla -/

theorem dg_d1_eq {s b vol df dq : ℝ} (t_raw : ℝ) (hs : 0 < s) (hb : 1e-12 ≤ b) (hv : 1e-12 ≤ vol) (hdf : 0 < df)
    (hdq : 0 < dq) :
    d1Of s (dgT t_raw) b (-(Real.log df) / dgT t_raw) (-(Real.log dq) / dgT t_raw) vol = dgD1 s t_raw df dq b vol ∧
    wOf (dgT t_raw) vol = dgVol vol * Real.sqrt (dgT t_raw) := by
  have hb0 : 0 < b := lt_of_lt_of_le (by norm_num) hb
  have hv0 : 0 < vol := lt_of_lt_of_le (by norm_num) hv
  have hT := dgT_pos t_raw
  have hT12 : (1e-12 : ℝ) ≤ dgT t_raw := le_trans (by norm_num) (le_max_right t_raw 1e-6)
  have hvol : dgVol vol = vol := by
    unfold dgVol; rw [abs_of_pos hv0, if_neg (not_lt.mpr hv)]
  have hss : ssOf s (dgT t_raw) (-(Real.log dq) / dgT t_raw) = s * dq := by
    rw [ssOf, max_eq_left hT12, dg_disc hdq]
  have hkk : kkOf b (dgT t_raw) (-(Real.log df) / dgT t_raw) = b * df := by
    rw [kkOf, max_eq_left hT12, max_eq_left hb, dg_disc hdf]
  have hw : wOf (dgT t_raw) vol = vol * Real.sqrt (dgT t_raw) := by
    rw [wOf, max_eq_left hT12, max_eq_left hv]
  have hlog : Real.log (s * dq / (b * df)) = Real.log (s / b) + Real.log dq - Real.log df := by
    rw [Real.log_div (mul_pos hs hdq).ne' (mul_pos hb0 hdf).ne', Real.log_mul hs.ne' hdq.ne',
      Real.log_mul hb0.ne' hdf.ne', Real.log_div hs.ne' hb0.ne']
    ring
  refine ⟨?_, by rw [hw, hvol]⟩
  rw [d1Of, hss, hkk, hw, D1, hlog, dgD1, hvol]
  obtain ⟨u, hu, hTu⟩ : ∃ u : ℝ, 0 < u ∧ dgT t_raw = u * u :=
    ⟨Real.sqrt (dgT t_raw), Real.sqrt_pos.mpr hT, (Real.mul_self_sqrt hT.le).symm⟩
  rw [hTu, Real.sqrt_mul_self hu.le]
  field_simp
  ring

/-- C05: asset-or-nothing call − K·cash-or-nothing call = the Black–Scholes call value, all as coded
(rates r, q rebuilt from the discount factors exactly as the digital kernel does). -/
theorem digital_asset_minus_strike_cash_eq_vanilla (Φ : ℝ → ℝ) {s b vol df dq : ℝ} (t_raw : ℝ) (hs : 0 < s)
    (hb : 1e-12 ≤ b) (hv : 1e-12 ≤ vol) (hdf : 0 < df) (hdq : 0 < dq) :
    okVal (BSP.digital_value Φ s t_raw df dq b vol 1 2) - b * okVal (BSP.digital_value Φ s t_raw df dq b vol 1 1)
      = okVal (BSP.bs_value Φ s (dgT t_raw) b (-(Real.log df) / dgT t_raw) (-(Real.log dq) / dgT t_raw) vol 1) ∧
    b * okVal (BSP.digital_value Φ s t_raw df dq b vol 2 1) - okVal (BSP.digital_value Φ s t_raw df dq b vol 2 2)
      = okVal (BSP.bs_value Φ s (dgT t_raw) b (-(Real.log df) / dgT t_raw) (-(Real.log dq) / dgT t_raw) vol 2) := by
  obtain ⟨e1, e2, e3, e4⟩ := digital_shape Φ s t_raw df dq b vol
  obtain ⟨hd1, hw⟩ := dg_d1_eq t_raw hs hb hv hdf hdq
  have hT12 : (1e-12 : ℝ) ≤ dgT t_raw := le_trans (by norm_num) (le_max_right t_raw 1e-6)
  have hss : ssOf s (dgT t_raw) (-(Real.log dq) / dgT t_raw) = s * dq := by
    rw [ssOf, max_eq_left hT12, dg_disc hdq]
  have hkk : kkOf b (dgT t_raw) (-(Real.log df) / dgT t_raw) = b * df := by
    rw [kkOf, max_eq_left hT12, max_eq_left hb, dg_disc hdf]
  constructor
  · rw [e3, e1, bs_value_shape Φ _ _ _ _ _ _ (Or.inl rfl)]
    simp only [okVal_ok, flipN, eps_one, one_mul, d2Of, hd1, hw, hss, hkk, dg_disc hdf, dg_disc hdq, dgD2]
    ring
  · rw [e2, e4, bs_value_shape Φ _ _ _ _ _ _ (Or.inr rfl)]
    simp only [okVal_ok, flipN, eps_two, d2Of, hd1, hw, hss, hkk, dg_disc hdf, dg_disc hdq, dgD2]
    ring_nf

end FinVerif.Props.C05
