/-
  C05 (part g) — Black-76 (black.py) theta and gamma as coded are derivatives of the coded `black_value` /
  `black_delta`; theta put–call parity; vega > 0, hence strict monotonicity in σ and uniqueness of the Black-76
  implied volatility.

  `black_theta` is the decay per year of calendar time, −∂V/∂t, INCLUDING the carry terms  r·F·N(±d₁), r·K·N(±d₂)
  with the signs the put branch needs (a flipped sign in either carry term of the put breaks
  `black_theta_is_derivative` and `black_theta_put_call_parity`).  The code uses the raw `v`, `t` in the theta /
  gamma formulas and the clamped ones inside d₁, d₂; the theorems therefore carry `1e-12 ≤ v`, `1e-12 < t`.
-/
import FinVerif.Props.C05f
import Mathlib.Analysis.Calculus.Deriv.MeanValue

set_option linter.unusedVariables false
set_option linter.unusedSimpArgs false

namespace FinVerif.Props.C05
open FinVerif FinVerif.Gen FinVerif.C05

variable {Φ φ : ℝ → ℝ} {c : ℝ}

/-! ### theta -/

/-- shape of the GENERATED `black_theta`, calls and puts in one formula (`flipN ε Φ x = ε·Φ(ε·x)`):
e^{−rt}·(−F·σ·φ(d₁)/(2√t) + r·F·εΦ(εd₁) − r·K·εΦ(εd₂)). -/
theorem black_theta_shape (Φ φ : ℝ → ℝ) {f : ℝ} (hf : 0 < f) (t k r v : ℝ) {ty : Int} (hty : ty = 1 ∨ ty = 2) :
    BSP.black_theta Φ φ f t k r v ty
      = .ok (Real.exp (-r * t) * (-(f * v * φ (bkD1 f t k v)) / (2 * Real.sqrt t)
          + r * f * flipN (eps ty) Φ (bkD1 f t k v) - r * k * flipN (eps ty) Φ (bkD2 f t k v))) := by
  have hk : ¬ (max k 1e-12 ≤ 0) := not_le.mpr (lt_of_lt_of_le (by norm_num) (le_max_right _ _))
  have hf' : ¬ (f ≤ 0) := not_le.mpr hf
  rcases hty with rfl | rfl
  · simp only [BSP.black_theta, bkD1, bkD2, flipN, eps_one, decide_eq_true_eq, hf', hk, if_false, eq_self_iff_true,
      if_true, Int.cast_ofNat]
    congr 1; ring_nf
  · simp only [BSP.black_theta, bkD1, bkD2, flipN, eps_two, decide_eq_true_eq, hf', hk, if_false, eq_self_iff_true,
      if_true, Int.cast_ofNat, show ¬ ((2 : Int) = 1) by decide]
    congr 1; ring_nf

/-- the put branch spelled out: e^{−rt}·(−F·σ·φ(d₁)/(2√t) − r·F·Φ(−d₁) + r·K·Φ(−d₂)) -/
theorem black_theta_put_shape (Φ φ : ℝ → ℝ) {f : ℝ} (hf : 0 < f) (t k r v : ℝ) :
    okVal (BSP.black_theta Φ φ f t k r v 2)
      = Real.exp (-r * t) * (-(f * v * φ (bkD1 f t k v)) / (2 * Real.sqrt t)
          - r * f * Φ (-bkD1 f t k v) + r * k * Φ (-bkD2 f t k v)) := by
  rw [black_theta_shape Φ φ hf t k r v (Or.inr rfl)]
  simp only [okVal_ok, flipN, eps_two]
  ring_nf

/-- C05: Black-76 **theta** as coded = −∂(coded black_value)/∂t, calls and puts, carry terms included
(F > 0; K, σ at or above the clamp, t strictly above it). -/
theorem black_theta_is_derivative (h : IsGaussPair Φ φ c) {f k : ℝ} (hf : 0 < f) (hk : 1e-12 ≤ k) {t : ℝ}
    (ht : 1e-12 < t) (r : ℝ) {v : ℝ} (hv : 1e-12 ≤ v) {ty : Int} (hty : ty = 1 ∨ ty = 2) :
    HasDerivAt (fun x => okVal (BSP.black_value Φ f x k r v ty))
      (-(okVal (BSP.black_theta Φ φ f t k r v ty))) t := by
  have hg := h.flipN (eps_cases hty)
  have hk0 : 0 < k := lt_of_lt_of_le (by norm_num) hk
  have hv0 : 0 < v := lt_of_lt_of_le (by norm_num) hv
  have ht0 : 0 < t := lt_trans (by norm_num) ht
  have hE := Real.exp_pos (-r * t)
  have hmt : max t 1e-12 = t := max_eq_left ht.le
  have hmv : max v 1e-12 = v := max_eq_left hv
  have hsq : 0 < Real.sqrt t := Real.sqrt_pos.mpr ht0
  have ha : HasDerivAt (fun x : ℝ => Real.exp (-r * x) * f) (-r * (Real.exp (-r * t) * f)) t := by
    have h1 : HasDerivAt (fun x : ℝ => -r * x) (-r) t := by simpa using (hasDerivAt_id t).const_mul (-r)
    refine ((h1.exp).mul_const f).congr_deriv ?_; ring
  have hb : HasDerivAt (fun x : ℝ => Real.exp (-r * x) * k) (-r * (Real.exp (-r * t) * k)) t := by
    have h1 : HasDerivAt (fun x : ℝ => -r * x) (-r) t := by simpa using (hasDerivAt_id t).const_mul (-r)
    refine ((h1.exp).mul_const k).congr_deriv ?_; ring
  have hw : HasDerivAt (fun x : ℝ => v * Real.sqrt x) (v * (1 / (2 * Real.sqrt t))) t := by
    have := ((hasDerivAt_id t).sqrt ht0.ne').const_mul v
    simpa using this
  have := hasDerivAt_blackForm hg ha hb hw (mul_pos hE hf) (mul_pos hE hk0) (mul_pos hv0 hsq).ne'
  have e : (fun x => okVal (BSP.black_value Φ f x k r v ty)) =ᶠ[nhds t] fun x =>
      Real.exp (-r * x) * f * flipN (eps ty) Φ (D1 (Real.exp (-r * x) * f) (Real.exp (-r * x) * k) (v * Real.sqrt x))
        - Real.exp (-r * x) * k * flipN (eps ty) Φ (D1 (Real.exp (-r * x) * f) (Real.exp (-r * x) * k)
            (v * Real.sqrt x) - v * Real.sqrt x) := by
    filter_upwards [Ioi_mem_nhds ht] with x hx
    rw [black_value_ok Φ hf hk x r v hty, hmv, max_eq_left (le_of_lt hx : (1e-12 : ℝ) ≤ x)]
  refine (this.congr_of_eventuallyEq e).congr_deriv ?_
  have key := key_identity h (mul_pos hE hf) (mul_pos hE hk0) (mul_pos hv0 hsq).ne'
  rw [black_theta_shape Φ φ hf t k r v hty, bkD2, bkD1_eq hf hk t r v, hmt, hmv]
  simp only [okVal_ok]
  linear_combination (-(v * (1 / (2 * Real.sqrt t)))) * key

/-- non-vacuity: the hypotheses of `black_theta_is_derivative` at F = 100, K = 105, t = 1, r = 3 %, σ = 25 %, put -/
example (h : IsGaussPair Φ φ c) : HasDerivAt (fun x => okVal (BSP.black_value Φ 100 x 105 0.03 0.25 2))
    (-(okVal (BSP.black_theta Φ φ 100 1 105 0.03 0.25 2))) 1 :=
  black_theta_is_derivative h (by norm_num) (by norm_num) (by norm_num) 0.03 (by norm_num) (Or.inr rfl)

/-- C05: Black-76 theta put–call parity as coded:  θ_call − θ_put = r·e^{−rt}·(F − K) = −∂/∂t [e^{−rt}(F − K)]
(any cdf symmetric at d₁, d₂; any pdf — the diffusion terms are literally the same in both branches). -/
theorem black_theta_put_call_parity (Φ φ : ℝ → ℝ) {f : ℝ} (hf : 0 < f) (t k r v : ℝ)
    (h1 : Φ (bkD1 f t k v) + Φ (-bkD1 f t k v) = 1) (h2 : Φ (bkD2 f t k v) + Φ (-bkD2 f t k v) = 1) :
    okVal (BSP.black_theta Φ φ f t k r v 1) - okVal (BSP.black_theta Φ φ f t k r v 2)
      = r * Real.exp (-r * t) * (f - k) := by
  rw [black_theta_shape Φ φ hf t k r v (Or.inl rfl), black_theta_shape Φ φ hf t k r v (Or.inr rfl)]
  simp only [okVal_ok, flipN, eps_one, eps_two, one_mul, neg_one_mul, neg_neg]
  linear_combination Real.exp (-r * t) * r * f * h1 - Real.exp (-r * t) * r * k * h2

/-- … for the code's own Hull `N` and `nprime` (Gen/BSR), under the hypothesis the proof forces -/
theorem black_theta_put_call_parity_partial {f : ℝ} (hf : 0 < f) (t k r v : ℝ)
    (hd1 : bkD1 f t k v ≠ 0) (hd2 : bkD2 f t k v ≠ 0) :
    okVal (BSR.black_theta f t k r v 1) - okVal (BSR.black_theta f t k r v 2) = r * Real.exp (-r * t) * (f - k) := by
  rw [← tie_black_theta, ← tie_black_theta]
  exact black_theta_put_call_parity BSR.N BSR.nprime hf t k r v (N_symm _ hd1) (N_symm _ hd2)

/-- consistency: the theta parity IS minus the t-derivative of the value parity e^{−rt}(F − K) -/
theorem black_parity_rhs_hasDerivAt (f k r t : ℝ) :
    HasDerivAt (fun x : ℝ => Real.exp (-r * x) * (f - k)) (-(r * Real.exp (-r * t) * (f - k))) t := by
  have h1 : HasDerivAt (fun x : ℝ => -r * x) (-r) t := by simpa using (hasDerivAt_id t).const_mul (-r)
  refine ((h1.exp).mul_const (f - k)).congr_deriv ?_; ring

/-! ### gamma -/

theorem black_gamma_shape (φ : ℝ → ℝ) {f : ℝ} (hf : 0 < f) (t k r v : ℝ) {ty : Int} (hty : ty = 1 ∨ ty = 2) :
    BSP.black_gamma φ f t k r v ty = .ok (Real.exp (-r * t) * φ (bkD1 f t k v) / (f * v * Real.sqrt t)) := by
  have hk : ¬ (max k 1e-12 ≤ 0) := not_le.mpr (lt_of_lt_of_le (by norm_num) (le_max_right _ _))
  have hf' : ¬ (f ≤ 0) := not_le.mpr hf
  rcases hty with rfl | rfl <;>
    simp [BSP.black_gamma, bkD1, pyIn, hf', hk]

/-- C05: Black-76 **gamma** as coded = ∂(coded black_delta)/∂F (σ, t at or above the clamps: the code divides by the
raw σ√t). -/
theorem black_gamma_is_derivative (h : IsGaussPair Φ φ c) {f : ℝ} (hf : 0 < f) {t : ℝ} (ht : 1e-12 ≤ t) (k r : ℝ)
    {v : ℝ} (hv : 1e-12 ≤ v) {ty : Int} (hty : ty = 1 ∨ ty = 2) :
    HasDerivAt (fun x => okVal (BSP.black_delta Φ x t k r v ty)) (okVal (BSP.black_gamma φ f t k r v ty)) f := by
  have hg := h.flipN (eps_cases hty)
  have hmt : max t 1e-12 = t := max_eq_left ht
  have hmv : max v 1e-12 = v := max_eq_left hv
  have hv0 : 0 < v := lt_of_lt_of_le (by norm_num) hv
  have ht0 : 0 < t := lt_of_lt_of_le (by norm_num) ht
  have hsq : 0 < Real.sqrt t := Real.sqrt_pos.mpr ht0
  have hK : 0 < max k 1e-12 := lt_of_lt_of_le (by norm_num) (le_max_right _ _)
  have hfk : f / max k 1e-12 ≠ 0 := (div_pos hf hK).ne'
  have hd1 : HasDerivAt (fun x => bkD1 x t k v)
      ((1 / max k 1e-12 / (f / max k 1e-12)) / (v * Real.sqrt t)) f := by
    unfold bkD1
    rw [hmt, hmv]
    have h1 : HasDerivAt (fun x : ℝ => x / max k 1e-12) (1 / max k 1e-12) f := by
      simpa using (hasDerivAt_id f).div_const (max k 1e-12)
    exact ((h1.log hfk).add_const _).div_const _
  have := ((hg.deriv _).comp f hd1).const_mul (Real.exp (-r * t))
  have e : (fun x => okVal (BSP.black_delta Φ x t k r v ty)) =ᶠ[nhds f] fun x =>
      Real.exp (-r * t) * (flipN (eps ty) Φ ∘ fun x => bkD1 x t k v) x := by
    filter_upwards [Ioi_mem_nhds hf] with x hx
    rw [black_delta_shape Φ hx t k r v hty]; rfl
  refine (this.congr_of_eventuallyEq e).congr_deriv ?_
  rw [black_gamma_shape φ hf t k r v hty]
  simp only [okVal_ok]
  field_simp

/-! ### vega > 0 ⇒ strictly increasing in σ ⇒ unique implied volatility (Black-76) -/

/-- C05: Black-76 vega as coded is strictly positive (F > 0, t > 0, density constant c > 0). -/
theorem black_vega_pos (h : IsGaussPair Φ φ c) (hc : 0 < c) {f : ℝ} (hf : 0 < f) {t : ℝ} (ht : 0 < t) (k r v : ℝ)
    {ty : Int} (hty : ty = 1 ∨ ty = 2) : 0 < okVal (BSP.black_vega φ f t k r v ty) := by
  rw [black_vega_shape φ hf t k r v hty, h.pdf]
  simp only [okVal_ok]
  have h2 : 0 < Real.sqrt t := Real.sqrt_pos.mpr ht
  have h3 := Real.exp_pos (-r * t)
  positivity

/-- C05: the coded Black-76 value is strictly increasing in σ on (1e-12, ∞). -/
theorem black_value_strictMono_in_vol (h : IsGaussPair Φ φ c) (hc : 0 < c) {f k : ℝ} (hf : 0 < f) (hk : 1e-12 ≤ k)
    {t : ℝ} (ht : 1e-12 ≤ t) (r : ℝ) {ty : Int} (hty : ty = 1 ∨ ty = 2) :
    StrictMonoOn (fun x => okVal (BSP.black_value Φ f t k r x ty)) (Set.Ioi (1e-12 : ℝ)) := by
  have ht0 : 0 < t := lt_of_lt_of_le (by norm_num) ht
  apply strictMonoOn_of_deriv_pos (convex_Ioi _)
  · intro x hx
    exact (black_vega_is_derivative h hf hk ht r hx hty).continuousAt.continuousWithinAt
  · intro x hx
    rw [interior_Ioi] at hx
    rw [(black_vega_is_derivative h hf hk ht r hx hty).deriv]
    exact black_vega_pos h hc hf ht0 k r x hty

/-- C05: the Black-76 implied volatility is unique: two volatilities above the clamp with the same coded value
are equal (so a solver output that reprices the option IS the volatility). -/
theorem black_implied_vol_unique (h : IsGaussPair Φ φ c) (hc : 0 < c) {f k : ℝ} (hf : 0 < f) (hk : 1e-12 ≤ k)
    {t : ℝ} (ht : 1e-12 ≤ t) (r : ℝ) {ty : Int} (hty : ty = 1 ∨ ty = 2) {v₁ v₂ : ℝ} (h1 : 1e-12 < v₁) (h2 : 1e-12 < v₂)
    (heq : okVal (BSP.black_value Φ f t k r v₁ ty) = okVal (BSP.black_value Φ f t k r v₂ ty)) : v₁ = v₂ :=
  (black_value_strictMono_in_vol h hc hf hk ht r hty).injOn h1 h2 heq

/-- the solver reading: if a returned σ reprices within `tol` and vega ≥ m > 0 between σ and the true σ₀ then
|σ − σ₀| ≤ tol/m — stated through the mean-value inequality on the coded value. -/
theorem black_implied_vol_error (h : IsGaussPair Φ φ c) {f k : ℝ} (hf : 0 < f) (hk : 1e-12 ≤ k) {t : ℝ}
    (ht : 1e-12 ≤ t) (r : ℝ) {ty : Int} (hty : ty = 1 ∨ ty = 2) {v₀ v₁ m tol : ℝ} (h0 : 1e-12 < v₀) (h01 : v₀ ≤ v₁)
    (hm : 0 < m) (hvega : ∀ x ∈ Set.Icc v₀ v₁, m ≤ okVal (BSP.black_vega φ f t k r x ty))
    (hpost : okVal (BSP.black_value Φ f t k r v₁ ty) - okVal (BSP.black_value Φ f t k r v₀ ty) ≤ tol) :
    v₁ - v₀ ≤ tol / m := by
  have hd : ∀ x ∈ Set.Icc v₀ v₁, HasDerivAt (fun x => okVal (BSP.black_value Φ f t k r x ty))
      (okVal (BSP.black_vega φ f t k r x ty)) x := fun x hx =>
    black_vega_is_derivative h hf hk ht r (lt_of_lt_of_le h0 hx.1) hty
  -- g(x) = V(x) − m·x is monotone on [v₀, v₁]
  have hg : ∀ x ∈ Set.Icc v₀ v₁, HasDerivAt (fun x => okVal (BSP.black_value Φ f t k r x ty) - m * x)
      (okVal (BSP.black_vega φ f t k r x ty) - m) x := fun x hx =>
    (hd x hx).sub (by simpa using (hasDerivAt_id x).const_mul m : HasDerivAt (fun y : ℝ => m * y) m x)
  have hmono : MonotoneOn (fun x => okVal (BSP.black_value Φ f t k r x ty) - m * x) (Set.Icc v₀ v₁) := by
    apply monotoneOn_of_deriv_nonneg (convex_Icc _ _)
    · intro x hx
      exact (hg x hx).continuousAt.continuousWithinAt
    · intro x hx
      rw [interior_Icc] at hx
      exact (hg x (Set.Ioo_subset_Icc_self hx)).differentiableAt.differentiableWithinAt
    · intro x hx
      rw [interior_Icc] at hx
      have hx' := Set.Ioo_subset_Icc_self hx
      rw [(hg x hx').deriv]
      linarith [hvega x hx']
  have := hmono (Set.left_mem_Icc.mpr h01) (Set.right_mem_Icc.mpr h01) h01
  simp only at this
  rw [le_div_iff₀ hm]
  nlinarith

end FinVerif.Props.C05
