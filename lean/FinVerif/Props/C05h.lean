/-
  C05 (part h) — the generated `bs_value` as an instance of the Black form, and what follows for ALL inputs:
    * no-arbitrage bounds  max(S e^{−qT} − K e^{−rT}, 0) ≤ C ≤ S e^{−qT},  max(K e^{−rT} − S e^{−qT}, 0) ≤ P ≤ K e^{−rT};
    * the call falls / the put rises with the strike (for every real k: the clamp max(k, 1e-12) is monotone);
    * ∂V/∂K = −e^{−rT}·εΦ(εd₂) (so the cash-or-nothing digital as coded IS −∂C/∂K of the coded vanilla),
      ∂²V/∂K² = e^{−rT} φ(d₂)/(K σ√T) ≥ 0 (discounted density), convexity in the strike on [1e-12, ∞);
      below the clamp the coded value is constant in k, so convexity on all of ℝ is FALSE as coded (recorded, not a defect:
      k ≤ 1e-12 is outside the domain);
    * the small-volatility behaviour as coded: the only floors are max(σ,1e-12), max(T,1e-12) (σ√T ≥ 1e-18), there is NO
      branch that returns the intrinsic value; the value is within K e^{−rT}·c·σ√T of the discounted intrinsic value, and
      at the money (forward) the time value is at least S e^{−qT}·σ√T·φ(d₁) ≥ (7/8)·c·S e^{−qT}·σ√T — first order in
      σ√T, so any "σ√T < threshold ⇒ return intrinsic" fast path contradicts `bs_atm_time_value_lower`.
  Hypotheses on the cdf: `IsNormalCdf Φ φ c` (Lemmas/C08: Φ' = φ = c·exp(−x²/2), c > 0, symmetry, Φ(+∞) = 1) — assumed,
  never postulated; satisfiable (`Props/C08n.exists_normalCdf`).
-/
import FinVerif.Props.C05f
import FinVerif.Lemmas.C05Strike

set_option linter.unusedVariables false
set_option linter.unusedSimpArgs false

namespace FinVerif.Props.C05
open FinVerif FinVerif.Gen FinVerif.C05 FinVerif.C08

variable {Φ φ : ℝ → ℝ} {c : ℝ}

/-! ### the coded value is the Black form of (ssOf, kkOf, wOf) -/

theorem bs_value_eq_bf (Φ : ℝ → ℝ) (s t k r q v : ℝ) :
    okVal (BSP.bs_value Φ s t k r q v 1) = bfCall Φ (ssOf s t q) (kkOf k t r) (wOf t v) ∧
    okVal (BSP.bs_value Φ s t k r q v 2) = bfPut Φ (ssOf s t q) (kkOf k t r) (wOf t v) := by
  constructor
  · rw [bs_value_ok Φ s t k r q v (Or.inl rfl)]
    simp only [flipN, eps_one, bfCall, one_mul]
  · rw [bs_value_ok Φ s t k r q v (Or.inr rfl)]
    simp only [flipN, eps_two, bfPut]
    ring_nf

/-- in the property's domain the clamps are inactive -/
theorem bs_clamps_inactive {t k v : ℝ} (ht : 1e-12 ≤ t) (hk : 1e-12 ≤ k) (hv : 1e-12 ≤ v) (s r q : ℝ) :
    ssOf s t q = s * Real.exp (-q * t) ∧ kkOf k t r = k * Real.exp (-r * t) ∧ wOf t v = v * Real.sqrt t := by
  simp only [ssOf, kkOf, wOf, max_eq_left ht, max_eq_left hk, max_eq_left hv, and_self]

/-! ### bounds -/

/-- C05: **no-arbitrage bounds** of the coded Black–Scholes value, every input with S > 0 (clamps included). -/
theorem bs_value_bounds (h : IsNormalCdf Φ φ c) {s : ℝ} (hs : 0 < s) (t k r q v : ℝ) :
    (max (ssOf s t q - kkOf k t r) 0 ≤ okVal (BSP.bs_value Φ s t k r q v 1) ∧
      okVal (BSP.bs_value Φ s t k r q v 1) ≤ ssOf s t q) ∧
    (max (kkOf k t r - ssOf s t q) 0 ≤ okVal (BSP.bs_value Φ s t k r q v 2) ∧
      okVal (BSP.bs_value Φ s t k r q v 2) ≤ kkOf k t r) := by
  obtain ⟨e1, e2⟩ := bs_value_eq_bf Φ s t k r q v
  rw [e1, e2]
  exact ⟨⟨bfCall_ge_intrinsic h (ssOf_pos hs t q) (kkOf_pos k t r) (wOf_pos t v),
      bfCall_le h (ssOf_pos hs t q).le (kkOf_pos k t r).le _⟩,
    ⟨bfPut_ge_intrinsic h (ssOf_pos hs t q) (kkOf_pos k t r) (wOf_pos t v),
      bfPut_le h (ssOf_pos hs t q).le (kkOf_pos k t r).le _⟩⟩

/-- … in the domain, in the property's own terms: max(S e^{−qT} − K e^{−rT}, 0) ≤ C ≤ S e^{−qT} etc. -/
theorem bs_value_bounds_domain (h : IsNormalCdf Φ φ c) {s : ℝ} (hs : 0 < s) {t k : ℝ} (ht : 1e-12 ≤ t)
    (hk : 1e-12 ≤ k) (r q v : ℝ) :
    (max (s * Real.exp (-q * t) - k * Real.exp (-r * t)) 0 ≤ okVal (BSP.bs_value Φ s t k r q v 1) ∧
      okVal (BSP.bs_value Φ s t k r q v 1) ≤ s * Real.exp (-q * t)) ∧
    (max (k * Real.exp (-r * t) - s * Real.exp (-q * t)) 0 ≤ okVal (BSP.bs_value Φ s t k r q v 2) ∧
      okVal (BSP.bs_value Φ s t k r q v 2) ≤ k * Real.exp (-r * t)) := by
  have := bs_value_bounds h hs t k r q v
  simpa only [ssOf, kkOf, max_eq_left ht, max_eq_left hk] using this

example (h : IsNormalCdf Φ φ c) : 0 ≤ okVal (BSP.bs_value Φ 100 1 105 0.03 0.01 0.25 2) :=
  le_trans (le_max_right _ _) (bs_value_bounds h (by norm_num) 1 105 0.03 0.01 0.25).2.1

/-! ### monotone in the strike -/

theorem kkOf_mono (t r : ℝ) : Monotone (fun k => kkOf k t r) := fun k k' hkk =>
  mul_le_mul_of_nonneg_right (max_le_max hkk le_rfl) (Real.exp_pos _).le

/-- C05: the coded **call falls and the put rises with the strike** — for every pair of real strikes. -/
theorem bs_value_monotone_in_strike (h : IsNormalCdf Φ φ c) {s : ℝ} (hs : 0 < s) (t r q v : ℝ) :
    Antitone (fun k => okVal (BSP.bs_value Φ s t k r q v 1)) ∧
    Monotone (fun k => okVal (BSP.bs_value Φ s t k r q v 2)) := by
  constructor
  · intro k k' hkk
    simp only [(bs_value_eq_bf Φ s t _ r q v).1]
    exact bfCall_antitoneOn_b h (ssOf_pos hs t q) (wOf_pos t v).ne' (kkOf_pos k t r) (kkOf_pos k' t r)
      (kkOf_mono t r hkk)
  · intro k k' hkk
    simp only [(bs_value_eq_bf Φ s t _ r q v).2]
    exact bfPut_monotoneOn_b h (ssOf_pos hs t q) (wOf_pos t v).ne' (kkOf_pos k t r) (kkOf_pos k' t r)
      (kkOf_mono t r hkk)

/-! ### first and second strike derivative; convexity -/

/-- C05: ∂(coded value)/∂K = −e^{−rT}·εΦ(εd₂)  (call: −e^{−rT}Φ(d₂); put: +e^{−rT}Φ(−d₂)), K above the clamp. -/
theorem bs_strike_derivative (h : IsGaussPair Φ φ c) {s : ℝ} (hs : 0 < s) (t : ℝ) {k : ℝ} (hk : 1e-12 < k)
    (r q v : ℝ) {ty : Int} (hty : ty = 1 ∨ ty = 2) :
    HasDerivAt (fun x => okVal (BSP.bs_value Φ s t x r q v ty))
      (-(Real.exp (-r * max t 1e-12) * flipN (eps ty) Φ (d2Of s t k r q v))) k := by
  have hg := h.flipN (eps_cases hty)
  have hb : HasDerivAt (fun x : ℝ => x * Real.exp (-r * max t 1e-12)) (Real.exp (-r * max t 1e-12)) k := by
    simpa using (hasDerivAt_id k).mul_const (Real.exp (-r * max t 1e-12))
  have hkk : k * Real.exp (-r * max t 1e-12) = kkOf k t r := by rw [kkOf, max_eq_left hk.le]
  have := hasDerivAt_blackForm hg (hasDerivAt_const k (ssOf s t q)) hb (hasDerivAt_const k (wOf t v))
    (ssOf_pos hs t q) (by rw [hkk]; exact kkOf_pos k t r) (wOf_pos t v).ne'
  have e : (fun x => okVal (BSP.bs_value Φ s t x r q v ty)) =ᶠ[nhds k] fun x =>
      ssOf s t q * flipN (eps ty) Φ (D1 (ssOf s t q) (x * Real.exp (-r * max t 1e-12)) (wOf t v))
        - x * Real.exp (-r * max t 1e-12) * flipN (eps ty) Φ (D1 (ssOf s t q) (x * Real.exp (-r * max t 1e-12)) (wOf t v)
            - wOf t v) := by
    filter_upwards [Ioi_mem_nhds hk] with x hx
    rw [bs_value_ok Φ s t x r q v hty, kkOf, max_eq_left (le_of_lt hx : (1e-12 : ℝ) ≤ x)]
  refine (this.congr_of_eventuallyEq e).congr_deriv ?_
  simp only [d2Of, d1Of, hkk]
  ring

/-- C05: the cash-or-nothing digital call as coded is −∂/∂K of the coded vanilla call (rates rebuilt from the discount
factors exactly as the digital kernel does); the digital put is +∂/∂K of the vanilla put. -/
theorem digital_cash_is_strike_derivative (h : IsGaussPair Φ φ c) {s b vol df dq : ℝ} (t_raw : ℝ) (hs : 0 < s)
    (hb : 1e-12 < b) (hv : 1e-12 ≤ vol) (hdf : 0 < df) (hdq : 0 < dq) :
    HasDerivAt (fun x => okVal (BSP.bs_value Φ s (dgT t_raw) x (-(Real.log df) / dgT t_raw)
        (-(Real.log dq) / dgT t_raw) vol 1)) (-(okVal (BSP.digital_value Φ s t_raw df dq b vol 1 1))) b ∧
    HasDerivAt (fun x => okVal (BSP.bs_value Φ s (dgT t_raw) x (-(Real.log df) / dgT t_raw)
        (-(Real.log dq) / dgT t_raw) vol 2)) (okVal (BSP.digital_value Φ s t_raw df dq b vol 2 1)) b := by
  obtain ⟨e1, e2, -, -⟩ := digital_shape Φ s t_raw df dq b vol
  obtain ⟨hd1, hw⟩ := dg_d1_eq t_raw hs hb.le hv hdf hdq
  have hT12 : (1e-12 : ℝ) ≤ dgT t_raw := le_trans (by norm_num) (le_max_right t_raw 1e-6)
  have hd2 : d2Of s (dgT t_raw) b (-(Real.log df) / dgT t_raw) (-(Real.log dq) / dgT t_raw) vol
      = dgD2 s t_raw df dq b vol := by rw [d2Of, hd1, hw, dgD2]
  constructor
  · have := bs_strike_derivative h hs (dgT t_raw) hb (-(Real.log df) / dgT t_raw) (-(Real.log dq) / dgT t_raw) vol
      (Or.inl rfl)
    refine this.congr_deriv ?_
    rw [e1, hd2, max_eq_left hT12]
    simp only [okVal_ok, flipN, eps_one, one_mul]
  · have := bs_strike_derivative h hs (dgT t_raw) hb (-(Real.log df) / dgT t_raw) (-(Real.log dq) / dgT t_raw) vol
      (Or.inr rfl)
    refine this.congr_deriv ?_
    rw [e2, hd2, max_eq_left hT12]
    simp only [okVal_ok, flipN, eps_two, neg_one_mul]
    ring

/-- C05: **second strike derivative = discounted density**: ∂/∂K [−e^{−rT}Φ(d₂)] = e^{−rT} φ(d₂)/(K·σ√T). -/
theorem bs_strike_second_derivative (h : IsNormalCdf Φ φ c) {s : ℝ} (hs : 0 < s) (t : ℝ) {k : ℝ} (hk : 1e-12 < k)
    (r q v : ℝ) :
    HasDerivAt (fun x => -(Real.exp (-r * max t 1e-12) * Φ (d2Of s t x r q v)))
      (Real.exp (-r * max t 1e-12) * φ (d2Of s t k r q v) / (k * wOf t v)) k ∧
    0 ≤ Real.exp (-r * max t 1e-12) * φ (d2Of s t k r q v) / (k * wOf t v) := by
  have hk0 : 0 < k := lt_trans (by norm_num) hk
  have hE := Real.exp_pos (-r * max t 1e-12)
  have hkk : k * Real.exp (-r * max t 1e-12) = kkOf k t r := by rw [kkOf, max_eq_left hk.le]
  constructor
  · have hb : HasDerivAt (fun x : ℝ => x * Real.exp (-r * max t 1e-12)) (Real.exp (-r * max t 1e-12)) k := by
      simpa using (hasDerivAt_id k).mul_const (Real.exp (-r * max t 1e-12))
    have h1 := bf_dualDelta_hasDerivAt h (ssOf_pos hs t q) (mul_pos hk0 hE) (wOf_pos t v).ne'
    have h2 := (h1.comp k hb).const_mul (Real.exp (-r * max t 1e-12))
    have e : (fun x => -(Real.exp (-r * max t 1e-12) * Φ (d2Of s t x r q v))) =ᶠ[nhds k] fun x =>
        Real.exp (-r * max t 1e-12) * ((fun b => -Φ (D1 (ssOf s t q) b (wOf t v) - wOf t v)) ∘
          fun x : ℝ => x * Real.exp (-r * max t 1e-12)) x := by
      filter_upwards [Ioi_mem_nhds hk] with x hx
      simp only [Function.comp, d2Of, d1Of, kkOf, max_eq_left (le_of_lt hx : (1e-12 : ℝ) ≤ x)]
      ring
    refine (h2.congr_of_eventuallyEq e).congr_deriv ?_
    simp only [d2Of, d1Of, hkk]
    have := (wOf_pos t v).ne'
    rw [← hkk]
    field_simp
  · have := h.pdf_nonneg (d2Of s t k r q v)
    have := wOf_pos t v
    positivity

/-- C05: the coded call and put are **convex in the strike** on [1e-12, ∞) (the whole domain K > 0 of the property). -/
theorem bs_value_convexOn_strike (h : IsNormalCdf Φ φ c) {s : ℝ} (hs : 0 < s) (t r q v : ℝ) :
    ConvexOn ℝ (Set.Ici (1e-12 : ℝ)) (fun k => okVal (BSP.bs_value Φ s t k r q v 1)) ∧
    ConvexOn ℝ (Set.Ici (1e-12 : ℝ)) (fun k => okVal (BSP.bs_value Φ s t k r q v 2)) := by
  have hE := Real.exp_pos (-r * max t 1e-12)
  have key : ∀ g : ℝ → ℝ, ConvexOn ℝ (Set.Ioi 0) g →
      ConvexOn ℝ (Set.Ici (1e-12 : ℝ)) (fun k => g (kkOf k t r)) := by
    intro g hg
    refine ⟨convex_Ici _, ?_⟩
    intro x hx y hy a b ha hb hab
    have hx0 : (1e-12 : ℝ) ≤ x := hx
    have hy0 : (1e-12 : ℝ) ≤ y := hy
    have hxy : (1e-12 : ℝ) ≤ a • x + b • y := (convex_Ici (1e-12 : ℝ)) hx hy ha hb hab
    have e : kkOf (a • x + b • y) t r = a • kkOf x t r + b • kkOf y t r := by
      simp only [smul_eq_mul] at hxy ⊢
      simp only [kkOf, max_eq_left hx0, max_eq_left hy0, max_eq_left hxy]
      ring
    simp only [e]
    exact hg.2 (kkOf_pos x t r) (kkOf_pos y t r) ha hb hab
  constructor
  · have := key _ (bfCall_convexOn_b h (ssOf_pos hs t q) (wOf_pos t v))
    simpa only [(bs_value_eq_bf Φ s t _ r q v).1] using this
  · have := key _ (bfPut_convexOn_b h (ssOf_pos hs t q) (wOf_pos t v))
    simpa only [(bs_value_eq_bf Φ s t _ r q v).2] using this

/-! ### what the clamps do; small volatility -/

/-- the floor of the total volatility as coded: σ√T ≥ 1e-12·1e-6 -/
theorem wOf_floor (t v : ℝ) : (1e-18 : ℝ) ≤ wOf t v := by
  have h1 : (1e-6 : ℝ) ≤ Real.sqrt (max t 1e-12) := by
    have e : (1e-6 : ℝ) = Real.sqrt (1e-6 * 1e-6) := (Real.sqrt_mul_self (by norm_num)).symm
    rw [e]
    exact Real.sqrt_le_sqrt (le_trans (by norm_num) (le_max_right t 1e-12))
  have h2 : (1e-12 : ℝ) ≤ max v 1e-12 := le_max_right _ _
  unfold wOf
  calc (1e-18 : ℝ) = 1e-12 * 1e-6 := by norm_num
    _ ≤ max v 1e-12 * Real.sqrt (max t 1e-12) := mul_le_mul h2 h1 (by norm_num) (le_trans (by norm_num) h2)

/-- below the clamps the coded value does not move: σ ≤ 1e-12 is priced at σ = 1e-12, T ≤ 1e-12 at T = 1e-12,
K ≤ 1e-12 at K = 1e-12 (there is no other special case for small inputs in `bs_value`). -/
theorem bs_value_below_clamp (Φ : ℝ → ℝ) (s t k r q v : ℝ) (ty : Int) :
    (v ≤ 1e-12 → BSP.bs_value Φ s t k r q v ty = BSP.bs_value Φ s t k r q 1e-12 ty) ∧
    (t ≤ 1e-12 → BSP.bs_value Φ s t k r q v ty = BSP.bs_value Φ s 1e-12 k r q v ty) ∧
    (k ≤ 1e-12 → BSP.bs_value Φ s t k r q v ty = BSP.bs_value Φ s t 1e-12 r q v ty) := by
  refine ⟨fun hv => ?_, fun ht => ?_, fun hk => ?_⟩
  · simp only [BSP.bs_value, max_eq_right hv, max_self]
  · simp only [BSP.bs_value, max_eq_right ht, max_self]
  · simp only [BSP.bs_value, max_eq_right hk, max_self]

/-- C05: **small volatility as coded**: the value lies between the discounted intrinsic value and the discounted
intrinsic value + K e^{−rT}·c·σ√T (c = φ(0)); so value → discounted intrinsic linearly as σ√T → 0 — and never below. -/
theorem bs_zero_vol_within (h : IsNormalCdf Φ φ c) {s : ℝ} (hs : 0 < s) (t k r q v : ℝ) :
    (max (ssOf s t q - kkOf k t r) 0 ≤ okVal (BSP.bs_value Φ s t k r q v 1) ∧
      okVal (BSP.bs_value Φ s t k r q v 1) ≤ max (ssOf s t q - kkOf k t r) 0 + kkOf k t r * c * wOf t v) ∧
    (max (kkOf k t r - ssOf s t q) 0 ≤ okVal (BSP.bs_value Φ s t k r q v 2) ∧
      okVal (BSP.bs_value Φ s t k r q v 2) ≤ max (kkOf k t r - ssOf s t q) 0 + kkOf k t r * c * wOf t v) := by
  obtain ⟨⟨b1, -⟩, ⟨b2, -⟩⟩ := bs_value_bounds h hs t k r q v
  obtain ⟨e1, e2⟩ := bs_value_eq_bf Φ s t k r q v
  refine ⟨⟨b1, ?_⟩, ⟨b2, ?_⟩⟩
  · rw [e1]; exact bfCall_le_intrinsic_add h (ssOf_pos hs t q) (kkOf_pos k t r) (wOf_pos t v)
  · rw [e2]; exact bfPut_le_intrinsic_add h (ssOf_pos hs t q) (kkOf_pos k t r) (wOf_pos t v)

/-- C05: **at-the-money-forward time value is of first order in σ√T**: if S e^{−qT} = K e^{−rT} (intrinsic value 0) then
call = put ≥ S e^{−qT}·σ√T·φ(d₁) with d₁ = σ√T/2.  Hence NO threshold on σ√T (or on σ, T) below which returning the
intrinsic value is correct to better than first order. -/
theorem bs_atm_time_value_lower (h : IsNormalCdf Φ φ c) {s : ℝ} (hs : 0 < s) (t k r q v : ℝ)
    (hatm : ssOf s t q = kkOf k t r) :
    d1Of s t k r q v = wOf t v / 2 ∧ max (ssOf s t q - kkOf k t r) 0 = 0 ∧
    ssOf s t q * wOf t v * φ (d1Of s t k r q v) ≤ okVal (BSP.bs_value Φ s t k r q v 1) ∧
    okVal (BSP.bs_value Φ s t k r q v 2) = okVal (BSP.bs_value Φ s t k r q v 1) := by
  obtain ⟨e1, e2⟩ := bs_value_eq_bf Φ s t k r q v
  have hd : d1Of s t k r q v = wOf t v / 2 := by
    unfold d1Of D1; rw [← hatm, div_self (ssOf_pos hs t q).ne', Real.log_one]; ring
  refine ⟨hd, by rw [hatm, sub_self, max_self], ?_, ?_⟩
  · rw [e1, hd, ← hatm]
    exact bfCall_atm_lower h (ssOf_pos hs t q) (wOf_pos t v).le
  · rw [e1, e2]
    have := bf_parity h.symm (ssOf s t q) (kkOf k t r) (wOf t v)
    rw [hatm] at this ⊢
    linarith

/-- … in numbers: for σ√T ≤ 1 the at-the-money value is at least (7/8)·c·S e^{−qT}·σ√T > 0 = intrinsic. -/
theorem bs_atm_time_value_lower_lin (h : IsNormalCdf Φ φ c) {s : ℝ} (hs : 0 < s) (t k r q v : ℝ)
    (hatm : ssOf s t q = kkOf k t r) (hw : wOf t v ≤ 1) :
    7 / 8 * c * ssOf s t q * wOf t v ≤ okVal (BSP.bs_value Φ s t k r q v 1) ∧
    0 < okVal (BSP.bs_value Φ s t k r q v 1) := by
  have e1 := (bs_value_eq_bf Φ s t k r q v).1
  have hl : 7 / 8 * c * ssOf s t q * wOf t v ≤ okVal (BSP.bs_value Φ s t k r q v 1) := by
    rw [e1, ← hatm]
    exact bfCall_atm_lower_lin h (ssOf_pos hs t q) (wOf_pos t v).le hw
  refine ⟨hl, lt_of_lt_of_le ?_ hl⟩
  have := h.cpos; have := ssOf_pos hs t q; have := wOf_pos t v
  positivity

/-- a threshold such as σ√T < 1e-3 ⇒ "return intrinsic" is refuted at S = K = 100, r = q = 0, T = 1, σ = 5e-4:
the coded value is at least (7/8)·c·100·5e-4 (≈ 0.0175 for the standard normal), the intrinsic value is 0. -/
example (h : IsNormalCdf Φ φ c) : 7 / 8 * c * 100 * 5e-4 ≤ okVal (BSP.bs_value Φ 100 1 100 0 0 5e-4 1) := by
  have hss : ssOf 100 1 0 = 100 := by simp [ssOf]
  have hkk : kkOf 100 1 0 = 100 := by
    simp only [kkOf, neg_zero, zero_mul, Real.exp_zero, mul_one]; norm_num
  have hw : wOf 1 5e-4 = 5e-4 := by
    simp only [wOf]; rw [max_eq_left (by norm_num), max_eq_left (by norm_num), Real.sqrt_one, mul_one]
  have := (bs_atm_time_value_lower_lin h (by norm_num : (0 : ℝ) < 100) 1 100 0 0 5e-4 (by rw [hss, hkk])
    (by rw [hw]; norm_num)).1
  rwa [hss, hw] at this

/-! ### digital options: bounds -/

/-- C05: 0 ≤ cash-or-nothing ≤ df and 0 ≤ asset-or-nothing ≤ S·dq, calls and puts, as coded. -/
theorem digital_bounds (h : IsNormalCdf Φ φ c) {s : ℝ} (hs : 0 ≤ s) (t_raw : ℝ) {df dq : ℝ} (hdf : 0 < df)
    (hdq : 0 < dq) (b vol : ℝ) :
    (0 ≤ okVal (BSP.digital_value Φ s t_raw df dq b vol 1 1) ∧ okVal (BSP.digital_value Φ s t_raw df dq b vol 1 1) ≤ df) ∧
    (0 ≤ okVal (BSP.digital_value Φ s t_raw df dq b vol 2 1) ∧ okVal (BSP.digital_value Φ s t_raw df dq b vol 2 1) ≤ df) ∧
    (0 ≤ okVal (BSP.digital_value Φ s t_raw df dq b vol 1 2) ∧
      okVal (BSP.digital_value Φ s t_raw df dq b vol 1 2) ≤ s * dq) ∧
    (0 ≤ okVal (BSP.digital_value Φ s t_raw df dq b vol 2 2) ∧
      okVal (BSP.digital_value Φ s t_raw df dq b vol 2 2) ≤ s * dq) := by
  obtain ⟨e1, e2, e3, e4⟩ := digital_shape Φ s t_raw df dq b vol
  rw [e1, e2, e3, e4]
  simp only [okVal_ok, dg_disc hdf, dg_disc hdq]
  have hsq : 0 ≤ s * dq := mul_nonneg hs hdq.le
  refine ⟨⟨mul_nonneg hdf.le (h.nonneg _), ?_⟩, ⟨mul_nonneg hdf.le (h.nonneg _), ?_⟩,
    ⟨mul_nonneg hsq (h.nonneg _), ?_⟩, ⟨mul_nonneg hsq (h.nonneg _), ?_⟩⟩
  · nlinarith [h.le_one (dgD2 s t_raw df dq b vol)]
  · nlinarith [h.le_one (-dgD2 s t_raw df dq b vol)]
  · nlinarith [h.le_one (dgD1 s t_raw df dq b vol)]
  · nlinarith [h.le_one (-dgD1 s t_raw df dq b vol)]

end FinVerif.Props.C05
