/-
  C05 (part i) — relations between the generated functions:
    * the generated `bs_intrinsic` is max(S e^{−qT} − K e^{−rT}, 0) (resp. the put's) and the generated `bs_value` is never
      below it and within K e^{−rT}·c·σ√T of it (so the "Option Price is below the intrinsic value" error of
      `bs_implied_volatility` cannot fire on a price produced by `bs_value`, and value → intrinsic as σ√T → 0);
    * the ITM→OTM flip of `bs_implied_volatility` is sound: σ reprices the call at `price` iff it reprices the put at
      `price − (S e^{−qT} − K e^{−rT})` — the equation handed to the solver has the same roots;
    * put–call parity of the Greeks as coded: Δ_c − Δ_p = e^{−qT}, θ_c − θ_p = q·S e^{−qT} − r·K e^{−rT},
      ρ_c − ρ_p = T·K e^{−rT}; gamma, vega, vanna do not depend on the option type; delta bounds, gamma ≥ 0;
    * Black-76 is Black–Scholes with q = r on the forward (`black_value = bs_value`, as coded, in the domain).
-/
import FinVerif.Props.C05h

set_option linter.unusedVariables false
set_option linter.unusedSimpArgs false

namespace FinVerif.Props.C05
open FinVerif FinVerif.Gen FinVerif.C05 FinVerif.C08

variable {Φ φ : ℝ → ℝ} {c : ℝ}

/-! ### the generated intrinsic value -/

/-- the generated `bs_intrinsic` (no clamps in it): e^{−rt}·max(S e^{(r−q)t} − K, 0) = max(S e^{−qt} − K e^{−rt}, 0). -/
theorem bs_intrinsic_eq (s t k r q : ℝ) :
    BSP.bs_intrinsic s t k r q 1 = max (s * Real.exp (-q * t) - k * Real.exp (-r * t)) 0 ∧
    BSP.bs_intrinsic s t k r q 2 = max (k * Real.exp (-r * t) - s * Real.exp (-q * t)) 0 := by
  have hE := Real.exp_pos (-r * t)
  have e : Real.exp (-r * t) * (s * Real.exp ((r - q) * t)) = s * Real.exp (-q * t) := by
    rw [mul_left_comm, ← Real.exp_add]; congr 2; ring
  constructor
  · simp only [BSP.bs_intrinsic, decide_eq_true_eq, eq_self_iff_true, if_true]
    rw [mul_max_of_nonneg _ _ hE.le, mul_zero, mul_sub, e, mul_comm (Real.exp (-r * t)) k]
  · simp only [BSP.bs_intrinsic, decide_eq_true_eq, show ¬ ((2 : Int) = 1) by decide, if_false]
    rw [mul_max_of_nonneg _ _ hE.le, mul_zero, mul_sub, e, mul_comm (Real.exp (-r * t)) k]

/-- C05: in the domain the coded value is never below the coded intrinsic value and exceeds it by at most
K e^{−rT}·c·σ√T: **value → discounted intrinsic as σ√T → 0**, at a linear rate, from above. -/
theorem bs_value_vs_coded_intrinsic (h : IsNormalCdf Φ φ c) {s : ℝ} (hs : 0 < s) {t k : ℝ} (ht : 1e-12 ≤ t)
    (hk : 1e-12 ≤ k) (r q : ℝ) {v : ℝ} (hv : 1e-12 ≤ v) {ty : Int} (hty : ty = 1 ∨ ty = 2) :
    BSP.bs_intrinsic s t k r q ty ≤ okVal (BSP.bs_value Φ s t k r q v ty) ∧
    okVal (BSP.bs_value Φ s t k r q v ty) ≤ BSP.bs_intrinsic s t k r q ty + k * Real.exp (-r * t) * c * (v * Real.sqrt t) := by
  obtain ⟨hss, hkk, hw⟩ := bs_clamps_inactive ht hk hv s r q
  obtain ⟨⟨a1, a2⟩, ⟨b1, b2⟩⟩ := bs_zero_vol_within h hs t k r q v
  obtain ⟨i1, i2⟩ := bs_intrinsic_eq s t k r q
  simp only [hss, hkk, hw] at a1 a2 b1 b2
  rcases hty with rfl | rfl
  · rw [i1]; exact ⟨a1, a2⟩
  · rw [i2]; exact ⟨b1, b2⟩

/-- the solver's guard: `time_value = price − intrinsic < 0 ⇒ FinError` never fires on a price produced by `bs_value` -/
theorem bs_model_price_time_value_nonneg (h : IsNormalCdf Φ φ c) {s : ℝ} (hs : 0 < s) {t k : ℝ} (ht : 1e-12 ≤ t)
    (hk : 1e-12 ≤ k) (r q : ℝ) {v : ℝ} (hv : 1e-12 ≤ v) {ty : Int} (hty : ty = 1 ∨ ty = 2) :
    ¬ (okVal (BSP.bs_value Φ s t k r q v ty) - BSP.bs_intrinsic s t k r q ty < 0) :=
  not_lt.mpr (sub_nonneg.mpr (bs_value_vs_coded_intrinsic h hs ht hk r q hv hty).1)

/-! ### the ITM → OTM flip of `bs_implied_volatility` -/

/-- C05: the flip by put–call parity keeps the roots: σ reprices the CALL at `price` iff it reprices the PUT at
`price − (S e^{−qT} − K e^{−rT})` (the two lines `price = price ∓ (div_adj_stock_price − k·df)` of the solver). -/
theorem bs_reprice_flip_equiv (hsym : ∀ x, Φ x + Φ (-x) = 1) (s : ℝ) {t k : ℝ} (ht : 1e-12 ≤ t) (hk : 1e-12 ≤ k)
    (r q v price : ℝ) :
    okVal (BSP.bs_value Φ s t k r q v 1) = price ↔
    okVal (BSP.bs_value Φ s t k r q v 2) = price - (s * Real.exp (-q * t) - k * Real.exp (-r * t)) := by
  have hp := bs_put_call_parity_gen Φ s t k r q v (hsym _) (hsym _)
  rw [ssOf, kkOf, max_eq_left ht, max_eq_left hk] at hp
  constructor <;> intro hh <;> linarith

/-- after the flip the target is out of the money: exactly one of the two coded intrinsic values is positive -/
theorem bs_intrinsic_flip_otm (s t k r q : ℝ) (hpos : 0 < BSP.bs_intrinsic s t k r q 1) :
    BSP.bs_intrinsic s t k r q 2 = 0 := by
  obtain ⟨i1, i2⟩ := bs_intrinsic_eq s t k r q
  rw [i1] at hpos; rw [i2]
  have : 0 < s * Real.exp (-q * t) - k * Real.exp (-r * t) := by
    by_contra hn; rw [max_eq_right (not_lt.mp hn)] at hpos; exact lt_irrefl _ hpos
  exact max_eq_right (by linarith)

/-! ### put–call parity of the Greeks as coded; sign and bounds -/

/-- C05: Δ_call − Δ_put = e^{−qT}, θ_call − θ_put = q·S e^{−qT} − r·K e^{−rT}, ρ_call − ρ_put = T·K e^{−rT}
(any cdf symmetric at d₁, d₂ — for the coded `N`: d₁, d₂ ≠ 0); gamma, vega and vanna ignore the option type. -/
theorem bs_greeks_put_call_parity (Φ φ : ℝ → ℝ) (s t k r q v : ℝ)
    (h1 : Φ (d1Of s t k r q v) + Φ (-d1Of s t k r q v) = 1)
    (h2 : Φ (d2Of s t k r q v) + Φ (-d2Of s t k r q v) = 1) :
    okVal (BSP.bs_delta Φ s t k r q v 1) - okVal (BSP.bs_delta Φ s t k r q v 2) = Real.exp (-q * max t 1e-12) ∧
    okVal (BSP.bs_theta Φ φ s t k r q v 1) - okVal (BSP.bs_theta Φ φ s t k r q v 2)
      = q * ssOf s t q - r * kkOf k t r ∧
    okVal (BSP.bs_rho Φ s t k r q v 1) - okVal (BSP.bs_rho Φ s t k r q v 2) = max t 1e-12 * kkOf k t r ∧
    BSP.bs_gamma φ s t k r q v 1 = BSP.bs_gamma φ s t k r q v 2 ∧
    BSP.bs_vega φ s t k r q v 1 = BSP.bs_vega φ s t k r q v 2 ∧
    BSP.bs_vanna φ s t k r q v 1 = BSP.bs_vanna φ s t k r q v 2 := by
  refine ⟨?_, ?_, ?_, rfl, rfl, rfl⟩
  · rw [bs_delta_shape Φ s t k r q v (Or.inl rfl), bs_delta_shape Φ s t k r q v (Or.inr rfl)]
    simp only [okVal_ok, flipN, eps_one, eps_two, one_mul, neg_one_mul, neg_neg]
    linear_combination Real.exp (-q * max t 1e-12) * h1
  · rw [bs_theta_shape Φ φ s t k r q v (Or.inl rfl), bs_theta_shape Φ φ s t k r q v (Or.inr rfl)]
    simp only [okVal_ok, flipN, eps_one, eps_two, one_mul, neg_one_mul, neg_neg]
    linear_combination q * ssOf s t q * h1 - r * kkOf k t r * h2
  · rw [bs_rho_shape Φ s t k r q v (Or.inl rfl), bs_rho_shape Φ s t k r q v (Or.inr rfl)]
    simp only [okVal_ok, flipN, eps_one, eps_two, one_mul, neg_one_mul, neg_neg]
    linear_combination max t 1e-12 * kkOf k t r * h2

/-- the theta parity is minus the T-derivative of the value parity S e^{−qT} − K e^{−rT} -/
theorem bs_parity_rhs_hasDerivAt (s k r q t : ℝ) :
    HasDerivAt (fun x : ℝ => s * Real.exp (-q * x) - k * Real.exp (-r * x))
      (-(q * (s * Real.exp (-q * t)) - r * (k * Real.exp (-r * t)))) t := by
  have h1 : HasDerivAt (fun x : ℝ => -q * x) (-q) t := by simpa using (hasDerivAt_id t).const_mul (-q)
  have h2 : HasDerivAt (fun x : ℝ => -r * x) (-r) t := by simpa using (hasDerivAt_id t).const_mul (-r)
  refine (((h1.exp).const_mul s).sub ((h2.exp).const_mul k)).congr_deriv ?_
  ring

/-- C05: 0 ≤ Δ_call ≤ e^{−qT}, −e^{−qT} ≤ Δ_put ≤ 0, Γ ≥ 0, vega ≥ 0 as coded (S > 0). -/
theorem bs_delta_gamma_bounds (h : IsNormalCdf Φ φ c) {s : ℝ} (hs : 0 < s) (t k r q v : ℝ) (ty : Int) :
    (0 ≤ okVal (BSP.bs_delta Φ s t k r q v 1) ∧ okVal (BSP.bs_delta Φ s t k r q v 1) ≤ Real.exp (-q * max t 1e-12)) ∧
    (-Real.exp (-q * max t 1e-12) ≤ okVal (BSP.bs_delta Φ s t k r q v 2) ∧ okVal (BSP.bs_delta Φ s t k r q v 2) ≤ 0) ∧
    0 ≤ BSP.bs_gamma φ s t k r q v ty ∧ 0 ≤ BSP.bs_vega φ s t k r q v ty := by
  have hE := Real.exp_pos (-q * max t 1e-12)
  rw [bs_delta_shape Φ s t k r q v (Or.inl rfl), bs_delta_shape Φ s t k r q v (Or.inr rfl), bs_gamma_shape,
    bs_vega_shape]
  simp only [okVal_ok, flipN, eps_one, eps_two, one_mul, neg_one_mul]
  have n1 := h.nonneg (d1Of s t k r q v)
  have l1 := h.le_one (d1Of s t k r q v)
  have n2 := h.nonneg (-d1Of s t k r q v)
  have l2 := h.le_one (-d1Of s t k r q v)
  have hp := h.pdf_nonneg (d1Of s t k r q v)
  have hw := wOf_pos t v
  have hss := ssOf_pos hs t q
  refine ⟨⟨mul_nonneg hE.le n1, by nlinarith⟩, ⟨by nlinarith, by nlinarith⟩, ?_, ?_⟩
  · positivity
  · have : 0 ≤ Real.sqrt (max t 1e-12) := Real.sqrt_nonneg _
    positivity

/-! ### Black-76 is Black–Scholes on the forward with q = r -/

/-- C05: `black_value(F, t, K, r, σ) = bs_value(F, t, K, r, q = r, σ)` as coded (F > 0; t, K at or above the clamps, where
the raw `t`, `k` of `black_value` and the clamped ones of `calculate_d1_d2` coincide). -/
theorem black_value_eq_bs_value (Φ : ℝ → ℝ) {f k : ℝ} (hf : 0 < f) (hk : 1e-12 ≤ k) {t : ℝ} (ht : 1e-12 ≤ t)
    (r v : ℝ) {ty : Int} (hty : ty = 1 ∨ ty = 2) :
    okVal (BSP.black_value Φ f t k r v ty) = okVal (BSP.bs_value Φ f t k r r v ty) := by
  rw [black_value_ok Φ hf hk t r v hty, bs_value_ok Φ f t k r r v hty]
  simp only [ssOf, kkOf, wOf, max_eq_left ht, max_eq_left hk, mul_comm (Real.exp (-r * t))]

example (Φ : ℝ → ℝ) : okVal (BSP.black_value Φ 100 1 105 0.03 0.25 2) = okVal (BSP.bs_value Φ 100 1 105 0.03 0.03 0.25 2) :=
  black_value_eq_bs_value Φ (by norm_num) (by norm_num) (by norm_num) 0.03 0.25 (Or.inr rfl)

end FinVerif.Props.C05
