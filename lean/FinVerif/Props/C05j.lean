/-
  C05 (part j) — monotone in volatility for EVERY real σ (the clamp is monotone), "implied volatility inverts value
  wherever vega is not negligible" as an error bound, convexity in the strike of the generated Black-76 value, and
  monotonicity of the generated digital values in the barrier.
-/
import FinVerif.Props.C05i
import FinVerif.Props.C05g
import FinVerif.Props.C05e

set_option linter.unusedVariables false
set_option linter.unusedSimpArgs false

namespace FinVerif.Props.C05
open FinVerif FinVerif.Gen FinVerif.C05 FinVerif.C08

variable {Φ φ : ℝ → ℝ} {c : ℝ}

/-! ### monotone in volatility, all σ -/

theorem wOf_mono (t : ℝ) : Monotone (fun v => wOf t v) := fun v v' hvv =>
  mul_le_mul_of_nonneg_right (max_le_max hvv le_rfl) (Real.sqrt_nonneg _)

/-- C05: the coded call and put are **nondecreasing in σ for every pair of real volatilities** (below the clamp the
value is constant, above it strictly increasing by `bs_value_strictMono_in_vol`). -/
theorem bs_value_monotone_in_vol (h : IsNormalCdf Φ φ c) {s : ℝ} (hs : 0 < s) (t k r q : ℝ) :
    Monotone (fun v => okVal (BSP.bs_value Φ s t k r q v 1)) ∧
    Monotone (fun v => okVal (BSP.bs_value Φ s t k r q v 2)) := by
  constructor
  · intro v v' hvv
    simp only [(bs_value_eq_bf Φ s t k r q _).1]
    exact bfCall_monotoneOn_w h (ssOf_pos hs t q) (kkOf_pos k t r) (wOf_pos t v) (wOf_pos t v') (wOf_mono t hvv)
  · intro v v' hvv
    simp only [(bs_value_eq_bf Φ s t k r q _).2]
    exact bfPut_monotoneOn_w h (ssOf_pos hs t q) (kkOf_pos k t r) (wOf_pos t v) (wOf_pos t v') (wOf_mono t hvv)

/-! ### implied volatility inverts value wherever vega is not negligible -/

/-- C05: if σ₁ reprices the option to within `tol` of the value at σ₀ and the coded vega is at least m > 0 between
them, then |σ₁ − σ₀| ≤ tol/m.  (The solver's post-condition `|value(σ₁) − price| ≤ tol` is the hypothesis; the
harness checks it on every case it runs.) -/
theorem bs_implied_vol_error (h : IsGaussPair Φ φ c) {s : ℝ} (hs : 0 < s) (t k r q : ℝ) {ty : Int}
    (hty : ty = 1 ∨ ty = 2) {v₀ v₁ m tol : ℝ} (h0 : 1e-12 < v₀) (h1 : 1e-12 < v₁) (hm : 0 < m)
    (hvega : ∀ x ∈ Set.uIcc v₀ v₁, m ≤ BSP.bs_vega φ s t k r q x ty)
    (hpost : |okVal (BSP.bs_value Φ s t k r q v₁ ty) - okVal (BSP.bs_value Φ s t k r q v₀ ty)| ≤ tol) :
    |v₁ - v₀| ≤ tol / m := by
  have hd : ∀ x ∈ Set.uIcc v₀ v₁, HasDerivAt (fun x => okVal (BSP.bs_value Φ s t k r q x ty))
      (BSP.bs_vega φ s t k r q x ty) x := fun x hx =>
    bs_vega_is_derivative h hs t k r q (lt_of_lt_of_le (lt_min h0 h1) (Set.mem_uIcc.mp hx |>.elim
      (fun hh => min_le_iff.mpr (Or.inl hh.1)) (fun hh => min_le_iff.mpr (Or.inr hh.1)))) hty
  exact le_trans (abs_sub_le_of_deriv_ge hm hd hvega) (div_le_div_of_nonneg_right hpost hm.le)

/-- the Black-76 version, two-sided -/
theorem black_implied_vol_error_abs (h : IsGaussPair Φ φ c) {f k : ℝ} (hf : 0 < f) (hk : 1e-12 ≤ k) {t : ℝ}
    (ht : 1e-12 ≤ t) (r : ℝ) {ty : Int} (hty : ty = 1 ∨ ty = 2) {v₀ v₁ m tol : ℝ} (h0 : 1e-12 < v₀) (h1 : 1e-12 < v₁)
    (hm : 0 < m) (hvega : ∀ x ∈ Set.uIcc v₀ v₁, m ≤ okVal (BSP.black_vega φ f t k r x ty))
    (hpost : |okVal (BSP.black_value Φ f t k r v₁ ty) - okVal (BSP.black_value Φ f t k r v₀ ty)| ≤ tol) :
    |v₁ - v₀| ≤ tol / m := by
  have hd : ∀ x ∈ Set.uIcc v₀ v₁, HasDerivAt (fun x => okVal (BSP.black_value Φ f t k r x ty))
      (okVal (BSP.black_vega φ f t k r x ty)) x := fun x hx =>
    black_vega_is_derivative h hf hk ht r (lt_of_lt_of_le (lt_min h0 h1) (Set.mem_uIcc.mp hx |>.elim
      (fun hh => min_le_iff.mpr (Or.inl hh.1)) (fun hh => min_le_iff.mpr (Or.inr hh.1)))) hty
  exact le_trans (abs_sub_le_of_deriv_ge hm hd hvega) (div_le_div_of_nonneg_right hpost hm.le)

/-- non-vacuity of the vega hypothesis: on any interval the coded vega has the positive lower bound required
somewhere — here simply: vega > 0 at each point (`bs_vega_pos`), e.g. S = 100, K = 105, T = 1, σ = 25 %. -/
example (h : IsGaussPair Φ φ c) (hc : 0 < c) : 0 < BSP.bs_vega φ 100 1 105 0.03 0.01 0.25 1 :=
  bs_vega_pos h hc (by norm_num) 1 105 0.03 0.01 0.25 1

/-! ### Black-76: convex in the strike -/

/-- C05: the coded Black-76 call and put are convex in the strike on [1e-12, ∞) (F > 0). -/
theorem black_value_convexOn_strike (h : IsNormalCdf Φ φ c) {f : ℝ} (hf : 0 < f) (t r v : ℝ) :
    ConvexOn ℝ (Set.Ici (1e-12 : ℝ)) (fun k => okVal (BSP.black_value Φ f t k r v 1)) ∧
    ConvexOn ℝ (Set.Ici (1e-12 : ℝ)) (fun k => okVal (BSP.black_value Φ f t k r v 2)) := by
  have hE := Real.exp_pos (-r * t)
  have hw : 0 < max v 1e-12 * Real.sqrt (max t 1e-12) := by have := wOf_pos t v; unfold wOf at this; exact this
  have key : ∀ g : ℝ → ℝ, ConvexOn ℝ (Set.Ioi 0) g →
      ConvexOn ℝ (Set.Ici (1e-12 : ℝ)) (fun k => g (Real.exp (-r * t) * k)) := by
    intro g hg
    refine ⟨convex_Ici _, ?_⟩
    intro x hx y hy a b ha hb hab
    have hx0 : (0 : ℝ) < x := lt_of_lt_of_le (by norm_num) (show (1e-12 : ℝ) ≤ x from hx)
    have hy0 : (0 : ℝ) < y := lt_of_lt_of_le (by norm_num) (show (1e-12 : ℝ) ≤ y from hy)
    have e : Real.exp (-r * t) * (a • x + b • y) = a • (Real.exp (-r * t) * x) + b • (Real.exp (-r * t) * y) := by
      simp only [smul_eq_mul]; ring
    simp only [e]
    exact hg.2 (mul_pos hE hx0) (mul_pos hE hy0) ha hb hab
  have e1 : ∀ k ∈ Set.Ici (1e-12 : ℝ), okVal (BSP.black_value Φ f t k r v 1)
      = bfCall Φ (Real.exp (-r * t) * f) (Real.exp (-r * t) * k) (max v 1e-12 * Real.sqrt (max t 1e-12)) := by
    intro k hk
    rw [black_value_ok Φ hf hk t r v (Or.inl rfl)]
    simp only [flipN, eps_one, bfCall, one_mul]
  have e2 : ∀ k ∈ Set.Ici (1e-12 : ℝ), okVal (BSP.black_value Φ f t k r v 2)
      = bfPut Φ (Real.exp (-r * t) * f) (Real.exp (-r * t) * k) (max v 1e-12 * Real.sqrt (max t 1e-12)) := by
    intro k hk
    rw [black_value_ok Φ hf hk t r v (Or.inr rfl)]
    simp only [flipN, eps_two, bfPut]
    ring_nf
  constructor
  · exact (key _ (bfCall_convexOn_b h (mul_pos hE hf) hw)).congr (fun k hk => (e1 k hk).symm)
  · exact (key _ (bfPut_convexOn_b h (mul_pos hE hf) hw)).congr (fun k hk => (e2 k hk).symm)

/-! ### digital options: monotone in the barrier -/

theorem dgD1_antitone {s : ℝ} (hs : 0 < s) (t_raw df dq : ℝ) {vol : ℝ} (hv : 1e-12 ≤ vol) {b b' : ℝ} (hb : 0 < b)
    (hbb : b ≤ b') : dgD1 s t_raw df dq b' vol ≤ dgD1 s t_raw df dq b vol := by
  have hv0 : 0 < vol := lt_of_lt_of_le (by norm_num) hv
  have hvol : dgVol vol = vol := by unfold dgVol; rw [abs_of_pos hv0, if_neg (not_lt.mpr hv)]
  have hsq : 0 < Real.sqrt (dgT t_raw) := Real.sqrt_pos.mpr (dgT_pos t_raw)
  have hlog : Real.log (s / b') ≤ Real.log (s / b) :=
    Real.log_le_log (div_pos hs (lt_of_lt_of_le hb hbb)) (div_le_div_of_nonneg_left hs.le hb hbb)
  unfold dgD1
  rw [hvol]
  apply div_le_div_of_nonneg_right _ hsq.le
  apply div_le_div_of_nonneg_right _ hv0.le
  linarith

/-- C05: as coded, the digital CALL (cash-or-nothing and asset-or-nothing) falls and the digital PUT rises when the
barrier rises (S > 0, σ ≥ 1e-12, df, dq > 0). -/
theorem digital_monotone_in_barrier (h : IsNormalCdf Φ φ c) {s : ℝ} (hs : 0 < s) (t_raw : ℝ) {df dq : ℝ}
    (hdf : 0 < df) (hdq : 0 < dq) {vol : ℝ} (hv : 1e-12 ≤ vol) {b b' : ℝ} (hb : 0 < b) (hbb : b ≤ b') :
    okVal (BSP.digital_value Φ s t_raw df dq b' vol 1 1) ≤ okVal (BSP.digital_value Φ s t_raw df dq b vol 1 1) ∧
    okVal (BSP.digital_value Φ s t_raw df dq b vol 2 1) ≤ okVal (BSP.digital_value Φ s t_raw df dq b' vol 2 1) ∧
    okVal (BSP.digital_value Φ s t_raw df dq b' vol 1 2) ≤ okVal (BSP.digital_value Φ s t_raw df dq b vol 1 2) ∧
    okVal (BSP.digital_value Φ s t_raw df dq b vol 2 2) ≤ okVal (BSP.digital_value Φ s t_raw df dq b' vol 2 2) := by
  obtain ⟨e1, e2, e3, e4⟩ := digital_shape Φ s t_raw df dq b vol
  obtain ⟨e1', e2', e3', e4'⟩ := digital_shape Φ s t_raw df dq b' vol
  rw [e1, e2, e3, e4, e1', e2', e3', e4']
  simp only [okVal_ok, dg_disc hdf, dg_disc hdq]
  have hd1 := dgD1_antitone hs t_raw df dq hv hb hbb
  have hd2 : dgD2 s t_raw df dq b' vol ≤ dgD2 s t_raw df dq b vol := by unfold dgD2; linarith
  have hsq : 0 ≤ s * dq := (mul_pos hs hdq).le
  exact ⟨mul_le_mul_of_nonneg_left (h.mono hd2) hdf.le,
    mul_le_mul_of_nonneg_left (h.mono (neg_le_neg hd2)) hdf.le,
    mul_le_mul_of_nonneg_left (h.mono hd1) hsq,
    mul_le_mul_of_nonneg_left (h.mono (neg_le_neg hd1)) hsq⟩

end FinVerif.Props.C05
