/-
  C05 (part p) — the pricing methods of `EquityVanillaOption` (and of the model classes `BlackScholes`, `Black`) are
  functions of their arguments and of the constructor-set attributes only.  Decided on the GENERATED effect summaries
  (lean/FinVerif/Gen/Effects.lean, produced by tools/effects/extract.py from /repo on every run — the extractor of C18):

    * every pricing method (value, delta, gamma, vega, theta, rho, vanna, implied_volatility, intrinsic) exists, reads
      before writing only attributes out of {expiry_dt, num_options, option_type_value, strike_price}, writes nothing
      except the scratch attribute `t_exp`, writes through no parameter and touches no module global;
    * `t_exp` — the only attribute a public method may write — is never read before being written by ANY public
      method, so a stale `self.t_exp` left by an earlier `value`/`delta`/`intrinsic` call cannot reach a result;
    * hence every pricing method passes the decidable discipline `disciplinedB` of C18, and
      `Props/C18a.history_independent_of_summaries` applies: its result does not depend on the call history.
  A mutation that makes a Greek read `self.t_exp` (instead of recomputing it from its arguments) turns the second and
  third theorem false.
-/
import FinVerif.Gen.Effects
import FinVerif.Props.C18a

set_option linter.unusedVariables false

namespace FinVerif.Props.C05
open FinVerif.C18 FinVerif.Gen.Effects

/-- the methods of `EquityVanillaOption` the property observes -/
def vanillaPricingMethods : List String :=
  ["value", "delta", "gamma", "vega", "theta", "rho", "vanna", "implied_volatility", "intrinsic"]

/-- the attributes set once by the constructor and never written again -/
def vanillaCtorAttrs : List String := ["expiry_dt", "num_options", "option_type_value", "strike_price", "option_type"]

/-- C05: each observed method exists and reads (before writing) only constructor-set attributes; it writes no attribute
but the scratch `t_exp`, writes through no parameter, reads and writes no module global. -/
theorem vanilla_methods_read_only_ctor_attrs :
    vanillaPricingMethods.all (fun n => match EquityVanillaOption.method? n with
      | some m => m.isPublic && m.rbw.all (fun a => vanillaCtorAttrs.contains a) && m.writes.all (· == "t_exp") &&
          m.pwrites.isEmpty && m.gwrites.isEmpty && m.greads.isEmpty
      | none => false) = true := by
  decide +kernel

/-- C05: the constructor-set attributes are immutable (no public method writes them: the only attribute a public
method may write is `t_exp`) and `t_exp` is never read before it is written, by any public method. -/
theorem vanilla_t_exp_never_read_before_write :
    EquityVanillaOption.mutableAttrs.eraseDups = ["t_exp"] ∧
    (EquityVanillaOption.methods.filter (·.isPublic)).all (fun m => !(m.rbw.contains "t_exp")) = true ∧
    vanillaCtorAttrs.all (fun a => !(EquityVanillaOption.mutableAttrs.contains a)) = true := by
  refine ⟨?_, ?_, ?_⟩ <;> decide +kernel

/-- C05: every observed method passes the C18 discipline (so, by `history_independent_of_summaries`, its result is
independent of the history of public calls on any pool of objects); the same for the model classes the property
observes: `BlackScholes.value` and `Black.value/delta/gamma/theta/vega`. -/
theorem vanilla_methods_disciplined :
    vanillaPricingMethods.all (fun n => match EquityVanillaOption.method? n with
      | some m => disciplinedB EquityVanillaOption m
      | none => false) = true ∧
    ["value", "delta", "gamma", "theta", "vega"].all (fun n => match Black.method? n with
      | some m => m.isPublic && disciplinedB Black m
      | none => false) = true ∧
    (match BlackScholes.method? "value" with
      | some m => m.isPublic && disciplinedB BlackScholes m
      | none => false) = true := by
  refine ⟨?_, ?_, ?_⟩ <;> decide +kernel

/-- the bridge, instantiated: in any universe of calls that conform to observed `EquityVanillaOption` methods, every
result after any finite history equals the result on the initial state. -/
theorem vanilla_results_history_independent {Val Res : Type} [Inhabited Val]
    (U : List (Call (Nat × String) Val Res))
    (hU : ∀ c ∈ U, ∃ o m, m ∈ EquityVanillaOption.methods ∧ m.isPublic = true ∧
      disciplinedB EquityVanillaOption m = true ∧ FinVerif.Props.C18.Conforms c o m)
    (init : Nat × String → Val) (hist : List (Call (Nat × String) Val Res)) (hsub : ∀ c ∈ hist, c ∈ U)
    (c : Call (Nat × String) Val Res) (hc : c ∈ U) :
    resultAfter hist c init = (exec c init).1 :=
  FinVerif.Props.C18.history_independent_of_summaries (fun _ => EquityVanillaOption) U hU init hist hsub c hc

end FinVerif.Props.C05
