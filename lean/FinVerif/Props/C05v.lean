/-
  C05 (part v) — vanna.  On the unchanged tree `bs_vanna` returned −√T × ∂Δ/∂σ (known finding
  C05/bs-vanna-sign-scale, repaired by a `fix:` commit in /repo).  On the repaired source the coded vanna
  IS the derivative of the coded delta with respect to volatility, for every input in the domain.
-/
import FinVerif.Props.C05c

set_option linter.unusedVariables false
set_option linter.unusedSimpArgs false

namespace FinVerif.Props.C05
open FinVerif FinVerif.Gen FinVerif.C05

variable {Φ φ : ℝ → ℝ} {c : ℝ}

/-- shape of the GENERATED `bs_vanna` (as the source reads now) -/
theorem bs_vanna_shape (φ : ℝ → ℝ) (s t k r q v : ℝ) (ty : Int) :
    BSP.bs_vanna φ s t k r q v ty = vannaTrue φ s t k r q v := by
  simp only [BSP.bs_vanna, vannaTrue, ssOf, kkOf, wOf, d1Of, d2Of, D1]
  ring

/-- C05: the coded vanna equals ∂(coded delta)/∂σ, calls and puts. -/
theorem bs_vanna_is_derivative (h : IsGaussPair Φ φ c) {s : ℝ} (hs : 0 < s) (t k r q : ℝ) {v : ℝ}
    (hv : 1e-12 < v) {ty : Int} (hty : ty = 1 ∨ ty = 2) :
    HasDerivAt (fun x => okVal (BSP.bs_delta Φ s t k r q x ty)) (BSP.bs_vanna φ s t k r q v ty) v := by
  rw [bs_vanna_shape]
  exact bs_vanna_true_is_derivative h hs t k r q hv hty

end FinVerif.Props.C05
