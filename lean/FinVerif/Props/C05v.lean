/-
  C05 (part v) — the vanna DEFECT of the unchanged tree.  The coded `bs_vanna` is NOT ∂(coded delta)/∂σ: it equals
  −√T × that derivative.  Full statement as a `def … : Prop`, its negation at a concrete witness, and the exact relation
  between the coded value and the derivative (this relation IS the known-finding classifier
  `C05/bs-vanna-sign-scale` of the harness).  When fixes/C05-bs-vanna.diff is applied these theorems stop building; the
  harness then reports the finding as stale (not as a violation) provided the bump oracle confirms vanna = ∂delta/∂σ.
-/
import FinVerif.Props.C05c

set_option linter.unusedVariables false
set_option linter.unusedSimpArgs false

namespace FinVerif.Props.C05
open FinVerif FinVerif.Gen FinVerif.C05

variable {Φ φ : ℝ → ℝ} {c : ℝ}

theorem bs_vanna_shape (φ : ℝ → ℝ) (s t k r q v : ℝ) (ty : Int) :
    BSP.bs_vanna φ s t k r q v ty
      = Real.exp (-q * max t 1e-12) * Real.sqrt (max t 1e-12) * φ (d1Of s t k r q v)
          * (d2Of s t k r q v / max v 1e-12) := by
  simp only [BSP.bs_vanna, ssOf, kkOf, wOf, d1Of, d2Of, D1]

/-- C05: the coded vanna is exactly −√T × the derivative (sign and scale defect). -/
theorem bs_vanna_coded_eq (φ : ℝ → ℝ) (s t k r q v : ℝ) (ty : Int) :
    BSP.bs_vanna φ s t k r q v ty = -Real.sqrt (max t 1e-12) * vannaTrue φ s t k r q v := by
  rw [bs_vanna_shape, vannaTrue]; ring

/-- The full statement "vanna as coded = ∂delta/∂σ" — FALSE on the unchanged tree. -/
def BsVannaFull : Prop := ∀ (Φ φ : ℝ → ℝ) (c : ℝ), IsGaussPair Φ φ c → ∀ (s t k r q v : ℝ) (ty : Int),
  0 < s → 1e-12 < v → (ty = 1 ∨ ty = 2) →
  HasDerivAt (fun x => okVal (BSP.bs_delta Φ s t k r q x ty)) (BSP.bs_vanna φ s t k r q v ty) v

/-- C05 counterexample (S=K=1, r=q=0, T=1, σ=1, call): coded vanna = −φ(½)/2 but ∂delta/∂σ = +φ(½)/2. -/
theorem bs_vanna_full_false : ¬ BsVannaFull := by
  intro hfull
  obtain ⟨Φ, φ, h⟩ := exists_gaussPair 1
  have h1 := hfull Φ φ 1 h 1 1 1 0 0 1 1 (by norm_num) (by norm_num) (Or.inl rfl)
  have h2 := bs_vanna_true_is_derivative h (s := 1) (by norm_num) 1 1 0 0 (v := 1) (by norm_num) (ty := 1) (Or.inl rfl)
  have hu := h1.unique h2
  rw [bs_vanna_coded_eq] at hu
  have hd1 : d1Of 1 1 1 0 0 1 = 1 / 2 := by
    simp only [d1Of, D1, ssOf, kkOf, wOf]; norm_num
  have hd2 : d2Of 1 1 1 0 0 1 = -(1 / 2) := by
    rw [d2Of, hd1]; simp only [wOf]; norm_num
  have hφ : φ (1 / 2) = Real.exp (-(1 / 2 * (1 / 2)) / 2) := by rw [h.pdf]; ring
  have hpos : 0 < φ (1 / 2) := by rw [hφ]; exact Real.exp_pos _
  simp only [vannaTrue, hd1, hd2] at hu
  norm_num at hu
  linarith

/-- C05: what IS true of the coded vanna (the `_partial` statement): it is the derivative scaled by −√T; in
particular it coincides with the derivative only where that derivative vanishes (d₂ = 0) or √T = −1 (never). -/
theorem bs_vanna_partial (h : IsGaussPair Φ φ c) {s : ℝ} (hs : 0 < s) (t k r q : ℝ) {v : ℝ}
    (hv : 1e-12 < v) {ty : Int} (hty : ty = 1 ∨ ty = 2) :
    HasDerivAt (fun x => -Real.sqrt (max t 1e-12) * okVal (BSP.bs_delta Φ s t k r q x ty))
      (BSP.bs_vanna φ s t k r q v ty) v := by
  rw [bs_vanna_coded_eq]
  exact (bs_vanna_true_is_derivative h hs t k r q hv hty).const_mul _

end FinVerif.Props.C05
