/-
  C06 (part a) — the leg valuation loops of the model are the discounted sums of the specification.
  All statements are over an arbitrary field `K` (so in particular over ℝ and ℚ), for every
  curve function, every list of periods (no bound on the number of flows), every valuation date.
-/
import FinVerif.Lemmas.C06

set_option linter.unusedSimpArgs false
set_option linter.unusedSectionVars false

namespace FinVerif.Props.C06
open FinVerif FinVerif.Spec.C06 FinVerif.Model.C06 FinVerif.Lemmas.C06

variable {K : Type} [Field K]

/-- `applySign` (the code's `leg_pv * (-1.0)`) is the spec's `signed`. -/
lemma applySign_eq_signed (b : Bool) (x : K) : applySign b x = signed b x := by
  cases b <;> simp [applySign, signed]

/-- C06 **fixed_leg_eq_sum**: `SwapFixedLeg.value` = ± Σ over payment dates after the valuation date of
`year_frac × coupon × notional × df(pay)/df(value_dt)`, plus the principal on the last payment date. -/
theorem fixed_leg_eq_sum (df : Int → K) (vd : Int) (cpn N P : K) (isPay : Bool) (ps : List (Period K)) :
    fixedValue df (mkFixedLeg cpn N P isPay ps) vd = signed isPay (pv df vd (fixedFlows cpn N P ps)) := by
  unfold fixedValue
  rw [applySign_eq_signed]
  congr 1
  unfold fixedState fixedFlows
  rw [pv_append, fixedPairs_mk]
  have hcoup : (List.foldl (fixedStep df vd (df vd)) LoopSt.init
        (ps.map (fun p => (p.pay, p.yf * N * cpn)))).pv = pv df vd (fixedCoupons cpn N ps) := by
    rw [fixedFold_pv]
    unfold fixedCoupons
    rw [pv_map, List.filter_map, List.map_map]
    simp only [LoopSt.init, zero_add]
    apply sumL_map_congr
    intro p _
    simp only [Function.comp, Flow.amount]
    ring
  show (addPrincipal vd ((ps.map (·.pay)).getLast?) P N _).pv = _
  cases hl : ps.getLast? with
  | none =>
    simp [List.getLast?_map, hl, addPrincipal, principalFlow, pv_nil, hcoup, mkFixedLeg]
  | some p =>
    simp only [List.getLast?_map, hl, Option.map_some, addPrincipal, mkFixedLeg, principalFlow]
    by_cases h : vd < p.pay
    · have hdf := fixedFold_dfPay df vd (df vd) (ps.map (fun p => (p.pay, p.yf * N * cpn))) LoopSt.init
        (p.pay, p.yf * N * cpn) (by simp [List.getLast?_map, hl]) h
      simp only [h, if_true, hcoup, hdf, pv_cons, pv_nil, Flow.amount]
      ring
    · simp [h, hcoup, pv_cons, pv_nil]

/-- C06 **float_leg_eq_sum**: `SwapFloatLeg.value` = ± Σ over payment dates after the valuation date of
`year_frac × (rate + spread) × notional_i × df(pay)/df(value_dt)` where the rate of the first such coupon is
the supplied first fixing (if any) and every other rate is the forward `(df_start/df_end − 1)/α_index`
projected from the index curve; plus the principal on the last payment date.  For every notional
array of the right length. -/
theorem float_leg_eq_sum (df : Int → K) (idx : IndexCurve K) (ff : Option K) (vd : Int) (leg : FloatLeg K)
    (hlen : leg.notionals.length = leg.periods.length) :
    floatValue df idx ff leg vd
      = signed leg.isPay (pv df vd
          (floatFlows idx.df idx.yf ff leg.spread leg.principal vd (leg.periods.zip leg.notionals))) := by
  unfold floatValue
  rw [applySign_eq_signed]
  congr 1
  unfold floatState floatFlows floatPairs
  rw [pv_append]
  have hc : (List.foldl (floatStep df idx ff leg.spread vd (df vd)) LoopSt.init
        (leg.periods.zip leg.notionals)).pv
      = pv df vd (floatCoupons idx.df idx.yf ff leg.spread vd (leg.periods.zip leg.notionals)) := by
    rw [floatFold_pv df idx ff leg.spread vd (leg.periods.zip leg.notionals) LoopSt.init rfl]
    simp [LoopSt.init]
  cases hl : (leg.periods.zip leg.notionals).getLast? with
  | none =>
    have hz : leg.periods.zip leg.notionals = [] := List.getLast?_eq_none_iff.mp hl
    have hn : leg.notionals = [] := by
      rcases List.zip_eq_nil_iff.mp hz with h | h
      · rw [h] at hlen; exact List.length_eq_zero_iff.mp hlen
      · exact h
    simp [hn, hz, principalFlow, pv_nil, floatCoupons, LoopSt.init]
  | some x =>
    obtain ⟨ys, hys⟩ := List.getLast?_eq_some_iff.mp hl
    have hp : leg.periods.getLast? = some x.1 := by
      have := congrArg (fun l => (l.map Prod.fst).getLast?) hys
      simpa [List.map_fst_zip (le_of_eq hlen.symm)] using this
    have hn : leg.notionals.getLast? = some x.2 := by
      have := congrArg (fun l => (l.map Prod.snd).getLast?) hys
      simpa [List.map_snd_zip (le_of_eq hlen)] using this
    simp only [hn, List.getLast?_map, hp, Option.map_some, addPrincipal, principalFlow]
    by_cases h : vd < x.1.pay
    · have hdf := floatFold_dfPay df idx ff leg.spread vd (df vd) (leg.periods.zip leg.notionals)
        LoopSt.init x hl h
      simp only [h, if_true, hdf, pv_cons, pv_nil, Flow.amount]
      rw [hc]
      ring
    · simp only [h, if_false, pv_cons, pv_nil]
      rw [hc]
      ring

/-! ### consequences -/

/-- C06 **pay_eq_neg_receive** (fixed leg). -/
theorem fixed_pay_eq_neg_receive (df : Int → K) (vd : Int) (cpn N P : K) (ps : List (Period K)) :
    fixedValue df (mkFixedLeg cpn N P true ps) vd = - fixedValue df (mkFixedLeg cpn N P false ps) vd := by
  simp [fixed_leg_eq_sum, signed]

/-- C06 **pay_eq_neg_receive** (floating leg). -/
theorem float_pay_eq_neg_receive (df : Int → K) (idx : IndexCurve K) (ff : Option K) (vd : Int)
    (leg : FloatLeg K) :
    floatValue df idx ff { leg with isPay := true } vd = - floatValue df idx ff { leg with isPay := false } vd := by
  simp [floatValue, floatState, floatPairs, applySign]

/-- Closed form of the fixed leg: `± (cpn × N × annuity + P × N × df(last pay)/df(vd))`. -/
theorem fixed_value_closed (df : Int → K) (vd : Int) (cpn N P : K) (isPay : Bool) (ps : List (Period K)) :
    fixedValue df (mkFixedLeg cpn N P isPay ps) vd
      = signed isPay (cpn * N * annuity df vd ps + P * N * lastUnit df vd (ps.getLast?.map (·.pay))) := by
  rw [fixed_leg_eq_sum]
  unfold fixedFlows
  rw [pv_append, pv_fixedCoupons]
  have : ps.getLast?.map (fun p => (p.pay, N)) = (ps.getLast?.map (·.pay)).map (fun d => (d, N)) := by
    cases ps.getLast? <;> rfl
  rw [this, pv_principalFlow]

/-- C06 **linear_in_notional** (fixed leg). -/
theorem fixed_linear_in_notional (df : Int → K) (vd : Int) (cpn N P k : K) (isPay : Bool) (ps : List (Period K)) :
    fixedValue df (mkFixedLeg cpn (k * N) P isPay ps) vd = k * fixedValue df (mkFixedLeg cpn N P isPay ps) vd := by
  rw [fixed_value_closed, fixed_value_closed, ← signed_mul]
  congr 1; ring

/-- C06 **linear_in_coupon** (fixed leg; affine because of the principal exchange). -/
theorem fixed_affine_in_coupon (df : Int → K) (vd : Int) (c₁ c₂ N P : K) (isPay : Bool) (ps : List (Period K)) :
    fixedValue df (mkFixedLeg (c₁ + c₂) N P isPay ps) vd + fixedValue df (mkFixedLeg 0 N P isPay ps) vd
      = fixedValue df (mkFixedLeg c₁ N P isPay ps) vd + fixedValue df (mkFixedLeg c₂ N P isPay ps) vd := by
  simp only [fixed_value_closed, ← signed_add]
  congr 1; ring

/-- C06 **linear_in_coupon** (fixed leg without principal exchange: homogeneous). -/
theorem fixed_linear_in_coupon (df : Int → K) (vd : Int) (c k N : K) (isPay : Bool) (ps : List (Period K)) :
    fixedValue df (mkFixedLeg (k * c) N 0 isPay ps) vd = k * fixedValue df (mkFixedLeg c N 0 isPay ps) vd := by
  rw [fixed_value_closed, fixed_value_closed, ← signed_mul]
  congr 1; ring

/-- Flows of a floating leg whose notionals are all multiplied by `k`. -/
lemma floatFlows_scale (dfI : Int → K) (iyf : Int → Int → K) (ff : Option K) (s P k : K) (vd : Int)
    (l : List (Period K × K)) :
    floatFlows dfI iyf ff s P vd (l.map (fun x => (x.1, k * x.2)))
      = (floatFlows dfI iyf ff s P vd l).map (scaleFlow k) := by
  unfold floatFlows
  rw [floatCoupons_scale, List.map_append, List.getLast?_map]
  congr 1
  cases l.getLast? <;> simp [principalFlow, scaleFlow]

/-- C06 **linear_in_notional** (floating leg, any notional array). -/
theorem float_linear_in_notional (df : Int → K) (idx : IndexCurve K) (ff : Option K) (vd : Int) (k : K)
    (leg : FloatLeg K) (hlen : leg.notionals.length = leg.periods.length) :
    floatValue df idx ff { leg with notionals := leg.notionals.map (k * ·) } vd = k * floatValue df idx ff leg vd := by
  rw [float_leg_eq_sum _ _ _ _ _ (by simpa using hlen), float_leg_eq_sum _ _ _ _ _ hlen, ← signed_mul]
  congr 1
  have : leg.periods.zip (leg.notionals.map (k * ·))
      = (leg.periods.zip leg.notionals).map (fun x => (x.1, k * x.2)) := by
    rw [List.zip_map_right]; rfl
  dsimp only
  rw [this, floatFlows_scale, pv_scale]

/-- C06 **linear_in_spread** (floating leg; affine: the projected rates do not scale with the spread). -/
theorem float_affine_in_spread (df : Int → K) (idx : IndexCurve K) (ff : Option K) (vd : Int) (s₁ s₂ : K)
    (leg : FloatLeg K) (hlen : leg.notionals.length = leg.periods.length) :
    floatValue df idx ff { leg with spread := s₁ + s₂ } vd + floatValue df idx ff { leg with spread := 0 } vd
      = floatValue df idx ff { leg with spread := s₁ } vd + floatValue df idx ff { leg with spread := s₂ } vd := by
  have e := fun s : K => float_leg_eq_sum df idx ff vd { leg with spread := s } hlen
  rw [e, e, e, e]
  dsimp only
  simp only [floatFlows, pv_append, ← signed_add]
  congr 1
  rw [pv_floatCoupons_spread df vd idx.df idx.yf ff (s₁ + s₂), pv_floatCoupons_spread df vd idx.df idx.yf ff s₁,
    pv_floatCoupons_spread df vd idx.df idx.yf ff s₂]
  ring

/-! ### flows paid on or before the valuation date -/

/-- C06 **past_flows_contribute_nothing** (specification level): flows paid on or before `vd` can be
removed, changed or added without changing the value. -/
theorem pv_past_flows (df : Int → K) (vd : Int) (past fut : List (Flow K)) (h : ∀ f ∈ past, f.pay ≤ vd) :
    pv df vd (past ++ fut) = pv df vd fut := by
  induction past with
  | nil => rfl
  | cons f fs ih =>
    have hf : ¬ vd < f.pay := not_lt.mpr (h f (by simp))
    rw [List.cons_append, pv_cons, ih (fun g hg => h g (by simp [hg]))]
    simp [hf]

lemma annuity_past (df : Int → K) (vd : Int) (past fut : List (Period K)) (h : ∀ p ∈ past, p.pay ≤ vd) :
    annuity df vd (past ++ fut) = annuity df vd fut := by
  unfold annuity fixedCoupons
  rw [List.map_append]
  apply pv_past_flows
  intro f hf
  obtain ⟨p, hp, rfl⟩ := List.mem_map.mp hf
  exact h p hp

/-- C06 **past_flows_contribute_nothing** (fixed leg): periods already paid do not change the value. -/
theorem fixed_past_flows_contribute_nothing (df : Int → K) (vd : Int) (cpn N P : K) (isPay : Bool)
    (past fut : List (Period K)) (h : ∀ p ∈ past, p.pay ≤ vd) (hne : fut ≠ []) :
    fixedValue df (mkFixedLeg cpn N P isPay (past ++ fut)) vd = fixedValue df (mkFixedLeg cpn N P isPay fut) vd := by
  rw [fixed_value_closed, fixed_value_closed, annuity_past df vd past fut h, List.getLast?_append_of_ne_nil _ hne]

/-- A fixed leg whose payments are all on or before the valuation date is worth nothing. -/
theorem fixed_all_past_is_zero (df : Int → K) (vd : Int) (cpn N P : K) (isPay : Bool)
    (ps : List (Period K)) (h : ∀ p ∈ ps, p.pay ≤ vd) :
    fixedValue df (mkFixedLeg cpn N P isPay ps) vd = 0 := by
  rw [fixed_value_closed]
  have ha : annuity df vd ps = 0 := by
    have := annuity_past df vd ps [] h
    simpa [annuity, fixedCoupons, pv_nil] using this
  have hl : lastUnit df vd (ps.getLast?.map (·.pay)) = 0 := by
    unfold lastUnit
    cases hq : ps.getLast? with
    | none => simp [principalFlow, pv_nil]
    | some p =>
      have : ¬ vd < p.pay := not_lt.mpr (h p (List.mem_of_getLast? hq))
      simp [principalFlow, pv_cons, pv_nil, this]
  rw [ha, hl]
  simp [signed_zero]

lemma floatCoupons_past (df : Int → K) (vd : Int) (dfI : Int → K) (iyf : Int → Int → K) (ff : Option K) (s : K)
    (past fut : List (Period K × K)) (h : ∀ x ∈ past, x.1.pay ≤ vd) :
    pv df vd (floatCoupons dfI iyf ff s vd (past ++ fut)) = pv df vd (floatCoupons dfI iyf ff s vd fut) := by
  induction past with
  | nil => rfl
  | cons x xs ih =>
    have hx : ¬ vd < x.1.pay := not_lt.mpr (h x (by simp))
    rw [List.cons_append]
    simp only [floatCoupons, hx, if_false, pv_cons, fwdFlow]
    rw [ih (fun y hy => h y (by simp [hy]))]
    simp [hx]

/-- C06 **past_flows_contribute_nothing** (floating leg): periods already paid do not change the value —
in particular the first-fixing override goes to the first coupon still to be paid. -/
theorem float_past_flows_contribute_nothing (df : Int → K) (idx : IndexCurve K) (ff : Option K) (vd : Int)
    (leg : FloatLeg K) (pastP futP : List (Period K)) (pastN futN : List K)
    (hp : pastN.length = pastP.length) (hf : futN.length = futP.length) (hne : futP ≠ [])
    (h : ∀ p ∈ pastP, p.pay ≤ vd) :
    floatValue df idx ff { leg with periods := pastP ++ futP, notionals := pastN ++ futN } vd
      = floatValue df idx ff { leg with periods := futP, notionals := futN } vd := by
  rw [float_leg_eq_sum _ _ _ _ _ (by simp [hp, hf]), float_leg_eq_sum _ _ _ _ _ (by simpa using hf)]
  congr 1
  simp only [floatFlows, pv_append]
  rw [List.zip_append hp.symm]
  have hz : futP.zip futN ≠ [] := by
    intro hz
    rcases List.zip_eq_nil_iff.mp hz with h1 | h1
    · exact hne h1
    · rw [h1] at hf; exact hne (List.length_eq_zero_iff.mp hf.symm)
  rw [floatCoupons_past, List.getLast?_append_of_ne_nil _ hz]
  intro x hx
  exact h x.1 (List.of_mem_zip hx).1

end FinVerif.Props.C06
