/-
  C06 (part b) — swaps: value = fixed + float as discounted sums; pv01 and the par rate (the code divides by
  the coupon: full statement refuted at coupon 0, partial theorem under `cpn ≠ 0`); the telescoping identity
  of a spread-free single-curve floating leg; generated periods are contiguous.
  Over an arbitrary (ordered, where `abs` is involved) field; witnesses over ℚ.
-/
import FinVerif.Props.C06a
import Mathlib.Algebra.Order.Field.Basic
import Mathlib.Algebra.Order.Ring.Abs
import Mathlib.Algebra.Order.Ring.Rat
import Mathlib.Algebra.Field.Rat
import Mathlib.Tactic.NormNum

set_option linter.unusedSimpArgs false
set_option linter.unusedSectionVars false
set_option linter.unusedVariables false

namespace FinVerif.Props.C06
open FinVerif FinVerif.Spec.C06 FinVerif.Model.C06 FinVerif.Lemmas.C06

section field
variable {K : Type} [Field K]

/-- C06 **swap_eq_fixed_plus_float**: `IborSwap.value` / `OIS.value` is the fixed leg's discounted sum seen
from the fixed side plus the floating leg's discounted sum seen from the other side. -/
theorem swap_eq_fixed_plus_float (df : Int → K) (idx : IndexCurve K) (ff : Option K) (vd : Int)
    (fixedIsPay : Bool) (cpn N spread : K) (fixedPs floatPs : List (Period K)) :
    swapValue df idx ff (mkSwap fixedIsPay cpn N spread fixedPs floatPs) vd
      = signed fixedIsPay (pv df vd (fixedFlows cpn N 0 fixedPs))
        + signed (!fixedIsPay) (pv df vd (floatFlows idx.df idx.yf ff spread 0 vd
            (floatPs.zip (List.replicate floatPs.length N)))) := by
  unfold swapValue mkSwap
  rw [fixed_leg_eq_sum, float_leg_eq_sum _ _ _ _ _ (by simp [mkFloatLeg])]
  rfl

/-- `IborBasisSwap.value`: the two floating legs' discounted sums, each on its own index curve. -/
theorem basis_swap_eq_sum (df : Int → K) (idx1 idx2 : IndexCurve K) (ff1 ff2 : Option K) (vd : Int)
    (leg1 leg2 : FloatLeg K) (h1 : leg1.notionals.length = leg1.periods.length)
    (h2 : leg2.notionals.length = leg2.periods.length) :
    basisSwapValue df idx1 idx2 ff1 ff2 leg1 leg2 vd
      = signed leg1.isPay (pv df vd (floatFlows idx1.df idx1.yf ff1 leg1.spread leg1.principal vd
            (leg1.periods.zip leg1.notionals)))
        + signed leg2.isPay (pv df vd (floatFlows idx2.df idx2.yf ff2 leg2.spread leg2.principal vd
            (leg2.periods.zip leg2.notionals))) := by
  unfold basisSwapValue
  rw [float_leg_eq_sum _ _ _ _ _ h1, float_leg_eq_sum _ _ _ _ _ h2]

/-- The fixed leg of a swap: `± cpn × N × annuity`. -/
lemma swap_fixed_value (df : Int → K) (vd : Int) (s : Bool) (cpn N spread : K) (fp lp : List (Period K)) :
    fixedValue df (mkSwap s cpn N spread fp lp).fixed vd = signed s (cpn * N * annuity df vd fp) := by
  unfold mkSwap
  rw [fixed_value_closed]
  simp

/-! ### telescoping -/

lemma floatCoupons_none (dfI : Int → K) (iyf : Int → Int → K) (s : K) (vd : Int) (l : List (Period K × K)) :
    floatCoupons dfI iyf none s vd l = l.map (fwdFlow dfI iyf s) := by
  induction l with
  | nil => rfl
  | cons x xs ih => by_cases h : vd < x.1.pay <;> simp [floatCoupons, h, ih]

lemma zip_replicate (ps : List (Period K)) (N : K) :
    ps.zip (List.replicate ps.length N) = ps.map (fun p => (p, N)) := by
  induction ps with
  | nil => rfl
  | cons p ps ih => simp [List.replicate_succ, ih]

/-- Sum of the forward coupons of a contiguous run of future periods. -/
lemma tele_sum (df : Int → K) (yfI : Int → Int → K) (vd : Int) (N : K) (p : Period K) (qs : List (Period K))
    (hfut : ∀ q ∈ p :: qs, vd < q.pay) (hlag : ∀ q ∈ p :: qs, q.pay = q.stop)
    (hbasis : ∀ q ∈ p :: qs, yfI q.start q.stop = q.yf) (hyf : ∀ q ∈ p :: qs, q.yf ≠ 0)
    (hdf : ∀ q ∈ p :: qs, df q.stop ≠ 0) (hc : Contiguous (p :: qs)) :
    pv df vd ((p :: qs).map (fun q => fwdFlow df yfI 0 (q, N)))
      = N * (df p.start - df ((p :: qs).getLast (by simp)).stop) / df vd := by
  induction qs generalizing p with
  | nil =>
    have h1 := hfut p (by simp); have h2 := hlag p (by simp); have h3 := hbasis p (by simp)
    have h4 := hyf p (by simp); have h5 := hdf p (by simp)
    have h1' : vd < p.stop := h2 ▸ h1
    simp only [List.map_cons, List.map_nil, pv_cons, pv_nil, fwdFlow, Flow.amount, fwdRate, h2, h1', if_true, h3,
      List.getLast_singleton]
    field_simp
    ring
  | cons q rs ih =>
    have h1 := hfut p (by simp); have h2 := hlag p (by simp); have h3 := hbasis p (by simp)
    have h4 := hyf p (by simp); have h5 := hdf p (by simp)
    obtain ⟨hpq, hc'⟩ := hc
    have := ih q (fun x hx => hfut x (by simp [hx])) (fun x hx => hlag x (by simp [hx]))
      (fun x hx => hbasis x (by simp [hx])) (fun x hx => hyf x (by simp [hx]))
      (fun x hx => hdf x (by simp [hx])) hc'
    have h1' : vd < p.stop := h2 ▸ h1
    rw [List.map_cons, pv_cons, this]
    simp only [fwdFlow, Flow.amount, fwdRate, h2, h1', if_true, h3, List.getLast_cons_cons]
    rw [← hpq]
    field_simp
    ring

/-- C06 **float_leg_telescopes**: no spread, no first-fixing override, projection and discounting on one
curve, pay basis = index basis, payment lag 0 (pay = accrual end), contiguous periods all still to be paid
⇒ the leg is worth `± N × (df(first start) − df(last end)) / df(value_dt)`.  Any number of periods. -/
theorem float_leg_telescopes (df : Int → K) (yfI : Int → Int → K) (vd : Int) (N : K) (isPay : Bool)
    (ps : List (Period K)) (first last : Period K)
    (hfirst : ps.head? = some first) (hlast : ps.getLast? = some last)
    (hfut : ∀ q ∈ ps, vd < q.pay) (hlag : ∀ q ∈ ps, q.pay = q.stop)
    (hbasis : ∀ q ∈ ps, yfI q.start q.stop = q.yf) (hyf : ∀ q ∈ ps, q.yf ≠ 0)
    (hdf : ∀ q ∈ ps, df q.stop ≠ 0) (hc : Contiguous ps) :
    floatValue df ⟨df, yfI⟩ none (mkFloatLeg 0 N 0 isPay ps) vd
      = signed isPay (N * (df first.start - df last.stop) / df vd) := by
  rw [float_leg_eq_sum _ _ _ _ _ (by simp [mkFloatLeg])]
  congr 1
  simp only [mkFloatLeg, floatFlows, pv_append, floatCoupons_none, zip_replicate, List.map_map]
  cases ps with
  | nil => simp at hfirst
  | cons p qs =>
    simp only [List.head?_cons, Option.some.injEq] at hfirst
    subst hfirst
    have hl : (p :: qs).getLast (by simp) = last := by
      rw [List.getLast?_eq_some_getLast (by simp)] at hlast
      exact Option.some.inj hlast
    have ht := tele_sum df yfI vd N p qs hfut hlag hbasis hyf hdf hc
    rw [hl] at ht
    have hfun : (fwdFlow df yfI 0 ∘ fun p => (p, N)) = (fun q => fwdFlow df yfI 0 (q, N)) := rfl
    rw [hfun, ht]
    cases h : ((p :: qs).map (fun p => (p, N))).getLast? with
    | none => simp [principalFlow, pv_nil]
    | some x =>
      simp only [Option.map_some, principalFlow, pv_cons, pv_nil, Flow.amount]
      split <;> ring

/-! ### generate_payments -/

/-- The accrual periods produced by `generate_payments` / `generate_payment_dts` tile the schedule:
each period starts where the previous one stops. -/
theorem genPeriods_contiguous (yf : Int → Int → K) (addBD : Int → Int → Int) (lag : Int) :
    ∀ sched : List Int, Contiguous (genPeriods yf addBD lag sched)
  | [] => trivial
  | [_] => trivial
  | [_, _] => by simp [genPeriods, Contiguous]
  | a :: b :: c :: rest => by
    have ih := genPeriods_contiguous yf addBD lag (b :: c :: rest)
    simp only [genPeriods] at ih ⊢
    exact ⟨rfl, ih⟩

/-- Every generated period accrues over its own `[start, stop]` in the leg's basis, and is paid on
`stop` moved by the payment lag (on `stop` itself when the lag is 0). -/
theorem genPeriods_spec (yf : Int → Int → K) (addBD : Int → Int → Int) (lag : Int) :
    ∀ (sched : List Int) (p : Period K), p ∈ genPeriods yf addBD lag sched →
      p.yf = yf p.start p.stop ∧ p.pay = (if lag = 0 then p.stop else addBD p.stop lag)
  | [], p, h => by simp [genPeriods] at h
  | [_], p, h => by simp [genPeriods] at h
  | a :: b :: rest, p, h => by
    simp only [genPeriods, List.mem_cons] at h
    rcases h with rfl | h
    · exact ⟨rfl, rfl⟩
    · exact genPeriods_spec yf addBD lag (b :: rest) p h

end field

/-! ### pv01 and the par rate -/

section ordered
variable {K : Type} [Field K] [LinearOrder K] [IsStrictOrderedRing K]

/-- `pv01` is the absolute value of the annuity — provided the coupon (and the notional) is not zero:
the code obtains the annuity by dividing the fixed leg's value by the coupon. -/
theorem pv01_eq_abs_annuity (df : Int → K) (vd : Int) (s : Bool) (cpn N spread : K) (fp lp : List (Period K))
    (hc : cpn ≠ 0) (hN : N ≠ 0) :
    pv01 abs df (mkSwap s cpn N spread fp lp) vd = |annuity df vd fp| := by
  unfold pv01
  rw [swap_fixed_value]
  have : (mkSwap s cpn N spread fp lp).fixed.cpn = cpn ∧ (mkSwap s cpn N spread fp lp).fixed.notional = N :=
    ⟨rfl, rfl⟩
  rw [this.1, this.2]
  cases s
  · simp only [signed, Bool.false_eq_true, if_false]
    congr 1; field_simp
  · simp only [signed, if_true]
    rw [← abs_neg]
    congr 1; field_simp

/-- At coupon 0 the model over a field (where `0/0 = 0`) sees `pv01 = 0` … -/
theorem pv01_zero_coupon (df : Int → K) (vd : Int) (s : Bool) (N spread : K) (fp lp : List (Period K)) :
    pv01 abs df (mkSwap s 0 N spread fp lp) vd = 0 := by
  unfold pv01
  rw [swap_fixed_value]
  simp [signed_zero]

/-- … so `swap_rate` refuses (FinError) whatever the curves are: at coupon 0 no par rate is produced.
(On IEEE doubles the same division is `0.0/0.0 = nan`, the guard `abs(nan) < g_small` is False and
`swap_rate` returns nan; with every flow paid it is a ZeroDivisionError.  Either way: no par rate.) -/
theorem swap_rate_zero_coupon_refuses (gSmall : K) (hg : 0 < gSmall) (df : Int → K) (idx : IndexCurve K)
    (ff : Option K) (vd : Int) (s : Bool) (N spread : K) (fp lp : List (Period K)) :
    swapRate abs gSmall df idx ff (mkSwap s 0 N spread fp lp) vd = .error .finError := by
  unfold swapRate
  simp [pv01_zero_coupon, hg]

/-- The full statement one would like: for every swap with a positive annuity (above the guard), `swap_rate`
returns a rate and the swap struck at that rate is worth zero. -/
def ParRateZeroesValue (K : Type) [Field K] [LinearOrder K] [IsStrictOrderedRing K] : Prop :=
  ∀ (gSmall : K) (df : Int → K) (idx : IndexCurve K) (ff : Option K) (vd : Int) (s : Bool)
    (cpn N spread : K) (fp lp : List (Period K)),
    0 < gSmall → N ≠ 0 → gSmall ≤ annuity df vd fp →
    ∃ r, swapRate abs gSmall df idx ff (mkSwap s cpn N spread fp lp) vd = .ok r
      ∧ swapValue df idx ff (setFixedRate (mkSwap s cpn N spread fp lp) r) vd = 0

/-- C06 counterexample (known finding `C06/par-rate-coupon-zero`): a one-period swap with coupon 0 on a
flat curve `df ≡ 1` has annuity 1 but gets no par rate. -/
theorem par_rate_fails_at_zero_coupon : ¬ ParRateZeroesValue ℚ := by
  intro h
  have hA : annuity (fun _ => (1 : ℚ)) 0 [⟨0, 1, 1, 1⟩] = 1 := by
    simp [annuity, fixedCoupons, pv_cons, pv_nil, Flow.amount]
  obtain ⟨r, hr, _⟩ := h (1 / 10 ^ 10) (fun _ => 1) ⟨fun _ => 1, fun _ _ => 1⟩ none 0 true 0 1 0
    [⟨0, 1, 1, 1⟩] [⟨0, 1, 1, 1⟩] (by norm_num) (by norm_num) (by rw [hA]; norm_num)
  rw [swap_rate_zero_coupon_refuses _ (by norm_num)] at hr
  cases hr

/-- C06 **par_rate_zeroes_value** (partial: `cpn ≠ 0`): with a non-zero coupon and notional and a positive
annuity not below the guard, `IborSwap.swap_rate` returns a rate, and the same swap struck at that rate
(`set_fixed_rate`) is worth exactly zero — for any curves, first fixing, spread, schedules. -/
theorem par_rate_zeroes_value (gSmall : K) (df : Int → K) (idx : IndexCurve K) (ff : Option K) (vd : Int)
    (s : Bool) (cpn N spread : K) (fp lp : List (Period K))
    (hc : cpn ≠ 0) (hN : N ≠ 0) (hA : 0 < annuity df vd fp) (hg : gSmall ≤ annuity df vd fp) :
    ∃ r, swapRate abs gSmall df idx ff (mkSwap s cpn N spread fp lp) vd = .ok r
      ∧ swapValue df idx ff (setFixedRate (mkSwap s cpn N spread fp lp) r) vd = 0 := by
  have hp : pv01 abs df (mkSwap s cpn N spread fp lp) vd = annuity df vd fp := by
    rw [pv01_eq_abs_annuity df vd s cpn N spread fp lp hc hN, abs_of_pos hA]
  have hguard : ¬ |annuity df vd fp| < gSmall := by rw [abs_of_pos hA]; exact not_lt.mpr hg
  refine ⟨_, by unfold swapRate; simp only [hp, hguard, if_false]; rfl, ?_⟩
  have hA' : annuity df vd fp ≠ 0 := ne_of_gt hA
  have hfix : ∀ r : K, fixedValue df (setFixedRate (mkSwap s cpn N spread fp lp) r).fixed vd
      = signed s (r * N * annuity df vd fp) := by
    intro r
    have : (setFixedRate (mkSwap s cpn N spread fp lp) r).fixed = mkFixedLeg r N 0 s fp := rfl
    rw [this, fixed_value_closed]; simp
  unfold swapValue
  rw [hfix]
  have hfl : ∀ r : K, (setFixedRate (mkSwap s cpn N spread fp lp) r).float = (mkSwap s cpn N spread fp lp).float :=
    fun _ => rfl
  have hn : (mkSwap s cpn N spread fp lp).float.notional = N := rfl
  have hs : (mkSwap s cpn N spread fp lp).float.isPay = !s := rfl
  simp only [hn, hs, hfl]
  cases s
  · simp only [signed, Bool.false_eq_true, if_false, Bool.not_false, if_true]
    field_simp
    ring
  · simp only [signed, if_true, Bool.not_true, Bool.false_eq_true, if_false]
    field_simp
    ring

/-- The hypotheses of `par_rate_zeroes_value` are satisfiable (non-vacuity). -/
example : ∃ r, swapRate abs (1 / 10 ^ 10 : ℚ) (fun _ => 1) ⟨fun _ => 1, fun _ _ => 1⟩ none
      (mkSwap true (3 / 100) 1 0 [⟨0, 1, 1, 1⟩] [⟨0, 1, 1, 1⟩]) 0 = .ok r
    ∧ swapValue (fun _ => 1) ⟨fun _ => 1, fun _ _ => 1⟩ none
        (setFixedRate (mkSwap true (3 / 100) 1 0 [⟨0, 1, 1, 1⟩] [⟨0, 1, 1, 1⟩]) r) 0 = 0 := by
  have hA : annuity (fun _ => (1 : ℚ)) 0 [⟨0, 1, 1, 1⟩] = 1 := by
    simp [annuity, fixedCoupons, pv_cons, pv_nil, Flow.amount]
  exact par_rate_zeroes_value (1 / 10 ^ 10 : ℚ) (fun _ => 1) ⟨fun _ => 1, fun _ _ => 1⟩ none 0 true (3 / 100) 1 0
    [⟨0, 1, 1, 1⟩] [⟨0, 1, 1, 1⟩] (by norm_num) (by norm_num) (by rw [hA]; norm_num) (by rw [hA]; norm_num)

end ordered

end FinVerif.Props.C06
