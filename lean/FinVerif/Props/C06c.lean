/-
  C06 (part c) — deposit, FRA and the OIS par rate: what the code computes, where it departs (deposit, FRA) from the
  specification (kernel-checked counterexamples over ℚ behind the known findings), and the partial theorems
  under the hypotheses the proofs force.
-/
import FinVerif.Props.C06b

set_option linter.unusedSimpArgs false
set_option linter.unusedSectionVars false
set_option linter.unusedVariables false

namespace FinVerif.Props.C06
open FinVerif FinVerif.Spec.C06 FinVerif.Model.C06 FinVerif.Lemmas.C06

section field
variable {K : Type} [Field K]

/-! ### IborDeposit.value -/

/-- As coded: the repayment discounted from maturity to the deposit's START date, whatever `vd ≤ maturity`. -/
theorem deposit_value_as_coded (df : Int → K) (start mat : Int) (yf r N : K) (vd : Int) (h : vd ≤ mat) :
    depositValue df start mat yf r N vd = .ok ((1 + yf * r) * N * df mat / df start) := by
  simp [depositValue, not_lt.mpr h]

/-- After maturity the deposit is refused (FinError), not valued. -/
theorem deposit_rejects_after_maturity (df : Int → K) (start mat : Int) (yf r N : K) (vd : Int) (h : mat < vd) :
    depositValue df start mat yf r N vd = .error .finError := by
  simp [depositValue, h]

/-- The specification's value of the deposit: its single repayment flow, if still to be paid. -/
theorem deposit_spec_value (df : Int → K) (mat : Int) (yf r N : K) (vd : Int) :
    pv df vd (depositFlows mat yf r N) = if vd < mat then (1 + yf * r) * N * df mat / df vd else 0 := by
  unfold depositFlows
  rw [pv_cons, pv_nil]
  by_cases h : vd < mat <;> simp [h, Flow.amount]
  ring

/-- The full statement: wherever the deposit is valued, its value is the discounted repayment flow. -/
def DepositMeetsSpec (K : Type) [Field K] : Prop :=
  ∀ (df : Int → K) (start mat : Int) (yf r N : K) (vd : Int), vd ≤ mat →
    depositValue df start mat yf r N vd = .ok (pv df vd (depositFlows mat yf r N))

/-- C06 counterexample (known finding `C06/deposit-forward-value`): df(0)=1, df(1)=1/2, df(2)=1/4, deposit
over [1,2] valued on day 0: the code says 1/2 (forward value to day 1), the discounted flow is 1/4. -/
theorem deposit_not_spec : ¬ DepositMeetsSpec ℚ := by
  intro h
  have := h (fun d => if d = 0 then 1 else if d = 1 then 1 / 2 else 1 / 4) 1 2 0 0 1 0 (by norm_num)
  rw [deposit_value_as_coded _ _ _ _ _ _ _ (by norm_num), deposit_spec_value] at this
  norm_num at this

/-- C06 counterexample, second face: a repayment made ON the valuation date still counts in full. -/
theorem deposit_past_flow_contributes :
    ¬ (∀ (df : Int → ℚ) (start mat : Int) (yf r N : ℚ), depositValue df start mat yf r N mat = .ok 0) := by
  intro h
  have := h (fun _ => 1) 0 1 0 0 1
  rw [deposit_value_as_coded _ _ _ _ _ _ _ (le_refl _)] at this
  norm_num at this

/-- C06 **deposit = discounted flow** (partial): valued strictly before maturity on a date whose discount
factor equals the start date's (in particular on the start date itself). -/
theorem deposit_value_partial (df : Int → K) (start mat : Int) (yf r N : K) (vd : Int)
    (h : vd < mat) (hdf : df start = df vd) :
    depositValue df start mat yf r N vd = .ok (pv df vd (depositFlows mat yf r N)) := by
  rw [deposit_value_as_coded _ _ _ _ _ _ _ (le_of_lt h), deposit_spec_value, if_pos h, hdf]

example : depositValue (fun d => if d = 0 then (1 : ℚ) else 1 / 2) 0 1 1 (1 / 10) 100 0
    = .ok (pv (fun d => if d = 0 then (1 : ℚ) else 1 / 2) 0 (depositFlows 1 1 (1 / 10) 100)) :=
  deposit_value_partial _ 0 1 _ _ _ 0 (by norm_num) rfl

/-! ### IborFRA.value -/

/-- As coded: the FRA's settlement flow `acc × (forward − K) × N` discounted from maturity, NEGATED for
the payer of the fixed rate.  (`signed true x = −x`.) -/
theorem fra_value_as_coded (df dfI : Int → K) (start mat : Int) (yf k N : K) (payFixed : Bool) (vd : Int)
    (h : vd < mat) :
    fraValue df dfI start mat yf k N payFixed vd = signed payFixed (pv df vd (fraFlows dfI start mat yf k N)) := by
  unfold fraFlows fraValue
  rw [pv_cons, pv_nil]
  cases payFixed <;> simp [h, Flow.amount, fwdRate, signed] <;> ring

/-- The full statement: the payer of the fixed rate holds the flow `acc × (forward − K) × N`, the receiver
its negative. -/
def FraMeetsSpec (K : Type) [Field K] : Prop :=
  ∀ (df dfI : Int → K) (start mat : Int) (yf k N : K) (payFixed : Bool) (vd : Int), vd < mat →
    fraValue df dfI start mat yf k N payFixed vd
      = signed (!payFixed) (pv df vd (fraFlows dfI start mat yf k N))

/-- C06 **FRA as coded = minus the specification** (this is the partial theorem: the only hypothesis under
which code and specification agree is that the value is zero). -/
theorem fra_value_eq_neg_spec (df dfI : Int → K) (start mat : Int) (yf k N : K) (payFixed : Bool) (vd : Int)
    (h : vd < mat) :
    fraValue df dfI start mat yf k N payFixed vd
      = - signed (!payFixed) (pv df vd (fraFlows dfI start mat yf k N)) := by
  rw [fra_value_as_coded _ _ _ _ _ _ _ _ _ h]
  cases payFixed <;> simp [signed]

/-- C06 counterexample (known finding `C06/fra-pay-fixed-sign`): df(0)=1, df(1)=1/2 ⇒ forward 100 % over
[0,1]; a payer of K = 0 on notional 1 valued on day −1 (df = 1) is shown −1/2 instead of +1/2. -/
theorem fra_not_spec : ¬ FraMeetsSpec ℚ := by
  intro h
  have := h (fun d => if d = 1 then 1 / 2 else 1) (fun d => if d = 1 then 1 / 2 else 1) 0 1 1 0 1 true (-1)
    (by norm_num)
  rw [fra_value_eq_neg_spec _ _ _ _ _ _ _ _ _ (by norm_num)] at this
  simp [signed, fraFlows, pv_cons, pv_nil, Flow.amount, fwdRate] at this
  norm_num at this

/-- In the specification a FRA whose flow is paid on or before the valuation date is worth nothing … -/
theorem fra_spec_past_is_zero (df dfI : Int → K) (start mat : Int) (yf k N : K) (vd : Int) (h : mat ≤ vd) :
    pv df vd (fraFlows dfI start mat yf k N) = 0 := by
  unfold fraFlows
  rw [pv_cons, pv_nil]
  simp [not_lt.mpr h]

/-- … C06 counterexample (known finding `C06/fra-valued-after-maturity`): the code still values it. -/
theorem fra_past_flow_contributes :
    ¬ (∀ (df dfI : Int → ℚ) (start mat : Int) (yf k N : ℚ) (payFixed : Bool) (vd : Int), mat ≤ vd →
        fraValue df dfI start mat yf k N payFixed vd = 0) := by
  intro h
  have := h (fun d => if d = 1 then 1 / 2 else 1) (fun d => if d = 1 then 1 / 2 else 1) 0 1 1 0 1 false 5
    (by norm_num)
  simp [fraValue] at this
  norm_num at this

/-- FRA: pay = −receive, linear in the notional (as coded). -/
theorem fra_pay_eq_neg_receive (df dfI : Int → K) (start mat : Int) (yf k N : K) (vd : Int) :
    fraValue df dfI start mat yf k N true vd = - fraValue df dfI start mat yf k N false vd := by
  simp [fraValue]

theorem fra_linear_in_notional (df dfI : Int → K) (start mat : Int) (yf k N c : K) (b : Bool) (vd : Int) :
    fraValue df dfI start mat yf k (c * N) b vd = c * fraValue df dfI start mat yf k N b vd := by
  cases b <;> simp [fraValue] <;> ring

end field

/-! ### OIS.swap_rate -/

section ordered
variable {K : Type} [Field K] [LinearOrder K] [IsStrictOrderedRing K]

/-- `OIS.swap_rate` is the floating leg's value per unit notional (receiver's view) over the annuity —
for both leg types (the PAY sign of the floating leg is undone, commit 2a49ff7) — provided the coupon is not
zero (`pv01` still divides by it: open finding `C06/par-rate-coupon-zero`). -/
theorem ois_swap_rate_eq (df : Int → K) (idx : IndexCurve K) (ff : Option K) (vd : Int) (s : Bool)
    (cpn N spread : K) (fp lp : List (Period K)) (hc : cpn ≠ 0) (hN : N ≠ 0) (hA : 0 < annuity df vd fp) :
    oisSwapRate abs df idx ff (mkSwap s cpn N spread fp lp) vd
      = signed (!s) (floatValue df idx ff (mkSwap s cpn N spread fp lp).float vd) / annuity df vd fp / N := by
  have hp : pv01 abs df (mkSwap s cpn N spread fp lp) vd = annuity df vd fp := by
    rw [pv01_eq_abs_annuity df vd s cpn N spread fp lp hc hN, abs_of_pos hA]
  have hn : (mkSwap s cpn N spread fp lp).fixed.notional = N := rfl
  have hs : (mkSwap s cpn N spread fp lp).float.isPay = !s := rfl
  unfold oisSwapRate
  simp only [hp, hn, hs]
  cases s <;> simp [signed]

/-- C06 **par_rate_zeroes_value for OIS**: with a non-zero coupon and notional and a positive annuity, the
OIS struck at its own `swap_rate` (`set_fixed_rate`) is worth exactly zero — pay-fixed and receive-fixed
alike, for any curve, first fixing, spread, payment lag, schedules. -/
theorem ois_par_rate_zeroes_value (df : Int → K) (idx : IndexCurve K) (ff : Option K) (vd : Int) (s : Bool)
    (cpn N spread : K) (fp lp : List (Period K)) (hc : cpn ≠ 0) (hN : N ≠ 0) (hA : 0 < annuity df vd fp) :
    swapValue df idx ff (setFixedRate (mkSwap s cpn N spread fp lp)
        (oisSwapRate abs df idx ff (mkSwap s cpn N spread fp lp) vd)) vd = 0 := by
  have hA' : annuity df vd fp ≠ 0 := ne_of_gt hA
  have hfix : ∀ r : K, fixedValue df (setFixedRate (mkSwap s cpn N spread fp lp) r).fixed vd
      = signed s (r * N * annuity df vd fp) := by
    intro r
    have : (setFixedRate (mkSwap s cpn N spread fp lp) r).fixed = mkFixedLeg r N 0 s fp := rfl
    rw [this, fixed_value_closed]; simp
  have hfl : ∀ r : K, (setFixedRate (mkSwap s cpn N spread fp lp) r).float = (mkSwap s cpn N spread fp lp).float :=
    fun _ => rfl
  unfold swapValue
  rw [hfix, ois_swap_rate_eq df idx ff vd s cpn N spread fp lp hc hN hA]
  simp only [hfl]
  cases s
  · simp only [signed, Bool.false_eq_true, if_false, Bool.not_false, if_true]
    field_simp
    ring
  · simp only [signed, if_true, Bool.not_true, Bool.false_eq_true, if_false]
    field_simp
    ring

/-- Non-vacuity, on the witness that used to refute the statement before commit 2a49ff7: df(1) = 1/2, one
period [0,1], receive-fixed. -/
example : swapValue (fun d => if d = 1 then (1 / 2 : ℚ) else 1) ⟨fun d => if d = 1 then 1 / 2 else 1, fun _ _ => 1⟩ none
    (setFixedRate (mkSwap false 1 1 0 [⟨0, 1, 1, 1⟩] [⟨0, 1, 1, 1⟩])
      (oisSwapRate abs (fun d => if d = 1 then (1 / 2 : ℚ) else 1) ⟨fun d => if d = 1 then 1 / 2 else 1, fun _ _ => 1⟩
        none (mkSwap false 1 1 0 [⟨0, 1, 1, 1⟩] [⟨0, 1, 1, 1⟩]) 0)) 0 = 0 := by
  have hA : annuity (fun d => if d = 1 then (1 / 2 : ℚ) else 1) 0 [⟨0, 1, 1, 1⟩] = 1 / 2 := by
    simp [annuity, fixedCoupons, pv_cons, pv_nil, Flow.amount]
  exact ois_par_rate_zeroes_value _ _ _ _ _ _ _ _ _ _ (by norm_num) (by norm_num) (by rw [hA]; norm_num)

/-- At coupon 0 the OIS par rate is still undefined (`pv01 = 0/0`): over a field the rate degenerates to
`x / 0 = 0`, on IEEE doubles to nan — open finding `C06/par-rate-coupon-zero`. -/
theorem ois_swap_rate_zero_coupon (df : Int → K) (idx : IndexCurve K) (ff : Option K) (vd : Int) (s : Bool)
    (N spread : K) (fp lp : List (Period K)) :
    oisSwapRate abs df idx ff (mkSwap s 0 N spread fp lp) vd = 0 := by
  unfold oisSwapRate
  simp [pv01_zero_coupon]

end ordered

end FinVerif.Props.C06
